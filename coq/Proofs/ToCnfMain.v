(* C19 main lemmas: soundness, completeness, uniqueness of the Tseitin extension, header. *)
From Coq Require Import List ZArith Bool Lia Permutation.
From DD Require Import Model.Circuit Model.ToCnf Proofs.PassLemmas Proofs.Enum Proofs.Semantics
  Proofs.ToCnfBase Proofs.ToCnfInv Proofs.ToCnfRoot Proofs.ToCnfSem.
Import ListNotations.
Open Scope Z_scope.

Lemma to_cnf_ok_inv (C : circuit) (n : nat) (F : cnf) :
  to_cnf C n = Ok F ->
  exists st, run (length C) C (init_state n) = Done st /\
    F = if ts_idx st =? Z.of_nat n + 1 then mkCnf 0 []
        else cnf_of_clauses (flat_map clauses_of (ts_bics st) ++ [[ts_idx st - 1]]).
Proof.
  unfold to_cnf. destruct (run (length C) C (init_state n)) as [st|p]; [|discriminate].
  intros H. exists st. split; [reflexivity|].
  destruct (ts_idx st =? Z.of_nat n + 1); now inversion H.
Qed.

Lemma two_elements (l : list Z) : In 1 l -> In 2 l -> (2 <= length l)%nat.
Proof.
  destruct l as [|a [|b l]]; cbn; try tauto; [|lia].
  intros [H1|[]] [H2|[]]. lia.
Qed.

(* the size of a node's tree unfolding is at least the number of its leaves *)
Lemma vars_le_mu (C : circuit) :
  idx_ok C = true -> forall j, (j < length C)%nat -> (length (nth j (varss C) []) <= mu C j)%nat.
Proof.
  intros Hok.
  apply (idx_induction C (fun j => (length (nth j (varss C) []) <= mu C j)%nat) Hok).
  intros j Hj IH. rewrite (varss_unfold C Hok j Hj []), (mu_unfold C j Hok Hj).
  assert (Hsum : forall cs, (forall c, In c cs -> (length (nth c (varss C) []) <= mu C c)%nat) ->
                 (length (concat (map (fun c => nth c (varss C) []) cs)) <= musum C cs)%nat).
  { clear. induction cs as [|c cs IHc]; intros H; [cbn; lia|]. cbn [map concat musum fold_right].
    rewrite app_length. specialize (H c (or_introl eq_refl)) as Hc.
    assert (Hr : (length (concat (map (fun c => nth c (varss C) []) cs)) <= musum C cs)%nat)
      by (apply IHc; intros c' Hc'; apply H; now right).
    unfold musum in Hr. lia. }
  destruct (nth j C FalseN) as [l|cs|cs| |] eqn:E; cbn [vars_node mu_node children] in *;
    try (cbn; lia); specialize (Hsum cs IH); rewrite mu_of_children_cs;
    (destruct cs as [|c1 [|c2 cs]]; unfold mu_cs; [cbn in *; lia| |lia]);
    cbn [musum fold_right] in Hsum; lia.
Qed.

Lemma wf_mu_root (C : circuit) (n : nat) : CWF C n -> (2 <= n)%nat -> (2 <= mu C (root C))%nat.
Proof.
  intros HWF Hn. pose proof (complete_range C n (cwf_complete C n HWF)) as HV.
  rewrite last_varss_root in HV.
  pose proof (vars_le_mu C (cwf_idx C n HWF) (root C) (root_lt C (cwf_nonempty C n HWF))) as Hle.
  assert (2 <= length (nth (root C) (varss C) []))%nat; [|lia].
  apply two_elements; apply HV; lia.
Qed.

(* every variable below a node is the variable of some leaf of the vector *)
Lemma vars_leaf (C : circuit) :
  idx_ok C = true -> forall j, (j < length C)%nat ->
  forall v, In v (nth j (varss C) []) ->
  exists i l, (i < length C)%nat /\ nth i C FalseN = Lit l /\ Z.abs l = v.
Proof.
  intros Hok.
  apply (idx_induction C (fun j => forall v, In v (nth j (varss C) []) ->
          exists i l, (i < length C)%nat /\ nth i C FalseN = Lit l /\ Z.abs l = v) Hok).
  intros j Hj IH v Hv. rewrite (varss_unfold C Hok j Hj []) in Hv.
  destruct (nth j C FalseN) as [l|cs|cs| |] eqn:E; cbn [vars_node children] in *; try contradiction.
  - destruct Hv as [<-|[]]. now exists j, l.
  - apply in_concat in Hv. destruct Hv as [V [HV Hv]]. apply in_map_iff in HV.
    destruct HV as [c [<- Hc]]. now apply (IH c Hc).
  - apply in_concat in Hv. destruct Hv as [V [HV Hv]]. apply in_map_iff in HV.
    destruct HV as [c [<- Hc]]. now apply (IH c Hc).
Qed.

Lemma zseq_length a k : length (zseq a k) = k.
Proof. revert a. induction k as [|k IH]; intros a; cbn; [reflexivity|]. now rewrite IH. Qed.

Lemma length_of_range (l : list Z) (K : nat) :
  NoDup l -> (forall v, In v l <-> 1 <= v <= Z.of_nat K) -> length l = K.
Proof.
  intros Hnd H. rewrite <- (zseq_length 1 K). apply Permutation_length.
  apply NoDup_Permutation; [exact Hnd|apply zseq_NoDup|].
  intros v. rewrite H, zseq_In. lia.
Qed.

Section Final.
Variables (C : circuit) (n : nat) (st : tstate).
Let N := Z.of_nat n.
Hypothesis HWF : CWF C n.
Hypothesis Hreach : all_reachable C = true.
Hypothesis Hn : (2 <= n)%nat.
Hypothesis Hrun : run (length C) C (init_state n) = Done st.

Let Hne : C <> [] := cwf_nonempty C n HWF.
Let Hok : idx_ok C = true := cwf_idx C n HWF.
Let Hlits : lits_ok n C := wf_lits_ok C n HWF Hreach.
Let HS : Shape n C st := shape_run n (length C) C st Hok Hlits Hrun.
Let HN : Nodes C st := nodes_run n (length C) C st Hok Hlits Hrun.
Let Hmu2 : (2 <= mu C (root C))%nat := wf_mu_root C n HWF Hn.
Let Hroot : Lt st (root C) = ts_idx st - 1 := root_literal C n st Hne Hok Hreach Hlits Hrun Hmu2.

Definition final_cnf : cnf :=
  cnf_of_clauses (flat_map clauses_of (ts_bics st) ++ [[ts_idx st - 1]]).

Lemma idx_gt : N + 1 < ts_idx st.
Proof.
  pose proof (root_lit_tseitin C n st Hne Hok Hlits Hrun Hmu2) as H. fold N in H.
  rewrite Hroot in H. lia.
Qed.

Lemma final_is_result F :
  (F = if ts_idx st =? Z.of_nat n + 1 then mkCnf 0 []
       else cnf_of_clauses (flat_map clauses_of (ts_bics st) ++ [[ts_idx st - 1]])) ->
  F = final_cnf.
Proof.
  pose proof idx_gt as H. fold N.
  replace (ts_idx st =? N + 1) with false by (symmetry; apply Z.eqb_neq; lia). auto.
Qed.

Lemma bics_ordered : ordered N (ts_bics st).
Proof.
  split; [exact (sh_bidx n C st HS)|]. intros bc Hbc l Hl.
  destruct (sh_bic n C st HS bc Hbc) as [_ [Hi Hr]]. fold N in Hi, Hr. specialize (Hr l Hl). lia.
Qed.

Lemma idx_len : ts_idx st = N + 1 + Z.of_nat (length (ts_bics st)).
Proof. exact (sh_idx n C st HS). Qed.

Lemma cnf_sat_char (b : asg) :
  cnf_sat b final_cnf = forallb (bic_holds b) (ts_bics st) && b (ts_idx st - 1).
Proof.
  pose proof idx_gt as Hg.
  unfold cnf_sat, final_cnf, cnf_of_clauses. cbn [clauses].
  rewrite forallb_app, forallb_flat_map. f_equal.
  - apply forallb_ext_in. intros bc Hbc.
    destruct (sh_bic n C st HS bc Hbc) as [_ [Hi Hr]]. fold N in Hi, Hr.
    apply clauses_of_sat; [lia|]. intros l Hl. now apply Hr.
  - cbn. rewrite lit_true_pos by lia. now rewrite orb_false_r, andb_true_r.
Qed.

Lemma holds_all (b : asg) :
  forallb (bic_holds b) (ts_bics st) = true -> forall bc, In bc (ts_bics st) -> bic_holds b bc = true.
Proof. intros H. now rewrite forallb_forall in H. Qed.

Lemma root_value (b : asg) :
  (forall bc, In bc (ts_bics st) -> bic_holds b bc = true) -> b (ts_idx st - 1) = eval_root b C.
Proof.
  intros Hb. pose proof idx_gt as Hg. rewrite eval_root_nth.
  rewrite <- (literal_is_value C n st b Hok HS HN Hb (root C) (root_lt C Hne)).
  rewrite Hroot. now rewrite lit_true_pos by lia.
Qed.

(* (a) every satisfying assignment of the CNF is a model of the circuit *)
Theorem final_sound (b : asg) : cnf_sat b final_cnf = true -> eval_root b C = true.
Proof.
  rewrite cnf_sat_char. intros H. apply andb_true_iff in H. destruct H as [H1 H2].
  now rewrite <- (root_value b (holds_all b H1)).
Qed.

Lemma ext_agrees (s : asg) v : v <= N -> ext s (ts_bics st) v = s v.
Proof. intros Hv. apply (ext_off N); [exact bics_ordered|now left]. Qed.

Lemma eval_ext_same (s : asg) : eval_root (ext s (ts_bics st)) C = eval_root s C.
Proof.
  apply eval_root_ext. intros l Hl. apply ext_agrees. now apply (Hlits l).
Qed.

(* (b) existence: every model of the circuit extends to a satisfying assignment *)
Theorem final_complete (s : asg) :
  eval_root s C = true ->
  cnf_sat (ext s (ts_bics st)) final_cnf = true /\ forall v, v <= N -> ext s (ts_bics st) v = s v.
Proof.
  intros He. split; [|apply ext_agrees]. rewrite cnf_sat_char. apply andb_true_iff.
  pose proof (ext_holds N s (ts_bics st) bics_ordered) as Hh. split.
  - now apply forallb_forall.
  - now rewrite (root_value _ Hh), eval_ext_same.
Qed.

(* (b) uniqueness: the values of all Tseitin variables are determined by the values of 1..n *)
Theorem final_unique (s b' : asg) :
  cnf_sat b' final_cnf = true -> (forall v, 1 <= v <= N -> b' v = s v) ->
  forall v, 1 <= v < ts_idx st -> b' v = ext s (ts_bics st) v.
Proof.
  rewrite cnf_sat_char. intros H Hs v Hv. apply andb_true_iff in H. destruct H as [H1 _].
  apply (ext_unique N); [exact bics_ordered|exact (holds_all b' H1)|exact Hs|].
  rewrite <- idx_len. exact Hv.
Qed.

(* ---------- header ---------- *)

(* a feature literal of a non-root node occurs in some biconditional *)
Lemma feature_literal_used : forall d j, (root C - j <= d)%nat -> (j <= root C)%nat ->
  Z.abs (Lt st j) <= N -> exists bc, In bc (ts_bics st) /\ In (Lt st j) (b_lits bc).
Proof.
  pose proof (root_lit_tseitin C n st Hne Hok Hlits Hrun Hmu2) as Hrt. fold N in Hrt.
  pose proof (root_lt C Hne) as Hrl.
  induction d as [|d IH]; intros j Hd Hj Habs.
  - replace j with (root C) in Habs by lia. lia.
  - destruct (Nat.eq_dec j (root C)) as [->|Hneq]; [lia|].
    destruct (parent_exists C j Hok Hreach ltac:(lia)) as [p [Hp Hc]].
    destruct (children_op _ _ Hc) as [op [cs [Hop Hin]]].
    destruct (nd_node C st HN p ltac:(lia)) as [_ H4].
    destruct (H4 op cs Hop) as [Hs Hm].
    destruct cs as [|c1 [|c2 cs]]; [destruct Hin| |].
    + destruct Hin as [->|[]]. rewrite <- (Hs j eq_refl). apply IH; try lia. now rewrite (Hs j eq_refl).
    + specialize (Hm ltac:(cbn; lia)). eexists. split; [exact Hm|]. cbn [b_lits].
      apply in_map_iff. now exists j.
Qed.

Lemma in_clauses_of l bc :
  In l (concat (clauses_of bc)) ->
  Z.abs l = Z.abs (b_index bc) \/ exists l', In l' (b_lits bc) /\ Z.abs l = Z.abs l'.
Proof.
  unfold clauses_of. destruct (b_op bc); cbn [concat]; rewrite in_app_iff; intros [H|H].
  - destruct H as [<-|H]; [left; lia|]. apply in_map_iff in H. destruct H as [l' [<- Hl']].
    right. exists l'. split; [exact Hl'|lia].
  - apply in_concat in H. destruct H as [c [Hc Hl]]. apply in_map_iff in Hc. destruct Hc as [l' [<- Hl']].
    destruct Hl as [<-|[<-|[]]]; [left; lia|right; now exists l'].
  - destruct H as [<-|H]; [left; lia|]. right. now exists l.
  - apply in_concat in H. destruct H as [c [Hc Hl]]. apply in_map_iff in Hc. destruct Hc as [l' [<- Hl']].
    destruct Hl as [<-|[<-|[]]]; [left; lia|right; exists l'; split; [exact Hl'|lia]].
Qed.

Lemma clauses_of_mentions bc :
  In (Z.abs (b_index bc)) (map Z.abs (concat (clauses_of bc))) /\
  forall l, In l (b_lits bc) -> In (Z.abs l) (map Z.abs (concat (clauses_of bc))).
Proof.
  unfold clauses_of. destruct (b_op bc); cbn [concat]; split.
  - apply in_map. apply in_app_iff. left. now left.
  - intros l Hl. rewrite <- (Z.abs_opp l). apply in_map. apply in_app_iff. left. right. now apply in_map.
  - rewrite <- (Z.abs_opp (b_index bc)). apply in_map. apply in_app_iff. left. now left.
  - intros l Hl. apply in_map. apply in_app_iff. left. now right.
Qed.

Lemma concat_flat_map {A B} (f : A -> list (list B)) l :
  concat (flat_map f l) = flat_map (fun x => concat (f x)) l.
Proof. induction l as [|x l IH]; [reflexivity|]. cbn. now rewrite concat_app, IH. Qed.

(* the variables occurring in the clause list are exactly 1 .. tseitin_index - 1 *)
Lemma final_vars v :
  In v (map Z.abs (concat (clauses final_cnf))) <-> 1 <= v <= ts_idx st - 1.
Proof.
  pose proof idx_gt as Hg. pose proof (root_lt C Hne) as Hrl.
  unfold final_cnf, cnf_of_clauses. cbn [clauses].
  rewrite concat_app, map_app, in_app_iff, concat_flat_map. split.
  - intros [H|H].
    + apply in_map_iff in H. destruct H as [l [<- Hl]]. apply in_flat_map in Hl.
      destruct Hl as [bc [Hbc Hl]]. destruct (sh_bic n C st HS bc Hbc) as [_ [Hi Hr]]. fold N in Hi, Hr.
      destruct (in_clauses_of l bc Hl) as [E|[l' [Hl' E]]]; [lia|].
      specialize (Hr l' Hl'). lia.
    + cbn in H. destruct H as [<-|[]]. lia.
  - intros Hv. left. destruct (Z_le_gt_dec v N) as [Hf|Ht].
    + (* a feature: it is the variable of a leaf, whose literal is used by a biconditional *)
      pose proof (complete_range C n (cwf_complete C n HWF)) as HV. rewrite last_varss_root in HV.
      assert (Hin : In v (nth (root C) (varss C) [])) by (apply HV; fold N; lia).
      destruct (vars_leaf C Hok (root C) Hrl v Hin) as [i [l [Hi [Hnth Habs]]]].
      destruct (nd_node C st HN i Hi) as [H1 _]. specialize (H1 l Hnth).
      destruct (feature_literal_used (root C) i ltac:(lia) ltac:(unfold root; lia)) as [bc [Hbc Hl]];
        [rewrite H1; lia|].
      rewrite H1 in Hl. rewrite <- Habs.
      apply in_map_iff. destruct (clauses_of_mentions bc) as [_ Hm]. specialize (Hm l Hl).
      apply in_map_iff in Hm. destruct Hm as [l0 [E Hl0]]. exists l0. split; [exact E|].
      apply in_flat_map. now exists bc.
    + destruct (bic_of_index C n st Hok Hlits Hrun Hmu2 v ltac:(fold N; lia)) as [bc [Hbc Hi]].
      destruct (clauses_of_mentions bc) as [Hm _]. rewrite Hi in Hm. rewrite Z.abs_eq in Hm by lia.
      apply in_map_iff in Hm. destruct Hm as [l0 [E Hl0]]. apply in_map_iff. exists l0. split; [exact E|].
      apply in_flat_map. now exists bc.
Qed.

Theorem final_num_variables : Z.of_nat (num_variables final_cnf) = ts_idx st - 1.
Proof.
  pose proof idx_gt as Hg.
  assert (H : num_variables final_cnf = Z.to_nat (ts_idx st - 1)).
  { change (num_variables final_cnf) with
      (length (nodup Z.eq_dec (map Z.abs (concat (clauses final_cnf))))).
    apply length_of_range; [apply NoDup_nodup|]. intros v. rewrite nodup_In, final_vars. lia. }
  rewrite H. lia.
Qed.

End Final.
