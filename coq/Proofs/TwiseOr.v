(* C09 pipeline: the or-merge (SimilarityMerger).  The merged sample consists of configurations of
   the two sides; a candidate is dropped only when every min(t,len)-subset of its literals is already
   covered, so nothing that either side covered (with at most t literals) gets lost. *)
From Coq Require Import List ZArith Bool Arith Lia Permutation.
From DD Require Import Model.Circuit Model.Query Model.TwiseCfg Model.TwiseMerge Proofs.PassLemmas
  Proofs.Semantics Proofs.CountsA Proofs.QueryDefs Proofs.C03Proof Proofs.TwiseBase Proofs.TwiseSem
  Proofs.TwiseCfgProof Proofs.TwiseInv Proofs.TwiseAnd.
Import ListNotations.
Open Scope Z_scope.

(* ---------- argmax ---------- *)
Lemma argmax_from_spec : forall l k best,
  (forall i c, best = Some (i, c) -> (i < k)%nat) ->
  match argmax_from k l best with
  | None => best = None /\ l = []
  | Some (i, _) => (i < k + length l)%nat
  end.
Proof.
  induction l as [|c l IH]; intros k best Hb; cbn [argmax_from].
  - destruct best as [[i c]|]; [|auto]. rewrite Nat.add_0_r. now apply (Hb i c).
  - set (best' := match best with None => Some (k, c) | Some (_, b) => if cd_le b c then Some (k, c) else best end).
    specialize (IH (S k) best').
    assert (Hb' : forall i c0, best' = Some (i, c0) -> (i < S k)%nat).
    { intros i c0 E. unfold best' in E. destruct best as [[j b]|].
      - destruct (cd_le b c); [injection E as <- _; lia|]. specialize (Hb i c0 E). lia.
      - injection E as <- _. lia. }
    specialize (IH Hb'). destruct (argmax_from (S k) l best') as [[i c0]|].
    + cbn [length]. lia.
    + destruct IH as [E _]. unfold best' in E. destruct best as [[j b]|]; [destruct (cd_le b c)|]; discriminate.
Qed.

Lemma argmax_some l idx : argmax l = Some idx -> (idx < length l)%nat.
Proof.
  unfold argmax. intros H. pose proof (argmax_from_spec l 0%nat None ltac:(intros i c E; discriminate)) as Hs.
  destruct (argmax_from 0 l None) as [[i c]|]; [|discriminate]. cbn in H. injection H as <-. exact Hs.
Qed.

Lemma argmax_none l : argmax l = None -> l = [].
Proof.
  unfold argmax. intros H. pose proof (argmax_from_spec l 0%nat None ltac:(intros i c E; discriminate)) as Hs.
  destruct (argmax_from 0 l None) as [[i c]|]; [discriminate|]. tauto.
Qed.

Section Or.
Variables (C : circuit) (n : nat) (t : nat).
Hypothesis HQ : WFQ C n.

Notation valid := (valid C).
Notation V := (V C).
Notation CfgOK := (CfgOK C n).
Notation SampOK := (SampOK C n).

Variables (p : nat) (W : list Z).
Hypothesis Hp : (p < length C)%nat.
Hypothesis HW : incl W (V p).

(* a candidate: its configuration is fine, literals = decided literals, and max_intersect is
   realised by some configuration already taken (or is 0) *)
Definition MaxOK (Sm : sample) (c : cand) : Prop :=
  cd_max c = 0%nat \/
  exists x, In x (s_iter Sm) /\ cd_max c = length (filter (fun l => memZ l (c_decided x)) (cd_lits c)).

Definition CandOK (Sm : sample) (c : cand) : Prop :=
  CfgOK p W (cd_cfg c) /\ cd_lits c = c_decided (cd_cfg c) /\ MaxOK Sm c.

Definition Pend (cands : list cand) (Sm : sample) (I : cfg) : Prop :=
  Covers Sm I \/ exists c, In c cands /\ incl I (cd_lits c).

Lemma update_lits o c : cd_lits (cd_update o c) = cd_lits c.
Proof. reflexivity. Qed.
Lemma update_cfg o c : cd_cfg (cd_update o c) = cd_cfg c.
Proof. reflexivity. Qed.

Lemma filter_all_length {A} (f : A -> bool) (l : list A) :
  length (filter f l) = length l -> forall x, In x l -> f x = true.
Proof.
  induction l as [|a l IH]; intros H x Hx; [destruct Hx|]. cbn in H. destruct (f a) eqn:E.
  - cbn in H. destruct Hx as [<-|Hx]; [exact E|]. apply IH; [lia|exact Hx].
  - pose proof (filter_length_le' f l). lia.
Qed.

(* is_t_wise_covered_by = true: every duplicate-free part of the candidate with at most t literals
   is covered *)
Lemma covered_spec Sm c : SampOK p W Sm -> s_iter Sm <> [] -> CandOK Sm c -> cd_covered t c Sm = true ->
  forall I, NoDup I -> incl I (cd_lits c) -> (length I <= t)%nat -> Covers Sm I.
Proof.
  intros HS Hne Hcand Hcov I HI Hinc Hlen. unfold CandOK in Hcand. destruct Hcand as [Hok [Hl Hmax]].
  unfold cd_covered in Hcov.
  pose proof (ok_wf _ _ _ _ _ Hok) as Hwf.
  destruct (Nat.eqb_spec (cd_max c) (length (cd_lits c))) as [E|E].
  - destruct Hmax as [H0|[x [Hx Hm]]].
    + assert (Hnil : cd_lits c = []) by (destruct (cd_lits c); [reflexivity|cbn in E; lia]).
      destruct (s_iter Sm) as [|x l] eqn:Ex; [congruence|]. unfold Covers, CovL. exists x. split; [rewrite Ex; now left|].
      intros y Hy. apply Hinc in Hy. rewrite Hnil in Hy. destruct Hy.
    + exists x. split; [exact Hx|]. intros y Hy. apply Hinc in Hy.
      assert (Hall := filter_all_length _ _ (eq_trans (eq_sym Hm) E) y Hy). now apply memZ_In.
  - destruct ((t <=? length (cd_lits c))%nat && (cd_max c <? t)%nat); [discriminate|].
    rewrite forallb_forall in Hcov. rewrite <- Hl in Hcov.
    set (k := Nat.min t (length (cd_lits c))) in *.
    assert (Hnd : NoDup (cd_lits c)) by (rewrite Hl; now apply dec_nodup with (n := n)).
    assert (Hlen' : (length I <= length (cd_lits c))%nat) by now apply NoDup_incl_length.
    destruct (extend_sub I (cd_lits c) k HI Hnd Hinc ltac:(lia)) as [J [HJ1 [HJ2 [HJ3 HJ4]]]].
    destruct (tints_covers (cd_lits c) k J HJ1 HJ3 HJ4) as [o [Ho Hperm]].
    specialize (Hcov o Ho).
    assert (Hor : forall l, In l o -> l <> 0 /\ inr n l).
    { intros l Hl'. apply tints_in in Ho. destruct Ho as [_ Ho]. apply Ho in Hl'. rewrite Hl in Hl'.
      destruct (dec_inr n _ l Hwf Hl'). tauto. }
    apply (s_covers_spec C n p W Sm o HS Hor) in Hcov.
    apply (Covers_mono Sm I o); [|exact Hcov].
    intros l Hl'. apply (Permutation_in l (Permutation_sym Hperm)). now apply HJ2.
Qed.

Lemma MaxOK_grow Sm Sm' c : (forall x, In x (s_iter Sm) -> In x (s_iter Sm')) -> MaxOK Sm c -> MaxOK Sm' c.
Proof. intros Hsub [H|[x [Hx Hm]]]; [now left|right; exists x; auto]. Qed.

Lemma MaxOK_update Sm x c : In x (s_iter Sm) -> MaxOK Sm c -> MaxOK Sm (cd_update (c_decided x) c).
Proof.
  intros Hx Hm. unfold MaxOK, cd_update. cbn [cd_max cd_lits].
  set (k := length (filter (fun l => memZ l (c_decided x)) (cd_lits c))).
  destruct (Nat.max_spec k (cd_max c)) as [[_ ->]|[_ ->]]; [exact Hm|].
  right. exists x. split; [exact Hx|reflexivity].
Qed.

Lemma sim_loop_spec : forall fuel cands Sm,
  length cands = fuel -> SampOK p W Sm -> s_iter Sm <> [] -> Forall (CandOK Sm) cands ->
  let S' := sim_loop t fuel cands Sm in
  SampOK p W S' /\ s_vars S' = s_vars Sm /\ s_iter S' <> [] /\
  (forall I, NoDup I -> (length I <= t)%nat -> Pend cands Sm I -> Covers S' I).
Proof.
  induction fuel as [|f IH]; intros cands Sm Hlen HS Hne Hc; cbn [sim_loop]; cbv zeta.
  - split; [exact HS|]. split; [reflexivity|]. split; [exact Hne|].
    intros I _ _ [H|[c [Hc' _]]]; [exact H|]. destruct cands; [destruct Hc'|discriminate].
  - destruct (argmax cands) as [idx|] eqn:Ea.
    2:{ apply argmax_none in Ea. subst. discriminate. }
    pose proof (argmax_some cands idx Ea) as Hidx.
    destruct (nth_error cands idx) as [next|] eqn:En.
    2:{ apply nth_error_None in En. lia. }
    assert (Hnext : In next cands) by now apply nth_error_In with (n := idx).
    rewrite Forall_forall in Hc. pose proof (Hc next Hnext) as Hnok.
    assert (Hlen' : length (swap_remove idx cands) = f).
    { rewrite swap_remove_length; [lia|]. intros ->. destruct Hnext. }
    destruct (cd_covered t next Sm) eqn:Ecov.
    + destruct (IH (swap_remove idx cands) Sm Hlen' HS Hne) as [G1 [G2 [G3 G4]]].
      { apply Forall_forall. intros x Hx. apply Hc. now apply swap_remove_In in Hx. }
      cbv zeta in *. split; [exact G1|]. split; [exact G2|]. split; [exact G3|].
      intros I HI HIl [Hcv|[c [Hc' Hinc]]]; [apply G4; auto; now left|].
      destruct (swap_remove_keeps idx cands next c En Hc') as [->|Hk].
      * apply G4; auto. left. exact (covered_spec Sm next HS Hne Hnok Ecov I HI Hinc HIl).
      * apply G4; auto. right. now exists c.
    + destruct Hnok as [Hnok1 [Hnok2 Hnok3]].
      set (Sm' := s_add Sm (cd_cfg next)).
      assert (HS' : SampOK p W Sm') by now apply s_add_ok.
      assert (Hsub : forall x, In x (s_iter Sm) -> In x (s_iter Sm')) by (intros x Hx; apply s_add_iter; now right).
      assert (Hin' : In (cd_cfg next) (s_iter Sm')) by (apply s_add_iter; now left).
      assert (Hne' : s_iter Sm' <> []) by (intros E; rewrite E in Hin'; destruct Hin').
      destruct (IH (map (cd_update (cd_lits next)) (swap_remove idx cands)) Sm') as [G1 [G2 [G3 G4]]];
        [now rewrite map_length|exact HS'|exact Hne'| |].
      { apply Forall_forall. intros x Hx. apply in_map_iff in Hx. destruct Hx as [x0 [<- Hx0]].
        apply swap_remove_In in Hx0. destruct (Hc x0 Hx0) as [A1 [A2 A3]]. split; [exact A1|]. split; [exact A2|].
        rewrite Hnok2. apply MaxOK_update; [exact Hin'|]. now apply (MaxOK_grow Sm). }
      cbv zeta in *. split; [exact G1|]. split; [rewrite G2; apply s_add_vars|]. split; [exact G3|].
      intros I HI HIl [Hcv|[c [Hc' Hinc]]].
      * apply G4; auto. left. destruct Hcv as [x [Hx Hxi]]. exists x. split; [now apply Hsub|exact Hxi].
      * destruct (swap_remove_keeps idx cands next c En Hc') as [->|Hk].
        -- apply G4; auto. left. exists (cd_cfg next). split; [exact Hin'|]. now rewrite <- Hnok2.
        -- apply G4; auto. right. exists (cd_update (cd_lits next) c). split; [now apply in_map|exact Hinc].
Qed.

(* SimilarityMerger::merge on two non-empty samples over the same variables *)
Lemma or_merge_spec L R : SampOK p W L -> SampOK p W R -> s_iter L <> [] -> s_iter R <> [] ->
  let S' := or_merge t L R in
  SampOK p W S' /\ s_iter S' <> [] /\
  (forall I, NoDup I -> (length I <= t)%nat -> Covers L I \/ Covers R I -> Covers S' I).
Proof.
  intros HL HR HLn HRn. unfold or_merge.
  assert (EL : s_is_empty L = false).
  { destruct (s_is_empty L) eqn:E; [|reflexivity]. apply s_is_empty_iter in E. congruence. }
  assert (ER : s_is_empty R = false).
  { destruct (s_is_empty R) eqn:E; [|reflexivity]. apply s_is_empty_iter in E. congruence. }
  rewrite EL, ER. cbv zeta.
  set (S0 := s_new_from [L; R]).
  assert (HS0 : SampOK p W S0).
  { constructor.
    - unfold S0. rewrite s_new_from2_vars. apply zunion_NoDup; [apply HL|apply HR].
    - intros v. unfold S0. rewrite s_new_from2_vars, zunion_In, (so_vars _ _ _ _ _ HL), (so_vars _ _ _ _ _ HR). tauto.
    - constructor.
    - intros c []. }
  set (cands := map cd_new (s_iter L ++ s_iter R)).
  assert (Hcfgs : forall c, In c (s_iter L ++ s_iter R) -> CfgOK p W c).
  { intros c Hc. apply in_app_iff in Hc. pose proof (so_cfgs _ _ _ _ _ HL) as A. pose proof (so_cfgs _ _ _ _ _ HR) as B.
    rewrite Forall_forall in A, B. destruct Hc; auto. }
  destruct (rev cands) as [|next r] eqn:Er.
  { exfalso. apply (f_equal (@rev cand)) in Er. rewrite rev_involutive in Er. cbn in Er. unfold cands in Er.
    destruct (s_iter L); [congruence|discriminate]. }
  assert (Hcands : cands = rev r ++ [next]) by (rewrite <- (rev_involutive cands), Er; reflexivity).
  assert (Hrl : removelast cands = rev r) by (rewrite Hcands; apply removelast_last).
  rewrite Hrl.
  assert (Hincands : forall c, In c cands -> exists c0, In c0 (s_iter L ++ s_iter R) /\ c = cd_new c0).
  { intros c Hc. unfold cands in Hc. apply in_map_iff in Hc. destruct Hc as [c0 [<- Hc0]]. now exists c0. }
  assert (Hnext : In next cands) by (rewrite Hcands; apply in_app_iff; right; now left).
  destruct (Hincands next Hnext) as [n0 [Hn0 En0]].
  set (S1 := s_add S0 (cd_cfg next)).
  assert (Hncfg : cd_cfg next = n0) by (rewrite En0; reflexivity).
  assert (Hnl : cd_lits next = c_decided n0) by (rewrite En0; reflexivity).
  assert (HS1 : SampOK p W S1) by (apply s_add_ok; [exact HS0|rewrite Hncfg; now apply Hcfgs]).
  assert (Hin1 : In n0 (s_iter S1)) by (apply s_add_iter; left; now symmetry).
  assert (Hne1 : s_iter S1 <> []) by (intros E; rewrite E in Hin1; destruct Hin1).
  destruct (sim_loop_spec (length (map (cd_update (cd_lits next)) (rev r)))
              (map (cd_update (cd_lits next)) (rev r)) S1 eq_refl HS1 Hne1) as [G1 [G2 [G3 G4]]].
  { apply Forall_forall. intros x Hx. apply in_map_iff in Hx. destruct Hx as [x0 [<- Hx0]].
    assert (Hx0c : In x0 cands) by (rewrite Hcands; apply in_app_iff; now left).
    destruct (Hincands x0 Hx0c) as [c0 [Hc0 ->]].
    split; [cbn; now apply Hcfgs|]. split; [reflexivity|].
    rewrite Hnl. apply MaxOK_update; [exact Hin1|]. now left. }
  cbv zeta in *. split; [exact G1|]. split; [exact G3|].
  intros I HI HIl Hcv. apply G4; auto.
  assert (Hc : exists c, In c (s_iter L ++ s_iter R) /\ incl I (c_decided c)).
  { destruct Hcv as [[c [Hc Hi]]|[c [Hc Hi]]]; exists c; (split; [apply in_app_iff; auto|exact Hi]). }
  destruct Hc as [c [Hc Hi]].
  assert (Hcc : In (cd_new c) cands) by (unfold cands; now apply in_map).
  rewrite Hcands in Hcc. apply in_app_iff in Hcc. destruct Hcc as [Hcc|[Hcc|[]]].
  - right. exists (cd_update (cd_lits next) (cd_new c)). split; [now apply in_map|exact Hi].
  - left. exists n0. split; [exact Hin1|]. rewrite <- Hnl, Hcc. exact Hi.
Qed.

(* merge_all: fold from the default sample *)
Definition AccO (Ss : list sample) (A : sample) : Prop :=
  (s_iter A = [] /\ Ss = []) \/
  (SampOK p W A /\ s_iter A <> [] /\
   forall S I, In S Ss -> NoDup I -> (length I <= t)%nat -> Covers S I -> Covers A I).

Lemma or_merge_all_spec : forall Ss done acc,
  Forall (fun S => SampOK p W S /\ s_iter S <> []) Ss -> AccO done acc ->
  AccO (done ++ Ss) (fold_left (or_merge t) Ss acc).
Proof.
  induction Ss as [|S Ss IH]; intros done acc HSs Hacc; cbn [fold_left].
  - now rewrite app_nil_r.
  - inversion HSs as [|? ? [HS HSn] HSs']; subst.
    replace (done ++ S :: Ss) with ((done ++ [S]) ++ Ss) by (rewrite <- app_assoc; reflexivity).
    apply IH; [exact HSs'|].
    destruct Hacc as [[Ea ->]|[Ha [Han Hcov]]].
    + unfold or_merge. assert (E : s_is_empty acc = true) by now apply s_is_empty_iter. rewrite E.
      right. split; [exact HS|]. split; [exact HSn|]. intros S0 I [<-|[]] _ _ H. exact H.
    + destruct (or_merge_spec acc S Ha HS Han HSn) as [G1 [G2 G3]]. cbv zeta in *.
      right. split; [exact G1|]. split; [exact G2|].
      intros S0 I HS0 HI HIl Hc. apply in_app_iff in HS0. apply G3; auto.
      destruct HS0 as [HS0|[<-|[]]]; [left; now apply (Hcov S0 I)|now right].
Qed.

End Or.
