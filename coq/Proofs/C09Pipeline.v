(* C09, partial part: lemmas about the abstract steps of Model/TwiseSteps.v under an EXACT SAT oracle,
   and the instantiation of that oracle by the proved SAT model (Proofs/C03Proof.v).
   What is NOT here: or-merge / and-zip / trim as executed by the Rust (documented statements at the
   end of this file); the composition into a theorem about sample_t_wise. *)
From Coq Require Import List ZArith Bool Lia Permutation.
From DD Require Import Model.Circuit Model.Query Model.TwiseSteps Proofs.Semantics Proofs.CountsA
  Proofs.QueryDefs Proofs.C03Proof Proofs.Enum Spec.TwiseOk Proofs.TwiseOkProof.
Import ListNotations.
Open Scope Z_scope.

Section Abstract.
  Variable ok : cfg -> bool.
  Variable M : list cfg.                       (* the models of the (sub-)root *)
  Variable compat : cfg -> cfg -> Prop.        (* "the literal list A is consistent with model m" *)
  Variable R : cfg -> Prop.                    (* literal lists the oracle is exact on (in range) *)
  Definition Ext (A : cfg) : Prop := exists m, In m M /\ compat A m.
  Hypothesis R_app : forall A B, R A -> R B -> R (A ++ B).
  Hypothesis ok_exact : forall A, R A -> (ok A = true <-> Ext A).

  Definition Inv (S : list cfg) : Prop := Forall (fun c => R c /\ Ext c) S.

  Lemma cover_inv : forall P I P', Inv P -> R I -> cover ok P I = Some P' ->
    Inv P' /\ (exists c, In c P' /\ incl I c) /\
    (forall J, covers P J = true -> covers P' J = true).
  Proof.
    induction P as [|c P IH]; intros I P' HP HI Hc; [discriminate|].
    inversion HP as [|? ? [Hrc Hec] HP']; subst. cbn [cover] in Hc.
    assert (Hrec : forall P0, option_map (cons c) (cover ok P I) = Some P0 ->
              Inv P0 /\ (exists c0, In c0 P0 /\ incl I c0) /\
              (forall J, covers (c :: P) J = true -> covers P0 J = true)).
    { intros P0 H0. destruct (cover ok P I) as [P1|] eqn:E1; [|discriminate]. injection H0 as <-.
      destruct (IH I P1 HP' HI E1) as [H1 [[c0 [H2 H3]] H4]]. split; [|split].
      - constructor; [split; assumption|exact H1].
      - exists c0. split; [now right|exact H3].
      - intros J HJ. cbn [covers existsb] in *. apply orb_true_iff in HJ. apply orb_true_iff.
        destruct HJ as [HJ|HJ]; [now left|right; now apply H4]. }
    destruct (conflicts c I); [now apply Hrec|].
    destruct (ok (c ++ I)) eqn:Eok; [|now apply Hrec].
    injection Hc as <-. split; [|split].
    - constructor; [|exact HP']. split; [now apply R_app|]. apply ok_exact; [now apply R_app|exact Eok].
    - exists (c ++ I). split; [now left|]. intros l Hl. apply in_or_app. now right.
    - intros J HJ. cbn [covers existsb] in *. apply orb_true_iff in HJ. apply orb_true_iff.
      destruct HJ as [HJ|HJ]; [left|now right].
      apply contains_all_incl. apply contains_all_incl in HJ. intros l Hl. apply in_or_app. left. now apply HJ.
  Qed.

  (* C09_cover_step *)
  Theorem cover_step : forall Cs P I Cs' P',
    Inv (Cs ++ P) -> R I -> cover_with_caching ok Cs P I = (Cs', P') ->
    Inv (Cs' ++ P') /\
    (Ext I -> exists c, In c (Cs' ++ P') /\ incl I c) /\
    (forall J, covers (Cs ++ P) J = true -> covers (Cs' ++ P') J = true).
  Proof.
    intros Cs P I Cs' P' HInv HI H. unfold cover_with_caching in H.
    destruct (covers (Cs ++ P) I) eqn:Ecov.
    - injection H as <- <-. split; [exact HInv|split; [|auto]].
      intros _. unfold covers in Ecov. apply existsb_exists in Ecov. destruct Ecov as [c [H1 H2]].
      exists c. split; [exact H1|now apply contains_all_incl].
    - destruct (ok I) eqn:Eok; cbn [negb] in H.
      + apply Forall_app in HInv. destruct HInv as [HCs HP].
        destruct (cover ok P I) as [P1|] eqn:Ec; injection H as <- <-.
        * destruct (cover_inv P I P1 HP HI Ec) as [H1 [[c [H2 H3]] H4]]. split; [|split].
          -- apply Forall_app. split; assumption.
          -- intros _. exists c. split; [apply in_or_app; now right|exact H3].
          -- intros J HJ. unfold covers in *. rewrite existsb_app in *. apply orb_true_iff in HJ.
             apply orb_true_iff. destruct HJ as [HJ|HJ]; [now left|right; now apply H4].
        * split; [|split].
          -- apply Forall_app. split; [exact HCs|]. apply Forall_app. split; [exact HP|].
             constructor; [|constructor]. split; [exact HI|]. now apply ok_exact.
          -- intros _. exists I. split; [|apply incl_refl]. apply in_or_app. right. apply in_or_app. right. now left.
          -- intros J HJ. unfold covers in *. rewrite !existsb_app in *. apply orb_true_iff in HJ.
             apply orb_true_iff. destruct HJ as [HJ|HJ]; [now left|right]. apply orb_true_iff. now left.
      + injection H as <- <-. split; [exact HInv|split; [|auto]].
        intros HE. apply ok_exact in HE; [congruence|exact HI].
  Qed.

  (* ---- completion ---- *)
  Variable vs : list Z.
  Hypothesis compat_app : forall A B m, compat (A ++ B) m <-> compat A m /\ compat B m.
  Hypothesis R_lit : forall v, In v vs -> R [v] /\ R [- v].
  (* every model decides every feature *)
  Hypothesis M_total : forall m v, In m M -> In v vs -> compat [v] m \/ compat [- v] m.

  (* C09_complete *)
  Theorem complete_step : forall ws c, incl ws vs -> R c -> Ext c ->
    let c' := complete_cfg ok ws c in
    R c' /\ Ext c' /\ incl c c' /\ (forall v, In v ws -> has_var c' v = true).
  Proof.
    induction ws as [|v ws IH]; intros c Hws Hc He; cbn [complete_cfg].
    - repeat split; try assumption; [apply incl_refl|intros v []].
    - assert (Hv : In v vs) by (apply Hws; now left).
      assert (Hws' : incl ws vs) by (intros w Hw; apply Hws; now right).
      assert (Hmono : forall c0 c1, incl c0 c1 -> forall w, has_var c0 w = true -> has_var c1 w = true).
      { intros c0 c1 Hi w Hw. unfold has_var in *. apply orb_true_iff in Hw. apply orb_true_iff.
        destruct Hw as [Hw|Hw]; [left|right]; apply memZ_In; apply memZ_In in Hw; now apply Hi. }
      destruct (has_var c v) eqn:Ehv.
      + destruct (IH c Hws' Hc He) as [H1 [H2 [H3 H4]]]. repeat split; try assumption.
        intros w [<-|Hw]; [now apply (Hmono c)|now apply H4].
      + destruct (R_lit v Hv) as [Rp Rn].
        assert (Hnext : forall l, (l = v \/ l = - v) -> R (c ++ [l]) -> Ext (c ++ [l]) ->
                  let c' := complete_cfg ok ws (c ++ [l]) in
                  R c' /\ Ext c' /\ incl c c' /\ (forall w, In w (v :: ws) -> has_var c' w = true)).
        { intros l Hl HR HE. destruct (IH (c ++ [l]) Hws' HR HE) as [H1 [H2 [H3 H4]]].
          repeat split; try assumption.
          - intros x Hx. apply H3. apply in_or_app. now left.
          - intros w [<-|Hw]; [|now apply H4].
            apply (Hmono (c ++ [l])); [exact H3|]. unfold has_var. apply orb_true_iff.
            destruct Hl as [->| ->]; [left|right]; apply memZ_In; apply in_or_app; right; now left. }
        destruct (ok (c ++ [v])) eqn:Eok.
        * apply Hnext; [now left|now apply R_app|]. apply ok_exact; [now apply R_app|exact Eok].
        * apply Hnext; [now right|now apply R_app|].
          destruct He as [m [Hm Hcm]]. exists m. split; [exact Hm|]. apply compat_app. split; [exact Hcm|].
          destruct (M_total m v Hm Hv) as [Hp|Hn]; [|exact Hn]. exfalso.
          assert (Ext (c ++ [v])) by (exists m; split; [exact Hm|apply compat_app; now split]).
          apply ok_exact in H; [congruence|now apply R_app].
  Qed.
End Abstract.

(* ---------- instantiation at the root: ok = sat (build C n), proved exact in C03 ---------- *)
Lemma MCA_pos_iff C n A : 0 < MCA C n A <-> exists m, In m (Models C n) /\ incl A m.
Proof.
  unfold MCA, ModelsA. split.
  - intros H. destruct (filter (contains_all A) (Models C n)) as [|m l] eqn:E; [cbn in H; lia|].
    assert (Hin : In m (filter (contains_all A) (Models C n))) by (rewrite E; now left).
    apply filter_In in Hin. destruct Hin as [H1 H2]. exists m. split; [exact H1|now apply contains_all_incl].
  - intros [m [H1 H2]].
    assert (Hin : In m (filter (contains_all A) (Models C n))).
    { apply filter_In. split; [exact H1|now apply contains_all_incl]. }
    destruct (filter (contains_all A) (Models C n)); [destruct Hin|cbn; lia].
Qed.

Lemma in_range_app' n A B : in_range n A -> in_range n B -> in_range n (A ++ B).
Proof. intros HA HB l Hl. apply in_app_or in Hl. destruct Hl; [now apply HA|now apply HB]. Qed.

Lemma sat_root_exact C n : WFQ C n -> 0 < root_count C ->
  forall A, in_range n A ->
  (sat (build C n) A = true <-> exists m, In m (Models C n) /\ incl A m).
Proof.
  intros HQ Hrc A HA. rewrite (sat_correct C n A HQ Hrc HA). rewrite Z.ltb_lt. apply MCA_pos_iff.
Qed.

(* a member of Models decides every feature 1..n *)
Lemma models_total C n m v : In m (Models C n) -> In v (zseq 1 n) -> In v m \/ In (- v) m.
Proof.
  intros Hm Hv. unfold Models in Hm. apply filter_In in Hm. destruct Hm as [Hm _].
  unfold all_cfgs in Hm. apply in_all_cfgs_over in Hm.
  revert m Hm Hv. generalize (zseq 1 n) as ws.
  induction ws as [|w ws IH]; intros m Hm Hv; [destruct Hv|].
  inversion Hm as [|w' l ws' r Hl Hr]; subst. destruct Hv as [<-|Hv].
  - destruct Hl as [->| ->]; [left|right]; now left.
  - destruct (IH r Hr Hv); [left|right]; now right.
Qed.

Theorem cover_step_root C n : WFQ C n -> 0 < root_count C ->
  forall Cs P I Cs' P',
  Forall (fun c => in_range n c /\ exists m, In m (Models C n) /\ incl c m) (Cs ++ P) -> in_range n I ->
  cover_with_caching (sat (build C n)) Cs P I = (Cs', P') ->
  Forall (fun c => in_range n c /\ exists m, In m (Models C n) /\ incl c m) (Cs' ++ P') /\
  ((exists m, In m (Models C n) /\ incl I m) -> exists c, In c (Cs' ++ P') /\ incl I c) /\
  (forall J, covers (Cs ++ P) J = true -> covers (Cs' ++ P') J = true).
Proof.
  intros HQ Hrc Cs P I Cs' P'.
  exact (cover_step (sat (build C n)) (Models C n) (fun A m => incl A m) (in_range n)
           (in_range_app' n) (sat_root_exact C n HQ Hrc) Cs P I Cs' P').
Qed.

Theorem complete_root C n : WFQ C n -> 0 < root_count C ->
  forall c, in_range n c -> (exists m, In m (Models C n) /\ incl c m) ->
  let c' := complete_cfg (sat (build C n)) (zseq 1 n) c in
  incl c c' /\ exists m, In m (Models C n) /\ incl c' m /\ incl m c'.
Proof.
  intros HQ Hrc c Hc He.
  destruct (complete_step (sat (build C n)) (Models C n) (fun A m => incl A m) (in_range n)
              (in_range_app' n) (sat_root_exact C n HQ Hrc) (zseq 1 n)) with (ws := zseq 1 n) (c := c)
    as [H1 [[m [Hm Hcm]] [H3 H4]]].
  - intros A B m. split.
    + intros H. split; intros l Hl; apply H; apply in_or_app; [now left|now right].
    + intros [HA HB] l Hl. apply in_app_or in Hl. destruct Hl; [now apply HA|now apply HB].
  - intros v Hv. apply zseq_In in Hv. split; intros l [<-|[]]; lia.
  - intros m v Hm Hv. destruct (models_total C n m v Hm Hv) as [H|H]; [left|right]; intros l [<-|[]]; exact H.
  - apply incl_refl.
  - exact Hc.
  - exact He.
  - split; [exact H3|]. exists m. split; [exact Hm|]. split; [exact Hcm|].
    (* every literal of m is in c': c' decides its feature and is contained in the consistent m *)
    intros l Hl.
    pose proof Hm as Hm'. unfold Models in Hm'. apply filter_In in Hm'. destruct Hm' as [Hall _].
    unfold all_cfgs in Hall. apply in_all_cfgs_over in Hall.
    assert (Hshape : exists v, In v (zseq 1 n) /\ (l = v \/ l = - v) /\ ~ (In v m /\ In (- v) m)).
    { clear - Hall Hl. revert Hall Hl. generalize (zseq_NoDup 1 n). 
      assert (Hpos : forall v, In v (zseq 1 n) -> 0 < v) by (intros v Hv; apply zseq_In in Hv; lia).
      revert Hpos. generalize (zseq 1 n) as ws. intros ws. revert m.
      induction ws as [|w ws IH]; intros m Hpos Hnd Hall Hl; inversion Hall as [|? x ? r Hx Hr]; subst; [destruct Hl|].
      inversion Hnd; subst.
      assert (Hr_abs : forall y, In y r -> In (Z.abs y) ws).
      { clear - Hr Hpos. induction Hr as [|v y ws r Hy Hr IHr]; intros z Hz; [destruct Hz|].
        destruct Hz as [<-|Hz].
        - left. assert (0 < v) by (apply Hpos; right; now left). destruct Hy; subst; lia.
        - right. apply IHr; [|exact Hz]. intros u Hu. apply Hpos. destruct Hu; [now left|right; now right]. }
      destruct Hl as [<-|Hl].
      - exists w. split; [now left|]. split; [exact Hx|]. intros [Hp Hn].
        assert (0 < w) by (apply Hpos; now left).
        assert (Hw : ~ In w r /\ ~ In (- w) r).
        { split; intros Hc; apply Hr_abs in Hc; [rewrite Z.abs_eq in Hc by lia|rewrite Z.abs_neq in Hc by lia; rewrite Z.opp_involutive in Hc]; contradiction. }
        destruct Hw as [Hw1 Hw2]. destruct Hx as [->| ->].
        + destruct Hn as [Hn|Hn]; [lia|contradiction].
        + destruct Hp as [Hp|Hp]; [lia|contradiction].
      - destruct (IH r ltac:(intros v Hv; apply Hpos; now right) H2 Hr Hl) as [v [Hv [Hlv Hcons]]].
        exists v. split; [now right|]. split; [exact Hlv|]. intros [Hp Hn]. apply Hcons.
        assert (0 < w) by (apply Hpos; now left). assert (0 < v) by (apply Hpos; now right).
        assert (v <> w) by (intros ->; contradiction).
        split.
        + destruct Hp as [Hp|Hp]; [|exact Hp]. destruct Hx; subst; lia.
        + destruct Hn as [Hn|Hn]; [|exact Hn]. destruct Hx; subst; lia. }
    destruct Hshape as [v [Hv [Hlv Hcons]]].
    specialize (H4 v Hv). unfold has_var in H4. apply orb_true_iff in H4.
    destruct H4 as [H4|H4]; apply memZ_In in H4.
    + destruct Hlv as [->| ->]; [exact H4|]. exfalso. apply Hcons. split; [now apply Hcm|exact Hl].
    + destruct Hlv as [->| ->]; [|exact H4]. exfalso. apply Hcons. split; [exact Hl|now apply Hcm].
Qed.

(* ---------- the cached call of `cover` is the fresh call on the union ----------
   config.update_sat_state propagated the configuration's literals c (answer true: c is extendable);
   cover() then propagates the interaction I on a clone of that state. *)
Theorem cached_call_is_fresh C n r c I :
  WFQ C n -> (r < length C)%nat -> 0 < nth r (counts C) 0 ->
  let d := build C n in
  let m0 := map (fun _ => false) C in
  let st1 := sat_propagate d c m0 (Some r) in
  snd st1 = true ->
  snd (sat_propagate d I (fst st1) (Some r)) = snd (sat_propagate d (c ++ I) m0 (Some r)).
Proof.
  intros HQ Hr Hpos d m0 st1 H1. subst d m0 st1.
  assert (HL : Forall (fun q : cfg * option nat => live_root C (snd q)) [(c, Some r); (I, Some r)]).
  { repeat constructor; assumption. }
  pose proof (sat_subroot_incremental C n [(c, Some r); (I, Some r)] HQ HL 1%nat ltac:(cbn; lia)) as H.
  cbn [sat_chain_sub nth fst snd firstn map concat root_of] in H. rewrite app_nil_r in H.
  rewrite H.
  - rewrite (sat_subroot C n (c ++ I) r HQ Hr Hpos). f_equal. f_equal.
    rewrite existsb_app.
    pose proof (sat_subroot C n c r HQ Hr Hpos) as Hc. rewrite H1 in Hc.
    symmetry in Hc. apply andb_true_iff in Hc. destruct Hc as [Hc _]. apply negb_true_iff in Hc.
    now rewrite Hc.
  - intros j Hj. assert (j = 0%nat) by lia. subst j. exact H1.
Qed.

(* ---------- sub-root oracle: exactness of is_sat_in_subgraph_cached (fresh state) ----------
   at a live node r the answer is: no literal refuted by the core, and some partial configuration
   enumerated at r does not contradict A *)
Theorem sat_subroot_exact C n r : WFQ C n -> (r < length C)%nat -> 0 < nth r (counts C) 0 ->
  forall A,
  snd (sat_propagate (build C n) A (map (fun _ => false) C) (Some r)) = true <->
  existsb (makes_unsat (build C n)) A = false /\
  exists c, In c (nth r (enums C) []) /\ okA A c = true.
Proof.
  intros HQ Hr Hpos A. rewrite (sat_subroot C n A r HQ Hr Hpos).
  rewrite andb_true_iff, negb_true_iff, Z.ltb_lt.
  rewrite (countsA_filter A C) by (try apply HQ; exact Hr).
  split; intros [H1 H2]; (split; [exact H1|]).
  - destruct (filter (okA A) (nth r (enums C) [])) as [|c l] eqn:E; [cbn in H2; lia|].
    assert (Hin : In c (filter (okA A) (nth r (enums C) []))) by (rewrite E; now left).
    apply filter_In in Hin. now exists c.
  - destruct H2 as [c [Hc1 Hc2]].
    assert (Hin : In c (filter (okA A) (nth r (enums C) []))) by (apply filter_In; now split).
    destruct (filter (okA A) (nth r (enums C) [])); [destruct Hin|cbn; lia].
Qed.

Theorem cover_step_subroot C n r : WFQ C n -> (r < length C)%nat -> 0 < nth r (counts C) 0 ->
  let ok := fun A => snd (sat_propagate (build C n) A (map (fun _ => false) C) (Some r)) in
  let ExtR := fun A => existsb (makes_unsat (build C n)) A = false /\
                       exists c, In c (nth r (enums C) []) /\ okA A c = true in
  forall Cs P I Cs' P',
  Forall ExtR (Cs ++ P) -> cover_with_caching ok Cs P I = (Cs', P') ->
  Forall ExtR (Cs' ++ P') /\
  (ExtR I -> exists c, In c (Cs' ++ P') /\ incl I c) /\
  (forall J, covers (Cs ++ P) J = true -> covers (Cs' ++ P') J = true).
Proof.
  intros HQ Hr Hpos ok ExtR Cs P I Cs' P' HInv H.
  pose (compat := fun (A m : cfg) => existsb (makes_unsat (build C n)) A = false /\ okA A m = true).
  assert (Hex : forall A, True -> (ok A = true <-> Ext (nth r (enums C) []) compat A)).
  { intros A _. unfold ok. rewrite (sat_subroot_exact C n r HQ Hr Hpos A). unfold Ext, compat. split.
    - intros [H1 [c [H2 H3]]]. exists c. tauto.
    - intros [c [H2 [H1 H3]]]. split; [exact H1|]. now exists c. }
  assert (Heq : forall A, ExtR A <-> (True /\ Ext (nth r (enums C) []) compat A)).
  { intros A. unfold ExtR, Ext, compat. split.
    - intros [H1 [c [H2 H3]]]. split; [exact Logic.I|]. exists c. tauto.
    - intros [_ [c [H2 [H1 H3]]]]. split; [exact H1|]. now exists c. }
  destruct (cover_step ok (nth r (enums C) []) compat (fun _ => True) (fun _ _ _ _ => Logic.I) Hex
              Cs P I Cs' P') as [G1 [G2 G3]].
  - eapply Forall_impl; [|exact HInv]. intros a Ha. now apply Heq.
  - exact Logic.I.
  - exact H.
  - split; [|split; [|exact G3]].
    + eapply Forall_impl; [|exact G1]. intros a Ha. now apply Heq.
    + intros HE. apply G2. now apply Heq.
Qed.

(* ---------- documented statements that are NOT proved (the pipeline is not modelled) ----------
   C09_or_merge (statement): for an or node with children whose samples satisfy
     (every configuration extendable at the child) /\ (every valid min(t,vars)-interaction of the
     child covered), SimilarityMerger::merge returns a sample with the same two properties at the
     or node: a candidate is dropped only when is_t_wise_covered_by holds, i.e. every t-subset of
     its literals (TInteractionIter: Proofs/TIterProof.v tinter_covers) is covered by the
     configurations already taken.  Needs: smoothness (the children have the same variables).
   C09_and_zip (statement): for an and node, ZippingMerger::merge = zip_samples (every child
     configuration survives as a sub-list of some configuration: decomposability makes the unions
     extendable) followed by cover_with_caching_twise for every combination of a k-subset of a left
     configuration with a (t-k)-subset of a right configuration, 1 <= k < t (cover_step above).
   C09_trim (statement): trim_and_resample removes the configurations ranked below average and calls
     cover_with_caching for every min(t,..)-subset of the union of their literals; every interaction
     that only the removed configurations covered is a subset of that union, hence re-covered
     (cover_step + tinter_covers); the result is used only if it is smaller.
   The fitness variant replaces the and-merger by AttributeZippingMerger, which draws the parts of
   an interaction from the children's LITERAL lists with sizes min(len,k), min(len,t-k); for t larger
   than the number of variables below the node no consistent candidate is generated (finding K11).
   None of these is tied to the Rust step by step; the tie is the post-condition check of every run
   by the verified checker Spec/TwiseOk.v. *)
