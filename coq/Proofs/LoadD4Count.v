(* Corollaries of load_d4_sem for Props/C01.v: the unrepaired loader (any permutation oracle)
   preserves the function as well; if the loaded vector passes check_wf, its cached root count is
   the number of satisfying assignments OF THE FILE over the loader's feature range. *)
From Coq Require Import List ZArith Bool Lia Arith Permutation.
From DD Require Import Model.Circuit Model.LexerD4 Model.LoadD4 Spec.D4Sem
  Proofs.PassLemmas Proofs.Enum Proofs.Semantics Proofs.DetCert Proofs.LoadD4Graph Proofs.LoadD4Ops
  Proofs.LoadD4Pass2 Proofs.LoadD4Struct Proofs.LoadD4Pass3 Proofs.LoadD4Sem.
Import ListNotations.

Theorem load_d4_v0_sem ord toks n C n' : (forall l, Permutation (ord l) l) -> d4_ok toks ->
  load_d4_v0 ord toks n = Some (C, n') ->
  n' = Nat.max n (d4_maxvar toks) /\ forall a, eval_root a C = eval_d4 toks a.
Proof.
  intros Hp Hok H. apply (load_d4_gen_sem true ord); [|exact Hok|exact H].
  intros l f Hf. exact (Permutation_in f (Hp l) Hf).
Qed.

Lemma filter_ext' {A} (p q : A -> bool) l : (forall x, p x = q x) -> filter p l = filter q l.
Proof. intros H. induction l as [|x l IH]; [reflexivity|]. cbn [filter]. now rewrite H, IH. Qed.

Theorem load_d4_count toks n C n' : d4_ok toks -> load_d4 toks n = Some (C, n') ->
  check_wf C n' = true ->
  WF C n' /\ root_count C = Z.of_nat (length (d4_models toks n')).
Proof.
  intros Hok H Hwf. destruct (load_d4_sem toks n C n' Hok H) as [_ Hsem].
  pose proof (check_wf_sound C n' Hwf) as HWF. split; [exact HWF|].
  rewrite (count_is_MC C n' HWF). unfold MC, Models, d4_models. do 2 f_equal.
  apply filter_ext'. intros m. apply Hsem.
Qed.

Theorem load_d4_gen_sem_perm (recycle : bool) (ord : list nat -> list nat) toks n C n' :
  (forall l, Permutation (ord l) l) -> d4_ok toks ->
  load_d4_gen recycle ord toks n = Some (C, n') ->
  n' = Nat.max n (d4_maxvar toks) /\ forall s, eval_root s C = eval_d4 toks s.
Proof.
  intros Hp. apply (load_d4_gen_sem recycle ord).
  intros l f Hf. exact (Permutation_in f (Hp l) Hf).
Qed.

Theorem pass2_preserves g root g' : Inv g -> pass2 g root = Some g' ->
  forall s x b, sg_alive g' x = true -> GV g s x b -> GV g' s x b.
Proof. intros HI H. exact (sh_val _ _ (proj2 (pass2_shrink g root g' HI H))). Qed.

Theorem pass3_preserves st root st' : tables_ok nonzero false st -> pass3 true (fun l => l) st root = Some st' ->
  forall s x b, GV (ls_g st) s x b -> GV (ls_g st') s x b.
Proof.
  intros Hok H. apply (gr_val _ _ (proj2 (pass3_grow true (fun l => l) (fun l f Hf => Hf) (fun l H => H) nonzero_opp st root st' Hok H))).
Qed.

(* "every d4_ok file loads to a WF vector with the right count" is false for the loader as it is:
   a feature that is mentioned only below a dead branch is neither treated as free (the
   occurrence table is filled while reading) nor left in the vector (the branch is removed).
   o 1 0 / a 2 0 / f 3 0 / t 4 0 / 2 3 0 / 1 2 1 2 0 / 1 4 -1 0  with 2 features denotes
   "not x1" (2 models), the loaded vector [L -1; A 0; O 1] has count 1. *)
Definition dead_only_file : list d4token :=
  [DOr; DAnd; DFalse; DTrue; DEdge 2 3 []; DEdge 1 2 [1; 2]%Z; DEdge 1 4 [-1]%Z].

Theorem loader_wf_refuted : exists toks n C n',
  d4_ok toks /\ load_d4 toks n = Some (C, n') /\ check_wf C n' = false /\
  root_count C <> Z.of_nat (length (d4_models toks n')).
Proof.
  exists dead_only_file, 2%nat, [Lit (-1); And [0%nat]; Or [1%nat]], 2%nat.
  split; [split|split; [|split]].
  - intros from to fs H.
    repeat (destruct H as [H|H]; [try discriminate; injection H as <- <- <-; repeat constructor; discriminate|]).
    destruct H.
  - eexists. vm_compute. reflexivity.
  - vm_compute. reflexivity.
  - vm_compute. reflexivity.
  - vm_compute. discriminate.
Qed.

(* Finding F12 (repaired in /repo by "fix: d4 loader keeps a true node below an or node"): d4
   writes a tautology as  o 1 0 / t 2 0 / 1 2 0 .  The loader BEFORE the repair (load_d4_f12_v0)
   leaves the true node below the or node in the vector - the count is right, but the vector is
   not what the queries expect (no_true_false fails; enumerate / sampling / atomic sets / to-cnf
   panic on it).  The loader now turns the or node into a true node that its parent drops. *)
Definition tautology_file : list d4token := [DOr; DTrue; DEdge 1 2 []].

Theorem or_true_child_v0 : exists toks n C C' n',
  d4_ok toks /\
  load_d4_f12_v0 toks n = Some (C, n') /\ In TrueN C /\ no_true_false C = false /\
  load_d4 toks n = Some (C', n') /\ no_true_false C' = true /\ check_wf C' n' = true /\
  root_count C' = Z.of_nat (length (d4_models toks n')).
Proof.
  exists tautology_file, 1%nat,
    [TrueN; Or [0%nat]; Lit 1; Lit (-1); Or [3%nat; 2%nat]; And [4%nat; 1%nat]],
    [Lit 1; Lit (-1); Or [1%nat; 0%nat]; And [2%nat]], 1%nat.
  split; [split|].
  - intros from to fs H.
    repeat (destruct H as [H|H]; [try discriminate; injection H as <- <- <-; repeat constructor; discriminate|]).
    destruct H.
  - eexists. vm_compute. reflexivity.
  - repeat split; try (vm_compute; reflexivity). now left.
Qed.
