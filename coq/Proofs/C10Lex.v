(* C10 (a),(b): character-level round trip  lex_line_c2d (print_node nd) = Some (token_of nd). *)
From Coq Require Import List ZArith NArith String Ascii Decimal DecimalString DecimalFacts
  DecimalPos DecimalN Lia Bool.
From DD Require Import Model.Circuit Model.Writer Model.Lexer.
Import ListNotations.
Local Open Scope string_scope.

(* ---------- strings ---------- *)
Lemma sapp_nil_r (s : string) : s ++ "" = s.
Proof. induction s as [|c s IH]; [reflexivity|]. cbn. now rewrite IH. Qed.

Lemma sapp_assoc (a b c : string) : (a ++ b) ++ c = a ++ (b ++ c).
Proof. induction a as [|x a IH]; [reflexivity|]. cbn. now rewrite IH. Qed.

Lemma slength_app (a b : string) : String.length (a ++ b) = (String.length a + String.length b)%nat.
Proof. induction a as [|x a IH]; [reflexivity|]. cbn. now rewrite IH. Qed.

(* ---------- decimal numerals ---------- *)
Definition starts_digit (s : string) : bool :=
  match s with
  | String c _ => match digit_of c with Some _ => true | None => false end
  | EmptyString => false
  end.

Lemma digit0_nodigit r : starts_digit r = false -> digit0 r = (Nil, r).
Proof.
  destruct r as [|c r]; [reflexivity|]. cbn [starts_digit digit0].
  destruct (digit_of c); [discriminate|reflexivity].
Qed.

Lemma digit0_print (d : uint) (r : string) :
  starts_digit r = false -> digit0 (NilEmpty.string_of_uint d ++ r) = (d, r).
Proof.
  intros Hr.
  induction d as [|d IH|d IH|d IH|d IH|d IH|d IH|d IH|d IH|d IH|d IH];
    [now apply digit0_nodigit| ..];
    cbn [NilEmpty.string_of_uint append digit0]; cbn [digit_of]; now rewrite IH.
Qed.

Lemma to_uint_unorm (k : N) : unorm (N.to_uint k) = N.to_uint k.
Proof. rewrite <- DecimalN.Unsigned.to_of. now rewrite DecimalN.Unsigned.of_to. Qed.

Lemma to_uint_nonnil (k : N) : N.to_uint k <> Nil.
Proof. rewrite <- to_uint_unorm. apply unorm_nonnil. Qed.

(* no leading zero except for 0 itself *)
Lemma to_uint_lead (k : N) (d : uint) : N.to_uint k = D0 d -> k = 0%N.
Proof.
  intros H. assert (Hu := to_uint_unorm k). rewrite H in Hu.
  unfold unorm in Hu. cbn [nzhead] in Hu.
  destruct (nzhead d) as [|d'|d'|d'|d'|d'|d'|d'|d'|d'|d'] eqn:Hd.
  - injection Hu as <-. apply DecimalN.Unsigned.to_uint_inj. now rewrite H.
  - exfalso. apply (nzhead_nonzero d d'). exact Hd.
  - discriminate. - discriminate. - discriminate. - discriminate. - discriminate.
  - discriminate. - discriminate. - discriminate. - discriminate.
Qed.

Lemma digit1_print (k : N) (r : string) :
  starts_digit r = false -> digit1 (print_N k ++ r) = Some (N.to_uint k, r).
Proof.
  intros Hr. unfold digit1, print_N. rewrite digit0_print by exact Hr.
  destruct (N.to_uint k) eqn:Hk; try reflexivity. now apply to_uint_nonnil in Hk.
Qed.

(* first character of a printed positive number is a digit other than '0' *)
Lemma print_N_head (k : N) : k <> 0%N ->
  exists c r, print_N k = String c r /\ c <> "0"%char /\ starts_digit (String c r) = true.
Proof.
  intros Hk. unfold print_N.
  destruct (N.to_uint k) eqn:H; cbn [NilEmpty.string_of_uint].
  - now apply to_uint_nonnil in H.
  - apply to_uint_lead in H. contradiction.
  - eexists _, _. split; [reflexivity|]. split; [discriminate|reflexivity].
  - eexists _, _. split; [reflexivity|]. split; [discriminate|reflexivity].
  - eexists _, _. split; [reflexivity|]. split; [discriminate|reflexivity].
  - eexists _, _. split; [reflexivity|]. split; [discriminate|reflexivity].
  - eexists _, _. split; [reflexivity|]. split; [discriminate|reflexivity].
  - eexists _, _. split; [reflexivity|]. split; [discriminate|reflexivity].
  - eexists _, _. split; [reflexivity|]. split; [discriminate|reflexivity].
  - eexists _, _. split; [reflexivity|]. split; [discriminate|reflexivity].
  - eexists _, _. split; [reflexivity|]. split; [discriminate|reflexivity].
Qed.

Lemma print_N_nonempty (k : N) : exists c r, print_N k = String c r /\ starts_digit (String c r) = true.
Proof.
  unfold print_N.
  destruct (N.to_uint k) eqn:H; cbn [NilEmpty.string_of_uint];
    [now apply to_uint_nonnil in H| ..]; eexists _, _; split; reflexivity.
Qed.

(* ---------- " k1 k2 .. km" ---------- *)
Fixpoint sp_nums (ks : list N) (r : string) : string :=
  match ks with
  | [] => r
  | k :: ks' => String " " (print_N k ++ sp_nums ks' r)
  end.

Lemma sp_nums_starts ks r : starts_digit r = false -> starts_digit (sp_nums ks r) = false.
Proof. destruct ks; [auto|reflexivity]. Qed.

Lemma sp_num_print (k : N) (r : string) :
  starts_digit r = false -> sp_num (String " " (print_N k ++ r)) = Some (N.to_uint k, r).
Proof. intros Hr. cbn [sp_num]. now apply digit1_print. Qed.

Lemma many0_sp_nums (fuel : nat) (ks : list N) (r : string) :
  starts_digit r = false -> sp_num r = None -> (length ks < fuel)%nat ->
  many0_sp_num fuel (sp_nums ks r) = map N.to_uint ks.
Proof.
  intros Hr Hn. revert fuel. induction ks as [|k ks IH]; intros fuel Hf.
  - destruct fuel; [reflexivity|]. cbn [sp_nums many0_sp_num map]. now rewrite Hn.
  - destruct fuel; [cbn in Hf; lia|].
    cbn [sp_nums many0_sp_num map]. rewrite sp_num_print by now apply sp_nums_starts.
    rewrite IH; [reflexivity|]. cbn in Hf. lia.
Qed.

Lemma sp_nums_length ks r : (length ks <= String.length (sp_nums ks r))%nat.
Proof.
  induction ks as [|k ks IH]; cbn [sp_nums length String.length]; [lia|].
  rewrite slength_app. lia.
Qed.

Lemma many1_sp_nums (ks : list N) :
  ks <> [] -> many1_sp_num (sp_nums ks "") = Some (map N.to_uint ks).
Proof.
  intros Hne. unfold many1_sp_num.
  rewrite many0_sp_nums; [| reflexivity | reflexivity | pose proof (sp_nums_length ks ""); lia].
  destruct ks; [congruence|reflexivity].
Qed.

Definition usize_ok (k : N) : Prop := (k < two64)%N.

Lemma parse_usize_print k : usize_ok k -> parse_usize (N.to_uint k) = Some k.
Proof.
  intros H. unfold parse_usize. rewrite DecimalN.Unsigned.of_to.
  apply N.ltb_lt in H. now rewrite H.
Qed.

Lemma split_numbers_print ks : Forall usize_ok ks -> split_numbers (map N.to_uint ks) = Some ks.
Proof.
  induction 1 as [|k ks Hk _ IH]; [reflexivity|].
  cbn [map split_numbers]. now rewrite parse_usize_print, IH.
Qed.

Lemma numbers_after_print (pre : string) (ks : list N) (k : list N -> lexres) :
  ks <> [] -> Forall usize_ok ks ->
  numbers_after pre (pre ++ sp_nums ks "") k = k ks.
Proof.
  intros Hne Hok. unfold numbers_after.
  assert (Ht : forall s, tag pre (pre ++ s) = Some s).
  { induction pre as [|c pre IH]; intros s; [reflexivity|].
    cbn [append tag]. rewrite Ascii.eqb_refl. apply IH. }
  rewrite Ht, many1_sp_nums by exact Hne. now rewrite split_numbers_print.
Qed.

(* ---------- the printed forms ---------- *)
Lemma join_sp_cons2 (x y : string) (r : list string) :
  join_sp (x :: y :: r) = x ++ " " ++ join_sp (y :: r).
Proof. reflexivity. Qed.

Lemma join_sp_nums (ks : list nat) :
  ks <> [] -> " " ++ join_sp (map print_nat ks) = sp_nums (map N.of_nat ks) "".
Proof.
  induction ks as [|k ks IH]; [congruence|]. intros _.
  destruct ks as [|k' ks].
  - cbn. now rewrite sapp_nil_r.
  - specialize (IH ltac:(discriminate)).
    remember (k' :: ks) as ks' eqn:Hks.
    cbn [map sp_nums]. rewrite <- IH. subst ks'. cbn [map]. rewrite join_sp_cons2.
    reflexivity.
Qed.

Lemma print_children_nums (pre : string) (cs : list nat) :
  cs <> [] ->
  print_children (pre ++ " ") cs = pre ++ sp_nums (N.of_nat (length cs) :: map N.of_nat cs) "".
Proof.
  intros Hne. unfold print_children. cbn [sp_nums].
  rewrite <- join_sp_nums by exact Hne.
  rewrite !sapp_assoc. cbn. reflexivity.
Qed.

(* ---------- tokens ---------- *)
Definition token_of (nd : ntype) : token :=
  match nd with
  | Lit l => TLit l
  | And [] => TTrue                 (* written "A 0 " *)
  | Or [] => TFalse                 (* written "O 0 0 " *)
  | And cs => TAnd (map N.of_nat cs)
  | Or cs => TOr 0 (map N.of_nat cs)
  | TrueN => TTrue
  | FalseN => TFalse
  end.

Definition i32_ok (l : Z) : Prop := (- 2147483648 <= l < 2147483648)%Z.

(* the values a Rust Node can hold: usize indices, a usize child count, an i32 literal *)
Definition node_in_range (nd : ntype) : Prop :=
  match nd with
  | Lit l => i32_ok l
  | And cs | Or cs => Forall (fun c => usize_ok (N.of_nat c)) cs /\ usize_ok (N.of_nat (length cs))
  | TrueN | FalseN => True
  end.

Lemma Forall_map_ok cs : Forall (fun c => usize_ok (N.of_nat c)) cs -> Forall usize_ok (map N.of_nat cs).
Proof. induction 1; constructor; auto. Qed.

(* side lemma: an And / Or with at least one child is never captured by the prefix
   alternatives `A 0` / `O 0 0` *)
Lemma tag_A0_children (cs : list nat) : cs <> [] -> lex_true (print_node (And cs)) = LexErr.
Proof.
  intros Hne. unfold lex_true. cbn [print_node]. unfold print_children.
  destruct (print_N_head (N.of_nat (length cs))) as [c [r [Hp [Hc _]]]].
  { destruct cs; [congruence|]. cbn [length]. lia. }
  unfold print_nat. rewrite Hp. cbn [append tag].
  change (Ascii.eqb "A" "A") with true. change (Ascii.eqb " " " ") with true. cbn match.
  destruct (Ascii.eqb_spec "0" c) as [E|E]; [now subst c|reflexivity].
Qed.

Lemma tag_O00_children (cs : list nat) : cs <> [] -> lex_false (print_node (Or cs)) = LexErr.
Proof.
  intros Hne. unfold lex_false. cbn [print_node]. unfold print_children.
  destruct (print_N_head (N.of_nat (length cs))) as [c [r [Hp [Hc _]]]].
  { destruct cs; [congruence|]. cbn [length]. lia. }
  unfold print_nat. rewrite Hp. cbn [append tag].
  change (Ascii.eqb "O" "O") with true. change (Ascii.eqb " " " ") with true.
  change (Ascii.eqb "0" "0") with true. cbn match.
  destruct (Ascii.eqb_spec "0" c) as [E|E]; [now subst c|reflexivity].
Qed.

Lemma lex_and_print (cs : list nat) :
  cs <> [] -> node_in_range (And cs) ->
  lex_line_c2d_res (print_node (And cs)) = LexOk (TAnd (map N.of_nat cs)).
Proof.
  intros Hne [Hcs Hlen]. unfold lex_line_c2d_res.
  rewrite (tag_A0_children cs Hne).
  cbn [print_node]. change "A " with ("A" ++ " "). rewrite print_children_nums by exact Hne.
  assert (Hh : lex_header ("A" ++ sp_nums (N.of_nat (length cs) :: map N.of_nat cs) "") = LexErr) by reflexivity.
  assert (Hf : lex_false ("A" ++ sp_nums (N.of_nat (length cs) :: map N.of_nat cs) "") = LexErr) by reflexivity.
  rewrite Hh, Hf. cbn [alt].
  unfold lex_and. rewrite numbers_after_print; [reflexivity|discriminate|].
  constructor; [exact Hlen|now apply Forall_map_ok].
Qed.

Lemma lex_or_print (cs : list nat) :
  cs <> [] -> node_in_range (Or cs) ->
  lex_line_c2d_res (print_node (Or cs)) = LexOk (TOr 0 (map N.of_nat cs)).
Proof.
  intros Hne [Hcs Hlen]. unfold lex_line_c2d_res.
  rewrite (tag_O00_children cs Hne).
  cbn [print_node]. change "O 0 " with (("O" ++ sp_nums [0%N] "") ++ " ").
  rewrite print_children_nums by exact Hne.
  rewrite sapp_assoc.
  assert (Hcat : forall ks, sp_nums [0%N] "" ++ sp_nums ks "" = sp_nums (0%N :: ks) "") by reflexivity.
  rewrite Hcat.
  set (ks := (0 :: N.of_nat (length cs) :: map N.of_nat cs)%N).
  assert (Hh : lex_header ("O" ++ sp_nums ks "") = LexErr) by reflexivity.
  assert (Ht : lex_true ("O" ++ sp_nums ks "") = LexErr) by reflexivity.
  assert (Ha : lex_and ("O" ++ sp_nums ks "") = LexErr) by reflexivity.
  rewrite Hh, Ht, Ha. cbn [alt].
  unfold lex_or. rewrite numbers_after_print; [reflexivity|discriminate|].
  constructor; [reflexivity|]. constructor; [exact Hlen|now apply Forall_map_ok].
Qed.

Lemma lex_and_nil : lex_line_c2d_res (print_node (And [])) = LexOk TTrue.
Proof. reflexivity. Qed.
Lemma lex_or_nil : lex_line_c2d_res (print_node (Or [])) = LexOk TFalse.
Proof. reflexivity. Qed.

Lemma lex_lit_print (l : Z) : i32_ok l -> lex_line_c2d_res (print_node (Lit l)) = LexOk (TLit l).
Proof.
  intros [Hlo Hhi]. unfold lex_line_c2d_res. cbn [print_node].
  assert (Hh : forall s, lex_header ("L " ++ s) = LexErr) by reflexivity.
  assert (Ht : forall s, lex_true ("L " ++ s) = LexErr) by reflexivity.
  assert (Hf : forall s, lex_false ("L " ++ s) = LexErr) by reflexivity.
  assert (Ha : forall s, lex_and ("L " ++ s) = LexErr) by reflexivity.
  assert (Ho : forall s, lex_or ("L " ++ s) = LexErr) by reflexivity.
  rewrite Hh, Ht, Hf, Ha, Ho. cbn [alt].
  assert (Hpos : forall k : N, (k < two31)%N ->
            lex_positive_literal ("L " ++ print_N k) = LexOk (TLit (Z.of_N k))).
  { intros k Hk. unfold lex_positive_literal. cbn [append tag].
    change (Ascii.eqb "L" "L") with true. change (Ascii.eqb " " " ") with true. cbn match.
    rewrite <- (sapp_nil_r (print_N k)). rewrite digit1_print by reflexivity.
    rewrite DecimalN.Unsigned.of_to. apply N.ltb_lt in Hk. now rewrite Hk. }
  destruct l as [|p|p]; cbn [print_Z].
  - now rewrite (Hpos 0%N).
  - rewrite (Hpos (Npos p)); [reflexivity|]. unfold two31. lia.
  - assert (Hp : lex_positive_literal ("L " ++ String "-" (print_N (N.pos p))) = LexErr) by reflexivity.
    rewrite Hp. cbn [alt]. unfold lex_negative_literal. cbn [append tag].
    change (Ascii.eqb "L" "L") with true. change (Ascii.eqb " " " ") with true.
    change (Ascii.eqb "-" "-") with true. cbn match.
    rewrite <- (sapp_nil_r (print_N (N.pos p))). rewrite digit1_print by reflexivity.
    rewrite DecimalN.Unsigned.of_to.
    assert (Hle : (N.pos p <=? two31)%N = true) by (apply N.leb_le; unfold two31; lia).
    now rewrite Hle.
Qed.

Theorem lex_print_res (nd : ntype) :
  node_in_range nd -> lex_line_c2d_res (print_node nd) = LexOk (token_of nd).
Proof.
  destruct nd as [l|cs|cs| |]; intros Hr.
  - now apply lex_lit_print.
  - destruct cs as [|c cs]; [reflexivity|]. apply lex_and_print; [discriminate|exact Hr].
  - destruct cs as [|c cs]; [reflexivity|]. apply lex_or_print; [discriminate|exact Hr].
  - reflexivity.
  - reflexivity.
Qed.

Theorem lex_print (nd : ntype) :
  node_in_range nd -> lex_line_c2d (print_node nd) = Some (token_of nd).
Proof. intros H. unfold lex_line_c2d. now rewrite lex_print_res. Qed.

Theorem lex_header_print (nodes n : nat) :
  usize_ok (N.of_nat nodes) -> usize_ok (N.of_nat n) ->
  lex_line_c2d (print_header nodes n) = Some (THeader (N.of_nat nodes) 0 (N.of_nat n)).
Proof.
  intros H1 H2. unfold lex_line_c2d, lex_line_c2d_res, print_header.
  assert (E : "nnf " ++ print_nat nodes ++ " 0 " ++ print_nat n
              = "nnf" ++ sp_nums [N.of_nat nodes; 0%N; N.of_nat n] "").
  { cbn [sp_nums]. unfold print_nat. rewrite sapp_nil_r.
    change (print_N 0) with "0". cbn. reflexivity. }
  rewrite E. unfold lex_header. rewrite numbers_after_print; [reflexivity|discriminate|].
  repeat constructor; assumption.
Qed.

(* ---------- the header line survives the `trim` of distribute_building unchanged ---------- *)
Fixpoint last_nonws (s : string) : bool :=
  match s with
  | EmptyString => false
  | String c r => match r with EmptyString => negb (is_ws c) | _ => last_nonws r end
  end.

Lemma trim_end_id (s : string) : last_nonws s = true -> trim_end s = s.
Proof.
  induction s as [|c r IH]; [discriminate|].
  cbn [last_nonws trim_end]. destruct r as [|c' r'].
  - cbn [trim_end]. intros H. apply negb_true_iff in H. now rewrite H.
  - intros H. rewrite (IH H). reflexivity.
Qed.

Lemma last_nonws_app (a b : string) : b <> "" -> last_nonws (a ++ b) = last_nonws b.
Proof.
  intros Hb. induction a as [|c a IH]; [reflexivity|].
  cbn [append last_nonws]. destruct (a ++ b) eqn:E; [|exact IH].
  destruct a; [cbn in E; congruence|discriminate].
Qed.

Lemma last_nonws_uint (d : uint) : d <> Nil -> last_nonws (NilEmpty.string_of_uint d) = true.
Proof.
  induction d as [|d IH|d IH|d IH|d IH|d IH|d IH|d IH|d IH|d IH|d IH]; intros Hd; [congruence| ..];
    cbn [NilEmpty.string_of_uint last_nonws];
    (destruct d; [reflexivity| ..]; apply IH; discriminate).
Qed.

Lemma last_nonws_print (k : N) : last_nonws (print_N k) = true.
Proof. apply last_nonws_uint, to_uint_nonnil. Qed.

Lemma print_N_ne (k : N) : print_N k <> "".
Proof. destruct (print_N_nonempty k) as [c [r [H _]]]. rewrite H. discriminate. Qed.

Lemma trim_header (nodes n : nat) : trim (print_header nodes n) = print_header nodes n.
Proof.
  unfold trim. assert (Hs : trim_start (print_header nodes n) = print_header nodes n) by reflexivity.
  rewrite Hs. apply trim_end_id. unfold print_header.
  rewrite !last_nonws_app; [apply last_nonws_print| | |]; try apply print_N_ne.
  all: intros H; repeat (match goal with H : (?a ++ _)%string = EmptyString |- _ => destruct a; cbn in H end); try discriminate.
  all: try (now apply print_N_ne in H).
Qed.
