(* C16: history independence.  One long-lived instance = one scratch state (temps, markers,
   partial derivatives, md) threaded through every request, plus the enumeration cursor.
   Every request kind re-establishes the invariant Clean; from a Clean state the answer to every
   count / SAT / core / per-feature table / seeded sampling / marked-nodes request is the answer a
   fresh instance gives.  Enumeration answers depend on the history only through the cursor.
   The cursor belongs to the loaded model (repair F21): requests to another model of the process
   change nothing (cursor_per_model); the code before the repair shared one cursor map between
   all models of the process (finding K2): cursor_shared_refuted_v0. *)
From Coq Require Import List ZArith Bool Lia Permutation.
From DD Require Import Model.Circuit Model.Query Model.Enumerate
     Proofs.PassLemmas Proofs.Enum Proofs.Semantics Proofs.CountsA Proofs.QueryDefs
     Proofs.C02Basics Proofs.C02Marking Proofs.C02Proof Proofs.C04Proof Proofs.C05Proof
     Proofs.C05Final Proofs.C06Node Proofs.C06Sort Proofs.C06Page Proofs.C07Defs Proofs.C07Indep
     Proofs.ExecTemps Proofs.C06Final Proofs.C07Final.
Import ListNotations.
Open Scope Z_scope.

(* ---------- requests and answers ---------- *)

Inductive req :=
| RCount (A : cfg)                              (* Ddnnf::execute_query *)
| RSat (A : cfg)                                (* Ddnnf::sat *)
| RCore (A : cfg)                               (* core_dead_with_assumptions *)
| RTable                                        (* card_of_each_feature *)
| RSample (A : cfg) (k : Z) (chs : list choice) (* uniform_random_sampling, recorded stream *)
| REnum (A : cfg) (k : Z)                       (* enumerate: reads and moves the cursor *)
| RMarked (A : cfg).                            (* get_marked_nodes_clone (mermaid marking) *)

Inductive answer :=
| ACount (r : Z)
| ASat (b : bool)
| ACore (l : cfg)
| ATable (rows : list (Z * Z))
| ASample (r : option (list cfg)) (ok : bool)
| AEnum (r : option (list cfg))
| AMarked (l : list nat).

Definition run_req (d : ddnnf) (st : scratch * cursor) (q : req) : (scratch * cursor) * answer :=
  let '(s, cur) := st in
  match q with
  | RCount A => let '(s', r) := execute_query d A s in ((s', cur), ACount r)
  | RSat A => ((s, cur), ASat (sat d A))
  | RCore A => let '(s', l) := core_dead_with_assumptions d A s in ((s', cur), ACore l)
  | RTable => let '(s', rows) := card_of_each_feature d s in ((s', cur), ATable rows)
  | RSample A k chs =>
    let '(s', r, ok) := uniform_random_sampling d A k chs s in ((s', cur), ASample r ok)
  | REnum A k => let '(s', cur', r) := enumerate d A k cur s in ((s', cur'), AEnum r)
  | RMarked A => let '(s', l) := get_marked_nodes_clone d A s in ((s', cur), AMarked l)
  end.

Definition run_reqs (d : ddnnf) (qs : list req) (st : scratch * cursor) : scratch * cursor :=
  fold_left (fun st q => fst (run_req d st q)) qs st.

(* what a request needs to keep the state Clean *)
Definition hist_ok (n : nat) (q : req) : Prop :=
  match q with
  | RCount A | RCore A => in_range n A
  | RSample A _ _ | REnum A _ => forall l, In l A -> l <> 0
  | RSat _ | RTable | RMarked _ => True
  end.

(* what a request needs for its answer to be determined *)
Definition ans_ok (n : nat) (q : req) : Prop :=
  match q with
  | RCount A | RCore A => in_range n A
  | _ => True
  end.

Definition is_enum (q : req) : Prop := match q with REnum _ _ => True | _ => False end.

(* ---------- get_marked_nodes_clone ---------- *)

Lemma Forall_map_false {X} (l : list X) : Forall (fun b => b = false) (map (fun _ => false) l).
Proof. induction l as [|x l IH]; cbn [map]; constructor; auto. Qed.

Lemma opposing_lt C n A i : In i (opposing_indexes (build C n) A) -> (i < length C)%nat.
Proof.
  unfold opposing_indexes. cbn [circ build]. rewrite in_filter_map. intros [f [_ Hf]].
  cbn [circ build] in Hf. apply C02Basics.lit_idx_some in Hf. apply nth_error_Some. congruence.
Qed.

Lemma get_marked_clean C n A s :
  idx_ok C = true -> Clean C s -> Clean C (fst (get_marked_nodes_clone (build C n) A s)).
Proof.
  intros Hok HC. unfold get_marked_nodes_clone. cbv zeta. cbn [fst].
  set (idx := opposing_indexes (build C n) A).
  assert (HX : forall i, In i idx -> (i < length C)%nat /\ (fun j => In j idx) i)
    by (intros i Hi; split; [now apply (opposing_lt C n A)|exact Hi]).
  pose proof (mark_assumptions_spec C n Hok (fun j => In j idx) idx s HC HX) as H.
  cbv zeta in H. destruct H as [HT [Hp [_ [_ [_ [HL _]]]]]].
  constructor; cbn [temps marks pds mdl].
  - exact HT.
  - now rewrite map_length.
  - rewrite Hp. apply HC.
  - apply Forall_map_false.
  - reflexivity.
Qed.

(* the answer reads the markers and md only *)
Lemma get_marked_indep C n A s s' : marks s = marks s' -> mdl s = mdl s' ->
  snd (get_marked_nodes_clone (build C n) A s) = snd (get_marked_nodes_clone (build C n) A s').
Proof.
  intros Hm Hd. unfold get_marked_nodes_clone. cbv zeta. cbn [snd].
  rewrite !mark_assumptions_eq. cbn [mdl]. now rewrite Hm, Hd.
Qed.

(* ---------- enumerate ---------- *)

Lemma enumerate_clean C n A k cur s :
  WFQ C n -> (forall l, In l A -> l <> 0) -> Clean C s ->
  Clean C (fst (fst (enumerate (build C n) A k cur s))).
Proof.
  intros HQ Hnz HC. unfold enumerate.
  destruct (k =? 0); [exact HC|].
  destruct (preprocess (build C n) A s) as [s1|] eqn:Ep; [|exact HC].
  pose proof (preprocess_in_range C n A s s1 Hnz Ep) as HA.
  destruct (execute_query (build C n) (enum_key A) s1) as [s2 r] eqn:Eq.
  destruct (exec_spec_holds C n A HQ HA s s1 s2 r HC Ep Eq) as [_ [_ Hc]].
  destruct (0 <? r); exact Hc.
Qed.

(* page and new cursor do not depend on the incoming temps / pds *)
Lemma enumerate_scratch_indep d A k cur s s' : marks s = marks s' -> mdl s = mdl s' ->
  snd (enumerate d A k cur s) = snd (enumerate d A k cur s') /\
  snd (fst (enumerate d A k cur s)) = snd (fst (enumerate d A k cur s')).
Proof.
  intros Hm Hd. pose proof (preprocess_core d A s s' Hm Hd) as Hp. unfold enumerate.
  destruct (k =? 0); [split; reflexivity|].
  destruct (preprocess d A s) as [s1|], (preprocess d A s') as [s1'|]; try contradiction;
    [|split; reflexivity].
  destruct (execute_query_core d (enum_key A) s1 s1' Hp) as [Hc Hr].
  destruct (execute_query d (enum_key A) s1) as [s2 r],
           (execute_query d (enum_key A) s1') as [s2' r'].
  cbn [fst snd] in Hc, Hr. subst r'. destruct Hc as [Ht _]. unfold rt. rewrite Ht.
  destruct (0 <? r); split; reflexivity.
Qed.

(* ---------- every request re-establishes Clean ---------- *)

Lemma run_req_clean C n q s cur :
  WFQ C n -> hist_ok n q -> Clean C s -> Clean C (fst (fst (run_req (build C n) (s, cur) q))).
Proof.
  intros HQ Hq HC. destruct q as [A|A|A| |A k chs|A k|A]; cbn [run_req hist_ok] in *.
  - pose proof (execute_query_correct C n A s HQ Hq HC) as H.
    destruct (execute_query (build C n) A s) as [s' r]. cbn [fst]. apply H.
  - exact HC.
  - destruct A as [|a A'].
    + cbn [core_dead_with_assumptions fst]. exact HC.
    + destruct (core_dead_with_assumptions_final C n (a :: A') s HQ ltac:(discriminate) Hq HC)
        as [s' [E Hc]]. rewrite E. exact Hc.
  - pose proof (card_of_each_feature_correct C n s HQ HC) as H.
    destruct (card_of_each_feature (build C n) s) as [s' rows]. cbn [fst]. apply H.
  - pose proof (uniform_random_sampling_clean C n A s k chs HQ Hq HC) as H.
    destruct (uniform_random_sampling (build C n) A k chs s) as [[s' r] ok]. exact H.
  - pose proof (enumerate_clean C n A k cur s HQ Hq HC) as H.
    destruct (enumerate (build C n) A k cur s) as [[s' cur'] r]. exact H.
  - pose proof (get_marked_clean C n A s (wf_idx C n (wfq_wf C n HQ)) HC) as H.
    destruct (get_marked_nodes_clone (build C n) A s) as [s' l]. exact H.
Qed.

Lemma run_reqs_clean C n qs : forall s cur,
  WFQ C n -> Forall (hist_ok n) qs -> Clean C s ->
  Clean C (fst (run_reqs (build C n) qs (s, cur))).
Proof.
  induction qs as [|q qs IH]; intros s cur HQ Hqs HC; [exact HC|].
  inversion Hqs as [|? ? Hq Hqs']; subst. unfold run_reqs. cbn [fold_left].
  pose proof (run_req_clean C n q s cur HQ Hq HC) as H1.
  destruct (fst (run_req (build C n) (s, cur) q)) as [s1 cur1]. cbn [fst] in H1.
  exact (IH s1 cur1 HQ Hqs' H1).
Qed.

(* ---------- from a Clean state the answer is the one of any other Clean state ---------- *)

Lemma run_req_answer C n q s cur s' cur' :
  WFQ C n -> ~ is_enum q -> ans_ok n q -> Clean C s -> Clean C s' ->
  snd (run_req (build C n) (s, cur) q) = snd (run_req (build C n) (s', cur') q).
Proof.
  intros HQ Hne Hq HC HC'. destruct (clean_marks C s s' HC HC') as [Hm Hd].
  destruct q as [A|A|A| |A k chs|A k|A]; cbn [run_req ans_ok is_enum] in *.
  - pose proof (execute_query_correct C n A s HQ Hq HC) as H.
    pose proof (execute_query_correct C n A s' HQ Hq HC') as H'.
    destruct (execute_query (build C n) A s) as [s1 r], (execute_query (build C n) A s') as [s1' r'].
    cbn [snd]. destruct H as [-> _], H' as [-> _]. reflexivity.
  - reflexivity.
  - destruct A as [|a A'].
    + reflexivity.
    + destruct (core_dead_with_assumptions_final C n (a :: A') s HQ ltac:(discriminate) Hq HC)
        as [s1 [E _]].
      destruct (core_dead_with_assumptions_final C n (a :: A') s' HQ ltac:(discriminate) Hq HC')
        as [s1' [E' _]].
      rewrite E, E'. reflexivity.
  - pose proof (card_of_each_feature_correct C n s HQ HC) as H.
    pose proof (card_of_each_feature_correct C n s' HQ HC') as H'.
    destruct (card_of_each_feature (build C n) s) as [s1 rows],
             (card_of_each_feature (build C n) s') as [s1' rows'].
    cbn [snd]. destruct H as [-> _], H' as [-> _]. reflexivity.
  - destruct (urs_scratch_indep (build C n) A k chs s s' Hm Hd) as [H1 H2].
    destruct (uniform_random_sampling (build C n) A k chs s) as [[s1 r] ok],
             (uniform_random_sampling (build C n) A k chs s') as [[s1' r'] ok'].
    cbn [fst snd] in *. now subst.
  - contradiction.
  - pose proof (get_marked_indep C n A s s' Hm Hd) as H.
    destruct (get_marked_nodes_clone (build C n) A s) as [s1 l],
             (get_marked_nodes_clone (build C n) A s') as [s1' l'].
    cbn [snd] in *. now subst.
Qed.

(* enumeration: the answer and the new cursor depend on the state only through the cursor *)
Lemma run_req_answer_enum C n A k s s' cur :
  Clean C s -> Clean C s' ->
  snd (run_req (build C n) (s, cur) (REnum A k)) = snd (run_req (build C n) (s', cur) (REnum A k)) /\
  snd (fst (run_req (build C n) (s, cur) (REnum A k))) =
  snd (fst (run_req (build C n) (s', cur) (REnum A k))).
Proof.
  intros HC HC'. destruct (clean_marks C s s' HC HC') as [Hm Hd]. cbn [run_req].
  destruct (enumerate_scratch_indep (build C n) A k cur s s' Hm Hd) as [H1 H2].
  destruct (enumerate (build C n) A k cur s) as [[s1 c1] r],
           (enumerate (build C n) A k cur s') as [[s1' c1'] r'].
  cbn [fst snd] in *. now subst.
Qed.

(* ---------- main theorems ---------- *)

Theorem history_independent : forall C n (qs : list req) s0 cur0,
  WFQ C n -> Forall (hist_ok n) qs -> Clean C s0 ->
  let '(s, cur) := fold_left (fun st q => fst (run_req (build C n) st q)) qs (s0, cur0) in
  Clean C s /\
  forall q, ~ is_enum q -> ans_ok n q ->
    snd (run_req (build C n) (s, cur) q) = snd (run_req (build C n) (fresh_scratch C, cur0) q).
Proof.
  intros C n qs s0 cur0 HQ Hqs HC.
  pose proof (run_reqs_clean C n qs s0 cur0 HQ Hqs HC) as H. unfold run_reqs in H.
  destruct (fold_left (fun st q => fst (run_req (build C n) st q)) qs (s0, cur0)) as [s cur].
  cbn [fst] in H. split; [exact H|].
  intros q Hne Hq. exact (run_req_answer C n q s cur (fresh_scratch C) cur0 HQ Hne Hq H (fresh_clean C)).
Qed.

(* enumeration requests: the history matters only through the cursor it left *)
Theorem history_enum_only_cursor : forall C n (qs : list req) s0 cur0 A k,
  WFQ C n -> Forall (hist_ok n) qs -> Clean C s0 ->
  let '(s, cur) := fold_left (fun st q => fst (run_req (build C n) st q)) qs (s0, cur0) in
  snd (run_req (build C n) (s, cur) (REnum A k)) =
  snd (run_req (build C n) (fresh_scratch C, cur) (REnum A k)) /\
  snd (fst (run_req (build C n) (s, cur) (REnum A k))) =
  snd (fst (run_req (build C n) (fresh_scratch C, cur) (REnum A k))).
Proof.
  intros C n qs s0 cur0 A k HQ Hqs HC.
  pose proof (run_reqs_clean C n qs s0 cur0 HQ Hqs HC) as H. unfold run_reqs in H.
  destruct (fold_left (fun st q => fst (run_req (build C n) st q)) qs (s0, cur0)) as [s cur].
  cbn [fst] in H. exact (run_req_answer_enum C n A k s (fresh_scratch C) cur H (fresh_clean C)).
Qed.

(* requests other than enumeration leave the cursor alone *)
Theorem non_enum_keeps_cursor : forall d q s cur,
  ~ is_enum q -> snd (fst (run_req d (s, cur) q)) = cur.
Proof.
  intros d q s cur Hne. destruct q as [A|A|A| |A k chs|A k|A]; cbn [run_req is_enum] in *.
  - destruct (execute_query d A s) as [s' r]. reflexivity.
  - reflexivity.
  - destruct (core_dead_with_assumptions d A s) as [s' l]. reflexivity.
  - destruct (card_of_each_feature d s) as [s' rows]. reflexivity.
  - destruct (uniform_random_sampling d A k chs s) as [[s' r] ok]. reflexivity.
  - contradiction.
  - destruct (get_marked_nodes_clone d A s) as [s' l]. reflexivity.
Qed.

(* a copy of the instance (same circuit), whatever either of them was asked before *)
Theorem clone_independent : forall C n (qs1 qs2 : list req) s1 s2 cur1 cur2,
  WFQ C n -> Forall (hist_ok n) qs1 -> Forall (hist_ok n) qs2 -> Clean C s1 -> Clean C s2 ->
  forall q, ~ is_enum q -> ans_ok n q ->
    snd (run_req (build C n) (run_reqs (build C n) qs1 (s1, cur1)) q) =
    snd (run_req (build C n) (run_reqs (build C n) qs2 (s2, cur2)) q).
Proof.
  intros C n qs1 qs2 s1 s2 cur1 cur2 HQ H1 H2 HC1 HC2 q Hne Hq.
  pose proof (history_independent C n qs1 s1 cur1 HQ H1 HC1) as G1.
  pose proof (history_independent C n qs2 s2 cur2 HQ H2 HC2) as G2.
  unfold run_reqs.
  destruct (fold_left _ qs1 (s1, cur1)) as [t1 c1]. destruct (fold_left _ qs2 (s2, cur2)) as [t2 c2].
  destruct G1 as [_ G1], G2 as [_ G2]. rewrite (G1 q Hne Hq), (G2 q Hne Hq).
  exact (run_req_answer C n q _ cur1 _ cur2 HQ Hne Hq (fresh_clean C) (fresh_clean C)).
Qed.

(* ---------- two models in one process: who owns the cursor ---------- *)
(* A process with two loaded models.  Since the repair F21 the enumeration cursor is a field of the
   loaded model (Ddnnf.enumeration_cursor): the state of the process is two instance states side
   by side, each with ITS OWN cursor, and a request names the model it goes to.  The code before
   the repair (`_v0`) had ONE cursor map for the process (the static ENUMERATION_CACHE, keyed by
   the assumption set only): two scratch states, one cursor. *)
Inductive which := M1 | M2.
Definition is_m (w w' : which) : bool :=
  match w, w' with M1, M1 | M2, M2 => true | _, _ => false end.

Definition proc := ((scratch * cursor) * (scratch * cursor))%type.

Definition proc_step (d1 d2 : ddnnf) (p : proc) (wq : which * req) : proc * answer :=
  match fst wq with
  | M1 => let '(st', a) := run_req d1 (fst p) (snd wq) in ((st', snd p), a)
  | M2 => let '(st', a) := run_req d2 (snd p) (snd wq) in ((fst p, st'), a)
  end.

Fixpoint proc_run (d1 d2 : ddnnf) (p : proc) (h : list (which * req)) : proc * list (which * answer) :=
  match h with
  | [] => (p, [])
  | wq :: r =>
    let '(p', a) := proc_step d1 d2 p wq in
    let '(p'', l) := proc_run d1 d2 p' r in (p'', (fst wq, a) :: l)
  end.

(* one model alone in a process *)
Fixpoint run_reqs_ans (d : ddnnf) (st : scratch * cursor) (qs : list req) : (scratch * cursor) * list answer :=
  match qs with
  | [] => (st, [])
  | q :: r =>
    let '(st', a) := run_req d st q in
    let '(st'', l) := run_reqs_ans d st' r in (st'', a :: l)
  end.

(* the requests / answers that concern one of the two models *)
Definition only {X} (w : which) (l : list (which * X)) : list X :=
  map snd (filter (fun x => is_m w (fst x)) l).

(* C16, the cursor part: whatever is asked of the OTHER model, in whatever interleaving, this
   model's state (scratch AND cursor) and all its answers - enumeration pages included - are
   those of a process in which only this model exists. *)
Theorem cursor_per_model d1 d2 (h : list (which * req)) : forall st1 st2,
  let '(p', ans) := proc_run d1 d2 (st1, st2) h in
  (fst p', only M1 ans) = run_reqs_ans d1 st1 (only M1 h) /\
  (snd p', only M2 ans) = run_reqs_ans d2 st2 (only M2 h).
Proof.
  induction h as [|[w q] r IH]; intros st1 st2; [split; reflexivity|].
  cbn [proc_run]. unfold proc_step. cbn [fst snd].
  destruct w.
  - destruct (run_req d1 st1 q) as [st1' a] eqn:E1.
    specialize (IH st1' st2). destruct (proc_run d1 d2 (st1', st2) r) as [p'' l].
    destruct IH as [IH1 IH2]. unfold only in *. cbn [filter fst is_m map snd run_reqs_ans].
    rewrite E1. split.
    + destruct (run_reqs_ans d1 st1' _) as [st'' l1]. now injection IH1 as <- <-.
    + exact IH2.
  - destruct (run_req d2 st2 q) as [st2' a] eqn:E2.
    specialize (IH st1 st2'). destruct (proc_run d1 d2 (st1, st2') r) as [p'' l].
    destruct IH as [IH1 IH2]. unfold only in *. cbn [filter fst is_m map snd run_reqs_ans].
    rewrite E2. split.
    + exact IH1.
    + destruct (run_reqs_ans d2 st2' _) as [st'' l2]. now injection IH2 as <- <-.
Qed.

(* ---------- the code before the repair: the cursor is shared between models (K2) ---------- *)
Definition proc_v0 := (scratch * scratch * cursor)%type.

Definition proc_step_v0 (d1 d2 : ddnnf) (p : proc_v0) (wq : which * req) : proc_v0 * answer :=
  let '(s1, s2, c) := p in
  match fst wq with
  | M1 => let '((s1', c'), a) := run_req d1 (s1, c) (snd wq) in ((s1', s2, c'), a)
  | M2 => let '((s2', c'), a) := run_req d2 (s2, c) (snd wq) in ((s1, s2', c'), a)
  end.

Fixpoint proc_run_v0 (d1 d2 : ddnnf) (p : proc_v0) (h : list (which * req)) : proc_v0 * list (which * answer) :=
  match h with
  | [] => (p, [])
  | wq :: r =>
    let '(p', a) := proc_step_v0 d1 d2 p wq in
    let '(p'', l) := proc_run_v0 d1 d2 p' r in (p'', (fst wq, a) :: l)
  end.

(* ---------- the cursor is shared between models: refuted (K2) ---------- *)
(* ENUMERATION_CACHE was one process-global map keyed by the assumption set (the sorted, de-duplicated list) only.
   x1 <-> x2 (2 models) and "x1, x2 free" (4 models) over the same two features, no assumptions,
   page size 1: after one page of the first model the second model's first page is its SECOND
   configuration, not the one a process that only loaded the second model returns. *)
Definition c16_iff : circuit :=
  [Lit 1; Lit (-1); Lit 2; Lit (-2); And [0;2]%nat; And [1;3]%nat; Or [4;5]%nat].
Definition c16_free : circuit :=
  [Lit 1; Lit (-1); Or [0;1]%nat; Lit 2; Lit (-2); Or [3;4]%nat; And [2;5]%nat].

(* the same witness as a history of the process: model 1 hands out one page, then model 2 is asked
   for its first page.  Shared cursor (v0): model 2 answers its SECOND configuration.  Cursor per
   model (F21): its first, exactly as when it is alone (cursor_per_model). *)
Definition c16_hist : list (which * req) := [(M1, REnum [] 1); (M2, REnum [] 1)].

Theorem cursor_shared_refuted_v0 : exists C1 C2 n h,
  check_wf C1 n = true /\ check_wf C2 n = true /\ C1 <> C2 /\
  let d1 := build C1 n in let d2 := build C2 n in
  let alone := snd (run_reqs_ans d2 (fresh_scratch C2, []) (only M2 h)) in
  only M2 (snd (proc_run_v0 d1 d2 (fresh_scratch C1, fresh_scratch C2, []) h)) <> alone /\
  only M2 (snd (proc_run d1 d2 ((fresh_scratch C1, []), (fresh_scratch C2, [])) h)) = alone /\
  alone = [AEnum (Some (map sort_abs (slice 0 1 (EOr C2 []))))].
Proof.
  exists c16_iff, c16_free, 2%nat, c16_hist.
  split; [vm_compute; reflexivity|]. split; [vm_compute; reflexivity|].
  split; [discriminate|]. cbv zeta.
  split; [vm_compute; discriminate|]. split; vm_compute; reflexivity.
Qed.

Theorem cursor_shared_refuted : exists C1 C2 n A k,
  check_wf C1 n = true /\ check_wf C2 n = true /\ C1 <> C2 /\
  let cur1 := snd (fst (enumerate (build C1 n) A k [] (fresh_scratch C1))) in
  let own_page := snd (enumerate (build C2 n) A k [] (fresh_scratch C2)) in
  let shared_page := snd (enumerate (build C2 n) A k cur1 (fresh_scratch C2)) in
  cur_get cur1 (enum_key A) = k /\
  own_page = Some (map sort_abs (slice 0 k (EOr C2 A))) /\
  shared_page = Some (map sort_abs (slice k (k + k) (EOr C2 A))) /\
  shared_page <> own_page.
Proof.
  exists c16_iff, c16_free, 2%nat, [], 1.
  split; [vm_compute; reflexivity|]. split; [vm_compute; reflexivity|].
  split; [discriminate|]. cbv zeta.
  split; [vm_compute; reflexivity|]. split; [vm_compute; reflexivity|].
  split; [vm_compute; reflexivity|]. vm_compute. discriminate.
Qed.
