(* The executable transition function `stepf` and the relation `step` of Model/StreamTS.v are the
   same thing; every log accepted by `valid_trace` is a run of `step`. *)
From Coq Require Import List Bool Arith ZArith String Lia.
From DD Require Import Model.StreamTS.
Import ListNotations.
Open Scope nat_scope.

Section S.
Variable answer : line -> string.
Variable repaired : bool.

Notation step := (step answer repaired).
Notation stepf := (stepf answer repaired).
Notation run := (run answer repaired).
Notation reachable := (reachable answer repaired).

Ltac dm :=
  repeat match goal with
         | H : context [match ?x with _ => _ end] |- _ => destruct x eqn:?; try discriminate
         end.

Ltac bools :=
  repeat match goal with
         | H : _ && _ = true |- _ => apply andb_true_iff in H; destruct H
         | H : _ || _ = true |- _ => apply orb_true_iff in H
         | H : negb _ = true |- _ => apply negb_true_iff in H
         | H : (_ =? _) = true |- _ => apply Nat.eqb_eq in H
         | H : (_ <=? _) = true |- _ => apply Nat.leb_le in H
         | H : (_ <? _)%Z = true |- _ => apply Z.ltb_lt in H
         | H : (_ <=? _)%Z = true |- _ => apply Z.leb_le in H
         | H : (_ =? _)%Z = true |- _ => apply Z.eqb_eq in H
         | H : (_ =? _)%Z = false |- _ => apply Z.eqb_neq in H
         | H : (_ =? _)%string = true |- _ => apply String.eqb_eq in H
         end.

Lemma wpc_top : forall p, is_wtop p = true -> p = WTop.
Proof. intros p H; destruct p; try discriminate; reflexivity. Qed.
Lemma wpc_pull : forall p, is_wpull p = true -> p = WPull.
Proof. intros p H; destruct p; try discriminate; reflexivity. Qed.
Lemma wpc_parked : forall p, is_wparked p = true -> p = WParked.
Proof. intros p H; destruct p; try discriminate; reflexivity. Qed.
Lemma wpc_stopped : forall p, is_wstopped p = true -> p = WStopped.
Proof. intros p H; destruct p; try discriminate; reflexivity. Qed.

Lemma stepf_sound : forall s e s', stepf s e = Some s' -> step s e s'.
Proof.
  intros s e s' H.
  destruct e; cbn [StreamTS.stepf recv_to] in H; unfold recv_to in H; dm; bools;
    repeat match goal with
           | H : Some _ = Some _ |- _ => inversion H; clear H
           | H : is_wtop _ = true |- _ => apply wpc_top in H
           | H : is_wpull _ = true |- _ => apply wpc_pull in H
           | H : is_wparked _ = true |- _ => apply wpc_parked in H
           | H : is_wstopped _ = true |- _ => apply wpc_stopped in H
           end; subst.
  all: try solve [econstructor; eauto].
  eapply S_m_unpark_done; eauto.
  match goal with H : _ \/ _ |- _ => destruct H; bools; auto end.
Qed.

(* the relation is deterministic per label and `stepf` decides it *)
Lemma step_stepf : forall s e s', step s e s' -> stepf s e = Some s'.
Proof.
  intros s e s' H.
  destruct H; cbn [StreamTS.stepf]; unfold recv_to;
    repeat match goal with
           | H : ?a = _ |- context [?a] => rewrite H
           end; cbn [is_wtop is_wpull is_wparked is_wstopped andb negb];
    rewrite ?Nat.eqb_refl, ?String.eqb_refl; cbn [andb negb]; try reflexivity.
  - apply Z.ltb_lt in H0. rewrite H0. reflexivity.
  - destruct H0 as [H0|H0].
    + apply Z.leb_le in H0. rewrite H0. reflexivity.
    + apply Nat.leb_le in H0. rewrite H0, orb_true_r. reflexivity.
  - apply Z.eqb_neq in H0. rewrite H0. reflexivity.
  - apply Nat.leb_le in H0. rewrite H0. reflexivity.
Qed.

Inductive steps : state -> state -> Prop :=
| steps_refl : forall s, steps s s
| steps_cons : forall s e s' s'', step s e s' -> steps s' s'' -> steps s s''.

Lemma run_steps : forall es s s', run s es = Some s' -> steps s s'.
Proof.
  induction es as [|e es IH]; intros s s' H; cbn [StreamTS.run] in H.
  - inversion H; constructor.
  - destruct (stepf s e) as [s1|] eqn:E; [|discriminate].
    eapply steps_cons; [apply stepf_sound; exact E|apply IH; exact H].
Qed.

Lemma steps_reachable : forall s0 s s', reachable s0 s -> steps s s' -> reachable s0 s'.
Proof.
  intros s0 s s' R H; induction H as [|s e s1 s2 H1 _ IH]; [exact R|].
  apply IH. eapply R_step; eauto.
Qed.

Lemma run_reachable : forall s0 s es s', reachable s0 s -> run s es = Some s' -> reachable s0 s'.
Proof. intros s0 s es s' R H; eapply steps_reachable; [exact R|eapply run_steps; exact H]. Qed.

Lemma valid_event_steps : forall s e s', valid_event answer repaired s e = Some s' -> steps s s'.
Proof. intros s e s' H; unfold valid_event in H; eapply run_steps; exact H. Qed.

Lemma valid_trace_reachable : forall tr s0 s k s',
  reachable s0 s -> valid_trace answer repaired s tr k = inl s' -> reachable s0 s'.
Proof.
  induction tr as [|e tr IH]; intros s0 s k s' R H; cbn [valid_trace] in H.
  - inversion H; subst; exact R.
  - destruct (valid_event answer repaired s e) as [s1|] eqn:E; [|discriminate].
    eapply IH; [|exact H]. eapply steps_reachable; [exact R|eapply valid_event_steps; exact E].
Qed.

End S.
