(* The determinism certificate.  Graph level: every or node's children are pairwise in
   conflict - one carries a literal l, the other -l (through And nodes), or one of them is
   false (an And over a false node, exempt in det_cert through its count 0).  Established by the
   line loop for a conforming file (decision literals on the edges), preserved by the three
   passes, transferred to the vector by the isomorphism. *)
From Coq Require Import List ZArith Bool Lia Arith.
From DD Require Import Model.Circuit Model.LexerD4 Model.LoadC2d Model.LoadD4 Spec.D4Sem Spec.D4Conform
  Proofs.PassLemmas Proofs.Renum Proofs.C10Load Proofs.DetCert Proofs.LoadD4Graph Proofs.LoadD4Ops Proofs.LoadD4Fold Proofs.LoadD4Flat
  Proofs.LoadD4Iso Proofs.LoadD4Pass2 Proofs.LoadD4Pass2S Proofs.LoadD4Struct Proofs.LoadD4Pass3
  Proofs.LoadD4Free Proofs.LoadD4Parse Proofs.LoadD4Conf.
Import ListNotations.
Local Open Scope nat_scope.

(* ---------- ordered pairs ---------- *)
Lemma PW_sublist {A} (R : A -> A -> Prop) l1 l2 : sublist l1 l2 -> PW R l2 -> PW R l1.
Proof.
  induction 1 as [|x l1 l2 Hs IH|x l1 l2 Hs IH]; intros H; [exact I| |]; destruct H as [H1 H2].
  - now apply IH.
  - split; [|now apply IH]. apply Forall_forall. intros y Hy. rewrite Forall_forall in H1. apply H1.
    exact (sublist_In _ _ _ Hs Hy).
Qed.

Lemma PW_impl {A} (R R' : A -> A -> Prop) l : (forall a b, In a l -> In b l -> R a b -> R' a b) -> PW R l -> PW R' l.
Proof.
  induction l as [|x l IH]; intros H HP; [exact I|]. destruct HP as [H1 H2]. split.
  - apply Forall_forall. intros y Hy. rewrite Forall_forall in H1. apply H; [now left|now right|now apply H1].
  - apply IH; [|exact H2]. intros a b Ha Hb. apply H; now right.
Qed.

Lemma PW_app_sym {A} (R : A -> A -> Prop) l x : (forall a b, R a b -> R b a) ->
  PW R l -> Forall (R x) l -> PW R (l ++ [x]).
Proof.
  intros Hsym. induction l as [|y l IH]; intros HP HF; cbn [app PW]; [split; constructor|].
  destruct HP as [H1 H2]. inversion HF as [|? ? Hxy HF']; subst. split.
  - apply Forall_app. split; [exact H1|]. constructor; [now apply Hsym|constructor].
  - now apply IH.
Qed.

Lemma PW_rev {A} (R : A -> A -> Prop) l : (forall a b, R a b -> R b a) -> PW R l -> PW R (rev l).
Proof.
  intros Hsym. induction l as [|x l IH]; intros H; [exact I|]. destruct H as [H1 H2]. cbn [rev].
  apply PW_app_sym; [exact Hsym|now apply IH|]. apply Forall_forall. intros y Hy. apply in_rev in Hy.
  rewrite Forall_forall in H1. now apply H1.
Qed.

Lemma PW_Forall2 {A B} (R : A -> A -> Prop) (R' : B -> B -> Prop) (Q : A -> B -> Prop) l l' :
  (forall a b a' b', R a b -> Q a a' -> Q b b' -> R' a' b') -> Forall2 Q l l' -> PW R l -> PW R' l'.
Proof.
  intros H HQ. induction HQ as [|a a' l l' Haa HQ IH]; intros HP; [exact I|]. destruct HP as [H1 H2]. split; [|now apply IH].
  apply Forall_forall. intros b' Hb'. destruct (Forall2_In_r _ _ _ _ HQ Hb') as [b [Hb Hbb]].
  rewrite Forall_forall in H1. exact (H a b a' b' (H1 b Hb) Haa Hbb).
Qed.

Lemma PW_remove1 (R : nat -> nat -> Prop) c l : (forall a b, R a b -> R b a) -> PW R l -> In c l ->
  PW R (remove1 c l) /\ Forall (R c) (remove1 c l).
Proof.
  intros Hsym. induction l as [|x r IH]; intros HP Hin; [destruct Hin|]. destruct HP as [H1 H2]. cbn [remove1].
  destruct (Nat.eqb_spec x c) as [->|Hne]; [split; assumption|].
  destruct Hin as [E|Hin]; [congruence|]. destruct (IH H2 Hin) as [I1 I2]. rewrite Forall_forall in H1. split.
  - split; [|exact I1]. apply Forall_forall. intros y Hy. apply H1. now apply (remove1_In c r).
  - constructor; [apply Hsym; now apply H1|exact I2].
Qed.

Lemma PW_pairwise {A} (R : A -> A -> Prop) (p : A -> A -> bool) l :
  (forall a b, R a b -> p a b = true) -> PW R l -> pairwise p l = true.
Proof.
  intros H. induction l as [|x l IH]; intros HP; [reflexivity|]. destruct HP as [H1 H2]. cbn [pairwise].
  rewrite (IH H2), andb_true_r. apply forallb_forall. intros y Hy. rewrite Forall_forall in H1. now apply H, H1.
Qed.

(* ---------- carrying a literal, being false ---------- *)
Inductive carries (g : sgraph) : nat -> Z -> Prop :=
| ca_lit c l : sg_label g c = Some (GLit l) -> carries g c l
| ca_and c c' l : sg_label g c = Some GAnd -> In c' (sg_out g c) -> carries g c' l -> carries g c l.

Inductive isfalse (g : sgraph) : nat -> Prop :=
| if_lab c : sg_label g c = Some GFalse -> isfalse g c
| if_and c c' : sg_label g c = Some GAnd -> In c' (sg_out g c) -> isfalse g c' -> isfalse g c.

Definition confl (g : sgraph) (c1 c2 : nat) : Prop :=
  isfalse g c1 \/ isfalse g c2 \/ exists l, l <> 0%Z /\ carries g c1 l /\ carries g c2 (- l)%Z.

Definition det_ok (g : sgraph) : Prop := forall x, sg_label g x = Some GOr -> PW (confl g) (sg_out g x).

Lemma confl_sym g a b : confl g a b -> confl g b a.
Proof.
  intros [H|[H|[l [Hl [H1 H2]]]]]; [right; now left|now left|]. right. right. exists (- l)%Z.
  split; [lia|]. split; [exact H2|now rewrite Z.opp_involutive].
Qed.

(* transport along an extension that leaves and nodes alone *)
Lemma carries_ext g g' D c l : ext g g' D -> (forall y, In y D -> sg_label g y <> Some GAnd) ->
  carries g c l -> carries g' c l.
Proof.
  intros He HD. induction 1 as [c l Hl|c c' l Hl Hc _ IH].
  - apply ca_lit. exact (ext_label_some _ _ _ _ _ He Hl).
  - apply (ca_and g' c c'); [exact (ext_label_some _ _ _ _ _ He Hl)| |exact IH].
    rewrite (ex_out _ _ _ He c); [exact Hc|unfold sg_alive; now rewrite Hl|]. intros Hin. now apply (HD c Hin).
Qed.
Lemma isfalse_ext g g' D c : ext g g' D -> (forall y, In y D -> sg_label g y <> Some GAnd) ->
  isfalse g c -> isfalse g' c.
Proof.
  intros He HD. induction 1 as [c Hl|c c' Hl Hc _ IH].
  - apply if_lab. exact (ext_label_some _ _ _ _ _ He Hl).
  - apply (if_and g' c c'); [exact (ext_label_some _ _ _ _ _ He Hl)| |exact IH].
    rewrite (ex_out _ _ _ He c); [exact Hc|unfold sg_alive; now rewrite Hl|]. intros Hin. now apply (HD c Hin).
Qed.
Lemma confl_ext g g' D a b : ext g g' D -> (forall y, In y D -> sg_label g y <> Some GAnd) ->
  confl g a b -> confl g' a b.
Proof.
  intros He HD [H|[H|[l [Hl [H1 H2]]]]]; [left; now apply (isfalse_ext g g' D)|right; left; now apply (isfalse_ext g g' D)|].
  right. right. exists l. split; [exact Hl|]. split; now apply (carries_ext g g' D).
Qed.

(* transport along the second traversal, for nodes that survive *)
Section Shrink.
Variables (g g' : sgraph).
Hypothesis HS : step_ok g g'.

Lemma keep_label c t : sg_alive g' c = true -> sg_label g c = Some t -> t <> GOr -> sg_label g' c = Some t.
Proof.
  intros Ha Hl Ht. destruct (sh_label _ _ (so_sh _ _ HS) c Ha) as [E|[E _]]; congruence.
Qed.

Lemma carries_shrink c l : carries g c l -> sg_alive g' c = true -> carries g' c l.
Proof.
  induction 1 as [c l Hl|c c' l Hl Hc Hcar IH]; intros Ha.
  - apply ca_lit. apply (keep_label c _ Ha Hl). discriminate.
  - assert (Hl' : sg_label g' c = Some GAnd) by (apply (keep_label c _ Ha Hl); discriminate).
    assert (Hin : In c' (sg_out g' c)).
    { destruct (s2_and _ _ (so_s2 _ _ HS) c c' Hl' Hc) as [H|H]; [exact H|]. exfalso.
      assert (Ha' : sg_alive g' c' = true) by (unfold sg_alive; now rewrite H).
      inversion Hcar as [? ? Hl0|? ? ? Hl0]; subst;
        rewrite (keep_label c' _ Ha' Hl0 ltac:(discriminate)) in H; discriminate. }
    apply (ca_and g' c c' l Hl' Hin). apply IH.
    exact (proj2 (out_alive g' c c' (proj1 (so_inv _ _ HS)) Hin)).
Qed.

Lemma isfalse_shrink c : isfalse g c -> sg_alive g' c = true -> isfalse g' c.
Proof.
  induction 1 as [c Hl|c c' Hl Hc Hf IH]; intros Ha.
  - apply if_lab. apply (keep_label c _ Ha Hl). discriminate.
  - assert (Hl' : sg_label g' c = Some GAnd) by (apply (keep_label c _ Ha Hl); discriminate).
    assert (Hin : In c' (sg_out g' c)).
    { destruct (s2_and _ _ (so_s2 _ _ HS) c c' Hl' Hc) as [H|H]; [exact H|]. exfalso.
      assert (Ha' : sg_alive g' c' = true) by (unfold sg_alive; now rewrite H).
      inversion Hf as [? Hl0|? ? Hl0]; subst;
        rewrite (keep_label c' _ Ha' Hl0 ltac:(discriminate)) in H; discriminate. }
    apply (if_and g' c c' Hl' Hin). apply IH.
    exact (proj2 (out_alive g' c c' (proj1 (so_inv _ _ HS)) Hin)).
Qed.

Lemma det_ok_shrink : det_ok g -> det_ok g'.
Proof.
  intros Hd x Hl. assert (Hlg : sg_label g x = Some GOr) by (apply (shrink_label_back g g'); [apply (so_sh _ _ HS)|exact Hl|discriminate]).
  apply (PW_sublist _ _ _ (s2_sub _ _ (so_s2 _ _ HS) x)) in Hd; [|exact Hlg].
  eapply PW_impl; [|exact Hd]. intros a b Ha Hb Hab.
  assert (Haa : sg_alive g' a = true) by exact (proj2 (out_alive g' x a (proj1 (so_inv _ _ HS)) Ha)).
  assert (Hba : sg_alive g' b = true) by exact (proj2 (out_alive g' x b (proj1 (so_inv _ _ HS)) Hb)).
  destruct Hab as [H|[H|[l [Hnz [H1 H2]]]]]; [left; now apply isfalse_shrink|right; left; now apply isfalse_shrink|].
  right. right. exists l. split; [exact Hnz|]. split; now apply carries_shrink.
Qed.
End Shrink.

(* an or-triangle *)
Lemma tri_det g f o : tri_node g f o -> PW (confl g) (sg_out g o).
Proof.
  intros [Hf [_ [n [p [Ho [Hn Hp]]]]]]. rewrite Ho. cbn [PW].
  split; [|split; [constructor|exact I]]. constructor; [|constructor].
  right. right. exists (- Z.of_nat f)%Z. split; [lia|]. split; [now apply ca_lit|].
  rewrite Z.opp_involutive. now apply ca_lit.
Qed.

(* ---------- free features and smoothing ---------- *)
Lemma det_ok_new_or {P st} s s' ands y : lprov s s' ands -> tables_ok P st s' ->
  sg_label (ls_g s') y = Some GOr ->
  sg_label (ls_g s) y = Some GOr \/ PW (confl (ls_g s')) (sg_out (ls_g s') y).
Proof.
  intros Hp Hok Hl. destruct (Hp y _ Hl) as [H|[[l H]|[[_ [f Hf]]|[H _]]]]; try discriminate; [now left|].
  right. exact (tri_det _ f y (proj2 Hok f y Hf)).
Qed.

Lemma det_ok_free {P st} s root' s' : free_result s root' s' -> lprov s s' [root'] -> tables_ok P st s' ->
  det_ok (ls_g s) -> det_ok (ls_g s').
Proof.
  intros Hfree Hp Hok Hd y Hl. destruct (det_ok_new_or s s' _ y Hp Hok Hl) as [Hold|Hnew]; [|exact Hnew].
  destruct Hfree as [[_ ->]|[_ [_ [He _]]]]; [now apply Hd|].
  rewrite (ex_out _ _ _ He y) by (try (unfold sg_alive; now rewrite Hold); intros []).
  eapply PW_impl; [|exact (Hd y Hold)]. intros a b _ _. apply (confl_ext _ _ [] a b He). intros ? [].
Qed.

Lemma confl_wrap g nx an c y : bal_node g nx an c -> confl g c y -> confl g an y.
Proof.
  intros [_ [Hl [tris [Ho _]]]] Hc.
  assert (Hin : In c (sg_out g an)) by (rewrite Ho; apply in_or_app; right; now left).
  destruct Hc as [H|[H|[l [Hnz [H1 H2]]]]]; [left; exact (if_and g an c Hl Hin H)|right; now left|].
  right. right. exists l. split; [exact Hnz|]. split; [exact (ca_and g an c l Hl Hin H1)|exact H2].
Qed.

Lemma subst_rel_PW g nx l l' : subst_rel g nx l l' -> PW (confl g) l -> PW (confl g) l'.
Proof.
  induction 1 as [|l l' an c _ IH Hc Hb]; intros HP; [exact HP|].
  destruct (PW_remove1 (confl g) c l' (confl_sym g) (IH HP) Hc) as [H1 H2].
  split; [|exact H1]. eapply Forall_impl; [|exact H2]. intros y. now apply (confl_wrap g nx an c).
Qed.

Section Pass3.
Variables (rc : bool) (ord : list nat -> list nat).
Context {P : Z -> Prop} {st : bool}.

Lemma det_ok_step m s s' nx : tables_ok P st s -> p3step ord (P := P) (st := st) m s s' nx ->
  det_ok (ls_g s) -> det_ok (ls_g s').
Proof.
  intros Hok [[-> _]|[[-> _]|[Hnx [_ [Hok' [He [Hs [cd [_ [ans [Hp _]]]]]]]]]]] Hd; try exact Hd.
  intros y Hl. destruct (det_ok_new_or s s' _ y Hp Hok' Hl) as [Hold|Hnew]; [|exact Hnew].
  assert (HD : forall z, In z [nx] -> sg_label (ls_g s) z <> Some GAnd) by (intros z [<-|[]]; congruence).
  assert (Ht : PW (confl (ls_g s')) (sg_out (ls_g s) y)).
  { eapply PW_impl; [|exact (Hd y Hold)]. intros a b _ _. now apply (confl_ext _ _ [nx]). }
  destruct (Nat.eq_dec y nx) as [->|Hne].
  - exact (subst_rel_PW _ _ _ _ Hs Ht).
  - rewrite (ex_out _ _ _ He y) by (try (unfold sg_alive; now rewrite Hold); intros [E|[]]; congruence). exact Ht.
Qed.
End Pass3.

(* ---------- the line loop: decision literals on the edges ---------- *)
Lemma is_kind_spec toks i k : is_kind toks i k = true -> kind toks i = Some k.
Proof. unfold is_kind. destruct (kind toks i) as [[]|], k; try discriminate; reflexivity. Qed.

Lemma det_ok_rep {P : Z -> Prop} {st : bool} toks n n0 b : (forall l, P l -> l <> 0%Z) -> d4_conform toks n = true -> rep P st n0 toks b ->
  det_ok (ls_g (bs_ls b)).
Proof.
  intros Pnz Hconf HR y Hl. set (g := ls_g (bs_ls b)) in *.
  destruct (rp_class _ _ _ _ _ HR y _ Hl) as [Hin|[[l E]|E]]; try discriminate.
  apply In_nth_error in Hin. destruct Hin as [i Hi].
  destruct (Forall2_nth_error _ _ _ _ _ (rp_decl _ _ _ _ _ HR) Hi) as [k [Hk Hlk]]. fold g in Hlk.
  assert (k = KOr) as -> by (rewrite Hl in Hlk; destruct k; cbn in Hlk; congruence).
  assert (HiK' : 1 <= S i <= nk toks) by (split; [lia|]; unfold nk; assert (i < length (d4_decls toks)) by (apply nth_error_Some; congruence); lia).
  assert (Hkind : kind toks (S i) = Some KOr) by (unfold kind; replace (S i - 1) with i by lia; exact Hk).
  pose proof (cf_or toks n Hconf (S i) HiK' Hkind) as Hor.
  pose proof (rp_edges _ _ _ _ _ HR i y Hi) as Hrep. fold g in Hrep.
  destruct (or_ok_cases toks (S i) Hor) as [[to Ee]|HP].
  - unfold edges in Ee. rewrite Ee in Hrep. cbn [rev app] in Hrep.
    inversion Hrep as [|? y1 ? l1 _ Hr]; subst. inversion Hr; subst. cbn [PW]. split; [constructor|exact I].
  - apply (PW_rev _ _ (Redge_sym toks)) in HP.
    refine (PW_Forall2 _ _ _ _ _ _ Hrep HP). intros e1 e2 y1 y2 HRe H1 H2.
    assert (Hex : forall e y0, exempt toks e -> edge_rep g (bs_idx b) e y0 -> isfalse g y0).
    { intros e y0 [He1 He2] [tx [Hto [Htx Hc]]]. destruct Hc as [[_ ->]|[Hne _]]; [|congruence].
      destruct (Forall2_nth_error _ _ _ _ _ (rp_decl _ _ _ _ _ HR) Htx) as [k' [Hk' Hlk']]. fold g in Hlk'.
      apply is_kind_spec in He2. unfold kind in He2. rewrite He2 in Hk'. injection Hk' as <-.
      now apply if_lab. }
    assert (Hcar : forall e y0 l, In l (fst e) -> fst e <> [] -> edge_rep g (bs_idx b) e y0 -> carries g y0 l /\ l <> 0%Z).
    { intros e y0 l Hin Hne [tx [_ [_ Hc]]]. destruct Hc as [[E _]|[_ [_ [Hand [lns [Ho Hn]]]]]]; [congruence|].
      destruct (Forall2_In_l _ _ _ _ Hn Hin) as [z [Hz Hlz]]. split.
      - apply (ca_and g y0 z l Hand); [rewrite Ho; right; now apply -> in_rev|now apply ca_lit].
      - exact (Pnz l (co_pos _ _ _ (rp_core _ _ _ _ _ HR) z l Hlz)). }
    destruct HRe as [Hx|[Hx|[Hn1 [Hn2 Hc]]]].
    + left. exact (Hex e1 y1 Hx H1).
    + right. left. exact (Hex e2 y2 Hx H2).
    + destruct (conflict_spec _ _ Hc) as [l [Hl1 Hl2]]. right. right. exists l.
      destruct (Hcar e1 y1 l Hl1 Hn1 H1) as [C1 Hnz]. split; [exact Hnz|].
      split; [exact C1|exact (proj1 (Hcar e2 y2 (- l)%Z Hl2 Hn2 H2))].
Qed.

(* ---------- to the vector ---------- *)
Lemma carries_forced g c l : carries g c l -> forall v, GF hforced g c v -> In l v.
Proof.
  induction 1 as [c l Hl|c c' l Hl Hc _ IH]; intros v Hv.
  - rewrite (GF_leaf_inv hforced g c _ v Hl eq_refl Hv). now left.
  - destruct (GF_gate_inv hforced g c _ v Hl eq_refl Hv) as [vs [Hvs ->]]. cbn [hforced].
    destruct (Forall2_In_l_ex _ _ _ _ Hvs Hc) as [v' [Hv' Hc']]. apply in_concat. exists v'. split; [exact Hv'|now apply IH].
Qed.

Lemma zprod_zero vs : In 0%Z vs -> zprod vs = 0%Z.
Proof.
  induction vs as [|x vs IH]; [intros []|]. cbn [zprod fold_right]. intros [->|H]; [reflexivity|].
  fold (zprod vs). rewrite (IH H). lia.
Qed.

Lemma isfalse_count g c : isfalse g c -> forall v, GF hcount g c v -> v = 0%Z.
Proof.
  induction 1 as [c Hl|c c' Hl Hc _ IH]; intros v Hv.
  - now rewrite (GF_leaf_inv hcount g c _ v Hl eq_refl Hv).
  - destruct (GF_gate_inv hcount g c _ v Hl eq_refl Hv) as [vs [Hvs ->]]. cbn [hcount].
    destruct (Forall2_In_l_ex _ _ _ _ Hvs Hc) as [v' [Hv' Hc']]. apply zprod_zero. now rewrite <- (IH v' Hc').
Qed.

Lemma fold_left_map_inter (f : nat -> list Z) cs v :
  fold_left (fun a c' => interZ a (f c')) cs v = fold_left interZ (map f cs) v.
Proof. revert v. induction cs as [|c cs IH]; intros v; [reflexivity|]. cbn [fold_left map]. apply IH. Qed.

Lemma forced_bridge acc t cs : forced_node acc (flat_node t cs) =
  hforced t (if is_gate t then map (fun c => nth c acc []) cs else []).
Proof.
  destruct t; cbn [flat_node forced_node hforced is_gate]; try reflexivity.
  destruct cs as [|c cs]; [reflexivity|]. cbn [map]. apply fold_left_map_inter.
Qed.

Lemma count_bridge acc t cs : count_node acc (flat_node t cs) =
  hcount t (if is_gate t then map (fun c => nth c acc 0%Z) cs else []).
Proof. destruct t; reflexivity. Qed.

Theorem iso_det_cert g root order C : iso g root order C -> det_ok g -> det_cert C = true.
Proof.
  intros HI Hd. unfold det_cert. apply forallb_forall. intros nd Hnd.
  destruct (In_nth _ _ FalseN Hnd) as [j [Hj <-]].
  destruct (is_node _ _ _ _ HI j Hj) as [t [cs [Hl [E H]]]]. rewrite E.
  destruct t; cbn [flat_node det_cert_node]; try reflexivity.
  assert (Hlt : forall (y : nat) c, In c cs -> c < length C).
  { intros _ c Hc. destruct (Forall2_In_r _ _ _ _ H Hc) as [y [_ [_ [_ Hc']]]]. specialize (Hc' eq_refl). lia. }
  apply (PW_pairwise (fun c1 c2 => c1 < length C /\ c2 < length C /\
                        confl g (nth c1 order 0) (nth c2 order 0))).
  - intros c1 c2 [H1 [H2 Hc]].
    pose proof (iso_pass g root order C HI count_node 0%Z hcount count_node_local count_bridge) as Hcnt.
    pose proof (iso_pass g root order C HI forced_node [] hforced forced_node_local forced_bridge) as Hfor.
    fold (counts C) in Hcnt. fold (forceds C) in Hfor.
    destruct Hc as [Hf|[Hf|[l [Hnz [C1 C2]]]]].
    + rewrite (isfalse_count g _ Hf _ (Hcnt c1 H1)). reflexivity.
    + rewrite (isfalse_count g _ Hf _ (Hcnt c2 H2)). cbn [Z.eqb]. rewrite orb_true_r. reflexivity.
    + apply orb_true_iff. right. unfold conflictb. apply existsb_exists. exists l.
      split; [exact (carries_forced g _ l C1 _ (Hfor c1 H1))|].
      apply andb_true_iff. split; [now apply negb_true_iff, Z.eqb_neq|].
      unfold memZ. apply existsb_exists. exists (- l)%Z. split; [exact (carries_forced g _ _ C2 _ (Hfor c2 H2))|apply Z.eqb_refl].
  - refine (PW_Forall2 (confl g) _ (fun y c => nth c order 0 = y /\ c < length C) _ _ _ _ (Hd _ Hl)).
    + intros a b a' b' Hab [<- Ha] [<- Hb]. auto.
    + eapply Forall2_In_impl; [|exact H]. cbn beta. intros y c _ Hc [Hy _]. split; [exact Hy|now apply (Hlt y)].
Qed.
