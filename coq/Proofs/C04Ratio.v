(* C04: the ratio column of the per-feature table is the exact reduced fraction
   MCA [f] / MC, between 0 and 1; the call panics exactly on a model without models. *)
From Coq Require Import List ZArith Bool Lia.
From DD Require Import Model.Circuit Model.Query Model.Ratio Proofs.Semantics Proofs.PassLemmas Proofs.CountsA
  Proofs.QueryDefs Proofs.C04Proof.
Import ListNotations.
Open Scope Z_scope.

Definition ratio_ok (total : Z) (row : Z * Z * (Z * Z)) : Prop :=
  let c := snd (fst row) in let a := fst (snd row) in let b := snd (snd row) in
  0 < b /\ a * total = c * b /\ Z.gcd a b = 1 /\ 0 <= a <= b.

Lemma ratio_new_spec num den : 0 < den -> 0 <= num <= den ->
  exists a b, ratio_new num den = Some (a, b) /\
    0 < b /\ a * den = num * b /\ Z.gcd a b = 1 /\ 0 <= a <= b.
Proof.
  intros Hd Hn. unfold ratio_new.
  destruct (den =? 0) eqn:E; [apply Z.eqb_eq in E; lia|].
  set (g := Z.gcd num den).
  assert (Hg0 : 0 <= g) by apply Z.gcd_nonneg.
  assert (Hgn : g <> 0).
  { unfold g. intro H. apply Z.gcd_eq_0_r in H. lia. }
  assert (Hg : 0 < g) by lia.
  destruct (Z.gcd_divide_l num den) as [a Ha]. destruct (Z.gcd_divide_r num den) as [b Hb].
  fold g in Ha, Hb.
  assert (Ea : num / g = a) by (rewrite Ha; apply Z.div_mul; exact Hgn).
  assert (Eb : den / g = b) by (rewrite Hb; apply Z.div_mul; exact Hgn).
  rewrite Ea, Eb.
  assert (Hbpos : 0 < b) by nia.
  destruct (b <? 0) eqn:Eb0; [apply Z.ltb_lt in Eb0; lia|].
  exists a, b. split; [reflexivity|]. split; [exact Hbpos|]. split; [nia|]. split.
  - rewrite <- Ea, <- Eb. apply Z.gcd_div_gcd; [exact Hgn|reflexivity].
  - nia.
Qed.

Lemma ratio_new_zero num : ratio_new num 0 = None.
Proof. reflexivity. Qed.

Lemma ratio_rows_spec total (rows : list (Z * Z)) : 0 < total ->
  (forall vc, In vc rows -> 0 <= snd vc <= total) ->
  exists out, ratio_rows total rows = Some out /\
    map fst out = rows /\ Forall (ratio_ok total) out.
Proof.
  intros Ht. induction rows as [|vc rows IH]; intros Hb.
  - exists []. repeat split; constructor.
  - destruct IH as [out [E [Hm Hf]]]; [intros x Hx; apply Hb; right; exact Hx|].
    destruct (ratio_new_spec (snd vc) total Ht (Hb vc (or_introl eq_refl))) as [a [b [Er [H1 [H2 [H3 H4]]]]]].
    exists ((fst vc, snd vc, (a, b)) :: out). cbn [ratio_rows fold_right].
    fold (ratio_rows total rows). rewrite Er, E. split; [reflexivity|]. split.
    + cbn [map fst]. rewrite Hm. destruct vc; reflexivity.
    + constructor; [|exact Hf]. unfold ratio_ok. cbn [fst snd]. repeat split; lia.
Qed.

Lemma ratio_rows_panics (rows : list (Z * Z)) : rows <> [] -> ratio_rows 0 rows = None.
Proof. destruct rows as [|vc rows]; [congruence|]. intros _. reflexivity. Qed.

Lemma MCA_le_MC C n A : 0 <= MCA C n A <= MC C n.
Proof.
  unfold MCA, MC, ModelsA. split; [lia|]. apply Nat2Z.inj_le. apply filter_length_le'.
Qed.

Lemma rc_build_MC C n : WF C n -> rc (build C n) = MC C n.
Proof.
  intros HW. rewrite <- (count_is_MC C n HW). unfold rc, root_count, rootn. cbn [circ cnts build].
  rewrite last_nth. unfold counts. rewrite pass_length. reflexivity.
Qed.

Theorem card_of_each_feature_ratio_correct : forall C n s, WFQ C n -> Clean C s -> 0 < MC C n ->
  exists rows, snd (card_of_each_feature_ratio (build C n) s) = Some rows /\
    map fst rows = map (fun f => (f, MCA C n [f])) (zseq 1 n) /\
    Forall (ratio_ok (MC C n)) rows.
Proof.
  intros C n s HW HC Hpos. unfold card_of_each_feature_ratio. cbn [snd].
  pose proof (card_of_each_feature_correct C n s HW HC) as H.
  destruct (card_of_each_feature (build C n) s) as [s' rows]. destruct H as [Hr _]. cbn [snd].
  rewrite (rc_build_MC C n (wfq_wf _ _ HW)). subst rows.
  apply ratio_rows_spec; [exact Hpos|].
  intros vc Hin. apply in_map_iff in Hin. destruct Hin as [f [E _]]. subst vc. cbn [snd].
  apply MCA_le_MC.
Qed.

Theorem card_of_each_feature_ratio_panics : forall C n s, WFQ C n -> Clean C s ->
  MC C n = 0 -> (0 < n)%nat ->
  snd (card_of_each_feature_ratio (build C n) s) = None.
Proof.
  intros C n s HW HC H0 Hn. unfold card_of_each_feature_ratio. cbn [snd].
  pose proof (card_of_each_feature_correct C n s HW HC) as H.
  destruct (card_of_each_feature (build C n) s) as [s' rows]. destruct H as [Hr _]. cbn [snd].
  rewrite (rc_build_MC C n (wfq_wf _ _ HW)), H0. apply ratio_rows_panics. subst rows.
  destruct n as [|n]; [lia|]. unfold zseq. cbn. congruence.
Qed.
