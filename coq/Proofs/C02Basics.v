(* C02: basic facts about the derived data of Model/Query.v:
   upd, parents lists, the literal index, the core, sort_nat, extensionality of countsA. *)
From Coq Require Import List ZArith Bool Lia.
From DD Require Import Model.Circuit Model.Query Proofs.PassLemmas Proofs.Enum Proofs.Semantics
  Proofs.CountsA Proofs.QueryDefs Proofs.Live.
Import ListNotations.
Open Scope Z_scope.

(* ---------- upd ---------- *)

Lemma upd_length {A} (i : nat) (x : A) (l : list A) : length (upd i x l) = length l.
Proof.
  revert i. induction l as [|h t IH]; intros i; [now destruct i|].
  destruct i as [|i]; cbn [upd length]; [reflexivity|]. now rewrite IH.
Qed.

Lemma nth_upd_eq {A} (i : nat) (x d : A) (l : list A) :
  (i < length l)%nat -> nth i (upd i x l) d = x.
Proof.
  revert i. induction l as [|h t IH]; intros i Hi; [cbn in Hi; lia|].
  destruct i as [|i]; cbn [upd nth]; [reflexivity|]. apply IH. cbn in Hi. lia.
Qed.

Lemma nth_upd_neq {A} (i j : nat) (x d : A) (l : list A) :
  i <> j -> nth j (upd i x l) d = nth j l d.
Proof.
  revert i j. induction l as [|h t IH]; intros i j Hij; [now destruct i|].
  destruct i as [|i]; destruct j as [|j]; cbn [upd nth]; try reflexivity; try lia.
  apply IH. lia.
Qed.

Lemma fold_upd_length {A} (x : A) (js : list nat) (l : list A) :
  length (fold_left (fun m j => upd j x m) js l) = length l.
Proof.
  revert l. induction js as [|a js IH]; intros l; [reflexivity|].
  cbn [fold_left]. now rewrite IH, upd_length.
Qed.

Lemma fold_upd_nth_notin {A} (x d : A) (js : list nat) (l : list A) (j : nat) :
  ~ In j js -> nth j (fold_left (fun m j => upd j x m) js l) d = nth j l d.
Proof.
  revert l. induction js as [|a js IH]; intros l Hn; [reflexivity|].
  cbn [fold_left]. rewrite IH by (intros H; apply Hn; now right).
  apply nth_upd_neq. intros ->. apply Hn. now left.
Qed.

Lemma fold_upd_nth_in {A} (x d : A) (js : list nat) (l : list A) (j : nat) :
  In j js -> (j < length l)%nat -> nth j (fold_left (fun m j => upd j x m) js l) d = x.
Proof.
  revert l. induction js as [|a js IH]; intros l Hin Hj; [destruct Hin|].
  cbn [fold_left]. destruct (in_dec Nat.eq_dec j js) as [Hjs|Hjs].
  - apply IH; [exact Hjs|]. now rewrite upd_length.
  - destruct Hin as [->|Hin]; [|contradiction].
    rewrite fold_upd_nth_notin by exact Hjs. now apply nth_upd_eq.
Qed.

Lemma Forall_false_nth (ms : list bool) (j : nat) :
  Forall (fun b => b = false) ms -> nth j ms false = false.
Proof.
  intros H. revert j. induction H as [|b ms Hb H IH]; intros j; [now destruct j|].
  destruct j as [|j]; [exact Hb|]. apply IH.
Qed.

Lemma nth_false_Forall (ms : list bool) :
  (forall j, nth j ms false = false) -> Forall (fun b => b = false) ms.
Proof.
  induction ms as [|b ms IH]; intros H; [constructor|].
  constructor; [exact (H 0%nat)|]. apply IH. intros j. exact (H (S j)).
Qed.

(* ---------- parents ---------- *)

Lemma parents_from_spec (C : circuit) : forall k c p,
  In p (parents_from k C c) <->
  exists j, p = (k + j)%nat /\ (j < length C)%nat /\ In c (children (nth j C FalseN)).
Proof.
  induction C as [|nd C IH]; intros k c p.
  - cbn. split; [intros []|]. intros [j [_ [Hj _]]]. lia.
  - cbn [parents_from]. rewrite in_app_iff, IH. split.
    + intros [H|[j [Hp [Hj Hc]]]].
      * apply in_map_iff in H. destruct H as [x [Hx Hin]]. apply filter_In in Hin.
        destruct Hin as [Hin Heq]. apply Nat.eqb_eq in Heq. subst x.
        exists 0%nat. cbn. repeat split; [lia|lia|exact Hin].
      * exists (S j). cbn. repeat split; [lia|lia|exact Hc].
    + intros [[|j] [Hp [Hj Hc]]].
      * left. cbn in Hc. apply in_map_iff. exists c. split; [lia|].
        apply filter_In. split; [exact Hc|apply Nat.eqb_refl].
      * right. exists j. cbn in Hj, Hc. repeat split; [lia|lia|exact Hc].
Qed.

Lemma parents_nth (C : circuit) (c : nat) :
  (c < length C)%nat -> nth c (parents C) [] = parents_from 0 C c.
Proof.
  intros Hc. unfold parents.
  rewrite (nth_indep _ [] (parents_from 0 C 0)) by now rewrite map_length, seq_length.
  rewrite map_nth. now rewrite seq_nth.
Qed.

Lemma parents_spec (C : circuit) (c p : nat) :
  (c < length C)%nat ->
  (In p (nth c (parents C) []) <-> (p < length C)%nat /\ In c (children (nth p C FalseN))).
Proof.
  intros Hc. rewrite parents_nth by exact Hc. rewrite parents_from_spec. split.
  - intros [j [-> [Hj Hin]]]. now split.
  - intros [Hp Hin]. exists p. now repeat split.
Qed.

(* ---------- literal index ---------- *)

Lemma in_lits_of (C : circuit) (l : Z) : In l (lits_of C) <-> In (Lit l) C.
Proof.
  unfold lits_of. rewrite in_flat_map. split.
  - intros [nd [Hnd Hl]]. destruct nd as [l'|cs|cs| |]; cbn in Hl; try contradiction.
    destruct Hl as [<-|[]]. exact Hnd.
  - intros H. exists (Lit l). split; [exact H|now left].
Qed.

Lemma unique_cons (nd : ntype) (C : circuit) :
  unique_leaves (nd :: C) = true ->
  unique_leaves C = true /\ forall l, nd = Lit l -> ~ In (Lit l) C.
Proof.
  unfold unique_leaves. destruct nd as [l'|cs|cs| |]; cbn [lits_of flat_map app]; fold (lits_of C);
    intros H; try (split; [exact H|intros l Hl; discriminate Hl]).
  cbn [nodupb] in H. apply andb_true_iff in H. destruct H as [H1 H2]. split; [exact H2|].
  intros l Hl. injection Hl as ->. apply negb_true_iff, memZ_false in H1.
  intros Hin. apply H1. now apply in_lits_of.
Qed.

Lemma lit_unique (C : circuit) : unique_leaves C = true ->
  forall i j l, nth_error C i = Some (Lit l) -> nth_error C j = Some (Lit l) -> i = j.
Proof.
  induction C as [|nd C IH]; intros HU i j l Hi Hj; [now destruct i|].
  apply unique_cons in HU. destruct HU as [HU Hnd].
  destruct i as [|i]; destruct j as [|j]; cbn [nth_error] in Hi, Hj.
  - reflexivity.
  - injection Hi as ->. exfalso. apply (Hnd l eq_refl). eapply nth_error_In; exact Hj.
  - injection Hj as ->. exfalso. apply (Hnd l eq_refl). eapply nth_error_In; exact Hi.
  - f_equal. now apply (IH HU i j l).
Qed.

Lemma lit_idx_from_spec (C : circuit) (l : Z) : forall k acc,
  (lit_idx_from k C l acc = acc /\ ~ In (Lit l) C) \/
  (exists j, lit_idx_from k C l acc = Some (k + j)%nat /\ nth_error C j = Some (Lit l)).
Proof.
  induction C as [|nd C IH]; intros k acc.
  - left. split; [reflexivity|intros []].
  - cbn [lit_idx_from].
    destruct (IH (S k) (match nd with Lit l' => if l' =? l then Some k else acc | _ => acc end))
      as [[He Hn]|[j [He Hj]]].
    + destruct nd as [l'|cs|cs| |];
        try (left; split; [exact He|intros [Hc|Hc]; [discriminate Hc|contradiction]]).
      destruct (l' =? l) eqn:El.
      * apply Z.eqb_eq in El. subst l'. right. exists 0%nat. rewrite He. split; [f_equal; lia|reflexivity].
      * apply Z.eqb_neq in El. left. split; [exact He|].
        intros [Hc|Hc]; [injection Hc as Hc; contradiction|contradiction].
    + right. exists (S j). rewrite He. split; [f_equal; lia|exact Hj].
Qed.

Lemma lit_idx_some (C : circuit) (l : Z) (i : nat) :
  lit_idx C l = Some i -> nth_error C i = Some (Lit l).
Proof.
  unfold lit_idx. intros H. destruct (lit_idx_from_spec C l 0 None) as [[He _]|[j [He Hj]]].
  - rewrite He in H. discriminate H.
  - rewrite He in H. injection H as <-. exact Hj.
Qed.

Lemma lit_idx_none (C : circuit) (l : Z) : lit_idx C l = None <-> ~ In (Lit l) C.
Proof.
  unfold lit_idx. destruct (lit_idx_from_spec C l 0 None) as [[He Hn]|[j [He Hj]]].
  - rewrite He. tauto.
  - rewrite He. split; [discriminate|]. intros Hn. exfalso. apply Hn. eapply nth_error_In; exact Hj.
Qed.

Lemma lit_idx_spec (C : circuit) (l : Z) (i : nat) : unique_leaves C = true ->
  (lit_idx C l = Some i <-> nth_error C i = Some (Lit l)).
Proof.
  intros HU. split; [apply lit_idx_some|]. intros Hi.
  destruct (lit_idx C l) as [j|] eqn:E.
  - f_equal. apply lit_idx_some in E. now apply (lit_unique C HU j i l).
  - exfalso. apply lit_idx_none in E. apply E. eapply nth_error_In; exact Hi.
Qed.

Lemma has_lit_spec (C : circuit) (l : Z) : has_lit C l = true <-> In (Lit l) C.
Proof.
  unfold has_lit. destruct (lit_idx C l) as [j|] eqn:E.
  - split; [intros _|reflexivity]. apply lit_idx_some in E. eapply nth_error_In; exact E.
  - split; [discriminate|]. intros H. apply lit_idx_none in E. contradiction.
Qed.

Lemma has_lit_false (C : circuit) (l : Z) : has_lit C l = false <-> ~ In (Lit l) C.
Proof. rewrite <- has_lit_spec. destruct (has_lit C l); split; intros; congruence. Qed.

(* ---------- core ---------- *)

(* a core literal is a leaf and its complement occurs in no configuration of the root (the
   complement may still be a leaf of a dead branch: Proofs/Live.v) *)
Lemma core_spec (C : circuit) (n : nat) (f : Z) :
  idx_ok C = true -> C <> [] ->
  In f (calculate_core C n) ->
  In (Lit f) C /\ forall c, In c (enum_root C) -> ~ In (- f) c.
Proof.
  intros Hok Hne H. split; [exact (core_leaf C n f Hok Hne H)|exact (core_enum_spec C n f Hok Hne H)].
Qed.

(* ---------- filter_map / opposing indexes ---------- *)

Lemma in_filter_map {A B} (f : A -> option B) (l : list A) (y : B) :
  In y (filter_map f l) <-> exists x, In x l /\ f x = Some y.
Proof.
  induction l as [|a l IH]; cbn [filter_map].
  - split; [intros []|intros [x [[] _]]].
  - destruct (f a) as [b|] eqn:E.
    + cbn [In]. rewrite IH. split.
      * intros [<-|[x [Hx Hf]]]; [exists a; split; [now left|exact E]|exists x; split; [now right|exact Hf]].
      * intros [x [[<-|Hx] Hf]]; [left; congruence|right; now exists x].
    + rewrite IH. split.
      * intros [x [Hx Hf]]. exists x. split; [now right|exact Hf].
      * intros [x [[<-|Hx] Hf]]; [congruence|now exists x].
Qed.

(* ---------- sort_nat ---------- *)

Fixpoint asc (l : list nat) : Prop :=
  match l with
  | [] => True
  | x :: l' => (forall y, In y l' -> (x <= y)%nat) /\ asc l'
  end.

Lemma insert_nat_in (x : nat) (l : list nat) (y : nat) :
  In y (insert_nat x l) <-> y = x \/ In y l.
Proof.
  induction l as [|a l IH]; cbn [insert_nat].
  - cbn. intuition.
  - destruct (Nat.leb x a); cbn [In]; [intuition|]. rewrite IH. intuition.
Qed.

Lemma sort_nat_in (l : list nat) (y : nat) : In y (sort_nat l) <-> In y l.
Proof.
  induction l as [|a l IH]; [reflexivity|].
  cbn [sort_nat fold_right]. fold (sort_nat l). rewrite insert_nat_in, IH. cbn. intuition.
Qed.

Lemma insert_nat_asc (x : nat) (l : list nat) : asc l -> asc (insert_nat x l).
Proof.
  induction l as [|a l IH]; intros H.
  - cbn. split; [intros y []|exact I].
  - cbn [insert_nat]. destruct (Nat.leb x a) eqn:E.
    + apply Nat.leb_le in E. destruct H as [H1 H2]. split; [|split; assumption].
      intros y [<-|Hy]; [exact E|]. specialize (H1 y Hy). lia.
    + apply Nat.leb_gt in E. destruct H as [H1 H2]. split; [|now apply IH].
      intros y Hy. apply insert_nat_in in Hy. destruct Hy as [->|Hy]; [lia|now apply H1].
Qed.

Lemma sort_nat_asc (l : list nat) : asc (sort_nat l).
Proof.
  induction l as [|a l IH]; [exact I|].
  cbn [sort_nat fold_right]. fold (sort_nat l). now apply insert_nat_asc.
Qed.

(* ---------- extensionality of passes / countsA ---------- *)

Lemma pass_ext_in {A} (f g : list A -> ntype -> A) (C : circuit) :
  (forall acc nd, In nd C -> f acc nd = g acc nd) -> pass f C = pass g C.
Proof.
  induction C as [|nd C IH] using rev_ind; intros H; [reflexivity|].
  rewrite !pass_snoc. rewrite IH by (intros acc nd' Hin; apply H; apply in_or_app; now left).
  f_equal. f_equal. apply H. apply in_or_app. right. now left.
Qed.

Lemma countsA_ext (A B : cfg) (C : circuit) :
  (forall l, In (Lit l) C -> memZ (- l) A = memZ (- l) B) -> countsA A C = countsA B C.
Proof.
  intros H. unfold countsA. apply pass_ext_in. intros acc nd Hnd.
  destruct nd as [l|cs|cs| |]; cbn [countA_node]; try reflexivity. now rewrite (H l Hnd).
Qed.

Lemma countsA_no_zero (A : cfg) (C : circuit) :
  (forall l, In (Lit l) C -> memZ (- l) A = false) -> countsA A C = counts C.
Proof.
  intros H. rewrite <- countsA_nil. apply countsA_ext. intros l Hl. now rewrite (H l Hl).
Qed.

(* ---------- products ---------- *)

Lemma zprod_filter_split {A} (p : A -> bool) (f : A -> Z) (l : list A) :
  zprod (map f l) =
  zprod (map f (filter (fun x => negb (p x)) l)) * zprod (map f (filter p l)).
Proof.
  induction l as [|a l IH]; [reflexivity|].
  cbn [map filter]. destruct (p a); cbn [negb map]; rewrite !zprod_cons, IH; ring.
Qed.

Lemma map_ext_in' {A B} (f g : A -> B) (l : list A) :
  (forall a, In a l -> f a = g a) -> map f l = map g l.
Proof. apply map_ext_in. Qed.
