(* C04: the per-feature cardinality table computed by the reverse-mode partial-derivative sweep
   (marking.rs annotate_partial_derivatives, features.rs card_of_each_feature) is the table of
   MCA C n [f], f = 1..n.

   Proof (forward/reverse-mode equivalence).  Fix f.  delta u := counts u - countsA [f] u is the
   forward derivative of the count of node u in the value of the leaf Lit (-f):
     leaf Lit (-f): 1, other leaves: 0, Or: sum of the children's delta,
     And: sum over the children c of delta c * product of the counts of the children whose INDEX
          differs from c  (delta_and; this is where decomposability is used: at most one child
          mentions |f|, a child that occurs twice in the list mentions no variable at all).
   The sweep keeps  sum_u pd u * w j u  invariant, where w j u = delta u for the nodes not yet
   processed (u < j) and for the leaves, 0 otherwise (step, sweep).  At the start the sum is
   delta root, at the end it is pd k for the unique leaf k = Lit (-f).  Hence
   rc - pd k = countsA [f] root = MCA C n [f] (countsA_MCA). *)
From Coq Require Import List ZArith Bool Lia Permutation.
From DD Require Import Model.Circuit Model.Query Proofs.PassLemmas Proofs.Enum Proofs.Semantics
  Proofs.DetCert Proofs.CountsA Proofs.QueryDefs.
Import ListNotations.
Open Scope Z_scope.

(* ---------- upd ---------- *)

Lemma upd_length {A} (i : nat) (x : A) (l : list A) : length (upd i x l) = length l.
Proof.
  revert i. induction l as [|h t IH]; intros [|i]; cbn [upd length]; try reflexivity.
  now rewrite IH.
Qed.

Lemma nth_upd_eq {A} (i : nat) (x d : A) (l : list A) :
  (i < length l)%nat -> nth i (upd i x l) d = x.
Proof.
  revert i. induction l as [|h t IH]; intros [|i] Hi; cbn [length] in Hi; try lia.
  - reflexivity.
  - cbn [upd nth]. apply IH. lia.
Qed.

Lemma nth_upd_neq {A} (i j : nat) (x d : A) (l : list A) :
  i <> j -> nth j (upd i x l) d = nth j l d.
Proof.
  revert i j. induction l as [|h t IH]; intros [|i] [|j] Hij; cbn [upd nth]; try reflexivity; try lia.
  apply IH. lia.
Qed.

Lemma nth_zeros {A} (l : list A) (u : nat) : nth u (map (fun _ => 0) l) 0 = 0.
Proof. revert u. induction l as [|h t IH]; intros [|u]; cbn [map nth]; auto. Qed.

(* ---------- sums ---------- *)

Lemma zsum_app l1 l2 : zsum (l1 ++ l2) = zsum l1 + zsum l2.
Proof. induction l1 as [|x l1 IH]; [reflexivity|]. cbn [app]. rewrite !zsum_cons, IH. ring. Qed.

Lemma zsum_map_zero {A} (g : A -> Z) (l : list A) :
  (forall x, In x l -> g x = 0) -> zsum (map g l) = 0.
Proof.
  induction l as [|x l IH]; intros H; [reflexivity|]. cbn [map]. rewrite zsum_cons.
  rewrite (H x (or_introl eq_refl)), IH; [reflexivity|]. intros y Hy. apply H. now right.
Qed.

Lemma zsum_map_scale {A} (p : Z) (F : A -> Z) (l : list A) :
  zsum (map (fun c => p * F c) l) = p * zsum (map F l).
Proof. induction l as [|x l IH]; cbn [map]; [cbn; ring|]. rewrite !zsum_cons, IH. ring. Qed.

Lemma zsum_map_sub {A} (F G : A -> Z) (l : list A) :
  zsum (map F l) - zsum (map G l) = zsum (map (fun c => F c - G c) l).
Proof. induction l as [|x l IH]; cbn [map]; [reflexivity|]. rewrite !zsum_cons, <- IH. ring. Qed.

(* two summands that differ at one index only *)
Lemma zsum_map_single (L : list nat) (g g' : nat -> Z) (i : nat) :
  NoDup L -> In i L -> (forall u, In u L -> u <> i -> g u = g' u) ->
  zsum (map g L) = zsum (map g' L) + (g i - g' i).
Proof.
  induction L as [|x L IH]; intros Hnd Hin Hag; [destruct Hin|].
  inversion Hnd as [|x' L' Hx HndL]; subst. cbn [map]. rewrite !zsum_cons.
  destruct (Nat.eq_dec x i) as [->|Hne].
  - assert (E : map g L = map g' L).
    { apply map_ext_in. intros u Hu. apply Hag; [now right|]. intros ->. contradiction. }
    rewrite E. ring.
  - destruct Hin as [Hin|Hin]; [contradiction|].
    rewrite (IH HndL Hin); [|intros u Hu; apply Hag; now right].
    rewrite (Hag x (or_introl eq_refl) Hne). ring.
Qed.

(* ---------- the product of the other children, by index ---------- *)

Definition others (cntf : nat -> Z) (cs : list nat) (c : nat) : Z :=
  zprod (map cntf (filter (fun o => negb (Nat.eqb c o)) cs)).

Lemma others_fold (cntf : nat -> Z) (c : nat) (l : list nat) (p : Z) :
  fold_left (fun acc o => if Nat.eqb c o then acc else acc * cntf o) l p = p * others cntf l c.
Proof.
  unfold others. revert p. induction l as [|o l IH]; intros p; cbn [fold_left filter map].
  - cbn. ring.
  - rewrite IH. destruct (Nat.eqb c o); cbn [negb map]; [reflexivity|]. rewrite zprod_cons. ring.
Qed.

Lemma filter_notin (c : nat) (l : list nat) :
  ~ In c l -> filter (fun o => negb (Nat.eqb c o)) l = l.
Proof.
  induction l as [|o l IH]; intros H; [reflexivity|]. cbn [filter].
  destruct (Nat.eqb_spec c o) as [->|Hne]; [exfalso; apply H; now left|].
  cbn [negb]. rewrite IH; [reflexivity|]. intros Hin. apply H. now right.
Qed.

(* pairwise disjoint variable sets: a variable occurs below at most one position *)
Lemma PD_split_unique (V : nat -> list Z) (v : Z) (l1 l2 : list nat) (c : nat) :
  PD (map V (l1 ++ c :: l2)) -> In v (V c) ->
  forall o, In o (l1 ++ l2) -> ~ In v (V o).
Proof.
  induction l1 as [|x l1 IH]; intros HPD Hv o Ho; cbn [app map] in *.
  - inversion HPD as [|V0 Vs Hd HPD']; subst.
    exact (Hd (V o) (in_map V _ _ Ho) v Hv).
  - inversion HPD as [|V0 Vs Hd HPD']; subst. destruct Ho as [->|Ho].
    + intros Hvo.
      assert (HW : In (V c) (map V (l1 ++ c :: l2))).
      { apply in_map. apply in_or_app. right. now left. }
      exact (Hd (V c) HW v Hvo Hv).
    + now apply IH.
Qed.

(* the algebraic core of the And case *)
Lemma and_delta (a b : nat -> Z) (V : nat -> list Z) (v : Z) (cs : list nat) :
  PD (map V cs) -> (forall c, In c cs -> ~ In v (V c) -> a c = b c) ->
  zprod (map a cs) - zprod (map b cs)
  = zsum (map (fun c => (a c - b c) * others a cs c) cs).
Proof.
  intros HPD Hab.
  destruct (existsb (fun c => memZ v (V c)) cs) eqn:Ex.
  - apply existsb_exists in Ex. destruct Ex as [c [Hc Hv]]. apply memZ_In in Hv.
    apply in_split in Hc. destruct Hc as [l1 [l2 ->]].
    pose proof (PD_split_unique V v l1 l2 c HPD Hv) as Hoth.
    assert (Hc1 : ~ In c l1).
    { intros H. apply (Hoth c); [apply in_or_app; now left|exact Hv]. }
    assert (Hc2 : ~ In c l2).
    { intros H. apply (Hoth c); [apply in_or_app; now right|exact Hv]. }
    assert (Hab' : forall o, In o (l1 ++ l2) -> a o = b o).
    { intros o Ho. apply Hab; [|now apply Hoth].
      apply in_app_iff in Ho. apply in_or_app. destruct Ho; [now left|right; now right]. }
    assert (E1 : map b l1 = map a l1).
    { apply map_ext_in. intros o Ho. symmetry. apply Hab'. apply in_or_app. now left. }
    assert (E2 : map b l2 = map a l2).
    { apply map_ext_in. intros o Ho. symmetry. apply Hab'. apply in_or_app. now right. }
    rewrite !map_app. cbn [map]. rewrite !zprod_app, !zprod_cons, zsum_app, zsum_cons.
    rewrite E1, E2.
    rewrite (zsum_map_zero _ l1), (zsum_map_zero _ l2).
    + unfold others. rewrite filter_app. cbn [filter]. rewrite Nat.eqb_refl. cbn [negb].
      rewrite (filter_notin c l1 Hc1), (filter_notin c l2 Hc2), map_app, zprod_app. ring.
    + intros o Ho. rewrite (Hab' o); [ring|apply in_or_app; now right].
    + intros o Ho. rewrite (Hab' o); [ring|apply in_or_app; now left].
  - assert (Hall : forall c, In c cs -> a c = b c).
    { intros c Hc. apply Hab; [exact Hc|]. intros Hv.
      assert (existsb (fun c => memZ v (V c)) cs = true).
      { apply existsb_exists. exists c. split; [exact Hc|now apply memZ_In]. }
      congruence. }
    rewrite (map_ext_in a b cs Hall), Z.sub_diag.
    symmetry. apply zsum_map_zero. intros c Hc. rewrite (Hall c Hc). ring.
Qed.

(* ---------- leaves: lit_idx and uniqueness ---------- *)

Lemma lit_idx_from_spec (C : circuit) (l : Z) :
  forall (i : nat) (acc : option nat),
  match lit_idx_from i C l acc with
  | Some k => acc = Some k \/ ((i <= k < i + length C)%nat /\ nth (k - i) C FalseN = Lit l)
  | None => acc = None /\ forall nd, In nd C -> nd <> Lit l
  end.
Proof.
  induction C as [|nd C IH]; intros i acc; cbn [lit_idx_from].
  - destruct acc as [k|]; [now left|]. split; [reflexivity|intros nd []].
  - specialize (IH (S i) (match nd with Lit l' => if l' =? l then Some i else acc | _ => acc end)).
    destruct (lit_idx_from (S i) C l _) as [k|].
    + destruct IH as [IH|[Hk Hn]].
      * destruct nd as [l'|cs|cs| |]; try (now left).
        destruct (Z.eqb_spec l' l) as [->|Hne]; [|now left].
        injection IH as <-. right. split; [cbn [length]; lia|].
        rewrite Nat.sub_diag. reflexivity.
      * right. split; [cbn [length]; lia|].
        replace (k - i)%nat with (S (k - S i)) by lia. exact Hn.
    + destruct IH as [Hacc Hall].
      destruct nd as [l'|cs|cs| |]; try (split; [exact Hacc|];
        intros nd' [<-|Hin]; [discriminate|now apply Hall]).
      destruct (Z.eqb_spec l' l) as [->|Hne]; [discriminate|].
      split; [exact Hacc|]. intros nd' [<-|Hin]; [congruence|now apply Hall].
Qed.

Lemma lit_idx_some (C : circuit) (l : Z) (k : nat) :
  lit_idx C l = Some k -> (k < length C)%nat /\ nth k C FalseN = Lit l.
Proof.
  intros H. pose proof (lit_idx_from_spec C l 0%nat None) as S. unfold lit_idx in H.
  rewrite H in S. destruct S as [S|[Hk Hn]]; [discriminate|].
  rewrite Nat.sub_0_r in Hn. split; [lia|exact Hn].
Qed.

Lemma lit_idx_none (C : circuit) (l : Z) :
  lit_idx C l = None -> forall nd, In nd C -> nd <> Lit l.
Proof.
  intros H. pose proof (lit_idx_from_spec C l 0%nat None) as S. unfold lit_idx in H.
  rewrite H in S. apply S.
Qed.

Lemma lits_of_cons nd C :
  lits_of (nd :: C) = match nd with Lit l => [l] | _ => [] end ++ lits_of C.
Proof. reflexivity. Qed.

Lemma lit_in_lits_of (C : circuit) (k : nat) (l : Z) :
  (k < length C)%nat -> nth k C FalseN = Lit l -> In l (lits_of C).
Proof.
  intros Hk Hn. unfold lits_of. apply in_flat_map. exists (Lit l). split; [|now left].
  rewrite <- Hn. now apply nth_In.
Qed.

Lemma unique_leaves_lt (C : circuit) :
  nodupb (lits_of C) = true ->
  forall (u k : nat) (l : Z), (u < k)%nat -> (k < length C)%nat ->
  nth u C FalseN = Lit l -> nth k C FalseN = Lit l -> False.
Proof.
  induction C as [|nd C IH]; intros Hnd u k l Huk Hk Hu Hkl; [cbn in Hk; lia|].
  destruct k as [|k]; [lia|]. cbn [length] in Hk. cbn [nth] in Hkl.
  rewrite lits_of_cons in Hnd.
  destruct u as [|u].
  - cbn [nth] in Hu. subst nd. cbn [app nodupb] in Hnd.
    apply andb_true_iff in Hnd. destruct Hnd as [Hm _].
    apply negb_true_iff, memZ_false in Hm. apply Hm.
    apply (lit_in_lits_of C k l); [lia|exact Hkl].
  - cbn [nth] in Hu. apply (IH) with (u := u) (k := k) (l := l); try assumption; try lia.
    destruct nd as [l'|cs|cs| |]; cbn [app] in Hnd; try exact Hnd.
    cbn [nodupb] in Hnd. apply andb_true_iff in Hnd. now destruct Hnd.
Qed.

Lemma unique_leaves_inj (C : circuit) (u k : nat) (l : Z) :
  unique_leaves C = true -> (u < length C)%nat -> (k < length C)%nat ->
  nth u C FalseN = Lit l -> nth k C FalseN = Lit l -> u = k.
Proof.
  intros Hun Hu Hk Eu Ek. unfold unique_leaves in Hun.
  destruct (Nat.lt_total u k) as [H|[H|H]]; [exfalso|exact H|exfalso].
  - exact (unique_leaves_lt C Hun u k l H Hk Eu Ek).
  - exact (unique_leaves_lt C Hun k u l H Hu Ek Eu).
Qed.

(* two passes whose node functions agree on the nodes of the circuit *)
Lemma pass_ext_in {A} (g h : list A -> ntype -> A) (C : circuit) :
  (forall acc nd, In nd C -> g acc nd = h acc nd) -> pass g C = pass h C.
Proof.
  induction C as [|nd C IH] using rev_ind; intros H; [reflexivity|].
  rewrite !pass_snoc, IH.
  - rewrite H; [reflexivity|]. apply in_or_app. right. now left.
  - intros acc nd' Hin. apply H. apply in_or_app. now left.
Qed.

(* ---------- the forward derivative ---------- *)

Section Deriv.
Variable C : circuit.
Variable f : Z.
Hypothesis Hok : idx_ok C = true.

Definition cnt (u : nat) : Z := nth u (counts C) 0.
Definition cntA (u : nat) : Z := nth u (countsA [f] C) 0.
Definition delta (u : nat) : Z := cnt u - cntA u.

Lemma cnt_unfold u : (u < length C)%nat -> cnt u = count_node (counts C) (nth u C FalseN).
Proof. intros Hu. unfold cnt. apply (counts_unfold C Hok u Hu). Qed.
Lemma cntA_unfold u : (u < length C)%nat -> cntA u = countA_node [f] (countsA [f] C) (nth u C FalseN).
Proof. intros Hu. unfold cntA. now apply countsA_unfold. Qed.

Lemma delta_lit u l : (u < length C)%nat -> nth u C FalseN = Lit l ->
  delta u = if l =? - f then 1 else 0.
Proof.
  intros Hu E. unfold delta. rewrite (cnt_unfold u Hu), (cntA_unfold u Hu), E.
  cbn [count_node countA_node memZ existsb]. rewrite orb_false_r.
  destruct (Z.eqb_spec (- l) f), (Z.eqb_spec l (- f)); lia.
Qed.

Lemma delta_or u cs : (u < length C)%nat -> nth u C FalseN = Or cs ->
  delta u = zsum (map delta cs).
Proof.
  intros Hu E. unfold delta at 1. rewrite (cnt_unfold u Hu), (cntA_unfold u Hu), E.
  cbn [count_node countA_node]. rewrite zsum_map_sub. reflexivity.
Qed.

Lemma delta_true u : (u < length C)%nat -> nth u C FalseN = TrueN -> delta u = 0.
Proof.
  intros Hu E. unfold delta. rewrite (cnt_unfold u Hu), (cntA_unfold u Hu), E. reflexivity.
Qed.
Lemma delta_false u : (u < length C)%nat -> nth u C FalseN = FalseN -> delta u = 0.
Proof.
  intros Hu E. unfold delta. rewrite (cnt_unfold u Hu), (cntA_unfold u Hu), E. reflexivity.
Qed.

(* a node that does not mention |f| does not depend on the leaf Lit (-f) *)
Lemma novar_same : forall u, (u < length C)%nat ->
  ~ In (Z.abs f) (nth u (varss C) []) -> cnt u = cntA u.
Proof.
  apply (idx_induction C (fun u => ~ In (Z.abs f) (nth u (varss C) []) -> cnt u = cntA u) Hok).
  intros u Hu IH Hv. rewrite (varss_unfold C Hok u Hu) in Hv.
  rewrite (cnt_unfold u Hu), (cntA_unfold u Hu).
  destruct (nth u C FalseN) as [l|cs|cs| |] eqn:E;
    cbn [count_node countA_node vars_node children] in *; try reflexivity.
  - cbn [memZ existsb]. rewrite orb_false_r.
    destruct (Z.eqb_spec (- l) f) as [He|He]; [|reflexivity].
    exfalso. apply Hv. left. lia.
  - f_equal. apply map_ext_in. intros c Hc. apply (IH c Hc).
    intros Hin. apply Hv. apply in_concat. exists (nth c (varss C) []). split; [|exact Hin].
    apply in_map_iff. now exists c.
  - f_equal. apply map_ext_in. intros c Hc. apply (IH c Hc).
    intros Hin. apply Hv. apply in_concat. exists (nth c (varss C) []). split; [|exact Hin].
    apply in_map_iff. now exists c.
Qed.

Hypothesis Hdec : decomposable C = true.

Lemma delta_and u cs : (u < length C)%nat -> nth u C FalseN = And cs ->
  delta u = zsum (map (fun c => delta c * others cnt cs c) cs).
Proof.
  intros Hu E. unfold delta at 1. rewrite (cnt_unfold u Hu), (cntA_unfold u Hu), E.
  cbn [count_node countA_node].
  change (fun c => nth c (counts C) 0) with cnt.
  change (fun c => nth c (countsA [f] C) 0) with cntA.
  pose proof (node_in C u Hu) as Hin.
  unfold decomposable in Hdec. rewrite forallb_forall in Hdec. specialize (Hdec _ Hin).
  rewrite E in Hdec. cbn [decomposable_node] in Hdec. apply pairwise_PD in Hdec.
  apply (and_delta cnt cntA (fun c => nth c (varss C) []) (Z.abs f) cs Hdec).
  intros c Hc Hv. apply novar_same; [|exact Hv].
  assert (c < u)%nat; [|lia].
  apply (idx_ok_nth C u FalseN Hok Hu). rewrite E. exact Hc.
Qed.

(* ---------- the reverse sweep ---------- *)

(* weight of node u when the nodes >= j have been processed *)
Definition w (j u : nat) : Z :=
  if (u <? j)%nat || is_lit (nth u C FalseN) then delta u else 0.
Definition dot (wt : nat -> Z) (pd : list Z) : Z :=
  zsum (map (fun u => nth u pd 0 * wt u) (seq 0 (length C))).

Lemma dot_upd wt c x pd : (c < length C)%nat -> length pd = length C ->
  dot wt (upd c x pd) = dot wt pd + (x - nth c pd 0) * wt c.
Proof.
  intros Hc Hl. unfold dot.
  rewrite (zsum_map_single (seq 0 (length C)) (fun u => nth u (upd c x pd) 0 * wt u)
             (fun u => nth u pd 0 * wt u) c).
  - rewrite nth_upd_eq by lia. ring.
  - apply seq_NoDup.
  - apply in_seq. lia.
  - intros u _ Hne. rewrite nth_upd_neq by congruence. reflexivity.
Qed.

Lemma dot_weights wt wt' i pd : (i < length C)%nat ->
  (forall u, u <> i -> wt u = wt' u) ->
  dot wt pd = dot wt' pd + nth i pd 0 * (wt i - wt' i).
Proof.
  intros Hi Hag. unfold dot.
  rewrite (zsum_map_single (seq 0 (length C)) (fun u => nth u pd 0 * wt u)
             (fun u => nth u pd 0 * wt' u) i).
  - ring.
  - apply seq_NoDup.
  - apply in_seq. lia.
  - intros u _ Hne. now rewrite (Hag u Hne).
Qed.

Lemma dot_ext wt wt' pd : (forall u, (u < length C)%nat -> wt u = wt' u) -> dot wt pd = dot wt' pd.
Proof.
  intros H. unfold dot. f_equal. apply map_ext_in. intros u Hu. apply in_seq in Hu.
  rewrite H; [reflexivity|lia].
Qed.

(* one node distributes  h (pd i) c  to each child c *)
Lemma fold_children (wt : nat -> Z) (i : nat) (h : Z -> nat -> Z) (cs : list nat) :
  (i < length C)%nat -> (forall c, In c cs -> (c < i)%nat) ->
  forall pd, length pd = length C ->
  let pd' := fold_left (fun pd' c => upd c (nth c pd' 0 + h (nth i pd' 0) c) pd') cs pd in
  length pd' = length C /\ nth i pd' 0 = nth i pd 0 /\
  dot wt pd' = dot wt pd + zsum (map (fun c => h (nth i pd 0) c * wt c) cs).
Proof.
  intros Hi. induction cs as [|c cs IH]; intros Hcs pd Hl; cbn [fold_left map].
  - cbn. repeat split; [exact Hl|ring].
  - assert (Hc : (c < i)%nat) by (apply Hcs; now left).
    set (pd1 := upd c (nth c pd 0 + h (nth i pd 0) c) pd).
    assert (Hl1 : length pd1 = length C) by (unfold pd1; now rewrite upd_length).
    assert (Hi1 : nth i pd1 0 = nth i pd 0) by (unfold pd1; apply nth_upd_neq; lia).
    specialize (IH (fun c' Hc' => Hcs c' (or_intror Hc')) pd1 Hl1).
    cbv zeta in IH. destruct IH as [IHl [IHi IHd]].
    split; [exact IHl|]. split; [now rewrite IHi|].
    rewrite IHd, Hi1, zsum_cons. unfold pd1. rewrite dot_upd by (try lia; exact Hl). ring.
Qed.

Lemma w_child j c : (c < j)%nat -> w j c = delta c.
Proof. intros H. unfold w. apply Nat.ltb_lt in H. now rewrite H. Qed.

Lemma step (n0 : nat) (j : nat) (pd : list Z) :
  (j < length C)%nat -> length pd = length C ->
  length (annotate_single (build C n0) j pd) = length C /\
  dot (w j) (annotate_single (build C n0) j pd) = dot (w (S j)) pd.
Proof.
  intros Hj Hl.
  assert (HS : dot (w (S j)) pd
               = dot (w j) pd + nth j pd 0 * (if is_lit (nth j C FalseN) then 0 else delta j)).
  { rewrite (dot_weights (w (S j)) (w j) j pd Hj).
    - f_equal. f_equal. unfold w.
      assert (H1 : (j <? S j)%nat = true) by (apply Nat.ltb_lt; lia).
      rewrite H1, Nat.ltb_irrefl. cbn [orb]. destruct (is_lit (nth j C FalseN)); ring.
    - intros u Hne. unfold w.
      destruct (Nat.ltb_spec u (S j)), (Nat.ltb_spec u j); try lia; reflexivity. }
  rewrite HS. clear HS.
  assert (Hch : forall c, In c (children (nth j C FalseN)) -> (c < j)%nat)
    by (apply (idx_ok_nth C j FalseN Hok Hj)).
  unfold annotate_single. cbn [circ cnts build].
  destruct (nth j C FalseN) as [l|cs|cs| |] eqn:E; cbn [is_lit children] in *.
  - split; [exact Hl|ring].
  - (* And *)
    change (fun c => nth c (counts C) 0) with cnt.
    pose proof (fold_children (w j) j
                  (fun p c => fold_left (fun acc o => if Nat.eqb c o then acc else acc * nth o (counts C) 0) cs p)
                  cs Hj Hch pd Hl) as F.
    cbv zeta in F. destruct F as [Fl [_ Fd]]. split; [exact Fl|].
    rewrite Fd. f_equal.
    rewrite (delta_and j cs Hj E), <- zsum_map_scale. f_equal. apply map_ext_in.
    intros c Hc. rewrite (others_fold cnt c cs), (w_child j c (Hch c Hc)). ring.
  - (* Or *)
    pose proof (fold_children (w j) j (fun p _ => p) cs Hj Hch pd Hl) as F.
    cbv zeta in F. destruct F as [Fl [_ Fd]].
    (* the model reads pd[j] once, before the loop; it does not change during the loop *)
    assert (Hsame : fold_left (fun pd' child => upd child (nth child pd' 0 + nth j pd 0) pd') cs pd
                    = fold_left (fun pd' c => upd c (nth c pd' 0 + nth j pd' 0) pd') cs pd).
    { clear Fl Fd E. revert pd Hl Hch. induction cs as [|c cs IHcs]; intros pd Hl Hch; [reflexivity|].
      cbn [fold_left].
      assert (Hc : (c < j)%nat) by (apply Hch; now left).
      set (pd1 := upd c (nth c pd 0 + nth j pd 0) pd).
      assert (Hj1 : nth j pd1 0 = nth j pd 0) by (unfold pd1; apply nth_upd_neq; lia).
      rewrite <- Hj1. apply IHcs.
      - unfold pd1. now rewrite upd_length.
      - intros c' Hc'. apply Hch. now right. }
    rewrite Hsame. split; [exact Fl|]. rewrite Fd. f_equal.
    rewrite (delta_or j cs Hj E), <- zsum_map_scale. f_equal. apply map_ext_in.
    intros c Hc. now rewrite (w_child j c (Hch c Hc)).
  - split; [exact Hl|]. rewrite (delta_true j Hj E). ring.
  - split; [exact Hl|]. rewrite (delta_false j Hj E). ring.
Qed.

Lemma sweep (n0 : nat) (j : nat) : (j <= length C)%nat ->
  forall pd, length pd = length C ->
  let pd' := fold_left (fun pd i => annotate_single (build C n0) i pd) (rev (seq 0 j)) pd in
  length pd' = length C /\ dot (w 0) pd' = dot (w j) pd.
Proof.
  induction j as [|j IH]; intros Hj pd Hl; cbv zeta.
  - cbn [seq rev fold_left]. split; [exact Hl|reflexivity].
  - rewrite seq_S, rev_app_distr. cbn [rev app fold_left plus].
    destruct (step n0 j pd ltac:(lia) Hl) as [Sl Sd].
    specialize (IH ltac:(lia) _ Sl). cbv zeta in IH. destruct IH as [IHl IHd].
    split; [exact IHl|]. now rewrite IHd, Sd.
Qed.

(* start: only the root carries weight *)
Lemma dot_start (pds0 : list Z) : C <> [] -> length pds0 = length C ->
  dot (w (length C)) (upd (length C - 1) 1 (map (fun _ => 0) pds0)) = delta (length C - 1).
Proof.
  intros Hne Hl.
  assert (HN : (length C - 1 < length C)%nat) by (destruct C; [congruence|cbn [length]; lia]).
  rewrite (dot_ext (w (length C)) delta).
  - rewrite dot_upd; [|exact HN|now rewrite map_length].
    rewrite nth_zeros.
    assert (Z0 : dot delta (map (fun _ => 0) pds0) = 0).
    { unfold dot. apply zsum_map_zero. intros u _. rewrite nth_zeros. ring. }
    rewrite Z0. ring.
  - intros u Hu. apply w_child. exact Hu.
Qed.

(* end: only the leaf Lit (-f) carries weight *)
Lemma dot_end (k : nat) (pd : list Z) :
  unique_leaves C = true -> (k < length C)%nat -> nth k C FalseN = Lit (- f) ->
  dot (w 0) pd = nth k pd 0.
Proof.
  intros Hun Hk Ek. unfold dot.
  rewrite (zsum_map_single (seq 0 (length C)) (fun u => nth u pd 0 * w 0 u) (fun _ => 0) k).
  - rewrite zsum_map_zero by reflexivity.
    unfold w. rewrite Ek. cbn [Nat.ltb Nat.leb is_lit orb].
    rewrite (delta_lit k (- f) Hk Ek), Z.eqb_refl. ring.
  - apply seq_NoDup.
  - apply in_seq. lia.
  - intros u Hu Hne. apply in_seq in Hu. unfold w. cbn [Nat.ltb Nat.leb orb].
    destruct (nth u C FalseN) as [l|cs|cs| |] eqn:E; cbn [is_lit]; try ring.
    rewrite (delta_lit u l ltac:(lia) E).
    destruct (Z.eqb_spec l (- f)) as [->|Hl]; [|ring].
    exfalso. apply Hne. apply (unique_leaves_inj C u k (- f)); try assumption. lia.
Qed.

(* the derivative annotated at the leaf Lit (-f) *)
Lemma annotate_leaf (n0 : nat) (s : scratch) (k : nat) :
  C <> [] -> unique_leaves C = true -> length (pds s) = length C ->
  (k < length C)%nat -> nth k C FalseN = Lit (- f) ->
  let s' := annotate_partial_derivatives (build C n0) s in
  length (pds s') = length C /\ nth k (pds s') 0 = delta (length C - 1).
Proof.
  intros Hne Hun Hl Hk Ek. cbv zeta. unfold annotate_partial_derivatives.
  cbn [pds circ build].
  set (pd0 := upd (length C - 1) 1 (map (fun _ => 0) (pds s))).
  assert (Hl0 : length pd0 = length C) by (unfold pd0; now rewrite upd_length, map_length).
  destruct (sweep n0 (length C) (Nat.le_refl _) pd0 Hl0) as [Sl Sd]. cbv zeta in Sl, Sd.
  split; [exact Sl|].
  rewrite <- (dot_end k _ Hun Hk Ek), Sd. unfold pd0. now apply dot_start.
Qed.

Lemma annotate_length (n0 : nat) (s : scratch) :
  length (pds s) = length C ->
  length (pds (annotate_partial_derivatives (build C n0) s)) = length C.
Proof.
  intros Hl. unfold annotate_partial_derivatives. cbn [pds circ build].
  apply (sweep n0 (length C) (Nat.le_refl _)). now rewrite upd_length, map_length.
Qed.

End Deriv.

(* no leaf Lit (-f): nothing is zeroed *)
Lemma countsA_no_leaf (C : circuit) (f : Z) :
  (forall nd, In nd C -> nd <> Lit (- f)) -> countsA [f] C = counts C.
Proof.
  intros H. unfold countsA, counts. apply pass_ext_in. intros acc nd Hin.
  destruct nd as [l|cs|cs| |]; try reflexivity.
  cbn [countA_node count_node memZ existsb]. rewrite orb_false_r.
  destruct (Z.eqb_spec (- l) f) as [He|He]; [|reflexivity].
  exfalso. apply (H (Lit l) Hin). f_equal. lia.
Qed.

(* ---------- one row ---------- *)

Lemma card_of_feature_pd_correct (C : circuit) (n : nat) (s : scratch) (f : Z) :
  WFQ C n -> length (pds s) = length C -> 1 <= f <= Z.of_nat n ->
  card_of_feature_pd (build C n) (annotate_partial_derivatives (build C n) s) f = MCA C n [f].
Proof.
  intros [HWF Hun Hreach Hnz] Hl Hf.
  assert (HA : in_range n [f]).
  { intros l [<-|[]]. lia. }
  rewrite <- (countsA_MCA C n [f] HWF HA).
  pose proof (wf_idx C n HWF) as Hok. pose proof (wf_dec C n HWF) as Hdec.
  pose proof (wf_nonempty C n HWF) as Hne.
  unfold card_of_feature_pd. cbn [circ build].
  destruct (lit_idx C (- f)) as [k|] eqn:Ek.
  - destruct (lit_idx_some C (- f) k Ek) as [Hk Hnk].
    destruct (annotate_leaf C f Hok Hdec n s k Hne Hun Hl Hk Hnk) as [_ Hpd]. cbv zeta in Hpd.
    rewrite Hpd. unfold rc, rootn, root, delta, cnt, cntA. cbn [circ cnts build]. ring.
  - rewrite (countsA_no_leaf C f (lit_idx_none C (- f) Ek)). reflexivity.
Qed.

(* ---------- the table ---------- *)

Theorem card_of_each_feature_correct : forall C n s, WFQ C n -> Clean C s ->
  let '(s', rows) := card_of_each_feature (build C n) s in
  rows = map (fun f => (f, MCA C n [f])) (zseq 1 n) /\ Clean C s'.
Proof.
  intros C n s HW HC. unfold card_of_each_feature. cbn [nv build]. split.
  - apply map_ext_in. intros f Hf. apply zseq_In in Hf. f_equal.
    apply card_of_feature_pd_correct; [exact HW|apply HC|lia].
  - destruct HC as [Ht Hm Hp Hu Hmd]. constructor.
    + exact Ht.
    + exact Hm.
    + exact (annotate_length C 0 (wf_idx _ _ (wfq_wf _ _ HW)) (wf_dec _ _ (wfq_wf _ _ HW)) n s Hp).
    + exact Hu.
    + exact Hmd.
Qed.
