(* C06: Ddnnf::enumerate returns the next slice of the enumeration order, the cursor arithmetic,
   and sequences of requests (one paging cycle returns every model containing A exactly once). *)
From Coq Require Import List ZArith Bool Lia Permutation.
From DD Require Import Model.Circuit Model.Query Model.Enumerate
     Proofs.PassLemmas Proofs.Enum Proofs.Semantics Proofs.CountsA Proofs.QueryDefs Proofs.Live
     Proofs.C06Prefix Proofs.C06Machine Proofs.C06Node Proofs.C06Sort.
Import ListNotations.
Open Scope Z_scope.

(* What enumerate needs from execute_query when it runs on the PREPROCESSED scratch (proved
   separately; here a hypothesis): the returned count is the number of models containing A; when
   it is positive the temps of all nodes that are not true nodes are the counts under A (when the
   core shortcut answers 0 the temps are not recomputed, and not used); the scratch stays clean. *)
Definition exec_spec (C : circuit) (n : nat) (A : cfg) : Prop :=
  forall s s1 s2 r,
    Clean C s -> preprocess (build C n) A s = Some s1 ->
    execute_query (build C n) (enum_key A) s1 = (s2, r) ->
    r = MCA C n A /\ (0 < r -> temps_ok (enum_key A) C (temps s2)) /\ Clean C s2.

Definition out_of_range (n : nat) (A : cfg) : Prop := exists l, In l A /\ Z.of_nat n < Z.abs l.

(* ---------- preprocess ---------- *)
Lemma preprocess_None C n A s : out_of_range n A -> preprocess (build C n) A s = None.
Proof.
  intros (l & Hl & Hlt). unfold preprocess. cbn [nv build].
  replace (existsb (fun f => Z.of_nat n <? Z.abs f) A) with true; [reflexivity|].
  symmetry. apply existsb_exists. exists l. split; [exact Hl|now apply Z.ltb_lt].
Qed.

Lemma preprocess_Some C n A s : in_range n A -> exists s1, preprocess (build C n) A s = Some s1.
Proof.
  intros HA. unfold preprocess. cbn [nv build].
  replace (existsb (fun f => Z.of_nat n <? Z.abs f) A) with false; [eexists; reflexivity|].
  symmetry. apply not_true_is_false. intros H. apply existsb_exists in H.
  destruct H as (l & Hl & Hlt). apply Z.ltb_lt in Hlt. specialize (HA l Hl). lia.
Qed.

(* ---------- the root ---------- *)
Lemma root_not_true C n : WF C n -> (0 < n)%nat -> nth (root C) C FalseN <> TrueN.
Proof.
  intros HWF Hn Ht.
  pose proof (complete_range C n (wf_complete C n HWF)) as HV.
  assert (Hl : last (varss C) [] = nth (root C) (varss C) []).
  { unfold root. rewrite last_nth. unfold varss. now rewrite pass_length. }
  rewrite Hl, (varss_unfold C (wf_idx C n HWF) (root C) (root_lt C (wf_nonempty C n HWF))), Ht in HV.
  cbn [vars_node] in HV. destruct (HV 1) as [_ H]. apply H. lia.
Qed.

Lemma EO_perm A A' C i : Permutation A A' -> EO A C i = EO A' C i.
Proof. intros HP. unfold EO. apply filter_ext. intros c. now apply okA_perm. Qed.

Lemma EO_same_set A A' C i : same_set A A' -> EO A C i = EO A' C i.
Proof. intros HS. unfold EO. apply filter_ext. intros c. now apply okA_same_set. Qed.

Section Page.
Variables (C : circuit) (n : nat).
Hypothesis HWF : WF C n.
Hypothesis Hn : (0 < n)%nat.
Hypothesis Hor : or_no_true_child C = true.

Let d := build C n.

(* the enumeration under A (root) and its size *)
Definition EOr (A : cfg) : list cfg := EO A C (root C).

Lemma EOr_length A : in_range n A -> Z.of_nat (length (EOr A)) = MCA C n A.
Proof.
  intros HA. unfold EOr, EO. rewrite <- countsA_filter; [|apply HWF|apply root_lt; apply HWF].
  now apply countsA_MCA.
Qed.

(* one call, everything but the Some/None decision made explicit *)
Lemma enumerate_unfold A amount cur s :
  in_range n A -> exec_spec C n A -> Clean C s -> amount <> 0 ->
  let c := MCA C n A in
  let p := cur_get cur (enum_key A) in
  let stop := Z.min c (p + amount) in
  exists s2, Clean C s2 /\
    enumerate d A amount cur s =
    (if 0 <? c
     then (s2, cur_set cur (enum_key A) (stop mod c),
           Some (map sort_abs (enumerate_node d (temps s2) (length C) p stop (root C))))
     else (s2, cur, None)) /\
    (0 < c -> temps_ok (enum_key A) C (temps s2)).
Proof.
  intros HA Hex Hcl Ham c p stop.
  destruct (preprocess_Some C n A s HA) as [s1 Hs1].
  destruct (execute_query d (enum_key A) s1) as [s2 r] eqn:Hq.
  destruct (Hex s s1 s2 r Hcl Hs1 Hq) as (Hr & Hts & Hcl2).
  fold c in Hr. subst r.
  exists s2. split; [exact Hcl2|]. split; [|exact Hts].
  unfold enumerate. replace (amount =? 0) with false by (symmetry; now apply Z.eqb_neq).
  unfold d in *. rewrite Hs1, Hq.
  destruct (0 <? c) eqn:Ec; [|reflexivity].
  apply Z.ltb_lt in Ec. specialize (Hts Ec).
  assert (Hrt : rt (build C n) s2 = c).
  { unfold rt, rootn. cbn [circ build]. fold (root C).
    rewrite Hts; [|apply root_lt; apply HWF|now apply (root_not_true C n)|apply reach_root].
    rewrite (countsA_MCA C n);
      [|exact HWF|eapply in_range_same_set; [apply same_set_sym, enum_key_In|exact HA]].
    apply MCA_same_set. apply enum_key_In. }
  rewrite Hrt. reflexivity.
Qed.

(* (2) the page theorem *)
Theorem enumerate_page A amount cur s :
  in_range n A -> exec_spec C n A -> Clean C s -> 0 < amount ->
  let c := MCA C n A in
  let p := cur_get cur (enum_key A) in
  let stop := Z.min c (p + amount) in
  0 < c -> 0 <= p < c ->
  exists s2, Clean C s2 /\
    enumerate d A amount cur s =
    (s2, cur_set cur (enum_key A) (stop mod c), Some (map sort_abs (slice p stop (EOr A)))).
Proof.
  intros HA Hex Hcl Ham c p stop Hc Hp.
  destruct (enumerate_unfold A amount cur s HA Hex Hcl ltac:(lia)) as (s2 & Hcl2 & He & Hts).
  exists s2. split; [exact Hcl2|]. rewrite He. fold c. specialize (Hts Hc).
  replace (0 <? c) with true by (symmetry; now apply Z.ltb_lt).
  fold p. fold stop. f_equal. f_equal. f_equal.
  assert (HP : same_set (enum_key A) A) by apply enum_key_In.
  unfold EOr. rewrite <- (EO_same_set (enum_key A) A C (root C) HP).
  assert (Hlen : Z.of_nat (length (EO (enum_key A) C (root C))) = c).
  { rewrite (EO_same_set (enum_key A) A C (root C) HP). now apply EOr_length. }
  apply (enumerate_node_slice d (enum_key A) (temps s2)); cbn [circ d build].
  - apply HWF.
  - exact Hts.
  - exact Hor.
  - apply root_lt. apply HWF.
  - now apply (root_not_true C n).
  - apply reach_root.
  - apply root_lt. apply HWF.
  - unfold stop. lia.
  - rewrite Hlen. unfold stop. lia.
Qed.

(* the cursor after the call *)
Corollary enumerate_page_cursor A amount cur s s2 cur2 r :
  in_range n A -> exec_spec C n A -> Clean C s -> 0 < amount ->
  let c := MCA C n A in
  let p := cur_get cur (enum_key A) in
  0 < c -> 0 <= p < c ->
  enumerate d A amount cur s = (s2, cur2, r) ->
  cur_get cur2 (enum_key A) = Z.min c (p + amount) mod c /\
  (forall k, k <> enum_key A -> cur_get cur2 k = cur_get cur k).
Proof.
  intros HA Hex Hcl Ham c p Hc Hp He.
  destruct (enumerate_page A amount cur s HA Hex Hcl Ham Hc Hp) as (s2' & _ & He').
  rewrite He' in He. inversion He; subst. split.
  - apply cur_get_set_same.
  - intros k Hk. now apply cur_get_set_other.
Qed.

(* amount = 0: nothing happens *)
Theorem enumerate_zero A cur s : enumerate d A 0 cur s = (s, cur, Some []).
Proof. reflexivity. Qed.

(* None: exactly when no model contains A or a literal is out of range; the cursor is untouched *)
Theorem enumerate_none_out A amount cur s :
  amount <> 0 -> out_of_range n A -> enumerate d A amount cur s = (s, cur, None).
Proof.
  intros Ham Ho. unfold enumerate.
  replace (amount =? 0) with false by (symmetry; now apply Z.eqb_neq).
  unfold d. now rewrite preprocess_None.
Qed.

Theorem enumerate_none_unsat A amount cur s :
  in_range n A -> exec_spec C n A -> Clean C s -> amount <> 0 -> MCA C n A = 0 ->
  exists s2, Clean C s2 /\ enumerate d A amount cur s = (s2, cur, None).
Proof.
  intros HA Hex Hcl Ham Hc.
  destruct (enumerate_unfold A amount cur s HA Hex Hcl Ham) as (s2 & Hcl2 & He & _).
  exists s2. split; [exact Hcl2|]. rewrite He, Hc. reflexivity.
Qed.

Theorem enumerate_none_iff A amount cur s :
  (forall l, In l A -> l <> 0) -> (in_range n A -> exec_spec C n A) -> Clean C s -> amount <> 0 ->
  (snd (enumerate d A amount cur s) = None <-> MCA C n A = 0 \/ out_of_range n A).
Proof.
  intros Hnz Hex Hcl Ham.
  assert (Hdec : in_range n A \/ out_of_range n A).
  { clear Hex. induction A as [|l A' IH].
    - left. intros l [].
    - destruct IH as [IH|(l' & Hl' & Hlt)]; [intros; apply Hnz; now right| |].
      + destruct (Z_lt_le_dec (Z.of_nat n) (Z.abs l)) as [Hlt|Hle].
        * right. exists l. split; [now left|exact Hlt].
        * left. intros l' [<-|Hl']; [|now apply IH].
          assert (l <> 0) by (apply Hnz; now left). lia.
      + right. exists l'. split; [now right|exact Hlt]. }
  destruct Hdec as [HA|Ho].
  - destruct (enumerate_unfold A amount cur s HA (Hex HA) Hcl Ham) as (s2 & _ & He & _).
    rewrite He. assert (0 <= MCA C n A) by (unfold MCA; lia).
    destruct (0 <? MCA C n A) eqn:Ec; cbn [snd].
    + apply Z.ltb_lt in Ec. split; [discriminate|].
      intros [H0|(l & Hl & Hlt)]; [lia|]. specialize (HA l Hl). lia.
    + apply Z.ltb_ge in Ec. split; [intros _; left; lia|reflexivity].
  - rewrite (enumerate_none_out A amount cur s Ham Ho). cbn [snd]. split; [now right|reflexivity].
Qed.

(* ---------- the model set behind the pages ---------- *)
Lemma EOr_in_root A c : In c (EOr A) -> In c (enum_root C).
Proof. unfold EOr, EO. rewrite filter_In, <- enum_root_nth. tauto. Qed.

(* (4) every returned configuration is a complete configuration in feature order *)
Lemma EOr_sort_canon A : map sort_abs (EOr A) = map (canon_cfg n) (EOr A).
Proof.
  apply map_ext_in. intros c Hc. apply EOr_in_root in Hc.
  eapply sort_abs_canon; [now apply (root_good C n HWF)|].
  apply complete_range. apply HWF.
Qed.

Theorem EOr_models A : in_range n A ->
  Permutation (map (canon_cfg n) (EOr A)) (ModelsA C n A).
Proof.
  intros HA. unfold ModelsA.
  pose proof (Permutation_filter (contains_all A) _ _ (models_enum_perm C n HWF)) as HP.
  rewrite <- HP. rewrite filter_map_comm. unfold EOr, EO. rewrite <- enum_root_nth.
  replace (filter (fun x => contains_all A (canon_cfg n x)) (enum_root C))
    with (filter (okA A) (enum_root C)); [reflexivity|].
  apply filter_ext_in. intros c Hc. symmetry.
  apply (contains_all_canon n c (last (varss C) []) A); [|apply complete_range; apply HWF|exact HA].
  now apply (root_good C n HWF).
Qed.

Lemma ModelsA_NoDup A : NoDup (ModelsA C n A).
Proof. unfold ModelsA, Models. apply NoDup_filter, NoDup_filter, all_cfgs_NoDup. Qed.

Theorem EOr_sorted_NoDup A : in_range n A -> NoDup (map sort_abs (EOr A)).
Proof.
  intros HA. rewrite EOr_sort_canon.
  eapply Permutation_NoDup; [symmetry; now apply EOr_models|apply ModelsA_NoDup].
Qed.

Theorem EOr_NoDup A : in_range n A -> NoDup (EOr A).
Proof. intros HA. eapply NoDup_map_inv. now apply EOr_sorted_NoDup. Qed.

End Page.

(* ---------- (3) sequences of requests ---------- *)

(* a history of requests (assumption list, amount) against one cursor map *)
Fixpoint run_pages (d : ddnnf) (reqs : list (cfg * Z)) (cur : cursor) (s : scratch)
  : list (option (list cfg)) * cursor * scratch :=
  match reqs with
  | [] => ([], cur, s)
  | (A', k) :: reqs' =>
    let '(s2, cur2, r) := enumerate d A' k cur s in
    let '(rs, cur3, s3) := run_pages d reqs' cur2 s2 in
    (r :: rs, cur3, s3)
  end.

Section Run.
Variables (C : circuit) (n : nat) (A : cfg).
Hypothesis HWF : WF C n.
Hypothesis Hn : (0 < n)%nat.
Hypothesis Hor : or_no_true_child C = true.
Hypothesis HA : in_range n A.
(* the literals may be given in any order, any literal any number of times, from call to call *)
Hypothesis Hex : forall A', same_set A A' -> exec_spec C n A'.

Let d := build C n.
Let c := MCA C n A.
Let K := enum_key A.
Let E := EOr C A.

(* a request for the same SET of literals (since F19 the cursor key is the set) *)
Definition req_ok (r : cfg * Z) : Prop := same_set A (fst r) /\ 0 <= snd r.

Theorem pages_run reqs : forall cur s,
  Clean C s -> Forall req_ok reqs -> 0 < c ->
  let p := cur_get cur K in
  0 <= p < c ->
  exists cur' s',
    run_pages d reqs cur s =
      (map (fun pg => Some (map sort_abs pg)) (spec_pages c E p (map snd reqs)), cur', s') /\
    Clean C s' /\
    cur_get cur' K = spec_pos c p (map snd reqs) /\
    (forall k, k <> K -> cur_get cur' k = cur_get cur k).
Proof.
  induction reqs as [|[A' k] reqs IH]; intros cur s Hcl Hreq Hc p Hp.
  - exists cur, s. cbn [run_pages map spec_pages spec_pos fold_left]. auto.
  - inversion Hreq as [|? ? [HP Hk] Hreq']; subst. cbn [fst snd] in HP, Hk.
    assert (HK : enum_key A' = K).
    { symmetry. apply enum_key_same_set; [|exact HP]. now apply (sat_consistent C n). }
    assert (HcA : MCA C n A' = c) by (symmetry; now apply MCA_same_set).
    assert (HEA : EOr C A' = E) by (symmetry; now apply EO_same_set).
    assert (HA' : in_range n A') by (now apply (in_range_same_set n A A')).
    cbn [run_pages map snd spec_pages spec_pos fold_left].
    fold (spec_pos c (next_pos c p k) (map snd reqs)).
    assert (Hstep : exists s2 cur2, Clean C s2 /\
              enumerate d A' k cur s =
              (s2, cur2, Some (map sort_abs (slice p (Z.min c (p + k)) E))) /\
              cur_get cur2 K = next_pos c p k /\
              (forall k', k' <> K -> cur_get cur2 k' = cur_get cur k')).
    { destruct (Z.eq_dec k 0) as [->|Hk0].
      - exists s, cur. split; [exact Hcl|]. unfold d. rewrite enumerate_zero.
        rewrite Z.add_0_r. replace (Z.min c p) with p by lia. rewrite slice_empty.
        split; [reflexivity|]. split; [|reflexivity].
        unfold next_pos. rewrite Z.add_0_r. replace (Z.min c p) with p by lia.
        symmetry. apply Z.mod_small. exact Hp.
      - destruct (enumerate_page C n HWF Hn Hor A' k cur s HA' (Hex A' HP) Hcl ltac:(lia))
          as (s2 & Hcl2 & He).
        + rewrite HcA. exact Hc.
        + rewrite HK, HcA. exact Hp.
        + exists s2, (cur_set cur K (next_pos c p k)). split; [exact Hcl2|].
          unfold d. rewrite He, HK, HcA, HEA. split; [reflexivity|].
          split; [apply cur_get_set_same|]. intros k' Hk'. now apply cur_get_set_other. }
    destruct Hstep as (s2 & cur2 & Hcl2 & He & Hg2 & Ho2). rewrite He.
    destruct (IH cur2 s2 Hcl2 Hreq' Hc) as (cur' & s' & Hr & Hcl' & Hg & Ho).
    + rewrite Hg2. apply next_pos_range; [exact Hc|exact Hp|exact Hk].
    + rewrite Hg2 in Hr, Hg. exists cur', s'. rewrite Hr.
      split; [reflexivity|]. split; [exact Hcl'|]. split; [exact Hg|].
      intros k' Hk'. rewrite Ho by exact Hk'. now apply Ho2.
Qed.

Lemma NoDup_app_l {X} (l1 l2 : list X) : NoDup (l1 ++ l2) -> NoDup l1.
Proof.
  induction l1 as [|x l1 IH]; intros H; [constructor|]. cbn [app] in H.
  apply NoDup_cons_iff in H. destruct H as [H1 H2]. constructor; [|now apply IH].
  intros Hin. apply H1. apply in_or_app. now left.
Qed.

(* what was returned, concatenated *)
Definition pages_of (rs : list (option (list cfg))) : list cfg :=
  concat (map (fun r => match r with Some l => l | None => [] end) rs).

Lemma pages_of_some (pages : list (list cfg)) :
  pages_of (map (fun pg => Some (map sort_abs pg)) pages) = map sort_abs (concat pages).
Proof.
  unfold pages_of. induction pages as [|pg pages IH]; [reflexivity|].
  cbn [map concat]. now rewrite map_app, IH.
Qed.

Lemma zsum_nonneg' ks : Forall (fun k => 0 <= k) ks -> 0 <= zsum ks.
Proof. induction 1 as [|x l Hx _ IHl]; [cbn; lia|rewrite zsum_cons; lia]. Qed.

Lemma reqs_amounts reqs : Forall req_ok reqs -> Forall (fun k => 0 <= k) (map snd reqs).
Proof. induction 1 as [|r l [_ Hr] _ IHl]; cbn [map]; constructor; auto. Qed.

Lemma E_length : Z.of_nat (length E) = c.
Proof. apply EOr_length; assumption. Qed.

(* every sequence of requests: the returned configurations are a segment of
   E ++ E ++ ... starting at the cursor; the cursor stays in [0, c) *)
Theorem pages_cyclic reqs cur s :
  Clean C s -> Forall req_ok reqs -> 0 < c ->
  let p := cur_get cur K in
  0 <= p < c ->
  exists rs cur' s',
    run_pages d reqs cur s = (rs, cur', s') /\
    pages_of rs = map sort_abs (cyc c E [] p (spec_total c p (map snd reqs))) /\
    map (fun r => match r with Some l => Z.of_nat (length l) | None => -1 end) rs
      = spec_lens c p (map snd reqs) /\
    0 <= cur_get cur' K < c.
Proof.
  intros Hcl Hreq Hc p Hp.
  destruct (pages_run reqs cur s Hcl Hreq Hc Hp) as (cur' & s' & Hr & _ & Hg & _).
  pose proof (reqs_amounts reqs Hreq) as Hks.
  eexists _, cur', s'. split; [exact Hr|]. fold p in Hg. split; [|split].
  - rewrite pages_of_some. f_equal. apply spec_pages_cyc; auto. apply E_length.
  - rewrite map_map. rewrite <- (spec_pages_lens _ c E Hc E_length (map snd reqs) p Hp Hks).
    apply map_ext. intros pg. now rewrite map_length.
  - rewrite Hg. now apply spec_pos_range.
Qed.

(* within one cycle (cursor 0, at most c configurations requested in total): the pages are the
   consecutive slices, nothing is returned twice *)
Theorem pages_within_cycle reqs cur s :
  Clean C s -> Forall req_ok reqs -> 0 < c -> cur_get cur K = 0 ->
  zsum (map snd reqs) <= c ->
  exists rs cur' s',
    run_pages d reqs cur s = (rs, cur', s') /\
    pages_of rs = map sort_abs (firstn (Z.to_nat (zsum (map snd reqs))) E) /\
    NoDup (pages_of rs) /\
    cur_get cur' K = zsum (map snd reqs) mod c.
Proof.
  intros Hcl Hreq Hc Hp0 Hsum.
  assert (Hp : 0 <= cur_get cur K < c) by lia.
  destruct (pages_run reqs cur s Hcl Hreq Hc Hp) as (cur' & s' & Hr & _ & Hg & _).
  pose proof (reqs_amounts reqs Hreq) as Hks.
  rewrite Hp0 in *.
  destruct (spec_pages_within _ c E Hc (map snd reqs) 0 ltac:(lia) Hks ltac:(lia)) as [H1 H2].
  cbn [Z.add] in H1, H2.
  assert (Hpg : pages_of (map (fun pg => Some (map sort_abs pg)) (spec_pages c E 0 (map snd reqs)))
                = map sort_abs (firstn (Z.to_nat (zsum (map snd reqs))) E)).
  { rewrite pages_of_some, H1, slice_0. reflexivity. }
  eexists _, cur', s'. split; [exact Hr|]. split; [exact Hpg|]. split; [|now rewrite Hg].
  rewrite Hpg.
  pose proof (EOr_sorted_NoDup C n HWF A HA) as HN. fold E in HN.
  rewrite <- (firstn_skipn (Z.to_nat (zsum (map snd reqs))) E), map_app in HN.
  now apply NoDup_app_l in HN.
Qed.

Lemma NoDup_app_r {X} (l1 l2 : list X) : NoDup (l1 ++ l2) -> NoDup l2.
Proof.
  induction l1 as [|x l1 IH]; intros H; [exact H|]. cbn [app] in H.
  apply NoDup_cons_iff in H. now apply IH.
Qed.

Lemma NoDup_slice {X} lo hi (l : list X) : NoDup l -> NoDup (slice lo hi l).
Proof.
  intros H. unfold slice.
  rewrite <- (firstn_skipn (Z.to_nat lo) l) in H. apply NoDup_app_r in H.
  rewrite <- (firstn_skipn (Z.to_nat (hi - lo)) (skipn (Z.to_nat lo) l)) in H.
  now apply NoDup_app_l in H.
Qed.

(* the same from any cursor position, as long as the requests do not run over the end *)
Theorem pages_within_cycle_from reqs cur s :
  Clean C s -> Forall req_ok reqs -> 0 < c ->
  let p := cur_get cur K in
  0 <= p < c -> p + zsum (map snd reqs) <= c ->
  exists rs cur' s',
    run_pages d reqs cur s = (rs, cur', s') /\
    pages_of rs = map sort_abs (slice p (p + zsum (map snd reqs)) E) /\
    NoDup (pages_of rs) /\
    cur_get cur' K = (p + zsum (map snd reqs)) mod c.
Proof.
  intros Hcl Hreq Hc p Hp Hsum.
  destruct (pages_run reqs cur s Hcl Hreq Hc Hp) as (cur' & s' & Hr & _ & Hg & _).
  pose proof (reqs_amounts reqs Hreq) as Hks. fold p in Hr, Hg.
  destruct (spec_pages_within _ c E Hc (map snd reqs) p Hp Hks Hsum) as [H1 H2].
  assert (Hpg : pages_of (map (fun pg => Some (map sort_abs pg)) (spec_pages c E p (map snd reqs)))
                = map sort_abs (slice p (p + zsum (map snd reqs)) E)).
  { now rewrite pages_of_some, H1. }
  eexists _, cur', s'. split; [exact Hr|]. split; [exact Hpg|]. split; [|now rewrite Hg].
  rewrite Hpg. unfold E.
  (* sort_abs is injective on the enumeration *)
  pose proof (EOr_sorted_NoDup C n HWF A HA) as HNs.
  unfold slice in *.
  rewrite <- (firstn_skipn (Z.to_nat p) (EOr C A)), map_app in HNs. apply NoDup_app_r in HNs.
  rewrite <- (firstn_skipn (Z.to_nat (p + zsum (map snd reqs) - p)) (skipn (Z.to_nat p) (EOr C A))),
    map_app in HNs.
  now apply NoDup_app_l in HNs.
Qed.

(* a full cycle: exactly the models containing A, each once; the cursor is back at 0 *)
Theorem pages_cycle reqs cur s :
  Clean C s -> Forall req_ok reqs -> 0 < c -> cur_get cur K = 0 ->
  zsum (map snd reqs) = c ->
  exists rs cur' s',
    run_pages d reqs cur s = (rs, cur', s') /\
    pages_of rs = map sort_abs E /\
    Permutation (pages_of rs) (ModelsA C n A) /\
    NoDup (pages_of rs) /\
    cur_get cur' K = 0.
Proof.
  intros Hcl Hreq Hc Hp0 Hsum.
  destruct (pages_within_cycle reqs cur s Hcl Hreq Hc Hp0 ltac:(lia))
    as (rs & cur' & s' & Hr & Hpg & HN & Hg).
  exists rs, cur', s'. split; [exact Hr|].
  assert (HE : pages_of rs = map sort_abs E).
  { rewrite Hpg, Hsum, <- E_length, Nat2Z.id, firstn_all. reflexivity. }
  split; [exact HE|]. split; [|split; [exact HN|]].
  - rewrite HE. unfold E. rewrite (EOr_sort_canon C n HWF). now apply EOr_models.
  - rewrite Hg, Hsum. apply Z_mod_same_full.
Qed.

End Run.

(* ---------- exec_spec holds without any further hypothesis when there are no assumptions ---------- *)
Lemma upd_length {X} i (x : X) l : length (upd i x l) = length l.
Proof.
  revert i. induction l as [|y l IH]; intros [|i]; cbn [upd length]; auto.
Qed.

Lemma nth_upd_other {X} i j (x d0 : X) l : i <> j -> nth i (upd j x l) d0 = nth i l d0.
Proof.
  revert i j. induction l as [|y l IH]; intros i j Hne; [destruct j; reflexivity|].
  destruct j as [|j], i as [|i]; cbn [upd nth]; try reflexivity; [congruence|].
  apply IH. congruence.
Qed.

Lemma hide_true_length (js : list nat) : forall t : list Z,
  length (fold_left (fun t i => upd i 0 t) js t) = length t.
Proof.
  induction js as [|j js IH]; intros t; [reflexivity|]. cbn [fold_left]. now rewrite IH, upd_length.
Qed.

Lemma hide_true_nth (js : list nat) i : ~ In i js -> forall t : list Z,
  nth i (fold_left (fun t i => upd i 0 t) js t) 0 = nth i t 0.
Proof.
  induction js as [|j js IH]; intros Hni t; [reflexivity|]. cbn [fold_left].
  rewrite IH by (intros H; apply Hni; now right).
  apply nth_upd_other. intros ->. apply Hni. now left.
Qed.

Lemma ModelsA_nil C n : ModelsA C n [] = Models C n.
Proof.
  unfold ModelsA. induction (Models C n) as [|m l IH]; [reflexivity|].
  cbn [filter contains_all forallb]. now rewrite IH.
Qed.

Theorem exec_spec_nil C n : WF C n -> exec_spec C n [].
Proof.
  intros HWF s s1 s2 r Hcl Hpre Hq.
  unfold preprocess in Hpre. cbn [existsb fold_left cnts circ build nv] in Hpre.
  inversion Hpre; subst s1; clear Hpre.
  cbn [enum_key dedup sort_abs fold_right execute_query] in Hq. inversion Hq; subst s2 r; clear Hq.
  split; [|split].
  - unfold rc, rootn. cbn [cnts circ build]. fold (root C).
    rewrite <- root_count_nth, (count_is_MC C n HWF). unfold MC, MCA. now rewrite ModelsA_nil.
  - intros _ i Hi Hnt _. cbn [temps enum_key dedup sort_abs fold_right]. change (countsA [] C) with (counts C).
    apply hide_true_nth. intros Hin. apply Hnt.
    assert (Ht : is_true_node (build C n) i = true).
    { unfold is_true_node. apply existsb_exists. exists i. split; [exact Hin|apply Nat.eqb_refl]. }
    apply is_true_node_spec in Ht. apply Ht.
  - destruct Hcl as [H1 H2 H3 H4 H5]. constructor; cbn [temps marks pds mdl]; auto.
    rewrite hide_true_length. unfold counts. apply pass_length.
Qed.

(* ---------- unconditional instances: enumeration without assumptions ---------- *)
Lemma in_range_nil n : in_range n [].
Proof. intros l []. Qed.

Lemma exec_spec_perm_nil C n : WF C n -> forall A', same_set [] A' -> exec_spec C n A'.
Proof.
  intros HWF A' HS. destruct A' as [|x A']; [now apply exec_spec_nil|].
  exfalso. apply (proj2 (HS x)). now left.
Qed.

Theorem enumerate_page_nil C n : WF C n -> (0 < n)%nat -> or_no_true_child C = true ->
  forall amount cur s, Clean C s -> 0 < amount ->
  let c := MCA C n [] in
  let p := cur_get cur [] in
  let stop := Z.min c (p + amount) in
  0 < c -> 0 <= p < c ->
  exists s2, Clean C s2 /\
    enumerate (build C n) [] amount cur s =
    (s2, cur_set cur [] (stop mod c), Some (map sort_abs (slice p stop (EOr C [])))).
Proof.
  intros HWF Hn Hor amount cur s Hcl Ham.
  exact (enumerate_page C n HWF Hn Hor [] amount cur s (in_range_nil n) (exec_spec_nil C n HWF) Hcl Ham).
Qed.

Theorem pages_cycle_nil C n : WF C n -> (0 < n)%nat -> or_no_true_child C = true ->
  forall reqs cur s, Clean C s -> Forall (req_ok []) reqs -> 0 < MCA C n [] ->
  cur_get cur [] = 0 -> zsum (map snd reqs) = MCA C n [] ->
  exists rs cur' s',
    run_pages (build C n) reqs cur s = (rs, cur', s') /\
    Permutation (pages_of rs) (Models C n) /\ NoDup (pages_of rs) /\ cur_get cur' [] = 0.
Proof.
  intros HWF Hn Hor reqs cur s Hcl Hreq Hc Hp Hs.
  destruct (pages_cycle C n [] HWF Hn Hor (in_range_nil n) (exec_spec_perm_nil C n HWF)
                        reqs cur s Hcl Hreq Hc Hp Hs) as (rs & cur' & s' & H1 & _ & H2 & H3 & H4).
  exists rs, cur', s'. rewrite ModelsA_nil in H2. auto.
Qed.

(* a clean scratch is determined up to temps and pds (used to discharge exec_spec on concrete circuits) *)
Lemma clean_shape C s : Clean C s -> marks s = map (fun _ => false) C /\ mdl s = [].
Proof.
  intros [H1 H2 H3 H4 H5]. split; [|exact H5].
  revert H2 H4. generalize (marks s) as ms. clear. induction C as [|nd C IH]; intros [|b ms] Hl Hf;
    cbn in Hl; try discriminate; [reflexivity|].
  inversion Hf; subst. cbn [map]. f_equal. apply IH; [congruence|assumption].
Qed.

(* ---------- executable checks used by the Examples in Props/C06.v ---------- *)
(* the conclusion of exec_spec evaluated on the fresh scratch *)
Definition exec_okb (C : circuit) (n : nat) (A : cfg) : bool :=
  match preprocess (build C n) A (fresh_scratch C) with
  | Some s1 =>
    let '(s2, r) := execute_query (build C n) (enum_key A) s1 in
    (r =? MCA C n A)
    && (negb (0 <? r)
        || forallb (fun i => is_TrueN (nth i C FalseN)
                             || (nth i (temps s2) 0 =? nth i (countsA (enum_key A) C) 0))
                   (seq 0 (length C)))
    && forallb negb (marks s2) && match mdl s2 with [] => true | _ => false end
  | None => true
  end.
(* all partial assignments over the given features *)
Fixpoint partials (vs : list Z) : list cfg :=
  match vs with
  | [] => [[]]
  | v :: r => let p := partials r in p ++ map (cons v) p ++ map (cons (- v)) p
  end.
