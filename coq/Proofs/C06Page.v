(* C06: Ddnnf::enumerate returns the next slice of the enumeration order, the cursor arithmetic,
   and sequences of requests (one paging cycle returns every model containing A exactly once). *)
From Coq Require Import List ZArith Bool Lia Permutation.
From DD Require Import Model.Circuit Model.Query Model.Enumerate
     Proofs.PassLemmas Proofs.Enum Proofs.Semantics Proofs.CountsA Proofs.QueryDefs
     Proofs.C06Prefix Proofs.C06Node Proofs.C06Sort.
Import ListNotations.
Open Scope Z_scope.

(* What enumerate needs from execute_query when it runs on the PREPROCESSED scratch (proved
   separately; here a hypothesis): the returned count is the number of models containing A, the
   temps of all nodes that are not true nodes are the counts under A, the scratch stays clean. *)
Definition exec_spec (C : circuit) (n : nat) (A : cfg) : Prop :=
  forall s s1 s2 r,
    Clean C s -> preprocess (build C n) A s = Some s1 ->
    execute_query (build C n) (sort_abs A) s1 = (s2, r) ->
    r = MCA C n A /\ temps_ok (sort_abs A) C (temps s2) /\ Clean C s2.

Definition out_of_range (n : nat) (A : cfg) : Prop := exists l, In l A /\ Z.of_nat n < Z.abs l.

(* ---------- preprocess ---------- *)
Lemma preprocess_None C n A s : out_of_range n A -> preprocess (build C n) A s = None.
Proof.
  intros (l & Hl & Hlt). unfold preprocess. cbn [nv build].
  replace (existsb (fun f => Z.of_nat n <? Z.abs f) A) with true; [reflexivity|].
  symmetry. apply existsb_exists. exists l. split; [exact Hl|now apply Z.ltb_lt].
Qed.

Lemma preprocess_Some C n A s : in_range n A -> exists s1, preprocess (build C n) A s = Some s1.
Proof.
  intros HA. unfold preprocess. cbn [nv build].
  replace (existsb (fun f => Z.of_nat n <? Z.abs f) A) with false; [eexists; reflexivity|].
  symmetry. apply not_true_is_false. intros H. apply existsb_exists in H.
  destruct H as (l & Hl & Hlt). apply Z.ltb_lt in Hlt. specialize (HA l Hl). lia.
Qed.

(* ---------- the root ---------- *)
Lemma root_not_true C n : WF C n -> (0 < n)%nat -> nth (root C) C FalseN <> TrueN.
Proof.
  intros HWF Hn Ht.
  pose proof (complete_range C n (wf_complete C n HWF)) as HV.
  assert (Hl : last (varss C) [] = nth (root C) (varss C) []).
  { unfold root. rewrite last_nth. unfold varss. now rewrite pass_length. }
  rewrite Hl, (varss_unfold C (wf_idx C n HWF) (root C) (root_lt C (wf_nonempty C n HWF))), Ht in HV.
  cbn [vars_node] in HV. destruct (HV 1) as [_ H]. apply H. lia.
Qed.

Lemma EO_perm A A' C i : Permutation A A' -> EO A C i = EO A' C i.
Proof. intros HP. unfold EO. apply filter_ext. intros c. now apply okA_perm. Qed.

Section Page.
Variables (C : circuit) (n : nat).
Hypothesis HWF : WF C n.
Hypothesis Hn : (0 < n)%nat.
Hypothesis Hor : or_no_true_child C = true.

Let d := build C n.

(* the enumeration under A (root) and its size *)
Definition EOr (A : cfg) : list cfg := EO A C (root C).

Lemma EOr_length A : in_range n A -> Z.of_nat (length (EOr A)) = MCA C n A.
Proof.
  intros HA. unfold EOr, EO. rewrite <- countsA_filter; [|apply HWF|apply root_lt; apply HWF].
  now apply countsA_MCA.
Qed.

(* one call, everything but the Some/None decision made explicit *)
Lemma enumerate_unfold A amount cur s :
  in_range n A -> exec_spec C n A -> Clean C s -> amount <> 0 ->
  let c := MCA C n A in
  let p := cur_get cur (sort_abs A) in
  let stop := Z.min c (p + amount) in
  exists s2, Clean C s2 /\
    enumerate d A amount cur s =
    (if 0 <? c
     then (s2, cur_set cur (sort_abs A) (stop mod c),
           Some (map sort_abs (enumerate_node d (temps s2) (length C) p stop (root C))))
     else (s2, cur, None)) /\
    temps_ok (sort_abs A) C (temps s2).
Proof.
  intros HA Hex Hcl Ham c p stop.
  destruct (preprocess_Some C n A s HA) as [s1 Hs1].
  destruct (execute_query d (sort_abs A) s1) as [s2 r] eqn:Hq.
  destruct (Hex s s1 s2 r Hcl Hs1 Hq) as (Hr & Hts & Hcl2).
  exists s2. split; [exact Hcl2|]. split; [|exact Hts].
  unfold enumerate. replace (amount =? 0) with false by (symmetry; now apply Z.eqb_neq).
  unfold d in *. rewrite Hs1, Hq. fold c in Hr. subst r.
  destruct (0 <? c) eqn:Ec; [|reflexivity].
  assert (Hrt : rt (build C n) s2 = c).
  { unfold rt, rootn. cbn [circ build]. fold (root C).
    rewrite Hts; [|apply root_lt; apply HWF|now apply (root_not_true C n)].
    rewrite (countsA_MCA C n); [|exact HWF|eapply in_range_perm; [symmetry; apply sort_abs_perm|exact HA]].
    apply MCA_perm. apply sort_abs_perm. }
  rewrite Hrt. reflexivity.
Qed.

(* (2) the page theorem *)
Theorem enumerate_page A amount cur s :
  in_range n A -> exec_spec C n A -> Clean C s -> 0 < amount ->
  let c := MCA C n A in
  let p := cur_get cur (sort_abs A) in
  let stop := Z.min c (p + amount) in
  0 < c -> 0 <= p < c ->
  exists s2, Clean C s2 /\
    enumerate d A amount cur s =
    (s2, cur_set cur (sort_abs A) (stop mod c), Some (map sort_abs (slice p stop (EOr A)))).
Proof.
  intros HA Hex Hcl Ham c p stop Hc Hp.
  destruct (enumerate_unfold A amount cur s HA Hex Hcl ltac:(lia)) as (s2 & Hcl2 & He & Hts).
  exists s2. split; [exact Hcl2|]. rewrite He. fold c.
  replace (0 <? c) with true by (symmetry; now apply Z.ltb_lt).
  fold p. fold stop. f_equal. f_equal. f_equal.
  assert (HP : Permutation (sort_abs A) A) by apply sort_abs_perm.
  unfold EOr. rewrite <- (EO_perm (sort_abs A) A C (root C) HP).
  assert (Hlen : Z.of_nat (length (EO (sort_abs A) C (root C))) = c).
  { rewrite (EO_perm (sort_abs A) A C (root C) HP). now apply EOr_length. }
  apply (enumerate_node_slice d (sort_abs A) (temps s2)); cbn [circ d build].
  - apply HWF.
  - exact Hts.
  - exact Hor.
  - apply root_lt. apply HWF.
  - now apply (root_not_true C n).
  - apply root_lt. apply HWF.
  - unfold stop. lia.
  - rewrite Hlen. unfold stop. lia.
Qed.

(* the cursor after the call *)
Corollary enumerate_page_cursor A amount cur s s2 cur2 r :
  in_range n A -> exec_spec C n A -> Clean C s -> 0 < amount ->
  let c := MCA C n A in
  let p := cur_get cur (sort_abs A) in
  0 < c -> 0 <= p < c ->
  enumerate d A amount cur s = (s2, cur2, r) ->
  cur_get cur2 (sort_abs A) = Z.min c (p + amount) mod c /\
  (forall k, k <> sort_abs A -> cur_get cur2 k = cur_get cur k).
Proof.
  intros HA Hex Hcl Ham c p Hc Hp He.
  destruct (enumerate_page A amount cur s HA Hex Hcl Ham Hc Hp) as (s2' & _ & He').
  rewrite He' in He. inversion He; subst. split.
  - apply cur_get_set_same.
  - intros k Hk. now apply cur_get_set_other.
Qed.

(* amount = 0: nothing happens *)
Theorem enumerate_zero A cur s : enumerate d A 0 cur s = (s, cur, Some []).
Proof. reflexivity. Qed.

(* None: exactly when no model contains A or a literal is out of range; the cursor is untouched *)
Theorem enumerate_none_out A amount cur s :
  amount <> 0 -> out_of_range n A -> enumerate d A amount cur s = (s, cur, None).
Proof.
  intros Ham Ho. unfold enumerate.
  replace (amount =? 0) with false by (symmetry; now apply Z.eqb_neq).
  unfold d. now rewrite preprocess_None.
Qed.

Theorem enumerate_none_unsat A amount cur s :
  in_range n A -> exec_spec C n A -> Clean C s -> amount <> 0 -> MCA C n A = 0 ->
  exists s2, Clean C s2 /\ enumerate d A amount cur s = (s2, cur, None).
Proof.
  intros HA Hex Hcl Ham Hc.
  destruct (enumerate_unfold A amount cur s HA Hex Hcl Ham) as (s2 & Hcl2 & He & _).
  exists s2. split; [exact Hcl2|]. rewrite He, Hc. reflexivity.
Qed.

Theorem enumerate_none_iff A amount cur s :
  (forall l, In l A -> l <> 0) -> (in_range n A -> exec_spec C n A) -> Clean C s -> amount <> 0 ->
  (snd (enumerate d A amount cur s) = None <-> MCA C n A = 0 \/ out_of_range n A).
Proof.
  intros Hnz Hex Hcl Ham.
  assert (Hdec : in_range n A \/ out_of_range n A).
  { clear Hex. induction A as [|l A' IH].
    - left. intros l [].
    - destruct IH as [IH|(l' & Hl' & Hlt)]; [intros; apply Hnz; now right| |].
      + destruct (Z_lt_le_dec (Z.of_nat n) (Z.abs l)) as [Hlt|Hle].
        * right. exists l. split; [now left|exact Hlt].
        * left. intros l' [<-|Hl']; [|now apply IH].
          assert (l <> 0) by (apply Hnz; now left). lia.
      + right. exists l'. split; [now right|exact Hlt]. }
  destruct Hdec as [HA|Ho].
  - destruct (enumerate_unfold A amount cur s HA (Hex HA) Hcl Ham) as (s2 & _ & He & _).
    rewrite He. assert (0 <= MCA C n A) by (unfold MCA; lia).
    destruct (0 <? MCA C n A) eqn:Ec; cbn [snd].
    + apply Z.ltb_lt in Ec. split; [discriminate|].
      intros [H0|(l & Hl & Hlt)]; [lia|]. specialize (HA l Hl). lia.
    + apply Z.ltb_ge in Ec. split; [intros _; left; lia|reflexivity].
  - rewrite (enumerate_none_out A amount cur s Ham Ho). cbn [snd]. split; [now right|reflexivity].
Qed.

(* ---------- the model set behind the pages ---------- *)
Lemma EOr_in_root A c : In c (EOr A) -> In c (enum_root C).
Proof. unfold EOr, EO. rewrite filter_In, <- enum_root_nth. tauto. Qed.

(* (4) every returned configuration is a complete configuration in feature order *)
Lemma EOr_sort_canon A : map sort_abs (EOr A) = map (canon_cfg n) (EOr A).
Proof.
  apply map_ext_in. intros c Hc. apply EOr_in_root in Hc.
  eapply sort_abs_canon; [now apply (root_good C n HWF)|].
  apply complete_range. apply HWF.
Qed.

Theorem EOr_models A : in_range n A ->
  Permutation (map (canon_cfg n) (EOr A)) (ModelsA C n A).
Proof.
  intros HA. unfold ModelsA.
  pose proof (Permutation_filter (contains_all A) _ _ (models_enum_perm C n HWF)) as HP.
  rewrite <- HP. rewrite filter_map_comm. unfold EOr, EO. rewrite <- enum_root_nth.
  replace (filter (fun x => contains_all A (canon_cfg n x)) (enum_root C))
    with (filter (okA A) (enum_root C)); [reflexivity|].
  apply filter_ext_in. intros c Hc. symmetry.
  apply (contains_all_canon n c (last (varss C) []) A); [|apply complete_range; apply HWF|exact HA].
  now apply (root_good C n HWF).
Qed.

Lemma ModelsA_NoDup A : NoDup (ModelsA C n A).
Proof. unfold ModelsA, Models. apply NoDup_filter, NoDup_filter, all_cfgs_NoDup. Qed.

Theorem EOr_sorted_NoDup A : in_range n A -> NoDup (map sort_abs (EOr A)).
Proof.
  intros HA. rewrite EOr_sort_canon.
  eapply Permutation_NoDup; [symmetry; now apply EOr_models|apply ModelsA_NoDup].
Qed.

Theorem EOr_NoDup A : in_range n A -> NoDup (EOr A).
Proof. intros HA. eapply NoDup_map_inv. now apply EOr_sorted_NoDup. Qed.

End Page.

(* ---------- (3) sequences of requests: the abstract paging machine ---------- *)
Section Machine.
Variables (X : Type) (c : Z) (E : list X).

Definition next_pos (p k : Z) : Z := Z.min c (p + k) mod c.

Fixpoint spec_pages (p : Z) (ks : list Z) : list (list X) :=
  match ks with
  | [] => []
  | k :: ks' => slice p (Z.min c (p + k)) E :: spec_pages (next_pos p k) ks'
  end.
Definition spec_pos (p : Z) (ks : list Z) : Z := fold_left next_pos ks p.

Hypothesis Hc : 0 < c.
Hypothesis HE : Z.of_nat (length E) = c.

Lemma next_pos_range p k : 0 <= p < c -> 0 <= k -> 0 <= next_pos p k < c.
Proof. intros. unfold next_pos. now apply Z.mod_pos_bound. Qed.

Lemma spec_pos_range ks : forall p, 0 <= p < c -> Forall (fun k => 0 <= k) ks ->
  0 <= spec_pos p ks < c.
Proof.
  induction ks as [|k ks IH]; intros p Hp Hk; [exact Hp|]. inversion Hk; subst.
  cbn [spec_pos fold_left]. apply IH; [now apply next_pos_range|assumption].
Qed.

(* size of every page: min k (c - position) *)
Fixpoint spec_lens (p : Z) (ks : list Z) : list Z :=
  match ks with
  | [] => []
  | k :: ks' => Z.min k (c - p) :: spec_lens (next_pos p k) ks'
  end.

Lemma spec_pages_lens ks : forall p, 0 <= p < c -> Forall (fun k => 0 <= k) ks ->
  map (fun pg => Z.of_nat (length pg)) (spec_pages p ks) = spec_lens p ks.
Proof.
  induction ks as [|k ks IH]; intros p Hp Hk; [reflexivity|]. inversion Hk; subst.
  cbn [spec_pages spec_lens map]. f_equal.
  - rewrite slice_length; lia.
  - apply IH; [now apply next_pos_range|assumption].
Qed.

(* as long as the requests stay within the cycle the pages are consecutive slices *)
Lemma spec_pages_within ks : forall p, 0 <= p < c -> Forall (fun k => 0 <= k) ks ->
  p + zsum ks <= c ->
  concat (spec_pages p ks) = slice p (p + zsum ks) E /\
  spec_pos p ks = (p + zsum ks) mod c.
Proof.
  induction ks as [|k ks IH]; intros p Hp Hk Hs.
  - cbn [spec_pages concat zsum fold_right spec_pos fold_left]. rewrite Z.add_0_r, slice_empty.
    split; [reflexivity|]. symmetry. apply Z.mod_small. lia.
  - inversion Hk as [|? ? Hk0 Hk']; subst. rewrite zsum_cons in *.
    assert (Hz : 0 <= zsum ks).
    { clear - Hk'. induction Hk' as [|x l Hx _ IHl]; [cbn; lia|rewrite zsum_cons; lia]. }
    cbn [spec_pages concat spec_pos fold_left]. fold (spec_pos (next_pos p k) ks).
    replace (Z.min c (p + k)) with (p + k) by lia.
    destruct (Z.eq_dec (p + k) c) as [Hfull|Hnf].
    + (* the page ends the cycle: the remaining requests are empty pages at position 0 *)
      assert (Hz0 : zsum ks = 0) by lia.
      unfold next_pos. replace (Z.min c (p + k)) with c by lia. rewrite Z_mod_same_full.
      destruct (IH 0 ltac:(lia) Hk' ltac:(lia)) as [IH1 IH2].
      rewrite IH1, IH2, Hz0. cbn [Z.add]. rewrite slice_empty, app_nil_r.
      split; [f_equal; lia|]. rewrite Zmod_0_l. replace (p + (k + 0)) with c by lia.
      now rewrite Z_mod_same_full.
    + assert (Hnp : next_pos p k = p + k).
      { unfold next_pos. replace (Z.min c (p + k)) with (p + k) by lia. apply Z.mod_small. lia. }
      rewrite Hnp. destruct (IH (p + k) ltac:(lia) Hk' ltac:(lia)) as [IH1 IH2].
      rewrite IH1, IH2, slice_app by lia. split; f_equal; lia.
Qed.

(* one full cycle from position 0 *)
Corollary spec_pages_cycle ks : Forall (fun k => 0 <= k) ks -> zsum ks = c ->
  concat (spec_pages 0 ks) = E /\ spec_pos 0 ks = 0.
Proof.
  intros Hk Hs. destruct (spec_pages_within ks 0 ltac:(lia) Hk ltac:(lia)) as [H1 H2].
  rewrite H1, H2, Hs. cbn [Z.add]. rewrite <- HE at 1. rewrite slice_all.
  split; [reflexivity|apply Z_mod_same_full].
Qed.

End Machine.
