(* C10 (b),(c),(d): the written lines lex to the token list of the vector; the c2d loader's
   graph construction + petgraph DFS + rebuild, run on these tokens, yields a renumbering
   (Proofs/Renum.v) of the vector -- hence the same function, n, and WF. *)
From Coq Require Import List ZArith NArith Bool Lia String.
From DD Require Import Model.Circuit Model.Writer Model.Lexer Model.LoadC2d
  Proofs.PassLemmas Proofs.Enum Proofs.Semantics Proofs.Renum Proofs.C10Lex.
Import ListNotations.
Local Open Scope nat_scope.

(* ---------- tokens of the written file ---------- *)
Definition file_in_range (C : circuit) (n : nat) : Prop :=
  Forall node_in_range C /\ usize_ok (N.of_nat (length C)) /\ usize_ok (N.of_nat n).

Definition tokens_of (C : circuit) (n : nat) : list token :=
  THeader (N.of_nat (length C)) 0 (N.of_nat n) :: map token_of C.

Lemma map_opt_map {A B D} (f : B -> option D) (g : A -> B) (h : A -> D) (l : list A) :
  (forall x, In x l -> f (g x) = Some (h x)) -> map_opt f (map g l) = Some (map h l).
Proof.
  induction l as [|x l IH]; intros H; [reflexivity|].
  cbn [map map_opt]. rewrite (H x (or_introl eq_refl)), IH; [reflexivity|].
  intros y Hy. apply H. now right.
Qed.

Theorem lex_lines_write (C : circuit) (n : nat) :
  file_in_range C n -> lex_lines (write_c2d C n) = Some (tokens_of C n).
Proof.
  intros [HC [Hl Hn]]. unfold lex_lines, write_c2d, tokens_of.
  rewrite trim_header, (lex_header_print _ _ Hl Hn).
  rewrite (map_opt_map lex_line_c2d print_node token_of); [reflexivity|].
  intros nd Hnd. apply lex_print. rewrite Forall_forall in HC. now apply HC.
Qed.

Lemma node_of_token_of nd : node_of_token (token_of nd) = Some (norm nd).
Proof.
  assert (Hm : forall cs, map N.to_nat (map N.of_nat cs) = cs).
  { intros cs. rewrite map_map. rewrite <- (map_id cs) at 2. apply map_ext. apply Nat2N.id. }
  destruct nd as [l|[|c cs]|[|c cs]| |]; try reflexivity;
    cbn [token_of node_of_token norm]; now rewrite Hm.
Qed.

Theorem read_c2d_tokens (C : circuit) (n : nat) :
  read_c2d (tokens_of C n) = Some (map norm C, n).
Proof.
  unfold read_c2d, tokens_of.
  rewrite (map_opt_map node_of_token token_of norm) by (intros; apply node_of_token_of).
  cbn. now rewrite Nat2N.id.
Qed.

(* ---------- the graph build_c2d_ddnnf constructs ---------- *)
Definition tid_of (nd : ntype) : tid :=
  match nd with
  | Lit l => GLit l
  | And [] => GTrue
  | And _ => GAnd
  | Or [] => GFalse
  | Or _ => GOr
  | TrueN => GTrue
  | FalseN => GFalse
  end.
Definition gnode_of (nd : ntype) : tid * list nat := (tid_of nd, rev (children nd)).

Lemma add_edges_spec have cs : forall adj,
  add_edges have adj (map N.of_nat cs) =
  if forallb (fun c => Nat.ltb c have) cs then Some (rev cs ++ adj) else None.
Proof.
  induction cs as [|c cs IH]; intros adj; [reflexivity|].
  cbn [map add_edges forallb rev].
  destruct (Nat.ltb_spec c have) as [Hlt|Hge].
  - assert (E : (N.of_nat c <? N.of_nat have)%N = true) by (apply N.ltb_lt; lia).
    rewrite E, IH, Nat2N.id. cbn [andb]. now rewrite <- app_assoc.
  - assert (E : (N.of_nat c <? N.of_nat have)%N = false) by (apply N.ltb_ge; lia).
    now rewrite E.
Qed.

Lemma graph_node_spec have nd :
  graph_node have (token_of nd) =
  if forallb (fun c => Nat.ltb c have) (children nd) then Some (gnode_of nd) else None.
Proof.
  destruct nd as [l|[|c cs]|[|c cs]| |]; try reflexivity.
  - cbn [token_of graph_node children]. rewrite add_edges_spec.
    destruct (forallb _ _); [|reflexivity]. cbn. now rewrite app_nil_r.
  - cbn [token_of graph_node children]. rewrite add_edges_spec.
    destruct (forallb _ _); [|reflexivity]. cbn. now rewrite app_nil_r.
Qed.

Lemma build_graph_spec (C : circuit) : forall g,
  build_graph g (map token_of C) =
  if idx_ok_from (length g) C then Some (g ++ map gnode_of C) else None.
Proof.
  induction C as [|nd C IH]; intros g; [cbn; now rewrite app_nil_r|].
  cbn [map build_graph idx_ok_from]. rewrite graph_node_spec.
  destruct (forallb _ (children nd)); [|reflexivity].
  rewrite IH, app_length. cbn [length andb]. rewrite Nat.add_1_r.
  destruct (idx_ok_from _ C); [|reflexivity]. now rewrite <- app_assoc.
Qed.

Lemma neighbors_graph (C : circuit) x :
  neighbors (map gnode_of C) x = rev (children (nth x C FalseN)).
Proof.
  unfold neighbors. change (GFalse, @nil nat) with (gnode_of FalseN). now rewrite map_nth.
Qed.
Lemma label_graph (C : circuit) x : label (map gnode_of C) x = tid_of (nth x C FalseN).
Proof.
  unfold label. change (GFalse, @nil nat) with (gnode_of FalseN). now rewrite map_nth.
Qed.

Lemma neighbors_valid (C : circuit) : idx_ok C = true ->
  forall x, Forall (fun y => y < length C) (neighbors (map gnode_of C) x).
Proof.
  intros Hok x. rewrite neighbors_graph. apply Forall_forall. intros y Hy. apply in_rev in Hy.
  destruct (Nat.lt_ge_cases x (length C)) as [Hx|Hx].
  - pose proof (idx_ok_nth C x FalseN Hok Hx y Hy). lia.
  - rewrite nth_overflow in Hy by lia. destruct Hy.
Qed.

(* ---------- DfsPostOrder: only valid ids are emitted, the start node is emitted last ---------- *)
Lemma push_spec disc succs : forall stack,
  exists pushed, push_undiscovered disc stack succs = pushed ++ stack /\
                 Forall (fun x => mem x disc = false /\ In x succs) pushed.
Proof.
  unfold push_undiscovered. induction succs as [|s succs IH]; intros stack.
  - exists []. split; [reflexivity|constructor].
  - cbn [fold_left]. destruct (mem s disc) eqn:Hm.
    + destruct (IH stack) as [p [Hp HF]]. exists p. split; [exact Hp|].
      eapply Forall_impl; [|exact HF]. intros a [H1 H2]. split; [exact H1|now right].
    + destruct (IH (s :: stack)) as [p [Hp HF]]. exists (p ++ [s]). split.
      * rewrite Hp, <- app_assoc. reflexivity.
      * apply Forall_app. split.
        -- eapply Forall_impl; [|exact HF]. intros a [H1 H2]. split; [exact H1|now right].
        -- constructor; [|constructor]. split; [exact Hm|now left].
Qed.

Lemma dfs_loop_valid (g : graph) (V : nat) :
  (forall x, Forall (fun y => y < V) (neighbors g x)) ->
  forall fuel stack disc fin out order,
  Forall (fun y => y < V) stack -> Forall (fun y => y < V) out ->
  dfs_loop fuel g stack disc fin out = Some order -> Forall (fun y => y < V) order.
Proof.
  intros Hg fuel. induction fuel as [|f IH]; intros stack disc fin out order Hs Ho H; [discriminate|].
  cbn [dfs_loop] in H. destruct stack as [|nx rest].
  - injection H as <-. apply Forall_rev. exact Ho.
  - destruct (negb (mem nx disc)).
    + destruct (push_spec (nx :: disc) (neighbors g nx) (nx :: rest)) as [p [Hp HF]].
      rewrite Hp in H. refine (IH _ _ _ _ _ _ Ho H).
      apply Forall_app. split; [|exact Hs].
      apply Forall_forall. intros a Ha. rewrite Forall_forall in HF. destruct (HF a Ha) as [_ Hin].
      specialize (Hg nx). rewrite Forall_forall in Hg. now apply Hg.
    + inversion Hs as [|? ? Hnx Hrest]; subst. destruct (mem nx fin).
      * exact (IH _ _ _ _ _ Hrest Ho H).
      * refine (IH _ _ _ _ _ Hrest _ H). constructor; [exact Hnx|exact Ho].
Qed.

Lemma mem_cons x y l : mem x (y :: l) = Nat.eqb x y || mem x l.
Proof. reflexivity. Qed.

Definition DInv (root : nat) (stack disc fin out : list nat) : Prop :=
  (stack = [] /\ exists out', out = root :: out') \/
  (exists st, stack = st ++ [root] /\ ~ In root st /\ mem root fin = false /\
              (mem root disc = true \/ st = [])).

Lemma dfs_loop_last (g : graph) (root : nat) :
  forall fuel stack disc fin out order,
  DInv root stack disc fin out ->
  dfs_loop fuel g stack disc fin out = Some order -> exists pre, order = pre ++ [root].
Proof.
  induction fuel as [|f IH]; intros stack disc fin out order HI H; [discriminate|].
  cbn [dfs_loop] in H.
  destruct HI as [[-> [out' ->]]|[st [-> [Hnin [Hfin Hdisc]]]]].
  - injection H as <-. exists (rev out'). reflexivity.
  - destruct st as [|y st']; cbn [app] in H.
    + (* the start node is on top *)
      destruct (mem root disc) eqn:Hd; cbn [negb] in H.
      * rewrite Hfin in H. eapply IH; [|exact H]. left. split; [reflexivity|now exists out].
      * destruct (push_spec (root :: disc) (neighbors g root) [root]) as [p [Hp HF]].
        rewrite Hp in H. eapply IH; [|exact H]. right.
        exists p. split; [reflexivity|]. split; [|split; [exact Hfin|left]].
        -- intros Hin. rewrite Forall_forall in HF. destruct (HF root Hin) as [Hm _].
           rewrite mem_cons, Nat.eqb_refl in Hm. discriminate.
        -- rewrite mem_cons, Nat.eqb_refl. reflexivity.
    + assert (Hy : y <> root) by (intros ->; apply Hnin; now left).
      assert (Hd : mem root disc = true) by (destruct Hdisc as [Hd|Hd]; [exact Hd|discriminate]).
      destruct (mem y disc) eqn:Hyd; cbn [negb] in H.
      * destruct (mem y fin).
        -- eapply IH; [|exact H]. right. exists st'.
           split; [reflexivity|]. split; [|split; [exact Hfin|now left]].
           intros Hin. apply Hnin. now right.
        -- eapply IH; [|exact H]. right. exists st'.
           split; [reflexivity|]. split; [|split; [|now left]].
           ++ intros Hin. apply Hnin. now right.
           ++ rewrite mem_cons, Hfin. apply Nat.eqb_neq in Hy. rewrite Nat.eqb_sym in Hy.
              now rewrite Hy.
      * destruct (push_spec (y :: disc) (neighbors g y) (y :: st' ++ [root])) as [p [Hp HF]].
        rewrite Hp in H. eapply IH; [|exact H]. right.
        exists (p ++ y :: st'). split; [now rewrite <- app_assoc|].
        split; [|split; [exact Hfin|left]].
        -- intros Hin. apply in_app_or in Hin. destruct Hin as [Hin|Hin]; [|now apply Hnin].
           rewrite Forall_forall in HF. destruct (HF root Hin) as [Hm _].
           rewrite mem_cons, Hd, orb_true_r in Hm. discriminate.
        -- now rewrite mem_cons, Hd, orb_true_r.
Qed.

(* ---------- rebuild's numbering loop ---------- *)
Lemma map_opt_Forall2 {A B} (f : A -> option B) (l : list A) : forall l',
  map_opt f l = Some l' -> Forall2 (fun x y => f x = Some y) l l'.
Proof.
  induction l as [|x l IH]; intros l' H; cbn [map_opt] in H.
  - injection H as <-. constructor.
  - destruct (f x) as [y|] eqn:Hx; [|discriminate].
    destruct (map_opt f l) as [ys|]; [|discriminate]. injection H as <-.
    constructor; [exact Hx|now apply IH].
Qed.

Lemma Forall2_flip {A B} (R : A -> B -> Prop) l l' :
  Forall2 R l l' -> Forall2 (fun y x => R x y) l' l.
Proof. induction 1; constructor; auto. Qed.

Lemma Forall2_In_impl {A B} (R R' : A -> B -> Prop) l l' :
  (forall x y, In x l -> In y l' -> R x y -> R' x y) -> Forall2 R l l' -> Forall2 R' l l'.
Proof.
  intros H HF. induction HF as [|x y l l' Hxy HF IH]; constructor.
  - apply H; [now left|now left|exact Hxy].
  - apply IH. intros a b Ha Hb. apply H; now right.
Qed.

Lemma node_renum_ext out x j nd' nd :
  j <= length out -> node_renum out j nd' nd -> node_renum (out ++ [x]) j nd' nd.
Proof.
  intros Hj. assert (Hc : forall c' c, child_rel out j c' c -> child_rel (out ++ [x]) j c' c).
  { intros c' c [H1 H2]. split; [exact H1|]. rewrite app_nth1 by lia. exact H2. }
  destruct nd' as [l'|cs'|cs'| |], nd as [l|cs|cs| |]; cbn; auto;
    intros H; eapply Forall2_impl; eauto.
Qed.

Record FInv (C : circuit) (out : list nat) (num : list (nat * nat)) (acc : circuit) : Prop := {
  fi_len : length out = length acc;
  fi_num : forall x j, lookup num x = Some j -> j < length acc /\ nth j out 0 = x;
  fi_valid : forall j, j < length acc -> nth j out 0 < length C;
  fi_node : forall j, j < length acc ->
            node_renum out j (nth j acc FalseN) (norm (nth (nth j out 0) C FalseN));
}.

Lemma norm_renum out j t neighs nd :
  t = tid_of nd ->
  Forall2 (child_rel out j) neighs (rev (children nd)) ->
  node_renum out j (flat_node t neighs) (norm nd).
Proof.
  intros -> HF. destruct nd as [l|[|c cs]|[|c cs]| |]; cbn [tid_of flat_node norm node_renum]; auto.
Qed.

Lemma flat_node_renum (C : circuit) out num acc nx neighs :
  idx_ok C = true -> nx < length C -> FInv C out num acc ->
  map_opt (lookup ((nx, length acc) :: num)) (neighbors (map gnode_of C) nx) = Some neighs ->
  node_renum (out ++ [nx]) (length acc)
    (flat_node (label (map gnode_of C) nx) neighs) (norm (nth nx C FalseN)).
Proof.
  intros Hok Hnx HI Hm. rewrite neighbors_graph in Hm.
  apply map_opt_Forall2, Forall2_flip in Hm.
  apply norm_renum; [apply label_graph|].
  eapply Forall2_In_impl; [|exact Hm].
  cbn beta. intros c' c _ Hc Hl. cbn [lookup] in Hl. apply in_rev in Hc.
  pose proof (idx_ok_nth C nx FalseN Hok Hnx c Hc) as Hlt.
  destruct (Nat.eqb_spec nx c) as [E|E]; [lia|].
  destruct (fi_num _ _ _ _ HI c c' Hl) as [H1 H2]. split; [exact H1|].
  rewrite app_nth1 by (rewrite (fi_len _ _ _ _ HI); exact H1). exact H2.
Qed.

Lemma flatten_inv (C : circuit) : idx_ok C = true ->
  forall order out num acc C',
  FInv C out num acc -> Forall (fun x => x < length C) order ->
  flatten (map gnode_of C) order num acc = Some C' ->
  exists num', FInv C (out ++ order) num' C'.
Proof.
  intros Hok. induction order as [|nx r IH]; intros out num acc C' HI Hv H; cbn [flatten] in H.
  - injection H as <-. exists num. now rewrite app_nil_r.
  - destruct (map_opt _ _) as [neighs|] eqn:Hm; [|discriminate].
    inversion Hv as [|? ? Hnx Hr]; subst.
    replace (out ++ nx :: r) with ((out ++ [nx]) ++ r) by now rewrite <- app_assoc.
    refine (IH _ _ _ _ _ Hr H). clear IH H.
    pose proof (fi_len _ _ _ _ HI) as HL.
    constructor.
    + rewrite !app_length. cbn. lia.
    + intros x j Hl. cbn [lookup] in Hl. rewrite app_length. cbn [length].
      destruct (Nat.eqb_spec nx x) as [E|E].
      * injection Hl as <-. subst x. split; [lia|]. rewrite <- HL. apply nth_middle.
      * destruct (fi_num _ _ _ _ HI x j Hl) as [H1 H2]. split; [lia|].
        rewrite app_nth1 by lia. exact H2.
    + intros j Hj. rewrite app_length in Hj. cbn [length] in Hj.
      destruct (Nat.eq_dec j (length acc)) as [->|Hne].
      * rewrite <- HL, nth_middle. exact Hnx.
      * rewrite app_nth1 by lia. apply (fi_valid _ _ _ _ HI). lia.
    + intros j Hj. rewrite app_length in Hj. cbn [length] in Hj.
      destruct (Nat.eq_dec j (length acc)) as [->|Hne].
      * rewrite nth_middle. rewrite <- HL at 2. rewrite nth_middle.
        now apply (flat_node_renum C out num acc nx neighs).
      * rewrite !app_nth1 by lia. apply node_renum_ext; [lia|].
        apply (fi_node _ _ _ _ HI). lia.
Qed.

(* ---------- the loader as a whole ---------- *)
Lemma nth_map_norm (C : circuit) x : nth x (map norm C) FalseN = norm (nth x C FalseN).
Proof. change FalseN with (norm FalseN) at 1. apply map_nth. Qed.

Theorem load_body_renum (C C' : circuit) :
  load_c2d_body (map token_of C) = Some C' ->
  idx_ok C = true /\ exists out, Renum (map norm C) C' out.
Proof.
  unfold load_c2d_body. rewrite build_graph_spec. cbn [length app].
  fold (idx_ok C). destruct (idx_ok C) eqn:Hok; [|discriminate].
  destruct C as [|nd0 C0] eqn:EC; [discriminate|]. rewrite <- EC in *.
  assert (Hne : map gnode_of C <> []) by (rewrite EC; discriminate).
  destruct (map gnode_of C) as [|g0 g] eqn:Eg; [congruence|]. rewrite <- Eg. clear Hne.
  assert (Hlen : length (map gnode_of C) = length C) by apply map_length.
  rewrite Hlen.
  destruct (dfs_post_order _ _) as [order|] eqn:Hd; [|discriminate].
  intros Hf. split; [reflexivity|].
  unfold dfs_post_order in Hd.
  assert (Hroot : length C - 1 < length C) by (rewrite EC; cbn; lia).
  assert (HI0 : DInv (length C - 1) [length C - 1] [] [] []).
  { right. exists []. split; [reflexivity|]. split; [intros []|]. split; [reflexivity|now right]. }
  destruct (dfs_loop_last _ (length C - 1) _ _ _ _ _ _ HI0 Hd) as [pre Hpre].
  assert (Hvalid : Forall (fun x => x < length C) order).
  { refine (dfs_loop_valid _ (length C) (neighbors_valid C Hok) _ _ _ _ _ _ _ _ Hd).
    - constructor; [exact Hroot|constructor].
    - constructor. }
  destruct (flatten_inv C Hok order [] [] [] C') as [num' HI]; [| exact Hvalid | exact Hf |].
  { constructor; cbn; intros; try lia; discriminate. }
  cbn [app] in HI. exists order.
  pose proof (fi_len _ _ _ _ HI) as HL.
  constructor.
  - exact HL.
  - intros ->. rewrite Hpre, app_length in HL. cbn in HL. lia.
  - intros j Hj. rewrite map_length. now apply (fi_valid _ _ _ _ HI).
  - intros j Hj. rewrite nth_map_norm. now apply (fi_node _ _ _ _ HI).
  - rewrite map_length, <- HL, Hpre, app_length. cbn [length].
    replace (length pre + 1 - 1) with (length pre) by lia. apply nth_middle.
Qed.

Theorem load_tokens_n (C C' : circuit) (n n' : nat) :
  (N.of_nat n < two32)%N -> load_c2d (tokens_of C n) = Some (C', n') -> n' = n.
Proof.
  intros Hn. unfold load_c2d, tokens_of. destruct (load_c2d_body _); [|discriminate].
  cbn. intros H. injection H as _ <-. rewrite N.mod_small by exact Hn. apply Nat2N.id.
Qed.

Theorem load_tokens_renum (C C' : circuit) (n n' : nat) :
  load_c2d (tokens_of C n) = Some (C', n') ->
  idx_ok C = true /\ exists out, Renum (map norm C) C' out.
Proof.
  unfold load_c2d, tokens_of. destruct (load_c2d_body _) as [C0|] eqn:E; [|discriminate].
  cbn. intros H. injection H as <- _. now apply load_body_renum.
Qed.

Theorem reload_sem (C C' : circuit) (n n' : nat) :
  load_c2d (tokens_of C n) = Some (C', n') ->
  forall s, eval_root s C' = eval_root s C.
Proof.
  intros H s. destruct (load_tokens_renum _ _ _ _ H) as [Hok [out HR]].
  rewrite (renum_eval_root _ _ _ HR); [apply eval_root_norm|].
  unfold idx_ok. now rewrite idx_ok_from_norm.
Qed.

Theorem reload_wf (C C' : circuit) (n n' : nat) :
  WF C n -> load_c2d (tokens_of C n) = Some (C', n') -> WF C' n.
Proof.
  intros HW H. destruct (load_tokens_renum _ _ _ _ H) as [Hok [out HR]].
  apply (renum_WF _ _ _ HR); [|now apply WF_norm].
  unfold idx_ok. now rewrite idx_ok_from_norm.
Qed.

(* ---------- from the written text ---------- *)
Lemma load_lines_tokens (C : circuit) (n : nat) :
  file_in_range C n -> load_c2d_lines (write_c2d C n) = load_c2d (tokens_of C n).
Proof. intros H. unfold load_c2d_lines. now rewrite lex_lines_write. Qed.

Theorem file_is_circuit (C : circuit) (n : nat) :
  file_in_range C n ->
  lex_lines (write_c2d C n) = Some (tokens_of C n) /\
  read_c2d (tokens_of C n) = Some (map norm C, n).
Proof. intros H. split; [now apply lex_lines_write|apply read_c2d_tokens]. Qed.

Definition nonempty_gates (C : circuit) : bool :=
  forallb (fun nd => match nd with And [] | Or [] => false | _ => true end) C.

Lemma norm_id (C : circuit) : nonempty_gates C = true -> map norm C = C.
Proof.
  intros H. rewrite <- (map_id C) at 2. apply map_ext_in. intros nd Hnd.
  unfold nonempty_gates in H. rewrite forallb_forall in H. specialize (H nd Hnd).
  destruct nd as [l|[|c cs]|[|c cs]| |]; try reflexivity; discriminate.
Qed.

Lemma root_count_norm C : root_count (map norm C) = root_count C.
Proof. unfold root_count. now rewrite counts_norm. Qed.

Theorem file_wf (C : circuit) (n : nat) :
  WF C n ->
  WF (map norm C) n /\
  (forall s, eval_root s (map norm C) = eval_root s C) /\
  root_count (map norm C) = root_count C /\
  (nonempty_gates C = true -> map norm C = C).
Proof.
  intros H. split; [now apply WF_norm|]. split; [intros s; apply eval_root_norm|].
  split; [apply root_count_norm|apply norm_id].
Qed.

Theorem reload_lines_sem (C C' : circuit) (n n' : nat) :
  file_in_range C n -> (N.of_nat n < two32)%N ->
  load_c2d_lines (write_c2d C n) = Some (C', n') ->
  n' = n /\ forall s, eval_root s C' = eval_root s C.
Proof.
  intros Hr Hn H. rewrite (load_lines_tokens _ _ Hr) in H. split.
  - exact (load_tokens_n _ _ _ _ Hn H).
  - exact (reload_sem _ _ _ _ H).
Qed.

Theorem reload_lines_wf (C C' : circuit) (n n' : nat) :
  file_in_range C n -> WF C n ->
  load_c2d_lines (write_c2d C n) = Some (C', n') -> WF C' n.
Proof. intros Hr HW H. rewrite (load_lines_tokens _ _ Hr) in H. exact (reload_wf _ _ _ _ HW H). Qed.

Theorem reload_lines_count (C C' : circuit) (n n' : nat) :
  file_in_range C n -> WF C n ->
  load_c2d_lines (write_c2d C n) = Some (C', n') -> root_count C' = root_count C.
Proof.
  intros Hr HW H. apply (same_function_same_count C' C n).
  - exact (reload_lines_wf _ _ _ _ Hr HW H).
  - exact HW.
  - rewrite (load_lines_tokens _ _ Hr) in H. exact (reload_sem _ _ _ _ H).
Qed.

(* the truth table, hence every specification-level answer (MC, MCA, model sets under
   assumptions: count, SAT, core/dead, enumeration set, atomic sets are functions of it) *)
Theorem reload_lines_models (C C' : circuit) (n n' : nat) :
  file_in_range C n ->
  load_c2d_lines (write_c2d C n) = Some (C', n') ->
  Models C' n = Models C n /\
  (forall A, ModelsA C' n A = ModelsA C n A) /\ (forall A, MCA C' n A = MCA C n A).
Proof.
  intros Hr H. rewrite (load_lines_tokens _ _ Hr) in H.
  assert (HM : Models C' n = Models C n).
  { unfold Models. apply filter_ext. intros m. exact (reload_sem _ _ _ _ H _). }
  split; [exact HM|]. split; intros A; unfold MCA, ModelsA; now rewrite HM.
Qed.
