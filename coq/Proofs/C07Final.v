(* C07: the hypothesis exec_ok of the sampling theorems discharged with the C02 development
   (Proofs/ExecTemps.v), and the sampling theorems restated without it.
   exec_ok as defined in C07Urs.v asks for the temps also when no model contains A; that part is
   false when the query is answered by the "unsatisfiable" core shortcut (exec_ok_unsat_refuted), and
   it is not used: it holds whenever 0 < MCA, and only the returned count is needed otherwise. *)
From Coq Require Import List ZArith Bool Lia Permutation.
From DD Require Import Model.Circuit Model.Query Model.Enumerate
     Proofs.PassLemmas Proofs.Enum Proofs.Semantics Proofs.CountsA Proofs.QueryDefs
     Proofs.C07Defs Proofs.C07Valid Proofs.C07Urs Proofs.ExecTemps.
Import ListNotations.
Open Scope Z_scope.

Theorem exec_ok_holds C n A s :
  WFQ C n -> in_range n A -> Clean C s -> 0 < MCA C n A -> exec_ok C n A s.
Proof.
  intros HQ HA Hcl Hpos s1 Hpre.
  destruct (preprocess_execute C n HQ A A s s1 HA (fun l => iff_refl _) Hcl Hpre) as [H1 [_ H3]].
  split; [exact H1|]. apply H3. now rewrite H1.
Qed.

(* the count alone, for every list of non-zero literals that preprocess accepts *)
Lemma preprocess_in_range C n A s s1 :
  (forall l, In l A -> l <> 0) -> preprocess (build C n) A s = Some s1 -> in_range n A.
Proof.
  intros Hnz Hpre l Hl.
  destruct (preprocess_spec C n A s s1 Hpre) as [_ [_ [_ [_ [_ Hr]]]]].
  specialize (Hr l Hl). specialize (Hnz l Hl). lia.
Qed.

Theorem exec_count_holds C n A s s1 :
  WFQ C n -> (forall l, In l A -> l <> 0) -> Clean C s ->
  preprocess (build C n) A s = Some s1 ->
  snd (execute_query (build C n) A s1) = MCA C n A /\
  Clean C (fst (execute_query (build C n) A s1)).
Proof.
  intros HQ Hnz Hcl Hpre.
  pose proof (preprocess_in_range C n A s s1 Hnz Hpre) as HA.
  destruct (preprocess_execute C n HQ A A s s1 HA (fun l => iff_refl _) Hcl Hpre) as [H1 [H2 _]].
  split; assumption.
Qed.

(* None iff unsatisfiable under A or a literal is out of range *)
Theorem uniform_random_sampling_none_final C n A s amount chs :
  WFQ C n -> (forall l, In l A -> l <> 0) -> Clean C s ->
  (snd (fst (uniform_random_sampling (build C n) A amount chs s)) = None <->
   MCA C n A = 0 \/ out_of_range n A).
Proof.
  intros HQ Hnz Hcl.
  unfold uniform_random_sampling. pose proof (preprocess_none C n A s) as Hpre.
  destruct (preprocess (build C n) A s) as [s1|] eqn:Ep.
  - destruct (exec_count_holds C n A s s1 HQ Hnz Hcl Ep) as [Hr _].
    destruct (execute_query (build C n) A s1) as [s2 r]. cbn [snd] in Hr. subst r.
    assert (Hnn : 0 <= MCA C n A) by (unfold MCA; lia).
    destruct (0 <? MCA C n A) eqn:Epos.
    + apply Z.ltb_lt in Epos.
      destruct (sample_node (build C n) (temps s2) (length (circ (build C n))) amount
                            (rootn (build C n)) chs) as [[l rest] ok].
      cbn [fst snd]. split; [discriminate|]. intros [H|H]; [lia|]. apply Hpre in H. discriminate.
    + apply Z.ltb_ge in Epos. cbn [fst snd]. split; [intros _; left; lia|reflexivity].
  - cbn [fst snd]. split; [intros _; right; now apply Hpre|reflexivity].
Qed.

Theorem uniform_random_sampling_valid_final C n A s :
  WFQ C n -> (0 < n)%nat -> in_range n A -> Clean C s ->
  forall amount chs, 0 <= amount -> 0 < MCA C n A ->
  urs_choices_okb (build C n) A amount chs s = true ->
  exists L, snd (fst (uniform_random_sampling (build C n) A amount chs s)) = Some L /\
            length L = Z.to_nat amount /\
            Forall (fun m => In m (ModelsA C n A)) L.
Proof.
  intros HQ Hn HA Hcl amount chs Hamt Hsat Hch.
  pose proof (wfq_wf C n HQ) as HWF.
  exact (uniform_random_sampling_valid C n A s HWF (exec_ok_holds C n A s HQ HA Hcl Hsat) HA
           (root_not_true C n HWF Hn) amount chs Hamt Hsat Hch).
Qed.

(* the sampling call keeps the scratch Clean *)
Theorem uniform_random_sampling_clean C n A s amount chs :
  WFQ C n -> (forall l, In l A -> l <> 0) -> Clean C s ->
  Clean C (fst (fst (uniform_random_sampling (build C n) A amount chs s))).
Proof.
  intros HQ Hnz Hcl. unfold uniform_random_sampling.
  destruct (preprocess (build C n) A s) as [s1|] eqn:Ep; [|exact Hcl].
  destruct (exec_count_holds C n A s s1 HQ Hnz Hcl Ep) as [_ Hc].
  destruct (execute_query (build C n) A s1) as [s2 r]. cbn [fst] in Hc.
  destruct (0 <? r); [|exact Hc].
  destruct (sample_node (build C n) (temps s2) (length (circ (build C n))) amount
                        (rootn (build C n)) chs) as [[l rest] ok]. exact Hc.
Qed.

(* exec_ok itself fails when the core shortcut answers 0: feature 1 is a core literal of
   1 & (2 <-> 3) (plus a true node), the assumption -1 is answered 0 without recomputing, and the
   root keeps its cached count 2 although its count under [-1] is 0 *)
Definition ex_core7 : circuit :=
  [Lit 1; Lit 2; Lit (-2); Lit 3; Lit (-3); And [1;3]%nat; And [2;4]%nat; Or [5;6]%nat; TrueN;
   And [0;8;7]%nat].
Example exec_ok_unsat_refuted :
  check_wf ex_core7 3 = true /\ MCA ex_core7 3 [-1] = 0 /\
  exists s1, preprocess (build ex_core7 3) [-1] (fresh_scratch ex_core7) = Some s1 /\
    nth 9 (temps (fst (execute_query (build ex_core7 3) [-1] s1))) 0 = 2 /\
    nth 9 (countsA [-1] ex_core7) 0 = 0.
Proof.
  split; [vm_compute; reflexivity|]. split; [vm_compute; reflexivity|].
  eexists. split; [vm_compute; reflexivity|]. split; vm_compute; reflexivity.
Qed.
