(* C13: the answer does not depend on the order in which two well-formed keyword groups are given.
   All statements are about the FIXED model Model/StreamMsg.v (version V1) and the suffix form of the
   keyword loop of Proofs/StreamMsgDefs.v.  The link kw_loop = kw_loop_s (proved in
   Proofs/StreamMsgParse.v) is a Section hypothesis of the last theorem. *)
From Coq Require Import List ZArith Bool String Ascii Lia Permutation.
From DD Require Import Model.Circuit Model.Query Model.Enumerate Model.StreamMsg Proofs.StreamMsgDefs.
Import ListNotations. Open Scope Z_scope.

(* ------------------------------------------------------------------ (1) get_numbers stops *)
Lemma gn_loop_stop_app : forall dbg b vals r nums cnt l c,
  Forall no_alpha vals -> stops r ->
  gn_loop V1 dbg b vals nums cnt = ROk (l, c) ->
  gn_loop V1 dbg b (vals ++ r) nums cnt = ROk (l, c).
Proof.
  intros dbg b vals r. induction vals as [|p ps IH]; intros nums cnt l c Hna Hst H.
  - cbn [app]. destruct r as [|t r'].
    + exact H.
    + cbn [stops] in Hst. cbn [gn_loop] in *. rewrite Hst.
      destruct nums as [|z zs]; [discriminate|]. exact H.
  - inversion Hna as [|? ? Hp Hps]; subst. unfold no_alpha in Hp.
    cbn [gn_loop app] in *. rewrite Hp in *.
    destruct (parse_range b p) as [l0|e]; [|discriminate].
    apply IH; auto.
Qed.

Theorem gn_stop_app : forall dbg b vals r l,
  Forall no_alpha vals -> stops r ->
  get_numbers V1 dbg vals b = ROk (l, length vals) ->
  get_numbers V1 dbg (vals ++ r) b = ROk (l, length vals).
Proof.
  intros dbg b vals r l Hna Hst H. unfold get_numbers in *.
  apply gn_loop_stop_app; assumption.
Qed.

(* ------------------------------------------------------------------ (2) fuel irrelevance *)
Lemma clause_loop_s_len : forall ver dbg tf is_add split rest acc rest' acc',
  clause_loop_s ver dbg tf is_add split rest acc = ROk (rest', acc') ->
  (length rest' <= length rest)%nat.
Proof.
  intros ver dbg tf is_add split.
  induction split as [|s more IH]; intros rest acc rest' acc' H.
  - cbn [clause_loop_s] in H. inversion H; subst; lia.
  - cbn [clause_loop_s] in H.
    destruct (get_numbers ver dbg s tf) as [[nums len]|c t|p]; cbn [rbind] in H; try discriminate.
    apply IH in H.
    assert (Hs : (length (skipn len rest) <= length rest)%nat) by (rewrite skipn_length; lia).
    destruct (skipn len rest) as [|z r1] eqn:E.
    + cbn [length] in *. lia.
    + destruct (is_zero_tok z); cbn [length] in *; lia.
Qed.

Theorem kw_loop_s_fuel : forall ver dbg tf f1 f2 rest acc,
  (length rest < f1)%nat -> (length rest < f2)%nat ->
  kw_loop_s ver dbg tf f1 rest acc = kw_loop_s ver dbg tf f2 rest acc.
Proof.
  intros ver dbg tf f1. induction f1 as [|f1 IH]; intros f2 rest acc H1 H2; [lia|].
  destruct f2 as [|f2]; [lia|].
  destruct rest as [|kw sl]; [reflexivity|].
  cbn [length] in H1, H2.
  assert (Hsk : forall len, (length (skipn len sl) <= length sl)%nat)
    by (intro len; rewrite skipn_length; lia).
  cbn [kw_loop_s].
  destruct (kw_in kw "a" "assumptions").
  { destruct (get_numbers ver dbg sl tf) as [[nums len]|c t|p]; cbn [rbind]; try reflexivity.
    apply IH; specialize (Hsk len); lia. }
  destruct (kw_in kw "v" "variables").
  { destruct (get_numbers ver dbg sl tf) as [[nums len]|c t|p]; cbn [rbind]; try reflexivity.
    apply IH; specialize (Hsk len); lia. }
  destruct (kw_in kw "f" "fitness").
  { destruct (get_floats sl) as [[fl len]|c t|p]; cbn [rbind]; try reflexivity.
    apply IH; specialize (Hsk len); lia. }
  destruct (kw_in kw "seed" "s" || kw_in kw "limit" "l" || kw_in kw "path" "p").
  { destruct sl as [|val sl']; [reflexivity|]. cbn [length] in H1, H2.
    destruct (kw_in kw "seed" "s").
    { destruct (parse_unsigned u64_max val); [|reflexivity]. apply IH; lia. }
    destruct (kw_in kw "limit" "l").
    { destruct (parse_unsigned u64_max val); [|reflexivity]. apply IH; lia. }
    apply IH; lia. }
  destruct (kw_in kw "add" "rmv"); [|reflexivity].
  destruct (split_clauses sl) as [split|c t|p]; cbn [rbind]; try reflexivity.
  destruct (clause_loop_s ver dbg tf (String.eqb kw "add") split sl acc)
    as [[rest' acc']|c t|p] eqn:E; cbn [rbind]; try reflexivity.
  apply clause_loop_s_len in E. apply IH; lia.
Qed.

(* ------------------------------------------------------------------ (3) one keyword group *)
Lemma kw_in_cases : forall kw a b, kw_in kw a b = true -> kw = a \/ kw = b.
Proof.
  intros kw a b H. unfold kw_in in H. apply orb_true_iff in H.
  destruct H as [H|H]; apply String.eqb_eq in H; auto.
Qed.

(* the keyword tests are mutually exclusive, and every keyword contains a letter *)
Lemma kw_class_tests : forall kw c, kw_class kw = Some c ->
  kw_in kw "a" "assumptions" = match c with GA => true | _ => false end /\
  kw_in kw "v" "variables" = match c with GV => true | _ => false end /\
  kw_in kw "f" "fitness" = false /\
  kw_in kw "seed" "s" = match c with GSeed => true | _ => false end /\
  kw_in kw "limit" "l" = match c with GLimit => true | _ => false end /\
  kw_in kw "path" "p" = match c with GPath => true | _ => false end /\
  sany is_alpha kw = true.
Proof.
  intros kw c H. unfold kw_class in H.
  repeat match type of H with
  | (if ?b then _ else _) = _ =>
    let E := fresh "E" in
    destruct b eqn:E;
    [ apply kw_in_cases in E; destruct E as [E|E]; subst kw; inversion H; subst c;
      repeat split; reflexivity | ]
  end.
  discriminate.
Qed.

Lemma kw_class_alpha : forall kw c, kw_class kw = Some c -> sany is_alpha kw = true.
Proof. intros kw c H. apply (kw_class_tests kw c H). Qed.

Definition apply_group (c : gclass) (acc : parsed) (l : cfg) (x : Z) (v : string) : parsed :=
  match c with
  | GA => set_params acc l
  | GV => set_values acc l
  | GSeed => set_seed acc x
  | GLimit => set_limit acc x
  | GPath => set_path acc v
  end.

(* the value carried by a group: the number list (GA, GV), the number (GSeed, GLimit), the text (GPath) *)
Definition group_val (dbg : bool) (tf : Z) (c : gclass) (g : list string)
           (l : cfg) (x : Z) (v : string) : Prop :=
  match g with
  | kw :: vals =>
    match c with
    | GA | GV => get_numbers V1 dbg vals tf = ROk (l, length vals)
    | GSeed | GLimit => vals = [v] /\ parse_unsigned u64_max v = inl x
    | GPath => vals = [v]
    end
  | [] => False
  end.

(* only a number list needs to be told where it ends *)
Definition gstops (c : gclass) (r : list string) : Prop :=
  match c with GA | GV => stops r | _ => True end.

Lemma stops_gstops : forall c r, stops r -> gstops c r.
Proof. intros c r H. destruct c; cbn [gstops]; auto. Qed.

Lemma group_ok_val : forall dbg tf c g, group_ok dbg tf c g ->
  exists l x v, group_val dbg tf c g l x v.
Proof.
  intros dbg tf c g H. destruct g as [|kw vals]; [contradiction|].
  unfold group_ok in H. destruct H as [Hk H].
  destruct c; cbn [group_val].
  - destruct H as [_ [l Hl]]. exists l, 0, EmptyString. exact Hl.
  - destruct H as [_ [l Hl]]. exists l, 0, EmptyString. exact Hl.
  - destruct H as (v & x & Hv & Hp). exists [], x, v. auto.
  - destruct H as (v & x & Hv & Hp). exists [], x, v. auto.
  - destruct H as [v Hv]. exists [], 0, v. exact Hv.
Qed.

Lemma skipn_length_app : forall (A : Type) (a b : list A), skipn (length a) (a ++ b) = b.
Proof. intros A a b. induction a as [|x a IH]; cbn [length app skipn]; auto. Qed.

Theorem group_step_gen : forall dbg tf c g l x v r fuel fuel' acc,
  group_ok dbg tf c g -> group_val dbg tf c g l x v -> gstops c r ->
  (length (g ++ r) < fuel)%nat -> (length r < fuel')%nat ->
  kw_loop_s V1 dbg tf fuel (g ++ r) acc = kw_loop_s V1 dbg tf fuel' r (apply_group c acc l x v).
Proof.
  intros dbg tf c g l x v r fuel fuel' acc Hg Hv Hs Hf Hf'.
  destruct g as [|kw vals]; [contradiction|].
  unfold group_ok in Hg. destruct Hg as [Hk Hg]. cbn [group_val] in Hv.
  destruct (kw_class_tests _ _ Hk) as (Ta & Tv & Tf & Ts & Tl & Tp & _).
  destruct fuel as [|f]; [lia|].
  change ((kw :: vals) ++ r) with (kw :: (vals ++ r)) in *.
  cbn [length] in Hf. rewrite app_length in Hf.
  cbn [kw_loop_s].
  destruct c; cbn [apply_group gstops] in *;
    rewrite ?Ta, ?Tv, ?Tf, ?Ts, ?Tl, ?Tp; cbn [orb].
  - destruct Hg as [Hna _].
    rewrite (gn_stop_app dbg tf vals r l Hna Hs Hv). cbn [rbind].
    rewrite skipn_length_app. apply kw_loop_s_fuel; lia.
  - destruct Hg as [Hna _].
    rewrite (gn_stop_app dbg tf vals r l Hna Hs Hv). cbn [rbind].
    rewrite skipn_length_app. apply kw_loop_s_fuel; lia.
  - destruct Hv as [-> Hp]. cbn [app length] in *. rewrite Hp. apply kw_loop_s_fuel; lia.
  - destruct Hv as [-> Hp]. cbn [app length] in *. rewrite Hp. apply kw_loop_s_fuel; lia.
  - subst vals. cbn [app length] in *. apply kw_loop_s_fuel; lia.
Qed.

Theorem group_step : forall dbg tf c g l x v r fuel fuel' acc,
  group_ok dbg tf c g -> group_val dbg tf c g l x v -> stops r ->
  (length (g ++ r) < fuel)%nat -> (length r < fuel')%nat ->
  kw_loop_s V1 dbg tf fuel (g ++ r) acc = kw_loop_s V1 dbg tf fuel' r (apply_group c acc l x v).
Proof.
  intros dbg tf c g l x v r fuel fuel' acc Hg Hv Hs Hf Hf'.
  apply group_step_gen; auto using stops_gstops.
Qed.

(* ------------------------------------------------------------------ (4) two groups commute *)
Lemma stops_group : forall dbg tf c g r, group_ok dbg tf c g -> stops (g ++ r).
Proof.
  intros dbg tf c g r H. destruct g as [|kw vals]; [contradiction|].
  unfold group_ok in H. destruct H as [Hk _]. cbn [app stops].
  exact (kw_class_alpha kw c Hk).
Qed.

Lemma apply_group_comm : forall c1 c2 acc l1 x1 v1 l2 x2 v2, c1 <> c2 ->
  apply_group c2 (apply_group c1 acc l1 x1 v1) l2 x2 v2 =
  apply_group c1 (apply_group c2 acc l2 x2 v2) l1 x1 v1.
Proof.
  intros c1 c2 acc l1 x1 v1 l2 x2 v2 Hne.
  destruct c1, c2; try (exfalso; apply Hne; reflexivity); reflexivity.
Qed.

Theorem param_order_suffix : forall dbg tf fuel c1 g1 c2 g2 r acc,
  c1 <> c2 -> group_ok dbg tf c1 g1 -> group_ok dbg tf c2 g2 -> stops r ->
  (length (g1 ++ g2 ++ r) < fuel)%nat ->
  kw_loop_s V1 dbg tf fuel (g1 ++ g2 ++ r) acc = kw_loop_s V1 dbg tf fuel (g2 ++ g1 ++ r) acc.
Proof.
  intros dbg tf fuel c1 g1 c2 g2 r acc Hne H1 H2 Hs Hf.
  destruct (group_ok_val _ _ _ _ H1) as (l1 & x1 & v1 & Hv1).
  destruct (group_ok_val _ _ _ _ H2) as (l2 & x2 & v2 & Hv2).
  assert (S1 : stops (g1 ++ r)) by (eapply stops_group; eauto).
  assert (S2 : stops (g2 ++ r)) by (eapply stops_group; eauto).
  assert (Hf2 : (length (g2 ++ g1 ++ r) < fuel)%nat) by (rewrite !app_length in *; lia).
  rewrite (group_step dbg tf c1 g1 l1 x1 v1 (g2 ++ r) fuel (S (length (g2 ++ r))) acc
             H1 Hv1 S2 Hf (Nat.lt_succ_diag_r _)).
  rewrite (group_step dbg tf c2 g2 l2 x2 v2 r (S (length (g2 ++ r))) (S (length r)) _
             H2 Hv2 Hs (Nat.lt_succ_diag_r _) (Nat.lt_succ_diag_r _)).
  rewrite (group_step dbg tf c2 g2 l2 x2 v2 (g1 ++ r) fuel (S (length (g1 ++ r))) acc
             H2 Hv2 S1 Hf2 (Nat.lt_succ_diag_r _)).
  rewrite (group_step dbg tf c1 g1 l1 x1 v1 r (S (length (g1 ++ r))) (S (length r)) _
             H1 Hv1 Hs (Nat.lt_succ_diag_r _) (Nat.lt_succ_diag_r _)).
  rewrite (apply_group_comm c1 c2 acc l1 x1 v1 l2 x2 v2 Hne). reflexivity.
Qed.

(* ------------------------------------------------------------------ (5) the whole argument vector *)
Lemma smem_In : forall w l, smem w l = true <-> In w l.
Proof.
  intros w l. unfold smem. rewrite existsb_exists. split.
  - intros [x [Hi He]]. apply String.eqb_eq in He. subst; auto.
  - intro Hi. exists w. split; auto. apply String.eqb_refl.
Qed.

Lemma dup_scan_None : forall ws seen,
  dup_scan ws seen = None <->
  NoDup (filter is_text_word ws) /\ (forall w, In w (filter is_text_word ws) -> ~ In w seen).
Proof.
  induction ws as [|w r IH]; intro seen; cbn [dup_scan filter].
  - split; [intros _; split; [constructor | intros ? []] | reflexivity].
  - destruct (is_text_word w) eqn:Et.
    + destruct (smem w seen) eqn:Es.
      * split; [discriminate|]. intros [_ H]. exfalso.
        apply (H w); [left; reflexivity | apply smem_In; exact Es].
      * assert (Hn : ~ In w seen) by (intro Hi; apply smem_In in Hi; congruence).
        rewrite IH. split.
        -- intros [Hnd H]. split.
           ++ constructor; auto. intro Hi. apply (H w Hi). left; reflexivity.
           ++ intros y [<-|Hy]; auto. intro Hys. apply (H y Hy). right; exact Hys.
        -- intros [Hnd H]. inversion Hnd as [|? ? Hni Hnd']; subst. split; auto.
           intros y Hy [<-|Hys]; [exact (Hni Hy)|]. apply (H y); [right; exact Hy | exact Hys].
    + apply IH.
Qed.

Lemma position_None : forall (A : Type) (p : A -> bool) (l : list A),
  position p l = None <-> (forall x, In x l -> p x = false).
Proof.
  intros A p l. induction l as [|a l IH]; cbn [position].
  - split; [intros _ x []| reflexivity].
  - destruct (p a) eqn:E.
    + split; [discriminate|]. intro H. rewrite (H a (or_introl eq_refl)) in E. discriminate.
    + split.
      * intro H. destruct (position p l); [discriminate|].
        intros y [<-|Hy]; auto. apply (proj1 IH eq_refl); exact Hy.
      * intro H. assert (Hp : position p l = None)
          by (apply IH; intros y Hy; apply H; right; exact Hy).
        rewrite Hp. reflexivity.
Qed.

Lemma perm_filter : forall (A : Type) (f : A -> bool) (l l' : list A),
  Permutation l l' -> Permutation (filter f l) (filter f l').
Proof.
  intros A f l l' H. induction H; cbn [filter].
  - constructor.
  - destruct (f x); auto.
  - destruct (f x), (f y); try apply perm_swap; apply Permutation_refl.
  - eapply perm_trans; eauto.
Qed.

Lemma position_perm : forall (A : Type) (p : A -> bool) (l l' : list A),
  Permutation l l' -> position p l = None -> position p l' = None.
Proof.
  intros A p l l' HP H. apply position_None. intros y Hy.
  apply (proj1 (position_None A p l) H). eapply Permutation_in; [apply Permutation_sym; exact HP | exact Hy].
Qed.

Lemma dup_scan_perm : forall l l',
  Permutation l l' -> dup_scan l [] = None -> dup_scan l' [] = None.
Proof.
  intros l l' HP H. apply dup_scan_None. apply dup_scan_None in H. destruct H as [Hnd _].
  split; [| intros ? _ []].
  eapply Permutation_NoDup; [|exact Hnd]. apply perm_filter. exact HP.
Qed.

Section Args.
Hypothesis kw_loop_suffix : forall ver dbg tf fuel args i acc, (i <= length args)%nat ->
  kw_loop ver dbg tf fuel args i acc = kw_loop_s ver dbg tf fuel (skipn i args) acc.

Theorem param_order_args : forall dbg n conf cmd c1 g1 c2 g2 r,
  c1 <> c2 -> group_ok dbg n c1 g1 -> group_ok dbg n c2 g2 -> stops r ->
  position is_t (cmd :: g1 ++ g2 ++ r) = None ->
  dup_scan (cmd :: g1 ++ g2 ++ r) [] = None ->
  parse_args V1 dbg n conf (cmd :: g1 ++ g2 ++ r) = parse_args V1 dbg n conf (cmd :: g2 ++ g1 ++ r).
Proof.
  intros dbg n conf cmd c1 g1 c2 g2 r Hne H1 H2 Hs Hpos Hdup.
  assert (HP : Permutation (cmd :: g1 ++ g2 ++ r) (cmd :: g2 ++ g1 ++ r))
    by (constructor; apply Permutation_app_swap_app).
  assert (Hpos' : position is_t (cmd :: g2 ++ g1 ++ r) = None)
    by (eapply position_perm; eauto).
  assert (Hdup' : dup_scan (cmd :: g2 ++ g1 ++ r) [] = None)
    by (eapply dup_scan_perm; eauto).
  assert (Hlen : length (cmd :: g2 ++ g1 ++ r) = length (cmd :: g1 ++ g2 ++ r))
    by (cbn [length]; rewrite !app_length; lia).
  unfold parse_args. rewrite Hdup, Hdup'. unfold t_prepass. rewrite Hpos, Hpos'. cbn [rbind].
  rewrite !kw_loop_suffix by (cbn [length]; lia).
  cbn [skipn]. rewrite Hlen.
  rewrite (param_order_suffix dbg n _ c1 g1 c2 g2 r p_init Hne H1 H2 Hs).
  - reflexivity.
  - cbn [length]. lia.
Qed.
End Args.

Print Assumptions gn_stop_app.
Print Assumptions kw_loop_s_fuel.
Print Assumptions group_step.
Print Assumptions param_order_suffix.
Print Assumptions param_order_args.
