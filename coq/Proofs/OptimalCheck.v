(* C20: the executable result checkers is_best / is_topk (evaluated by the correspondence on every
   answer of the implementation) decide exactly the specification. *)
From Coq Require Import List ZArith Bool Lia Permutation.
From DD Require Import Model.Circuit Model.Optimal Proofs.Enum Proofs.Semantics Proofs.TopK
  Proofs.OptimalBridge Proofs.OptimalOr Proofs.OptimalTuples Proofs.OptimalAnd Proofs.OptimalTopk.
Import ListNotations.
Open Scope Z_scope.

(* ---------- specifications ---------- *)

Definition BestSpec (vals : list Z) (M : list cfg) (r : option oc) : Prop :=
  match r with
  | None => M = []
  | Some (c, v) => In c M /\ v = cval vals c /\ forall m, In m M -> cval vals m <= v
  end.

(* R: min(k, |M|) pairwise distinct members of M with their values, non-increasing, and nothing
   that was left out is better than anything returned *)
Definition TopkSpec (vals : list Z) (k : nat) (M : list cfg) (R : list oc) : Prop :=
  length R = Nat.min k (length M)
  /\ (forall r, In r R -> In (fst r) M /\ snd r = cval vals (fst r))
  /\ NoDup (map fst R)
  /\ odesc R
  /\ (forall m, In m M -> ~ In m (map fst R) -> forall r, In r R -> cval vals m <= snd r).

(* ---------- boolean helpers ---------- *)

Lemma cfg_eqb_eq a b : cfg_eqb a b = true <-> a = b.
Proof.
  unfold cfg_eqb. split.
  - revert b. induction a as [|x a IH]; intros [|y b] H; cbn in H; try discriminate; [reflexivity|].
    apply andb_true_iff in H. destruct H as [Hl H]. apply andb_true_iff in H. destruct H as [Hxy H].
    apply Z.eqb_eq in Hxy. cbn in Hxy. subst y. f_equal. apply IH. now rewrite Hl, H.
  - intros <-. rewrite Nat.eqb_refl. cbn. induction a as [|x a IH]; [reflexivity|].
    cbn. now rewrite Z.eqb_refl, IH.
Qed.

Lemma mem_cfg_In c l : mem_cfg c l = true <-> In c l.
Proof.
  unfold mem_cfg. rewrite existsb_exists. split.
  - intros (d & Hd & He). apply cfg_eqb_eq in He. now subst.
  - intros H. exists c. split; [exact H|now apply cfg_eqb_eq].
Qed.

Lemma mem_cfg_false c l : mem_cfg c l = false <-> ~ In c l.
Proof. rewrite <- mem_cfg_In. destruct (mem_cfg c l); split; congruence. Qed.

Lemma nodup_cfgs_NoDup l : nodup_cfgs l = true <-> NoDup l.
Proof.
  induction l as [|c l IH]; cbn; [split; [constructor|reflexivity]|].
  rewrite andb_true_iff, negb_true_iff, mem_cfg_false, IH. split.
  - intros [H1 H2]. now constructor.
  - intros H. inversion H. now split.
Qed.

Lemma sorted_desc_spec (l : list Z) : sorted_desc l = true <-> desc (fun z => z) l.
Proof.
  induction l as [|x l IH]; [cbn; tauto|].
  cbn [sorted_desc desc]. destruct l as [|y l].
  - cbn. split; [intros _; split; [intros z []|exact I]|reflexivity].
  - rewrite andb_true_iff, IH, Z.leb_le. split.
    + intros [Hyx Hd]. split; [|exact Hd]. intros z [<-|Hz]; [exact Hyx|].
      cbn in Hd. destruct Hd as [Hd _]. specialize (Hd z Hz). lia.
    + intros [Hx Hd]. split; [apply Hx; now left|exact Hd].
Qed.

Lemma desc_map_snd (R : list oc) : desc (fun z => z) (map snd R) <-> odesc R.
Proof.
  induction R as [|r R IH]; [cbn; tauto|]. cbn. rewrite IH. split; intros [H1 H2]; (split; [|exact H2]).
  - intros y Hy. apply H1. now apply in_map.
  - intros z Hz. apply in_map_iff in Hz. destruct Hz as (y & <- & Hy). now apply H1.
Qed.

(* ---------- the checkers decide the specifications ---------- *)

Theorem is_best_iff vals M r : is_best vals M r = true <-> BestSpec vals M r.
Proof.
  destruct r as [[c v]|]; cbn [is_best BestSpec].
  - rewrite !andb_true_iff, mem_cfg_In, Z.eqb_eq, forallb_forall. split.
    + intros [[H1 H2] H3]. repeat split; auto. intros m Hm. apply Z.leb_le. now apply H3.
    + intros (H1 & H2 & H3). repeat split; auto. intros m Hm. apply Z.leb_le. now apply H3.
  - rewrite Nat.eqb_eq. destruct M; cbn; split; congruence.
Qed.

Theorem is_topk_iff vals k M R : is_topk vals k M R = true <-> TopkSpec vals k M R.
Proof.
  unfold is_topk, TopkSpec.
  rewrite !andb_true_iff, Nat.eqb_eq, nodup_cfgs_NoDup, sorted_desc_spec, desc_map_snd, !forallb_forall.
  split.
  - intros ((((H1 & H2) & H3) & H4) & H5). repeat split; auto.
    + specialize (H2 r H). apply andb_true_iff in H2. apply mem_cfg_In. tauto.
    + specialize (H2 r H). apply andb_true_iff in H2. apply Z.eqb_eq. tauto.
    + intros m Hm Hn r Hr. specialize (H5 m Hm). apply orb_true_iff in H5.
      destruct H5 as [H5|H5]; [apply mem_cfg_In in H5; contradiction|].
      rewrite forallb_forall in H5. apply Z.leb_le. now apply H5.
  - intros (H1 & H2 & H3 & H4 & H5). repeat split; auto.
    + intros r Hr. destruct (H2 r Hr) as [Ha Hb]. apply andb_true_iff. split; [now apply mem_cfg_In|now apply Z.eqb_eq].
    + intros m Hm. apply orb_true_iff. destruct (mem_cfg m (map fst R)) eqn:E; [now left|right].
      apply mem_cfg_false in E. apply forallb_forall. intros r Hr. apply Z.leb_le. now apply H5.
Qed.

(* ---------- the model's answers are accepted by the checkers ---------- *)

Definition canon_oc (n : nat) (r : oc) : oc := (canon_cfg n (fst r), snd r).

Theorem topk_accepted (pick : picker) (vals : list Z) (C : circuit) (n : nat) (A : cfg) (k : nat) :
  WF C n -> in_range n A -> (1 <= k)%nat -> Z.of_nat k <= usize_max ->
  exists R, calc_top_k_configs pick vals A k C = Done R
            /\ is_topk vals k (ModelsA C n A) (map (canon_oc n) R) = true.
Proof.
  intros HWF HA Hk1 Hk.
  assert (Hu : 1 <= usize_max) by (unfold usize_max; lia).
  destruct (topk_root usize_max pick vals A k C Hu Hk1 Hk (wf_idx C n HWF) (wf_nonempty C n HWF))
    as (R & HR & HT).
  destruct (topk_correct pick vals C n A k HWF HA Hk1 Hk) as (R' & HR' & Hlen & Hnd & Hmem & _ & Hom).
  unfold calc_top_k_configs in HR'. rewrite HR in HR'. inversion HR'; subst R'. clear HR'.
  exists R. split; [exact HR|]. apply is_topk_iff.
  assert (Hfst : map fst (map (canon_oc n) R) = map (cfg_of n) R) by (rewrite map_map; reflexivity).
  unfold TopkSpec. rewrite Hfst. split; [|split; [|split; [|split]]].
  - rewrite map_length, Hlen. unfold MCA. lia.
  - intros r Hr. apply in_map_iff in Hr. destruct Hr as (r0 & <- & Hr0). cbn [canon_oc fst snd].
    apply (Hmem r0 Hr0).
  - exact Hnd.
  - apply desc_map_snd. rewrite map_map. cbn [canon_oc snd]. apply desc_map_snd. now apply oTopK_desc in HT.
  - intros m Hm Hn r Hr. apply in_map_iff in Hr. destruct Hr as (r0 & <- & Hr0). cbn [canon_oc snd].
    now apply (Hom m Hm Hn r0 Hr0).
Qed.
