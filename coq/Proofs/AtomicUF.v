(* C08 support: the union-find of Model/Atomic.v (a list of disjoint classes) against its
   specification: equiv = same class; union merges the two classes, keeps every earlier equivalence,
   keeps the classes disjoint, duplicate-free, of size >= 2, and sound for any equivalence relation
   that relates the two arguments. *)
From Coq Require Import List ZArith Bool Lia.
From DD Require Import Model.Circuit Model.Atomic Proofs.Semantics.
Import ListNotations.
Open Scope Z_scope.

Definition same_class (u : uf) (a b : Z) : Prop :=
  a = b \/ exists c, In c u /\ In a c /\ In b c.

Inductive Disj : uf -> Prop :=
| Disj_nil : Disj []
| Disj_cons c u : (forall z c', In z c -> In c' u -> ~ In z c') -> Disj u -> Disj (c :: u).

Lemma Disj_unique (u : uf) (c c' : list Z) (z : Z) :
  Disj u -> In c u -> In c' u -> In z c -> In z c' -> c = c'.
Proof.
  induction 1 as [|c0 u Hd HD IH]; intros Hc Hc' Hz Hz'; [destruct Hc|].
  destruct Hc as [<-|Hc], Hc' as [<-|Hc']; [reflexivity| | |now apply IH].
  - exfalso. exact (Hd z c' Hz Hc' Hz').
  - exfalso. exact (Hd z c Hz' Hc Hz).
Qed.

Lemma Disj_filter (p : list Z -> bool) (u : uf) : Disj u -> Disj (filter p u).
Proof.
  induction 1 as [|c u Hd HD IH]; cbn [filter]; [constructor|].
  destruct (p c); [|exact IH]. constructor; [|exact IH].
  intros z c' Hz Hc'. apply filter_In in Hc'. now apply Hd.
Qed.

(* class_of: the class that contains x, or the singleton *)
Lemma class_of_cases (x : Z) (u : uf) :
  (In (class_of x u) u /\ In x (class_of x u)) \/
  (class_of x u = [x] /\ forall c, In c u -> ~ In x c).
Proof.
  unfold class_of. destruct (find (fun c => memZ x c) u) as [c|] eqn:E.
  - left. apply find_some in E. destruct E as [Hc Hx]. split; [exact Hc|now apply memZ_In].
  - right. split; [reflexivity|]. intros c Hc Hx.
    pose proof (find_none _ _ E c Hc) as Hn. cbn in Hn. apply memZ_false in Hn. contradiction.
Qed.

Lemma class_of_self (x : Z) (u : uf) : In x (class_of x u).
Proof. destruct (class_of_cases x u) as [[_ H]|[-> _]]; [exact H|now left]. Qed.

Lemma class_of_unique (x : Z) (u : uf) (c : list Z) :
  Disj u -> In c u -> In x c -> class_of x u = c.
Proof.
  intros HD Hc Hx. destruct (class_of_cases x u) as [[H1 H2]|[_ Hn]].
  - exact (Disj_unique u _ _ x HD H1 Hc H2 Hx).
  - exfalso. exact (Hn c Hc Hx).
Qed.

Lemma uf_equiv_iff (u : uf) (x y : Z) : Disj u -> (uf_equiv x y u = true <-> same_class u x y).
Proof.
  intros HD. unfold uf_equiv. rewrite memZ_In. split.
  - intros Hy. destruct (class_of_cases x u) as [[H1 H2]|[E _]].
    + right. exists (class_of x u). auto.
    + rewrite E in Hy. destruct Hy as [->|[]]. now left.
  - intros [->|[c [Hc [Hx Hy]]]]; [apply class_of_self|].
    now rewrite (class_of_unique x u c HD Hc Hx).
Qed.

(* the invariant of the partition while get_atomic_sets runs: classes are disjoint, duplicate-free,
   have at least two members, relate only R-related members, and stay within the domain L *)
Record UFInv (R : Z -> Z -> Prop) (L : Z -> Prop) (u : uf) : Prop := {
  uf_disj : Disj u;
  uf_nodup : forall c, In c u -> NoDup c;
  uf_len : forall c, In c u -> (2 <= length c)%nat;
  uf_sound : forall c a b, In c u -> In a c -> In b c -> R a b;
  uf_dom : forall c a, In c u -> In a c -> L a;
}.

Lemma UFInv_nil R L : UFInv R L [].
Proof.
  constructor; [constructor| | | |].
  - intros c [].
  - intros c [].
  - intros c a b [].
  - intros c a [].
Qed.

Section Union.
Variables (R : Z -> Z -> Prop) (L : Z -> Prop).
Hypothesis R_refl : forall a, R a a.
Hypothesis R_sym : forall a b, R a b -> R b a.
Hypothesis R_trans : forall a b c, R a b -> R b c -> R a c.

Lemma uf_union_unfold (x y : Z) (u : uf) : uf_equiv x y u = false ->
  uf_union x y u =
  (class_of x u ++ class_of y u) :: filter (fun c => negb (memZ x c || memZ y c)) u.
Proof. unfold uf_equiv, uf_union. now intros ->. Qed.

Lemma in_class_R (u : uf) (x a : Z) : UFInv R L u -> In a (class_of x u) -> R a x.
Proof.
  intros HI Ha. destruct (class_of_cases x u) as [[H1 H2]|[E _]].
  - exact (uf_sound R L u HI _ a x H1 Ha H2).
  - rewrite E in Ha. destruct Ha as [<-|[]]. apply R_refl.
Qed.

Lemma in_class_L (u : uf) (x a : Z) : UFInv R L u -> L x -> In a (class_of x u) -> L a.
Proof.
  intros HI Hx Ha. destruct (class_of_cases x u) as [[H1 H2]|[E _]].
  - exact (uf_dom R L u HI _ a H1 Ha).
  - rewrite E in Ha. destruct Ha as [<-|[]]. exact Hx.
Qed.

Lemma class_of_NoDup (u : uf) (x : Z) : UFInv R L u -> NoDup (class_of x u).
Proof.
  intros HI. destruct (class_of_cases x u) as [[H1 _]|[-> _]].
  - exact (uf_nodup R L u HI _ H1).
  - repeat constructor. intros [].
Qed.

(* a surviving class meets neither merged class *)
Lemma survivor_apart (u : uf) (x : Z) (c' : list Z) (z : Z) :
  Disj u -> In c' u -> ~ In x c' -> In z (class_of x u) -> ~ In z c'.
Proof.
  intros HD Hc' Hx Hz Hz'. destruct (class_of_cases x u) as [[H1 H2]|[E _]].
  - assert (class_of x u = c') by exact (Disj_unique u _ _ z HD H1 Hc' Hz Hz'). subst c'. contradiction.
  - rewrite E in Hz. destruct Hz as [<-|[]]. contradiction.
Qed.

Theorem uf_union_inv (x y : Z) (u : uf) :
  UFInv R L u -> L x -> L y -> R x y -> uf_equiv x y u = false ->
  UFInv R L (uf_union x y u) /\
  (forall a b, same_class u a b -> same_class (uf_union x y u) a b) /\
  same_class (uf_union x y u) x y.
Proof.
  intros HI Lx Ly Rxy Hne. pose proof (uf_disj R L u HI) as HD.
  rewrite (uf_union_unfold x y u Hne).
  set (cx := class_of x u). set (cy := class_of y u).
  set (rest := filter (fun c => negb (memZ x c || memZ y c)) u).
  assert (Hrest : forall c, In c rest <-> In c u /\ ~ In x c /\ ~ In y c).
  { intros c. unfold rest. rewrite filter_In, negb_true_iff, orb_false_iff, !memZ_false. tauto. }
  assert (Hynot : ~ In y cx).
  { unfold uf_equiv in Hne. apply memZ_false in Hne. exact Hne. }
  assert (Hapart : forall z, In z cx -> In z cy -> False).
  { intros z Hzx Hzy.
    destruct (class_of_cases x u) as [[X1 X2]|[EX NX]]; destruct (class_of_cases y u) as [[Y1 Y2]|[EY NY]];
      fold cx in X1, X2 || fold cx in EX; fold cy in Y1, Y2 || fold cy in EY.
    - assert (cx = cy) by exact (Disj_unique u _ _ z HD X1 Y1 Hzx Hzy). apply Hynot. now rewrite H.
    - rewrite EY in Hzy. destruct Hzy as [<-|[]]. contradiction.
    - rewrite EX in Hzx. destruct Hzx as [<-|[]]. exact (NX cy Y1 Hzy).
    - rewrite EX in Hzx. rewrite EY in Hzy. destruct Hzx as [<-|[]]. destruct Hzy as [<-|[]].
      apply Hynot. rewrite EX. now left. }
  split; [|split].
  - constructor.
    + constructor; [|apply Disj_filter, HD].
      intros z c' Hz Hc'. apply Hrest in Hc'. destruct Hc' as [Hc' [Hx' Hy']].
      apply in_app_iff in Hz. destruct Hz as [Hz|Hz].
      * exact (survivor_apart u x c' z HD Hc' Hx' Hz).
      * exact (survivor_apart u y c' z HD Hc' Hy' Hz).
    + intros c [<-|Hc].
      * apply NoDup_app_intro; [apply class_of_NoDup, HI|apply class_of_NoDup, HI|].
        intros z Hz1 Hz2. exact (Hapart z Hz1 Hz2).
      * apply Hrest in Hc. exact (uf_nodup R L u HI c (proj1 Hc)).
    + intros c [<-|Hc].
      * rewrite app_length.
        pose proof (class_of_self x u) as Hx. pose proof (class_of_self y u) as Hy.
        fold cx in Hx. fold cy in Hy. destruct cx; [destruct Hx|]. destruct cy; [destruct Hy|]. cbn. lia.
      * apply Hrest in Hc. exact (uf_len R L u HI c (proj1 Hc)).
    + intros c a b [<-|Hc] Ha Hb.
      * assert (Hax : forall a, In a (cx ++ cy) -> R a x).
        { intros a0 Ha0. apply in_app_iff in Ha0. destruct Ha0 as [Ha0|Ha0].
          - exact (in_class_R u x a0 HI Ha0).
          - apply (R_trans a0 y x); [exact (in_class_R u y a0 HI Ha0)|now apply R_sym]. }
        apply (R_trans a x b); [now apply Hax|apply R_sym; now apply Hax].
      * apply Hrest in Hc. exact (uf_sound R L u HI c a b (proj1 Hc) Ha Hb).
    + intros c a [<-|Hc] Ha.
      * apply in_app_iff in Ha. destruct Ha as [Ha|Ha];
          [exact (in_class_L u x a HI Lx Ha)|exact (in_class_L u y a HI Ly Ha)].
      * apply Hrest in Hc. exact (uf_dom R L u HI c a (proj1 Hc) Ha).
  - intros a b [->|[c [Hc [Ha Hb]]]]; [now left|]. right.
    destruct (in_dec Z.eq_dec x c) as [Hxc|Hxc].
    + exists (cx ++ cy). split; [now left|].
      assert (cx = c) by exact (class_of_unique x u c HD Hc Hxc).
      split; apply in_app_iff; left; now rewrite H.
    + destruct (in_dec Z.eq_dec y c) as [Hyc|Hyc].
      * exists (cx ++ cy). split; [now left|].
        assert (cy = c) by exact (class_of_unique y u c HD Hc Hyc).
        split; apply in_app_iff; right; now rewrite H.
      * exists c. split; [right; apply Hrest; tauto|tauto].
  - right. exists (cx ++ cy). split; [now left|].
    split; apply in_app_iff; [left; apply class_of_self|right; apply class_of_self].
Qed.
End Union.
