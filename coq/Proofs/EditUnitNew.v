(* The unit edit over a NEW variable (unit_edit_new: add_unit_clause since repair F27 + rebuild).
   Q = the vector handed to the re-flattening: the old nodes, the old root (or an unreachable TrueN
   when the old root is an And node whose children move to the new root), one or-triangle per
   skipped feature, the new literal, the And root.  Q is WF over |l| features when C is WF over n;
   the re-flattening preserves WF (reflatten_WF, general).  *)
From Coq Require Import List ZArith Bool Lia Permutation.
From DD Require Import Model.Circuit Model.Query Model.Edit Proofs.PassLemmas Proofs.Enum Proofs.Semantics
  Proofs.DetCert Proofs.CountsA Proofs.QueryDefs Proofs.C04Proof Proofs.EditReduce Proofs.EditRenumber
  Proofs.EditUnit Proofs.EditWF Proofs.ToCnfSem Proofs.ToCnfRoot Proofs.EditReflattenWF Proofs.EditSpec
  Proofs.C02Proof Proofs.C03Proof Proofs.C05Proof.
Import ListNotations.
Open Scope Z_scope.

(* ---------- list helpers ---------- *)
Lemma flat_map3_length {A} (f : nat -> list A) a m :
  (forall i, length (f i) = 3%nat) -> length (flat_map f (seq a m)) = (3 * m)%nat.
Proof.
  intros H. revert a. induction m as [|m IH]; intros a; [reflexivity|].
  cbn [seq flat_map]. rewrite app_length, H, IH. lia.
Qed.

Lemma flat_map3_nth {A} (f : nat -> list A) (d : A) m : forall a j q,
  (forall i, length (f i) = 3%nat) -> (j < m)%nat -> (q < 3)%nat ->
  nth (3 * j + q) (flat_map f (seq a m)) d = nth q (f (a + j)%nat) d.
Proof.
  induction m as [|m IH]; intros a j q H Hj Hq; [lia|].
  cbn [seq flat_map]. destruct j as [|j].
  - rewrite app_nth1 by (rewrite H; lia). now rewrite Nat.add_0_r.
  - rewrite app_nth2 by (rewrite H; lia). rewrite H.
    replace (3 * S j + q - 3)%nat with (3 * j + q)%nat by lia.
    rewrite IH by (auto; lia). f_equal. f_equal. lia.
Qed.

Lemma pairwise_app {A} (p : A -> A -> bool) (a b : list A) :
  pairwise p (a ++ b) = pairwise p a && pairwise p b && forallb (fun x => forallb (p x) b) a.
Proof.
  induction a as [|x a IH]; [cbn; now rewrite andb_true_r|].
  cbn [app pairwise forallb]. rewrite forallb_app, IH.
  destruct (forallb (p x) a), (forallb (p x) b), (pairwise p a), (pairwise p b); cbn; try reflexivity;
    now rewrite ?andb_false_r.
Qed.

Lemma pass_prefix_nth {A} (f : list A -> ntype -> A) (P B1 B2 : circuit) (i : nat) (d : A) :
  (i < length P)%nat -> nth i (pass f (P ++ B1)) d = nth i (pass f (P ++ B2)) d.
Proof.
  intros Hi. destruct (pass_app_prefix f P B1) as [R1 [E1 _]]. destruct (pass_app_prefix f P B2) as [R2 [E2 _]].
  rewrite E1, E2, !app_nth1 by (rewrite pass_length; exact Hi). reflexivity.
Qed.

Lemma pairwise_map_nodup {A B} (p : B -> B -> bool) (g : A -> B) (L : list A) :
  NoDup L -> (forall a b, In a L -> In b L -> a <> b -> p (g a) (g b) = true) ->
  pairwise p (map g L) = true.
Proof.
  induction L as [|a L IH]; intros Hn H; [reflexivity|]. inversion Hn as [|? ? Ha Hn']; subst.
  cbn [map pairwise]. apply andb_true_iff. split.
  - apply forallb_forall. intros y Hy. apply in_map_iff in Hy. destruct Hy as [b [<- Hb]].
    apply H; [now left|now right|]. intros ->. contradiction.
  - apply IH; [exact Hn'|]. intros a' b Ha' Hb. apply H; now right.
Qed.

Lemma decomposable_node_ext vs vs' nd :
  (forall c, In c (children nd) -> nth c vs [] = nth c vs' []) ->
  decomposable_node vs nd = decomposable_node vs' nd.
Proof. intros H. destruct nd as [x|cs|cs| |]; try reflexivity. cbn in *. now rewrite (map_nth_ext vs vs' [] cs H). Qed.

Lemma smooth_node_ext vs vs' nd :
  (forall c, In c (children nd) -> nth c vs [] = nth c vs' []) ->
  smooth_node vs nd = smooth_node vs' nd.
Proof.
  intros H. destruct nd as [x|cs|cs| |]; try reflexivity. cbn in *. rewrite (map_nth_ext vs vs' [] cs H).
  apply forallb_ext_in. intros c Hc. now rewrite (H c Hc).
Qed.

Section New.
Variables (C : circuit) (n : nat) (l : Z).
Hypothesis Hne : C <> [].
Hypothesis Hok : idx_ok C = true.
Hypothesis Hl : Z.of_nat n < Z.abs l.

Let k := length C.
Let m := (Z.to_nat (Z.abs l) - S n)%nat.
Let r := last C FalseN.

Definition trif (i : nat) : list ntype :=
  let v := Z.of_nat (S n + i) in [Lit v; Lit (- v); Or [k + 3 * i + 1; k + 3 * i]%nat].
Definition tri : circuit := flat_map trif (seq 0 m).
Definition ors : list nat := map (fun i => (k + 3 * i + 2)%nat) (seq 0 m).
Definition newkids : list nat := (k + 3 * m)%nat :: rev ors.
Definition slot : ntype := match r with And _ => TrueN | _ => r end.
Definition oldkids : list nat := match r with And cs => cs | _ => [(k - 1)%nat] end.
Definition Q : circuit := removelast C ++ [slot] ++ tri ++ [Lit l; And (newkids ++ oldkids)].

Lemma unit_edit_new_Q : unit_edit_new C n l = reflatten Q.
Proof.
  unfold unit_edit_new, Q, slot, oldkids, newkids, ors, tri, trif. fold k. fold r. fold m.
  destruct r; reflexivity.
Qed.

Lemma C_split : C = removelast C ++ [r].
Proof. now apply app_removelast_last. Qed.

Lemma k_pos : (0 < k)%nat.
Proof. unfold k. destruct C; [congruence|cbn; lia]. Qed.

Lemma len_rl : length (removelast C) = (k - 1)%nat.
Proof.
  pose proof C_split as E. apply (f_equal (@length _)) in E. rewrite app_length in E. cbn in E.
  unfold k. lia.
Qed.

Lemma trif_len i : length (trif i) = 3%nat. Proof. reflexivity. Qed.
Lemma tri_len : length tri = (3 * m)%nat. Proof. apply flat_map3_length. exact trif_len. Qed.

Lemma Q_len : length Q = (k + 3 * m + 2)%nat.
Proof. unfold Q. rewrite !app_length, len_rl, tri_len. cbn. pose proof k_pos. lia. Qed.

Lemma l_abs : Z.abs l = Z.of_nat (S n + m).
Proof. unfold m. lia. Qed.

(* the nodes of Q *)
Lemma Q_old i : (i < k - 1)%nat -> nth i Q FalseN = nth i C FalseN.
Proof.
  intros Hi. unfold Q. rewrite app_nth1 by (rewrite len_rl; exact Hi).
  rewrite C_split at 2. rewrite app_nth1 by (rewrite len_rl; exact Hi). reflexivity.
Qed.
Lemma Q_slot : nth (k - 1) Q FalseN = slot.
Proof. unfold Q. rewrite app_nth2 by (rewrite len_rl; lia). rewrite len_rl, Nat.sub_diag. reflexivity. Qed.
Lemma C_root : nth (k - 1) C FalseN = r.
Proof. rewrite C_split at 1. rewrite app_nth2 by (rewrite len_rl; lia). rewrite len_rl, Nat.sub_diag. reflexivity. Qed.
Lemma Q_tri j q : (j < m)%nat -> (q < 3)%nat -> nth (k + 3 * j + q) Q FalseN = nth q (trif j) FalseN.
Proof.
  intros Hj Hq. pose proof k_pos. unfold Q. rewrite app_nth2 by (rewrite len_rl; lia). rewrite len_rl.
  replace (k + 3 * j + q - (k - 1))%nat with (S (3 * j + q)) by lia. cbn [app nth].
  rewrite app_nth1 by (rewrite tri_len; lia). unfold tri.
  now rewrite (flat_map3_nth trif FalseN m 0 j q trif_len Hj Hq).
Qed.
Lemma Q_lit : nth (k + 3 * m) Q FalseN = Lit l.
Proof.
  pose proof k_pos. unfold Q. rewrite app_nth2 by (rewrite len_rl; lia). rewrite len_rl.
  replace (k + 3 * m - (k - 1))%nat with (S (3 * m)) by lia. cbn [app nth].
  rewrite app_nth2 by (rewrite tri_len; lia). rewrite tri_len, Nat.sub_diag. reflexivity.
Qed.
Lemma Q_root : nth (k + 3 * m + 1) Q FalseN = And (newkids ++ oldkids).
Proof.
  pose proof k_pos. unfold Q. rewrite app_nth2 by (rewrite len_rl; lia). rewrite len_rl.
  replace (k + 3 * m + 1 - (k - 1))%nat with (S (3 * m + 1)) by lia. cbn [app nth].
  rewrite app_nth2 by (rewrite tri_len; lia). rewrite tri_len.
  replace (3 * m + 1 - 3 * m)%nat with 1%nat by lia. reflexivity.
Qed.

(* every position of Q is one of these *)
Inductive pos_case (i : nat) : Prop :=
| PcOld : (i < k - 1)%nat -> pos_case i
| PcSlot : i = (k - 1)%nat -> pos_case i
| PcTri j q : (j < m)%nat -> (q < 3)%nat -> i = (k + 3 * j + q)%nat -> pos_case i
| PcLit : i = (k + 3 * m)%nat -> pos_case i
| PcRoot : i = (k + 3 * m + 1)%nat -> pos_case i.

Lemma Q_cases i : (i < length Q)%nat -> pos_case i.
Proof.
  rewrite Q_len. intros Hi. pose proof k_pos.
  destruct (Nat.lt_ge_cases i (k - 1)) as [H1|H1]; [now apply PcOld|].
  destruct (Nat.eq_dec i (k - 1)) as [H2|H2]; [now apply PcSlot|].
  destruct (Nat.lt_ge_cases i (k + 3 * m)) as [H3|H3].
  - apply (PcTri i ((i - k) / 3) ((i - k) mod 3)).
    + apply Nat.div_lt_upper_bound; lia.
    + apply Nat.mod_upper_bound. lia.
    + pose proof (Nat.div_mod (i - k) 3 ltac:(lia)). lia.
  - destruct (Nat.eq_dec i (k + 3 * m)) as [H4|H4]; [now apply PcLit|]. apply PcRoot. lia.
Qed.

(* ---------- Q is well indexed ---------- *)
Lemma r_children c : In c (children r) -> (c < k - 1)%nat.
Proof.
  intros Hc. rewrite <- C_root in Hc. apply (idx_ok_nth C (k - 1) FalseN Hok); [pose proof k_pos; unfold k in *; lia|exact Hc].
Qed.

Lemma ors_In x : In x (rev ors) <-> exists j, (j < m)%nat /\ x = (k + 3 * j + 2)%nat.
Proof.
  rewrite <- in_rev. unfold ors. rewrite in_map_iff. split.
  - intros [j [<- Hj]]. apply in_seq in Hj. exists j. split; [lia|reflexivity].
  - intros [j [Hj ->]]. exists j. split; [reflexivity|apply in_seq; lia].
Qed.

Lemma oldkids_lt c : In c oldkids -> (c < k)%nat.
Proof.
  unfold oldkids. intros Hc. pose proof k_pos. destruct r eqn:Er; try (destruct Hc as [<-|[]]; lia).
  assert (c < k - 1)%nat; [|lia]. apply r_children. rewrite Er. exact Hc.
Qed.

Lemma Q_ok : idx_ok Q = true.
Proof.
  apply idx_ok_intro. intros i Hi c Hc. pose proof k_pos.
  destruct (Q_cases i Hi) as [H1 | -> | j q Hj Hq -> | -> | ->].
  - rewrite (Q_old i H1) in Hc. apply (idx_ok_nth C i FalseN Hok); [unfold k in *; lia|exact Hc].
  - rewrite Q_slot in Hc. unfold slot in Hc. destruct r eqn:Er; cbn in Hc; try contradiction;
      apply r_children; rewrite Er; exact Hc.
  - rewrite (Q_tri j q Hj Hq) in Hc. unfold trif in Hc.
    destruct q as [|[|[|q]]]; cbn in Hc; try contradiction; [|lia]. destruct Hc as [<-|[<-|[]]]; lia.
  - rewrite Q_lit in Hc. destruct Hc.
  - rewrite Q_root in Hc. cbn [children] in Hc. apply in_app_iff in Hc. destruct Hc as [Hc|Hc].
    + destruct Hc as [<-|Hc]; [lia|]. apply ors_In in Hc. destruct Hc as [j [Hj ->]]. lia.
    + apply oldkids_lt in Hc. lia.
Qed.

Lemma Q_ne : Q <> [].
Proof. intros E. apply (f_equal (@length _)) in E. rewrite Q_len in E. cbn in E. lia. Qed.

Lemma root_Q : root Q = (k + 3 * m + 1)%nat.
Proof. unfold root. rewrite Q_len. lia. Qed.

(* ---------- the passes on Q ---------- *)
Section Pass.
Context {A : Type} (f : list A -> ntype -> A) (d : A).
Hypothesis Hloc : local f d.

Lemma Qp_old i : (i < k - 1)%nat -> nth i (pass f Q) d = nth i (pass f C) d.
Proof.
  intros Hi. unfold Q. rewrite C_split at 2. apply pass_prefix_nth. rewrite len_rl. exact Hi.
Qed.

Lemma Qp_unfold i : (i < length Q)%nat -> nth i (pass f Q) d = f (pass f Q) (nth i Q FalseN).
Proof. intros Hi. apply (pass_unfold f d d Q i Hloc Q_ok Hi). Qed.

Lemma Cp_root : nth (k - 1) (pass f C) d = f (pass f C) r.
Proof.
  rewrite (pass_unfold f d d C (k - 1) Hloc Hok); [now rewrite C_root|pose proof k_pos; unfold k in *; lia].
Qed.

(* the value of a node with the children of the old root, in Q = in C *)
Lemma Qp_rnode nd : children nd = children r -> f (pass f Q) nd = f (pass f C) nd.
Proof.
  intros E. apply Hloc. intros c Hc. rewrite E in Hc. apply Qp_old. now apply r_children.
Qed.

Lemma Qp_slot_notand : (forall cs, r <> And cs) -> nth (k - 1) (pass f Q) d = nth (k - 1) (pass f C) d.
Proof.
  intros Hr. rewrite Qp_unfold by (rewrite Q_len; pose proof k_pos; lia). rewrite Q_slot, Cp_root.
  unfold slot. destruct r as [x|cs0|cs0| |] eqn:Er; try (apply Qp_rnode; now rewrite Er). exfalso. now apply (Hr cs0).
Qed.

Lemma Qp_tri0 j : (j < m)%nat -> nth (k + 3 * j) (pass f Q) d = f (pass f Q) (Lit (Z.of_nat (S n + j))).
Proof.
  intros Hj. rewrite Qp_unfold by (rewrite Q_len; lia).
  replace (k + 3 * j)%nat with (k + 3 * j + 0)%nat by lia. now rewrite (Q_tri j 0 Hj ltac:(lia)).
Qed.
Lemma Qp_tri1 j : (j < m)%nat -> nth (k + 3 * j + 1) (pass f Q) d = f (pass f Q) (Lit (- Z.of_nat (S n + j))).
Proof. intros Hj. rewrite Qp_unfold by (rewrite Q_len; lia). now rewrite (Q_tri j 1 Hj ltac:(lia)). Qed.
Lemma Qp_tri2 j : (j < m)%nat ->
  nth (k + 3 * j + 2) (pass f Q) d = f (pass f Q) (Or [k + 3 * j + 1; k + 3 * j]%nat).
Proof. intros Hj. rewrite Qp_unfold by (rewrite Q_len; lia). now rewrite (Q_tri j 2 Hj ltac:(lia)). Qed.
Lemma Qp_lit : nth (k + 3 * m) (pass f Q) d = f (pass f Q) (Lit l).
Proof. rewrite Qp_unfold by (rewrite Q_len; lia). now rewrite Q_lit. Qed.
Lemma Qp_root : nth (k + 3 * m + 1) (pass f Q) d = f (pass f Q) (And (newkids ++ oldkids)).
Proof. rewrite Qp_unfold by (rewrite Q_len; lia). now rewrite Q_root. Qed.

(* the values at the children taken over from the old root *)
Lemma Qp_oldkids_and cs : r = And cs ->
  map (fun c => nth c (pass f Q) d) oldkids = map (fun c => nth c (pass f C) d) cs.
Proof.
  intros Er. unfold oldkids. rewrite Er. apply map_ext_in. intros c Hc. apply Qp_old.
  apply r_children. rewrite Er. exact Hc.
Qed.
Lemma Qp_oldkids_notand : (forall cs, r <> And cs) ->
  map (fun c => nth c (pass f Q) d) oldkids = [nth (k - 1) (pass f C) d].
Proof.
  intros Hr. pose proof (Qp_slot_notand Hr) as E. unfold oldkids.
  destruct r as [x|cs0|cs0| |] eqn:Er; cbn [map]; try (now rewrite E).
  exfalso. now apply (Hr cs0).
Qed.
End Pass.

(* ---------- variables ---------- *)
Notation VQ i := (nth i (varss Q) []).
Notation VC i := (nth i (varss C) []).

Lemma vpos j : 0 < Z.of_nat (S n + j). Proof. lia. Qed.

Lemma VQ_tri0 j : (j < m)%nat -> VQ (k + 3 * j)%nat = [Z.of_nat (S n + j)].
Proof. intros Hj. unfold varss. rewrite (Qp_tri0 vars_node [] vars_node_local j Hj). cbn [vars_node]. f_equal; lia. Qed.
Lemma VQ_tri1 j : (j < m)%nat -> VQ (k + 3 * j + 1)%nat = [Z.of_nat (S n + j)].
Proof. intros Hj. unfold varss. rewrite (Qp_tri1 vars_node [] vars_node_local j Hj). cbn [vars_node]. f_equal; lia. Qed.
Lemma VQ_tri2 j : (j < m)%nat -> VQ (k + 3 * j + 2)%nat = [Z.of_nat (S n + j); Z.of_nat (S n + j)].
Proof.
  intros Hj. unfold varss at 1. rewrite (Qp_tri2 vars_node [] vars_node_local j Hj). cbn [vars_node map concat].
  fold (varss Q). now rewrite VQ_tri0, VQ_tri1.
Qed.
Lemma VQ_lit : VQ (k + 3 * m)%nat = [Z.abs l].
Proof. unfold varss. now rewrite (Qp_lit vars_node [] vars_node_local). Qed.
Lemma VQ_root : VQ (k + 3 * m + 1)%nat = concat (map (fun c => VQ c) (newkids ++ oldkids)).
Proof. unfold varss at 1. now rewrite (Qp_root vars_node [] vars_node_local). Qed.

(* the variables below the children taken over from the old root = the variables of C *)
Lemma VQ_oldkids x : In x (concat (map (fun c => VQ c) oldkids)) <-> In x (VC (k - 1)%nat).
Proof.
  destruct r as [x0|cs|cs| |] eqn:Er.
  1,3,4,5: (unfold varss at 1; rewrite (Qp_oldkids_notand vars_node [] vars_node_local) by (intros cs'; rewrite Er; discriminate);
            cbn [concat]; rewrite app_nil_r; reflexivity).
  unfold varss at 1. rewrite (Qp_oldkids_and vars_node [] cs Er).
  unfold varss at 1. rewrite (Cp_root vars_node [] vars_node_local). fold r. rewrite Er. reflexivity.
Qed.

(* ================================================================ Q is WF over |l| features *)
Hypothesis HWF : WF C n.
Let n' := Z.to_nat (Z.abs l).

Lemma n'_eq : n' = (S n + m)%nat. Proof. unfold n', m. lia. Qed.

Lemma k1_lt : (k - 1 < length C)%nat. Proof. pose proof k_pos. unfold k in *. lia. Qed.

Lemma VC_root_range x : In x (VC (k - 1)%nat) <-> 1 <= x <= Z.of_nat n.
Proof.
  pose proof (complete_range C n (wf_complete C n HWF) x) as H. rewrite last_varss_root in H. exact H.
Qed.

Lemma VQ_oldkid_range c x : In c oldkids -> In x (VQ c) -> 1 <= x <= Z.of_nat n.
Proof.
  intros Hc Hx. apply VC_root_range. apply VQ_oldkids. apply in_concat. exists (VQ c). split; [|exact Hx].
  apply in_map_iff. now exists c.
Qed.

Lemma VQ_ors : map (fun c => VQ c) (rev ors) =
               map (fun j => [Z.of_nat (S n + j); Z.of_nat (S n + j)]) (rev (seq 0 m)).
Proof.
  unfold ors. rewrite <- map_rev, map_map. apply map_ext_in. intros j Hj. apply in_rev, in_seq in Hj.
  apply VQ_tri2. lia.
Qed.

Lemma Q_decomposable : decomposable Q = true.
Proof.
  unfold decomposable. apply forallb_forall. intros nd Hnd. apply (In_nth _ _ FalseN) in Hnd.
  destruct Hnd as [i [Hi <-]].
  destruct (Q_cases i Hi) as [H1 | -> | j q Hj Hq -> | -> | ->].
  - rewrite (Q_old i H1). rewrite (decomposable_node_ext (varss Q) (varss C)).
    + pose proof (wf_dec C n HWF) as Hd. unfold decomposable in Hd. rewrite forallb_forall in Hd.
      apply Hd. apply node_in. unfold k in *. lia.
    + intros c Hc. unfold varss. apply Qp_old.
      assert (c < i)%nat by (apply (idx_ok_nth C i FalseN Hok); [unfold k in *; lia|exact Hc]). lia.
  - rewrite Q_slot. unfold slot. destruct r; reflexivity.
  - rewrite (Q_tri j q Hj Hq). destruct q as [|[|[|q]]]; try reflexivity. lia.
  - now rewrite Q_lit.
  - rewrite Q_root. cbn [decomposable_node]. rewrite map_app, pairwise_app.
    apply andb_true_iff. split; [apply andb_true_iff; split|].
    + (* the new children *)
      unfold newkids. cbn [map pairwise]. rewrite VQ_lit, VQ_ors. apply andb_true_iff. split.
      * apply forallb_forall. intros y Hy. apply in_map_iff in Hy. destruct Hy as [j [<- Hj]].
        apply in_rev, in_seq in Hj. apply disjointb_spec. intros v [<-|[]] [E|[E|[]]]; rewrite l_abs in E; lia.
      * apply pairwise_map_nodup; [apply NoDup_rev, seq_NoDup|].
        intros a b _ _ Hab. apply disjointb_spec. intros v [<-|[<-|[]]] [E|[E|[]]]; lia.
    + (* the children of the old root *)
      destruct r as [x|cs|cs| |] eqn:Er; try (unfold oldkids; rewrite Er; reflexivity).
      unfold varss at 1. rewrite (Qp_oldkids_and vars_node [] cs Er).
      pose proof (wf_dec C n HWF) as Hd. unfold decomposable in Hd. rewrite forallb_forall in Hd.
      specialize (Hd (nth (k - 1) C FalseN) (node_in C _ k1_lt)). rewrite C_root in Hd. fold r in Hd.
      rewrite Er in Hd. exact Hd.
    + (* new against old *)
      apply forallb_forall. intros x Hx. apply forallb_forall. intros y Hy.
      apply in_map_iff in Hy. destruct Hy as [c [<- Hc]]. apply disjointb_spec. intros v Hvx Hvy.
      pose proof (VQ_oldkid_range c v Hc Hvy) as Hr.
      apply in_map_iff in Hx. destruct Hx as [c' [<- Hc']]. destruct Hc' as [<-|Hc'].
      * rewrite VQ_lit in Hvx. destruct Hvx as [<-|[]]. lia.
      * apply ors_In in Hc'. destruct Hc' as [j [Hj ->]]. rewrite (VQ_tri2 j Hj) in Hvx.
        destruct Hvx as [<-|[<-|[]]]; lia.
Qed.

Lemma Q_smooth : smooth Q = true.
Proof.
  unfold smooth. apply forallb_forall. intros nd Hnd. apply (In_nth _ _ FalseN) in Hnd.
  destruct Hnd as [i [Hi <-]].
  pose proof (wf_smooth C n HWF) as Hs. unfold smooth in Hs. rewrite forallb_forall in Hs.
  destruct (Q_cases i Hi) as [H1 | -> | j q Hj Hq -> | -> | ->].
  - rewrite (Q_old i H1). rewrite (smooth_node_ext (varss Q) (varss C)).
    + apply Hs. apply node_in. unfold k in *. lia.
    + intros c Hc. unfold varss. apply Qp_old.
      assert (c < i)%nat by (apply (idx_ok_nth C i FalseN Hok); [unfold k in *; lia|exact Hc]). lia.
  - rewrite Q_slot. unfold slot. destruct r as [x|cs|cs| |] eqn:Er; try reflexivity.
    rewrite (smooth_node_ext (varss Q) (varss C)).
    + specialize (Hs (nth (k - 1) C FalseN) (node_in C _ k1_lt)). rewrite C_root in Hs. fold r in Hs.
      rewrite Er in Hs. exact Hs.
    + intros c Hc. unfold varss. apply Qp_old. apply r_children. rewrite Er. exact Hc.
  - rewrite (Q_tri j q Hj Hq). destruct q as [|[|[|q]]]; try reflexivity; [|lia].
    cbn [trif nth smooth_node map concat forallb]. rewrite (VQ_tri1 j Hj), (VQ_tri0 j Hj).
    apply andb_true_iff; split; [|apply andb_true_iff; split; [|reflexivity]]; apply inclb_incl; intros v; cbn; tauto.
  - now rewrite Q_lit.
  - now rewrite Q_root.
Qed.

Lemma VQ_root_range x : In x (VQ (k + 3 * m + 1)%nat) <-> 1 <= x <= Z.of_nat n'.
Proof.
  rewrite VQ_root, map_app, concat_app, in_app_iff. unfold newkids. cbn [map concat]. rewrite in_app_iff.
  rewrite VQ_lit, VQ_ors, VQ_oldkids, VC_root_range, n'_eq. split.
  - intros [[[<-|[]]|H]|H]; [rewrite l_abs; lia| |lia].
    apply in_concat in H. destruct H as [y [Hy Hx]]. apply in_map_iff in Hy. destruct Hy as [j [<- Hj]].
    apply in_rev, in_seq in Hj. destruct Hx as [<-|[<-|[]]]; lia.
  - intros Hx. destruct (Z_le_gt_dec x (Z.of_nat n)) as [H1|H1]; [right; lia|left].
    destruct (Z.eq_dec x (Z.of_nat (S n + m))) as [->|H2]; [left; left; now rewrite l_abs|right].
    apply in_concat. exists [x; x]. split; [|now left].
    apply in_map_iff. exists (Z.to_nat (x - Z.of_nat (S n))). split.
    + f_equal; [|f_equal]; lia.
    + apply -> in_rev. apply in_seq. lia.
Qed.

Lemma Q_complete : complete Q n' = true.
Proof.
  unfold complete. rewrite last_varss_root, root_Q. apply andb_true_iff.
  split; apply inclb_incl; intros v Hv.
  - apply zseq_In. apply VQ_root_range in Hv. lia.
  - apply VQ_root_range. apply zseq_In in Hv. lia.
Qed.

Lemma Q_det : deterministic Q.
Proof.
  intros s i cs0 Hnth.
  assert (Hi : (i < length Q)%nat) by (apply nth_error_Some; congruence).
  pose proof (nth_error_nth Q i FalseN Hnth) as Ei.
  pose proof (wf_det C n HWF) as Hdet.
  destruct (Q_cases i Hi) as [H1 | -> | j q Hj Hq -> | -> | ->].
  - rewrite (Q_old i H1) in Ei.
    rewrite (map_ext_in _ (fun c => nth c (evals s C) false)).
    + apply (Hdet s i cs0). rewrite <- Ei. apply nth_error_nth'. unfold k in *. lia.
    + intros c Hc. unfold evals. apply Qp_old.
      assert (c < i)%nat by (apply (idx_ok_nth C i FalseN Hok); [unfold k in *; lia|rewrite Ei; exact Hc]). lia.
  - rewrite Q_slot in Ei. unfold slot in Ei. destruct r as [x|cs|cs| |] eqn:Er; try discriminate.
    injection Ei as ->.
    rewrite (map_ext_in _ (fun c => nth c (evals s C) false)).
    + apply (Hdet s (k - 1)%nat cs0). rewrite (nth_error_nth' C (k - 1) k1_lt), C_root. f_equal. exact Er.
    + intros c Hc. unfold evals. apply Qp_old. apply r_children. rewrite Er. exact Hc.
  - rewrite (Q_tri j q Hj Hq) in Ei. destruct q as [|[|[|q]]]; try discriminate; [|lia].
    cbn [trif nth] in Ei. injection Ei as <-. cbn [map]. unfold evals.
    replace (j + (j + (j + 0)))%nat with (3 * j)%nat by lia.
    rewrite (Qp_tri1 (eval_node s) false (eval_node_local s) j Hj), (Qp_tri0 (eval_node s) false (eval_node_local s) j Hj).
    cbn [eval_node]. rewrite (lit_true_neg s (Z.of_nat (S n + j))) by lia.
    destruct (lit_true s (Z.of_nat (S n + j))); cbn; lia.
  - rewrite Q_lit in Ei. discriminate.
  - rewrite Q_root in Ei. discriminate.
Qed.

(* ---------- the function and the count of Q ---------- *)
Lemma rootC : root C = (k - 1)%nat. Proof. reflexivity. Qed.

Lemma Q_eval (s : asg) : eval_root s Q = lit_true s l && eval_root s C.
Proof.
  rewrite !eval_root_nth, root_Q, rootC. unfold evals.
  rewrite (Qp_root (eval_node s) false (eval_node_local s)). cbn [eval_node].
  rewrite map_app, forallb_app. unfold newkids. cbn [map forallb].
  rewrite (Qp_lit (eval_node s) false (eval_node_local s)). cbn [eval_node id].
  assert (E1 : forallb id (map (fun c => nth c (pass (eval_node s) Q) false) (rev ors)) = true).
  { apply forallb_forall. intros b Hb. apply in_map_iff in Hb. destruct Hb as [c [<- Hc]].
    apply ors_In in Hc. destruct Hc as [j [Hj ->]].
    rewrite (Qp_tri2 (eval_node s) false (eval_node_local s) j Hj). cbn [eval_node map existsb].
    rewrite (Qp_tri1 (eval_node s) false (eval_node_local s) j Hj), (Qp_tri0 (eval_node s) false (eval_node_local s) j Hj).
    cbn [eval_node]. rewrite (lit_true_neg s (Z.of_nat (S n + j))) by lia.
    unfold id. now destruct (lit_true s (Z.of_nat (S n + j))). }
  rewrite E1, andb_true_r. f_equal.
  destruct r as [x|cs|cs| |] eqn:Er.
  2: { rewrite (Qp_oldkids_and (eval_node s) false cs Er), (Cp_root (eval_node s) false (eval_node_local s)).
       fold r. now rewrite Er. }
  all: rewrite (Qp_oldkids_notand (eval_node s) false (eval_node_local s)) by (intros cs'; rewrite Er; discriminate);
       cbn [forallb id]; now rewrite andb_true_r.
Qed.

Lemma zprod_const (g : nat -> Z) (L : list nat) (c : Z) :
  (forall x, In x L -> g x = c) -> zprod (map g L) = c ^ Z.of_nat (length L).
Proof.
  induction L as [|x L IH]; intros H; [reflexivity|].
  cbn [map length]. rewrite zprod_cons, IH by (intros y Hy; apply H; now right).
  rewrite (H x (or_introl eq_refl)), Nat2Z.inj_succ, Z.pow_succ_r by lia. reflexivity.
Qed.

Lemma Q_count : root_count Q = 2 ^ Z.of_nat m * root_count C.
Proof.
  rewrite !root_count_nth, root_Q, rootC. unfold counts.
  rewrite (Qp_root count_node 0 count_node_local). cbn [count_node].
  rewrite map_app, zprod_app. unfold newkids. cbn [map]. rewrite zprod_cons.
  rewrite (Qp_lit count_node 0 count_node_local). cbn [count_node].
  rewrite (zprod_const _ (rev ors) 2).
  - rewrite rev_length. unfold ors. rewrite map_length, seq_length. rewrite Z.mul_1_l. f_equal.
    destruct r as [x|cs|cs| |] eqn:Er.
    2: { rewrite (Qp_oldkids_and count_node 0 cs Er), (Cp_root count_node 0 count_node_local).
         fold r. now rewrite Er. }
    all: rewrite (Qp_oldkids_notand count_node 0 count_node_local) by (intros cs'; rewrite Er; discriminate);
         cbn [zprod fold_right]; lia.
  - intros c Hc. apply ors_In in Hc. destruct Hc as [j [Hj ->]].
    rewrite (Qp_tri2 count_node 0 count_node_local j Hj). cbn [count_node map zsum fold_right].
    rewrite (Qp_tri1 count_node 0 count_node_local j Hj), (Qp_tri0 count_node 0 count_node_local j Hj).
    reflexivity.
Qed.

Theorem Q_WF : WF Q n'.
Proof.
  constructor; [exact Q_ne|exact Q_ok|exact Q_decomposable|exact Q_smooth|exact Q_complete|exact Q_det].
Qed.

(* ---------- the leaves of Q ---------- *)
Lemma old_lit_range i x : all_reachable C = true -> (i < k)%nat -> nth i C FalseN = Lit x ->
  1 <= Z.abs x <= Z.of_nat n.
Proof.
  intros Hr Hi E. apply VC_root_range. rewrite <- rootC.
  apply (vars_below_root C Hok Hr k i); [unfold root; lia|unfold root; fold k; lia|].
  rewrite (varss_unfold C Hok i Hi []), E. now left.
Qed.

Definition posx (x : Z) : nat :=
  if Z.abs x =? Z.abs l then (k + 3 * m)%nat
  else let j := Z.to_nat (Z.abs x - Z.of_nat (S n)) in
       if 0 <? x then (k + 3 * j)%nat else (k + 3 * j + 1)%nat.

Lemma posx_pos j : (j < m)%nat -> posx (Z.of_nat (S n + j)) = (k + 3 * j)%nat.
Proof.
  intros Hj. unfold posx. pose proof l_abs as La.
  assert (E1 : (Z.abs (Z.of_nat (S n + j)) =? Z.abs l) = false) by (apply Z.eqb_neq; lia).
  assert (E2 : (0 <? Z.of_nat (S n + j)) = true) by (apply Z.ltb_lt; lia).
  rewrite E1, E2. f_equal. lia.
Qed.
Lemma posx_neg j : (j < m)%nat -> posx (- Z.of_nat (S n + j)) = (k + 3 * j + 1)%nat.
Proof.
  intros Hj. unfold posx. pose proof l_abs as La.
  assert (E1 : (Z.abs (- Z.of_nat (S n + j)) =? Z.abs l) = false) by (apply Z.eqb_neq; lia).
  assert (E2 : (0 <? - Z.of_nat (S n + j)) = false) by (apply Z.ltb_ge; lia).
  rewrite E1, E2. f_equal. lia.
Qed.

Lemma Q_lit_cases i x : (i < length Q)%nat -> nth i Q FalseN = Lit x ->
  ((i < k)%nat /\ nth i C FalseN = Lit x) \/ (Z.of_nat n < Z.abs x /\ i = posx x).
Proof.
  intros Hi E. pose proof k_pos.
  destruct (Q_cases i Hi) as [H1 | -> | j q Hj Hq -> | -> | ->].
  - left. rewrite (Q_old i H1) in E. split; [lia|exact E].
  - left. rewrite Q_slot in E. unfold slot in E. split; [lia|]. rewrite C_root.
    destruct r; try discriminate; exact E.
  - right. rewrite (Q_tri j q Hj Hq) in E.
    destruct q as [|[|[|q]]]; cbn [trif nth] in E; try discriminate; [| |lia].
    + assert (Ex : x = Z.of_nat (S n + j)) by (injection E as <-; lia). subst x.
      rewrite (posx_pos j Hj). split; [lia|lia].
    + assert (Ex : x = - Z.of_nat (S n + j)) by (injection E as <-; lia). subst x.
      rewrite (posx_neg j Hj). split; [lia|lia].
  - right. rewrite Q_lit in E. injection E as <-. unfold posx. rewrite Z.eqb_refl. split; [lia|reflexivity].
  - rewrite Q_root in E. discriminate.
Qed.

Lemma Q_unique : unique_leaves C = true -> all_reachable C = true -> unique_leaves Q = true.
Proof.
  intros Hun Hr. apply unique_leaves_intro. intros u k2 x Hu Hk Eu Ek.
  destruct (Q_lit_cases u x Hu Eu) as [[Hu1 Eu1]|[Hu1 ->]]; destruct (Q_lit_cases k2 x Hk Ek) as [[Hk1 Ek1]|[Hk1 ->]].
  - apply (unique_leaves_inj C u k2 x Hun); assumption.
  - pose proof (old_lit_range u x Hr Hu1 Eu1). lia.
  - pose proof (old_lit_range k2 x Hr Hk1 Ek1). lia.
  - reflexivity.
Qed.

Lemma Q_nonzero : lits_nonzero C = true -> lits_nonzero Q = true.
Proof.
  intros Hnz. unfold lits_nonzero in *. rewrite forallb_forall in *. intros x Hx.
  apply lits_of_In in Hx. apply (In_nth _ _ FalseN) in Hx. destruct Hx as [i [Hi Ei]].
  destruct (Q_lit_cases i x Hi Ei) as [[Hi1 Ei1]|[Hi1 _]].
  - apply Hnz. apply lits_of_In. rewrite <- Ei1. apply nth_In. exact Hi1.
  - apply negb_true_iff. apply Z.eqb_neq. lia.
Qed.

End New.

(* ================================================================ the theorems *)
Section Thm.
Variables (C : circuit) (n : nat) (l : Z).
Hypothesis HWF : WF C n.
Hypothesis Hl : Z.of_nat n < Z.abs l.
Let n' := Z.to_nat (Z.abs l).
Let Hne := wf_nonempty C n HWF.
Let Hok := wf_idx C n HWF.

Theorem unit_new_WF : WF (unit_edit_new C n l) n'.
Proof. rewrite unit_edit_new_Q. apply reflatten_WF. now apply Q_WF. Qed.

Theorem unit_new_WFQ : WFQ C n -> WFQ (unit_edit_new C n l) n'.
Proof.
  intros [_ Hun Hr Hnz]. rewrite unit_edit_new_Q. apply reflatten_WFQ.
  - now apply Q_WF.
  - now apply Q_unique.
  - now apply Q_nonzero.
Qed.

Theorem unit_new_eval (s : asg) : eval_root s (unit_edit_new C n l) = eval_root s C && lit_true s l.
Proof.
  rewrite unit_edit_new_Q, (eval_root_reflatten s _ (Q_ne C n l Hne Hok) (Q_ok C n l Hne Hok Hl)).
  rewrite (Q_eval C n l Hne Hok Hl s). apply andb_comm.
Qed.

Theorem unit_new_count : root_count (unit_edit_new C n l) = 2 ^ (Z.abs l - 1 - Z.of_nat n) * root_count C.
Proof.
  rewrite unit_edit_new_Q, (root_count_reflatten _ (Q_ne C n l Hne Hok) (Q_ok C n l Hne Hok Hl)).
  rewrite (Q_count C n l Hne Hok Hl). f_equal. f_equal. lia.
Qed.

Lemma l_in_range : 1 <= Z.abs l <= Z.of_nat n'. Proof. unfold n'. lia. Qed.

Theorem unit_new_sem : Models (unit_edit_new C n l) n' = filter (contains_all [l]) (Models C n').
Proof.
  unfold Models. rewrite filter_filter_and. apply filter_ext_in. intros m Hm.
  rewrite unit_new_eval. f_equal. cbn. rewrite andb_true_r. apply (lit_true_asg_of n' m l Hm l_in_range).
Qed.

Theorem unit_new_sem_assumptions (A : cfg) : ModelsA (unit_edit_new C n l) n' A = ModelsA C n' (l :: A).
Proof.
  unfold ModelsA. rewrite unit_new_sem, filter_filter_and. apply filter_ext. intros m. cbn. now rewrite andb_true_r.
Qed.

Lemma MCA_unit_new (A : cfg) : MCA (unit_edit_new C n l) n' A = MCA C n' (l :: A).
Proof. unfold MCA. now rewrite unit_new_sem_assumptions. Qed.

Lemma unit_new_count_pos : 0 < root_count C -> 0 < root_count (unit_edit_new C n l).
Proof. intros H. rewrite unit_new_count. apply Z.mul_pos_pos; [apply Z.pow_pos_nonneg; lia|exact H]. Qed.

Theorem unit_new_then_count (A : cfg) (s : scratch) :
  WFQ C n -> in_range n' A -> Clean (unit_edit_new C n l) s ->
  let '(s', r) := execute_query (build (unit_edit_new C n l) n') A s in
  r = MCA C n' (l :: A) /\ Clean (unit_edit_new C n l) s'.
Proof.
  intros HQ HA Hcl. pose proof (unit_new_WFQ HQ) as HQ'.
  pose proof (execute_query_correct (unit_edit_new C n l) n' A s HQ' HA Hcl) as H.
  destruct (execute_query (build (unit_edit_new C n l) n') A s) as [s' r]. destruct H as [H1 H2].
  split; [|exact H2]. rewrite H1. apply MCA_unit_new.
Qed.

Theorem unit_new_then_sat (A : cfg) :
  WFQ C n -> 0 < root_count C -> in_range n' A ->
  sat (build (unit_edit_new C n l) n') A = (0 <? MCA C n' (l :: A)).
Proof.
  intros HQ Hp HA. rewrite (sat_correct _ n' A (unit_new_WFQ HQ) (unit_new_count_pos Hp) HA).
  now rewrite MCA_unit_new.
Qed.

Theorem unit_new_then_core (x : Z) :
  0 < root_count C ->
  (In x (calculate_core (unit_edit_new C n l) n') <->
   (forall m, In m (Models C n') -> In l m -> In x m)).
Proof.
  intros Hp. rewrite (core_exact_WF _ n' x unit_new_WF (unit_new_count_pos Hp)), unit_new_sem. split.
  - intros H m Hm Hlm. apply H. apply filter_In. split; [exact Hm|]. cbn. rewrite andb_true_r. now apply memZ_In.
  - intros H m Hm. apply filter_In in Hm. destruct Hm as [Hm Hc]. cbn in Hc. rewrite andb_true_r in Hc.
    apply H; [exact Hm|now apply memZ_In].
Qed.

(* ---------- what Models C n' is: the models over n features, the new features free ---------- *)
Lemma lits_in_range : all_reachable C = true -> forall x, In (Lit x) C -> 1 <= Z.abs x <= Z.of_nat n.
Proof.
  intros Hr x Hx. apply (In_nth _ _ FalseN) in Hx. destruct Hx as [i [Hi Ei]].
  exact (old_lit_range C n l Hok Hl HWF i x Hr Hi Ei).
Qed.

Lemma eval_restrict (m : cfg) : all_reachable C = true ->
  eval_root (asg_of (canon n (asg_of m))) C = eval_root (asg_of m) C.
Proof.
  intros Hr. apply eval_root_ext. intros x Hx. apply asg_canon. pose proof (lits_in_range Hr x Hx). lia.
Qed.

Theorem models_lift (m : cfg) : all_reachable C = true ->
  (In m (Models C n') <-> In m (all_cfgs n') /\ In (canon n (asg_of m)) (Models C n)).
Proof.
  intros Hr. unfold Models. rewrite !filter_In, (eval_restrict m Hr). split.
  - intros [H1 H2]. split; [exact H1|]. split; [apply canon_in_all|exact H2].
  - intros [H1 [_ H2]]. now split.
Qed.

(* ---------- agreement with the specification ---------- *)
Lemma filter_eq_pointwise {A} (p q : A -> bool) (L : list A) :
  filter p L = filter q L -> forall x, In x L -> p x = q x.
Proof.
  intros E x Hx. destruct (p x) eqn:Ep; destruct (q x) eqn:Eq; try reflexivity.
  - assert (H : In x (filter p L)) by (apply filter_In; auto). rewrite E in H. apply filter_In in H.
    destruct H; congruence.
  - assert (H : In x (filter q L)) by (apply filter_In; auto). rewrite <- E in H. apply filter_In in H.
    destruct H; congruence.
Qed.

Lemma cnf_true_ext (s s' : asg) (F : cnf) :
  (forall c x, In c F -> In x c -> s (Z.abs x) = s' (Z.abs x)) -> cnf_true s F = cnf_true s' F.
Proof.
  intros H. unfold cnf_true. apply forallb_ext_in. intros c Hc. unfold clause_true.
  apply existsb_ext_in. intros x Hx. apply lit_true_ext. exact (H c x Hc Hx).
Qed.

Theorem unit_new_is_spec (F : cnf) :
  all_reachable C = true ->
  (forall c x, In c F -> In x c -> 1 <= Z.abs x <= Z.of_nat n) ->
  Models C n = cnf_models_n F n ->
  Models (unit_edit_new C n l) n' = cnf_models_n (fst (edit_spec F n [[l]] [])) n'
  /\ snd (edit_spec F n [[l]] []) = n'.
Proof.
  intros Hr HFr HF. split.
  - rewrite unit_new_sem. unfold Models, cnf_models_n. rewrite filter_filter_and.
    apply filter_ext_in. intros m Hm. rewrite edit_spec_add_true.
    + f_equal.
      * rewrite <- (eval_restrict m Hr).
        rewrite <- (cnf_true_ext (asg_of (canon n (asg_of m))) (asg_of m) F).
        -- unfold Models, cnf_models_n in HF. apply (filter_eq_pointwise _ _ _ HF). apply canon_in_all.
        -- intros c x Hc Hx. apply asg_canon. pose proof (HFr c x Hc Hx). lia.
      * cbn. rewrite !andb_true_r, orb_false_r. symmetry. apply (lit_true_asg_of n' m l Hm l_in_range).
    + intros c [<-|[]]. discriminate.
    + intros c [<-|[]] [H|[]]. lia.
  - rewrite edit_spec_n. cbn [filter_map']. unfold norm_clause. cbn [is_nil orb is_taut existsb memZ].
    assert (E : (- l =? l) = false) by (apply Z.eqb_neq; lia). rewrite E.
    cbn [orb dedup memZ existsb max_var fold_right]. unfold n'. lia.
Qed.

End Thm.
