(* Pages of one key are handed out cyclically: nothing twice within a cycle (C17, second half). *)
From Coq Require Import List ZArith Bool Arith Lia Permutation.
From DD Require Import Model.Cursor Proofs.Cursor.
Import ListNotations.

(* ---------- arithmetic of the cyclic index sequence ---------- *)
Lemma mod_succ_small : forall c T, S (T mod c) < c -> S T mod c = S (T mod c).
Proof.
  intros c T H. symmetry. apply Nat.mod_unique with (q := T / c); [exact H|].
  assert (Hc : c <> 0) by lia. pose proof (Nat.div_mod T c Hc) as E. lia.
Qed.

Lemma map_mod_seq : forall c len T, T mod c + len <= c ->
  map (fun j => j mod c) (seq T len) = seq (T mod c) len.
Proof.
  intros c len. induction len as [|n IH]; intros T H; [reflexivity|].
  cbn [seq map]. f_equal. destruct n as [|m]; [reflexivity|].
  rewrite IH; rewrite mod_succ_small by lia; [reflexivity|lia].
Qed.

Lemma cyc_small : forall c T, 0 < c -> T <= c -> cyc c T = seq 0 T.
Proof.
  intros c T Hc H. unfold cyc. rewrite map_mod_seq; rewrite Nat.mod_0_l by lia; [reflexivity|lia].
Qed.

Lemma cyc_length : forall c T, length (cyc c T) = T.
Proof. intros. unfold cyc. rewrite map_length, seq_length. reflexivity. Qed.

Lemma cyc_S : forall c T, cyc c (S T) = cyc c T ++ [T mod c].
Proof. intros. unfold cyc. rewrite seq_S, map_app. reflexivity. Qed.

(* every index occurs once per completed cycle, and once more iff it lies in the started one *)
Lemma count_cyc : forall c T j, 0 < c -> j < c ->
  count_occ Nat.eq_dec (cyc c T) j = T / c + (if j <? T mod c then 1 else 0).
Proof.
  intros c T j Hc Hj. assert (Hc0 : c <> 0) by lia.
  induction T as [|T IH].
  - rewrite Nat.div_0_l, Nat.mod_0_l by exact Hc0. reflexivity.
  - rewrite cyc_S, count_occ_app, IH. cbn [count_occ].
    pose proof (Nat.div_mod T c Hc0) as E.
    pose proof (Nat.mod_upper_bound T c Hc0) as Hr.
    destruct (Nat.eq_dec (S (T mod c)) c) as [Hw|Hw].
    + assert (Eq : S T / c = S (T / c)).
      { symmetry. apply Nat.div_unique with (r := 0); [lia|]. lia. }
      assert (Er : S T mod c = 0).
      { symmetry. apply Nat.mod_unique with (q := S (T / c)); [lia|]. lia. }
      rewrite Eq, Er.
      destruct (Nat.eq_dec (T mod c) j) as [Ej|Ej]; destruct (Nat.ltb_spec j (T mod c)); destruct (Nat.ltb_spec j 0); lia.
    + assert (Eq : S T / c = T / c).
      { symmetry. apply Nat.div_unique with (r := S (T mod c)); [lia|]. lia. }
      assert (Er : S T mod c = S (T mod c)) by (apply mod_succ_small; lia).
      rewrite Eq, Er.
      destruct (Nat.eq_dec (T mod c) j) as [Ej|Ej]; destruct (Nat.ltb_spec j (T mod c)); destruct (Nat.ltb_spec j (S (T mod c))); lia.
Qed.

(* ---------- one sequential step on key k ---------- *)
Lemma seq_step_key : forall cnt cur r T,
  0 < cnt (rkey r) -> 0 < ramount r -> cur (rkey r) = T mod cnt (rkey r) ->
  let c := cnt (rkey r) in
  let len := Nat.min (ramount r) (c - T mod c) in
  snd (seq_step cnt cur r) = map (fun j => j mod c) (seq T len) /\
  fst (seq_step cnt cur r) (rkey r) = (T + len) mod c /\
  0 < len.
Proof.
  intros cnt cur r T Hc Ha Hcur c len. subst c len. set (c := cnt (rkey r)) in *.
  assert (Hc0 : c <> 0) by lia.
  pose proof (Nat.mod_upper_bound T c Hc0) as Hs.
  unfold seq_step. cbn [fst snd]. rewrite upd_same. unfold next_cur, stop_of, page. fold c. rewrite Hcur.
  set (s := T mod c) in *.
  assert (El : Nat.min c (s + ramount r) - s = Nat.min (ramount r) (c - s)) by lia.
  rewrite El. split; [|split].
  - rewrite map_mod_seq; [reflexivity|]. fold s. lia.
  - replace (Nat.min c (s + ramount r)) with (s + Nat.min (ramount r) (c - s)) by lia.
    subst s. apply Nat.add_mod_idemp_l. exact Hc0.
  - lia.
Qed.

(* ---------- a sequential run on one key ---------- *)
Lemma seq_run_cyc_from : forall cnt k rs cur T0,
  0 < cnt k -> cur k = T0 mod cnt k ->
  (forall r, In r rs -> rkey r = k /\ 0 < ramount r) ->
  exists T1, T0 <= T1 /\
    concat (seq_run cnt cur rs) = map (fun j => j mod cnt k) (seq T0 (T1 - T0)) /\
    seq_cursor cnt cur rs k = T1 mod cnt k /\
    (rs <> [] -> T0 < T1).
Proof.
  intros cnt k rs. induction rs as [|r t IH]; intros cur T0 Hc Hcur Hall.
  - exists T0. unfold seq_run, seq_cursor. cbn [seq_exec fst snd concat]. rewrite Nat.sub_diag.
    repeat split; [lia|exact Hcur|]. intros N. contradiction.
  - destruct (Hall r (or_introl eq_refl)) as [Ek Ha].
    assert (Hc' : 0 < cnt (rkey r)) by (rewrite Ek; exact Hc).
    assert (Hcur' : cur (rkey r) = T0 mod cnt (rkey r)) by (rewrite Ek; exact Hcur).
    destruct (seq_step_key cnt cur r T0 Hc' Ha Hcur') as (Hp & Hn & Hl).
    rewrite Ek in Hp, Hn, Hl. set (len := Nat.min (ramount r) (cnt k - T0 mod cnt k)) in *.
    destruct (IH (fst (seq_step cnt cur r)) (T0 + len) Hc Hn) as (T1 & Hle & Hcat & Hcu & _).
    { intros r' Hr'. apply Hall. right. exact Hr'. }
    exists T1. unfold seq_run, seq_cursor in *. cbn [seq_exec].
    destruct (seq_step cnt cur r) as [c1 p] eqn:Es. cbn [fst snd] in *.
    destruct (seq_exec cnt c1 t) as [c2 l] eqn:Et. cbn [fst snd concat] in *.
    repeat split.
    + lia.
    + rewrite Hp, Hcat, <- map_app. f_equal.
      replace (T1 - T0) with (len + (T1 - (T0 + len))) by lia. symmetry. apply seq_app.
    + exact Hcu.
    + intros _. lia.
Qed.

Theorem seq_run_is_cycle : forall cnt k rs cur0,
  0 < cnt k -> cur0 k = 0 ->
  (forall r, In r rs -> rkey r = k /\ 0 < ramount r) ->
  let pages := seq_run cnt cur0 rs in
  concat pages = cyc (cnt k) (length (concat pages)).
Proof.
  intros cnt k rs cur0 Hc H0 Hall pages. subst pages.
  destruct (seq_run_cyc_from cnt k rs cur0 0 Hc) as (T1 & _ & Hcat & _ & _).
  - rewrite Nat.mod_0_l by lia. exact H0.
  - exact Hall.
  - rewrite Nat.sub_0_r in Hcat. rewrite Hcat. unfold cyc. rewrite map_length, seq_length. reflexivity.
Qed.

Lemma In_firstn : forall A n (l : list A) x, In x (firstn n l) -> In x l.
Proof.
  intros A n. induction n as [|m IH]; intros l x H; [destruct H|].
  destruct l as [|h t]; [destruct H|]. cbn [firstn] in H. destruct H as [<-|H]; [left; reflexivity|right; apply IH; exact H].
Qed.

(* prefixes of a sequential run are sequential runs *)
Lemma seq_run_firstn : forall cnt rs cur n, firstn n (seq_run cnt cur rs) = seq_run cnt cur (firstn n rs).
Proof.
  intros cnt rs. induction rs as [|r t IH]; intros cur n.
  - destruct n; reflexivity.
  - destruct n as [|m]; [reflexivity|]. unfold seq_run in *. cbn [firstn seq_exec].
    destruct (seq_step cnt cur r) as [c1 p]. specialize (IH c1 m).
    destruct (seq_exec cnt c1 t) as [c2 l]. destruct (seq_exec cnt c1 (firstn m t)) as [c3 l3].
    cbn [snd firstn] in *. rewrite IH. reflexivity.
Qed.

Lemma seq_run_length : forall cnt rs cur, length (seq_run cnt cur rs) = length rs.
Proof.
  intros cnt rs. induction rs as [|r t IH]; intros cur; [reflexivity|].
  unfold seq_run in *. cbn [seq_exec]. destruct (seq_step cnt cur r) as [c1 p]. specialize (IH c1).
  destruct (seq_exec cnt c1 t) as [c2 l]. cbn [snd length] in *. rewrite IH. reflexivity.
Qed.

(* size of a page: the requested amount, cut at the end of the cycle *)
Lemma seq_step_size : forall cnt cur r, cur (rkey r) < cnt (rkey r) ->
  length (snd (seq_step cnt cur r)) = Nat.min (ramount r) (cnt (rkey r) - cur (rkey r)).
Proof.
  intros cnt cur r H. unfold seq_step, page, stop_of. cbn [snd]. rewrite seq_length. lia.
Qed.

Theorem disjoint_within_cycle : forall cnt k rs cur0,
  0 < cnt k -> cur0 k = 0 ->
  (forall r, In r rs -> rkey r = k /\ 0 < ramount r) ->
  let c := cnt k in
  let pages := seq_run cnt cur0 rs in
  let T := length (concat pages) in
  (* the pages, one after another, walk through 0..c-1 again and again *)
  concat pages = cyc c T /\
  (* as long as at most c configurations were handed out none was handed out twice *)
  (forall n, length (concat (firstn n pages)) <= c -> NoDup (concat (firstn n pages))) /\
  (* in general every index was handed out once per completed cycle (+1 in the started cycle) *)
  (forall j, j < c -> count_occ Nat.eq_dec (concat pages) j = T / c + (if j <? T mod c then 1 else 0)) /\
  (* no request is answered with an empty page *)
  (forall p, In p pages -> p <> []).
Proof.
  intros cnt k rs cur0 Hc H0 Hall c pages T. subst c pages T.
  pose proof (seq_run_is_cycle cnt k rs cur0 Hc H0 Hall) as Hcyc. cbv zeta in Hcyc.
  split; [exact Hcyc|]. split; [|split].
  - intros n Hn. rewrite seq_run_firstn in *.
    assert (Hall' : forall r, In r (firstn n rs) -> rkey r = k /\ 0 < ramount r).
    { intros r Hr. apply Hall. apply In_firstn in Hr. exact Hr. }
    pose proof (seq_run_is_cycle cnt k (firstn n rs) cur0 Hc H0 Hall') as Hc'. cbv zeta in Hc'.
    rewrite Hc'. rewrite cyc_small by assumption. apply seq_NoDup.
  - intros j Hj. rewrite Hcyc at 1. apply count_cyc; assumption.
  - clear Hcyc. assert (H0' : cur0 k = 0 mod cnt k) by (rewrite Nat.mod_0_l by lia; exact H0).
    clear H0. revert H0'. generalize 0 as T0. revert cur0. unfold seq_run.
    induction rs as [|r t IH]; intros cur0 T0 Hcur p Hp; [destruct Hp|].
    destruct (Hall r (or_introl eq_refl)) as [Ek Ha].
    assert (Hc' : 0 < cnt (rkey r)) by (rewrite Ek; exact Hc).
    assert (Hcur' : cur0 (rkey r) = T0 mod cnt (rkey r)) by (rewrite Ek; exact Hcur).
    destruct (seq_step_key cnt cur0 r T0 Hc' Ha Hcur') as (Hpg & Hn & Hl).
    cbn [seq_exec] in Hp. destruct (seq_step cnt cur0 r) as [c1 pg] eqn:Es. cbn [fst snd] in *.
    destruct (seq_exec cnt c1 t) as [c2 l] eqn:Et. cbn [snd] in Hp. destruct Hp as [<-|Hp].
    + rewrite Hpg. intros Hnil. apply (f_equal (@length nat)) in Hnil.
      rewrite map_length, seq_length in Hnil. cbn [length] in Hnil. lia.
    + rewrite Ek in Hn.
      apply (IH (fun r' Hr' => Hall r' (or_intror Hr')) c1 _ Hn p). rewrite Et. exact Hp.
Qed.

(* ---------- projection of a mixed-key sequential run onto one key ---------- *)
Definition on_key (k : key) (r : request) : bool := key_eqb k (rkey r).

Fixpoint pick {A B} (f : A -> bool) (xs : list A) (ys : list B) : list B :=
  match xs, ys with
  | x :: xt, y :: yt => if f x then y :: pick f xt yt else pick f xt yt
  | _, _ => []
  end.

Lemma seq_run_project : forall cnt k rs cur cur',
  cur k = cur' k ->
  pick (on_key k) rs (seq_run cnt cur rs) = seq_run cnt cur' (filter (on_key k) rs) /\
  seq_cursor cnt cur rs k = seq_cursor cnt cur' (filter (on_key k) rs) k.
Proof.
  intros cnt k rs. unfold seq_run, seq_cursor. induction rs as [|r t IH]; intros cur cur' E.
  - cbn [filter seq_exec pick fst snd]. split; [reflexivity|exact E].
  - cbn [filter]. destruct (on_key k r) eqn:Ek.
    + pose proof Ek as Ek2. unfold on_key in Ek2. apply key_eqb_eq in Ek2. cbn [seq_exec].
      assert (E1 : fst (seq_step cnt cur r) k = fst (seq_step cnt cur' r) k).
      { unfold seq_step. cbn [fst]. rewrite <- Ek2, !upd_same, E. reflexivity. }
      assert (E2 : snd (seq_step cnt cur r) = snd (seq_step cnt cur' r)).
      { unfold seq_step. cbn [snd]. rewrite <- Ek2, E. reflexivity. }
      destruct (seq_step cnt cur r) as [c1 p]. destruct (seq_step cnt cur' r) as [c1' p'].
      cbn [fst snd] in E1, E2. subst p'. destruct (IH c1 c1' E1) as [IH1 IH2].
      destruct (seq_exec cnt c1 t) as [c2 l]. destruct (seq_exec cnt c1' (filter (on_key k) t)) as [c2' l'].
      cbn [fst snd pick] in *. rewrite Ek.
      split; [rewrite IH1; reflexivity|exact IH2].
    + cbn [seq_exec].
      assert (E1 : fst (seq_step cnt cur r) k = cur' k).
      { unfold seq_step. cbn [fst]. rewrite upd_other; [exact E|].
        intros Hk. unfold on_key in Ek. rewrite Hk, key_eqb_refl in Ek. discriminate. }
      destruct (seq_step cnt cur r) as [c1 p]. cbn [fst] in E1. destruct (IH c1 cur' E1) as [IH1 IH2].
      destruct (seq_exec cnt c1 t) as [c2 l]. cbn [fst snd pick] in *. rewrite Ek.
      split; assumption.
Qed.

Lemma pick_select : forall A B (f : A -> bool) (g : nat -> A) (h : nat -> B) idx,
  pick f (map g idx) (map h idx) = map h (filter (fun i => f (g i)) idx).
Proof.
  intros A B f g h idx. induction idx as [|i t IH]; [reflexivity|].
  cbn [map pick filter]. destruct (f (g i)); cbn [map]; rewrite IH; reflexivity.
Qed.

Lemma Permutation_filter' : forall A (f : A -> bool) l l', Permutation l l' -> Permutation (filter f l) (filter f l').
Proof.
  intros A f l l' H. induction H as [|x l l' H IH|x y l|l l' l'' H1 IH1 H2 IH2]; cbn [filter].
  - constructor.
  - destruct (f x); [constructor|]; exact IH.
  - destruct (f x); destruct (f y); try apply Permutation_refl. constructor.
  - eapply Permutation_trans; eassumption.
Qed.

Lemma Permutation_concat_map : forall A B (g : A -> list B) l l', Permutation l l' ->
  Permutation (concat (map g l)) (concat (map g l')).
Proof.
  intros A B g l l' H. rewrite <- !flat_map_concat_map. apply Permutation_flat_map. exact H.
Qed.

(* ---------- corollary for concurrent runs of the repaired protocol ---------- *)
Theorem concurrent_cycle : forall cnt reqs cur0 es st k,
  r_run cnt reqs (r_init cur0 reqs) es st -> r_complete st = true ->
  0 < cnt k -> cur0 k = 0 -> (forall r, In r reqs -> 0 < ramount r) ->
  let mine := fun i => on_key k (nth i reqs dreq) in
  let in_reserve_order := select [] (r_answers st) (filter mine (reserve_order es)) in
  let in_request_order := select [] (r_answers st) (filter mine (seq 0 (length reqs))) in
  let T := length (concat in_request_order) in
  concat in_reserve_order = cyc (cnt k) T /\
  Permutation (concat in_request_order) (cyc (cnt k) T) /\
  (T <= cnt k -> NoDup (concat in_request_order)) /\
  (forall j, j < cnt k ->
     count_occ Nat.eq_dec (concat in_request_order) j = T / cnt k + (if j <? T mod cnt k then 1 else 0)).
Proof.
  intros cnt reqs cur0 es st k Hrun Hcomp Hc H0 Hamt mine a_res a_req T.
  destruct (serialisable cnt reqs cur0 es st Hrun Hcomp) as (Hperm & Hpr & Hans & _).
  set (ro := reserve_order es) in *.
  (* the key-k answers in reserve order are a sequential run of the key-k requests *)
  assert (Hproj : a_res = seq_run cnt cur0 (filter (on_key k) (select dreq reqs ro))).
  { destruct (seq_run_project cnt k (select dreq reqs ro) cur0 cur0 eq_refl) as [Hp _].
    rewrite <- Hp, Hans. unfold select. rewrite pick_select. reflexivity. }
  assert (Hall : forall r, In r (filter (on_key k) (select dreq reqs ro)) -> rkey r = k /\ 0 < ramount r).
  { intros r Hr. apply filter_In in Hr. destruct Hr as [Hin Hk]. split.
    - unfold on_key in Hk. apply key_eqb_eq in Hk. symmetry. exact Hk.
    - apply Hamt. eapply Permutation_in; [exact Hpr|exact Hin]. }
  pose proof (seq_run_is_cycle cnt k _ cur0 Hc H0 Hall) as Hcyc. cbv zeta in Hcyc. rewrite <- Hproj in Hcyc.
  assert (HP : Permutation (concat a_req) (concat a_res)).
  { subst a_req a_res. unfold select. apply Permutation_concat_map. apply Permutation_filter'.
    apply Permutation_sym. exact Hperm. }
  assert (HT : length (concat a_res) = T).
  { subst T. symmetry. apply Permutation_length. exact HP. }
  rewrite HT in Hcyc. split; [exact Hcyc|]. split; [rewrite <- Hcyc; exact HP|]. split.
  - intros HTc. eapply Permutation_NoDup; [apply Permutation_sym; exact HP|].
    rewrite Hcyc, cyc_small by assumption. apply seq_NoDup.
  - intros j Hj. rewrite <- (count_cyc (cnt k) T j Hc Hj), <- Hcyc.
    revert HP. generalize (concat a_req) (concat a_res). intros l l' HP.
    induction HP as [|x l l' HP IH|x y l|l l' l'' H1 IH1 H2 IH2]; cbn [count_occ].
    + reflexivity.
    + destruct (Nat.eq_dec x j); rewrite IH; reflexivity.
    + destruct (Nat.eq_dec x j); destruct (Nat.eq_dec y j); reflexivity.
    + rewrite IH1. exact IH2.
Qed.
