(* Feature sets below the nodes of the graph (gfold hvars = Circuit.vars_node), up to set
   equality / inclusion: every live node has a value (all_def); the second traversal can only
   shrink the sets; decomposability as an invariant. *)
From Coq Require Import List ZArith Bool Lia Arith Sorting.Sorted.
From DD Require Import Model.Circuit Model.Query Model.LexerD4 Model.LoadC2d Model.LoadD4 Spec.D4Sem Spec.D4Conform
  Proofs.PassLemmas Proofs.Renum Proofs.C10Load Proofs.LoadD4Ord Proofs.LoadD4Graph Proofs.LoadD4Ops Proofs.LoadD4Fold
  Proofs.LoadD4Flat Proofs.LoadD4Iso Proofs.LoadD4Pass2 Proofs.LoadD4Pass2S Proofs.LoadD4Struct
  Proofs.LoadD4Pass3 Proofs.LoadD4Free Proofs.LoadD4Parse Proofs.LoadD4Conf.
Import ListNotations.
Local Open Scope nat_scope.

Definition GVs (g : sgraph) (x : nat) (v : list Z) : Prop := GF hvars g x v.
Definition all_def (g : sgraph) : Prop := forall x, sg_alive g x = true -> GDef g x.
Definition disj (a b : list Z) : Prop := forall v, In v a -> ~ In v b.
Definition seteq (a b : list Z) : Prop := forall v, In v a <-> In v b.

Lemma GDef_vars g x : GDef g x -> exists v, GVs g x v.
Proof. intros [f Hf]. destruct (GDef_GF hvars g f x Hf) as [v Hv]. exists v. now exists f. Qed.
Lemma vars_GDef g x v : GVs g x v -> GDef g x.
Proof. intros [f Hf]. exists f. exact (GF_GDef hvars g f x v Hf). Qed.

Lemma GDef_children g x : GDef g x -> forall t, sg_label g x = Some t -> is_gate t = true ->
  exists vs, Forall2 (GVs g) (sg_out g x) vs.
Proof.
  intros Hd t Hl Ht. destruct (GDef_vars g x Hd) as [v Hv].
  destruct (GF_gate_inv hvars g x t v Hl Ht Hv) as [vs [Hvs _]]. now exists vs.
Qed.

(* ---------- selecting a sub-list of values ---------- *)
Inductive subsel {A} (R : A -> A -> Prop) : list A -> list A -> Prop :=
| ss_nil : subsel R [] []
| ss_skip x l1 l2 : subsel R l1 l2 -> subsel R l1 (x :: l2)
| ss_keep x' x l1 l2 : R x' x -> subsel R l1 l2 -> subsel R (x' :: l1) (x :: l2).

Lemma subsel_concat_incl (vs' vs : list (list Z)) : subsel (@incl Z) vs' vs -> incl (concat vs') (concat vs).
Proof.
  induction 1 as [|x l1 l2 _ IH|x' x l1 l2 Hx _ IH]; cbn [concat]; intros v Hv.
  - exact Hv.
  - apply in_or_app. right. now apply IH.
  - apply in_app_or in Hv. apply in_or_app. destruct Hv as [Hv|Hv]; [left; now apply Hx|right; now apply IH].
Qed.

Lemma subsel_In {A} (R : A -> A -> Prop) l1 l2 x' : subsel R l1 l2 -> In x' l1 -> exists x, In x l2 /\ R x' x.
Proof.
  induction 1 as [|x l1 l2 _ IH|y' y l1 l2 Hy _ IH]; intros Hin; [destruct Hin| |].
  - destruct (IH Hin) as [z [Hz Hr]]. exists z. split; [now right|exact Hr].
  - destruct Hin as [<-|Hin]; [exists y; split; [now left|exact Hy]|].
    destruct (IH Hin) as [z [Hz Hr]]. exists z. split; [now right|exact Hr].
Qed.

Lemma subsel_PW_disj (vs' vs : list (list Z)) : subsel (@incl Z) vs' vs -> PW disj vs -> PW disj vs'.
Proof.
  induction 1 as [|x l1 l2 _ IH|x' x l1 l2 Hx Hs IH]; intros HP; [exact I| |]; destruct HP as [H1 H2].
  - now apply IH.
  - split; [|now apply IH]. apply Forall_forall. intros y' Hy'.
    destruct (subsel_In _ _ _ _ Hs Hy') as [y [Hy Hyy]]. rewrite Forall_forall in H1.
    intros v Hv Hv'. apply (H1 y Hy v); [now apply Hx|now apply Hyy].
Qed.

(* values of the children that are kept, along a sublist *)
Lemma sublist_values {A} (P Q : nat -> A -> Prop) (R : A -> A -> Prop) (keep : nat -> Prop) l' l vs :
  sublist l' l -> (forall c, In c l' -> keep c) ->
  Forall2 (fun c v => P c v /\ (keep c -> exists v', Q c v' /\ R v' v)) l vs ->
  exists vs', Forall2 Q l' vs' /\ subsel R vs' vs.
Proof.
  intros Hs. revert vs. induction Hs as [|x l1 l2 _ IH|x l1 l2 _ IH]; intros vs Hk H.
  - inversion H; subst. exists []. split; constructor.
  - inversion H as [|? v ? vs0 _ Hr]; subst. destruct (IH vs0 Hk Hr) as [vs' [H1 H2]].
    exists vs'. split; [exact H1|now constructor].
  - inversion H as [|? v ? vs0 [_ Hx] Hr]; subst.
    destruct (Hx (Hk x (or_introl eq_refl))) as [v' [Hv' Hrv]].
    destruct (IH vs0 (fun c Hc => Hk c (or_intror Hc)) Hr) as [vs' [H1 H2]].
    exists (v' :: vs'). split; [now constructor|now constructor].
Qed.

(* ---------- the second traversal ---------- *)
Section Shrink.
Variables (g g' : sgraph).
Hypothesis HS : step_ok g g'.

Lemma shrink_label_cases x : sg_alive g' x = true ->
  sg_label g' x = sg_label g x \/ (sg_label g x = Some GOr /\ sg_label g' x = Some GTrue).
Proof. exact (sh_label _ _ (so_sh _ _ HS) x). Qed.

Lemma shrink_fold {A} (h : tid -> list A -> A) (R : A -> A -> Prop) :
  (forall t, is_gate t = false -> R (h t []) (h t [])) ->
  (forall v, R (h GTrue []) v) ->
  (forall t vs' vs, is_gate t = true -> subsel R vs' vs -> R (h t vs') (h t vs)) ->
  forall x v, sg_alive g' x = true -> GF h g x v -> exists v', GF h g' x v' /\ R v' v.
Proof.
  intros Hleaf Htrue Hgate x v Ha Hv.
  apply (gf_transfer h g g' (fun y => sg_alive g' y = true) R); auto.
  - intros y Hy. destruct (shrink_label_cases y Hy) as [E|[_ E]]; [now left|].
    right. exists GTrue. split; [exact E|]. split; [reflexivity|]. intros v0 _. apply Htrue.
  - intros y t vs Hy Hl' Hl Ht H.
    destruct (sublist_values _ (GF h g') R _ _ _ _ (s2_sub _ _ (so_s2 _ _ HS) y)
                (fun c Hc => proj2 (out_alive g' y c (proj1 (so_inv _ _ HS)) Hc)) H) as [vs' [H1 H2]].
    exists vs'. split; [exact H1|now apply Hgate].
Qed.

Lemma shrink_vars x v : sg_alive g' x = true -> GVs g x v -> exists v', GVs g' x v' /\ incl v' v.
Proof.
  apply (shrink_fold hvars (@incl Z)).
  - intros t _. apply incl_refl.
  - intros v0 z [].
  - intros t vs' vs Ht Hs. destruct t; try discriminate; cbn [hvars]; now apply subsel_concat_incl.
Qed.

Lemma shrink_all_def : all_def g -> all_def g'.
Proof.
  intros Hd x Ha. pose proof (Hd x (shrink_alive _ _ x (so_sh _ _ HS) Ha)) as Hx.
  destruct (shrink_fold hunit (fun _ _ => True) (fun _ _ => I) (fun _ => I) (fun _ _ _ _ _ => I) x tt Ha Hx) as [[] [H _]].
  exact H.
Qed.
End Shrink.

(* ---------- decomposability as an invariant ---------- *)
Definition dec_ok (g : sgraph) : Prop :=
  forall x vs, sg_label g x = Some GAnd -> Forall2 (GVs g) (sg_out g x) vs -> PW disj vs.

Lemma Forall2_GF_det {A} (h : tid -> list A -> A) g l vs vs' :
  Forall2 (GF h g) l vs -> Forall2 (GF h g) l vs' -> vs = vs'.
Proof.
  intros H. revert vs'. induction H as [|x v l vs Hv _ IH]; intros vs' H'; inversion H'; subst; [reflexivity|].
  f_equal; [eapply GF_det; eassumption|now apply IH].
Qed.

Lemma dec_ok_shrink g g' : step_ok g g' -> all_def g -> dec_ok g -> dec_ok g'.
Proof.
  intros HS Hdef Hd x vs' Hl Hvs'.
  assert (Hlg : sg_label g x = Some GAnd) by (apply (shrink_label_back g g'); [apply (so_sh _ _ HS)|exact Hl|discriminate]).
  assert (Ha : sg_alive g x = true) by (unfold sg_alive; now rewrite Hlg).
  destruct (GDef_children g x (Hdef x Ha) _ Hlg eq_refl) as [vs Hvs].
  assert (H : Forall2 (fun c v => GVs g c v /\ (sg_alive g' c = true -> exists v', GVs g' c v' /\ incl v' v)) (sg_out g x) vs).
  { eapply Forall2_impl; [|exact Hvs]. intros c v Hc. split; [exact Hc|]. intros Hac. now apply (shrink_vars g g' HS). }
  destruct (sublist_values _ (GVs g') (@incl Z) _ _ _ _ (s2_sub _ _ (so_s2 _ _ HS) x)
              (fun c Hc => proj2 (out_alive g' x c (proj1 (so_inv _ _ HS)) Hc)) H) as [vs'' [H1 H2]].
  rewrite (Forall2_GF_det hvars g' _ _ _ Hvs' H1). exact (subsel_PW_disj _ _ H2 (Hd x vs Hlg Hvs)).
Qed.

(* ---------- set equality ---------- *)
Lemma seteq_refl a : seteq a a.
Proof. intros v. tauto. Qed.
Lemma seteq_sym a b : seteq a b -> seteq b a.
Proof. intros H v. symmetry. apply H. Qed.
Lemma seteq_trans a b c : seteq a b -> seteq b c -> seteq a c.
Proof. intros H1 H2 v. rewrite (H1 v). apply H2. Qed.

Lemma concat_seteq (vs' vs : list (list Z)) : Forall2 seteq vs' vs -> seteq (concat vs') (concat vs).
Proof.
  induction 1 as [|a b l l' Hab _ IH]; [apply seteq_refl|]. cbn [concat]. intros v.
  rewrite !in_app_iff, (Hab v), (IH v). tauto.
Qed.

Lemma PW_disj_seteq (vs' vs : list (list Z)) : Forall2 seteq vs' vs -> PW disj vs -> PW disj vs'.
Proof.
  induction 1 as [|a b l l' Hab Hr IH]; intros HP; [exact I|]. destruct HP as [H1 H2]. split; [|now apply IH].
  apply Forall_forall. intros y' Hy'. destruct (Forall2_In_l _ _ _ _ Hr Hy') as [y [Hy Hyy]].
  rewrite Forall_forall in H1. intros v Hv Hv'. apply (H1 y Hy v); [now apply Hab|now apply Hyy].
Qed.

(* the value of an or-triangle *)
Lemma tri_vars g f o : tri_node g f o -> GVs g o [Z.of_nat f; Z.of_nat f].
Proof.
  intros [Hf [Hl [n [p [Ho [Hn Hp]]]]]].
  assert (E : [Z.of_nat f; Z.of_nat f] = hvars GOr [[Z.abs (- Z.of_nat f)]; [Z.abs (Z.of_nat f)]]).
  { cbn [hvars concat app]. f_equal; [lia|f_equal; lia]. }
  rewrite E. apply (GF_gate hvars g o GOr); [exact Hl|reflexivity|]. rewrite Ho.
  constructor; [exact (GF_leaf hvars g n _ Hn eq_refl)|constructor; [exact (GF_leaf hvars g p _ Hp eq_refl)|constructor]].
Qed.

(* ---------- the table of get_literal_diffs is exact ---------- *)
Definition zs (l : list nat) : list Z := map Z.of_nat l.
Definition mexact (g : sgraph) (m : list (nat * list nat)) : Prop :=
  forall k v, lookup_set m k = Some v -> exists vs, GVs g k vs /\ seteq (zs v) vs.

Lemma in_zs f l : In (Z.of_nat f) (zs l) <-> In f l.
Proof.
  unfold zs. rewrite in_map_iff. split; [intros [x [E H]]; apply Nat2Z.inj in E; now subst|intros H; now exists f].
Qed.

Lemma union_nat_In a : forall b f, In f (union_nat a b) <-> In f a \/ In f b.
Proof.
  induction a as [|x r IH]; intros b f; cbn [union_nat]; [cbn [In]; tauto|].
  destruct (mem x b) eqn:E.
  - rewrite IH. apply mem_In in E. cbn [In]. split; [tauto|]. intros [[<-|H]|H]; auto.
  - rewrite IH. cbn [In]. tauto.
Qed.

Lemma union_children_spec m : forall cs acc v, union_children m cs acc = Some v ->
  exists ws, Forall2 (fun c w => lookup_set m c = Some w) cs ws /\
             forall f, In f v <-> In f acc \/ In f (concat ws).
Proof.
  induction cs as [|c r IH]; intros acc v H; cbn [union_children] in H.
  - injection H as <-. exists []. split; [constructor|]. intros f. cbn. tauto.
  - destruct (lookup_set m c) as [w|] eqn:E; [|discriminate].
    destruct (IH _ _ H) as [ws [H1 H2]]. exists (w :: ws). split; [now constructor|].
    intros f. rewrite H2, union_nat_In. cbn [concat]. rewrite in_app_iff. tauto.
Qed.

Lemma zs_concat ws : zs (concat ws) = concat (map zs ws).
Proof. unfold zs. now rewrite concat_map. Qed.

Lemma mexact_body g m nx m' : mexact g m -> lit_diffs_body g m nx = Some m' -> mexact g m'.
Proof.
  intros Hm H. unfold lit_diffs_body in H.
  destruct (sg_label g nx) as [t|] eqn:Hl; [|discriminate].
  assert (Hgen : forall v vs, GVs g nx vs -> seteq (zs v) vs -> mexact g ((nx, v) :: m)).
  { intros v vs Hv Hs k w. rewrite lookup_set_cons. destruct (Nat.eqb_spec nx k) as [<-|_]; [|apply Hm].
    intros E. injection E as <-. now exists vs. }
  assert (Hgate : is_gate t = true -> forall v, union_children m (sg_out g nx) [] = Some v -> mexact g ((nx, v) :: m)).
  { intros Ht v Hu. destruct (union_children_spec m _ _ _ Hu) as [ws [H1 H2]].
    assert (Hvals : exists vss, Forall2 (GVs g) (sg_out g nx) vss /\ Forall2 seteq (map zs ws) vss).
    { clear -H1 Hm. induction H1 as [|c w cs ws Hc _ [vss [I1 I2]]]; [exists []; split; constructor|].
      destruct (Hm c w Hc) as [vs [Hv Hs]]. exists (vs :: vss). split; constructor; auto. }
    destruct Hvals as [vss [V1 V2]].
    apply (Hgen v (hvars t vss)); [exact (GF_gate hvars g nx t vss Hl Ht V1)|].
    assert (E : hvars t vss = concat vss) by (destruct t; try discriminate; reflexivity). rewrite E.
    apply (seteq_trans _ (concat (map zs ws))); [|now apply concat_seteq].
    rewrite <- zs_concat. intros z. split.
    - intros Hz. unfold zs in Hz. apply in_map_iff in Hz. destruct Hz as [f [<- Hf]]. apply in_zs.
      apply H2 in Hf. destruct Hf as [[]|Hf]. exact Hf.
    - intros Hz. unfold zs in Hz. apply in_map_iff in Hz. destruct Hz as [f [<- Hf]]. apply in_zs. apply H2. now right. }
  destruct t as [l| | | |].
  - injection H as <-. apply (Hgen _ [Z.abs l]); [exact (GF_leaf hvars g nx _ Hl eq_refl)|].
    intros z. cbn [zs map In]. rewrite Zabs2Nat.id_abs. tauto.
  - destruct (union_children m (sg_out g nx) []) as [v|] eqn:E; [|discriminate]. injection H as <-. now apply Hgate.
  - destruct (union_children m (sg_out g nx) []) as [v|] eqn:E; [|discriminate]. injection H as <-. now apply Hgate.
  - injection H as <-. apply (Hgen _ []); [exact (GF_leaf hvars g nx _ Hl eq_refl)|apply seteq_refl].
  - injection H as <-. apply (Hgen _ []); [exact (GF_leaf hvars g nx _ Hl eq_refl)|apply seteq_refl].
Qed.

Lemma get_literal_diffs_exact g root m : get_literal_diffs g root = Some m -> mexact g m.
Proof.
  intros H. unfold get_literal_diffs in H.
  apply (dfs_fold_invariant _ _ (mexact g)) in H; [exact H| |].
  - intros m1 x m2 Hm Hb. now apply (mexact_body g m1 x m2).
  - intros k v E. discriminate.
Qed.

(* ---------- unions of child values ---------- *)
Definition union_of (g : sgraph) (l : list nat) (z : Z) : Prop :=
  exists c v, In c l /\ GVs g c v /\ In z v.

Lemma concat_union g l vs z : Forall2 (GVs g) l vs -> (In z (concat vs) <-> union_of g l z).
Proof.
  intros H. split.
  - intros Hz. apply in_concat in Hz. destruct Hz as [v [Hv Hz]].
    destruct (Forall2_In_r _ _ _ _ H Hv) as [c [Hc Hcv]]. now exists c, v.
  - intros [c [v [Hc [Hv Hz]]]]. destruct (Forall2_In_l _ _ _ _ H Hc) as [v' [Hv' Hcv']].
    rewrite (GF_det hvars g c v v' Hv Hcv') in Hz. apply in_concat. now exists v'.
Qed.

Lemma Forall2_exists {A B} (Q : A -> B -> Prop) l : (forall x, In x l -> exists y, Q x y) -> exists ys, Forall2 Q l ys.
Proof.
  induction l as [|x l IH]; intros H; [exists []; constructor|].
  destruct (H x (or_introl eq_refl)) as [y Hy]. destruct IH as [ys Hys]; [intros z Hz; apply H; now right|].
  exists (y :: ys). now constructor.
Qed.

Lemma removes_In cs : forall l x, In x (removes cs l) -> In x l.
Proof.
  induction cs as [|c cs IH]; intros l x H; [exact H|]. cbn [removes fold_left] in H.
  apply (IH (remove1 c l)) in H. now apply (remove1_In c l).
Qed.
Lemma removes_In_or cs : forall l x, In x l -> In x (removes cs l) \/ In x cs.
Proof.
  induction cs as [|c cs IH]; intros l x H; [now left|]. cbn [removes fold_left].
  destruct (in_remove1_or c x l H) as [H'| ->]; [|right; now left].
  destruct (IH _ _ H') as [H1|H1]; [now left|right; now right].
Qed.

Lemma Forall2_zip {A B D} (P : A -> B -> Prop) (Q : A -> D -> Prop) (R : D -> B -> Prop) l vs vs' :
  (forall c v v', In c l -> P c v -> Q c v' -> R v' v) -> Forall2 P l vs -> Forall2 Q l vs' -> Forall2 R vs' vs.
Proof.
  intros H HP. revert vs'. induction HP as [|c v l vs Hcv _ IH]; intros vs' HQ; inversion HQ; subst; constructor.
  - apply (H c); [now left|assumption|assumption].
  - apply IH; [intros c0 v0 v0' Hin; apply H; now right|assumption].
Qed.

Lemma PW_app_last {A} (R : A -> A -> Prop) l x : PW R l -> Forall (fun a => R a x) l -> PW R (l ++ [x]).
Proof.
  induction l as [|a l IH]; intros HP HF; cbn [app PW]; [split; constructor|].
  destruct HP as [H1 H2]. inversion HF; subst. split; [apply Forall_app; split; [exact H1|repeat constructor; assumption]|now apply IH].
Qed.

Lemma diff_go_notin post : forall pre c ms, In (c, ms) (diff_go pre post) ->
  exists S, In (c, S) post /\ forall f, In f ms -> ~ In f S.
Proof.
  induction post as [|[c0 s0] r IH]; intros pre c ms H; cbn [diff_go] in H; [destruct H|].
  assert (Hrec : In (c, ms) (diff_go (pre ++ [(c0, s0)]) r) -> exists S, In (c, S) ((c0, s0) :: r) /\ forall f, In f ms -> ~ In f S).
  { intros H'. destruct (IH _ _ _ H') as [S [H1 H2]]. exists S. split; [now right|exact H2]. }
  destruct (canon_set _) as [|m0 ms0] eqn:E; [now apply Hrec|].
  destruct H as [H|H]; [|now apply Hrec]. injection H as <- <-. exists s0. split; [now left|].
  intros f Hf. rewrite <- E in Hf. apply canon_set_In, filter_In in Hf. destruct Hf as [_ Hf].
  apply negb_true_iff in Hf. now apply mem_notIn.
Qed.

Lemma diff_go_canon post : forall pre c ms, In (c, ms) (diff_go pre post) -> exists l, ms = canon_set l.
Proof.
  induction post as [|[c0 s0] r IH]; intros pre c ms H; cbn [diff_go] in H; [destruct H|].
  destruct (canon_set _) as [|m0 ms0] eqn:E; [exact (IH _ _ _ H)|].
  destruct H as [H|H]; [injection H as _ <-; eexists; symmetry; exact E|exact (IH _ _ _ H)].
Qed.

Lemma canon_set_NoDup l : NoDup (canon_set l).
Proof.
  unfold canon_set. pose proof (sort_nat_SS l) as Hs. induction Hs as [|a l0 Hs0 IH Ha]; [constructor|].
  cbn [dedup_sorted]. destruct l0 as [|b l0]; [constructor; [intros []|constructor]|].
  destruct (Nat.eqb_spec a b) as [->|Hne]; [exact IH|]. constructor; [|exact IH].
  intros Hin. apply dedup_sorted_In in Hin.
  inversion Hs0 as [|? ? Hs1 Hb]; subst. destruct Hin as [E|Hin]; [congruence|].
  rewrite Forall_forall in Ha, Hb. pose proof (Ha b (or_introl eq_refl)). pose proof (Hb a Hin). lia.
Qed.

(* ---------- one balancing step: values of the old nodes are unchanged as sets ---------- *)
Section Step.
Variable ord : list nat -> list nat.
Hypothesis Hperm : forall l f, In f (ord l) <-> In f l.
Context {P : Z -> Prop} {st : bool}.
Variables (m : list (nat * list nat)) (s s' : lstate) (nx : nat) (cd : list (nat * list nat)) (ans : list nat).
Let g := ls_g s.
Let g' := ls_g s'.
Let D := diff_go [] cd.
Hypothesis Hnx : sg_label g nx = Some GOr.
Hypothesis HI : Inv g.
Hypothesis Hok' : tables_ok P st s'.
Hypothesis He : ext g g' [nx].
Hypothesis Hcd : children_diff m (sg_out g nx) = Some cd.
Hypothesis Hm : mexact g m.
Hypothesis Hans : Forall2 (fun an cm => sg_alive g an = false /\ balS ord s' an (fst cm) (snd cm)) ans D.
Hypothesis Hout : sg_out g' nx = rev ans ++ removes (map fst D) (sg_out g nx).

Lemma cd_fst : map fst cd = sg_out g nx.
Proof. exact (proj1 (children_diff_spec m _ cd Hcd)). Qed.

Lemma D_child c ms : In (c, ms) D -> In c (sg_out g nx).
Proof. intros H. apply diff_go_fst in H. now rewrite cd_fst in H. Qed.

(* a missing feature is a feature of a sibling *)
Lemma D_feature c ms f : In (c, ms) D -> In f ms -> union_of g (sg_out g nx) (Z.of_nat f).
Proof.
  intros Hin Hf. destruct (diff_go_In cd [] c ms f Hin Hf) as [_ [[c0 v0] [Hcv Hfv]]]. cbn [app snd] in *.
  pose proof (proj2 (children_diff_spec m _ cd Hcd)) as Hall. rewrite Forall_forall in Hall.
  specialize (Hall _ Hcv). cbn [fst snd] in Hall. destruct (Hm c0 v0 Hall) as [vs [Hvs Hs]].
  exists c0, vs. split; [|split; [exact Hvs|apply Hs; now apply in_zs]].
  rewrite <- cd_fst. apply in_map_iff. now exists (c0, v0).
Qed.

(* the value of a balancing node *)
Lemma bal_val an c ms vc' : balS ord s' an c ms -> GVs g' c vc' ->
  exists va, GVs g' an va /\ seteq va (zs ms ++ vc').
Proof.
  intros [Hl [tris [Ho Ht]]] Hc. fold g' in Hl, Ho.
  assert (Htv : exists tvs, Forall2 (GVs g') tris tvs /\ seteq (concat tvs) (zs (rev (ord ms)))).
  { clear Ho. induction Ht as [|f o fs tris Hfo _ [tvs [I1 I2]]]; [exists []; split; [constructor|apply seteq_refl]|].
    exists ([Z.of_nat f; Z.of_nat f] :: tvs). split; [constructor; [exact (tri_vars g' f o (proj2 Hok' f o Hfo))|exact I1]|].
    cbn [concat]. intros z. rewrite in_app_iff, (I2 z). unfold zs. cbn [map In]. tauto. }
  destruct Htv as [tvs [T1 T2]].
  exists (hvars GAnd (tvs ++ [vc'])). split.
  - apply (GF_gate hvars g' an GAnd); [exact Hl|reflexivity|]. rewrite Ho. apply Forall2_app; [exact T1|repeat constructor; exact Hc].
  - cbn [hvars]. rewrite concat_app. cbn [concat]. rewrite app_nil_r. intros z. rewrite !in_app_iff, (T2 z).
    assert (E : In z (zs (rev (ord ms))) <-> In z (zs ms)).
    { unfold zs. rewrite !in_map_iff. split; intros [f [Ef Hf]]; exists f; (split; [exact Ef|]).
      - apply in_rev in Hf. now apply Hperm.
      - apply -> in_rev. now apply Hperm. }
    rewrite E. tauto.
Qed.

(* the children of nx after the step cover the same features as before *)
Lemma step_union vs :
  Forall2 (fun c v => GVs g c v /\ (sg_alive g c = true -> exists v', GVs g' c v' /\ seteq v' v)) (sg_out g nx) vs ->
  exists vs', Forall2 (GVs g') (sg_out g' nx) vs' /\ seteq (concat vs') (concat vs).
Proof.
  intros H.
  assert (Hvs : Forall2 (GVs g) (sg_out g nx) vs) by (eapply Forall2_impl; [|exact H]; intros c v [Hc _]; exact Hc).
  assert (Hold : forall c, In c (sg_out g nx) -> exists v v', GVs g c v /\ GVs g' c v' /\ seteq v' v).
  { intros c Hc. destruct (Forall2_In_l _ _ _ _ H Hc) as [v [_ [Hv Hk]]].
    destruct (Hk (GF_alive hvars g c v Hv)) as [v' [Hv' Hs]]. now exists v, v'. }
  (* every balancing node is paired with its child and the missing features *)
  assert (Hpair : forall an, In an ans -> exists c ms, In (c, ms) D /\ balS ord s' an c ms).
  { intros an Han. destruct (Forall2_In_l _ _ _ _ Hans Han) as [[c ms] [Hin [_ Hb]]]. now exists c, ms. }
  assert (Hpair' : forall c ms, In (c, ms) D -> exists an, In an ans /\ balS ord s' an c ms).
  { intros c ms Hin. destruct (Forall2_In_r _ _ _ _ Hans Hin) as [an [Han [_ Hb]]]. now exists an. }
  assert (Hbal : forall an c ms, In (c, ms) D -> balS ord s' an c ms ->
            exists v v' va, GVs g c v /\ GVs g' c v' /\ seteq v' v /\ GVs g' an va /\ seteq va (zs ms ++ v')).
  { intros an c ms Hin Hb. destruct (Hold c (D_child c ms Hin)) as [v [v' [H1 [H2 H3]]]].
    destruct (bal_val an c ms v' Hb H2) as [va [H4 H5]]. now exists v, v', va. }
  destruct (Forall2_exists (GVs g') (sg_out g' nx)) as [vs' Hvs'].
  { intros c' Hc'. rewrite Hout in Hc'. apply in_app_or in Hc'. destruct Hc' as [Hc'|Hc'].
    - apply in_rev in Hc'. destruct (Hpair c' Hc') as [c [ms [Hin Hb]]].
      destruct (Hbal c' c ms Hin Hb) as [_ [_ [va [_ [_ [_ [Hva _]]]]]]]. now exists va.
    - apply removes_In in Hc'. destruct (Hold c' Hc') as [_ [v' [_ [Hv' _]]]]. now exists v'. }
  exists vs'. split; [exact Hvs'|]. intros z.
  rewrite (concat_union g' _ vs' z Hvs'), (concat_union g _ vs z Hvs). split.
  - intros [c' [v' [Hc' [Hv' Hz]]]]. rewrite Hout in Hc'. apply in_app_or in Hc'. destruct Hc' as [Hc'|Hc'].
    + apply in_rev in Hc'. destruct (Hpair c' Hc') as [c [ms [Hin Hb]]].
      destruct (Hbal c' c ms Hin Hb) as [v [vc' [va [H1 [H2 [H3 [H4 H5]]]]]]].
      rewrite (GF_det hvars g' c' v' va Hv' H4) in Hz. apply H5 in Hz. apply in_app_or in Hz. destruct Hz as [Hz|Hz].
      * unfold zs in Hz. apply in_map_iff in Hz. destruct Hz as [f [<- Hf]]. exact (D_feature c ms f Hin Hf).
      * exists c, v. split; [exact (D_child c ms Hin)|split; [exact H1|now apply H3]].
    + apply removes_In in Hc'. destruct (Hold c' Hc') as [v [v'' [H1 [H2 H3]]]].
      rewrite (GF_det hvars g' c' v' v'' Hv' H2) in Hz. exists c', v. split; [exact Hc'|split; [exact H1|now apply H3]].
  - intros [c [v [Hc [Hv Hz]]]]. destruct (Hold c Hc) as [v0 [v' [H1 [H2 H3]]]].
    rewrite (GF_det hvars g c v v0 Hv H1) in Hz.
    destruct (removes_In_or (map fst D) _ c Hc) as [Hr|Hr].
    + exists c, v'. split; [rewrite Hout; apply in_or_app; now right|split; [exact H2|now apply H3]].
    + apply in_map_iff in Hr. destruct Hr as [[c0 ms] [E Hin]]. cbn [fst] in E. subst c0.
      destruct (Hpair' c ms Hin) as [an [Han Hb]].
      destruct (Hbal an c ms Hin Hb) as [v1 [vc' [va [G1 [G2 [G3 [G4 G5]]]]]]].
      exists an, va. split; [rewrite Hout; apply in_or_app; left; now apply -> in_rev|split; [exact G4|]].
      apply G5. apply in_or_app. right. rewrite (GF_det hvars g' c vc' v' G2 H2). now apply H3.
Qed.

Lemma step_vars x v : GVs g x v -> exists v', GVs g' x v' /\ seteq v' v.
Proof.
  intros Hv. apply (gf_transfer hvars g g' (fun y => sg_alive g y = true) (fun v' v => seteq v' v)).
  - intros y Hy. left. exact (ex_label _ _ _ He y Hy).
  - intros t _. apply seteq_refl.
  - intros y t vs Hy _ Hl Ht H. destruct (Nat.eq_dec y nx) as [->|Hne].
    + destruct (step_union vs H) as [vs' [H1 H2]]. exists vs'. split; [exact H1|].
      assert (t = GOr) by (pose proof Hnx as Hnx'; unfold g in *; congruence). subst t. exact H2.
    + rewrite (ex_out _ _ _ He y Hy) by (intros [E|[]]; congruence).
      assert (Hex : exists vs', Forall2 (GVs g') (sg_out g y) vs' /\ Forall2 seteq vs' vs).
      { clear Hl. induction H as [|c v0 cs vs0 [Hc Hk] _ [vs' [I1 I2]]]; [exists []; split; constructor|].
        destruct (Hk (GF_alive hvars g c v0 Hc)) as [v' [Hv' Hs]]. exists (v' :: vs'). split; constructor; auto. }
      destruct Hex as [vs' [H1 H2]]. exists vs'. split; [exact H1|].
      destruct t; try discriminate; cbn [hvars]; now apply concat_seteq.
  - exact (GF_alive hvars g x v Hv).
  - exact Hv.
Qed.

(* ---------- every node of the new graph has a value; decomposability is kept ---------- *)
Hypothesis Hprov : lprov s s' ans.
Hypothesis Hdef : all_def g.
Hypothesis Hndp : forall l, NoDup l -> NoDup (ord l).

Lemma ans_pair an : In an ans -> exists c ms, In (c, ms) D /\ balS ord s' an c ms.
Proof. intros Han. destruct (Forall2_In_l _ _ _ _ Hans Han) as [[c ms] [Hin [_ Hb]]]. now exists c, ms. Qed.

Lemma old_value c : sg_alive g c = true -> exists v v', GVs g c v /\ GVs g' c v' /\ seteq v' v.
Proof.
  intros Ha. destruct (GDef_vars g c (Hdef c Ha)) as [v Hv]. destruct (step_vars c v Hv) as [v' [H1 H2]]. now exists v, v'.
Qed.

Lemma step_all_def : all_def g'.
Proof.
  intros y Ha. unfold sg_alive in Ha. destruct (sg_label g' y) as [t|] eqn:Hl; [|discriminate].
  destruct (Hprov y t Hl) as [H|[[l ->]|[[-> [f Hf]]|[-> Hin]]]].
  - assert (Hay : sg_alive g y = true) by (unfold sg_alive; fold g in H; now rewrite H).
    destruct (old_value y Hay) as [_ [v' [_ [Hv' _]]]]. exact (vars_GDef g' y v' Hv').
  - exact (vars_GDef g' y _ (GF_leaf hvars g' y _ Hl eq_refl)).
  - exact (vars_GDef g' y _ (tri_vars g' f y (proj2 Hok' f y Hf))).
  - destruct (ans_pair y Hin) as [c [ms [HinD Hb]]].
    assert (Hac : sg_alive g c = true) by exact (proj2 (out_alive g nx c (proj1 HI) (D_child c ms HinD))).
    destruct (old_value c Hac) as [_ [v' [_ [Hv' _]]]].
    destruct (bal_val y c ms v' Hb Hv') as [va [Hva _]]. exact (vars_GDef g' y va Hva).
Qed.


Hypothesis Hdec : dec_ok g.

Lemma tri_values fs tris tvs : Forall2 (fun f o => lookup_nat (ls_tri s') f = Some o) fs tris ->
  Forall2 (GVs g') tris tvs -> tvs = map (fun f => [Z.of_nat f; Z.of_nat f]) fs.
Proof.
  intros H. revert tvs. induction H as [|f o fs tris Hfo _ IH]; intros tvs Hv; inversion Hv; subst; [reflexivity|].
  cbn [map]. f_equal; [|now apply IH]. exact (GF_det hvars g' o _ _ ltac:(eassumption) (tri_vars g' f o (proj2 Hok' f o Hfo))).
Qed.

Lemma PW_disj_tris fs : NoDup fs -> PW disj (map (fun f => [Z.of_nat f; Z.of_nat f]) fs).
Proof.
  induction 1 as [|f fs Hf _ IH]; [exact I|]. cbn [map PW]. split; [|exact IH].
  apply Forall_forall. intros w Hw. apply in_map_iff in Hw. destruct Hw as [f' [<- Hf']].
  intros z Hz Hz'. assert (z = Z.of_nat f) by (destruct Hz as [E|[E|[]]]; now subst).
  assert (z = Z.of_nat f') by (destruct Hz' as [E|[E|[]]]; now subst). assert (f = f') by lia. now subst.
Qed.

Lemma step_dec_ok : dec_ok g'.
Proof.
  intros x vs' Hl Hvs'. destruct (Hprov x _ Hl) as [H|[[l E]|[[E _]|[_ Hin]]]]; try discriminate.
  - (* an old and node *)
    fold g in H. assert (Hne : x <> nx) by (intros ->; unfold g in *; congruence).
    assert (Ha : sg_alive g x = true) by (unfold sg_alive; now rewrite H).
    rewrite (ex_out _ _ _ He x Ha) in Hvs' by (intros [E|[]]; congruence).
    destruct (GDef_children g x (Hdef x Ha) _ H eq_refl) as [vs Hvs].
    apply (PW_disj_seteq vs' vs); [|exact (Hdec x vs H Hvs)].
    refine (Forall2_zip (GVs g) (GVs g') (fun v' v => seteq v' v) _ _ _ _ Hvs Hvs').
    intros c v v' _ Hv Hv'. destruct (step_vars c v Hv) as [v'' [H1 H2]]. now rewrite (GF_det hvars g' c v' v'' Hv' H1).
  - (* a balancing node *)
    destruct (ans_pair x Hin) as [c [ms [HinD [_ [tris [Ho Ht]]]]]]. fold g' in Ho. rewrite Ho in Hvs'.
    apply Forall2_app_inv_l in Hvs'. destruct Hvs' as [tvs [lastv [Htv [Hlast ->]]]].
    inversion Hlast as [|? vc' ? ? Hvc Hnil]; subst. inversion Hnil; subst.
    rewrite (tri_values _ _ _ Ht Htv).
    destruct (diff_go_canon cd [] c ms HinD) as [l0 Hcan].
    assert (Hnd : NoDup (rev (ord ms))) by (apply NoDup_rev, Hndp; rewrite Hcan; apply canon_set_NoDup).
    apply PW_app_last; [now apply PW_disj_tris|].
    apply Forall_forall. intros w Hw. apply in_map_iff in Hw. destruct Hw as [f [<- Hf]].
    apply in_rev in Hf. apply (proj1 (Hperm ms f)) in Hf.
    destruct (diff_go_notin cd [] c ms HinD) as [S [HS Hnot]].
    pose proof (proj2 (children_diff_spec m _ cd Hcd)) as Hall. rewrite Forall_forall in Hall.
    specialize (Hall _ HS). cbn [fst snd] in Hall. destruct (Hm c S Hall) as [vs [Hvs Hs]].
    destruct (step_vars c vs Hvs) as [v'' [H1 H2]]. rewrite (GF_det hvars g' c vc' v'' Hvc H1).
    intros z Hz Hz'. assert (z = Z.of_nat f) by (destruct Hz as [E|[E|[]]]; now subst). subst z.
    apply H2, Hs, in_zs in Hz'. exact (Hnot f Hf Hz').
Qed.
End Step.
