(* Feature sets below the nodes of the graph (gfold hvars = Circuit.vars_node), up to set
   equality / inclusion: every live node has a value (all_def); the second traversal can only
   shrink the sets; decomposability as an invariant. *)
From Coq Require Import List ZArith Bool Lia Arith.
From DD Require Import Model.Circuit Model.LexerD4 Model.LoadC2d Model.LoadD4 Spec.D4Sem Spec.D4Conform
  Proofs.PassLemmas Proofs.Renum Proofs.C10Load Proofs.LoadD4Graph Proofs.LoadD4Ops Proofs.LoadD4Fold
  Proofs.LoadD4Flat Proofs.LoadD4Iso Proofs.LoadD4Pass2 Proofs.LoadD4Pass2S Proofs.LoadD4Struct
  Proofs.LoadD4Pass3 Proofs.LoadD4Free Proofs.LoadD4Parse Proofs.LoadD4Conf.
Import ListNotations.
Local Open Scope nat_scope.

Definition GVs (g : sgraph) (x : nat) (v : list Z) : Prop := GF hvars g x v.
Definition all_def (g : sgraph) : Prop := forall x, sg_alive g x = true -> GDef g x.
Definition disj (a b : list Z) : Prop := forall v, In v a -> ~ In v b.
Definition seteq (a b : list Z) : Prop := forall v, In v a <-> In v b.

Lemma GDef_vars g x : GDef g x -> exists v, GVs g x v.
Proof. intros [f Hf]. destruct (GDef_GF hvars g f x Hf) as [v Hv]. exists v. now exists f. Qed.
Lemma vars_GDef g x v : GVs g x v -> GDef g x.
Proof. intros [f Hf]. exists f. exact (GF_GDef hvars g f x v Hf). Qed.

Lemma GDef_children g x : GDef g x -> forall t, sg_label g x = Some t -> is_gate t = true ->
  exists vs, Forall2 (GVs g) (sg_out g x) vs.
Proof.
  intros Hd t Hl Ht. destruct (GDef_vars g x Hd) as [v Hv].
  destruct (GF_gate_inv hvars g x t v Hl Ht Hv) as [vs [Hvs _]]. now exists vs.
Qed.

(* ---------- selecting a sub-list of values ---------- *)
Inductive subsel {A} (R : A -> A -> Prop) : list A -> list A -> Prop :=
| ss_nil : subsel R [] []
| ss_skip x l1 l2 : subsel R l1 l2 -> subsel R l1 (x :: l2)
| ss_keep x' x l1 l2 : R x' x -> subsel R l1 l2 -> subsel R (x' :: l1) (x :: l2).

Lemma subsel_concat_incl (vs' vs : list (list Z)) : subsel (@incl Z) vs' vs -> incl (concat vs') (concat vs).
Proof.
  induction 1 as [|x l1 l2 _ IH|x' x l1 l2 Hx _ IH]; cbn [concat]; intros v Hv.
  - exact Hv.
  - apply in_or_app. right. now apply IH.
  - apply in_app_or in Hv. apply in_or_app. destruct Hv as [Hv|Hv]; [left; now apply Hx|right; now apply IH].
Qed.

Lemma subsel_In {A} (R : A -> A -> Prop) l1 l2 x' : subsel R l1 l2 -> In x' l1 -> exists x, In x l2 /\ R x' x.
Proof.
  induction 1 as [|x l1 l2 _ IH|y' y l1 l2 Hy _ IH]; intros Hin; [destruct Hin| |].
  - destruct (IH Hin) as [z [Hz Hr]]. exists z. split; [now right|exact Hr].
  - destruct Hin as [<-|Hin]; [exists y; split; [now left|exact Hy]|].
    destruct (IH Hin) as [z [Hz Hr]]. exists z. split; [now right|exact Hr].
Qed.

Lemma subsel_PW_disj (vs' vs : list (list Z)) : subsel (@incl Z) vs' vs -> PW disj vs -> PW disj vs'.
Proof.
  induction 1 as [|x l1 l2 _ IH|x' x l1 l2 Hx Hs IH]; intros HP; [exact I| |]; destruct HP as [H1 H2].
  - now apply IH.
  - split; [|now apply IH]. apply Forall_forall. intros y' Hy'.
    destruct (subsel_In _ _ _ _ Hs Hy') as [y [Hy Hyy]]. rewrite Forall_forall in H1.
    intros v Hv Hv'. apply (H1 y Hy v); [now apply Hx|now apply Hyy].
Qed.

(* values of the children that are kept, along a sublist *)
Lemma sublist_values {A} (P Q : nat -> A -> Prop) (R : A -> A -> Prop) (keep : nat -> Prop) l' l vs :
  sublist l' l -> (forall c, In c l' -> keep c) ->
  Forall2 (fun c v => P c v /\ (keep c -> exists v', Q c v' /\ R v' v)) l vs ->
  exists vs', Forall2 Q l' vs' /\ subsel R vs' vs.
Proof.
  intros Hs. revert vs. induction Hs as [|x l1 l2 _ IH|x l1 l2 _ IH]; intros vs Hk H.
  - inversion H; subst. exists []. split; constructor.
  - inversion H as [|? v ? vs0 _ Hr]; subst. destruct (IH vs0 Hk Hr) as [vs' [H1 H2]].
    exists vs'. split; [exact H1|now constructor].
  - inversion H as [|? v ? vs0 [_ Hx] Hr]; subst.
    destruct (Hx (Hk x (or_introl eq_refl))) as [v' [Hv' Hrv]].
    destruct (IH vs0 (fun c Hc => Hk c (or_intror Hc)) Hr) as [vs' [H1 H2]].
    exists (v' :: vs'). split; [now constructor|now constructor].
Qed.

(* ---------- the second traversal ---------- *)
Section Shrink.
Variables (g g' : sgraph).
Hypothesis HS : step_ok g g'.

Lemma shrink_label_cases x : sg_alive g' x = true ->
  sg_label g' x = sg_label g x \/ (sg_label g x = Some GOr /\ sg_label g' x = Some GTrue).
Proof. exact (sh_label _ _ (so_sh _ _ HS) x). Qed.

Lemma shrink_fold {A} (h : tid -> list A -> A) (R : A -> A -> Prop) :
  (forall t, is_gate t = false -> R (h t []) (h t [])) ->
  (forall v, R (h GTrue []) v) ->
  (forall t vs' vs, is_gate t = true -> subsel R vs' vs -> R (h t vs') (h t vs)) ->
  forall x v, sg_alive g' x = true -> GF h g x v -> exists v', GF h g' x v' /\ R v' v.
Proof.
  intros Hleaf Htrue Hgate x v Ha Hv.
  apply (gf_transfer h g g' (fun y => sg_alive g' y = true) R); auto.
  - intros y Hy. destruct (shrink_label_cases y Hy) as [E|[_ E]]; [now left|].
    right. exists GTrue. split; [exact E|]. split; [reflexivity|]. intros v0 _. apply Htrue.
  - intros y t vs Hy Hl' Hl Ht H.
    destruct (sublist_values _ (GF h g') R _ _ _ _ (s2_sub _ _ (so_s2 _ _ HS) y)
                (fun c Hc => proj2 (out_alive g' y c (proj1 (so_inv _ _ HS)) Hc)) H) as [vs' [H1 H2]].
    exists vs'. split; [exact H1|now apply Hgate].
Qed.

Lemma shrink_vars x v : sg_alive g' x = true -> GVs g x v -> exists v', GVs g' x v' /\ incl v' v.
Proof.
  apply (shrink_fold hvars (@incl Z)).
  - intros t _. apply incl_refl.
  - intros v0 z [].
  - intros t vs' vs Ht Hs. destruct t; try discriminate; cbn [hvars]; now apply subsel_concat_incl.
Qed.

Lemma shrink_all_def : all_def g -> all_def g'.
Proof.
  intros Hd x Ha. pose proof (Hd x (shrink_alive _ _ x (so_sh _ _ HS) Ha)) as Hx.
  destruct (shrink_fold hunit (fun _ _ => True) (fun _ _ => I) (fun _ => I) (fun _ _ _ _ _ => I) x tt Ha Hx) as [[] [H _]].
  exact H.
Qed.
End Shrink.

(* ---------- decomposability as an invariant ---------- *)
Definition dec_ok (g : sgraph) : Prop :=
  forall x vs, sg_label g x = Some GAnd -> Forall2 (GVs g) (sg_out g x) vs -> PW disj vs.

Lemma Forall2_GF_det {A} (h : tid -> list A -> A) g l vs vs' :
  Forall2 (GF h g) l vs -> Forall2 (GF h g) l vs' -> vs = vs'.
Proof.
  intros H. revert vs'. induction H as [|x v l vs Hv _ IH]; intros vs' H'; inversion H'; subst; [reflexivity|].
  f_equal; [eapply GF_det; eassumption|now apply IH].
Qed.

Lemma dec_ok_shrink g g' : step_ok g g' -> all_def g -> dec_ok g -> dec_ok g'.
Proof.
  intros HS Hdef Hd x vs' Hl Hvs'.
  assert (Hlg : sg_label g x = Some GAnd) by (apply (shrink_label_back g g'); [apply (so_sh _ _ HS)|exact Hl|discriminate]).
  assert (Ha : sg_alive g x = true) by (unfold sg_alive; now rewrite Hlg).
  destruct (GDef_children g x (Hdef x Ha) _ Hlg eq_refl) as [vs Hvs].
  assert (H : Forall2 (fun c v => GVs g c v /\ (sg_alive g' c = true -> exists v', GVs g' c v' /\ incl v' v)) (sg_out g x) vs).
  { eapply Forall2_impl; [|exact Hvs]. intros c v Hc. split; [exact Hc|]. intros Hac. now apply (shrink_vars g g' HS). }
  destruct (sublist_values _ (GVs g') (@incl Z) _ _ _ _ (s2_sub _ _ (so_s2 _ _ HS) x)
              (fun c Hc => proj2 (out_alive g' x c (proj1 (so_inv _ _ HS)) Hc)) H) as [vs'' [H1 H2]].
  rewrite (Forall2_GF_det hvars g' _ _ _ Hvs' H1). exact (subsel_PW_disj _ _ H2 (Hd x vs Hlg Hvs)).
Qed.

(* ---------- set equality ---------- *)
Lemma seteq_refl a : seteq a a.
Proof. intros v. tauto. Qed.
Lemma seteq_sym a b : seteq a b -> seteq b a.
Proof. intros H v. symmetry. apply H. Qed.
Lemma seteq_trans a b c : seteq a b -> seteq b c -> seteq a c.
Proof. intros H1 H2 v. rewrite (H1 v). apply H2. Qed.

Lemma concat_seteq (vs' vs : list (list Z)) : Forall2 seteq vs' vs -> seteq (concat vs') (concat vs).
Proof.
  induction 1 as [|a b l l' Hab _ IH]; [apply seteq_refl|]. cbn [concat]. intros v.
  rewrite !in_app_iff, (Hab v), (IH v). tauto.
Qed.

Lemma PW_disj_seteq (vs' vs : list (list Z)) : Forall2 seteq vs' vs -> PW disj vs -> PW disj vs'.
Proof.
  induction 1 as [|a b l l' Hab Hr IH]; intros HP; [exact I|]. destruct HP as [H1 H2]. split; [|now apply IH].
  apply Forall_forall. intros y' Hy'. destruct (Forall2_In_l _ _ _ _ Hr Hy') as [y [Hy Hyy]].
  rewrite Forall_forall in H1. intros v Hv Hv'. apply (H1 y Hy v); [now apply Hab|now apply Hyy].
Qed.

(* the value of an or-triangle *)
Lemma tri_vars g f o : tri_node g f o -> GVs g o [Z.of_nat f; Z.of_nat f].
Proof.
  intros [Hf [Hl [n [p [Ho [Hn Hp]]]]]].
  assert (E : [Z.of_nat f; Z.of_nat f] = hvars GOr [[Z.abs (- Z.of_nat f)]; [Z.abs (Z.of_nat f)]]).
  { cbn [hvars concat app]. f_equal; [lia|f_equal; lia]. }
  rewrite E. apply (GF_gate hvars g o GOr); [exact Hl|reflexivity|]. rewrite Ho.
  constructor; [exact (GF_leaf hvars g n _ Hn eq_refl)|constructor; [exact (GF_leaf hvars g p _ Hp eq_refl)|constructor]].
Qed.
