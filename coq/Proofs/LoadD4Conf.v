(* What d4_conform (Spec/D4Conform.v) gives as propositions: ranges, the rank certificate (hence
   d4_ok), kinds of edge sources, bounds of the literals. *)
From Coq Require Import List ZArith Bool Lia Arith.
From DD Require Import Model.Circuit Model.LexerD4 Spec.D4Sem Spec.D4Conform.
Import ListNotations.
Local Open Scope nat_scope.

Fixpoint PW {A} (R : A -> A -> Prop) (l : list A) : Prop :=
  match l with [] => True | x :: r => Forall (R x) r /\ PW R r end.

Lemma forallb_In {A} (p : A -> bool) l x : forallb p l = true -> In x l -> p x = true.
Proof. intros H. now apply forallb_forall. Qed.

Lemma memn_In x l : memn x l = true <-> In x l.
Proof.
  unfold memn. rewrite existsb_exists. split.
  - intros [y [Hy E]]. apply Nat.eqb_eq in E. now subst.
  - intros H. exists x. split; [exact H|apply Nat.eqb_refl].
Qed.
Lemma incln_incl a b : incln a b = true -> forall x, In x a -> In x b.
Proof. intros H x Hx. apply memn_In. exact (forallb_In _ _ x H Hx). Qed.
Lemma disjn_spec a b : disjn a b = true -> forall x, In x a -> ~ In x b.
Proof.
  intros H x Hx Hb. pose proof (forallb_In _ _ x H Hx) as E. apply negb_true_iff in E.
  apply memn_In in Hb. congruence.
Qed.
Lemma nodupn_NoDup l : nodupn l = true -> NoDup l.
Proof.
  induction l as [|x l IH]; cbn [nodupn]; intros H; constructor; apply andb_true_iff in H; destruct H as [H1 H2].
  - apply negb_true_iff in H1. intros Hin. apply memn_In in Hin. congruence.
  - now apply IH.
Qed.

Lemma in_edges_from toks i e : In e (d4_edges_from toks i) <->
  exists from to fs, In (DEdge from to fs) toks /\ from = Z.of_nat i /\ e = (fs, Z.to_nat to).
Proof.
  unfold d4_edges_from. rewrite in_flat_map. split.
  - intros [t [Ht He]]. destruct t as [from to fs| | | |]; cbn [d4_edge_of] in He; try destruct He.
    destruct (Z.eqb_spec from (Z.of_nat i)) as [->|_]; [|destruct He]. destruct He as [<-|[]].
    now exists (Z.of_nat i), to, fs.
  - intros [from [to [fs [Hin [-> ->]]]]]. exists (DEdge (Z.of_nat i) to fs). split; [exact Hin|].
    cbn [d4_edge_of]. rewrite Z.eqb_refl. now left.
Qed.

Lemma lit_le_maxvar toks from to fs l : In (DEdge from to fs) toks -> In l fs -> Z.abs_nat l <= d4_maxvar toks.
Proof.
  intros Ht Hl. unfold d4_maxvar.
  assert (H1 : Z.abs_nat l <= d4_token_max (DEdge from to fs)).
  { cbn [d4_token_max]. clear Ht. induction fs as [|x fs IH]; [destruct Hl|]. cbn [map fold_right].
    destruct Hl as [->|Hl]; [lia|]. specialize (IH Hl). lia. }
  induction toks as [|t toks IH]; [destruct Ht|]. cbn [map fold_right].
  destruct Ht as [->|Ht]; [lia|]. specialize (IH Ht). lia.
Qed.

Lemma nk_le_length_gen l : nk l <= length l.
Proof.
  unfold nk, d4_decls. induction l as [|t l IH]; [cbn; lia|]. cbn [flat_map length].
  rewrite app_length. destruct t; cbn [d4_kind length]; lia.
Qed.

(* ---------- table steps, read as implications (no conformance needed) ---------- *)
Lemma addn_In a : forall b x, In x (addn a b) <-> In x a \/ In x b.
Proof.
  induction a as [|y a IH]; intros b x; cbn [addn]; [cbn [In]; tauto|].
  destruct (memn y b) eqn:E; rewrite IH; cbn [In].
  - apply memn_In in E. split; [tauto|]. intros [[<-|H]|H]; tauto.
  - tauto.
Qed.

Lemma all_mentioned_In toks f : In f (all_mentioned toks) <->
  exists from to fs, In (DEdge from to fs) toks /\ In f (lit_vars fs).
Proof.
  unfold all_mentioned. induction toks as [|t r IH]; cbn [fold_right].
  - split; [intros []|intros [? [? [? [[] _]]]]].
  - destruct t as [from to fs| | | |]; try (rewrite IH; split; intros [a [b [c [H1 H2]]]]; exists a, b, c;
      (split; [|exact H2]); [now right|destruct H1 as [E|H1]; [discriminate|exact H1]]).
    rewrite addn_In, IH. split.
    + intros [H|[a [b [c [H1 H2]]]]]; [exists from, to, fs; split; [now left|exact H]|exists a, b, c; split; [now right|exact H2]].
    + intros [a [b [c [[E|H1] H2]]]]; [injection E as <- <- <-; now left|right; now exists a, b, c].
Qed.

Lemma stepL_In toks D R L i f : In f (stepL toks D R L i) ->
  get D i false = false /\ get R i false = false /\ (kind toks i = Some KAnd \/ kind toks i = Some KOr) /\
  exists e, In e (edges toks i) /\ get D (snd e) false = false /\
            (In f (lit_vars (fst e)) \/ In f (get L (snd e) [])).
Proof.
  unfold stepL. destruct (get D i false); [intros []|]. destruct (get R i false); [intros []|]. cbn [orb].
  destruct (is_kind toks i KAnd || is_kind toks i KOr) eqn:Ek; [|intros []].
  intros H. split; [reflexivity|]. split; [reflexivity|]. split.
  { unfold is_kind in Ek. destruct (kind toks i) as [[| | |]|]; cbn in Ek; try discriminate; auto. }
  induction (edges toks i) as [|e r IH]; cbn [fold_right] in H; [destruct H|].
  destruct (get D (snd e) false) eqn:Ed.
  - destruct (IH H) as [e' [H1 H2]]. exists e'. split; [now right|exact H2].
  - rewrite !addn_In in H. destruct H as [H|[H|H]].
    + exists e. split; [now left|]. split; [exact Ed|now left].
    + exists e. split; [now left|]. split; [exact Ed|now right].
    + destruct (IH H) as [e' [H1 H2]]. exists e'. split; [now right|exact H2].
Qed.

Lemma stepD_false toks D i : kind toks i = Some KFalse -> stepD toks D i = true.
Proof. intros Hk. unfold stepD, is_kind. now rewrite Hk. Qed.
Lemma stepD_and toks D i e : kind toks i = Some KAnd -> In e (edges toks i) -> get D (snd e) false = true ->
  stepD toks D i = true.
Proof.
  intros Hk He Hd. unfold stepD, is_kind. rewrite Hk. cbn [orb andb]. apply existsb_exists. now exists e.
Qed.
Lemma stepTR_true toks R i : kind toks i = Some KTrue -> stepTR toks R i = true.
Proof. intros Hk. unfold stepTR, is_kind. now rewrite Hk. Qed.
Lemma stepTR_or toks R i to : kind toks i = Some KOr -> In ([], to) (edges toks i) -> get R to false = true ->
  stepTR toks R i = true.
Proof.
  intros Hk He Hr. unfold stepTR, is_kind. rewrite Hk. cbn [orb andb]. apply existsb_exists. exists ([], to). now split.
Qed.

Section Conf.
Variables (toks : list d4token) (n : nat).
Hypothesis Hconf : d4_conform toks n = true.

Let K := nk toks.
Let H := tabH toks.
Let T := tabT toks.
Let D := tabD toks.
Let R := tabR toks.
Let L := tabL toks.

Lemma cf_split : 1 <= K /\ forallb (edge_in_range toks) toks = true /\
  forallb (node_ok toks H T D R L) (nodes toks) = true /\ incln (all_mentioned toks) (get L 1 []) = true.
Proof.
  pose proof Hconf as Hc. unfold d4_conform, d4_conform_tables in Hc.
  repeat (apply andb_true_iff in Hc; destruct Hc as [Hc ?]).
  apply Nat.leb_le in Hc. repeat split; assumption.
Qed.

Lemma cf_edge from to fs : In (DEdge from to fs) toks ->
  (0 < from)%Z /\ Z.to_nat from <= K /\ (0 < to)%Z /\ Z.to_nat to <= K /\ Forall (fun l => l <> 0%Z) fs.
Proof.
  intros Hin. destruct cf_split as [_ [Hr _]]. pose proof (forallb_In _ _ _ Hr Hin) as E.
  cbn [edge_in_range] in E. repeat (apply andb_true_iff in E; destruct E as [E ?]).
  apply Z.ltb_lt in E. repeat split; try (apply Z.ltb_lt; assumption); try (apply Nat.leb_le; assumption); try assumption.
  apply Forall_forall. intros l Hl. match goal with Hf : forallb _ fs = true |- _ => pose proof (forallb_In _ _ l Hf Hl) as El end.
  apply negb_true_iff, Z.eqb_neq in El. exact El.
Qed.

Lemma cf_node i : 1 <= i <= K -> node_ok toks H T D R L i = true.
Proof.
  intros Hi. destruct cf_split as [_ [_ [Hn _]]]. apply (forallb_In _ _ i Hn). apply in_seq. unfold K in Hi. lia.
Qed.

Lemma cf_edge_to i e : In e (edges toks i) -> 1 <= snd e <= K.
Proof.
  intros He. apply in_edges_from in He. destruct He as [from [to [fs [Hin [_ ->]]]]].
  destruct (cf_edge from to fs Hin) as [_ [_ [H3 [H4 _]]]]. cbn [snd]. lia.
Qed.

Lemma cf_kind i : 1 <= i <= K -> exists k, kind toks i = Some k.
Proof.
  intros Hi. unfold kind. destruct (nth_error (d4_decls toks) (i - 1)) as [k|] eqn:E; [now exists k|].
  apply nth_error_None in E. unfold K, nk in Hi. lia.
Qed.

(* the rank certificate *)
Lemma cf_rank i e : 1 <= i <= K -> In e (edges toks i) -> get H (snd e) 0 < get H i 0.
Proof.
  intros Hi He. pose proof (cf_node i Hi) as Hn. unfold node_ok in Hn.
  repeat (apply andb_true_iff in Hn; destruct Hn as [Hn ?]).
  match goal with Hf : forallb _ (edges toks i) = true |- _ => pose proof (forallb_In _ _ e Hf He) as Ee end.
  repeat (apply andb_true_iff in Ee; destruct Ee as [Ee ?]). now apply Nat.ltb_lt in Ee.
Qed.

Lemma cf_height i : 1 <= i <= K -> get H i 0 < K.
Proof.
  intros Hi. pose proof (cf_node i Hi) as Hn. unfold node_ok in Hn.
  repeat (apply andb_true_iff in Hn; destruct Hn as [Hn ?]). now apply Nat.ltb_lt in Hn.
Qed.

Lemma opt_all_some {A B} (f : A -> option B) l : (forall x, In x l -> exists y, f x = Some y) ->
  exists ys, opt_all f l = Some ys.
Proof.
  induction l as [|x l IH]; intros Hf; [now exists []|]. cbn [opt_all].
  destruct (Hf x (or_introl eq_refl)) as [y ->]. destruct IH as [ys ->]; [intros z Hz; apply Hf; now right|].
  eexists. reflexivity.
Qed.

Lemma cf_terminates a : forall fuel i, 1 <= i <= K -> get H i 0 < fuel ->
  exists b, eval_d4_opt fuel toks a i = Some b.
Proof.
  induction fuel as [|f IH]; intros i Hi Hf; [lia|]. cbn [eval_d4_opt].
  destruct i as [|i']; [lia|]. destruct (cf_kind (S i') Hi) as [k Hk]. unfold kind in Hk.
  replace (S i' - 1) with i' in Hk by lia. rewrite Hk.
  assert (Hall : exists vs, opt_all (fun e => option_map (fun b0 => forallb (lit_true a) (fst e) && b0)
                                    (eval_d4_opt f toks a (snd e))) (d4_edges_from toks (S i')) = Some vs).
  { apply opt_all_some. intros e He. destruct (IH (snd e)) as [b Hb].
    - now apply (cf_edge_to (S i')).
    - pose proof (cf_rank (S i') e Hi He). lia.
    - rewrite Hb. eexists. reflexivity. }
  destruct Hall as [vs Hvs]. destruct k; rewrite ?Hvs; eexists; reflexivity.
Qed.

Lemma nk_le_length : K <= length toks.
Proof. apply nk_le_length_gen. Qed.

Theorem cf_d4_ok : d4_ok toks.
Proof.
  split.
  - intros from to fs Hin. now apply (cf_edge from to fs).
  - destruct cf_split as [HK _]. unfold d4_terminates, d4_fuel.
    apply cf_terminates; [lia|]. pose proof (cf_height 1 ltac:(lia)). pose proof nk_le_length. lia.
Qed.

(* an edge line leaves an or / and node *)
Lemma cf_gate_kind from to fs : In (DEdge from to fs) toks ->
  exists k, nth_error (d4_decls toks) (Z.to_nat from - 1) = Some k /\ (k = KOr \/ k = KAnd).
Proof.
  intros Hin. destruct (cf_edge from to fs Hin) as [H1 [H2 _]].
  set (i := Z.to_nat from). assert (Hi : 1 <= i <= K) by (unfold i; lia).
  destruct (cf_kind i Hi) as [k Hk]. exists k. split; [exact Hk|].
  pose proof (cf_node i Hi) as Hn. unfold node_ok in Hn.
  repeat (apply andb_true_iff in Hn; destruct Hn as [Hn ?]).
  assert (He : In (fs, Z.to_nat to) (edges toks i)).
  { apply in_edges_from. exists from, to, fs. split; [exact Hin|]. split; [unfold i; lia|reflexivity]. }
  destruct k; auto; exfalso.
  - match goal with Hl : (if is_kind toks i KTrue || is_kind toks i KFalse then _ else _) = true |- _ =>
      unfold is_kind in Hl; rewrite Hk in Hl; cbn [orb] in Hl; destruct (edges toks i); [destruct He|discriminate] end.
  - match goal with Hl : (if is_kind toks i KTrue || is_kind toks i KFalse then _ else _) = true |- _ =>
      unfold is_kind in Hl; rewrite Hk in Hl; cbn [orb] in Hl; destruct (edges toks i); [destruct He|discriminate] end.
Qed.

(* ---------- the feature tables ---------- *)
Lemma cf_edge_facts i e : 1 <= i <= K -> In e (edges toks i) ->
  (forall v, In v (lit_vars (fst e)) -> In v (get T i [])) /\
  (forall v, In v (get T (snd e) []) -> In v (get T i [])) /\
  NoDup (lit_vars (fst e)) /\ (forall v, In v (lit_vars (fst e)) -> ~ In v (get T (snd e) [])).
Proof.
  intros Hi He. pose proof (cf_node i Hi) as Hn. unfold node_ok in Hn.
  repeat (apply andb_true_iff in Hn; destruct Hn as [Hn ?]).
  match goal with Hf : forallb _ (edges toks i) = true |- _ => pose proof (forallb_In _ _ e Hf He) as Ee end.
  repeat (apply andb_true_iff in Ee; destruct Ee as [Ee ?]).
  match goal with Hok : edge_ok T e = true |- _ => unfold edge_ok in Hok; apply andb_true_iff in Hok; destruct Hok as [Hnd Hdj] end.
  split; [now apply incln_incl|]. split; [now apply incln_incl|]. split; [now apply nodupn_NoDup|now apply disjn_spec].
Qed.

Lemma pairwiseb_PW {A} (p : A -> A -> bool) l : pairwiseb p l = true -> PW (fun a b => p a b = true) l.
Proof.
  induction l as [|x l IH]; intros Hp; [exact I|]. cbn [pairwiseb] in Hp. apply andb_true_iff in Hp. destruct Hp as [H1 H2].
  split; [|now apply IH]. apply Forall_forall. intros y Hy. exact (forallb_In _ _ y H1 Hy).
Qed.

Lemma cf_and i : 1 <= i <= K -> kind toks i = Some KAnd ->
  PW (fun a b => forall v, In v (edge_set T a) -> ~ In v (edge_set T b)) (edges toks i).
Proof.
  intros Hi Hk. pose proof (cf_node i Hi) as Hn. unfold node_ok in Hn.
  repeat (apply andb_true_iff in Hn; destruct Hn as [Hn ?]).
  match goal with Hl : (if is_kind toks i KAnd then _ else _) = true |- _ =>
    unfold is_kind in Hl; rewrite Hk in Hl; unfold and_ok in Hl; apply pairwiseb_PW in Hl end.
  match goal with Hl : PW _ (edges toks i) |- _ => revert Hl end.
  generalize (edges toks i). intros l. induction l as [|x l IH]; intros HP; [exact I|]. destruct HP as [P1 P2].
  split; [|now apply IH]. eapply Forall_impl; [|exact P1]. intros y Hy. now apply disjn_spec.
Qed.

(* ---------- or nodes ---------- *)
Definition exempt (e : list Z * nat) : Prop := fst e = [] /\ is_kind toks (snd e) KFalse = true.
Definition Redge (a b : list Z * nat) : Prop :=
  exempt a \/ exempt b \/ (fst a <> [] /\ fst b <> [] /\ conflict (fst a) (fst b) = true).

Lemma cf_or i : 1 <= i <= K -> kind toks i = Some KOr -> or_ok toks i = true.
Proof.
  intros Hi Hk. pose proof (cf_node i Hi) as Hn. unfold node_ok in Hn.
  repeat (apply andb_true_iff in Hn; destruct Hn as [Hn ?]).
  match goal with Hl : (if is_kind toks i KOr then _ else _) = true |- _ =>
    unfold is_kind in Hl; rewrite Hk in Hl; exact Hl end.
Qed.

Lemma filter_PW {A} (q ne : A -> bool) (p : A -> A -> bool) l :
  forallb ne (filter q l) = true -> pairwiseb p (filter q l) = true ->
  PW (fun x y => q x = false \/ q y = false \/ (ne x = true /\ ne y = true /\ p x y = true)) l.
Proof.
  induction l as [|x r IH]; intros H1 H2; [exact I|]. cbn [filter] in H1, H2. destruct (q x) eqn:Ex.
  - cbn [forallb pairwiseb] in H1, H2. apply andb_true_iff in H1. destruct H1 as [Hx H1].
    apply andb_true_iff in H2. destruct H2 as [Hp H2]. split; [|now apply IH].
    apply Forall_forall. intros y Hy. destruct (q y) eqn:Ey; [|right; now left]. right. right.
    assert (Hyf : In y (filter q r)) by (apply filter_In; now split).
    split; [exact Hx|]. split; [exact (forallb_In _ _ y H1 Hyf)|exact (forallb_In _ _ y Hp Hyf)].
  - split; [|now apply IH]. apply Forall_forall. intros y _. now left.
Qed.

Lemma conflict_spec a b : conflict a b = true -> exists l, In l a /\ In (- l)%Z b.
Proof.
  unfold conflict. intros Hx. apply existsb_exists in Hx. destruct Hx as [l [Hl Hx]].
  apply existsb_exists in Hx. destruct Hx as [l' [Hl' E]]. apply Z.eqb_eq in E. subst l'. now exists l.
Qed.

Lemma conflict_sym a b : conflict a b = true -> conflict b a = true.
Proof.
  intros Hx. destruct (conflict_spec a b Hx) as [l [H1 H2]]. unfold conflict. apply existsb_exists.
  exists (- l)%Z. split; [exact H2|]. apply existsb_exists. exists l. split; [exact H1|]. apply Z.eqb_eq. lia.
Qed.

Lemma Redge_sym a b : Redge a b -> Redge b a.
Proof.
  intros [Hx|[Hx|[H1 [H2 H3]]]]; [right; now left|now left|]. right. right. repeat split; auto. now apply conflict_sym.
Qed.
Lemma or_ok_cases i : or_ok toks i = true ->
  (exists to, edges toks i = [([], to)]) \/ PW Redge (edges toks i).
Proof.
  intros Ho. unfold or_ok in Ho.
  set (q := fun e : list Z * nat => negb (match fst e with [] => is_kind toks (snd e) KFalse | _ => false end)) in *.
  set (ne := fun e : list Z * nat => match fst e with [] => false | _ => true end) in *.
  assert (Hgen : forallb ne (filter q (edges toks i)) && pairwiseb (fun a b => conflict (fst a) (fst b)) (filter q (edges toks i))
                 && nodupn (map snd (filter (fun e => match fst e with [] => true | _ => false end) (edges toks i))) = true ->
                 PW Redge (edges toks i)).
  { intros Hb. apply andb_true_iff in Hb. destruct Hb as [Hb _]. apply andb_true_iff in Hb. destruct Hb as [H1 H2].
    pose proof (filter_PW q ne _ _ H1 H2) as HP. clear -HP.
    assert (Hconv : forall a b, (q a = false \/ q b = false \/ (ne a = true /\ ne b = true /\ conflict (fst a) (fst b) = true)) -> Redge a b).
    { intros a b [Hx|[Hx|[Ha [Hb Hc]]]].
      - left. unfold q in Hx. apply negb_false_iff in Hx. destruct (fst a) eqn:Ea; [now split|discriminate].
      - right. left. unfold q in Hx. apply negb_false_iff in Hx. destruct (fst b) eqn:Eb; [now split|discriminate].
      - right. right. unfold ne in Ha, Hb. split; [destruct (fst a); [discriminate|discriminate]|].
        split; [destruct (fst b); [discriminate|discriminate]|exact Hc]. }
    induction (edges toks i) as [|x r IH]; [exact I|]. destruct HP as [HF HP]. split; [|now apply IH].
    eapply Forall_impl; [|exact HF]. intros y. apply Hconv. }
  destruct (edges toks i) as [|[[|l ls] to] [|e2 r]] eqn:Ee; try (right; now apply Hgen).
  left. now exists to.
Qed.
(* ---------- the tables D, TR, L ---------- *)
Lemma cf_D i : 1 <= i <= K -> get D i false = stepD toks D i.
Proof.
  intros Hi. pose proof (cf_node i Hi) as Hn. unfold node_ok in Hn.
  repeat (apply andb_true_iff in Hn; destruct Hn as [Hn ?]).
  match goal with Hl : Bool.eqb (get D i false) _ = true |- _ => exact (eqb_prop _ _ Hl) end.
Qed.

Lemma cf_R i : 1 <= i <= K -> get R i false = stepTR toks R i.
Proof.
  intros Hi. pose proof (cf_node i Hi) as Hn. unfold node_ok in Hn.
  repeat (apply andb_true_iff in Hn; destruct Hn as [Hn ?]).
  match goal with Hl : Bool.eqb (get R i false) _ = true |- _ => exact (eqb_prop _ _ Hl) end.
Qed.

Lemma cf_L i f : 1 <= i <= K -> In f (get L i []) -> In f (stepL toks D R L i).
Proof.
  intros Hi. pose proof (cf_node i Hi) as Hn. unfold node_ok in Hn.
  repeat (apply andb_true_iff in Hn; destruct Hn as [Hn ?]).
  match goal with Hl : incln (get L i []) _ = true |- _ => exact (incln_incl _ _ Hl f) end.
Qed.

Lemma cf_mentioned f : In f (all_mentioned toks) -> In f (get L 1 []).
Proof. destruct cf_split as [_ [_ [_ Hm]]]. exact (incln_incl _ _ Hm f). Qed.

(* the unlabelled edges of an or node have distinct targets *)
Lemma or_ok_nodup i : or_ok toks i = true ->
  NoDup (map snd (filter (fun e : list Z * nat => match fst e with [] => true | _ => false end) (edges toks i))).
Proof.
  intros Ho. unfold or_ok in Ho.
  destruct (edges toks i) as [|[[|l ls] to] [|e2 r]] eqn:Ee;
    try (apply andb_true_iff in Ho; destruct Ho as [_ Ho]; now apply nodupn_NoDup).
  cbn [filter fst map snd]. constructor; [intros []|constructor].
Qed.
End Conf.
