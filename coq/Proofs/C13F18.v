(* C13 / F18 (/repo 2026f7b "do not materialise a range that leaves the feature boundary", repair of
   finding K6): get_numbers no longer expands a limited range a..b with a <= b whose end point lies
   outside the boundary; it pushes the two end points only.  Model/StreamMsg.v (version V1) still
   expands.  Here: the faithful repaired parser, and the proof that it returns the same result as
   the V1 model for EVERY token list, every boundary 0 <= b (the Rust boundary is a u32, so
   0 <= b <= 4294967295) and both profiles: same Ok value, same error code and text, same panic.
   So every C13 theorem about [get_numbers V1] is a theorem about the repaired code; what F18
   changes (time / memory of a rejected line) is outside the model.

   Why: the accumulators differ only after an out-of-boundary range, and then BOTH contain a
   number outside the boundary (an end point; it is not 0 since 0 <= b, so zero removal keeps it).
   Nothing ever leaves the accumulator, so every continuation ends in the same result: a later
   malformed token gives the same E3 parse error, a keyword or the end of the list runs
   check_boundary, which rejects both with the same text (or the same panic). *)
From Coq Require Import List ZArith Bool String Ascii Lia.
From DD Require Import Model.Circuit Model.Query Model.Enumerate Model.StreamMsg
  Proofs.StreamMsgDefs Proofs.StreamMsgRanges.
Import ListNotations. Open Scope Z_scope.

(* ---------------------------------------------------------------- the repaired definitions *)
(* (Ok(start), Ok(stop)) if start <= stop && (start.unsigned_abs() > boundary
                                            || stop.unsigned_abs() > boundary) => vec![start, stop] *)
Definition range_f18 (boundary x y : Z) : list Z :=
  if (x <=? y) && ((boundary <? Z.abs x) || (boundary <? Z.abs y)) then [x; y] else zrange x y.

Definition parse_range_f18 (boundary : Z) (tok : string) : list Z + string :=
  match signed_number tok with
  | LFail _ => alt_single tok
  | LOk a r1 =>
    match strip_dotdot r1 with
    | None => alt_single tok
    | Some r2 =>
      match signed_number r2 with
      | LOk b _ =>
        match parse_i32 a, parse_i32 b with
        | Some x, Some y => inl (range_f18 boundary x y)
        | _, _ => alt_open boundary a tok
        end
      | LFail _ => alt_open boundary a tok
      end
    end
  end.

Fixpoint gn_loop_f18 (dbg : bool) (b : Z) (ps : list string) (numbers : cfg) (cnt : nat)
  : res (cfg * nat) :=
  match ps with
  | [] =>
    match numbers with
    | [] => RErr E4 no_value
    | _ => rbind (check_boundary V1 dbg numbers b) (fun _ => ROk (numbers, cnt))
    end
  | p :: ps' =>
    if sany is_alpha p then
      rbind (check_boundary V1 dbg numbers b) (fun _ => ROk (numbers, cnt))
    else
      match parse_range_f18 b p with
      | inl l => gn_loop_f18 dbg b ps' (numbers ++ filter nonzero l) (S cnt)
      | inr e => RErr E3 e
      end
  end.
Definition get_numbers_f18 (dbg : bool) (ps : list string) (b : Z) : res (cfg * nat) :=
  gn_loop_f18 dbg b ps [] 0.

(* ---------------------------------------------------------------- the relation on accumulators *)
Definition acc_rel (b : Z) (l1 l2 : cfg) : Prop :=
  l1 = l2 \/ (any_out_v1 b l1 = true /\ any_out_v1 b l2 = true).

Lemma any_out_app b l1 l2 : any_out_v1 b (l1 ++ l2) = any_out_v1 b l1 || any_out_v1 b l2.
Proof. unfold any_out_v1. apply existsb_app. Qed.

Lemma acc_rel_app b n1 n2 l1 l2 : acc_rel b n1 n2 -> acc_rel b l1 l2 ->
  acc_rel b (n1 ++ l1) (n2 ++ l2).
Proof.
  intros [Hn|[Hn1 Hn2]] [Hl|[Hl1 Hl2]].
  - left. now subst.
  - right. rewrite !any_out_app, Hl1, Hl2, !orb_true_r. split; reflexivity.
  - right. rewrite !any_out_app, Hn1, Hn2. split; reflexivity.
  - right. rewrite !any_out_app, Hn1, Hn2. split; reflexivity.
Qed.

(* an end point outside the boundary survives zero removal and is found by check_boundary *)
Lemma any_out_witness b l v : 0 <= b -> In v l -> b < Z.abs v ->
  any_out_v1 b (filter nonzero l) = true.
Proof.
  intros Hb Hin Hv. unfold any_out_v1. apply existsb_exists. exists v. split.
  - apply filter_In. split; [exact Hin|]. unfold nonzero. apply negb_true_iff, Z.eqb_neq. lia.
  - apply Z.ltb_lt. exact Hv.
Qed.

Lemma range_f18_rel b x y : 0 <= b ->
  acc_rel b (filter nonzero (range_f18 b x y)) (filter nonzero (zrange x y)).
Proof.
  intros Hb. unfold range_f18.
  destruct (Z.leb_spec x y) as [Hxy|Hxy]; cbn [andb]; [|left; reflexivity].
  destruct (Z.ltb_spec b (Z.abs x)) as [Hx|Hx]; cbn [orb].
  - right. split.
    + apply any_out_witness with (v := x); [exact Hb|left; reflexivity|exact Hx].
    + apply any_out_witness with (v := x); [exact Hb|apply zrange_In; lia|exact Hx].
  - destruct (Z.ltb_spec b (Z.abs y)) as [Hy|Hy]; [|left; reflexivity].
    right. split.
    + apply any_out_witness with (v := y); [exact Hb|right; left; reflexivity|exact Hy].
    + apply any_out_witness with (v := y); [exact Hb|apply zrange_In; lia|exact Hy].
Qed.

(* one token: the same parse error, or lists related after zero removal *)
Definition tok_rel (b : Z) (r1 r2 : list Z + string) : Prop :=
  match r1, r2 with
  | inl l1, inl l2 => acc_rel b (filter nonzero l1) (filter nonzero l2)
  | inr e1, inr e2 => e1 = e2
  | _, _ => False
  end.

Lemma tok_rel_refl b r : tok_rel b r r.
Proof. destruct r as [l|e]; cbn [tok_rel]; [left; reflexivity|reflexivity]. Qed.

Lemma parse_range_f18_rel b tok : 0 <= b ->
  tok_rel b (parse_range_f18 b tok) (parse_range b tok).
Proof.
  intros Hb. unfold parse_range_f18, parse_range.
  destruct (signed_number tok) as [a r1|at_]; [|apply tok_rel_refl].
  destruct (strip_dotdot r1) as [r2|]; [|apply tok_rel_refl].
  destruct (signed_number r2) as [b2 r3|at2]; [|apply tok_rel_refl].
  destruct (parse_i32 a) as [x|]; [|apply tok_rel_refl].
  destruct (parse_i32 b2) as [y|]; [|apply tok_rel_refl].
  cbn [tok_rel]. apply range_f18_rel. exact Hb.
Qed.

(* check_boundary only looks at "some number is outside" *)
Lemma check_boundary_out dbg b l : any_out_v1 b l = true ->
  check_boundary V1 dbg l b = rbind (boundary_text dbg b) (fun t => RErr E3 t).
Proof. intros H. unfold check_boundary. cbn [rbind]. rewrite H. reflexivity. Qed.

Lemma any_out_nonempty b l : any_out_v1 b l = true -> l <> [].
Proof. intros H ->. discriminate H. Qed.

(* both continuations stop at a keyword / at the end with the same result *)
Lemma stop_same dbg b n1 n2 (cnt : nat) : acc_rel b n1 n2 ->
  rbind (check_boundary V1 dbg n1 b) (fun _ => ROk (n1, cnt)) =
  rbind (check_boundary V1 dbg n2 b) (fun _ => ROk (n2, cnt)).
Proof.
  intros [->|[H1 H2]]; [reflexivity|].
  rewrite (check_boundary_out dbg b n1 H1), (check_boundary_out dbg b n2 H2).
  destruct (boundary_text dbg b); reflexivity.
Qed.

Lemma gn_loop_f18_same dbg b ps : 0 <= b -> forall n1 n2 cnt, acc_rel b n1 n2 ->
  gn_loop_f18 dbg b ps n1 cnt = gn_loop V1 dbg b ps n2 cnt.
Proof.
  intros Hb. induction ps as [|p ps IH]; intros n1 n2 cnt HR; cbn [gn_loop_f18 gn_loop].
  - destruct HR as [->|[H1 H2]]; [reflexivity|].
    pose proof (any_out_nonempty b n1 H1) as Hne1. pose proof (any_out_nonempty b n2 H2) as Hne2.
    destruct n1 as [|v1 n1]; [congruence|]. destruct n2 as [|v2 n2]; [congruence|].
    apply stop_same. right. split; assumption.
  - destruct (sany is_alpha p); [apply stop_same; exact HR|].
    pose proof (parse_range_f18_rel b p Hb) as Hp.
    destruct (parse_range_f18 b p) as [l1|e1], (parse_range b p) as [l2|e2];
      cbn [tok_rel] in Hp; try contradiction.
    + apply IH. apply acc_rel_app; assumption.
    + now subst.
Qed.

(* ---------------------------------------------------------------- the theorem *)
Theorem f18_same_result : forall dbg ps b, 0 <= b ->
  get_numbers_f18 dbg ps b = get_numbers V1 dbg ps b.
Proof.
  intros dbg ps b Hb. unfold get_numbers_f18, get_numbers.
  apply gn_loop_f18_same; [exact Hb|left; reflexivity].
Qed.

(* the repaired parser on a range that leaves the boundary: two numbers, not 2^31 *)
Example f18_range_not_expanded :
  parse_range_f18 5 "1..2147483647" = inl [1; 2147483647] /\
  parse_range_f18 5 "-2147483648..5" = inl [-2147483648; 5] /\
  parse_range_f18 5 "-5..5" = inl [-5; -4; -3; -2; -1; 0; 1; 2; 3; 4; 5] /\
  parse_range_f18 5 "7..6" = inl [].
Proof. vm_compute. repeat split; reflexivity. Qed.
