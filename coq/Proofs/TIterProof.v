(* C09: proofs about Model/TIter.v (TIndicesIter / TInteractionIter of t_iterator.rs). *)
From Coq Require Import List Arith Bool ZArith Lia Permutation Sorted.
From DD Require Import Model.TIter.
Import ListNotations.

(* ---------- list access lemmas ---------- *)
Lemma nth_error_mid {A} (l1 : list A) x l2 : nth_error (l1 ++ x :: l2) (length l1) = Some x.
Proof. rewrite nth_error_app2 by lia. now rewrite Nat.sub_diag. Qed.

Lemma nth_error_mid' {A} (l1 : list A) x l2 k : k = length l1 -> nth_error (l1 ++ x :: l2) k = Some x.
Proof. intros ->. apply nth_error_mid. Qed.

Lemma nth_error_mid_S {A} (l1 : list A) x y l2 k :
  k = length l1 -> nth_error (l1 ++ x :: y :: l2) (S k) = Some y.
Proof.
  intros ->. change (l1 ++ x :: y :: l2) with (l1 ++ [x] ++ y :: l2). rewrite app_assoc.
  apply nth_error_mid'. rewrite app_length. cbn. lia.
Qed.

Lemma setn_mid (l1 : list nat) x l2 v : setn (l1 ++ x :: l2) (length l1) v = Some (l1 ++ v :: l2).
Proof. induction l1 as [|y l1 IH]; cbn; [reflexivity|]. now rewrite IH. Qed.

Lemma setn_mid' (l1 : list nat) x l2 v k : k = length l1 -> setn (l1 ++ x :: l2) k v = Some (l1 ++ v :: l2).
Proof. intros ->. apply setn_mid. Qed.

Lemma setn_mid_S (l1 : list nat) x y l2 v k :
  k = length l1 -> setn (l1 ++ x :: y :: l2) (S k) v = Some (l1 ++ x :: v :: l2).
Proof.
  intros ->. change (l1 ++ x :: y :: l2) with (l1 ++ [x] ++ y :: l2). rewrite app_assoc.
  rewrite setn_mid' by (rewrite app_length; cbn; lia). now rewrite <- app_assoc.
Qed.

Lemma repeat_snoc {A} (a : A) n : repeat a n ++ [a] = a :: repeat a n.
Proof. induction n as [|n IH]; cbn; [reflexivity|]. now rewrite IH. Qed.

Lemma repeat_S_app {A} (a : A) n l : repeat a n ++ a :: l = repeat a (S n) ++ l.
Proof. change (a :: l) with ([a] ++ l). rewrite app_assoc, repeat_snoc. reflexivity. Qed.

(* ---------- descending runs ---------- *)
Definition desc (lo k : nat) : list nat := rev (seq lo k).

Lemma desc_length lo k : length (desc lo k) = k.
Proof. unfold desc. now rewrite rev_length, seq_length. Qed.

(* largest entry first *)
Lemma desc_S_hd lo k : desc lo (S k) = (lo + k) :: desc lo k.
Proof. unfold desc. rewrite seq_S, rev_app_distr. reflexivity. Qed.

(* smallest entry last *)
Lemma desc_S_last lo k : desc lo (S k) = desc (S lo) k ++ [lo].
Proof. unfold desc. reflexivity. Qed.

(* x :: l strictly decreasing *)
Fixpoint dchain (x : nat) (l : list nat) : Prop :=
  match l with
  | [] => True
  | y :: l' => y < x /\ dchain y l'
  end.

Lemma dchain_weaken x x' l : x <= x' -> dchain x l -> dchain x' l.
Proof. destruct l as [|y l]; cbn; [auto|]. intros H [H1 H2]. split; [lia|exact H2]. Qed.

(* adjacent entries never increase *)
Definition NonIncr (l : list nat) : Prop :=
  forall i x y, nth_error l i = Some x -> nth_error l (S i) = Some y -> y <= x.

Lemma dchain_nonincr : forall l x, dchain x l -> NonIncr (x :: l).
Proof.
  induction l as [|y l IH]; intros x H i a b Ha Hb.
  - destruct i; cbn in Hb; [discriminate|destruct i; discriminate].
  - destruct H as [H1 H2]. destruct i as [|i].
    + cbn in Ha, Hb. injection Ha as <-. injection Hb as <-. lia.
    + cbn in Ha. change (nth_error (x :: y :: l) (S (S i))) with (nth_error (y :: l) (S i)) in Hb.
      exact (IH y H2 i a b Ha Hb).
Qed.

(* ---------- the repair loop ---------- *)
(* phase 1: above position k nothing changes when the entries there do not increase *)
Lemma repair_noop pre suf : NonIncr suf ->
  forall r, S r <= length suf ->
  repair (length pre + r) (pre ++ suf) = repair (length pre) (pre ++ suf).
Proof.
  intros HN. induction r as [|r IH]; intros Hr.
  - now rewrite Nat.add_0_r.
  - rewrite Nat.add_succ_r. cbn [repair].
    destruct (nth_error suf r) as [a|] eqn:Ea; [|apply nth_error_None in Ea; lia].
    destruct (nth_error suf (S r)) as [b|] eqn:Eb; [|apply nth_error_None in Eb; lia].
    rewrite (nth_error_app2 pre suf) by lia.
    replace (length pre + r - length pre) with r by lia. rewrite Ea.
    replace (S (length pre + r)) with (length pre + S r) by lia.
    rewrite (nth_error_app2 pre suf) by lia.
    replace (length pre + S r - length pre) with (S r) by lia. rewrite Eb.
    pose proof (HN r a b Ea Eb) as Hle.
    destruct (a <? b) eqn:Hlt; [apply Nat.ltb_lt in Hlt; lia|].
    apply IH. lia.
Qed.

(* phase 2: the zeros left by the carry are rebuilt to v+j, ..., v+1 *)
Lemma repair_zeros : forall j v R, 1 <= v ->
  repair j (repeat 0 j ++ v :: R) = Some (desc (S v) j ++ v :: R).
Proof.
  induction j as [|j IH]; intros v R Hv; [reflexivity|].
  cbn [repair].
  replace (repeat 0 (S j) ++ v :: R) with (repeat 0 j ++ 0 :: v :: R)
    by (now rewrite repeat_S_app).
  rewrite (nth_error_mid' (repeat 0 j) 0 (v :: R) j) by now rewrite repeat_length.
  rewrite (nth_error_mid_S (repeat 0 j) 0 v R j) by now rewrite repeat_length.
  destruct (0 <? v) eqn:E; [|apply Nat.ltb_ge in E; lia].
  rewrite (setn_mid' (repeat 0 j) 0 (v :: R) (S v) j) by now rewrite repeat_length.
  rewrite (IH (S v) (v :: R)) by lia.
  rewrite desc_S_last, <- app_assoc. reflexivity.
Qed.

(* all zeros below a nonzero stop flag: nothing to repair *)
Lemma repair_all_zero t x : forall j, j <= t - 1 ->
  repair j (repeat 0 t ++ [x]) = Some (repeat 0 t ++ [x]).
Proof.
  induction j as [|j IH]; intros Hj; [reflexivity|].
  cbn [repair].
  assert (H0 : forall i, i < t -> nth_error (repeat 0 t ++ [x]) i = Some 0).
  { intros i Hi. rewrite nth_error_app1 by now rewrite repeat_length.
    apply nth_error_repeat; exact Hi. }
  rewrite (H0 j) by lia. rewrite (H0 (S j)) by lia. cbn. apply IH. lia.
Qed.

(* ---------- the carry loop ---------- *)
Definition incr_head (l : list nat) : list nat :=
  match l with [] => [] | x :: r => S x :: r end.

Section Carry.
  Variables (dbg : bool) (m t k a : nat) (R : list nat).
  Hypothesis Hkm : k <= m.
  Hypothesis Hkt : k <= t.
  Hypothesis Hsent : nth_error (a :: R) (t - k) = Some 0.
  (* why the loop stops at position k: the incremented entry fits, or it is the stop flag *)
  Hypothesis Hexit : S a < m - k \/ t = k.

  Lemma carry_go : forall d p fuel, p + d = k -> d < fuel ->
    carry dbg fuel m t p (repeat 0 p ++ incr_head (desc (m - k) d ++ a :: R)) =
    Some (repeat 0 k ++ S a :: R).
  Proof.
    induction d as [|d IH]; intros p fuel Hp Hf.
    - rewrite Nat.add_0_r in Hp. subst p. cbn [desc seq rev app incr_head].
      destruct fuel as [|f]; [lia|]. cbn [carry].
      rewrite (nth_error_mid' (repeat 0 k) (S a) R k) by now rewrite repeat_length.
      unfold ge_sub. destruct (k <=? m) eqn:E; [|apply Nat.leb_gt in E; lia].
      destruct (m - k <=? S a) eqn:E2; [|reflexivity].
      apply Nat.leb_le in E2. destruct Hexit as [Hx|Hx]; [lia|]. subst t.
      rewrite (nth_error_mid' (repeat 0 k) (S a) R k) by now rewrite repeat_length.
      reflexivity.
    - destruct fuel as [|f]; [lia|]. cbn [carry].
      rewrite desc_S_hd. cbn [app incr_head].
      rewrite (nth_error_mid' (repeat 0 p) _ _ p) by now rewrite repeat_length.
      unfold ge_sub. destruct (p <=? m) eqn:E; [|apply Nat.leb_gt in E; lia].
      destruct (m - p <=? S (m - k + d)) eqn:E2; [|apply Nat.leb_gt in E2; lia].
      (* the stop flag is still 0 *)
      assert (Hs : nth_error (repeat 0 p ++ S (m - k + d) :: desc (m - k) d ++ a :: R) t = Some 0).
      { replace (repeat 0 p ++ S (m - k + d) :: desc (m - k) d ++ a :: R)
          with ((repeat 0 p ++ S (m - k + d) :: desc (m - k) d) ++ a :: R)
          by (now rewrite <- app_assoc).
        rewrite nth_error_app2; rewrite app_length, repeat_length; cbn [length]; rewrite desc_length; [|lia].
        replace (t - (p + S d)) with (t - k) by lia. exact Hsent. }
      rewrite Hs. cbn [Nat.eqb].
      rewrite (setn_mid' (repeat 0 p) _ _ 0 p) by now rewrite repeat_length.
      (* the next entry exists: desc .. ++ a :: R is not empty *)
      destruct (desc (m - k) d ++ a :: R) as [|y L] eqn:EL.
      { destruct (desc (m - k) d); discriminate. }
      rewrite (nth_error_mid_S (repeat 0 p) 0 y L p) by now rewrite repeat_length.
      rewrite (setn_mid_S (repeat 0 p) 0 y L (S y) p) by now rewrite repeat_length.
      rewrite repeat_S_app.
      exact (IH (S p) f ltac:(lia) ltac:(lia)).
  Qed.
End Carry.

(* ---------- one call of next() ---------- *)
Definition st (m t : nat) (tup : list nat) : titer := mk_titer m t false tup.

Lemma get_live m t x : length x = t -> get (st m t (x ++ [0])) = Some (Some x).
Proof.
  intros Hx. unfold get, st; cbn [ti_tuple ti_t].
  rewrite (nth_error_mid' x 0 [] t) by now symmetry. cbn [Nat.eqb].
  rewrite <- Hx, firstn_app, Nat.sub_diag, firstn_all. cbn. now rewrite app_nil_r.
Qed.

(* from the last tuple of a block (entries 0..k-1 at their maxima, entry k = a with room above)
   to the first tuple of the next block *)
Lemma advance_step dbg m t k a rest :
  k + S (length rest) = t -> S a < m - k -> NonIncr (S a :: rest) ->
  advance dbg (st m t (desc (m - k) k ++ a :: rest ++ [0])) =
  Some (st m t (desc (S (S a)) k ++ S a :: rest ++ [0])).
Proof.
  intros Ht Ha HN. unfold advance, st; cbn [ti_first ti_tuple ti_m ti_t].
  assert (Hsent : nth_error (a :: rest ++ [0]) (t - k) = Some 0).
  { replace (t - k) with (S (length rest)) by lia. cbn [nth_error].
    apply (nth_error_mid' rest 0 [] (length rest)). reflexivity. }
  destruct k as [|k].
  - (* no carry *)
    cbn [desc seq rev app nth_error setn].
    destruct (m <=? S a) eqn:E; [apply Nat.leb_le in E; lia|]. reflexivity.
  - rewrite desc_S_hd. cbn [app nth_error setn].
    replace (m - S k + k) with (m - 1) by lia.
    destruct (m <=? S (m - 1)) eqn:E; [|apply Nat.leb_gt in E; lia].
    pose proof (carry_go dbg m t (S k) a (rest ++ [0]) ltac:(lia) ltac:(lia) Hsent (or_introl Ha)
                  (S k) 0 (S (S t)) ltac:(lia) ltac:(lia)) as HC.
    cbn [repeat app] in HC. rewrite desc_S_hd in HC. cbn [app incr_head] in HC.
    replace (m - S k + k) with (m - 1) in HC by lia.
    rewrite HC. clear HC.
    (* repair: t - 1 = S k + length rest *)
    replace (t - 1) with (length (repeat 0 (S k)) + length rest) by (rewrite repeat_length; lia).
    rewrite (repair_noop (repeat 0 (S k)) (S a :: rest ++ [0])).
    + rewrite repeat_length. rewrite (repair_zeros (S k) (S a) (rest ++ [0])) by lia. reflexivity.
    + (* the stop flag is never compared: only positions up to length rest are looked at *)
      intros i x y Hx Hy.
      destruct (Nat.lt_ge_cases (S i) (S (length rest))) as [Hlt|Hge].
      * change (S a :: rest ++ [0]) with ((S a :: rest) ++ [0]) in Hx, Hy.
        rewrite nth_error_app1 in Hx by (cbn; lia). rewrite nth_error_app1 in Hy by (cbn; lia).
        exact (HN i x y Hx Hy).
      * (* y is the stop flag 0 *)
        change (S a :: rest ++ [0]) with ((S a :: rest) ++ [0]) in Hy.
        rewrite nth_error_app2 in Hy by (cbn; lia). cbn [length] in Hy.
        destruct (S i - S (length rest)) as [|q] eqn:Eq; cbn in Hy.
        -- injection Hy as <-. lia.
        -- destruct q; discriminate.
    + cbn [length]. rewrite app_length. cbn. lia.
Qed.

(* after the last tuple: everything is carried into the stop flag *)
Lemma advance_last dbg m t : 1 <= t -> t <= m ->
  advance dbg (st m t (desc (m - t) t ++ [0])) = Some (st m t (repeat 0 t ++ [1])).
Proof.
  intros H1 Htm. unfold advance, st; cbn [ti_first ti_tuple ti_m ti_t].
  destruct t as [|k]; [lia|].
  rewrite desc_S_hd. cbn [app nth_error setn].
  replace (m - S k + k) with (m - 1) by lia.
  destruct (m <=? S (m - 1)) eqn:E; [|apply Nat.leb_gt in E; lia].
  assert (Hsent : nth_error [0] (S k - S k) = Some 0) by (now rewrite Nat.sub_diag).
  pose proof (carry_go dbg m (S k) (S k) 0 [] Htm (le_n _) Hsent (or_intror eq_refl)
                (S k) 0 (S (S (S k))) ltac:(lia) ltac:(lia)) as HC.
  cbn [repeat app] in HC. rewrite desc_S_hd in HC. cbn [app incr_head] in HC.
  replace (m - S k + k) with (m - 1) in HC by lia.
  rewrite HC. clear HC.
  change (0 :: repeat 0 k ++ [1]) with (repeat 0 (S k) ++ [1]).
  rewrite (repair_all_zero (S k) 1 (S k - 1)) by lia. reflexivity.
Qed.

Lemma get_stop m t : get (st m t (repeat 0 t ++ [1])) = Some None.
Proof.
  unfold get, st; cbn [ti_tuple ti_t].
  rewrite (nth_error_mid' (repeat 0 t) 1 [] t) by now rewrite repeat_length. reflexivity.
Qed.

(* ---------- sequences of next() calls ---------- *)
Inductive steps (dbg : bool) : titer -> list (list nat) -> titer -> Prop :=
| steps_nil s : steps dbg s [] s
| steps_cons s s' o os s'' :
    advance dbg s = Some s' -> get s' = Some (Some o) -> steps dbg s' os s'' ->
    steps dbg s (o :: os) s''.

Lemma steps_app dbg s1 os1 s2 os2 s3 :
  steps dbg s1 os1 s2 -> steps dbg s2 os2 s3 -> steps dbg s1 (os1 ++ os2) s3.
Proof. induction 1; intros H2; cbn; [exact H2|]. econstructor; eauto. Qed.

Lemma steps_run dbg s os s' : steps dbg s os s' ->
  forall f, titer_run dbg (length os + f) s =
            (os ++ fst (titer_run dbg f s'), snd (titer_run dbg f s')).
Proof.
  induction 1 as [s|s s1 o os s2 Ha Hg Hs IH]; intros f.
  - cbn. now destruct (titer_run dbg f s).
  - cbn [length plus titer_run]. rewrite Ha, Hg, IH. reflexivity.
Qed.

(* ---------- the enumeration ---------- *)
Lemma dec_tuples_nil m : forall k lo, m < lo + k -> 1 <= k -> dec_tuples m k lo = [].
Proof.
  induction k as [|k IH]; intros lo H H1; [lia|]. cbn [dec_tuples].
  destruct k as [|k].
  - replace (m - lo) with 0 by lia. reflexivity.
  - assert (HH : forall l, (forall a, In a l -> lo <= a) ->
              flat_map (fun a => map (fun pre => pre ++ [a]) (dec_tuples m (S k) (S a))) l = []).
    { induction l as [|a l IHl]; intros Hl; [reflexivity|]. cbn [flat_map].
      rewrite IH; [|specialize (Hl a (or_introl eq_refl)); lia|lia].
      cbn. apply IHl. intros b Hb. apply Hl. now right. }
    apply HH. intros a Ha. apply in_seq in Ha. lia.
Qed.

Definition block (m k : nat) (a : nat) : list (list nat) :=
  map (fun pre => pre ++ [a]) (dec_tuples m k (S a)).

Lemma blocks_nil m k : 1 <= k -> forall l, (forall a, In a l -> m < S a + k) -> flat_map (block m k) l = [].
Proof.
  intros Hk. induction l as [|a l IH]; intros H; [reflexivity|]. cbn [flat_map]. unfold block at 1.
  rewrite dec_tuples_nil; [|apply H; now left|exact Hk]. cbn. apply IH. intros b Hb. apply H. now right.
Qed.

Lemma blocks_tail m k a : a + S k = m -> flat_map (block m k) (seq (S a) (m - S a)) = [].
Proof.
  intros H. destruct k as [|k].
  - replace (m - S a) with 0 by lia. reflexivity.
  - apply blocks_nil; [lia|]. intros b Hb. apply in_seq in Hb. lia.
Qed.

Lemma map_app_snoc (a : nat) (rest : list nat) (L : list (list nat)) :
  map (fun x => x ++ rest) (map (fun pre => pre ++ [a]) L) = map (fun x => x ++ a :: rest) L.
Proof. rewrite map_map. apply map_ext. intros x. now rewrite <- app_assoc. Qed.

(* Main invariant.  With entries k.. fixed to `rest` (strictly decreasing, all below lo), the
   iterator started on the first tuple of (dec_tuples m k lo) walks through exactly the remaining
   ones and arrives on the tuple whose first k entries are at their maxima. *)
Lemma walk dbg m t : forall k lo rest,
  k + length rest = t -> lo + k <= m -> dchain lo rest ->
  exists others,
    dec_tuples m k lo = desc lo k :: others /\
    steps dbg (st m t (desc lo k ++ rest ++ [0]))
          (map (fun x => x ++ rest) others)
          (st m t (desc (m - k) k ++ rest ++ [0])).
Proof.
  induction k as [|k IH]; intros lo rest Ht Hlo Hd.
  - exists []. split; [reflexivity|]. cbn. constructor.
  - cbn [dec_tuples]. fold (block m k).
    (* blocks a = lo .. m - S k ; induction on the distance to the last non-empty block *)
    assert (HB : forall d a, a + d = m - S k -> lo <= a ->
      exists others,
        flat_map (block m k) (seq a (m - a)) = desc a (S k) :: others /\
        steps dbg (st m t (desc a (S k) ++ rest ++ [0]))
              (map (fun x => x ++ rest) others)
              (st m t (desc (m - S k) (S k) ++ rest ++ [0]))).
    { induction d as [|d IHd]; intros a Ha Hla.
      - (* last block *)
        destruct (IH (S a) (a :: rest) ltac:(cbn; lia) ltac:(lia)
                     ltac:(cbn; split; [lia|exact (dchain_weaken lo a rest Hla Hd)]))
          as [oth [Hdt Hst]].
        exists (map (fun pre => pre ++ [a]) oth). split.
        + replace (m - a) with (S (m - S a)) by lia. cbn [seq flat_map].
          rewrite (blocks_tail m k a) by lia.
          rewrite app_nil_r. unfold block. rewrite Hdt. cbn [map]. now rewrite desc_S_last.
        + rewrite map_app_snoc. rewrite !desc_S_last, <- !app_assoc. cbn [app].
          replace (S (m - S k)) with (m - k) by lia.
          replace (m - S k) with a by lia. exact Hst.
      - destruct (IH (S a) (a :: rest) ltac:(cbn; lia) ltac:(lia)
                     ltac:(cbn; split; [lia|exact (dchain_weaken lo a rest Hla Hd)]))
          as [oth [Hdt Hst]].
        destruct (IHd (S a) ltac:(lia) ltac:(lia)) as [oth2 [Hfm Hst2]].
        exists (map (fun pre => pre ++ [a]) oth ++ desc (S a) (S k) :: oth2). split.
        + replace (m - a) with (S (m - S a)) by lia. cbn [seq flat_map].
          rewrite Hfm. unfold block. rewrite Hdt. cbn [map app]. now rewrite desc_S_last.
        + rewrite map_app. cbn [map].
          eapply steps_app.
          * rewrite map_app_snoc. rewrite desc_S_last, <- app_assoc. cbn [app]. exact Hst.
          * change ((a :: rest) ++ [0]) with (a :: rest ++ [0]).
            econstructor; [| |exact Hst2].
            -- rewrite (advance_step dbg m t k a rest ltac:(lia) ltac:(lia)).
               ++ rewrite (desc_S_last (S a) k), <- app_assoc. reflexivity.
               ++ apply dchain_nonincr. apply (dchain_weaken lo); [lia|exact Hd].
            -- rewrite app_assoc. apply get_live. rewrite app_length, desc_length. lia. }
    destruct (HB (m - S k - lo) lo ltac:(lia) (le_n _)) as [others [H1 H2]].
    exists others. split; assumption.
Qed.

(* ---------- C09_titer ---------- *)
Theorem titer_correct dbg m t fuel :
  1 <= t -> t <= m -> length (dec_tuples m t 0) < fuel ->
  t_indices dbg fuel m t = (dec_tuples m t 0, TDone).
Proof.
  intros H1 Htm Hf. unfold t_indices, titer_new.
  destruct (walk dbg m t t 0 [] ltac:(cbn; lia) ltac:(lia) I) as [others [Hd Hs]].
  cbn [app] in Hs. rewrite Hd in Hf |- *. cbn [length] in Hf.
  destruct fuel as [|fuel]; [lia|]. cbn [titer_run].
  unfold advance at 1; cbn [ti_first ti_m ti_t ti_tuple].
  change (mk_titer m t false (rev (seq 0 t) ++ [0])) with (st m t (desc 0 t ++ [0])).
  rewrite get_live by apply desc_length.
  assert (Hmap : map (fun x : list nat => x ++ []) others = others).
  { rewrite <- (map_id others) at 2. apply map_ext. intros x. apply app_nil_r. }
  rewrite Hmap in Hs.
  replace fuel with (length others + (fuel - length others)) by lia.
  rewrite (steps_run dbg _ _ _ Hs).
  destruct (fuel - length others) as [|f] eqn:Ef; [lia|].
  cbn [titer_run]. rewrite (advance_last dbg m t H1 Htm), get_stop. cbn [fst snd].
  now rewrite app_nil_r.
Qed.

(* fuel: the carry loop never runs out (it is given t + 2 rounds and needs at most t + 1) —
   part of titer_correct: a None from `carry` would have produced TPanic. *)

(* t = 0: one empty tuple, then None (tuple = [0]; the first advance only clears `first`, the second
   makes tuple[0] = 1, which get() reads as the stop flag) *)
Theorem titer_t0 dbg m fuel : 2 <= fuel -> t_indices dbg fuel m 0 = ([[]], TDone).
Proof.
  intros Hf. destruct fuel as [|[|f]]; try lia.
  destruct m as [|[|m]]; reflexivity.
Qed.

(* t > m with overflow checks (dev profile): the first tuple [t-1; ...; 0] (out of range for a
   slice of m literals) is produced, the second next() panics in `number_of_vars - p`. *)
Lemma carry_overflow m t : m < t -> forall d p fuel, p + d = S m -> d < fuel ->
  carry true fuel m t p (repeat 0 p ++ incr_head (desc 0 (t - p) ++ [0])) = None.
Proof.
  intros Hmt. induction d as [|d IH]; intros p fuel Hp Hf.
  - destruct fuel as [|f]; [lia|]. cbn [carry].
    destruct (desc 0 (t - p) ++ [0]) as [|y L] eqn:EL; [destruct (desc 0 (t - p)); discriminate|].
    cbn [incr_head]. rewrite (nth_error_mid' (repeat 0 p) _ _ p) by now rewrite repeat_length.
    unfold ge_sub. destruct (p <=? m) eqn:E; [apply Nat.leb_le in E; lia|]. reflexivity.
  - destruct fuel as [|f]; [lia|]. cbn [carry].
    destruct (t - p) as [|q] eqn:Eq; [lia|]. rewrite desc_S_hd. cbn [app incr_head plus].
    rewrite (nth_error_mid' (repeat 0 p) _ _ p) by now rewrite repeat_length.
    unfold ge_sub. destruct (p <=? m) eqn:E; [|apply Nat.leb_gt in E; lia].
    destruct (m - p <=? S q) eqn:E2; [|apply Nat.leb_gt in E2; lia].
    assert (Hs : nth_error (repeat 0 p ++ S q :: desc 0 q ++ [0]) t = Some 0).
    { replace (repeat 0 p ++ S q :: desc 0 q ++ [0]) with ((repeat 0 p ++ S q :: desc 0 q) ++ [0])
        by (now rewrite <- app_assoc).
      apply nth_error_mid'. rewrite app_length, repeat_length. cbn [length]. rewrite desc_length. lia. }
    rewrite Hs. cbn [Nat.eqb].
    rewrite (setn_mid' (repeat 0 p) _ _ 0 p) by now rewrite repeat_length.
    destruct (desc 0 q ++ [0]) as [|y L] eqn:EL; [destruct (desc 0 q); discriminate|].
    rewrite (nth_error_mid_S (repeat 0 p) 0 y L p) by now rewrite repeat_length.
    rewrite (setn_mid_S (repeat 0 p) 0 y L (S y) p) by now rewrite repeat_length.
    rewrite repeat_S_app.
    specialize (IH (S p) f ltac:(lia) ltac:(lia)).
    replace (t - S p) with q in IH by lia. rewrite EL in IH. exact IH.
Qed.

Theorem titer_overflow_checked m t fuel : m < t -> 2 <= fuel ->
  t_indices true fuel m t = ([desc 0 t], TPanic).
Proof.
  intros Hmt Hf. destruct fuel as [|[|f]]; try lia.
  unfold t_indices, titer_new. cbn [titer_run].
  unfold advance at 1; cbn [ti_first ti_m ti_t ti_tuple].
  change (mk_titer m t false (rev (seq 0 t) ++ [0])) with (st m t (desc 0 t ++ [0])).
  rewrite get_live by apply desc_length.
  unfold advance, st; cbn [ti_first ti_m ti_t ti_tuple].
  destruct t as [|q]; [lia|]. rewrite desc_S_hd. cbn [app nth_error setn plus].
  destruct (m <=? S q) eqn:E; [|apply Nat.leb_gt in E; lia].
  pose proof (carry_overflow m (S q) Hmt (S m) 0 (S (S (S q))) ltac:(lia) ltac:(lia)) as HC.
  cbn [repeat app] in HC. rewrite Nat.sub_0_r, desc_S_hd in HC. cbn [app incr_head plus] in HC.
  rewrite HC. reflexivity.
Qed.

(* ---------- what the produced list is ---------- *)
(* strictly increasing, every entry >= lo *)
Fixpoint incr_from (lo : nat) (l : list nat) : Prop :=
  match l with
  | [] => True
  | a :: l' => lo <= a /\ incr_from (S a) l'
  end.

Lemma incr_from_weaken : forall l lo lo', lo' <= lo -> incr_from lo l -> incr_from lo' l.
Proof. destruct l as [|a l]; cbn; [auto|]. intros lo lo' H [H1 H2]. split; [lia|exact H2]. Qed.

Lemma incr_from_sorted : forall l lo,
  incr_from lo l <-> Sorted lt l /\ Forall (fun a => lo <= a) l.
Proof.
  induction l as [|a l IH]; intros lo; cbn [incr_from].
  - split; [intros _; split; constructor|auto].
  - rewrite IH. split.
    + intros [H1 [H2 H3]]. split.
      * constructor; [exact H2|]. destruct l as [|b l]; constructor. inversion H3; subst. lia.
      * constructor; [exact H1|]. eapply Forall_impl; [|exact H3]. cbn. intros; lia.
    + intros [H1 H2]. inversion H2; subst. split; [assumption|]. split.
      * now inversion H1.
      * apply Sorted_StronglySorted in H1; [|intros x y z; lia].
        inversion H1; subst. eapply Forall_impl; [|eassumption]. cbn. intros; lia.
Qed.

Lemma dec_tuples_in m : forall k lo x,
  In x (dec_tuples m k lo) <->
  length x = k /\ incr_from lo (rev x) /\ Forall (fun i => i < m) x.
Proof.
  induction k as [|k IH]; intros lo x.
  - cbn [dec_tuples]. split.
    + intros [<-|[]]. repeat split; constructor.
    + intros [H _]. destruct x; [now left|discriminate].
  - cbn [dec_tuples]. rewrite in_flat_map. split.
    + intros [a [Ha Hx]]. apply in_seq in Ha. apply in_map_iff in Hx. destruct Hx as [pre [<- Hpre]].
      apply IH in Hpre. destruct Hpre as [Hl [Hi Hf]].
      rewrite app_length, rev_app_distr. cbn. repeat split; try lia; try assumption.
      apply Forall_app. split; [exact Hf|]. constructor; [lia|constructor].
    + intros [Hl [Hi Hf]].
      destruct (rev x) as [|a r] eqn:Er.
      { apply (f_equal (@length nat)) in Er. rewrite rev_length in Er. cbn in Er. lia. }
      assert (Hx : x = rev r ++ [a]) by (rewrite <- (rev_involutive x), Er; reflexivity).
      subst x. cbn in Hi. destruct Hi as [Hlo Hi].
      apply Forall_app in Hf. destruct Hf as [Hf1 Hf2]. inversion Hf2; subst.
      exists a. split; [apply in_seq; lia|].
      apply in_map_iff. exists (rev r). split; [reflexivity|].
      apply IH. rewrite app_length in Hl. cbn in Hl. repeat split; [lia| |exact Hf1].
      now rewrite rev_involutive.
Qed.

Lemma NoDup_app_intro' {A} (l1 l2 : list A) :
  NoDup l1 -> NoDup l2 -> (forall x, In x l1 -> ~ In x l2) -> NoDup (l1 ++ l2).
Proof.
  induction l1 as [|x l1 IH]; intros H1 H2 H; [exact H2|]. cbn. inversion H1; subst.
  constructor.
  - intros Hin. apply in_app_or in Hin. destruct Hin as [Hin|Hin]; [contradiction|].
    exact (H x (or_introl eq_refl) Hin).
  - apply IH; [assumption|assumption|]. intros y Hy. apply H. now right.
Qed.

Lemma NoDup_flat_map_disjoint {A B} (f : A -> list B) :
  (forall a, NoDup (f a)) -> (forall a b x, In x (f a) -> In x (f b) -> a = b) ->
  forall l, NoDup l -> NoDup (flat_map f l).
Proof.
  intros Hf Hd. induction l as [|a l IH]; intros Hl; [constructor|]. cbn [flat_map].
  inversion Hl; subst. apply NoDup_app_intro'; [apply Hf|now apply IH|].
  intros x Hx Hin. apply in_flat_map in Hin. destruct Hin as [b [Hb Hxb]].
  assert (a = b) by (eapply Hd; eassumption). subst. contradiction.
Qed.

Lemma dec_tuples_nodup m : forall k lo, NoDup (dec_tuples m k lo).
Proof.
  induction k as [|k IH]; intros lo; cbn [dec_tuples].
  - constructor; [intros []|constructor].
  - apply NoDup_flat_map_disjoint; [| |apply seq_NoDup].
    + intros a. apply FinFun.Injective_map_NoDup; [|apply IH].
      intros x y Hxy. now apply app_inj_tail in Hxy.
    + intros a b x Ha Hb. apply in_map_iff in Ha. apply in_map_iff in Hb.
      destruct Ha as [p [<- _]]. destruct Hb as [q [Hq _]]. apply app_inj_tail in Hq. now destruct Hq.
Qed.

(* ---------- TInteractionIter ---------- *)
Definition lit_at (lits : list Z) (i : nat) : Z := nth i lits 0%Z.

Lemma map_lits_ok lits : forall idx, Forall (fun i => i < length lits) idx ->
  map_lits lits idx = Some (map (lit_at lits) idx).
Proof.
  induction idx as [|i r IH]; intros H; [reflexivity|]. inversion H; subst. cbn [map_lits map].
  rewrite (nth_error_nth' lits 0%Z) by assumption. now rewrite IH.
Qed.

Lemma tinter_outs_ok lits st : forall idxs,
  Forall (Forall (fun i => i < length lits)) idxs ->
  tinter_outs lits idxs st = (map (map (lit_at lits)) idxs, st).
Proof.
  induction idxs as [|ix r IH]; intros H; [reflexivity|]. inversion H; subst. cbn [tinter_outs map].
  rewrite map_lits_ok by assumption. now rewrite IH.
Qed.

Theorem tinter_correct dbg lits t fuel :
  1 <= t -> t <= length lits -> ~ In 0%Z lits -> length (dec_tuples (length lits) t 0) < fuel ->
  t_interactions dbg fuel lits t =
  (map (map (lit_at lits)) (dec_tuples (length lits) t 0), TDone).
Proof.
  intros H1 Ht H0 Hf. unfold t_interactions.
  assert (E1 : (length lits <? t) = false) by (apply Nat.ltb_ge; lia).
  assert (E2 : existsb (Z.eqb 0) lits = false).
  { destruct (existsb (Z.eqb 0) lits) eqn:E; [|reflexivity]. apply existsb_exists in E.
    destruct E as [x [Hx Hz]]. apply Z.eqb_eq in Hz. subst. contradiction. }
  rewrite E1, E2, andb_false_r. rewrite titer_correct by assumption.
  apply tinter_outs_ok. apply Forall_forall. intros x Hx. apply dec_tuples_in in Hx. tauto.
Qed.

Lemma incr_from_map_S : forall J lo, incr_from lo J -> incr_from (S lo) (map S J).
Proof. induction J as [|a J IH]; intros lo; cbn; [auto|]. intros [H1 H2]. split; [lia|now apply IH]. Qed.

(* every duplicate-free sub-collection of the literal slice sits at strictly increasing positions *)
Lemma subset_indices : forall lits I, NoDup I -> incl I lits ->
  exists J, incr_from 0 J /\ Forall (fun i => i < length lits) J /\
            Permutation (map (lit_at lits) J) I.
Proof.
  induction lits as [|x l IH]; intros I Hnd Hincl.
  - destruct I as [|y I]; [|destruct (Hincl y (or_introl eq_refl))].
    exists []. repeat split; constructor.
  - destruct (in_dec Z.eq_dec x I) as [Hx|Hx].
    + apply in_split in Hx. destruct Hx as [I1 [I2 ->]].
      pose proof (NoDup_remove_1 _ _ _ Hnd) as Hnd'. pose proof (NoDup_remove_2 _ _ _ Hnd) as Hnx.
      destruct (IH (I1 ++ I2) Hnd') as [J [HJ1 [HJ2 HJ3]]].
      { intros y Hy. assert (Hy' : In y (I1 ++ x :: I2)).
        { apply in_app_or in Hy. apply in_or_app. destruct Hy; [now left|right; now right]. }
        destruct (Hincl y Hy') as [<-|Hl]; [contradiction|exact Hl]. }
      exists (0 :: map S J). split; [|split].
      * cbn. split; [lia|]. now apply incr_from_map_S.
      * constructor; [cbn; lia|]. apply Forall_forall. intros i Hi. apply in_map_iff in Hi.
        destruct Hi as [j [<- Hj]]. rewrite Forall_forall in HJ2. specialize (HJ2 j Hj). cbn. lia.
      * cbn [map]. rewrite map_map. change (lit_at (x :: l) 0) with x.
        apply Permutation_cons_app. exact HJ3.
    + destruct (IH I Hnd) as [J [HJ1 [HJ2 HJ3]]].
      { intros y Hy. destruct (Hincl y Hy) as [<-|Hl]; [contradiction|exact Hl]. }
      exists (map S J). split; [|split].
      * apply (incr_from_weaken _ 1); [lia|]. now apply incr_from_map_S.
      * apply Forall_forall. intros i Hi. apply in_map_iff in Hi.
        destruct Hi as [j [<- Hj]]. rewrite Forall_forall in HJ2. specialize (HJ2 j Hj). cbn. lia.
      * rewrite map_map. exact HJ3.
Qed.

(* every set of t distinct literals of the slice is produced (as one of the outputs, in the
   iterator's descending-position order) *)
Theorem tinter_covers dbg lits t fuel :
  1 <= t -> t <= length lits -> ~ In 0%Z lits -> length (dec_tuples (length lits) t 0) < fuel ->
  forall I, NoDup I -> incl I lits -> length I = t ->
  exists o, In o (fst (t_interactions dbg fuel lits t)) /\ Permutation o I.
Proof.
  intros H1 Ht H0 Hf I Hnd Hincl Hlen.
  rewrite tinter_correct by assumption. cbn [fst].
  destruct (subset_indices lits I Hnd Hincl) as [J [HJ1 [HJ2 HJ3]]].
  exists (map (lit_at lits) (rev J)). split.
  - apply in_map. apply dec_tuples_in. repeat split.
    + rewrite rev_length. apply Permutation_length in HJ3. rewrite map_length in HJ3. lia.
    + now rewrite rev_involutive.
    + now apply Forall_rev.
  - rewrite map_rev. etransitivity; [symmetry; apply Permutation_rev|exact HJ3].
Qed.

(* the produced list, in stdlib terms: strictly decreasing = the reverse is Sorted lt *)
Lemma dec_tuples_spec m t x :
  In x (dec_tuples m t 0) <->
  length x = t /\ Sorted lt (rev x) /\ Forall (fun i => i < m) x.
Proof.
  rewrite dec_tuples_in, incr_from_sorted. split.
  - intros [H1 [[H2 _] H3]]. auto.
  - intros [H1 [H2 H3]]. repeat split; try assumption. apply Forall_forall. intros; lia.
Qed.

Lemma dec_tuples_nodup0 m t : NoDup (dec_tuples m t 0).
Proof. apply dec_tuples_nodup. Qed.
