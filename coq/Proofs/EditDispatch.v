(* The dispatch conditions of apply_incremental_edit, the cache predicate, the stored clause list:
   the facts that are decidable without the graph, and the refutation witnesses. *)
From Coq Require Import List ZArith Bool Lia.
From DD Require Import Model.Circuit Model.Query Model.Edit Proofs.Semantics Proofs.EditReduce Proofs.EditSpec.
Import ListNotations.
Open Scope Z_scope.

Lemma dispatch_nothing f : dispatch f [] [] = Decided StTautology.
Proof. reflexivity. Qed.

Lemma dispatch_cache_hit f a r :
  (a <> [] \/ r <> []) -> cache_hit f = true -> dispatch f a r = Decided StUndo.
Proof.
  intros H Hc. unfold dispatch. rewrite Hc.
  destruct a; destruct r; cbn; try reflexivity. destruct H; congruence.
Qed.

(* a single added unit clause over an existing variable takes the unit path - WHATEVER is to be
   removed in the same edit (the removals are then dropped: finding K26) *)
Lemma dispatch_unit f l r :
  cache_hit f = false -> Z.abs l <= ig_nvars f -> dispatch f [[l]] r = Decided StUnitClause.
Proof.
  intros Hc Hl. unfold dispatch. rewrite Hc. cbn [is_nil andb negb max_var fold_right].
  assert (E : (ig_nvars f <? Z.max (Z.abs l) 0) = false) by (apply Z.ltb_ge; lia).
  now rewrite E.
Qed.

(* with an empty stored clause list (every nnf-loaded model; a CNF without effective clauses) every
   other edit is answered Tautology (nothing happens: K3 / K27) or, when the root is graph node 0,
   Recompile of the edit's clauses ALONE (K20) *)
Lemma dispatch_empty_store f a r :
  cache_hit f = false -> stored_cnf_empty f = true -> (a <> [] \/ r <> []) ->
  (forall l, a = [[l]] -> ig_nvars f < Z.abs l) ->
  dispatch f a r = Decided (if root_is_node0 f then StRecompile else StTautology).
Proof.
  intros Hc Hs Hne Hunit. unfold dispatch. rewrite Hc, Hs.
  assert (Hnil : is_nil a && is_nil r = false).
  { destruct a; destruct r; cbn; try reflexivity. destruct Hne; congruence. }
  rewrite Hnil.
  destruct a as [|[|l [|l2 c]] [|c2 a]]; try (destruct (root_is_node0 f); reflexivity).
  specialize (Hunit l eq_refl). cbn [is_nil negb andb max_var fold_right].
  assert (E : (ig_nvars f <? Z.max (Z.abs l) 0) = true) by (apply Z.ltb_lt; lia).
  rewrite E. cbn. destruct (root_is_node0 f); reflexivity.
Qed.

(* the cache predicate accepts the exact inverse of a cached edit ... *)
Lemma subsetZ_refl a : subsetZ a a = true.
Proof. apply subsetZ_In. auto. Qed.
Lemma set_eqZ_refl a : set_eqZ a a = true.
Proof. unfold set_eqZ. now rewrite subsetZ_refl. Qed.
Lemma vec_value_eq_refl a : vec_value_eq a a = true.
Proof.
  unfold vec_value_eq. apply forallb_forall. intros c Hc. apply existsb_exists. exists c.
  split; [exact Hc|apply set_eqZ_refl].
Qed.

Lemma cache_matches_inverse a r : cache_matches a r r a = true.
Proof.
  unfold cache_matches. rewrite !vec_value_eq_refl, !andb_true_r.
  apply set_eqZ_In. intros x. unfold edit_lits. rewrite !in_app_iff. tauto.
Qed.

(* ... but also a request that undoes only part of it (one-directional inclusion): K25.
   cached: add {1 3}, remove {1}; request: remove {1 3} - not the inverse, yet it matches *)
Lemma cache_matches_partial_refuted :
  exists a r a' r', cache_matches a r a' r' = true /\ ~ (vec_value_eq r a' = true).
Proof. exists [[1; 3]], [[1]], [], [[1; 3]]. split; [vm_compute; reflexivity|vm_compute; discriminate]. Qed.

(* K8: the stored clause list is unit-propagated (simplify_clauses), so removing the unit clause
   does not bring back what it satisfied / shortened *)
Definition k8_cnf : cnf := [[-4]; [-4; 3]; [-3; -1]; [-2]].
Lemma removal_after_simplify_refuted :
  length (cnf_models_n (adjust_intern_cnf (simplify_clauses k8_cnf) [] [[-4]]) 4) = 6%nat /\
  length (cnf_models_n (fst (edit_spec k8_cnf 4 [] [[-4]])) 4) = 4%nat.
Proof. vm_compute. split; reflexivity. Qed.

(* K23: retain(any(!=)) keeps every clause when two different clauses are removed at once *)
Lemma multi_removal_refuted :
  adjust_intern_cnf [[-1; 2]; [-1; -2]] [] [[-1; 2]; [-1; -2]] = [[-1; 2]; [-1; -2]] /\
  fst (edit_spec [[-1; 2]; [-1; -2]] 2 [] [[-1; 2]; [-1; -2]]) = [].
Proof. vm_compute. split; reflexivity. Qed.

(* removing ONE clause works on a list without unit clauses *)
Lemma single_removal_example :
  adjust_intern_cnf [[-1; 2]; [-1; -2]] [] [[2; -1]] = [[-1; -2]].
Proof. vm_compute. reflexivity. Qed.
