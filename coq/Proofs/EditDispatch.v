(* The dispatch conditions of apply_incremental_edit, the cache predicate and the cache keys, the
   stored clause list: the facts that are decidable without the graph, and the refutation
   witnesses.  The definitions without suffix are the code after the repairs F14-F17 of /repo; the
   `_v0` definitions are the code before them (K23, K25, K26, K34). *)
From Coq Require Import List ZArith Bool Lia.
From DD Require Import Model.Circuit Model.Query Model.Edit Proofs.Semantics Proofs.EditReduce Proofs.EditSpec.
Import ListNotations.
Open Scope Z_scope.

(* ================================================================ dispatch *)
Lemma dispatch_nothing f : dispatch f [] [] = Decided StTautology.
Proof. reflexivity. Qed.

Lemma dispatch_cache_hit f a r :
  (a <> [] \/ r <> []) -> cache_hit f = true -> dispatch f a r = Decided StUndo.
Proof.
  intros H Hc. unfold dispatch. rewrite Hc.
  destruct a; destruct r; cbn; try reflexivity. destruct H; congruence.
Qed.

Definition general_of (f : facts) : decision :=
  if negb (from_cnf f) then Decided StError
  else if stored_cnf_empty f then Decided StRecompile else GraphDependent.

Lemma dispatch_general f a r :
  is_nil a && is_nil r = false -> cache_hit f = false ->
  ~ (r = [] /\ exists l, a = [[l]]) -> dispatch f a r = general_of f.
Proof.
  intros Hn Hc Hu. unfold dispatch. rewrite Hn, Hc. fold (general_of f).
  destruct a as [|[|l [|l2 c]] [|c2 a]]; try reflexivity.
  destruct r as [|cr r]; [|reflexivity]. exfalso. apply Hu. split; [reflexivity|]. now exists l.
Qed.

Lemma general_not_unit f : general_of f <> Decided StUnitClause.
Proof. unfold general_of. destruct (from_cnf f); [destruct (stored_cnf_empty f)|]; discriminate. Qed.

(* a single added unit clause - over an existing or a NEW variable - and NOTHING to remove takes
   the unit path *)
Lemma dispatch_unit f l :
  cache_hit f = false -> dispatch f [[l]] [] = Decided StUnitClause.
Proof. intros Hc. unfold dispatch. rewrite Hc. reflexivity. Qed.

(* the unit path is taken in exactly that case *)
Lemma dispatch_unit_iff f a r :
  dispatch f a r = Decided StUnitClause <->
  cache_hit f = false /\ r = [] /\ exists l, a = [[l]].
Proof.
  split.
  - unfold dispatch. intros H.
    destruct (is_nil a && is_nil r) eqn:En; [discriminate|].
    destruct (cache_hit f) eqn:Ec; [discriminate|]. fold (general_of f) in H.
    destruct a as [|[|l [|l2 c]] [|c2 a]]; try (exfalso; revert H; apply general_not_unit).
    destruct r as [|cr r]; [|exfalso; revert H; cbn [is_nil]; apply general_not_unit].
    split; [reflexivity|]. split; [reflexivity|]. now exists l.
  - intros [Hc [-> [l ->]]]. now apply dispatch_unit.
Qed.

(* an edit that removes something never takes the unit path (K26 repaired) *)
Lemma dispatch_removal_not_unit f a r : r <> [] -> dispatch f a r <> Decided StUnitClause.
Proof. intros Hr H. apply dispatch_unit_iff in H. destruct H as [_ [Hr' _]]. contradiction. Qed.

(* every other edit on a d-DNNF without source CNF is refused (K3, K20, K21, K35 repaired by F28) *)
Lemma dispatch_no_source f a r :
  (a <> [] \/ r <> []) -> cache_hit f = false -> from_cnf f = false ->
  ~ (r = [] /\ exists l, a = [[l]]) -> dispatch f a r = Decided StError.
Proof.
  intros Hne Hc Hf Hu. rewrite dispatch_general; [unfold general_of; now rewrite Hf|..]; try assumption.
  destruct a; destruct r; cbn; try reflexivity. destruct Hne; congruence.
Qed.

Lemma dispatch_error_iff f a r :
  dispatch f a r = Decided StError <->
  (a <> [] \/ r <> []) /\ cache_hit f = false /\ from_cnf f = false /\ ~ (r = [] /\ exists l, a = [[l]]).
Proof.
  split.
  - intros H. unfold dispatch in H.
    destruct (is_nil a && is_nil r) eqn:En; [discriminate|].
    destruct (cache_hit f) eqn:Ec; [discriminate|]. fold (general_of f) in H.
    assert (Hne : a <> [] \/ r <> []).
    { destruct a; [destruct r; [discriminate|right; discriminate]|left; discriminate]. }
    assert (G : general_of f = Decided StError -> from_cnf f = false).
    { unfold general_of. destruct (from_cnf f); [destruct (stored_cnf_empty f); discriminate|reflexivity]. }
    split; [exact Hne|]. split; [reflexivity|].
    destruct a as [|[|l [|l2 c]] [|c2 a]];
      try (split; [now apply G|intros [_ [l0 E]]; discriminate]).
    destruct r as [|cr r]; [discriminate|]. split; [now apply G|intros [E _]; discriminate].
  - intros [Hne [Hc [Hf Hu]]]. now apply dispatch_no_source.
Qed.

(* an empty clause list of a CNF-compiled d-DNNF: the edited CNF is compiled as a whole (K27
   repaired by F24) *)
Lemma dispatch_empty_from_cnf f a r :
  (a <> [] \/ r <> []) -> cache_hit f = false -> from_cnf f = true -> stored_cnf_empty f = true ->
  ~ (r = [] /\ exists l, a = [[l]]) -> dispatch f a r = Decided StRecompile.
Proof.
  intros Hne Hc Hf Hs Hu. rewrite dispatch_general; [unfold general_of; now rewrite Hf, Hs|..]; try assumption.
  destruct a; destruct r; cbn; try reflexivity. destruct Hne; congruence.
Qed.

(* the dispatch itself answers Tautology only for an edit without effective clauses *)
Lemma dispatch_tautology_iff f a r : dispatch f a r = Decided StTautology <-> a = [] /\ r = [].
Proof.
  split.
  - unfold dispatch. destruct a as [|c a]; destruct r as [|cr r]; cbn [is_nil andb]; try (intros; split; reflexivity);
      (destruct (cache_hit f); [discriminate|]); fold (general_of f);
      assert (G : general_of f <> Decided StTautology)
        by (unfold general_of; destruct (from_cnf f); [destruct (stored_cnf_empty f)|]; discriminate);
      intros H; exfalso; revert H.
    + exact G.
    + destruct c as [|l [|l2 c]]; [exact G| |exact G]. destruct a; [discriminate|exact G].
    + destruct c as [|l [|l2 c]]; [exact G| |exact G]. destruct a; exact G.
  - intros [-> ->]. reflexivity.
Qed.

(* BEFORE repair F16: the unit path was taken WHATEVER was to be removed in the same edit; the
   removals were then dropped (add_unit_clause does not read op_rmv): finding K26 *)
Lemma dispatch_unit_v0 f l r :
  cache_hit f = false -> Z.abs l <= ig_nvars f -> dispatch_v0 f [[l]] r = Decided StUnitClause.
Proof.
  intros Hc Hl. unfold dispatch_v0. rewrite Hc. cbn [is_nil andb negb max_var fold_right].
  assert (E : (ig_nvars f <? Z.max (Z.abs l) 0) = false) by (apply Z.ltb_ge; lia).
  now rewrite E.
Qed.

(* F16 changed the decision of mixed edits only *)
Lemma dispatch_v0_same_without_removal f a : dispatch_v1 f a [] = dispatch_v0 f a [].
Proof.
  unfold dispatch_v1, dispatch_v0.
  destruct a as [|[|l [|l2 c]] [|c2 a]]; reflexivity.
Qed.

(* BEFORE F24 / F27 / F28 (dispatch_v1): with an empty stored clause list (every nnf-loaded model;
   a CNF without effective clauses) every edit that is not a pure unit edit over an existing
   variable was answered Tautology (nothing happens: K3 / K27) or, when the root is graph node 0,
   Recompile of the edit's clauses ALONE (K20) *)
Lemma dispatch_empty_store_v1 f a r :
  cache_hit f = false -> stored_cnf_empty f = true -> (a <> [] \/ r <> []) ->
  (forall l, a = [[l]] -> r = [] -> ig_nvars f < Z.abs l) ->
  dispatch_v1 f a r = Decided (if root_is_node0 f then StRecompile else StTautology).
Proof.
  intros Hc Hs Hne Hunit. unfold dispatch_v1. rewrite Hc, Hs.
  assert (Hnil : is_nil a && is_nil r = false).
  { destruct a; destruct r; cbn; try reflexivity. destruct Hne; congruence. }
  rewrite Hnil.
  destruct a as [|[|l [|l2 c]] [|c2 a]]; try (destruct (root_is_node0 f); reflexivity).
  destruct r as [|cr r]; [|cbn [is_nil andb]; destruct (root_is_node0 f); reflexivity].
  specialize (Hunit l eq_refl eq_refl). cbn [is_nil negb andb max_var fold_right].
  assert (E : (ig_nvars f <? Z.max (Z.abs l) 0) = true) by (apply Z.ltb_lt; lia).
  rewrite E. cbn. destruct (root_is_node0 f); reflexivity.
Qed.

(* where the repairs F24 / F27 / F28 changed nothing: a pure unit edit over an existing variable,
   and every other edit on a CNF-compiled d-DNNF with a non-empty clause list *)
Lemma dispatch_v1_same f a r :
  from_cnf f = true -> stored_cnf_empty f = false ->
  (forall l, a = [[l]] -> r = [] -> Z.abs l <= ig_nvars f) ->
  dispatch f a r = dispatch_v1 f a r.
Proof.
  intros Hf Hs Hold. unfold dispatch, dispatch_v1. rewrite Hf, Hs. cbn [negb].
  destruct a as [|[|l [|l2 c]] [|c2 a]]; try reflexivity.
  destruct r as [|cr r]; [|reflexivity]. specialize (Hold l eq_refl eq_refl).
  cbn [is_nil negb andb max_var fold_right].
  assert (E : (ig_nvars f <? Z.max (Z.abs l) 0) = false) by (apply Z.ltb_ge; lia).
  now rewrite E.
Qed.

(* ================================================================ the cache predicate *)
Lemma subsetZ_refl a : subsetZ a a = true.
Proof. apply subsetZ_In. auto. Qed.
Lemma set_eqZ_refl a : set_eqZ a a = true.
Proof. unfold set_eqZ. now rewrite subsetZ_refl. Qed.
Lemma vec_value_eq_refl a : vec_value_eq a a = true.
Proof.
  unfold vec_value_eq. apply forallb_forall. intros c Hc. apply existsb_exists. exists c.
  split; [exact Hc|apply set_eqZ_refl].
Qed.

(* two clause lists denote the same set of clauses (clauses compared as literal sets) *)
Definition same_lits (c d : clause) : Prop := forall l, In l c <-> In l d.
Definition clauses_incl (x y : cnf) : Prop := forall c, In c x -> exists d, In d y /\ same_lits c d.
Definition same_clauses (x y : cnf) : Prop := clauses_incl x y /\ clauses_incl y x.

Lemma vec_value_eq_incl x y : vec_value_eq x y = true <-> clauses_incl x y.
Proof.
  unfold vec_value_eq, clauses_incl. rewrite forallb_forall. split; intros H c Hc.
  - specialize (H c Hc). apply existsb_exists in H. destruct H as [d [Hd E]].
    exists d. split; [exact Hd|]. unfold same_lits. now apply set_eqZ_In.
  - destruct (H c Hc) as [d [Hd E]]. apply existsb_exists. exists d. split; [exact Hd|].
    apply set_eqZ_In. exact E.
Qed.

Lemma clauses_incl_lits x y l : clauses_incl x y -> In l (concat x) -> In l (concat y).
Proof.
  intros H Hl. apply in_concat in Hl. destruct Hl as [c [Hc Hlc]].
  destruct (H c Hc) as [d [Hd E]]. apply in_concat. exists d. split; [exact Hd|]. now apply E.
Qed.

(* the exact inverse of a cached edit matches ... *)
Lemma cache_matches_inverse a r : cache_matches a r r a = true.
Proof.
  unfold cache_matches. rewrite !vec_value_eq_refl, !andb_true_r.
  apply set_eqZ_In. intros x. unfold edit_lits. rewrite !in_app_iff. tauto.
Qed.

(* ... and nothing but an inverse does (K25 repaired): the request (a, r) matches the entry
   (ea, er) iff its added clauses are (as a set of sets) the entry's removed ones and vice versa *)
Lemma cache_matches_iff ea er a r :
  cache_matches ea er a r = true <-> same_clauses a er /\ same_clauses r ea.
Proof.
  unfold cache_matches, same_clauses. rewrite !andb_true_iff, !vec_value_eq_incl. split.
  - intros [_ [[[H1 H2] H3] H4]]. tauto.
  - intros [[H1 H2] [H3 H4]]. split; [|tauto].
    apply set_eqZ_In. intros x. unfold edit_lits. rewrite !in_app_iff. split; intros [H|H].
    + right. exact (clauses_incl_lits _ _ _ H4 H).
    + left. exact (clauses_incl_lits _ _ _ H2 H).
    + right. exact (clauses_incl_lits _ _ _ H1 H).
    + left. exact (clauses_incl_lits _ _ _ H3 H).
Qed.

(* whatever the repaired predicate accepts the old one accepted as well *)
Lemma cache_matches_v0_weaker ea er a r :
  cache_matches ea er a r = true -> cache_matches_v0 ea er a r = true.
Proof.
  unfold cache_matches, cache_matches_v0. rewrite !andb_true_iff. tauto.
Qed.

(* BEFORE repair F15 (one-directional inclusion) the predicate also accepted a request that undoes
   only PART of the entry: K25.  cached: add {1 3}, remove {1}; request: remove {1 3} - not the
   inverse, yet it matched; the repaired predicate rejects it *)
Lemma cache_matches_partial_refuted_v0 :
  exists ea er a r, cache_matches_v0 ea er a r = true /\ ~ same_clauses a er /\
                    cache_matches ea er a r = false.
Proof.
  exists [[1; 3]], [[1]], [], [[1; 3]]. split; [vm_compute; reflexivity|].
  split; [|vm_compute; reflexivity].
  intros [_ H]. destruct (H [1] (or_introl eq_refl)) as [d [[] _]].
Qed.

(* ================================================================ the cache keys *)
Lemma cache_find_Some keys a r e :
  cache_find keys a r = Some e -> In e keys /\ same_clauses a (snd e) /\ same_clauses r (fst e).
Proof.
  unfold cache_find. intros H. apply find_some in H. destruct H as [Hin Hm].
  split; [exact Hin|]. now apply cache_matches_iff.
Qed.

(* after a unit edit the cache is empty: no request is answered from it (K34 repaired) *)
Lemma cache_find_after_unit keys a r : cache_find (cache_after_unit keys) a r = None.
Proof. reflexivity. Qed.

Definition is_some {A} (o : option A) : bool := match o with Some _ => true | None => false end.

Lemma no_undo_after_unit f keys a r :
  cache_hit f = is_some (cache_find (cache_after_unit keys) a r) -> dispatch f a r <> Decided StUndo.
Proof.
  rewrite cache_find_after_unit. cbn [is_some]. intros Hc. unfold dispatch. rewrite Hc.
  destruct (is_nil a && is_nil r); [discriminate|]. fold (general_of f).
  assert (G : general_of f <> Decided StUndo).
  { unfold general_of. destruct (from_cnf f); [destruct (stored_cnf_empty f)|]; discriminate. }
  destruct a as [|[|l [|l2 c]] [|c2 a]]; try exact G.
  destruct (is_nil r); [discriminate|exact G].
Qed.

(* BEFORE repair F17 the unit path left the cache alone: the entry of an OLDER edit survived the
   unit edit and its inverse was answered Undo (restoring a state without the unit clause): K34.
   keys after `add [2 3]` (Recompile): one entry; then `add [-1]` (UnitClause); request `remove [2 3]` *)
Lemma undo_stale_after_unit_refuted_v0 :
  exists keys a r, cache_find (cache_after_unit_v0 keys) a r <> None /\
                   cache_find (cache_after_unit keys) a r = None.
Proof. exists [([[2; 3]], [])], [], [[2; 3]]. split; [vm_compute; discriminate|reflexivity]. Qed.

(* ================================================================ the stored clause list *)
(* the retain step removes exactly the stored clauses that are (as sets) among the clauses to
   remove, and keeps the order of the others: it is the removal step of the specification *)
Lemma filter_true {A} (l : list A) : filter (fun _ => true) l = l.
Proof. induction l as [|x l IH]; [reflexivity|]. cbn. now rewrite IH. Qed.

Lemma retain_clauses_filter stored rmv :
  retain_clauses stored rmv = filter (fun c => negb (mem_clause c rmv)) stored.
Proof.
  unfold retain_clauses, mem_clause. destruct rmv as [|r rmv]; [|reflexivity].
  cbn [existsb negb]. symmetry. apply filter_true.
Qed.

Lemma retain_clauses_In stored rmv c :
  In c (retain_clauses stored rmv) <-> In c stored /\ mem_clause c rmv = false.
Proof. rewrite retain_clauses_filter, filter_In, negb_true_iff. reflexivity. Qed.

Lemma mem_clause_iff c F : mem_clause c F = true <-> exists d, In d F /\ same_lits c d.
Proof.
  unfold mem_clause. rewrite existsb_exists. split; intros [d [Hd E]]; exists d; (split; [exact Hd|]).
  - unfold same_lits. now apply set_eqZ_In.
  - apply set_eqZ_In. exact E.
Qed.

Lemma retain_is_spec F n rmvs :
  fst (edit_spec F n [] rmvs) = retain_clauses F (filter_map' norm_clause rmvs).
Proof. rewrite retain_clauses_filter. reflexivity. Qed.

(* a clause list on which simplify_clauses has nothing to do: every clause duplicate-free, not
   tautological, not a unit clause *)
Definition plain_clauses (F : cnf) : Prop :=
  forall c, In c F -> NoDup c /\ is_taut c = false /\ length c <> 1%nat.

Lemma dedup_NoDup c : NoDup c -> dedup c = c.
Proof.
  induction c as [|x c IH]; [reflexivity|]. intros H. inversion H as [|? ? Hx Hc]; subst.
  cbn [dedup]. apply memZ_false in Hx. rewrite Hx. now rewrite IH.
Qed.

Lemma simplify_plain F : plain_clauses F -> simplify_clauses F = F.
Proof.
  intros HF. unfold simplify_clauses.
  assert (E1 : filter (fun c => negb (is_taut c)) (map dedup F) = F).
  { induction F as [|c F IH]; [reflexivity|]. cbn [map filter].
    destruct (HF c (or_introl eq_refl)) as [Hn [Ht _]]. rewrite (dedup_NoDup c Hn), Ht. cbn [negb].
    rewrite IH; [reflexivity|]. intros d Hd. apply HF. now right. }
  rewrite E1.
  assert (E2 : forall acc, fold_left (fun acc c => match c with [u] => add_set u acc | _ => acc end) F acc = acc).
  { clear E1. induction F as [|c F IH]; [reflexivity|]. intros acc. cbn [fold_left].
    destruct (HF c (or_introl eq_refl)) as [_ [_ Hl]].
    destruct c as [|u [|u2 c]]; [| exfalso; now apply Hl |]; (apply IH; intros d Hd; apply HF; now right). }
  rewrite E2. unfold apply_decisions. cbn [apply_decisions_go map]. apply app_nil_r.
Qed.

Lemma plain_example : plain_clauses [[-1; 2]; [-1; -2]].
Proof.
  assert (N : forall a b : Z, a <> b -> NoDup [a; b]).
  { intros a b H. constructor; [intros [E|[]]; congruence|]. constructor; [intros []|constructor]. }
  intros c [<-|[<-|[]]]; (split; [apply N; discriminate|split; [reflexivity|discriminate]]).
Qed.

Lemma plain_filter (p : clause -> bool) F : plain_clauses F -> plain_clauses (filter p F).
Proof. intros HF c Hc. apply filter_In in Hc. now apply HF. Qed.

(* on such a list a removal through adjust_intern_cnf IS the removal of the specification, for any
   number of clauses removed at once (K23 repaired) *)
Lemma adjust_removal_plain stored rmv :
  plain_clauses stored ->
  adjust_intern_cnf stored [] rmv = filter (fun c => negb (mem_clause c rmv)) stored.
Proof.
  intros H. unfold adjust_intern_cnf. rewrite app_nil_r, retain_clauses_filter.
  apply simplify_plain. now apply plain_filter.
Qed.

Lemma adjust_removal_is_spec F n rmvs :
  plain_clauses F ->
  adjust_intern_cnf F [] (filter_map' norm_clause rmvs) = fst (edit_spec F n [] rmvs).
Proof. intros H. rewrite adjust_removal_plain by exact H. reflexivity. Qed.

(* K8: the stored clause list is unit-propagated (simplify_clauses), so removing the unit clause
   does not bring back what it satisfied / shortened *)
Definition k8_cnf : cnf := [[-4]; [-4; 3]; [-3; -1]; [-2]].
Lemma removal_after_simplify_refuted :
  length (cnf_models_n (adjust_intern_cnf (simplify_clauses k8_cnf) [] [[-4]]) 4) = 6%nat /\
  length (cnf_models_n (fst (edit_spec k8_cnf 4 [] [[-4]])) 4) = 4%nat.
Proof. vm_compute. split; reflexivity. Qed.

(* K38, BEFORE repair F23: an edit answered Recompile adjusted the stored list twice; CNF {-1 -2}
   over 2 features, edit (remove {-1} - a clause that is not there -, add {2}): the first round
   shortens {-1 -2} to {-1}, the second round removes it.  The repaired code applies the edit once. *)
Lemma recompile_adjusts_twice_refuted_v0 :
  recompile_stored_v0 [[-1; -2]] [[2]] [[-1]] = [[2]] /\
  cnf_models_n (recompile_stored_v0 [[-1; -2]] [[2]] [[-1]]) 2 = [[1; 2]; [-1; 2]] /\
  cnf_models_n (fst (edit_spec [[-1; -2]] 2 [[2]] [[-1]])) 2 = [[-1; 2]] /\
  cnf_models_n (recompile_stored [[-1; -2]] [[2]] [[-1]]) 2 = [[-1; 2]].
Proof. vm_compute. repeat split; reflexivity. Qed.

Lemma recompile_stored_once stored a r : recompile_stored stored a r = adjust_intern_cnf stored a r.
Proof. reflexivity. Qed.

(* with an empty stored list (early return of transform_to_cnf_from_starting_cnf) there was one
   round before the repair as well *)
Lemma recompile_stored_v0_empty a r : recompile_stored_v0 [] a r = recompile_stored [] a r.
Proof. reflexivity. Qed.

(* K23, BEFORE repair F14: retain(any(!=)) kept every clause when two different clauses were
   removed at once; the repaired retain step removes both *)
Lemma multi_removal_refuted_v0 :
  adjust_intern_cnf_v0 [[-1; 2]; [-1; -2]] [] [[-1; 2]; [-1; -2]] = [[-1; 2]; [-1; -2]] /\
  fst (edit_spec [[-1; 2]; [-1; -2]] 2 [] [[-1; 2]; [-1; -2]]) = [] /\
  adjust_intern_cnf [[-1; 2]; [-1; -2]] [] [[-1; 2]; [-1; -2]] = [].
Proof. vm_compute. repeat split; reflexivity. Qed.

(* with ONE clause to remove the old retain step was right: same result as the repaired one *)
Lemma retain_v0_single stored r : retain_clauses_v0 stored [r] = retain_clauses stored [r].
Proof.
  unfold retain_clauses_v0, retain_clauses. apply filter_ext. intros c. cbn [existsb].
  now rewrite !orb_false_r.
Qed.

Lemma single_removal_example :
  adjust_intern_cnf [[-1; 2]; [-1; -2]] [] [[2; -1]] = [[-1; -2]].
Proof. vm_compute. reflexivity. Qed.
