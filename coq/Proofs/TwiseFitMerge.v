(* C09 pipeline, fitness variant: AttributeZippingMerger and AttributeSimilarityMerger.
   The and-merge draws the two parts of a cross interaction from the LITERAL lists of the two
   sides with sizes min(len,k) / min(len,t-k).  For an interaction of exactly t literals the sizes
   fit (k = number of literals on the left), so every valid t-interaction over the joint variables
   is covered whenever there are at least t joint variables; nothing is claimed below t variables
   (for t larger than the number of features this is finding K11). *)
From Coq Require Import List ZArith Bool Arith Lia Permutation.
From DD Require Import Model.Circuit Model.Query Model.Optimal Model.TwiseCfg Model.TwiseMerge Model.TwisePipeline
  Model.TwiseFitness
  Proofs.PassLemmas Proofs.Semantics Proofs.CountsA Proofs.QueryDefs Proofs.C03Proof Proofs.TwiseBase
  Proofs.TwiseSem Proofs.TwiseCfgProof Proofs.TwiseInv Proofs.TwiseAnd Proofs.TwiseShuffle Proofs.TwiseFitBase.
Import ListNotations.
Open Scope Z_scope.

Lemma sort_Z_In x l : In x (sort_Z l) <-> In x l.
Proof.
  unfold sort_Z. induction l as [|a l IH]; cbn [fold_right]; [tauto|].
  assert (Hi : forall y l0, In y (insert_Z a l0) <-> y = a \/ In y l0).
  { clear. intros y l0. induction l0 as [|b l0 IH]; cbn [insert_Z]; [cbn; intuition|].
    destruct (a <=? b); cbn [In]; [intuition|]. rewrite IH. intuition. }
  rewrite Hi, IH. cbn [In]. intuition.
Qed.

Lemma s_new_from2_lits L R x : In x (s_lits (s_new_from [L; R])) <-> In x (s_lits L) \/ In x (s_lits R).
Proof.
  unfold s_new_from. cbn [s_lits flat_map]. rewrite sort_Z_In, nodup_In, app_nil_r, in_app_iff. tauto.
Qed.

Lemma tints_nonempty lits k : NoDup lits -> (k <= length lits)%nat -> tints lits k <> [].
Proof.
  intros Hnd Hk E.
  destruct (tints_covers lits k (firstn k lits)) as [o [Ho _]].
  - rewrite <- (firstn_skipn k lits) in Hnd. now apply NoDup_app_inv in Hnd.
  - intros x Hx. rewrite <- (firstn_skipn k lits). apply in_app_iff. now left.
  - apply firstn_length_le. exact Hk.
  - rewrite E in Ho. destruct Ho.
Qed.

Section FitMerge.
Variables (C : circuit) (n : nat) (t : nat) (vals : list Z).
Hypothesis HQ : WFQ C n.
Let d := build C n.

Notation valid := (valid C).
Notation V := (V C).
Notation CfgOK := (CfgOK C n).
Notation SampOK := (SampOK C n).
Notation CovAll := (CovAll C).
Notation LitsC := (LitsC C).

(* the literal list of a sample: only LIVE leaves (Proofs/Live.v) over its variables, and every
   literal that is valid on its own *)
Definition LitsInv (r : nat) (W : list Z) (S : sample) : Prop :=
  (forall l, In l (s_lits S) -> Live.LiveLit C l /\ In (Z.abs l) W) /\
  (forall l, In (Z.abs l) W -> valid r [l] -> In l (s_lits S)).

Lemma LitsInv_ext r W W' S : (forall v, In v W <-> In v W') -> LitsInv r W S -> LitsInv r W' S.
Proof.
  intros H [H1 H2]. split.
  - intros l Hl. destruct (H1 l Hl). split; [assumption|now apply H].
  - intros l Hl. apply H2. now apply H.
Qed.

(* ================= the and node ================= *)
Section AndFit.
Variables (p : nat) (cs : list nat).
Hypothesis Hp : (p < length C)%nat.
Hypothesis HRp : Live.Reach C p.
Hypothesis Ep : nth p C FalseN = And cs.
Hypothesis Hpos : 0 < cnt C p.

Section Two.
Variables (WL WR : list Z).
Hypothesis HWL : incl WL (V p).
Hypothesis HWR : incl WR (V p).
Hypothesis Hal : Aligned C cs WL.
Hypothesis Hdis : forall v, In v WL -> ~ In v WR.
Variables (L R : sample).
Hypothesis HL : SampOK p WL L.
Hypothesis HR : SampOK p WR R.

Let ls := merge_sorted vals (s_part L) (s_comp L).
Let rs := merge_sorted vals (s_part R) (s_comp R).

Lemma ls_in x : In x ls <-> In x (s_iter L).
Proof. unfold ls, s_iter. rewrite merge_sorted_in, in_app_iff. tauto. Qed.
Lemma rs_in x : In x rs <-> In x (s_iter R).
Proof. unfold rs, s_iter. rewrite merge_sorted_in, in_app_iff. tauto. Qed.
Lemma ls_len : length ls = s_len L.
Proof. unfold ls, s_len. rewrite merge_sorted_length. lia. Qed.
Lemma rs_len : length rs = s_len R.
Proof. unfold rs, s_len. rewrite merge_sorted_length. lia. Qed.

Lemma zip_fit_spec :
  let S' := zip_fit d vals L R in
  SampOK p (WL ++ WR) S' /\ s_vars S' = zunion (s_vars L) (s_vars R) /\
  s_lits S' = s_lits (s_new_from [L; R]) /\
  (forall c, In c (s_iter L) -> exists c', In c' (s_iter S') /\ incl (c_decided c) (c_decided c')) /\
  (forall c, In c (s_iter R) -> exists c', In c' (s_iter S') /\ incl (c_decided c) (c_decided c')).
Proof.
  unfold zip_fit. cbv zeta. change (nv d) with n. fold ls rs.
  set (S0 := s_new_from [L; R]).
  assert (HS0 : SampOK p (WL ++ WR) S0).
  { constructor.
    - unfold S0. rewrite s_new_from2_vars. now apply (zvars_nodup C n p WL WR L R).
    - intros v. unfold S0. rewrite s_new_from2_vars. now apply (zvars_in C n p WL WR L R).
    - constructor.
    - intros c []. }
  pose proof (so_cfgs _ _ _ _ _ HL) as HallL. pose proof (so_cfgs _ _ _ _ _ HR) as HallR.
  rewrite Forall_forall in HallL, HallR.
  rewrite (fold_left_map s_insert (fun pr : config * config => c_from_disjoint n (fst pr) (snd pr))).
  set (zipped := map (fun pr : config * config => c_from_disjoint n (fst pr) (snd pr)) (combine ls rs)).
  assert (Hz : Forall (CfgOK p (WL ++ WR)) zipped).
  { apply Forall_forall. intros x Hx. unfold zipped in Hx. apply in_map_iff in Hx. destruct Hx as [[l r] [<- Hpr]].
    cbn [fst snd]. apply (disjoint_cfg_ok C n HQ p cs Hp Ep WL WR Hal Hdis).
    - apply HallL. apply ls_in. eapply in_combine_l; exact Hpr.
    - apply HallR. apply rs_in. eapply in_combine_r; exact Hpr. }
  destruct (insert_fold C n p (WL ++ WR) zipped S0 Hz HS0) as [G1 [G2 [G3 G4]]]. cbv zeta in *.
  set (S1 := fold_left s_insert zipped S0) in *.
  set (rest := if (s_len R <=? s_len L)%nat then skipn (s_len R) ls else skipn (s_len L) rs).
  assert (Hrest : Forall (CfgOK p (WL ++ WR)) rest).
  { apply Forall_forall. intros x Hx. unfold rest in Hx. destruct (s_len R <=? s_len L)%nat.
    - apply (CfgOK_ext C n p WL); [intros v Hv; apply in_app_iff; now left|]. apply HallL. apply ls_in.
      rewrite <- (firstn_skipn (s_len R) ls). apply in_app_iff. now right.
    - apply (CfgOK_ext C n p WR); [intros v Hv; apply in_app_iff; now right|]. apply HallR. apply rs_in.
      rewrite <- (firstn_skipn (s_len L) rs). apply in_app_iff. now right. }
  destruct (insert_fold C n p (WL ++ WR) rest S1 Hrest G1) as [K1 [K2 [K3 K4]]]. cbv zeta in *.
  split; [exact K1|]. split; [rewrite K2, G2; apply s_new_from2_vars|]. split; [now rewrite K3, G3|]. split.
  - intros c Hc. apply ls_in in Hc.
    destruct (combine_cover_l ls rs c Hc) as [[y Hy]|Hs].
    + exists (c_from_disjoint n c y). split.
      * apply K4. right. apply G4. left. unfold zipped. apply in_map_iff. now exists (c, y).
      * intros x Hx. apply (disjoint_cfg_dec C n p WL WR Hdis c y).
        -- apply HallL. apply ls_in. eapply in_combine_l; exact Hy.
        -- apply HallR. apply rs_in. eapply in_combine_r; exact Hy.
        -- now left.
    + exists c. split; [|apply incl_refl]. apply K4. left. unfold rest.
      pose proof (skipn_nonempty_length _ _ _ Hs) as Hlt. rewrite rs_len in Hs. rewrite rs_len, ls_len in Hlt.
      assert (E : (s_len R <=? s_len L)%nat = true) by (apply Nat.leb_le; lia). now rewrite E.
  - intros c Hc. apply rs_in in Hc.
    destruct (combine_cover_r ls rs c Hc) as [[x Hx]|Hs].
    + exists (c_from_disjoint n x c). split.
      * apply K4. right. apply G4. left. unfold zipped. apply in_map_iff. now exists (x, c).
      * intros y Hy. apply (disjoint_cfg_dec C n p WL WR Hdis x c).
        -- apply HallL. apply ls_in. eapply in_combine_l; exact Hx.
        -- apply HallR. apply rs_in. eapply in_combine_r; exact Hx.
        -- now right.
    + exists c. split; [|apply incl_refl]. apply K4. left. unfold rest.
      pose proof (skipn_nonempty_length _ _ _ Hs) as Hlt. rewrite ls_len in Hs. rewrite rs_len, ls_len in Hlt.
      assert (E : (s_len R <=? s_len L)%nat = false) by (apply Nat.leb_gt; lia). now rewrite E.
Qed.

(* the candidate interactions *)
Lemma fit_candidates_sound Z0 X : In X (fit_candidates t L R Z0) ->
  exists lp rp, X = (lp ++ rp)%list /\ incl lp (s_lits L) /\ incl rp (s_lits R).
Proof.
  unfold fit_candidates. intros H. apply in_flat_map in H. destruct H as [k [_ H]].
  apply in_flat_map in H. destruct H as [lp [Hlp H]]. apply in_flat_map in H. destruct H as [rp [Hrp H]].
  cbv zeta in H. destruct (s_covers Z0 (lp ++ rp)); [destruct H|]. destruct H as [<-|[]].
  exists lp, rp. split; [reflexivity|]. apply tints_in in Hlp, Hrp. tauto.
Qed.

Lemma fit_candidates_complete Z0 k lp rp : (1 <= k <= t - 1)%nat ->
  In lp (tints (s_lits L) (Nat.min (length (s_lits L)) k)) ->
  In rp (tints (s_lits R) (Nat.min (length (s_lits R)) (t - k))) ->
  s_covers Z0 (lp ++ rp) = true \/ In (lp ++ rp)%list (fit_candidates t L R Z0).
Proof.
  intros Hk Hlp Hrp. destruct (s_covers Z0 (lp ++ rp)) eqn:E; [now left|right].
  unfold fit_candidates. apply in_flat_map. exists k. split; [apply in_seq; lia|].
  apply in_flat_map. exists lp. split; [exact Hlp|]. apply in_flat_map. exists rp. split; [exact Hrp|].
  cbv zeta. rewrite E. now left.
Qed.

Hypothesis HLl : LitsInv p WL L.
Hypothesis HRl : LitsInv p WR R.
Hypothesis HcL : (t <= length (s_vars L))%nat -> CovAll p WL t L.
Hypothesis HcR : (t <= length (s_vars R))%nat -> CovAll p WR t R.

(* AttributeZippingMerger::merge on two non-empty samples *)
Lemma merge_fit_cov :
  let Z0 := zip_fit d vals L R in
  let todo := fit_candidates t L R Z0 in
  let ordered := rev (map snd (sort_key (map (fun X => (cval vals X, X)) todo))) in
  let S' := fold_left (cover_sorted d vals p) ordered Z0 in
  SampOK p (WL ++ WR) S' /\ s_vars S' = zunion (s_vars L) (s_vars R) /\
  LitsInv p (WL ++ WR) S' /\
  ((t <= length (zunion (s_vars L) (s_vars R)))%nat -> CovAll p (WL ++ WR) t S') /\
  (s_iter L <> [] -> s_iter S' <> []).
Proof.
  cbv zeta. destruct zip_fit_spec as [Z1 [Z2 [Z2' [Z3 Z4]]]]. cbv zeta in *.
  set (Z0 := zip_fit d vals L R) in *.
  set (todo := fit_candidates t L R Z0).
  set (ordered := rev (map snd (sort_key (map (fun X => (cval vals X, X)) todo)))).
  assert (HWW : incl (WL ++ WR) (V p)) by (intros v Hv; apply in_app_iff in Hv; destruct Hv; auto).
  assert (Hord : forall X, In X ordered <-> In X todo).
  { intros X. unfold ordered. rewrite <- in_rev, in_map_iff. split.
    - intros [[key Y] [E HY]]. cbn in E. subst Y. apply (proj1 (sort_key_in _ _)) in HY. apply in_map_iff in HY.
      destruct HY as [Y [EY HY]]. injection EY as _ <-. exact HY.
    - intros HX. exists (cval vals X, X). split; [reflexivity|]. apply sort_key_in. apply in_map_iff. now exists X. }
  destruct HLl as [HLs HLc]. destruct HRl as [HRs HRc].
  destruct (fold_sorted C n vals HQ p (WL ++ WR) Hp HRp HWW ordered Z0 Z1 Hpos) as [F1 [F2 [F2' [F3 F4]]]].
  { intros X HX. apply Hord in HX. destruct (fit_candidates_sound Z0 X HX) as [lp [rp [-> [Hlp Hrp]]]]. split.
    - intros l Hl. apply in_app_iff in Hl. destruct Hl as [Hl|Hl]; [apply HLs; now apply Hlp|apply HRs; now apply Hrp].
    - intros l Hl. apply in_app_iff in Hl. apply in_app_iff.
      destruct Hl as [Hl|Hl]; [left; apply HLs; now apply Hlp|right; apply HRs; now apply Hrp]. }
  cbv zeta in *. fold d in F1, F2, F2', F3, F4.
  set (S' := fold_left (cover_sorted d vals p) ordered Z0) in *.
  assert (HkeepL : forall J, Covers L J -> Covers S' J).
  { intros J [c [Hc HJ]]. apply F3. destruct (Z3 c Hc) as [c' [Hc' Hi]]. exists c'. split; [exact Hc'|].
    intros l Hl. apply Hi. now apply HJ. }
  assert (HkeepR : forall J, Covers R J -> Covers S' J).
  { intros J [c [Hc HJ]]. apply F3. destruct (Z4 c Hc) as [c' [Hc' Hi]]. exists c'. split; [exact Hc'|].
    intros l Hl. apply Hi. now apply HJ. }
  split; [exact F1|]. split; [now rewrite F2|]. split; [|split].
  - (* the literal list *)
    split.
    + intros l Hl. rewrite F2', Z2' in Hl. apply s_new_from2_lits in Hl. rewrite in_app_iff.
      destruct Hl as [Hl|Hl]; [destruct (HLs l Hl)|destruct (HRs l Hl)]; tauto.
    + intros l Hl Hv. rewrite F2', Z2'. apply s_new_from2_lits. apply in_app_iff in Hl.
      destruct Hl as [Hl|Hl]; [left; now apply HLc|right; now apply HRc].
  - (* coverage of the interactions with exactly t literals *)
    rewrite (zvars_length C n p WL WR Hdis L R HL HR). intros Htv I HI HIW Hlen Hv.
    set (fL := fun l => memZ (Z.abs l) WL).
    set (IL := filter fL I). set (IR := filter (fun l => negb (fL l)) I).
    assert (HILsub : incl IL I) by (intros l Hl; apply filter_In in Hl; tauto).
    assert (HIRsub : incl IR I) by (intros l Hl; apply filter_In in Hl; tauto).
    assert (HILW : forall l, In l IL -> In (Z.abs l) WL).
    { intros l Hl. apply filter_In in Hl. destruct Hl as [_ Hl]. now apply memZ_In. }
    assert (HIRW : forall l, In l IR -> In (Z.abs l) WR).
    { intros l Hl. apply filter_In in Hl. destruct Hl as [Hl Hn]. apply negb_true_iff, memZ_false in Hn.
      specialize (HIW l Hl). apply in_app_iff in HIW. tauto. }
    assert (Hsplit : forall l, In l I -> In l IL \/ In l IR).
    { intros l Hl. destruct (fL l) eqn:E; [left|right]; apply filter_In; split; auto. now rewrite E. }
    assert (Hlens : length I = (length IL + length IR)%nat) by apply filter_split_length.
    assert (HndL : NoDup (map Z.abs IL)) by now apply NoDup_map_filter.
    assert (HndR : NoDup (map Z.abs IR)) by now apply NoDup_map_filter.
    assert (HndIL : NoDup IL) by (apply (NoDup_map_inv Z.abs); exact HndL).
    assert (HndIR : NoDup IR) by (apply (NoDup_map_inv Z.abs); exact HndR).
    assert (HvL : valid p IL) by (apply (valid_mono C n HQ p I); assumption).
    assert (HvR : valid p IR) by (apply (valid_mono C n HQ p I); assumption).
    assert (HlenL : (length IL <= length (s_vars L))%nat).
    { rewrite <- (map_length Z.abs IL). apply NoDup_incl_length; [exact HndL|].
      intros v Hv'. apply in_map_iff in Hv'. destruct Hv' as [l [<- Hl]]. apply (so_vars _ _ _ _ _ HL). now apply HILW. }
    assert (HlenR : (length IR <= length (s_vars R))%nat).
    { rewrite <- (map_length Z.abs IR). apply NoDup_incl_length; [exact HndR|].
      intros v Hv'. apply in_map_iff in Hv'. destruct Hv' as [l [<- Hl]]. apply (so_vars _ _ _ _ _ HR). now apply HIRW. }
    destruct (Nat.eq_dec (length IR) 0) as [Eb|Eb].
    { apply (Covers_mono _ I IL); [|apply HkeepL; apply HcL; try assumption; lia].
      intros l Hl. destruct (Hsplit l Hl) as [H|H]; [exact H|]. destruct IR; [destruct H|discriminate]. }
    destruct (Nat.eq_dec (length IL) 0) as [Ea|Ea].
    { apply (Covers_mono _ I IR); [|apply HkeepR; apply HcR; try assumption; lia].
      intros l Hl. destruct (Hsplit l Hl) as [H|H]; [|exact H]. destruct IL; [destruct H|discriminate]. }
    (* both sides: the interaction is drawn from the literal lists *)
    assert (HILl : incl IL (s_lits L)).
    { intros l Hl. apply HLc; [now apply HILW|]. apply (valid_mono C n HQ p IL); [exact Hp| |exact HvL].
      intros x [<-|[]]. exact Hl. }
    assert (HIRl : incl IR (s_lits R)).
    { intros l Hl. apply HRc; [now apply HIRW|]. apply (valid_mono C n HQ p IR); [exact Hp| |exact HvR].
      intros x [<-|[]]. exact Hl. }
    pose proof (NoDup_incl_length HndIL HILl) as HaL. pose proof (NoDup_incl_length HndIR HIRl) as HaR.
    destruct (tints_covers (s_lits L) (length IL) IL HndIL HILl eq_refl) as [oL [HoL HpL]].
    destruct (tints_covers (s_lits R) (length IR) IR HndIR HIRl eq_refl) as [oR [HoR HpR]].
    assert (HminL : Nat.min (length (s_lits L)) (length IL) = length IL) by lia.
    assert (HminR : Nat.min (length (s_lits R)) (t - length IL) = length IR) by lia.
    assert (Hk : (1 <= length IL <= t - 1)%nat) by lia.
    assert (HIX : incl I (oL ++ oR)).
    { intros l Hl. apply in_app_iff. destruct (Hsplit l Hl) as [H|H].
      - left. apply (Permutation_in l (Permutation_sym HpL) H).
      - right. apply (Permutation_in l (Permutation_sym HpR) H). }
    assert (HXI : incl (oL ++ oR) I).
    { intros l Hl. apply in_app_iff in Hl. destruct Hl as [H|H].
      - apply HILsub. apply (Permutation_in l HpL H).
      - apply HIRsub. apply (Permutation_in l HpR H). }
    apply (Covers_mono _ I (oL ++ oR)%list HIX).
    destruct (fit_candidates_complete Z0 (length IL) oL oR Hk) as [Hcv|Hin].
    + now rewrite HminL.
    + now rewrite HminR.
    + apply F3. apply (s_covers_spec C n p (WL ++ WR) Z0 (oL ++ oR) Z1); [|exact Hcv].
      intros l Hl. apply HXI in Hl.
      assert (Hlit : In l (lits_of C)).
      { apply live_lit_of. destruct (Hsplit l Hl) as [H|H]; [apply HLs; now apply HILl|apply HRs; now apply HIRl]. }
      split; [exact (lits_of_nonzero C n HQ l Hlit)|exact (lits_inr C n HQ l Hlit)].
    + apply F4; [now apply Hord|]. apply (valid_mono C n HQ p I); [exact Hp|exact HXI|exact Hv].
  - intros Hne. destruct (s_iter L) as [|c0 l0] eqn:E; [congruence|].
    assert (Hc0 : In c0 (s_iter L)) by (rewrite E; now left).
    assert (Hcv : Covers L (c_decided c0)) by (exists c0; split; [exact Hc0|apply incl_refl]).
    destruct (HkeepL _ Hcv) as [c' [Hc' _]]. intros Habs. rewrite Habs in Hc'. destruct Hc'.
Qed.

End Two.

(* ---------- merge / merge_all ---------- *)
Definition GoodF (S : sample) : Prop :=
  (s_is_empty S = true /\ s_vars S = [] /\ s_lits S = []) \/
  (s_is_empty S = false /\ SampOK p (s_vars S) S /\
   ((t <= length (s_vars S))%nat -> CovAll p (s_vars S) t S) /\ LitsInv p (s_vars S) S /\
   Aligned C cs (s_vars S) /\ incl (s_vars S) (V p)).

Lemma GoodF_nodup S : GoodF S -> NoDup (s_vars S).
Proof. intros [[_ [-> _]]|[_ [H _]]]; [constructor|apply H]. Qed.

Lemma GoodF_default : GoodF s_default.
Proof. left. repeat split. Qed.

Lemma and_merge_fit_good L R : GoodF L -> GoodF R ->
  (forall v, In v (s_vars L) -> ~ In v (s_vars R)) ->
  let S' := and_merge_fit d t vals p L R in
  GoodF S' /\ (forall v, In v (s_vars S') <-> In v (s_vars L) \/ In v (s_vars R)).
Proof.
  intros HL HR Hdis S'. unfold S', and_merge_fit.
  destruct HL as [[EL [VL LL]]|[EL [SL [CL [IL [AL IcL]]]]]].
  { rewrite EL. split; [exact HR|]. intros v; rewrite VL; cbn; tauto. }
  rewrite EL.
  destruct HR as [[ER [VR LR]]|[ER [SR [CR [IR [AR IcR]]]]]].
  { rewrite ER. split; [right; auto 6|]. intros v; rewrite VR; cbn; tauto. }
  rewrite ER. cbv zeta.
  destruct (merge_fit_cov (s_vars L) (s_vars R) IcL IcR AL Hdis L R SL SR IL IR CL CR) as [M1 [M2 [M3 [M4 M5]]]].
  cbv zeta in *.
  set (R' := fold_left (cover_sorted d vals p) _ (zip_fit d vals L R)) in *.
  assert (Hvars : forall v, In v (s_vars R') <-> In v (s_vars L) \/ In v (s_vars R)).
  { intros v. rewrite M2. apply zunion_In. }
  assert (Hext : forall v, In v (s_vars L ++ s_vars R) <-> In v (s_vars R')).
  { intros v. rewrite Hvars. apply in_app_iff. }
  split; [|exact Hvars].
  right. split; [|split; [|split; [|split; [|split]]]].
  - apply Bool.not_true_is_false. intros E. apply s_is_empty_iter in E. apply M5; [|exact E].
    intros Habs. apply s_is_empty_iter in Habs. congruence.
  - now apply (SampOK_ext C n p (s_vars L ++ s_vars R)).
  - intros Htv. apply (CovAll_ext C p (s_vars L ++ s_vars R)); [intros v Hv; now apply Hext|].
    apply M4. now rewrite <- M2.
  - now apply (LitsInv_ext p (s_vars L ++ s_vars R)).
  - apply (Aligned_union C cs (s_vars L) (s_vars R)); assumption.
  - intros v Hv. apply Hvars in Hv. destruct Hv; auto.
Qed.

Lemma fold_merge_fit : forall l acc, GoodF acc -> Forall GoodF l ->
  NoDup (s_vars acc ++ flat_map s_vars l) ->
  let R := fold_left (and_merge_fit d t vals p) l acc in
  GoodF R /\ (forall v, In v (s_vars R) <-> In v (s_vars acc) \/ In v (flat_map s_vars l)).
Proof.
  induction l as [|x l IH]; intros acc Hacc Hl Hnd; cbn [fold_left]; cbv zeta.
  - split; [exact Hacc|]. intros v. cbn. tauto.
  - inversion Hl as [|? ? Hx Hl']; subst x0 l0. cbn [flat_map] in Hnd.
    destruct (NoDup_app_inv _ _ Hnd) as [N1 [N2 N3]]. destruct (NoDup_app_inv _ _ N2) as [N4 [N5 N6]].
    destruct (and_merge_fit_good acc x Hacc Hx) as [G1 G2].
    { intros v Hv Hv'. apply (N3 v Hv). apply in_app_iff. now left. }
    cbv zeta in *.
    destruct (IH (and_merge_fit d t vals p acc x) G1 Hl') as [K1 K2].
    + apply NoDup_app_intro; [now apply GoodF_nodup|exact N5|].
      intros v Hv Hv'. apply G2 in Hv. destruct Hv as [Hv|Hv].
      * apply (N3 v Hv). apply in_app_iff. now right.
      * exact (N6 v Hv Hv').
    + cbv zeta in *. split; [exact K1|]. intros v. rewrite K2, G2. cbn [flat_map]. rewrite in_app_iff. tauto.
Qed.

(* AttributeZippingMerger::merge_all *)
Lemma and_merge_all_fit_good Ss : Forall GoodF Ss -> NoDup (flat_map s_vars Ss) ->
  let R := and_merge_all_fit d t vals p Ss in
  GoodF R /\ (forall v, In v (s_vars R) <-> In v (flat_map s_vars Ss)).
Proof.
  intros HSs Hnd. unfold and_merge_all_fit. cbv zeta.
  pose proof (sort_len_perm Ss) as Hperm.
  destruct (fold_merge_fit (sort_len Ss) s_default GoodF_default) as [R1 R2].
  - apply (Forall_perm _ _ _ (Permutation_sym Hperm)). exact HSs.
  - cbn [s_default s_vars app]. eapply Permutation_NoDup; [|exact Hnd].
    apply Permutation_flat_map. now apply Permutation_sym.
  - cbv zeta in *. split; [exact R1|]. intros v. rewrite R2. cbn [s_default s_vars In].
    split; [intros [[]|H]|intros H; right]; revert H; apply Permutation_in; apply Permutation_flat_map;
      [exact Hperm|now apply Permutation_sym].
Qed.

End AndFit.
End FitMerge.
