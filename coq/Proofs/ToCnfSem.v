(* Semantics of the produced clauses: a biconditional's clauses say index <-> op(literals);
   the defined variables have exactly one consistent valuation over any assignment of 1..n. *)
From Coq Require Import List ZArith Bool Lia.
From DD Require Import Model.Circuit Model.ToCnf Proofs.PassLemmas Proofs.Enum Proofs.Semantics
  Proofs.ToCnfBase Proofs.ToCnfInv.
Import ListNotations.
Open Scope Z_scope.

Definition op_val (op : optype) (vals : list bool) : bool :=
  match op with OpAnd => forallb id vals | OpOr => existsb id vals end.

Definition bic_val (b : asg) (bc : bicond) : bool :=
  op_val (b_op bc) (map (lit_true b) (b_lits bc)).

Definition bic_holds (b : asg) (bc : bicond) : bool :=
  Bool.eqb (b (b_index bc)) (bic_val b bc).

Lemma lit_true_pos b x : 0 < x -> lit_true b x = b x.
Proof. intros H. unfold lit_true. apply Z.ltb_lt in H. now rewrite H. Qed.

Lemma lit_true_opp b l : l <> 0 -> lit_true b (- l) = negb (lit_true b l).
Proof.
  intros H. unfold lit_true. destruct (0 <? l) eqn:E.
  - apply Z.ltb_lt in E. replace (0 <? - l) with false by (symmetry; apply Z.ltb_ge; lia).
    now rewrite Z.opp_involutive.
  - apply Z.ltb_ge in E. replace (0 <? - l) with true by (symmetry; apply Z.ltb_lt; lia).
    now rewrite negb_involutive.
Qed.

Lemma forallb_or_const {A} (a : bool) (p : A -> bool) l :
  forallb (fun x => a || p x) l = a || forallb p l.
Proof. induction l as [|x l IH]; cbn; [now rewrite orb_true_r|]. rewrite IH. destruct a, (p x); reflexivity. Qed.

Lemma forallb_negb_existsb {A} (p : A -> bool) l : forallb (fun x => negb (p x)) l = negb (existsb p l).
Proof. induction l as [|x l IH]; cbn; [reflexivity|]. rewrite IH. destruct (p x); reflexivity. Qed.
Lemma existsb_negb_forallb {A} (p : A -> bool) l : existsb (fun x => negb (p x)) l = negb (forallb p l).
Proof. induction l as [|x l IH]; cbn; [reflexivity|]. rewrite IH. destruct (p x); reflexivity. Qed.

Lemma forallb_ext_in {A} (p q : A -> bool) l : (forall x, In x l -> p x = q x) -> forallb p l = forallb q l.
Proof.
  induction l as [|x l IH]; intros H; [reflexivity|]. cbn. rewrite (H x (or_introl eq_refl)).
  f_equal. apply IH. intros y Hy. apply H. now right.
Qed.
Lemma existsb_ext_in {A} (p q : A -> bool) l : (forall x, In x l -> p x = q x) -> existsb p l = existsb q l.
Proof.
  induction l as [|x l IH]; intros H; [reflexivity|]. cbn. rewrite (H x (or_introl eq_refl)).
  f_equal. apply IH. intros y Hy. apply H. now right.
Qed.

Lemma forallb_id_map {A} (p : A -> bool) l : forallb id (map p l) = forallb p l.
Proof. induction l as [|x l IH]; cbn; [reflexivity|]. now rewrite IH. Qed.
Lemma existsb_id_map {A} (p : A -> bool) l : existsb id (map p l) = existsb p l.
Proof. induction l as [|x l IH]; cbn; [reflexivity|]. now rewrite IH. Qed.

(* impl From<Biconditional> for Clauses is the CNF of the biconditional *)
Lemma clauses_of_sat (b : asg) (bc : bicond) :
  0 < b_index bc -> (forall l, In l (b_lits bc) -> l <> 0) ->
  forallb (clause_sat b) (clauses_of bc) = bic_holds b bc.
Proof.
  intros Hx Hnz. unfold clauses_of, bic_holds, bic_val. destruct bc as [x op lits].
  cbn [b_index b_op b_lits] in *. destruct op; cbn [forallb op_val].
  - (* And *)
    rewrite forallb_id_map, forallb_map.
    unfold clause_sat at 1. cbn [existsb]. rewrite existsb_map.
    rewrite (existsb_ext_in _ (fun l => negb (lit_true b l))) by (intros l Hl; now apply lit_true_opp, Hnz).
    rewrite existsb_negb_forallb.
    rewrite (forallb_ext_in (fun l => clause_sat b [- x; l]) (fun l => negb (b x) || lit_true b l)).
    2:{ intros l Hl. unfold clause_sat. cbn [existsb]. rewrite lit_true_opp by lia.
        rewrite lit_true_pos by lia. now rewrite orb_false_r. }
    rewrite forallb_or_const, lit_true_pos by lia.
    destruct (b x), (forallb (lit_true b) lits); reflexivity.
  - (* Or *)
    rewrite existsb_id_map, forallb_map.
    unfold clause_sat at 1. cbn [existsb]. rewrite lit_true_opp, lit_true_pos by lia.
    rewrite (forallb_ext_in (fun l => clause_sat b [x; - l]) (fun l => b x || negb (lit_true b l))).
    2:{ intros l Hl. unfold clause_sat. cbn [existsb]. rewrite lit_true_pos by lia.
        rewrite lit_true_opp by now apply Hnz. now rewrite orb_false_r. }
    rewrite forallb_or_const, forallb_negb_existsb.
    destruct (b x), (existsb (lit_true b) lits); reflexivity.
Qed.

Lemma forallb_flat_map {A B} (p : B -> bool) (f : A -> list B) l :
  forallb p (flat_map f l) = forallb (fun x => forallb p (f x)) l.
Proof. induction l as [|x l IH]; cbn; [reflexivity|]. now rewrite forallb_app, IH. Qed.

(* ---------- evaluation of an operation node ---------- *)

Lemma eval_node_op s acc nd op cs :
  node_op nd = Some (op, cs) ->
  eval_node s acc nd = op_val op (map (fun c => nth c acc false) cs).
Proof. destruct nd; cbn; intros H; inversion H; reflexivity. Qed.

(* any assignment satisfying the biconditionals gives every node's literal the node's value;
   a constant / childless operation is the empty operation: its biconditional fixes its variable *)
Lemma literal_is_value (C : circuit) (n : nat) (st : tstate) (b : asg) :
  idx_ok C = true -> Shape n C st -> Nodes C st ->
  (forall bc, In bc (ts_bics st) -> bic_holds b bc = true) ->
  forall j, (j < length C)%nat -> lit_true b (Lt st j) = nth j (evals b C) false.
Proof.
  intros Hok HS HN Hb.
  apply (idx_induction C (fun j => lit_true b (Lt st j) = nth j (evals b C) false) Hok).
  intros j Hj IH. rewrite (evals_unfold C Hok j Hj).
  destruct (nd_node C st HN j Hj) as [H1 H4].
  destruct (node_op (nth j C FalseN)) as [[op cs]|] eqn:Hop.
  - destruct (H4 op cs eq_refl) as [Hs Hm].
    rewrite (eval_node_op b _ _ _ _ Hop).
    rewrite (node_op_children _ _ _ Hop) in IH.
    destruct (Nat.eq_dec (length cs) 1) as [E1|E1].
    + destruct cs as [|c1 [|c2 cs]]; cbn [length] in E1; try lia.
      rewrite (Hs c1 eq_refl), IH by now left. destruct op; cbn; [now rewrite andb_true_r|now rewrite orb_false_r].
    + specialize (Hm E1). pose proof (Hb _ Hm) as Hh.
      destruct (sh_bic n C st HS _ Hm) as [_ [Hi _]]. cbn [b_index] in Hi.
      unfold bic_holds, bic_val in Hh. cbn [b_index b_op b_lits] in Hh. apply eqb_prop in Hh.
      rewrite lit_true_pos by lia. rewrite Hh, map_map. f_equal. apply map_ext_in. intros c Hc. now apply IH.
  - destruct (nth j C FalseN) as [l|cs|cs| |] eqn:E; cbn [node_op] in Hop; try discriminate.
    now rewrite (H1 l eq_refl).
Qed.

(* the value of a circuit depends only on the variables of its leaves *)
Lemma evals_ext (C : circuit) (b s : asg) :
  (forall l, In (Lit l) C -> b (Z.abs l) = s (Z.abs l)) -> evals b C = evals s C.
Proof.
  induction C as [|nd C IH] using rev_ind; intros H; [reflexivity|].
  unfold evals in *. rewrite !pass_snoc, IH by (intros l Hl; apply H; apply in_app_iff; now left).
  f_equal. f_equal. destruct nd as [l|cs|cs| |]; cbn [eval_node]; try reflexivity.
  apply lit_true_ext. apply H. apply in_app_iff. right. now left.
Qed.

Lemma eval_root_ext (C : circuit) (b s : asg) :
  (forall l, In (Lit l) C -> b (Z.abs l) = s (Z.abs l)) -> eval_root b C = eval_root s C.
Proof. intros H. unfold eval_root. now rewrite (evals_ext C b s H). Qed.

(* ---------- the unique extension ---------- *)

Definition upd (b : asg) (v : Z) (x : bool) : asg := fun w => if w =? v then x else b w.

Definition ext (s : asg) (bics : list bicond) : asg :=
  fold_left (fun b bc => upd b (b_index bc) (bic_val b bc)) bics s.

Lemma ext_snoc s bics bc :
  ext s (bics ++ [bc]) = upd (ext s bics) (b_index bc) (bic_val (ext s bics) bc).
Proof. unfold ext. now rewrite fold_left_app. Qed.

Lemma bic_val_ext b b' bc :
  (forall l, In l (b_lits bc) -> b (Z.abs l) = b' (Z.abs l)) -> bic_val b bc = bic_val b' bc.
Proof.
  intros H. unfold bic_val. f_equal. apply map_ext_in. intros l Hl. apply lit_true_ext. now apply H.
Qed.

Section Ext.
Variable N : Z.
Hypothesis HN0 : 0 <= N.

(* biconditionals numbered N+1, N+2, ... whose literals are nonzero and smaller than the index *)
Definition ordered (bics : list bicond) : Prop :=
  map b_index bics = zseq (N + 1) (length bics) /\
  forall bc, In bc bics -> forall l, In l (b_lits bc) -> l <> 0 /\ Z.abs l < b_index bc.

Lemma ordered_snoc bics bc :
  ordered (bics ++ [bc]) ->
  ordered bics /\ b_index bc = N + 1 + Z.of_nat (length bics) /\
  (forall l, In l (b_lits bc) -> l <> 0 /\ Z.abs l < b_index bc) /\
  (forall bc', In bc' bics -> N < b_index bc' < b_index bc).
Proof.
  intros [H1 H2]. rewrite map_app, app_length in H1. cbn [map length] in H1.
  rewrite Nat.add_1_r, zseq_snoc in H1. apply app_inj_tail in H1. destruct H1 as [H1 H1'].
  split; [split; [exact H1|]|split; [exact H1'|split]].
  - intros bc' Hbc'. apply H2. apply in_app_iff. now left.
  - apply H2. apply in_app_iff. right. now left.
  - intros bc' Hbc'. assert (Hin : In (b_index bc') (map b_index bics)) by now apply in_map.
    rewrite H1 in Hin. apply zseq_In in Hin. lia.
Qed.

Lemma ext_off s bics v :
  ordered bics -> (v <= N \/ N + 1 + Z.of_nat (length bics) <= v) -> ext s bics v = s v.
Proof.
  induction bics as [|bc bics IH] using rev_ind; intros Ho Hv; [reflexivity|].
  destruct (ordered_snoc bics bc Ho) as [Ho' [Hi _]].
  rewrite ext_snoc. unfold upd. rewrite app_length in Hv. cbn [length] in Hv.
  replace (v =? b_index bc) with false by (symmetry; apply Z.eqb_neq; lia).
  apply IH; [exact Ho'|lia].
Qed.

Lemma ext_holds s bics :
  ordered bics -> forall bc, In bc bics -> bic_holds (ext s bics) bc = true.
Proof.
  induction bics as [|bc0 bics IH] using rev_ind; intros Ho bc Hbc; [destruct Hbc|].
  destruct (ordered_snoc bics bc0 Ho) as [Ho' [Hi [Hl Hlt]]].
  rewrite ext_snoc. set (b := ext s bics) in *. set (v := b_index bc0) in *.
  assert (Hsame : forall bc', (forall l, In l (b_lits bc') -> Z.abs l < v) ->
                  bic_val (upd b v (bic_val b bc0)) bc' = bic_val b bc').
  { intros bc' H. apply bic_val_ext. intros l Hl'. unfold upd.
    replace (Z.abs l =? v) with false; [reflexivity|]. symmetry. apply Z.eqb_neq. specialize (H l Hl'). lia. }
  apply in_app_iff in Hbc. destruct Hbc as [Hbc|[<-|[]]].
  - unfold bic_holds. rewrite Hsame.
    + unfold upd. replace (b_index bc =? v) with false.
      * apply (IH Ho' bc Hbc).
      * symmetry. apply Z.eqb_neq. specialize (Hlt bc Hbc). lia.
    + intros l Hl'. destruct Ho' as [_ Ho']. specialize (Ho' bc Hbc l Hl'). specialize (Hlt bc Hbc). lia.
  - unfold bic_holds. rewrite Hsame by (intros l Hl'; now apply Hl).
    unfold upd. fold v. rewrite Z.eqb_refl. apply eqb_reflx.
Qed.

Lemma ext_unique s bics b' :
  ordered bics -> (forall bc, In bc bics -> bic_holds b' bc = true) ->
  (forall v, 1 <= v <= N -> b' v = s v) ->
  forall v, 1 <= v < N + 1 + Z.of_nat (length bics) -> b' v = ext s bics v.
Proof.
  induction bics as [|bc bics IH] using rev_ind; intros Ho Hh Hs v Hv.
  - cbn in Hv. cbn. apply Hs. lia.
  - destruct (ordered_snoc bics bc Ho) as [Ho' [Hi [Hl Hlt]]].
    assert (IH' := IH Ho' (fun bc' H => Hh bc' (proj2 (in_app_iff _ _ _) (or_introl H))) Hs).
    rewrite app_length in Hv. cbn [length] in Hv. rewrite ext_snoc. unfold upd.
    destruct (v =? b_index bc) eqn:E.
    + apply Z.eqb_eq in E. subst v.
      assert (Hbc : In bc (bics ++ [bc])) by (apply in_app_iff; right; now left).
      specialize (Hh bc Hbc).
      unfold bic_holds in Hh. apply eqb_prop in Hh. rewrite Hh. apply bic_val_ext.
      intros l Hl'. apply IH'. specialize (Hl l Hl'). lia.
    + apply Z.eqb_neq in E. apply IH'. lia.
Qed.

End Ext.
