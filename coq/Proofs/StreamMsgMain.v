(* C13: the theorems about handle_stream_msg (= exec . parse_request), assembled from
   StreamMsgParse (the parser never fails partially, error texts, what it hands on),
   StreamMsgExec (the dispatch), StreamMsgOrder (keyword groups commute), StreamMsgRanges. *)
From Coq Require Import List ZArith Bool String Ascii Lia.
From DD Require Import Model.Circuit Model.Query Model.Enumerate Model.StreamMsg
  Proofs.Semantics Proofs.CountsA Proofs.QueryDefs Proofs.StreamMsgDefs Proofs.StreamMsgParse
  Proofs.StreamMsgExec Proofs.StreamMsgOrder Proofs.StreamMsgRanges.
Import ListNotations.
Open Scope Z_scope.

Section Handle.
Context {CC : Type} (X : extops CC) (C : circuit) (n : nat).
Local Open Scope string_scope.
Local Open Scope Z_scope.

(* handle_stream_msg factors through the parsed request: nothing is executed before the whole
   line is parsed *)
Lemma handle_factor ver dbg (st : sstate CC) line chs :
  handle_stream_msg X ver dbg st line chs =
  match parse_request X ver dbg st line with
  | ROk rq => fst (exec X ver dbg rq chs st)
  | RErr c t => (st, SErr c t)
  | RPanic p => (st, SPanic p)
  end.
Proof. unfold handle_stream_msg, handle_full. destruct (parse_request X ver dbg st line); reflexivity. Qed.

Lemma wf_tf (st : sstate CC) : wf_sstate C n st -> tf_ok (Z.of_nat (nv (dd st))).
Proof. intros [Hdd _ _ Hn]. rewrite Hdd. cbn [nv build]. unfold tf_ok. lia. Qed.
Lemma wf_nv (st : sstate CC) : wf_sstate C n st -> Z.of_nat (nv (dd st)) = Z.of_nat n.
Proof. intros [Hdd _ _ _]. now rewrite Hdd. Qed.

Lemma conf_total_of (st : sstate CC) : ext_total X ->
  conf_total (option_map (fun cc => x_conflicting X cc) (cache st)).
Proof.
  intros HX cf x E. destruct (cache st) as [cc|]; cbn in E; [|discriminate].
  injection E as <-. apply (xt_conf X HX).
Qed.

(* what the parser hands on (V1) *)
Lemma parse_request_spec dbg (st : sstate CC) line :
  wf_sstate C n st -> ext_total X ->
  match parse_request X V1 dbg st line with
  | ROk rq => parsed_ok (r_total rq) (r_args rq) /\
              hd_error (words line) = Some (r_cmd rq) /\
              (r_cmd rq <> "clause-update" -> r_total rq = Z.of_nat n)
  | RErr c t => err_ok c t
  | RPanic _ => False
  end.
Proof.
  intros Hwf HX. unfold parse_request, parse_line.
  pose proof (parse_args_v1_spec dbg _ _ (words line) (wf_tf st Hwf) (conf_total_of st HX)) as H.
  destruct (parse_args V1 dbg _ _ (words line)) as [rq|c t|p]; [|exact H|exact H].
  destruct H as [_ [Hp [Hh [Ht _]]]]. rewrite (wf_nv st Hwf) in Ht. auto.
Qed.

(* ---------------- C13_no_panic ---------------- *)
Theorem handle_no_panic dbg (st : sstate CC) line chs :
  wf_sstate C n st -> ext_total X ->
  (forall rq, parse_request X V1 dbg st line = ROk rq -> r_cmd rq = "enum" ->
     enum_safe (dd st) (cur st) (sc st) (p_params (r_args rq))) ->
  forall site, snd (handle_stream_msg X V1 dbg st line chs) <> SPanic site.
Proof.
  intros Hwf HX Hsafe site. rewrite handle_factor.
  pose proof (parse_request_spec dbg st line Hwf HX) as H.
  destruct (parse_request X V1 dbg st line) as [rq|c t|p] eqn:E; [|discriminate|destruct H].
  destruct H as [Hp [_ Ht]].
  exact (exec_no_panic X C n dbg rq chs st Hwf HX Hp Ht (Hsafe rq eq_refl) site).
Qed.

(* the parsing half alone never fails, whatever the request is *)
Theorem parse_no_panic dbg (st : sstate CC) line :
  wf_sstate C n st -> ext_total X ->
  forall site, parse_request X V1 dbg st line <> RPanic site.
Proof.
  intros Hwf HX site E. pose proof (parse_request_spec dbg st line Hwf HX) as H.
  rewrite E in H. exact H.
Qed.

(* ---------------- C13_error_codes ---------------- *)
Theorem handle_err_ok ver dbg (st : sstate CC) line chs c t :
  snd (handle_stream_msg X ver dbg st line chs) = SErr c t -> err_ok c t.
Proof.
  rewrite handle_factor. destruct (parse_request X ver dbg st line) as [rq|c' t'|p] eqn:E.
  - apply exec_err_ok.
  - cbn. intros H. injection H as <- <-. unfold parse_request, parse_line in E.
    exact (parse_args_err_ok _ _ _ _ _ _ _ E).
  - discriminate.
Qed.

(* ---------------- C13_reject_unchanged ---------------- *)
Theorem handle_state dbg (st : sstate CC) line chs :
  wf_sstate C n st -> ext_total X -> ext_keeps X C ->
  let '(st', o) := handle_stream_msg X V1 dbg st line chs in
  (* a rejected line: model, cursor and clause cache are the same, the scratch state is Clean *)
  (forall c t, o = SErr c t -> same_model C st st') /\
  (* a line that does not get as far as a request changes nothing at all *)
  ((forall rq, parse_request X V1 dbg st line <> ROk rq) -> st' = st) /\
  (* a request other than enum / clause-update / undo-update: likewise *)
  (forall rq, parse_request X V1 dbg st line = ROk rq -> mutating (r_cmd rq) = false -> same_model C st st') /\
  (* enum only moves the cursor *)
  (forall rq, parse_request X V1 dbg st line = ROk rq -> r_cmd rq = "enum" ->
     dd st' = dd st /\ cache st' = cache st /\ Clean C (sc st')).
Proof.
  intros Hwf HX HK. rewrite handle_factor.
  pose proof (parse_request_spec dbg st line Hwf HX) as H.
  destruct (parse_request X V1 dbg st line) as [rq|c t|p] eqn:E.
  - destruct H as [Hp [_ Ht]].
    pose proof (exec_state X C n dbg rq chs st Hwf HK Hp Ht) as Hs.
    destruct (exec X V1 dbg rq chs st) as [[st' o] fits]. cbn [fst].
    destruct Hs as [H1 [H2 [H3 H4]]].
    split; [exact H2|]. split; [intros Hn; exfalso; exact (Hn rq eq_refl)|].
    split; [intros rq' Erq; injection Erq as <-; exact H1|].
    intros rq' Erq; injection Erq as <-; exact H4.
  - split; [intros _ _ _; apply same_refl, Hwf|]. split; [reflexivity|]. split; intros rq' Erq; discriminate.
  - destruct H.
Qed.

(* ---------------- C13_result ---------------- *)
Lemma parsed_in_range dbg (st : sstate CC) line rq :
  wf_sstate C n st -> ext_total X -> parse_request X V1 dbg st line = ROk rq ->
  r_cmd rq <> "clause-update" ->
  in_range n (p_params (r_args rq)) /\ in_range n (p_values (r_args rq)).
Proof.
  intros Hwf HX E Hc. pose proof (parse_request_spec dbg st line Hwf HX) as H. rewrite E in H.
  destruct H as [[Hpa Hpv _ _ _ _] [_ Ht]]. rewrite (Ht Hc) in Hpa, Hpv.
  split; now apply nums_ok_in_range.
Qed.

Theorem handle_count dbg (st : sstate CC) line chs rq :
  wf_sstate C n st -> ext_total X ->
  parse_request X V1 dbg st line = ROk rq -> r_cmd rq = "count" ->
  exists s', handle_stream_msg X V1 dbg st line chs =
             (keep st s', SOk (count_answer C n (p_params (r_args rq)) (p_values (r_args rq)))) /\
             Clean C s'.
Proof.
  intros Hwf HX E Hc. rewrite handle_factor, E.
  destruct (parsed_in_range dbg st line rq Hwf HX E) as [Ha Hv]; [rewrite Hc; discriminate|].
  destruct rq as [cmd tf p]. cbn [r_cmd r_args] in *. subst cmd.
  destruct (exec_count_result X C n V1 dbg tf p chs st Hwf Ha Hv) as [s' [Hx Hs']].
  exists s'. fold (mkrq "count" tf p). rewrite Hx. auto.
Qed.

Theorem handle_sat dbg (st : sstate CC) line chs rq :
  wf_sstate C n st -> ext_total X -> 0 < root_count C ->
  parse_request X V1 dbg st line = ROk rq -> r_cmd rq = "sat" ->
  handle_stream_msg X V1 dbg st line chs =
  (keep st (sc st), SOk (sat_answer C n (p_params (r_args rq)) (p_values (r_args rq)))).
Proof.
  intros Hwf HX Hrc E Hc. rewrite handle_factor, E.
  destruct (parsed_in_range dbg st line rq Hwf HX E) as [Ha Hv]; [rewrite Hc; discriminate|].
  destruct rq as [cmd tf p]. cbn [r_cmd r_args] in *. subst cmd.
  fold (mkrq "sat" tf p). now rewrite (exec_sat_result X C n V1 dbg tf p chs st Hwf Hrc Ha Hv).
Qed.

Theorem handle_core dbg (st : sstate CC) line chs rq :
  wf_sstate C n st -> ext_total X ->
  parse_request X V1 dbg st line = ROk rq -> r_cmd rq = "core" ->
  exists s', handle_stream_msg X V1 dbg st line chs =
             (keep st s', SOk (core_answer C n (p_params (r_args rq)) (p_values (r_args rq)))) /\
             Clean C s'.
Proof.
  intros Hwf HX E Hc. rewrite handle_factor, E.
  destruct (parsed_in_range dbg st line rq Hwf HX E) as [Ha Hv]; [rewrite Hc; discriminate|].
  destruct rq as [cmd tf p]. cbn [r_cmd r_args] in *. subst cmd.
  destruct (exec_core_result X C n V1 dbg tf p chs st Hwf Ha Hv) as [s' [Hx Hs']].
  exists s'. fold (mkrq "core" tf p). rewrite Hx. auto.
Qed.

Theorem handle_enum dbg (st : sstate CC) line chs rq :
  wf_sstate C n st -> ext_total X ->
  parse_request X V1 dbg st line = ROk rq -> r_cmd rq = "enum" ->
  enum_safe (dd st) (cur st) (sc st) (p_params (r_args rq)) ->
  exists am,
    (cur_get (cur st) (enum_key (p_params (r_args rq))) + enum_limit (dd st) (r_args rq) <= u64_max ->
     am = enum_limit (dd st) (r_args rq)) /\
    handle_stream_msg X V1 dbg st line chs =
    (let '(s', c', r) := enumerate (dd st) (p_params (r_args rq)) am (cur st) (sc st) in
     ({| dd := dd st; sc := s'; cur := c'; cache := cache st |},
      match r with Some cfgs => SOk (format_vec_vec cfgs) | None => SErr E5 unsat_text end)).
Proof.
  intros Hwf HX E Hc Hsafe. rewrite handle_factor, E.
  pose proof (parse_request_spec dbg st line Hwf HX) as H. rewrite E in H.
  destruct H as [[_ _ _ Hpl _ _] _].
  destruct rq as [cmd tf p]. cbn [r_cmd r_args] in *. subst cmd.
  destruct (exec_enum_result X C n dbg tf p chs st Hwf Hpl Hsafe) as [am [Ham Hx]].
  exists am. split; [exact Ham|]. fold (mkrq "enum" tf p). rewrite Hx.
  destruct (enumerate _ _ _ _ _) as [[s' c'] r]. reflexivity.
Qed.

Theorem handle_random ver dbg (st : sstate CC) line chs rq :
  parse_request X ver dbg st line = ROk rq -> r_cmd rq = "random" ->
  handle_stream_msg X ver dbg st line chs =
  (let l := match p_limit (r_args rq) with Some l => l | None => 1 end in
   let '(s', r, _) := uniform_random_sampling (dd st) (p_params (r_args rq)) l chs (sc st) in
   (keep st s', match r with Some cfgs => SOk (format_vec_vec cfgs) | None => SErr E5 unsat_text end)).
Proof.
  intros E Hc. rewrite handle_factor, E. destruct rq as [cmd tf p]. cbn [r_cmd r_args] in *. subst cmd.
  fold (mkrq "random" tf p). rewrite exec_random. cbv zeta.
  destruct (uniform_random_sampling _ _ _ _ _) as [[s' [cfgs|]] fits]; reflexivity.
Qed.

(* ---------------- C13_param_order ---------------- *)
Definition tok_ok (t : string) : Prop := t <> EmptyString /\ sany is_ws t = false.

Theorem handle_param_order dbg (st : sstate CC) chs cmd c1 g1 c2 g2 r :
  let b := Z.of_nat (nv (dd st)) in
  c1 <> c2 -> group_ok dbg b c1 g1 -> group_ok dbg b c2 g2 -> stops r ->
  Forall tok_ok (cmd :: g1 ++ g2 ++ r) ->
  position is_t (cmd :: g1 ++ g2 ++ r) = None ->
  dup_scan (cmd :: g1 ++ g2 ++ r) [] = None ->
  handle_stream_msg X V1 dbg st (join " " (cmd :: g1 ++ g2 ++ r)) chs =
  handle_stream_msg X V1 dbg st (join " " (cmd :: g2 ++ g1 ++ r)) chs.
Proof.
  intros b Hc Hg1 Hg2 Hr Htok Ht Hd.
  assert (Htok' : Forall tok_ok (cmd :: g2 ++ g1 ++ r)).
  { rewrite Forall_forall in *. intros x Hx. apply Htok.
    cbn in Hx |- *. destruct Hx as [Hx|Hx]; [now left|right].
    rewrite !in_app_iff in *. tauto. }
  rewrite !handle_factor. unfold parse_request, parse_line.
  rewrite (words_join _ Htok), (words_join _ Htok').
  now rewrite (param_order_args kw_loop_suffix dbg b _ cmd c1 g1 c2 g2 r Hc Hg1 Hg2 Hr Ht Hd).
Qed.

End Handle.

(* ---------------- the instance used by the correspondence (models loaded from nnf) ---------------- *)
Lemma ext_nnf_total a t sv : ext_total (ext_nnf a t sv).
Proof. constructor; intros; cbn; eauto. Qed.
Lemma ext_nnf_keeps a t sv C : ext_keeps (ext_nnf a t sv) C.
Proof.
  constructor; cbn.
  - intros d cr ca a0 s s' out Hs E. now injection E as <- _.
  - intros d t0 fs s s' out Hs E. now injection E as <- _.
  - intros d cc ad rm t0 s d' s' cc' Hs E. injection E as <- <- <-. auto.
  - intros d cc s d' s' cc' Hs E. injection E as <- <- <-. auto.
Qed.

(* ---------------- C13_ranges ---------------- *)
Lemma nonempty_range_le (a b : Z) : filter nonzero (zrange a b) <> [] -> a <= b.
Proof.
  intros H. destruct (Z.le_gt_cases a b) as [Hle|Hgt]; [exact Hle|].
  exfalso. apply H. rewrite zrange_empty by lia. reflexivity.
Qed.

(* `a..b` with integers a, b written in decimal: the inclusive list without 0 *)
Theorem ranges_closed : forall dbg n a b, tf_ok n -> - n <= a -> b <= n ->
  filter nonzero (zrange a b) <> [] ->
  get_numbers V1 dbg [(zstr a ++ ".." ++ zstr b)%string] n = ROk (filter nonzero (zrange a b), 1%nat).
Proof.
  intros dbg n a b Hn Ha Hb Hne. pose proof (nonempty_range_le a b Hne) as Hab.
  unfold tf_ok in Hn. assert (Hi : i32_min <= a <= i32_max /\ i32_min <= b <= i32_max)
    by (unfold i32_min, i32_max in *; lia).
  apply get_numbers_range; try assumption; try apply zstr_num_text; apply zstr_parse_i32; apply Hi.
Qed.

(* `a..`: up to the number of features *)
Theorem ranges_open : forall dbg n a, tf_ok n -> - n <= a ->
  filter nonzero (zrange a n) <> [] ->
  get_numbers V1 dbg [(zstr a ++ "..")%string] n = ROk (filter nonzero (zrange a n), 1%nat).
Proof.
  intros dbg n a Hn Ha Hne. pose proof (nonempty_range_le a n Hne) as Han.
  unfold tf_ok in Hn. assert (Hi : i32_min <= a <= i32_max) by (unfold i32_min, i32_max in *; lia).
  apply get_numbers_range_open; try assumption; [apply zstr_num_text|apply zstr_parse_i32, Hi].
Qed.

Theorem range_members : forall a b z, In z (filter nonzero (zrange a b)) <-> a <= z <= b /\ z <> 0.
Proof.
  intros a b z. rewrite filter_In, zrange_In. unfold nonzero. rewrite negb_true_iff, Z.eqb_neq. tauto.
Qed.

(* ---------------- C13_error_codes, in the form of the property text ---------------- *)
Theorem handle_error_codes : forall CC (X : extops CC) ver dbg (st : sstate CC) line chs c t,
  snd (handle_stream_msg X ver dbg st line chs) = SErr c t ->
  In c [E1; E2; E3; E4; E5; E6] /\ prefix (code_str c ++ " ") t = true.
Proof.
  intros CC X ver dbg st line chs c t H. split; [destruct c; cbn; auto 10|].
  exact (handle_err_ok X ver dbg st line chs c t H).
Qed.

(* ---------------- witnesses: a small model, x1 and x2 free ---------------- *)
Definition ex13 : circuit :=
  [Lit 1; Lit (-1); Or [0;1]%nat; Lit 2; Lit (-2); Or [3;4]%nat; And [2;5]%nat].
Definition st13 : sstate unit :=
  {| dd := build ex13 2; sc := fresh_scratch ex13; cur := []; cache := None |}.
Definition X13 : extops unit := ext_nnf "" "" None.
Definition ans (ver : version) (dbg : bool) (st : sstate unit) (line : string) : soutcome :=
  snd (handle_stream_msg X13 ver dbg st line []).
Definition after (ver : version) (dbg : bool) (st : sstate unit) (line : string) : sstate unit :=
  fst (handle_stream_msg X13 ver dbg st line []).

Lemma st13_wf : wf_sstate ex13 2 st13.
Proof.
  constructor; [reflexivity|apply check_wf_WFQ; vm_compute; reflexivity|apply fresh_clean|vm_compute; discriminate].
Qed.
Lemma after_wf ver dbg line : dd (after ver dbg st13 line) = build ex13 2 ->
  Clean ex13 (sc (after ver dbg st13 line)) -> wf_sstate ex13 2 (after ver dbg st13 line).
Proof.
  intros H1 H2. constructor; [exact H1|apply check_wf_WFQ; vm_compute; reflexivity|exact H2|vm_compute; discriminate].
Qed.

Local Open Scope string_scope.

(* (a) F2: total-features on a model without clause cache: unwrap of None, in both profiles *)
Theorem refuted_total_features : exists (st : sstate unit) line,
  wf_sstate ex13 2 st /\ ext_total X13 /\
  forall dbg, ans V0 dbg st line = SPanic "cached_state.as_mut().unwrap()".
Proof.
  exists st13, "clause-update t 5". split; [exact st13_wf|]. split; [apply ext_nnf_total|].
  intros [|]; vm_compute; reflexivity.
Qed.

(* (a') the same pre-pass indexes an empty number list *)
Theorem refuted_total_features_index : exists (st : sstate unit) line,
  wf_sstate ex13 2 st /\ forall dbg, ans V0 dbg st line = SPanic "numbers[0]".
Proof.
  exists st13, "clause-update t 0 add 1". split; [exact st13_wf|].
  intros [|]; vm_compute; reflexivity.
Qed.

(* (b) F2: i32::MIN: abs overflows -- a panic with overflow checks, and without them the literal
   passes the boundary check and the request is answered as if it were unconstrained *)
Theorem refuted_i32_min : exists (st : sstate unit) line,
  wf_sstate ex13 2 st /\
  ans V0 true st line = SPanic "check_boundary: i32::abs overflows" /\
  ans V0 false st line = SOk "4" /\ ans V0 false st "count" = SOk "4" /\
  ans V1 true st line = ans V1 false st line /\
  ans V1 true st line = SErr E3 "E3 error: not all parameters are within the boundary of -2 to 2".
Proof.
  exists st13, "count a -2147483648". split; [exact st13_wf|]. repeat split; vm_compute; reflexivity.
Qed.

(* (b') F2: a number list that ends at the next keyword skipped the boundary check: an
   out-of-range literal is accepted, and the answer depends on the order of the parameters *)
Theorem refuted_boundary_gap : exists (st : sstate unit) l1 l2,
  wf_sstate ex13 2 st /\
  (forall dbg, ans V0 dbg st l1 = SOk "2") /\
  (forall dbg, ans V0 dbg st l2 = SErr E3 "E3 error: not all parameters are within the boundary of -2 to 2") /\
  (forall dbg, ans V1 dbg st l1 = ans V1 dbg st l2).
Proof.
  exists st13, "count a 3 v 1", "count v 1 a 3". split; [exact st13_wf|].
  repeat split; intros [|]; vm_compute; reflexivity.
Qed.

(* (c) F2: cursor + amount on usize: after `enum l 1` the request `enum l 18446744073709551615`
   panics with overflow checks and returns an EMPTY page (and rewinds the cursor) without them;
   the repaired code returns the remaining three configurations in both profiles *)
Theorem refuted_cursor_overflow : exists (st : sstate unit) l1 l2,
  wf_sstate ex13 2 st /\
  ans V0 true (after V0 true st l1) l2 = SPanic "enumerate: last_stop + amount overflows usize" /\
  ans V0 false (after V0 false st l1) l2 = SOk "" /\
  (forall dbg, ans V1 dbg (after V1 dbg st l1) l2 = SOk "-1 2;1 -2;-1 -2").
Proof.
  exists st13, "enum l 1", "enum l 18446744073709551615". split; [exact st13_wf|].
  repeat split; try (intros [|]); vm_compute; reflexivity.
Qed.

(* the hypothesis enum_safe of C13_no_panic cannot be dropped: with a cursor beyond the number of
   configurations (left behind by ANOTHER model: the cursor is process-global and keyed by the
   assumptions only, finding K2) the repaired code still underflows `range.1 - range.0` *)
Theorem enum_guard_needed : exists (st : sstate unit) line,
  wf_sstate ex13 2 st /\ ext_total X13 /\
  ans V1 true st line = SPanic "enumerate_node: range.1 - range.0 underflows usize".
Proof.
  exists {| dd := build ex13 2; sc := fresh_scratch ex13; cur := [([], 9)]; cache := None |}, "enum".
  split; [constructor; [reflexivity|apply check_wf_WFQ; vm_compute; reflexivity|apply fresh_clean|vm_compute; discriminate]|].
  split; [apply ext_nnf_total|]. vm_compute. reflexivity.
Qed.

(* non-vacuity of enum_safe: the fresh state, and the state after a page was handed out *)
Lemma st13_enum_safe : enum_safe (dd st13) (cur st13) (sc st13) [] /\
  enum_safe (dd (after V1 true st13 "enum l 3")) (cur (after V1 true st13 "enum l 3"))
            (sc (after V1 true st13 "enum l 3")) [].
Proof.
  split; intros s1 s2 r H1 H2 H3; vm_compute in H1; injection H1 as <-; vm_compute in H2;
    injection H2 as <- <-; vm_compute; repeat split; discriminate.
Qed.
