(* countsA (bottom-up count with the complementary leaves zeroed) = number of models containing A. *)
From Coq Require Import List ZArith Bool Lia Permutation.
From DD Require Import Model.Circuit Model.Query Proofs.PassLemmas Proofs.Enum Proofs.Semantics Proofs.DetCert.
Import ListNotations.

Definition okA (A : cfg) (c : cfg) : bool := forallb (fun l => negb (memZ (- l) A)) c.

Lemma okA_app A x r : okA A (x ++ r) = okA A x && okA A r.
Proof. unfold okA. apply forallb_app. Qed.

Lemma countA_node_local A : local (countA_node A) 0.
Proof. intros acc acc' [l|cs|cs| |] H; cbn in *; try reflexivity; now rewrite (map_nth_ext acc acc'). Qed.

Lemma countsA_unfold A C i d : idx_ok C = true -> (i < length C)%nat ->
  nth i (countsA A C) d = countA_node A (countsA A C) (nth i C FalseN).
Proof. intros Hok Hi. apply (pass_unfold (countA_node A) 0 d C i (countA_node_local A) Hok Hi). Qed.

Lemma countsA_length A C : length (countsA A C) = length C.
Proof. apply pass_length. Qed.

(* the count under assumptions is the number of enumerated configurations compatible with A *)
Lemma countsA_filter (A : cfg) (C : circuit) :
  idx_ok C = true -> forall i, (i < length C)%nat ->
  nth i (countsA A C) 0 = Z.of_nat (length (filter (okA A) (nth i (enums C) []))).
Proof.
  intros Hok.
  apply (idx_induction C (fun i => nth i (countsA A C) 0 =
                                   Z.of_nat (length (filter (okA A) (nth i (enums C) [])))) Hok).
  intros i Hi IH. rewrite (countsA_unfold A C i 0 Hok Hi), (enums_unfold C Hok i Hi).
  destruct (nth i C FalseN) as [l|cs|cs| |] eqn:E; cbn [countA_node enum_node children] in *.
  - cbn [filter okA forallb]. destruct (memZ (- l) A); reflexivity.
  - rewrite filter_prod; [|reflexivity|apply okA_app].
    rewrite prod_length, <- zprod_of_nat, !map_map, map_rev, zprod_rev. f_equal.
    rewrite map_map. apply map_ext_in. intros c Hc. now apply IH.
  - rewrite filter_concat, concat_length, <- zsum_of_nat, !map_map. f_equal.
    apply map_ext_in. intros c Hc. now apply IH.
  - reflexivity.
  - reflexivity.
Qed.

Lemma Permutation_filter {A} (p : A -> bool) (l l' : list A) :
  Permutation l l' -> Permutation (filter p l) (filter p l').
Proof.
  induction 1 as [|x l l' H IH|x y l|l l' l'' H1 IH1 H2 IH2]; cbn.
  - constructor.
  - destruct (p x); [now constructor|exact IH].
  - destruct (p x), (p y); try reflexivity. apply perm_swap.
  - now transitivity (filter p l').
Qed.

Definition in_range (n : nat) (A : cfg) : Prop :=
  forall l, In l A -> 1 <= Z.abs l <= Z.of_nat n.

(* membership of a literal in the canonical complete configuration *)
Lemma memZ_canon n s l : 1 <= Z.abs l <= Z.of_nat n ->
  memZ l (canon n s) = lit_true s l.
Proof.
  intros Hl. unfold lit_true. destruct (0 <? l) eqn:Hpos.
  - apply Z.ltb_lt in Hpos. rewrite Z.abs_eq in Hl by lia.
    change (memZ l (canon n s)) with (asg_of (canon n s) l). now apply asg_canon.
  - apply Z.ltb_ge in Hpos. rewrite Z.abs_neq in Hl by lia.
    unfold canon. destruct (s (- l)) eqn:Hs; cbn.
    + apply memZ_false. intros Hin. apply in_map_iff in Hin. destruct Hin as [v [Hv Hin]].
      apply zseq_In in Hin. destruct (s v) eqn:Hsv; [lia|].
      assert (v = - l) by lia. subst. congruence.
    + apply memZ_In. apply in_map_iff. exists (- l). rewrite Hs. split; [lia|]. apply zseq_In. lia.
Qed.

(* for a configuration over exactly 1..n: containing A = not contradicting A *)
Lemma contains_all_canon n c V A :
  Good c V -> range_set n V -> in_range n A ->
  contains_all A (canon_cfg n c) = okA A c.
Proof.
  intros HG HV HA. destruct (good_range_lits n c V HG HV) as [Hr H0].
  destruct HG as [Hnd Hcov].
  unfold contains_all, canon_cfg.
  apply eq_true_iff_eq. rewrite forallb_forall. unfold okA. rewrite forallb_forall. split.
  - intros H x Hx. apply negb_true_iff. apply memZ_false. intros HA'.
    specialize (H (- x) HA'). rewrite memZ_canon in H by (rewrite Z.abs_opp; now apply Hr).
    (* both x and -x true under asg_of c: impossible *)
    assert (Hx' : lit_true (asg_of c) x = true).
    { pose proof (sat_self c Hnd H0) as Hs. unfold sat_cfg in Hs. rewrite forallb_forall in Hs. now apply Hs. }
    assert (x <> 0) by (intros ->; contradiction).
    exact (lit_true_conflict (asg_of c) x H1 Hx' H).
  - intros H l Hl. rewrite memZ_canon by now apply HA.
    (* |l| is covered by c: either l or -l is in c; -l is excluded by H *)
    assert (Hin : In (Z.abs l) (map Z.abs c)) by (apply Hcov, HV, HA, Hl).
    apply in_map_iff in Hin. destruct Hin as [x [Habs Hx]].
    pose proof (sat_self c Hnd H0) as Hs. unfold sat_cfg in Hs. rewrite forallb_forall in Hs.
    assert (x = l \/ x = - l) by lia. destruct H1 as [->| ->].
    + now apply Hs.
    + specialize (H _ Hx). rewrite Z.opp_involutive in H. apply negb_true_iff, memZ_false in H. contradiction.
Qed.

Theorem countsA_MCA (C : circuit) (n : nat) (A : cfg) :
  WF C n -> in_range n A -> nth (root C) (countsA A C) 0 = MCA C n A.
Proof.
  intros HWF HA.
  rewrite countsA_filter; [|apply HWF|apply root_lt; apply HWF].
  unfold MCA, ModelsA. f_equal.
  pose proof (models_enum_perm C n HWF) as HP.
  apply (Permutation_filter (contains_all A)) in HP. apply Permutation_length in HP.
  rewrite <- HP. rewrite filter_map_comm, map_length. rewrite <- enum_root_nth.
  f_equal. apply filter_ext_in. intros c Hc. symmetry.
  apply (contains_all_canon n c (last (varss C) []) A); [|apply complete_range; apply HWF|exact HA].
  now apply root_good with (n := n).
Qed.

(* basic order facts used by the counting shortcuts *)
Lemma zprod_nonneg l : (forall x, In x l -> 0 <= x) -> 0 <= zprod l.
Proof.
  induction l as [|x l IH]; intros H; [cbn; lia|]. rewrite zprod_cons.
  apply Z.mul_nonneg_nonneg; [apply H; now left|apply IH; intros; apply H; now right].
Qed.
Lemma zsum_nonneg l : (forall x, In x l -> 0 <= x) -> 0 <= zsum l.
Proof.
  induction l as [|x l IH]; intros H; [cbn; lia|]. rewrite zsum_cons.
  apply Z.add_nonneg_nonneg; [apply H; now left|apply IH; intros; apply H; now right].
Qed.

Lemma filter_length_le' {A} (p : A -> bool) (l : list A) : (length (filter p l) <= length l)%nat.
Proof. induction l as [|x l IH]; [cbn; lia|]. cbn. destruct (p x); cbn; lia. Qed.

Lemma countsA_bounds (A : cfg) (C : circuit) :
  idx_ok C = true -> forall i, (i < length C)%nat ->
  0 <= nth i (countsA A C) 0 <= nth i (counts C) 0.
Proof.
  intros Hok i Hi. rewrite countsA_filter by assumption. rewrite <- enum_count_nth.
  split; [lia|]. apply inj_le. apply filter_length_le'.
Qed.

Lemma countsA_nil (C : circuit) : countsA [] C = counts C.
Proof.
  unfold countsA, counts. apply f_equal2; [|reflexivity]. reflexivity.
Qed.
