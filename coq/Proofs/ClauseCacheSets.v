(* Ordered clause sets (the BTreeSet<BTreeSet<i32>> of ClauseCache): the order clause_cmp,
   insert / remove on strictly ascending lists, the sequential loops of setup_for_edit,
   uniqueness of the strictly ascending listing of a finite set, canon_set. *)
From Coq Require Import List ZArith Bool Lia Sorted.
From DD Require Import Model.Circuit Spec.CnfMachine Model.ClauseCache.
Import ListNotations.
Open Scope Z_scope.

(* ---------- the order ---------- *)
Definition clt (a b : clause) : Prop := clause_cmp a b = Lt.
Notation SS := (StronglySorted clt).

Lemma cmp_refl a : clause_cmp a a = Eq.
Proof. induction a as [|x a IH]; cbn [clause_cmp]; [reflexivity|]. rewrite Z.compare_refl. exact IH. Qed.

Lemma cmp_eq a : forall b, clause_cmp a b = Eq -> a = b.
Proof.
  induction a as [|x a IH]; intros [|y b] H; cbn [clause_cmp] in H; try discriminate; [reflexivity|].
  destruct (x ?= y) eqn:E; try discriminate.
  apply Z.compare_eq in E. subst y. f_equal. apply IH. exact H.
Qed.

Lemma cmp_antisym a : forall b, clause_cmp b a = CompOpp (clause_cmp a b).
Proof.
  induction a as [|x a IH]; intros [|y b]; cbn [clause_cmp]; try reflexivity.
  rewrite (Z.compare_antisym x y). destruct (x ?= y); cbn [CompOpp]; try reflexivity. apply IH.
Qed.

Lemma clt_trans a : forall b c, clt a b -> clt b c -> clt a c.
Proof.
  unfold clt. induction a as [|x a IH]; intros [|y b] [|z c] H1 H2; cbn [clause_cmp] in *;
    try discriminate; try reflexivity.
  destruct (x ?= y) eqn:E1; try discriminate.
  - apply Z.compare_eq in E1. subst y. destruct (x ?= z) eqn:E2; try discriminate; [|reflexivity].
    eapply IH; eassumption.
  - destruct (y ?= z) eqn:E2; try discriminate.
    + apply Z.compare_eq in E2. subst z. rewrite E1. reflexivity.
    + assert (x ?= z = Lt) as ->; [|reflexivity].
      change (x < y) in E1. change (y < z) in E2. change (x < z). lia.
Qed.

Lemma clt_irrefl a : ~ clt a a.
Proof. unfold clt. rewrite cmp_refl. discriminate. Qed.

Lemma cmp_gt_clt a b : clause_cmp a b = Gt -> clt b a.
Proof. intros H. unfold clt. rewrite cmp_antisym, H. reflexivity. Qed.

Lemma clause_eqb_eq a b : clause_eqb a b = true <-> a = b.
Proof.
  unfold clause_eqb. split.
  - destruct (clause_cmp a b) eqn:E; try discriminate. intros _. apply cmp_eq. exact E.
  - intros ->. rewrite cmp_refl. reflexivity.
Qed.

Lemma mem_clause_In c s : mem_clause c s = true <-> In c s.
Proof.
  unfold mem_clause. rewrite existsb_exists. split.
  - intros [x [Hx He]]. apply clause_eqb_eq in He. subst x. exact Hx.
  - intros H. exists c. split; [exact H|]. apply clause_eqb_eq. reflexivity.
Qed.

Lemma mem_clause_false c s : mem_clause c s = false <-> ~ In c s.
Proof.
  rewrite <- mem_clause_In. destruct (mem_clause c s); split; intros H.
  - discriminate.
  - exfalso. apply H. reflexivity.
  - discriminate.
  - reflexivity.
Qed.

Lemma clause_dec (a b : clause) : {a = b} + {a <> b}.
Proof. apply (list_eq_dec Z.eq_dec). Qed.

Lemma nodup_clauses_NoDup l : nodup_clauses l = true <-> NoDup l.
Proof.
  induction l as [|c l IH]; cbn [nodup_clauses].
  - split; [constructor|reflexivity].
  - rewrite andb_true_iff, negb_true_iff, mem_clause_false, IH. split.
    + intros [H1 H2]. constructor; assumption.
    + intros H. inversion H; subst. split; assumption.
Qed.

(* ---------- strictly ascending lists ---------- *)
Lemma SS_head_notin c s : Forall (clt c) s -> ~ In c s.
Proof.
  intros HF HI. rewrite Forall_forall in HF. apply (clt_irrefl c). apply HF. exact HI.
Qed.

Lemma SS_lt_notin c d r : clt c d -> Forall (clt d) r -> ~ In c (d :: r).
Proof.
  intros Hcd HF [->|HI]; [exact (clt_irrefl _ Hcd)|].
  rewrite Forall_forall in HF. apply (clt_irrefl c). eapply clt_trans; [exact Hcd|]. apply HF. exact HI.
Qed.

(* two strictly ascending lists with the same elements are equal *)
Lemma SS_unique a : forall b, SS a -> SS b -> (forall x, In x a <-> In x b) -> a = b.
Proof.
  induction a as [|x a IH]; intros [|y b] Ha Hb Heq.
  - reflexivity.
  - exfalso. apply (proj2 (Heq y)). left. reflexivity.
  - exfalso. apply (proj1 (Heq x)). left. reflexivity.
  - inversion Ha as [|? ? Ha' HFa]; subst. inversion Hb as [|? ? Hb' HFb]; subst.
    assert (x = y) as Hxy.
    { destruct (proj1 (Heq x) (or_introl eq_refl)) as [E|Hxb]; [symmetry; exact E|].
      destruct (proj2 (Heq y) (or_introl eq_refl)) as [E|Hya]; [exact E|].
      exfalso. rewrite Forall_forall in HFa, HFb.
      apply (clt_irrefl x). eapply clt_trans; [apply HFa; exact Hya|apply HFb; exact Hxb]. }
    subst y. f_equal. apply IH; try assumption.
    intros z. split; intros Hz.
    + destruct (proj1 (Heq z) (or_intror Hz)) as [E|H]; [|exact H].
      subst z. exfalso. exact (SS_head_notin _ _ HFa Hz).
    + destruct (proj2 (Heq z) (or_intror Hz)) as [E|H]; [|exact H].
      subst z. exfalso. exact (SS_head_notin _ _ HFb Hz).
Qed.

(* ---------- BTreeSet::insert ---------- *)
Lemma cs_insert_spec c s : SS s ->
  SS (fst (cs_insert c s)) /\
  (forall x, In x (fst (cs_insert c s)) <-> x = c \/ In x s) /\
  (snd (cs_insert c s) = true <-> ~ In c s).
Proof.
  induction s as [|d r IH]; intros Hs; cbn [cs_insert].
  - cbn [fst snd]. split; [repeat constructor|]. split.
    + intros x. cbn [In]. split; intros [H|[]]; left; congruence.
    + split; [intros _ []|reflexivity].
  - inversion Hs as [|? ? Hr HF]; subst.
    destruct (clause_cmp c d) eqn:E.
    + apply cmp_eq in E. subst d. cbn [fst snd]. split; [exact Hs|]. split.
      * intros x. cbn [In]. split; [intros H; right; exact H|intros [->|H]; [left; reflexivity|exact H]].
      * split; [discriminate|]. intros H. exfalso. apply H. left. reflexivity.
    + cbn [fst snd]. split.
      * constructor; [exact Hs|]. constructor; [exact E|].
        rewrite Forall_forall in HF |- *. intros x Hx. eapply clt_trans; [exact E|]. apply HF. exact Hx.
      * split.
        -- intros x. cbn [In]. split; [intros [H|H]; [left; symmetry; exact H|right; exact H]|
                                       intros [H|H]; [left; symmetry; exact H|right; exact H]].
        -- split; [intros _|reflexivity]. apply SS_lt_notin; assumption.
    + destruct (cs_insert c r) as [r' b] eqn:Er. cbn [fst snd] in *.
      destruct (IH Hr) as [IH1 [IH2 IH3]]. apply cmp_gt_clt in E. split.
      * constructor; [exact IH1|]. rewrite Forall_forall in HF |- *. intros x Hx.
        apply IH2 in Hx. destruct Hx as [->|Hx]; [exact E|apply HF; exact Hx].
      * split.
        -- intros x. cbn [In]. rewrite IH2. tauto.
        -- rewrite IH3. cbn [In]. split.
           ++ intros H [->|H']; [exact (clt_irrefl _ E)|exact (H H')].
           ++ intros H H'. apply H. right. exact H'.
Qed.

(* ---------- BTreeSet::remove ---------- *)
Lemma cs_remove_spec c s : SS s ->
  SS (fst (cs_remove c s)) /\
  (forall x, In x (fst (cs_remove c s)) <-> In x s /\ x <> c) /\
  (snd (cs_remove c s) = true <-> In c s).
Proof.
  induction s as [|d r IH]; intros Hs; cbn [cs_remove].
  - cbn [fst snd]. split; [constructor|]. split.
    + intros x. cbn [In]. tauto.
    + split; [discriminate|intros []].
  - inversion Hs as [|? ? Hr HF]; subst.
    destruct (clause_cmp c d) eqn:E.
    + apply cmp_eq in E. subst d. cbn [fst snd]. split; [exact Hr|]. split.
      * intros x. cbn [In]. split.
        -- intros H. split; [right; exact H|]. intros ->. exact (SS_head_notin _ _ HF H).
        -- intros [[H|H] Hne]; [exfalso; apply Hne; symmetry; exact H|exact H].
      * split; [intros _; left; reflexivity|reflexivity].
    + cbn [fst snd]. pose proof (SS_lt_notin _ _ _ E HF) as Hn. split; [exact Hs|]. split.
      * intros x. split; [intros H; split; [exact H|intros ->; exact (Hn H)]|intros [H _]; exact H].
      * split; [discriminate|]. intros H. exfalso. exact (Hn H).
    + destruct (cs_remove c r) as [r' b] eqn:Er. cbn [fst snd] in *.
      destruct (IH Hr) as [IH1 [IH2 IH3]]. apply cmp_gt_clt in E. split.
      * constructor; [exact IH1|]. rewrite Forall_forall in HF |- *. intros x Hx.
        apply IH2 in Hx. apply HF. apply Hx.
      * split.
        -- intros x. cbn [In]. rewrite IH2. split.
           ++ intros [H|[H Hne]]; [split; [left; exact H|]|split; [right; exact H|exact Hne]].
              subst x. intros ->. exact (clt_irrefl _ E).
           ++ intros [[H|H] Hne]; [left; exact H|right; split; assumption].
        -- rewrite IH3. cbn [In]. split; [intros H; right; exact H|].
           intros [->|H]; [exfalso; exact (clt_irrefl _ E)|exact H].
Qed.

(* ---------- the removal loop of setup_for_edit ---------- *)
Lemma remove_all_some rmv : forall s s', SS s -> remove_all rmv s = Some s' ->
  SS s' /\ NoDup rmv /\ (forall x, In x rmv -> In x s) /\
  (forall x, In x s' <-> In x s /\ ~ In x rmv).
Proof.
  induction rmv as [|c r IH]; intros s s' Hs H; cbn [remove_all] in H.
  - inversion H; subst. split; [exact Hs|]. split; [constructor|]. split; [intros x []|].
    intros x. cbn [In]. tauto.
  - destruct (cs_remove c s) as [s1 ok] eqn:E.
    pose proof (cs_remove_spec c s Hs) as [R1 [R2 R3]]. rewrite E in R1, R2, R3. cbn [fst snd] in *.
    destruct ok; [|discriminate].
    destruct (IH s1 s' R1 H) as [I1 [I2 [I3 I4]]]. split; [exact I1|]. split.
    + constructor; [|exact I2]. intros Hc. apply I3 in Hc. apply R2 in Hc. apply (proj2 Hc). reflexivity.
    + split.
      * intros x [->|Hx]; [apply R3; reflexivity|]. apply I3 in Hx. apply R2 in Hx. apply Hx.
      * intros x. rewrite I4, R2. cbn [In]. split.
        -- intros [[H1 H2] H3]. split; [exact H1|]. intros [H4|H4]; [apply H2; symmetry; exact H4|exact (H3 H4)].
        -- intros [H1 H2]. split; [split; [exact H1|]|]; intros H3; apply H2; [left; symmetry; exact H3|right; exact H3].
Qed.

Lemma remove_all_none rmv : forall s, SS s -> remove_all rmv s = None ->
  ~ (NoDup rmv /\ forall x, In x rmv -> In x s).
Proof.
  induction rmv as [|c r IH]; intros s Hs H; cbn [remove_all] in H; [discriminate|].
  destruct (cs_remove c s) as [s1 ok] eqn:E.
  pose proof (cs_remove_spec c s Hs) as [R1 [R2 R3]]. rewrite E in R1, R2, R3. cbn [fst snd] in *.
  intros [Hnd Hin]. inversion Hnd as [|? ? Hc Hnd']; subst.
  destruct ok.
  - apply (IH s1 R1 H). split; [exact Hnd'|]. intros x Hx. apply R2. split; [apply Hin; right; exact Hx|].
    intros ->. exact (Hc Hx).
  - assert (In c s) as Hcs by (apply Hin; left; reflexivity). apply R3 in Hcs. discriminate.
Qed.

Lemma remove_all_complete rmv s : SS s -> NoDup rmv -> (forall x, In x rmv -> In x s) ->
  exists s', remove_all rmv s = Some s'.
Proof.
  intros Hs Hnd Hin. destruct (remove_all rmv s) as [s'|] eqn:E; [exists s'; reflexivity|].
  exfalso. apply (remove_all_none rmv s Hs E). split; assumption.
Qed.

(* ---------- the insertion loop of setup_for_edit ---------- *)
Lemma insert_all_spec add : forall s, SS s ->
  SS (fst (insert_all add s)) /\
  (forall x, In x (fst (insert_all add s)) <-> In x s \/ In x add) /\
  NoDup (snd (insert_all add s)) /\
  (forall x, In x (snd (insert_all add s)) <-> In x add /\ ~ In x s).
Proof.
  induction add as [|c r IH]; intros s Hs; cbn [insert_all].
  - cbn [fst snd]. split; [exact Hs|]. split; [intros x; cbn [In]; tauto|].
    split; [constructor|]. intros x. cbn [In]. tauto.
  - destruct (cs_insert c s) as [s1 fresh] eqn:E.
    pose proof (cs_insert_spec c s Hs) as [I1 [I2 I3]]. rewrite E in I1, I2, I3. cbn [fst snd] in *.
    destruct (insert_all r s1) as [s2 added] eqn:E2.
    specialize (IH s1 I1). rewrite E2 in IH. cbn [fst snd] in *.
    destruct IH as [J1 [J2 [J3 J4]]].
    split; [exact J1|]. split.
    + intros x. rewrite J2, I2. cbn [In]. split.
      * intros [[->|H]|H]; [right; left; reflexivity|left; exact H|right; right; exact H].
      * intros [H|[H|H]]; [left; right; exact H|left; left; symmetry; exact H|right; exact H].
    + assert (~ In c added) as Hca.
      { intros H. apply J4 in H. apply (proj2 H). apply I2. left. reflexivity. }
      destruct fresh.
      * split; [constructor; assumption|]. intros x. cbn [In]. rewrite J4, I2.
        assert (~ In c s) as Hcs by (apply I3; reflexivity). split.
        -- intros [<-|[H1 H2]]; [split; [left; reflexivity|exact Hcs]|].
           split; [right; exact H1|]. intros H. apply H2. right. exact H.
        -- intros [[H|H] Hn]; [left; exact H|].
           destruct (clause_dec c x) as [->|Hne]; [left; reflexivity|].
           right. split; [exact H|]. intros [H'|H']; [apply Hne; symmetry; exact H'|exact (Hn H')].
      * split; [exact J3|]. intros x. rewrite J4, I2. cbn [In].
        assert (In c s) as Hcs.
        { destruct (in_dec clause_dec c s) as [H|H]; [exact H|]. apply I3 in H. discriminate. }
        split.
        -- intros [H1 H2]. split; [right; exact H1|]. intros H. apply H2. right. exact H.
        -- intros [[H|H] Hn]; [subst x; exfalso; exact (Hn Hcs)|].
           split; [exact H|]. intros [H'|H']; [subst x; exact (Hn Hcs)|exact (Hn H')].
Qed.

(* cclauses that are all new and pairwise different are all recorded, in order *)
Lemma insert_all_fresh add : forall s, SS s -> NoDup add -> (forall x, In x add -> ~ In x s) ->
  snd (insert_all add s) = add.
Proof.
  induction add as [|c r IH]; intros s Hs Hnd Hn; cbn [insert_all]; [reflexivity|].
  destruct (cs_insert c s) as [s1 fresh] eqn:E.
  pose proof (cs_insert_spec c s Hs) as [I1 [I2 I3]]. rewrite E in I1, I2, I3. cbn [fst snd] in *.
  destruct (insert_all r s1) as [s2 added] eqn:E2. cbn [snd].
  inversion Hnd as [|? ? Hc Hnd']; subst.
  assert (fresh = true) as -> by (apply I3; apply Hn; left; reflexivity).
  f_equal. specialize (IH s1 I1 Hnd'). rewrite E2 in IH. cbn [snd] in IH. apply IH.
  intros x Hx H. apply I2 in H. destruct H as [->|H]; [exact (Hc Hx)|].
  exact (Hn x (or_intror Hx) H).
Qed.

(* ---------- canon_set ---------- *)
Lemma canon_insert_cs c s : canon_insert c s = fst (cs_insert c s).
Proof.
  induction s as [|d r IH]; cbn [canon_insert cs_insert]; [reflexivity|].
  destruct (clause_cmp c d); try reflexivity.
  rewrite IH. destruct (cs_insert c r). reflexivity.
Qed.

Lemma canon_set_spec s : SS (canon_set s) /\ forall x, In x (canon_set s) <-> In x s.
Proof.
  induction s as [|c s [IH1 IH2]]; cbn [canon_set fold_right].
  - split; [constructor|]. intros x. tauto.
  - fold (canon_set s). rewrite canon_insert_cs.
    destruct (cs_insert_spec c (canon_set s) IH1) as [I1 [I2 _]]. split; [exact I1|].
    intros x. rewrite I2, IH2. cbn [In]. split; intros [H|H]; auto.
Qed.

Lemma canon_set_unique a s : SS a -> (forall x, In x a <-> In x s) -> a = canon_set s.
Proof.
  intros Ha Heq. destruct (canon_set_spec s) as [C1 C2]. apply SS_unique; try assumption.
  intros x. rewrite Heq, C2. tauto.
Qed.

Lemma cs_of_list_spec l : SS (cs_of_list l) /\ forall x, In x (cs_of_list l) <-> In x l.
Proof.
  unfold cs_of_list.
  assert (forall l s, SS s ->
            SS (fold_left (fun s c => fst (cs_insert c s)) l s) /\
            forall x, In x (fold_left (fun s c => fst (cs_insert c s)) l s) <-> In x s \/ In x l) as G.
  { clear l. induction l as [|c l IH]; intros s Hs; cbn [fold_left].
    - split; [exact Hs|]. intros x. cbn [In]. tauto.
    - destruct (cs_insert_spec c s Hs) as [I1 [I2 _]]. destruct (IH _ I1) as [J1 J2].
      split; [exact J1|]. intros x. rewrite J2, I2. cbn [In]. split.
      + intros [[H|H]|H]; [right; left; symmetry; exact H|left; exact H|right; right; exact H].
      + intros [H|[H|H]]; [left; right; exact H|left; left; symmetry; exact H|right; exact H]. }
  destruct (G l [] (SSorted_nil _)) as [G1 G2]. split; [exact G1|].
  intros x. rewrite G2. cbn [In]. tauto.
Qed.

(* ---------- semantics depends only on the set of cclauses ---------- *)
Lemma cs_sat_set s a b : (forall x, In x a <-> In x b) -> cs_sat s a = cs_sat s b.
Proof.
  intros Heq. unfold cs_sat.
  destruct (forallb (clause_holds s) a) eqn:Ea; symmetry.
  - rewrite forallb_forall in Ea |- *. intros x Hx. apply Ea. apply Heq. exact Hx.
  - destruct (forallb (clause_holds s) b) eqn:Eb; [|reflexivity].
    rewrite forallb_forall in Eb. assert (forallb (clause_holds s) a = true) as H.
    { apply forallb_forall. intros x Hx. apply Eb. apply Heq. exact Hx. }
    congruence.
Qed.
