(* C08 support: the insertion sorts of Model/Atomic.v (permutation, sortedness), uniqueness of a
   strictly sorted list with given members, strictly ascending Z lists. *)
From Coq Require Import List ZArith Bool Lia Permutation.
From DD Require Import Model.Circuit Model.Atomic.
Import ListNotations.
Open Scope Z_scope.

Fixpoint ssorted {A} (R : A -> A -> Prop) (l : list A) : Prop :=
  match l with
  | [] => True
  | x :: r => (forall y, In y r -> R x y) /\ ssorted R r
  end.

Section Sort.
Context {A : Type} (le : A -> A -> bool).

Lemma insert_by_perm (x : A) (l : list A) : Permutation (insert_by le x l) (x :: l).
Proof.
  induction l as [|y l IH]; cbn [insert_by]; [reflexivity|].
  destruct (le x y); [reflexivity|].
  rewrite IH. apply perm_swap.
Qed.

Lemma sort_by_perm (l : list A) : Permutation (sort_by le l) l.
Proof.
  induction l as [|x l IH]; cbn [sort_by fold_right]; [reflexivity|].
  fold (sort_by le l). rewrite insert_by_perm. now constructor.
Qed.

Lemma sort_by_In (x : A) (l : list A) : In x (sort_by le l) <-> In x l.
Proof.
  split; apply Permutation_in; [apply sort_by_perm|apply Permutation_sym, sort_by_perm].
Qed.

Lemma sort_by_length (l : list A) : length (sort_by le l) = length l.
Proof. apply Permutation_length, sort_by_perm. Qed.

Hypothesis le_total : forall x y, le x y = false -> le y x = true.
Hypothesis le_trans : forall x y z, le x y = true -> le y z = true -> le x z = true.

Lemma insert_by_sorted (x : A) (l : list A) :
  ssorted (fun a b => le a b = true) l -> ssorted (fun a b => le a b = true) (insert_by le x l).
Proof.
  induction l as [|y l IH]; cbn [insert_by]; intros Hs.
  - cbn. split; [intros ? []|exact I].
  - destruct (le x y) eqn:E.
    + cbn [ssorted]. split; [|exact Hs]. intros z [<-|Hz]; [exact E|].
      destruct Hs as [Hy _]. apply (le_trans x y z E). now apply Hy.
    + destruct Hs as [Hy Hs]. cbn [ssorted]. split; [|now apply IH].
      intros z Hz. apply (Permutation_in _ (insert_by_perm x l)) in Hz.
      destruct Hz as [<-|Hz]; [now apply le_total|now apply Hy].
Qed.

Lemma sort_by_sorted (l : list A) : ssorted (fun a b => le a b = true) (sort_by le l).
Proof.
  induction l as [|x l IH]; cbn [sort_by fold_right]; [exact I|].
  now apply insert_by_sorted.
Qed.
End Sort.

Lemma ssorted_impl {A} (R R' : A -> A -> Prop) (l : list A) :
  (forall x y, In x l -> In y l -> R x y -> R' x y) -> ssorted R l -> ssorted R' l.
Proof.
  induction l as [|x l IH]; intros HR Hs; [exact I|].
  destruct Hs as [Hx Hs]. split.
  - intros y Hy. apply HR; [now left|now right|now apply Hx].
  - apply IH; [|exact Hs]. intros a b Ha Hb. apply HR; now right.
Qed.

Lemma ssorted_filter {A} (R : A -> A -> Prop) (p : A -> bool) (l : list A) :
  ssorted R l -> ssorted R (filter p l).
Proof.
  induction l as [|x l IH]; intros Hs; [exact I|]. destruct Hs as [Hx Hs]. cbn [filter].
  destruct (p x); [|now apply IH]. split; [|now apply IH].
  intros y Hy. apply filter_In in Hy. now apply Hx.
Qed.

Lemma ssorted_map {A B} (R : B -> B -> Prop) (f : A -> B) (l : list A) :
  ssorted (fun a b => R (f a) (f b)) l <-> ssorted R (map f l).
Proof.
  induction l as [|x l IH]; [cbn; tauto|]. cbn [map ssorted]. rewrite IH.
  split; intros [H1 H2]; (split; [|exact H2]).
  - intros y Hy. apply in_map_iff in Hy. destruct Hy as [a [<- Ha]]. now apply H1.
  - intros y Hy. apply H1. now apply in_map.
Qed.

(* a strictly sorted list is determined by its members *)
Lemma ssorted_unique {A} (R : A -> A -> Prop) :
  (forall x, ~ R x x) -> (forall x y z, R x y -> R y z -> R x z) ->
  forall l1 l2, ssorted R l1 -> ssorted R l2 -> (forall x, In x l1 <-> In x l2) -> l1 = l2.
Proof.
  intros Hirr Htr. induction l1 as [|a l1 IH]; intros l2 H1 H2 Hmem.
  - destruct l2 as [|b l2]; [reflexivity|]. exfalso. apply (Hmem b). now left.
  - destruct l2 as [|b l2]; [exfalso; apply (Hmem a); now left|].
    destruct H1 as [Ha H1]. destruct H2 as [Hb H2].
    assert (Hab : a = b).
    { assert (Hin1 : In a (b :: l2)) by (apply Hmem; now left).
      assert (Hin2 : In b (a :: l1)) by (apply Hmem; now left).
      destruct Hin1 as [->|Hin1]; [reflexivity|]. destruct Hin2 as [->|Hin2]; [reflexivity|].
      exfalso. apply (Hirr a). apply (Htr a b a); [now apply Ha|now apply Hb]. }
    subst b. f_equal. apply IH; [exact H1|exact H2|].
    intros x. split; intros Hx.
    + assert (Hin : In x (a :: l2)) by (apply Hmem; now right).
      destruct Hin as [<-|Hin]; [|exact Hin]. exfalso. apply (Hirr a). now apply Ha.
    + assert (Hin : In x (a :: l1)) by (apply Hmem; now right).
      destruct Hin as [<-|Hin]; [|exact Hin]. exfalso. apply (Hirr a). now apply Hb.
Qed.

Lemma ssorted_NoDup {A} (R : A -> A -> Prop) (l : list A) :
  (forall x, ~ R x x) -> ssorted R l -> NoDup l.
Proof.
  intros Hirr. induction l as [|x l IH]; intros Hs; constructor.
  - intros Hx. destruct Hs as [Hx' _]. exact (Hirr x (Hx' x Hx)).
  - apply IH. apply Hs.
Qed.

(* ---- Z lists ---- *)
Notation sortZ := (sort_by Z.leb).

Lemma Zleb_total (x y : Z) : (x <=? y) = false -> (y <=? x) = true.
Proof. intros H. apply Z.leb_gt in H. apply Z.leb_le. lia. Qed.
Lemma Zleb_trans (x y z : Z) : (x <=? y) = true -> (y <=? z) = true -> (x <=? z) = true.
Proof. rewrite !Z.leb_le. lia. Qed.

Lemma sortZ_le (l : list Z) : ssorted Z.le (sortZ l).
Proof.
  apply (ssorted_impl (fun a b => (a <=? b) = true)).
  - intros x y _ _ H. now apply Z.leb_le.
  - apply sort_by_sorted; [exact Zleb_total|exact Zleb_trans].
Qed.

Lemma le_NoDup_lt (l : list Z) : ssorted Z.le l -> NoDup l -> ssorted Z.lt l.
Proof.
  induction l as [|x l IH]; intros Hs Hnd; [exact I|].
  destruct Hs as [Hx Hs]. inversion Hnd as [|? ? Hnotin Hnd']; subst. split; [|now apply IH].
  intros y Hy. assert (x <= y) by now apply Hx. assert (x <> y) by (intros ->; contradiction). lia.
Qed.

Lemma sortZ_lt (l : list Z) : NoDup l -> ssorted Z.lt (sortZ l).
Proof.
  intros Hnd. apply le_NoDup_lt; [apply sortZ_le|].
  apply (Permutation_NoDup (Permutation_sym (sort_by_perm Z.leb l)) Hnd).
Qed.

Lemma asc_unique (l1 l2 : list Z) :
  ssorted Z.lt l1 -> ssorted Z.lt l2 -> (forall x, In x l1 <-> In x l2) -> l1 = l2.
Proof. apply ssorted_unique; intros; lia. Qed.

(* the head of an ascending list is its minimum *)
Lemma asc_hd_min (l : list Z) (d x : Z) : ssorted Z.lt l -> In x l -> hd d l <= x.
Proof.
  destruct l as [|a l]; intros Hs Hx; [destruct Hx|]. cbn [hd].
  destruct Hx as [->|Hx]; [lia|]. destruct Hs as [Ha _]. specialize (Ha x Hx). lia.
Qed.

Lemma hd_In {A} (l : list A) (d : A) : l <> [] -> In (hd d l) l.
Proof. destruct l; [congruence|intros _; now left]. Qed.

(* ---- the orders used by get_atomic_sets ---- *)
Lemma combo_le_total (a b : Z * Z) : combo_le a b = false -> combo_le b a = true.
Proof.
  unfold combo_le. destruct a as [a1 a2], b as [b1 b2]. cbn [fst snd]. intros H.
  apply orb_false_iff in H. destruct H as [H1 H2]. apply Z.ltb_ge in H1.
  apply orb_true_iff. destruct (Z.eq_dec a1 b1) as [->|Hne].
  - right. rewrite Z.eqb_refl in *. cbn [andb] in *. apply Z.leb_gt in H2. apply Z.leb_le. lia.
  - left. apply Z.ltb_lt. lia.
Qed.

Lemma combo_le_spec (a b : Z * Z) :
  combo_le a b = true <-> fst a < fst b \/ (fst a = fst b /\ snd a <= snd b).
Proof.
  unfold combo_le. rewrite orb_true_iff, andb_true_iff, Z.ltb_lt, Z.eqb_eq, Z.leb_le. tauto.
Qed.

Lemma combo_le_trans (a b c : Z * Z) :
  combo_le a b = true -> combo_le b c = true -> combo_le a c = true.
Proof. rewrite !combo_le_spec. lia. Qed.

Lemma lex_le_total (a b : list Z) : lex_le a b = false -> lex_le b a = true.
Proof.
  revert b. induction a as [|x a IH]; intros b; destruct b as [|y b]; cbn [lex_le]; try congruence.
  intros H. apply orb_false_iff in H. destruct H as [H1 H2]. apply Z.ltb_ge in H1.
  apply orb_true_iff. destruct (Z.eq_dec x y) as [->|Hne].
  - right. rewrite Z.eqb_refl in *. cbn [andb] in *. now apply IH.
  - left. apply Z.ltb_lt. lia.
Qed.

Lemma lex_le_trans (a b c : list Z) : lex_le a b = true -> lex_le b c = true -> lex_le a c = true.
Proof.
  revert b c. induction a as [|x a IH]; intros b c; [reflexivity|].
  destruct b as [|y b]; [cbn; congruence|]. destruct c as [|z c]; [cbn; congruence|].
  cbn [lex_le]. rewrite !orb_true_iff, !andb_true_iff, !Z.ltb_lt, !Z.eqb_eq.
  intros [H1|[-> H1]] [H2|[-> H2]]; try (left; lia). right. split; [reflexivity|]. now apply (IH b c).
Qed.

(* lexicographic order between lists with different heads is the order of the heads *)
Lemma lex_le_hd (a b : list Z) :
  a <> [] -> b <> [] -> hd 0 a <> hd 0 b -> lex_le a b = true -> hd 0 a < hd 0 b.
Proof.
  destruct a as [|x a]; [congruence|]. destruct b as [|y b]; [congruence|]. cbn [hd lex_le].
  intros _ _ Hne. rewrite orb_true_iff, andb_true_iff, Z.ltb_lt, Z.eqb_eq. intros [H|[H _]]; [exact H|contradiction].
Qed.
