(* C08, the `as i16` casts: every feature id get_atomic_sets reports went through wrap16, so it lies
   in -32768..32767, whatever the circuit, the assumptions, the choice stream and the scratch state.
   A class that contains a feature >= 32768 can therefore never be reported. *)
From Coq Require Import List ZArith Bool Lia Permutation.
From DD Require Import Model.Circuit Model.Query Model.Enumerate Model.Atomic
  Proofs.Semantics Proofs.CountsA Proofs.AtomicSort Proofs.AtomicUF Proofs.AtomicSem Proofs.AtomicMain.
Import ListNotations.
Open Scope Z_scope.

Definition i16 (z : Z) : Prop := -32768 <= z <= 32767.
Definition uf_i16 (u : uf) : Prop := forall c z, In c u -> In z c -> i16 z.

Lemma class_of_i16 (x : Z) (u : uf) (z : Z) : uf_i16 u -> i16 x -> In z (class_of x u) -> i16 z.
Proof.
  intros Hu Hx Hz. destruct (class_of_cases x u) as [[H1 _]|[E _]].
  - exact (Hu _ z H1 Hz).
  - rewrite E in Hz. destruct Hz as [<-|[]]. exact Hx.
Qed.

Lemma uf_union_i16 (x y : Z) (u : uf) : uf_i16 u -> i16 x -> i16 y -> uf_i16 (uf_union x y u).
Proof.
  intros Hu Hx Hy c z Hc Hz. unfold uf_union in Hc.
  destruct (memZ y (class_of x u)).
  - destruct (existsb (fun c => memZ x c) u); [exact (Hu c z Hc Hz)|].
    destruct Hc as [<-|Hc]; [exact (class_of_i16 x u z Hu Hx Hz)|exact (Hu c z Hc Hz)].
  - destruct Hc as [<-|Hc].
    + apply in_app_iff in Hz. destruct Hz as [Hz|Hz];
        [exact (class_of_i16 x u z Hu Hx Hz)|exact (class_of_i16 y u z Hu Hy Hz)].
    + apply filter_In in Hc. exact (Hu c z (proj1 Hc) Hz).
Qed.

Definition st_i16 (st : option (scratch * uf)) : Prop :=
  match st with Some (_, u) => uf_i16 u | None => True end.

Lemma pair_step_i16 d A ex key st p : uf_i16 (snd st) -> st_i16 (pair_step d A ex key st p).
Proof.
  destruct st as [s u]. cbn [snd]. intros Hu. unfold pair_step.
  destruct (uf_equiv _ _ u); [exact Hu|].
  destruct (prefilter ex _ _) as [[|]|]; [exact Hu| |exact I].
  destruct (execute_query d _ s) as [s' r]. cbn [st_i16].
  destruct (r =? key); [|exact Hu].
  apply uf_union_i16; [exact Hu|apply wrap16_range|apply wrap16_range].
Qed.

Lemma check_i16 d A ex g st : st_i16 st -> st_i16 (incremental_subset_check d A ex st g).
Proof.
  unfold incremental_subset_check. generalize (pairs (snd g)). intros l. revert st.
  induction l as [|p l IH]; intros st Hst; [exact Hst|]. cbn [fold_left]. apply IH.
  destruct st as [[s u]|]; [|exact I]. cbn [opt_step]. now apply pair_step_i16.
Qed.

Lemma groups_i16 d A ex groups st : st_i16 st ->
  st_i16 (fold_left (incremental_subset_check d A ex) groups st).
Proof.
  revert st. induction groups as [|g groups IH]; intros st Hst; [exact Hst|].
  cbn [fold_left]. apply IH. now apply check_i16.
Qed.

Lemma dedup_aux_incl {T} (same : T -> T -> bool) (l : list T) : forall prev x,
  In x (dedup_aux same prev l) -> In x l.
Proof.
  induction l as [|z r IH]; intros prev x; cbn [dedup_aux]; [tauto|].
  destruct (same z prev); [intros H; right; exact (IH _ _ H)|].
  intros [<-|H]; [now left|right; exact (IH _ _ H)].
Qed.

Lemma finish_i16 (cross : bool) (u : uf) (c : list Z) (z : Z) :
  uf_i16 u -> In c (finish cross u) -> In z c -> i16 z.
Proof.
  intros Hu Hc Hz. unfold finish, subsets, sort_and_clean in Hc. destruct cross.
  - assert (Hc' : In c (sort_by head_key_le (map (sort_by abs_le) (map (sort_by Z.leb) u)))).
    { unfold dedup_by in Hc. destruct (sort_by head_key_le _) as [|x0 r]; [destruct Hc|].
      destruct Hc as [<-|Hc]; [now left|right; exact (dedup_aux_incl _ _ _ _ Hc)]. }
    apply sort_by_In, in_map_iff in Hc'. destruct Hc' as [c1 [<- Hc1]].
    apply in_map_iff in Hc1. destruct Hc1 as [c0 [<- Hc0]].
    apply sort_by_In, sort_by_In in Hz. exact (Hu c0 z Hc0 Hz).
  - apply sort_by_In, in_map_iff in Hc. destruct Hc as [c0 [<- Hc0]].
    apply sort_by_In in Hz. exact (Hu c0 z Hc0 Hz).
Qed.

(* whatever get_atomic_sets answers, every id in the answer is an i16 *)
Theorem atomic_ids_i16 (d : ddnnf) (cands : option (list Z)) (A : cfg) (cross : bool)
        (chs : list choice) (s s' : scratch) (out : list (list Z)) (ok : bool) :
  get_atomic_sets d cands A cross chs s = (s', Some out, ok) ->
  forall c z, In c out -> In z c -> i16 z.
Proof.
  rewrite get_atomic_sets_unfold.
  destruct (match cands with Some c => c | None => zseq 1 (nv d) end) as [|f fs].
  { intros E. inversion E; subst. intros c z []. }
  unfold run_body. destruct (collect_counts d A cross (f :: fs) s) as [s1 combos].
  destruct (uniform_random_sampling d A (Z.of_nat SAMPLE_AMOUNT) chs s1) as [[s2 samples] ok2].
  destruct (signed_excludes (nv d) samples) as [ex|]; [|discriminate].
  pose proof (groups_i16 d A ex (group_by_count (sort_by combo_le combos)) (Some (s2, []))) as H.
  destruct (fold_left _ _ _) as [[s3 u]|]; [|discriminate].
  intros E. inversion E; subst. intros c z Hc Hz.
  apply (finish_i16 cross u c z); [|exact Hc|exact Hz]. apply H. intros c' z' [].
Qed.

(* the specification for two candidates that are both assumed: one class *)
Lemma classes_spec_pair (r : Z -> Z -> bool) (a b : Z) :
  a < b -> r a a = true -> r a b = true -> r b a = true -> r b b = true ->
  classes_spec r [a; b] = [[a; b]].
Proof.
  intros Hab Haa Hab' Hba Hbb.
  assert (E1 : (a <=? b) = true) by (apply Z.leb_le; lia).
  assert (E2 : (a <=? a) = true) by (apply Z.leb_le; lia).
  assert (E3 : (b <=? a) = false) by (apply Z.leb_gt; lia).
  unfold classes_spec. cbn [sort_by fold_right insert_by]. rewrite E1.
  cbn [filter forallb]. rewrite Haa, Hab', Hba, Hbb, E1, E2, E3. cbn [negb orb andb map].
  rewrite Haa, Hab'. reflexivity.
Qed.

Lemma eqvb_assumed (C : circuit) (n : nat) (A : cfg) (x y : Z) :
  In x A -> In y A -> eqvb C n A x y = true.
Proof.
  intros Hx Hy. apply eqvb_spec. intros m Hm. unfold ModelsA in Hm. apply filter_In in Hm.
  destruct Hm as [_ Hm]. unfold contains_all in Hm. rewrite forallb_forall in Hm.
  now rewrite (Hm x Hx), (Hm y Hy).
Qed.

Theorem atomic_refuted_i16 :
  exists (n : nat) (cands : list Z) (A : cfg),
    Z.of_nat n > 32767 /\ NoDup cands /\ (forall f, In f cands -> 1 <= f <= Z.of_nat n) /\
    in_range n A /\
    forall (C : circuit) (chs : list choice) (s s' : scratch) (out : list (list Z)) (ok : bool),
      classes_spec (eqvb C n A) cands = [[39999; 40000]] /\
      (get_atomic_sets (build C n) (Some cands) A false chs s = (s', Some out, ok) ->
       out <> classes_spec (eqvb C n A) cands).
Proof.
  exists (Z.to_nat 40000), [39999; 40000], [39999; 40000].
  rewrite Z2Nat.id by lia. split; [lia|]. split.
  { constructor; [intros [H|[]]; lia|]. constructor; [intros []|constructor]. }
  split; [intros f [<-|[<-|[]]]; lia|]. split.
  { intros l [<-|[<-|[]]]; rewrite Z2Nat.id by lia; lia. }
  intros C chs s s' out ok.
  assert (Hspec : classes_spec (eqvb C (Z.to_nat 40000) [39999; 40000]) [39999; 40000] = [[39999; 40000]]).
  { apply classes_spec_pair; [lia| | | |]; apply eqvb_assumed; cbn; auto. }
  split; [exact Hspec|]. intros E Hout. rewrite Hspec in Hout. subst out.
  pose proof (atomic_ids_i16 _ _ _ _ _ _ _ _ _ E [39999; 40000] 39999 (or_introl eq_refl) (or_introl eq_refl)) as H.
  unfold i16 in H. lia.
Qed.
