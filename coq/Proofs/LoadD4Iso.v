(* rebuild as an isomorphism: the vector produced by dfs_post_order + flatten on the final graph
   lists the nodes reachable from the root once each, children before parents, the root last;
   node j is flat_node of the label and of the positions of the children of the j-th emitted
   graph node.  Consequences: idx_ok, all_reachable, and every bottom-up pass on the vector
   (counts, varss, forceds, evals) equals the graph-level fold gfold at the emitted node. *)
From Coq Require Import List ZArith Bool Lia Arith.
From DD Require Import Model.Circuit Model.LoadC2d Model.LoadD4 Proofs.PassLemmas Proofs.Renum
  Proofs.C10Load Proofs.LoadD4Graph Proofs.LoadD4Ops Proofs.LoadD4Flat Proofs.LoadD4Fold.
Import ListNotations.
Local Open Scope nat_scope.

(* ---------- the traversal ---------- *)
Section Dfs.
Variables (g : graph) (root : nat).
(* any property that holds at the root and is inherited by neighbours *)
Variable Q : nat -> Prop.
Hypothesis Qroot : Q root.
Hypothesis Qstep : forall p c, Q p -> In c (neighbors g p) -> Q c.

Definition has_par (disc : list nat) (x : nat) : Prop :=
  x = root \/ exists p, mem p disc = true /\ In x (neighbors g p).

Record DF (stack disc fin out : list nat) : Prop := {
  df_fin : fin = out;
  df_nd : NoDup out;
  df_stack : forall x, In x stack -> has_par disc x /\ Q x;
  df_out : forall x, In x out -> has_par disc x /\ Q x;
  df_disc : forall x, mem x disc = true -> (In x stack \/ In x out) /\ Q x
}.

Lemma has_par_mono disc y x : has_par disc x -> has_par (y :: disc) x.
Proof.
  intros [->|[p [Hp Hx]]]; [now left|]. right. exists p. split; [|exact Hx].
  rewrite mem_cons, Hp. apply orb_true_r.
Qed.

Lemma mem_true_In x l : mem x l = true -> In x l.
Proof. unfold mem. rewrite existsb_exists. intros [y [Hy E]]. apply Nat.eqb_eq in E. now subst. Qed.
Lemma mem_false_notIn x l : mem x l = false -> ~ In x l.
Proof.
  intros H Hin. assert (E : mem x l = true) by (unfold mem; apply existsb_exists; exists x; split; [exact Hin|apply Nat.eqb_refl]).
  congruence.
Qed.

Lemma dfs_loop_facts : forall fuel stack disc fin out order,
  DF stack disc fin out -> dfs_loop fuel g stack disc fin out = Some order ->
  NoDup order /\ (forall x, In x order -> Q x) /\
  (forall x, In x order -> x = root \/ exists p, In p order /\ In x (neighbors g p)).
Proof.
  induction fuel as [|f IH]; intros stack disc fin out order HI H; [discriminate|].
  cbn [dfs_loop] in H. destruct HI as [Hfin Hnd Hst Hout Hdisc].
  destruct stack as [|nx rest].
  - injection H as <-. split; [now apply NoDup_rev|]. split.
    + intros x Hx. apply in_rev in Hx. now apply Hout.
    + intros x Hx. apply in_rev in Hx. destruct (proj1 (Hout x Hx)) as [->|[p [Hp Hxp]]]; [now left|].
      right. exists p. split; [|exact Hxp]. apply in_rev. rewrite rev_involutive.
      destruct (proj1 (Hdisc p Hp)) as [[]|Hpo]. exact Hpo.
  - destruct (mem nx disc) eqn:Hd; cbn [negb] in H.
    + destruct (mem nx fin) eqn:Hf.
      * apply (IH _ _ _ _ _ ) in H; [exact H|]. constructor; auto.
        -- intros x Hx. apply Hst. now right.
        -- intros x Hx. destruct (Hdisc x Hx) as [[[E|Hs]|Ho] Hq]; (split; [|exact Hq]).
           ++ subst x. right. rewrite <- Hfin. now apply mem_true_In.
           ++ now left.
           ++ now right.
      * apply (IH _ _ _ _ _ ) in H; [exact H|]. constructor.
        -- now rewrite Hfin.
        -- constructor; [|exact Hnd]. rewrite <- Hfin. now apply mem_false_notIn.
        -- intros x Hx. apply Hst. now right.
        -- intros x [<-|Hx]; [apply Hst; now left|now apply Hout].
        -- intros x Hx. destruct (Hdisc x Hx) as [[[E|Hs]|Ho] Hq]; (split; [|exact Hq]).
           ++ right. now left.
           ++ now left.
           ++ right. now right.
    + destruct (push_spec (nx :: disc) (neighbors g nx) (nx :: rest)) as [p [Hp HF]].
      rewrite Hp in H. apply (IH _ _ _ _ _) in H; [exact H|].
      assert (Hqn : Q nx) by (apply Hst; now left).
      constructor; auto.
      * intros x Hx. apply in_app_or in Hx. destruct Hx as [Hx|Hx].
        -- rewrite Forall_forall in HF. destruct (HF x Hx) as [_ Hxn]. split.
           ++ right. exists nx. split; [|exact Hxn]. rewrite mem_cons, Nat.eqb_refl. reflexivity.
           ++ now apply (Qstep nx).
        -- destruct (Hst x Hx) as [H1 H2]. split; [now apply has_par_mono|exact H2].
      * intros x Hx. destruct (Hout x Hx) as [H1 H2]. split; [now apply has_par_mono|exact H2].
      * intros x Hx. rewrite mem_cons in Hx. destruct (Nat.eq_dec x nx) as [E|Hne].
        -- rewrite E. split; [left; apply in_or_app; right; now left|exact Hqn].
        -- apply Nat.eqb_neq in Hne. rewrite Hne in Hx. cbn [orb] in Hx.
           destruct (Hdisc x Hx) as [[Hs|Ho] Hq]; (split; [|exact Hq]).
           ++ left. apply in_or_app. now right.
           ++ now right.
Qed.

Lemma dfs_post_order_facts order : dfs_post_order g root = Some order ->
  NoDup order /\ (forall x, In x order -> Q x) /\
  (forall x, In x order -> x = root \/ exists p, In p order /\ In x (neighbors g p)) /\
  exists pre, order = pre ++ [root].
Proof.
  intros H. unfold dfs_post_order in H.
  destruct (dfs_loop_facts (dfs_fuel g) [root] [] [] [] order) as [H1 [H2 H3]]; [|exact H|].
  { constructor; [reflexivity|constructor| | |].
    - intros x [<-|[]]. split; [now left|exact Qroot].
    - intros x [].
    - intros x Hx. discriminate. }
  split; [exact H1|]. split; [exact H2|]. split; [exact H3|].
  apply (dfs_loop_last g root (dfs_fuel g) [root] [] [] [] order); [|exact H].
  right. exists []. split; [reflexivity|]. split; [intros []|]. split; [reflexivity|now right].
Qed.
End Dfs.

(* ---------- the numbering loop ---------- *)
Section Flatten.
Variable fg : graph.

Definition node_at (out : list nat) (j : nat) (nd : ntype) : Prop :=
  exists cs, nd = flat_node (label fg (nth j out 0)) cs /\
    Forall2 (fun y c => c <= j /\ nth c out 0 = y) (neighbors fg (nth j out 0)) cs.

Record FS (out : list nat) (num : list (nat * nat)) (acc : circuit) : Prop := {
  fs_len : length acc = length out;
  fs_num : forall x j, lookup num x = Some j -> j < length out /\ nth j out 0 = x;
  fs_node : forall j, j < length acc -> node_at out j (nth j acc FalseN)
}.

Lemma node_at_app out r j nd : j < length out -> node_at out j nd -> node_at (out ++ r) j nd.
Proof.
  intros Hj [cs [E H]]. exists cs. rewrite app_nth1 by exact Hj. split; [exact E|].
  eapply Forall2_impl; [|exact H]. intros y c [H1 H2]. split; [exact H1|]. rewrite app_nth1 by lia. exact H2.
Qed.

Lemma flatten_struct : forall order out num acc C,
  FS out num acc -> flatten fg order num acc = Some C -> exists num', FS (out ++ order) num' C.
Proof.
  induction order as [|nx r IH]; intros out num acc C HI H; cbn [flatten] in H.
  - injection H as <-. exists num. now rewrite app_nil_r.
  - destruct (map_opt _ _) as [neighs|] eqn:Hm; [|discriminate].
    replace (out ++ nx :: r) with ((out ++ [nx]) ++ r) by now rewrite <- app_assoc.
    refine (IH _ _ _ _ _ H). clear IH H. destruct HI as [HL Hnum Hnode].
    apply map_opt_Forall2_iff in Hm.
    constructor.
    + rewrite !app_length. cbn [length]. lia.
    + intros x j Hl. cbn [lookup] in Hl. rewrite app_length. cbn [length].
      destruct (Nat.eqb_spec nx x) as [->|Hne].
      * injection Hl as <-. split; [lia|]. rewrite HL. apply nth_middle.
      * destruct (Hnum x j Hl) as [H1 H2]. split; [lia|]. now rewrite app_nth1.
    + intros j Hj. rewrite app_length in Hj. cbn [length] in Hj.
      destruct (Nat.eq_dec j (length acc)) as [->|Hne].
      * rewrite nth_middle. exists neighs. rewrite HL, nth_middle. split; [reflexivity|].
        eapply Forall2_impl; [|exact Hm]. intros y c Hl. cbn [lookup] in Hl.
        destruct (Nat.eqb_spec nx y) as [->|Hny].
        -- injection Hl as <-. split; [lia|]. rewrite HL. apply nth_middle.
        -- destruct (Hnum y c Hl) as [H1 H2]. split; [lia|]. now rewrite app_nth1.
      * rewrite app_nth1 by lia. apply node_at_app; [lia|]. apply Hnode. lia.
Qed.
End Flatten.

(* ---------- the isomorphism ---------- *)
Record iso (g : sgraph) (root : nat) (order : list nat) (C : circuit) : Prop := {
  is_len : length C = length order;
  is_nodup : NoDup order;
  is_root : exists pre, order = pre ++ [root];
  is_def : forall x, In x order -> GDef g x;
  is_node : forall j, j < length C ->
    exists t cs, sg_label g (nth j order 0) = Some t /\ nth j C FalseN = flat_node t cs /\
      Forall2 (fun y c => nth c order 0 = y /\ c <= j /\ (is_gate t = true -> c < j))
              (sg_out g (nth j order 0)) cs;
  is_parent : forall x, In x order -> x = root \/
    exists p, In p order /\ In x (sg_out g p) /\ exists t, sg_label g p = Some t /\ is_gate t = true
}.

Lemma to_graph_neighbors_in g p x : Inv g -> In x (neighbors (to_graph g) p) -> In x (sg_out g p).
Proof.
  intros HI H. destruct (sg_label g p) as [t|] eqn:Hl.
  - rewrite to_graph_neighbors in H; [exact H|]. unfold sg_alive. now rewrite Hl.
  - exfalso. unfold neighbors, to_graph in H.
    destruct (Nat.lt_ge_cases p (length (sg_nodes g))) as [Hlt|Hge].
    + rewrite nth_map_seq in H by exact Hlt. cbn [snd] in H.
      now rewrite (vacant_no_out g p (proj1 HI) Hl) in H.
    + rewrite nth_overflow in H; [exact H|]. now rewrite map_length, seq_length.
Qed.

Theorem rebuild_iso g root order C :
  Inv g -> srcs_ok g -> GDef g root ->
  dfs_post_order (to_graph g) root = Some order ->
  flatten (to_graph g) order [] [] = Some C -> iso g root order C.
Proof.
  intros HI Hsrc Hroot Hd Hf.
  destruct (dfs_post_order_facts (to_graph g) root (GDef g) Hroot) with (order := order)
    as [Hnd [Hq [Hpar Hlast]]]; [|exact Hd|].
  { intros p c Hp Hc. apply (to_graph_neighbors_in g p c HI) in Hc.
    destruct (Hsrc p c) as [t [Hl Ht]]; [now apply in_outs|].
    destruct (GF_child hunit g p t tt c Hl Ht Hp Hc) as [[] Hv]. exact Hv. }
  destruct (flatten_struct (to_graph g) order [] [] [] C) as [num' [HL _ Hnode]]; [|exact Hf|].
  { constructor; [reflexivity|intros x j Hl; discriminate|intros j Hj; cbn in Hj; lia]. }
  cbn [app] in HL, Hnode.
  constructor; auto.
  - intros j Hj. destruct (Hnode j Hj) as [cs [E H]].
    set (x := nth j order 0) in *.
    assert (Hx : In x order) by (apply nth_In; lia).
    pose proof (GF_alive hunit g x tt (Hq x Hx)) as Ha.
    unfold sg_alive in Ha. destruct (sg_label g x) as [t|] eqn:Hl; [|discriminate].
    exists t, cs. split; [reflexivity|]. rewrite (to_graph_label g x t Hl) in E. split; [exact E|].
    rewrite to_graph_neighbors in H by (unfold sg_alive; now rewrite Hl).
    eapply Forall2_In_impl; [|exact H]. cbn beta. intros y c Hy _ [H1 H2]. split; [exact H2|]. split; [exact H1|].
    intros Ht. destruct (Nat.eq_dec c j) as [->|Hne]; [|lia]. exfalso.
    assert (y = x) by (unfold x; congruence). subst y.
    destruct (Hq x Hx) as [f Hfx]. rewrite (gfold_self_loop hunit g x t Hl Ht Hy f) in Hfx. discriminate.
  - intros x Hx. destruct (Hpar x Hx) as [->|[p [Hp Hxp]]]; [now left|]. right.
    apply (to_graph_neighbors_in g p x HI) in Hxp. exists p. split; [exact Hp|]. split; [exact Hxp|].
    apply (Hsrc p x). now apply in_outs.
Qed.

(* ---------- consequences ---------- *)
Section Iso.
Variables (g : sgraph) (root : nat) (order : list nat) (C : circuit).
Hypothesis HI : iso g root order C.

Lemma iso_nonempty : C <> [].
Proof.
  intros ->. destruct (is_root _ _ _ _ HI) as [pre E]. pose proof (is_len _ _ _ _ HI) as HL.
  rewrite E, app_length in HL. cbn in HL. lia.
Qed.

Lemma children_flat t cs : children (flat_node t cs) = if is_gate t then cs else [].
Proof. destruct t; reflexivity. Qed.

Lemma iso_idx_ok : idx_ok C = true.
Proof.
  apply idx_ok_intro. intros j Hj c Hc.
  destruct (is_node _ _ _ _ HI j Hj) as [t [cs [_ [E H]]]]. rewrite E, children_flat in Hc.
  destruct (is_gate t) eqn:Ht; [|destruct Hc].
  destruct (Forall2_In_r _ _ _ _ H Hc) as [y [_ [_ [_ Hlt]]]]. now apply Hlt.
Qed.

Lemma nth_order_inj i j : i < length order -> j < length order -> nth i order 0 = nth j order 0 -> i = j.
Proof. intros Hi Hj E. exact (proj1 (NoDup_nth order 0) (is_nodup _ _ _ _ HI) i j Hi Hj E). Qed.

Lemma iso_all_reachable : all_reachable C = true.
Proof.
  unfold all_reachable. apply forallb_forall. intros i Hi. apply in_seq in Hi.
  pose proof (is_len _ _ _ _ HI) as HL. destruct (is_root _ _ _ _ HI) as [pre Epre].
  assert (Hio : i < length order) by lia.
  set (x := nth i order 0).
  assert (Hxne : x <> root).
  { intros E. assert (Hr : nth (length order - 1) order 0 = root).
    { rewrite Epre, app_length. cbn [length]. replace (length pre + 1 - 1) with (length pre) by lia. apply nth_middle. }
    assert (i = length order - 1) by (apply nth_order_inj; [lia|lia|unfold x in E; congruence]). lia. }
  destruct (is_parent _ _ _ _ HI x (nth_In _ _ Hio)) as [E|[p [Hp [Hxp [t [Hlp Ht]]]]]]; [contradiction|].
  destruct (In_nth _ _ 0 Hp) as [jp [Hjp Ejp]].
  destruct (is_node _ _ _ _ HI jp ltac:(lia)) as [t' [cs [Hl' [E H]]]]. rewrite Ejp in Hl', H.
  assert (t' = t) by congruence. subst t'.
  unfold has_parent. apply existsb_exists. exists (nth jp C FalseN). split; [apply nth_In; lia|].
  rewrite E, children_flat, Ht. apply existsb_exists.
  destruct (Forall2_In_l _ _ _ _ H Hxp) as [c [Hc [Hcx [Hcj _]]]]. exists c. split; [exact Hc|].
  apply Nat.eqb_eq. apply nth_order_inj; [exact Hio|lia|]. unfold x in *. congruence.
Qed.

(* every pass on the vector is the graph fold at the emitted node *)
Lemma iso_pass {A} (f : list A -> ntype -> A) (d : A) (h : tid -> list A -> A) :
  local f d ->
  (forall acc t cs, f acc (flat_node t cs) = h t (if is_gate t then map (fun c => nth c acc d) cs else [])) ->
  forall j, j < length C -> GF h g (nth j order 0) (nth j (pass f C) d).
Proof.
  intros Hloc Hbridge. induction j as [j IH] using lt_wf_ind. intros Hj.
  rewrite (pass_unfold f d d C j Hloc iso_idx_ok Hj).
  destruct (is_node _ _ _ _ HI j Hj) as [t [cs [Hl [E H]]]]. rewrite E, Hbridge.
  destruct (is_gate t) eqn:Ht.
  - apply (GF_gate h g _ t); [exact Hl|exact Ht|].
    clear E. induction H as [|y c ys cs [Hy [_ Hlt]] _ IHH]; cbn [map]; constructor; [|exact IHH].
    rewrite <- Hy. specialize (Hlt eq_refl). apply IH; [exact Hlt|lia].
  - now apply GF_leaf.
Qed.
End Iso.
