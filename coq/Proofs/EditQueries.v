(* The query theorems (C02 count, C03 sat) instantiated at the vector after a unit edit that left
   no dead node, and the C05 core theorem for EVERY unit edit (dead nodes or not): the answers are
   those of the conjunction with the unit clause. *)
From Coq Require Import List ZArith Bool Lia.
From DD Require Import Model.Circuit Model.Query Model.Edit Proofs.Semantics Proofs.CountsA Proofs.QueryDefs
  Proofs.C02Proof Proofs.C03Proof Proofs.C05Proof Proofs.EditUnit Proofs.EditWF Proofs.EditCore.
Import ListNotations.
Open Scope Z_scope.

Lemma MCA_unit_edit (C : circuit) (n : nat) (l : Z) (A : cfg) :
  WF C n -> 1 <= Z.abs l <= Z.of_nat n -> 0 < MCA C n [l] ->
  MCA (unit_edit C l) n A = MCA C n (l :: A).
Proof. intros HWF Hl Hp. unfold MCA. now rewrite (unit_sem_assumptions C n l A HWF Hl Hp). Qed.

Theorem unit_then_count (C : circuit) (n : nat) (l : Z) (A : cfg) (s : scratch) :
  WFQ C n -> 1 <= Z.abs l <= Z.of_nat n -> 0 < MCA C n [l] -> no_dead (unit_edit C l) = true ->
  in_range n A -> Clean (unit_edit C l) s ->
  let '(s', r) := execute_query (build (unit_edit C l) n) A s in
  r = MCA C n (l :: A) /\ Clean (unit_edit C l) s'.
Proof.
  intros HQ Hl Hp Hnd HA Hcl.
  pose proof (unit_edit_WFQ C n l HQ Hl Hp Hnd) as HQ'.
  pose proof (execute_query_correct (unit_edit C l) n A s HQ' HA Hcl) as H.
  destruct (execute_query (build (unit_edit C l) n) A s) as [s' r]. destruct H as [H1 H2].
  split; [|exact H2]. rewrite H1. apply MCA_unit_edit; [apply HQ|exact Hl|exact Hp].
Qed.

Theorem unit_then_sat (C : circuit) (n : nat) (l : Z) (A : cfg) :
  WFQ C n -> 1 <= Z.abs l <= Z.of_nat n -> 0 < MCA C n [l] -> no_dead (unit_edit C l) = true ->
  in_range n A ->
  sat (build (unit_edit C l) n) A = (0 <? MCA C n (l :: A)).
Proof.
  intros HQ Hl Hp Hnd HA.
  pose proof (unit_edit_WFQ C n l HQ Hl Hp Hnd) as HQ'.
  rewrite (sat_correct (unit_edit C l) n A HQ'); [|rewrite (unit_root_count C n l (wfq_wf C n HQ) Hl Hp); exact Hp|exact HA].
  now rewrite (MCA_unit_edit C n l A (wfq_wf C n HQ) Hl Hp).
Qed.

(* the core needs no hypothesis on the edited vector (Proofs/EditCore.v): since F22 it is exact
   also when the edit leaves dead nodes behind (K4) *)
Theorem unit_then_core (C : circuit) (n : nat) (l : Z) (x : Z) :
  WF C n -> 1 <= Z.abs l <= Z.of_nat n -> 0 < MCA C n [l] ->
  (In x (calculate_core (unit_edit C l) n) <->
   (forall m, In m (Models C n) -> In l m -> In x m)).
Proof. intros HWF Hl Hp. exact (unit_then_core_exact C n l HWF Hl Hp x). Qed.

(* ... as a statement about the models of the edited vector *)
Theorem unit_then_core_models (C : circuit) (n : nat) (l : Z) (x : Z) :
  WF C n -> 1 <= Z.abs l <= Z.of_nat n -> 0 < MCA C n [l] ->
  (In x (calculate_core (unit_edit C l) n) <->
   (forall m, In m (Models (unit_edit C l) n) -> In x m)).
Proof.
  intros HWF Hl Hp. rewrite (unit_then_core C n l x HWF Hl Hp).
  rewrite (unit_sem C n l HWF Hl Hp). split.
  - intros H m Hm. apply filter_In in Hm. destruct Hm as [Hm Hc]. cbn in Hc. rewrite andb_true_r in Hc.
    apply H; [exact Hm|now apply memZ_In].
  - intros H m Hm Hlm. apply H. apply filter_In. split; [exact Hm|].
    cbn. rewrite andb_true_r. now apply memZ_In.
Qed.
