(* The old read/compute/write protocol is not serialisable: concrete race (C17, refutation). *)
From Coq Require Import List ZArith Bool Arith Lia Permutation.
From DD Require Import Model.Cursor Proofs.Cursor.
Import ListNotations.

Lemma v_exec_step : forall cnt reqs st e st',
  v_exec cnt reqs st e = Some st' <-> v_step cnt reqs st e st'.
Proof.
  intros cnt reqs st e st'. split.
  - intros H. destruct e as [i|i|i]; cbn [v_exec] in H.
    + destruct (nth_error reqs i) as [r|] eqn:Er; [|discriminate].
      destruct (nth_error (v_pcs st) i) as [[|s|s|s e]|] eqn:Ep; try discriminate.
      injection H as <-. apply VS_read; assumption.
    + destruct (nth_error (v_pcs st) i) as [[|s|s|s e]|] eqn:Ep; try discriminate.
      injection H as <-. apply VS_compute; assumption.
    + destruct (nth_error reqs i) as [r|] eqn:Er; [|discriminate].
      destruct (nth_error (v_pcs st) i) as [[|s|s|s e]|] eqn:Ep; try discriminate.
      injection H as <-. apply VS_write; assumption.
  - intros H. destruct H as [st i r Er Ep|st i s Ep|st i r s Er Ep]; cbn [v_exec]; rewrite ?Er, Ep; reflexivity.
Qed.

Lemma v_exec_all_run : forall cnt reqs es st st',
  v_exec_all cnt reqs st es = Some st' -> v_run cnt reqs st es st'.
Proof.
  intros cnt reqs es. induction es as [|e t IH] using rev_ind; intros st st' H.
  - cbn [v_exec_all] in H. injection H as <-. constructor.
  - assert (Happ : forall es1 st0, v_exec_all cnt reqs st0 (es1 ++ [e]) =
                    match v_exec_all cnt reqs st0 es1 with Some s1 => v_exec cnt reqs s1 e | None => None end).
    { clear. induction es1 as [|a es1 IH1]; intros st0; cbn [app v_exec_all].
      - destruct (v_exec cnt reqs st0 e); reflexivity.
      - destruct (v_exec cnt reqs st0 a); [apply IH1|reflexivity]. }
    rewrite Happ in H. destruct (v_exec_all cnt reqs st t) as [s1|] eqn:E1; [|discriminate].
    apply VR_snoc with (st1 := s1); [apply IH; exact E1|apply v_exec_step; exact H].
Qed.

(* the witness: four configurations under the key [], two requests of two configurations each;
   both read the cursor before either writes it *)
Definition race_cnt : key -> nat := fun _ => 4.
Definition race_reqs : list request := [mkReq [] 2; mkReq [] 2].
Definition race_cur0 : cursor := fun _ => 0.
Definition race_events : list vevent := [ERead 0; ERead 1; EComputeV 0; EComputeV 1; EWrite 0; EWrite 1].

Definition race_final : option vstate := v_exec_all race_cnt race_reqs (v_init race_cur0 race_reqs) race_events.

Theorem refuted_race :
  exists cnt reqs cur0 es st,
    v_run cnt reqs (v_init cur0 reqs) es st /\ v_complete st = true /\
    length reqs = 2 /\
    (forall r, In r reqs -> rkey r = [] /\ 0 < ramount r) /\
    (* together they ask for no more than count(A) configurations ... *)
    fold_right plus 0 (map ramount reqs) <= cnt [] /\ cur0 [] = 0 /\
    (* ... and yet one configuration is handed out twice *)
    (exists x, In x (nth 0 (v_answers st) []) /\ In x (nth 1 (v_answers st) [])) /\
    ~ NoDup (concat (v_answers st)) /\
    (* no sequential order of the two requests gives these answers *)
    (forall ord, Permutation ord [0; 1] ->
       seq_run cnt cur0 (select dreq reqs ord) <> select [] (v_answers st) ord).
Proof.
  destruct race_final as [st|] eqn:E; [|vm_compute in E; discriminate].
  exists race_cnt, race_reqs, race_cur0, race_events, st.
  pose proof (v_exec_all_run _ _ _ _ _ E) as Hrun.
  vm_compute in E. injection E as <-.
  split; [exact Hrun|]. split; [reflexivity|]. split; [reflexivity|]. split.
  { intros r [<-|[<-|[]]]; cbn [rkey ramount]; split; (reflexivity || lia). }
  split; [vm_compute; lia|]. split; [reflexivity|]. split.
  { exists 0. vm_compute. split; left; reflexivity. }
  split.
  { vm_compute. intros H. inversion H as [|x l Hx Hl]. apply Hx. right. left. reflexivity. }
  intros ord Hp.
  assert (Ho : ord = [0; 1] \/ ord = [1; 0]).
  { pose proof (Permutation_length Hp) as Hl.
    destruct ord as [|a [|b [|c t]]]; try discriminate.
    assert (Ha : In a [0; 1]) by (eapply Permutation_in; [exact Hp|left; reflexivity]).
    assert (Hb : In b [0; 1]) by (eapply Permutation_in; [exact Hp|right; left; reflexivity]).
    assert (Hnd : NoDup [a; b]) by (eapply Permutation_NoDup; [apply Permutation_sym; exact Hp|repeat constructor; cbn; intuition lia]).
    inversion Hnd as [|? ? Hna _]. cbn [In] in Ha, Hb, Hna.
    destruct Ha as [<-|[<-|[]]]; destruct Hb as [<-|[<-|[]]]; try (exfalso; apply Hna; left; reflexivity); auto. }
  destruct Ho as [-> | ->]; vm_compute; discriminate.
Qed.
