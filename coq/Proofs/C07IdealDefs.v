(* C07 (5): the idealised law of a SINGLE sample (amount = 1), as a finite distribution.

   An entry is (choice stream, outcome, probability).  joint1 lists, for node i, every choice stream
   the ideal primitives can produce for amount = 1 together with the sample it leads to and its
   probability:
     - at an Or node with temp ti the split vector is the unit vector e_k (all of the single sample
       goes to child k) with probability temp_k / ti for every child k with temp_k <> 0: the exact
       multinomial(1; temp_k / ti), which is what Binomial(1, w0/(w0+w1)) resp. one draw of
       WeightedAliasIndex are meant to realise;
     - every shuffle acts on a list of length 1 (or 0 after a true child), so the uniform random
       permutation is Perm [0] (resp. Perm []) with probability 1;
     - an And node draws its children independently (product of probabilities), outcome = the
       concatenation of the children's outcomes in child order (stitch).
   Outside this model: Pcg32, the f64 weights child_count / parent_count * amount, rand_distr. *)
From Coq Require Import List ZArith QArith Bool.
From DD Require Import Model.Circuit Model.Query Model.Enumerate.
Import ListNotations.

Notation entry := (list choice * cfg * Q)%type.
Definition e_chs (e : entry) : list choice := fst (fst e).
Definition e_out (e : entry) : cfg := snd (fst e).
Definition e_pr (e : entry) : Q := snd e.

Definition is_true_nd (nd : ntype) : bool := match nd with TrueN => true | _ => false end.

(* independent product: the stream of a, then the stream of b, then the shuffle after that child *)
Definition and_pairs (pm : list nat) (acc J : list entry) : list entry :=
  flat_map (fun a => map (fun b => (e_chs a ++ e_chs b ++ [Perm pm], e_out a ++ e_out b,
                                    (e_pr a * e_pr b)%Q)) J) acc.

(* the k-th unit vector of length pre + 1 + post *)
Definition unit_split (pre post : nat) : list Z := repeat_n 0%Z pre ++ 1%Z :: repeat_n 0%Z post.

Fixpoint or_branches (ts : list Z) (ti : Z) (J : nat -> list entry) (pre : nat) (cs : list nat)
  : list entry :=
  match cs with
  | [] => []
  | c :: cs' =>
    (if (nth c ts 0 =? 0)%Z then []
     else map (fun b => (Split (unit_split pre (length cs')) :: e_chs b ++ [Perm [0%nat]], e_out b,
                         (inject_Z (nth c ts 0%Z) / inject_Z ti * e_pr b)%Q)) (J c))
    ++ or_branches ts ti J (S pre) cs'
  end.

Fixpoint joint1 (d : ddnnf) (ts : list Z) (fuel : nat) (i : nat) : list entry :=
  match fuel with
  | O => []
  | S f =>
    match nth i (circ d) FalseN with
    | Lit l => [([], [l], 1%Q)]
    | TrueN => [([], [], 1%Q)]
    | FalseN => []
    | And cs =>
      fold_left (fun acc c =>
                   and_pairs (if is_true_nd (nth c (circ d) FalseN) then [] else [0%nat])
                             acc (joint1 d ts f c))
                cs [([], [], 1%Q)]
    | Or cs => or_branches ts (nth i ts 0%Z) (joint1 d ts f) 0 cs
    end
  end.

(* probability mass of an outcome in a finite distribution *)
Definition qsum (l : list Q) : Q := fold_right Qplus 0%Q l.
Definition mass (D : list (cfg * Q)) (m : cfg) : Q :=
  qsum (map snd (filter (fun e => cfg_eqb (fst e) m) D)).

(* the law of the abs-sorted single sample at the root *)
Definition law1 (d : ddnnf) (ts : list Z) : list (cfg * Q) :=
  map (fun e => (sort_abs (e_out e), e_pr e)) (joint1 d ts (length (circ d)) (rootn d)).
