(* C07 (6), part 1: the ideal law jointk talks about the MODEL's sample_node.  Every (stream, samples)
   entry of jointk: the stream respects the contract, sample_node consumes exactly that stream and
   returns exactly the listed samples -- for every amount.  Consequences (with C07Valid): every
   listed sample list has exactly `amount` members, all valid. *)
From Coq Require Import List ZArith QArith Bool Lia Permutation.
From DD Require Import Model.Circuit Model.Query Model.Enumerate
     Proofs.PassLemmas Proofs.Enum Proofs.CountsA Proofs.Live Proofs.LiveCounts Proofs.C07Defs Proofs.C07Valid Proofs.C07IdealDefs
     Proofs.C07Align Proofs.C07GeneralDefs Proofs.C07GeneralDist.
Import ListNotations.
Open Scope Z_scope.

Section AlignK.
Variables (d : ddnnf) (A : cfg) (ts : list Z) (SL : nat -> Z -> dist (list Z)).
Notation C := (circ d).
Hypothesis Hok : idx_ok C = true.
Hypothesis Hts : temps_ok A C ts.
Hypothesis HSL : splits_ideal C ts SL.

Notation cnt c := (nth c (countsA A C) 0%Z).
Notation J f := (fun a c => jointk d ts SL f a c).

Definition node_runs (f : nat) (a : Z) (c : nat) : Prop :=
  forall r w, In (r, w) (jointk d ts SL f a c) ->
  forall rest, sample_node_c d ts f a c (fst r ++ rest) = (snd r, rest, true, true).

Lemma jointk_S f a i :
  jointk d ts SL (S f) a i =
  if a =? 0 then dret ([], [])
  else
    match nth i C FalseN with
    | Lit l => dret ([], repeat_n [l] (Z.to_nat a))
    | And cs => fold_left (and_stepK (jointk d ts SL f a)) cs (dret ([], repeat_n [] (Z.to_nat a)))
    | Or cs =>
      dbind (SL i a) (fun v =>
      dbind (or_seq ts (fun a' c => jointk d ts SL f a' c) v 0 cs) (fun r =>
      dbind (uperm (length (pad a (snd r)))) (fun p =>
      dret (Split v :: fst r ++ [Perm p], apply_perm p (pad a (snd r)) []))))
    | _ => dret ([], [])
    end.
Proof. reflexivity. Qed.

(* ---------- And ---------- *)

Lemma and_foldK_runs f a (cs : list nat) :
  (forall c, In c cs -> node_runs f a c) ->
  forall D0 r w, In (r, w) (fold_left (and_stepK (jointk d ts SL f a)) cs D0) ->
  exists r0 w0 s', In (r0, w0) D0 /\ fst r = fst r0 ++ s' /\
    forall rest, fold_left (and_step d ts f a) cs (snd r0, s' ++ rest, true, true)
                 = (snd r, rest, true, true).
Proof.
  induction cs as [|c cs IH]; intros Hcs D0 r w Hr.
  - cbn [fold_left] in Hr. exists r, w, []. rewrite app_nil_r. repeat split; try assumption.
  - cbn [fold_left] in Hr.
    destruct (IH (fun c0 Hc0 => Hcs c0 (or_intror Hc0)) _ r w Hr) as [r1 [w1 [s2 [Hr1 [Hs Hfold]]]]].
    unfold and_stepK in Hr1. apply in_dbind in Hr1. destruct Hr1 as [r0 [w0 [w' [Hr0 [Hr1 _]]]]].
    apply in_dbind in Hr1. destruct Hr1 as [r' [w2 [w3 [Hr' [Hr1 _]]]]].
    apply in_dret in Hr1. destruct Hr1 as [-> _].
    unfold shuffled in Hr'. apply in_dbind in Hr'. destruct Hr' as [rc [w4 [w5 [Hrc [Hr' _]]]]].
    apply in_dbind in Hr'. destruct Hr' as [p [w6 [w7 [Hp [Hr' _]]]]].
    apply in_dret in Hr'. destruct Hr' as [-> _].
    destruct (uperm_support _ _ _ Hp) as [Hlen [Hperm _]].
    cbn [fst snd] in *.
    exists r0, w0, (fst rc ++ Perm p :: s2). split; [exact Hr0|]. split.
    + rewrite Hs. rewrite <- !app_assoc. reflexivity.
    + intros rest. cbn [fold_left]. unfold and_step at 2.
      replace ((fst rc ++ Perm p :: s2) ++ rest) with (fst rc ++ (Perm p :: s2 ++ rest))
        by (rewrite <- app_assoc; reflexivity).
      rewrite (Hcs c (or_introl eq_refl) rc w4 Hrc). cbn [take_choice].
      rewrite Hlen, Nat.eqb_refl, Hperm. cbn [andb]. apply Hfold.
Qed.

(* ---------- Or ---------- *)

Lemma or_seq_runs f v (cs : list nat) :
  (forall c a, In c cs -> 0 <= a -> nth c ts 0 <> 0 -> node_runs f a c) ->
  Forall (fun x => 0 <= x) v ->
  forall k r w, In (r, w) (or_seq ts (J f) v k cs) ->
  forall l0 rest ok ct,
    fold_left (or_step d ts f v) cs (l0, fst r ++ rest, ok, k, ct)
    = (l0 ++ snd r, rest, ok, (k + length cs)%nat, ct).
Proof.
  intros Hcs Hv. induction cs as [|c cs IH]; intros k r w Hr l0 rest ok ct.
  - cbn [or_seq] in Hr. apply in_dret in Hr. destruct Hr as [-> _].
    cbn [fold_left fst snd app length]. rewrite app_nil_r, Nat.add_0_r. reflexivity.
  - cbn [or_seq] in Hr. cbn [fold_left length]. unfold or_step at 2.
    assert (Hn : (k + S (length cs) = S k + length cs)%nat) by lia. rewrite Hn.
    destruct (nth c ts 0 =? 0) eqn:Et.
    + apply (IH (fun c0 a Hc0 => Hcs c0 a (or_intror Hc0)) (S k) r w Hr).
    + apply Z.eqb_neq in Et.
      apply in_dbind in Hr. destruct Hr as [r1 [w1 [w2 [Hr1 [Hr _]]]]].
      apply in_dbind in Hr. destruct Hr as [r2 [w3 [w4 [Hr2 [Hr _]]]]].
      apply in_dret in Hr. destruct Hr as [-> _]. cbn [fst snd].
      assert (Ha : 0 <= nth k v 0).
      { destruct (Nat.lt_ge_cases k (length v)) as [Hk|Hk].
        - rewrite Forall_forall in Hv. apply Hv. now apply nth_In.
        - rewrite nth_overflow by exact Hk. lia. }
      rewrite <- app_assoc.
      rewrite (Hcs c (nth k v 0) (or_introl eq_refl) Ha Et r1 w1 Hr1).
      rewrite !andb_true_r.
      rewrite (IH (fun c0 a Hc0 => Hcs c0 a (or_intror Hc0)) (S k) r2 w3 Hr2).
      now rewrite app_assoc.
Qed.

(* ---------- the induction ---------- *)

Lemma true_cnt c : (c < length C)%nat -> nth c C FalseN = TrueN -> cnt c = 1.
Proof. intros Hc E. now rewrite (countsA_unfold A C c 0 Hok Hc), E. Qed.

Lemma live_cnt c : (c < length C)%nat -> nth c ts 0 <> 0 -> nth c C FalseN <> TrueN -> Reach C c ->
  cnt c <> 0.
Proof. intros Hc Ht Hn HR. now rewrite <- (Hts c Hc Hn HR). Qed.

(* the children of a reachable node with a non-zero count under A are reachable *)
Lemma reach_children i : (i < length C)%nat -> Reach C i -> cnt i <> 0 ->
  forall c, In c (children (nth i C FalseN)) -> Reach C c.
Proof.
  intros Hi HR Hcnt c Hc. apply (reach_child C i c HR Hi); [|exact Hc].
  exact (count_of_countsA_nonzero C Hok A i Hi Hcnt).
Qed.

Lemma jointk_runs : forall i, (i < length C)%nat ->
  forall f, (i < f)%nat -> Reach C i -> forall a, 0 <= a -> a = 0 \/ cnt i <> 0 -> node_runs f a i.
Proof.
  apply (idx_induction C (fun i => forall f, (i < f)%nat -> Reach C i -> forall a, 0 <= a ->
                                   a = 0 \/ cnt i <> 0 -> node_runs f a i) Hok).
  intros i Hi IH f Hif HR a Ha Hlive r w Hr rest. destruct f as [|f]; [lia|].
  rewrite jointk_S in Hr. rewrite sample_node_c_S.
  destruct (a =? 0) eqn:Ea.
  { apply in_dret in Hr. destruct Hr as [-> _]. reflexivity. }
  apply Z.eqb_neq in Ea. destruct Hlive as [Hlive|Hcnt]; [contradiction|].
  pose proof (idx_ok_nth C i FalseN Hok Hi) as Hch.
  pose proof (countsA_unfold A C i 0 Hok Hi) as Hcu.
  pose proof (reach_children i Hi HR Hcnt) as HRc.
  destruct (nth i C FalseN) as [l|cs|cs| |] eqn:E; cbn [children countA_node] in *.
  - apply in_dret in Hr. destruct Hr as [-> _]. reflexivity.
  - (* And *)
    destruct (and_foldK_runs f a cs) with (D0 := dret (@nil choice, repeat_n (@nil Z) (Z.to_nat a)))
                                          (r := r) (w := w) as [r0 [w0 [s' [Hr0 [Hs Hfold]]]]].
    + intros c Hc. specialize (Hch c Hc). apply IH; [exact Hc|lia|exact (HRc c Hc)|exact Ha|]. right.
      rewrite Hcu in Hcnt. apply (zprod_nonzero _ Hcnt). apply in_map_iff. now exists c.
    + exact Hr.
    + apply in_dret in Hr0. destruct Hr0 as [-> _]. cbn [fst snd app] in Hs, Hfold.
      rewrite Hs. apply Hfold.
  - (* Or *)
    assert (Hti : nth i ts 0 = cnt i) by (apply Hts; [exact Hi|congruence|exact HR]).
    assert (Ha1 : 1 <= a) by lia.
    destruct (HSL i cs a Hi E Ha1 ltac:(congruence) HR) as [Hsup _].
    apply in_dbind in Hr. destruct Hr as [v [w1 [w2 [Hv [Hr _]]]]].
    apply in_dbind in Hr. destruct Hr as [r1 [w3 [w4 [Hr1 [Hr _]]]]].
    apply in_dbind in Hr. destruct Hr as [p [w5 [w6 [Hp [Hr _]]]]].
    apply in_dret in Hr. destruct Hr as [-> _]. cbn [fst snd].
    destruct (Hsup v w1 Hv) as [_ Hsp].
    destruct (split_ok_spec ts cs v a Hsp) as [Hlv [Hnn _]].
    destruct (uperm_support _ _ _ Hp) as [Hlen [Hperm _]].
    cbn [app take_choice]. rewrite <- app_assoc.
    rewrite (or_seq_runs f v cs) with (w := w3); [| |exact Hnn|exact Hr1].
    + cbn [app take_choice]. rewrite Hsp, Hlv, Nat.eqb_refl. fold (pad a (snd r1)).
      rewrite Hlen, Nat.eqb_refl, Hperm. reflexivity.
    + intros c a' Hc Ha' Ht. specialize (Hch c Hc). apply IH; [exact Hc|lia|exact (HRc c Hc)|exact Ha'|]. right.
      destruct (nth c C FalseN) eqn:Ec; try (apply live_cnt; [lia|exact Ht|congruence|exact (HRc c Hc)]).
      rewrite true_cnt; [lia|lia|exact Ec].
  - apply in_dret in Hr. destruct Hr as [-> _]. reflexivity.
  - apply in_dret in Hr. destruct Hr as [-> _]. reflexivity.
Qed.

(* every listed sample list has exactly `a` members, each valid *)
Lemma jointk_valid i f a r w :
  (i < length C)%nat -> (i < f)%nat -> 0 <= a -> nth i C FalseN <> TrueN -> Reach C i -> cnt i <> 0 ->
  In (r, w) (jointk d ts SL f a i) ->
  length (snd r) = Z.to_nat a /\ Forall (Vp A C i) (snd r).
Proof.
  intros Hi Hf Ha Hnt HR Hcnt Hr.
  pose proof (jointk_runs i Hi f Hf HR a Ha (or_intror Hcnt) r w Hr []) as Hrun.
  exact (sample_node_c_valid d A ts Hok Hts i Hi f Hf Hnt HR Hcnt a (fst r ++ []) (snd r) [] true true
           Ha Hrun eq_refl eq_refl).
Qed.

End AlignK.
