(* Semantics of the StableGraph model of Model/LoadD4.v and the effect of its primitive
   operations.  gval = value of a graph node under a total assignment by fuelled, non
   short-circuit evaluation (None = out of fuel or a vacant node below); GV = "has the value".
   gv_transfer is the workhorse of the pass lemmas: values of kept nodes carry over from g to g'
   when, node by node, the new child list evaluates like the old one. *)
From Coq Require Import List ZArith Bool Lia Arith.
From DD Require Import Model.Circuit Model.LoadC2d Model.LoadD4.
Import ListNotations.
Local Open Scope nat_scope.

Fixpoint gval (fuel : nat) (g : sgraph) (s : asg) (x : nat) : option bool :=
  match fuel with
  | O => None
  | S f =>
    match sg_label g x with
    | None => None
    | Some (GLit l) => Some (lit_true s l)
    | Some GTrue => Some true
    | Some GFalse => Some false
    | Some GAnd => option_map (forallb id) (map_opt (gval f g s) (sg_out g x))
    | Some GOr => option_map (existsb id) (map_opt (gval f g s) (sg_out g x))
    end
  end.

Definition GV (g : sgraph) (s : asg) (x : nat) (b : bool) : Prop := exists f, gval f g s x = Some b.

Lemma Forall2_impl {A B} (R R' : A -> B -> Prop) :
  (forall a b, R a b -> R' a b) -> forall l l', Forall2 R l l' -> Forall2 R' l l'.
Proof. intros H l l'. induction 1; constructor; auto. Qed.

(* ---------- map_opt ---------- *)
Lemma map_opt_Forall2_iff {A B} (f : A -> option B) (l : list A) (l' : list B) :
  map_opt f l = Some l' <-> Forall2 (fun x y => f x = Some y) l l'.
Proof.
  revert l'. induction l as [|x l IH]; intros l'; cbn [map_opt].
  - split; [intros H; injection H as <-; constructor|intros H; inversion H; reflexivity].
  - split.
    + destruct (f x) as [y|] eqn:E; [|discriminate]. destruct (map_opt f l) as [ys|]; [|discriminate].
      intros H. injection H as <-. constructor; [exact E|]. now apply IH.
    + intros H. inversion H as [|? y ? ys Hxy Hr]; subst. rewrite Hxy.
      apply IH in Hr. now rewrite Hr.
Qed.

(* ---------- monotonicity and determinism ---------- *)
Lemma gval_mono g s : forall f f' x b, f <= f' -> gval f g s x = Some b -> gval f' g s x = Some b.
Proof.
  induction f as [|f IH]; intros f' x b Hle H; [discriminate|].
  destruct f' as [|f']; [lia|]. cbn [gval] in *.
  destruct (sg_label g x) as [[l| | | |]|]; try exact H.
  - destruct (map_opt (gval f g s) (sg_out g x)) as [bs|] eqn:E; [|discriminate].
    apply map_opt_Forall2_iff in E.
    assert (E' : map_opt (gval f' g s) (sg_out g x) = Some bs).
    { apply map_opt_Forall2_iff. eapply Forall2_impl; [|exact E]. intros c bc Hc. apply (IH f'); [lia|exact Hc]. }
    now rewrite E'.
  - destruct (map_opt (gval f g s) (sg_out g x)) as [bs|] eqn:E; [|discriminate].
    apply map_opt_Forall2_iff in E.
    assert (E' : map_opt (gval f' g s) (sg_out g x) = Some bs).
    { apply map_opt_Forall2_iff. eapply Forall2_impl; [|exact E]. intros c bc Hc. apply (IH f'); [lia|exact Hc]. }
    now rewrite E'.
Qed.

Lemma GV_det g s x b b' : GV g s x b -> GV g s x b' -> b = b'.
Proof.
  intros [f Hf] [f' Hf'].
  pose proof (gval_mono g s f (Nat.max f f') x b (Nat.le_max_l _ _) Hf) as H1.
  pose proof (gval_mono g s f' (Nat.max f f') x b' (Nat.le_max_r _ _) Hf') as H2.
  congruence.
Qed.

Lemma GV_alive g s x b : GV g s x b -> sg_alive g x = true.
Proof.
  intros [[|f] Hf]; [discriminate|]. cbn [gval] in Hf. unfold sg_alive.
  destruct (sg_label g x); [reflexivity|discriminate].
Qed.

(* a common fuel for a list of children *)
Lemma GV_list g s (l : list nat) (bs : list bool) :
  Forall2 (GV g s) l bs -> exists f, map_opt (gval f g s) l = Some bs.
Proof.
  induction 1 as [|x b l bs [f Hf] _ [f' IH]].
  - exists 0. reflexivity.
  - exists (Nat.max f f'). cbn [map_opt].
    rewrite (gval_mono g s f _ x b (Nat.le_max_l _ _) Hf).
    apply map_opt_Forall2_iff in IH.
    assert (E : map_opt (gval (Nat.max f f') g s) l = Some bs).
    { apply map_opt_Forall2_iff. eapply Forall2_impl; [|exact IH].
      intros c bc Hc. apply (gval_mono g s f'); [apply Nat.le_max_r|exact Hc]. }
    now rewrite E.
Qed.

(* ---------- introduction / inversion ---------- *)
Lemma GV_lit g s x l : sg_label g x = Some (GLit l) -> GV g s x (lit_true s l).
Proof. intros H. exists 1. cbn [gval]. now rewrite H. Qed.
Lemma GV_true g s x : sg_label g x = Some GTrue -> GV g s x true.
Proof. intros H. exists 1. cbn [gval]. now rewrite H. Qed.
Lemma GV_false g s x : sg_label g x = Some GFalse -> GV g s x false.
Proof. intros H. exists 1. cbn [gval]. now rewrite H. Qed.

Lemma GV_and g s x bs : sg_label g x = Some GAnd -> Forall2 (GV g s) (sg_out g x) bs ->
  GV g s x (forallb id bs).
Proof.
  intros Hl H. destruct (GV_list g s _ _ H) as [f Hf]. exists (S f). cbn [gval]. now rewrite Hl, Hf.
Qed.
Lemma GV_or g s x bs : sg_label g x = Some GOr -> Forall2 (GV g s) (sg_out g x) bs ->
  GV g s x (existsb id bs).
Proof.
  intros Hl H. destruct (GV_list g s _ _ H) as [f Hf]. exists (S f). cbn [gval]. now rewrite Hl, Hf.
Qed.

Lemma Forall2_gval_GV g s f l bs :
  Forall2 (fun x y => gval f g s x = Some y) l bs -> Forall2 (GV g s) l bs.
Proof. intros H. eapply Forall2_impl; [|exact H]. intros c bc Hc. now exists f. Qed.

Lemma GV_and_inv g s x b : sg_label g x = Some GAnd -> GV g s x b ->
  exists bs, Forall2 (GV g s) (sg_out g x) bs /\ b = forallb id bs.
Proof.
  intros Hl [[|f] Hf]; [discriminate|]. cbn [gval] in Hf. rewrite Hl in Hf.
  destruct (map_opt _ _) as [bs|] eqn:E; [|discriminate]. injection Hf as <-.
  exists bs. split; [|reflexivity]. apply map_opt_Forall2_iff in E. now apply Forall2_gval_GV in E.
Qed.
Lemma GV_or_inv g s x b : sg_label g x = Some GOr -> GV g s x b ->
  exists bs, Forall2 (GV g s) (sg_out g x) bs /\ b = existsb id bs.
Proof.
  intros Hl [[|f] Hf]; [discriminate|]. cbn [gval] in Hf. rewrite Hl in Hf.
  destruct (map_opt _ _) as [bs|] eqn:E; [|discriminate]. injection Hf as <-.
  exists bs. split; [|reflexivity]. apply map_opt_Forall2_iff in E. now apply Forall2_gval_GV in E.
Qed.
Lemma GV_lit_inv g s x l b : sg_label g x = Some (GLit l) -> GV g s x b -> b = lit_true s l.
Proof. intros Hl H. exact (GV_det _ _ _ _ _ H (GV_lit g s x l Hl)). Qed.
Lemma GV_true_inv g s x b : sg_label g x = Some GTrue -> GV g s x b -> b = true.
Proof. intros Hl H. exact (GV_det _ _ _ _ _ H (GV_true g s x Hl)). Qed.
Lemma GV_false_inv g s x b : sg_label g x = Some GFalse -> GV g s x b -> b = false.
Proof. intros Hl H. exact (GV_det _ _ _ _ _ H (GV_false g s x Hl)). Qed.

Lemma Forall2_In_l_ex {A B} (R : A -> B -> Prop) l l' x :
  Forall2 R l l' -> In x l -> exists y, In y l' /\ R x y.
Proof.
  induction 1 as [|a b l l' Hab _ IH]; intros Hx; [destruct Hx|].
  destruct Hx as [<-|Hx]; [exists b; split; [now left|exact Hab]|].
  destruct (IH Hx) as [y [Hy Hr]]. exists y. split; [now right|exact Hr].
Qed.

(* a node with an edge to itself has no value *)
Lemma gval_self_loop g s x : In x (sg_out g x) ->
  (sg_label g x = Some GAnd \/ sg_label g x = Some GOr) -> forall f, gval f g s x = None.
Proof.
  intros Hin Hl. induction f as [|f IH]; [reflexivity|]. cbn [gval].
  assert (E : map_opt (gval f g s) (sg_out g x) = None).
  { destruct (map_opt _ _) as [bs|] eqn:E; [|reflexivity]. apply map_opt_Forall2_iff in E.
    destruct (Forall2_In_l_ex _ _ _ _ E Hin) as [y [_ Hy]]. congruence. }
  destruct Hl as [-> | ->]; now rewrite E.
Qed.

(* the value depends on the graph only through labels and child lists *)
Lemma gval_ext g g' s : (forall x, sg_label g' x = sg_label g x) -> (forall x, sg_out g' x = sg_out g x) ->
  forall f x, gval f g' s x = gval f g s x.
Proof.
  intros Hl Ho. induction f as [|f IH]; intros x; [reflexivity|]. cbn [gval]. rewrite Hl, Ho.
  destruct (sg_label g x) as [[]|]; try reflexivity.
  - f_equal. clear -IH. induction (sg_out g x) as [|c r IHr]; [reflexivity|]. cbn [map_opt]. now rewrite IH, IHr.
  - f_equal. clear -IH. induction (sg_out g x) as [|c r IHr]; [reflexivity|]. cbn [map_opt]. now rewrite IH, IHr.
Qed.

(* ---------- transfer of values ---------- *)
Section Transfer.
Variables (g g' : sgraph) (s : asg) (keep : nat -> Prop).
(* a kept node keeps its label, or becomes a true node where its value was true anyway *)
Hypothesis Hlabel : forall x, keep x -> sg_label g' x = sg_label g x \/
  (sg_label g' x = Some GTrue /\ forall b, GV g s x b -> b = true).
Hypothesis Hkids : forall x bs, keep x -> sg_label g' x = sg_label g x ->
  (sg_label g x = Some GAnd \/ sg_label g x = Some GOr) ->
  Forall2 (fun c b => GV g s c b /\ (keep c -> GV g' s c b)) (sg_out g x) bs ->
  exists bs', Forall2 (GV g' s) (sg_out g' x) bs' /\
              (sg_label g x = Some GAnd -> forallb id bs' = forallb id bs) /\
              (sg_label g x = Some GOr -> existsb id bs' = existsb id bs).

Lemma gv_transfer_fuel : forall f x b, keep x -> gval f g s x = Some b -> GV g' s x b.
Proof.
  induction f as [|f IH]; intros x b Hk H; [discriminate|].
  destruct (Hlabel x Hk) as [Hl'|[Hl' Htrue]];
    [|rewrite (Htrue b (ex_intro _ (S f) H)); now apply GV_true].
  cbn [gval] in H.
  destruct (sg_label g x) as [[l| | | |]|] eqn:Hl; try discriminate.
  - injection H as <-. now apply GV_lit.
  - destruct (map_opt _ _) as [bs|] eqn:E; [|discriminate]. injection H as <-.
    apply map_opt_Forall2_iff in E.
    destruct (Hkids x bs Hk (eq_trans Hl' (eq_sym Hl)) (or_introl Hl)) as [bs' [H1 [H2 _]]].
    { eapply Forall2_impl; [|exact E]. intros c bc Hc. split; [now exists f|]. intros Hkc. now apply IH. }
    rewrite <- (H2 Hl). now apply GV_and.
  - destruct (map_opt _ _) as [bs|] eqn:E; [|discriminate]. injection H as <-.
    apply map_opt_Forall2_iff in E.
    destruct (Hkids x bs Hk (eq_trans Hl' (eq_sym Hl)) (or_intror Hl)) as [bs' [H1 [_ H2]]].
    { eapply Forall2_impl; [|exact E]. intros c bc Hc. split; [now exists f|]. intros Hkc. now apply IH. }
    rewrite <- (H2 Hl). now apply GV_or.
  - injection H as <-. now apply GV_true.
  - injection H as <-. now apply GV_false.
Qed.

Lemma gv_transfer x b : keep x -> GV g s x b -> GV g' s x b.
Proof. intros Hk [f Hf]. now apply (gv_transfer_fuel f). Qed.
End Transfer.
