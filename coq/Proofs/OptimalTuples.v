(* C20: index tuples of the and-merge: validity, successor/predecessor, monotonicity of the value
   along the pointwise order, and the listing of all tuples whose configurations are exactly the
   product of the lists. *)
From Coq Require Import List ZArith Bool Lia Permutation.
From DD Require Import Model.Circuit Model.Optimal Proofs.Enum Proofs.Semantics Proofs.TopK Proofs.OptimalBridge Proofs.OptimalOr.
Import ListNotations.
Open Scope Z_scope.

Notation tuple := (list nat).

Definition valid (Ls : list (list oc)) (t : tuple) : Prop :=
  Forall2 (fun i L => (i < length L)%nat) t Ls.
Definition le_t (h u : tuple) : Prop := Forall2 le h u.
Definition tsum (t : tuple) : nat := fold_right Nat.add 0%nat t.

Lemma Forall2_len {A B} (P : A -> B -> Prop) l l' : Forall2 P l l' -> length l = length l'.
Proof. induction 1; cbn; congruence. Qed.

Lemma valid_length Ls t : valid Ls t -> length t = length Ls.
Proof. apply Forall2_len. Qed.

Lemma le_t_refl t : le_t t t.
Proof. induction t; constructor; auto. Qed.
Lemma le_t_trans a b c : le_t a b -> le_t b c -> le_t a c.
Proof.
  intros H. revert c. induction H as [|x y a b Hxy _ IH]; intros c Hc; inversion Hc; subst; constructor.
  - lia.
  - now apply IH.
Qed.

(* ---------- tuple equality ---------- *)

Lemma tuple_eqb_eq t u : tuple_eqb t u = true <-> t = u.
Proof.
  unfold tuple_eqb. split.
  - revert u. induction t as [|a t IH]; intros [|b u] H; cbn in H; try discriminate; [reflexivity|].
    apply andb_true_iff in H. destruct H as [Hl H]. apply andb_true_iff in H. destruct H as [Hab H].
    apply Nat.eqb_eq in Hab. cbn in Hab. subst b. f_equal. apply IH. now rewrite Hl, H.
  - intros <-. rewrite Nat.eqb_refl. cbn. induction t as [|a t IH]; [reflexivity|].
    cbn. now rewrite Nat.eqb_refl, IH.
Qed.

Lemma seen_mem_In t seen : seen_mem t seen = true <-> In t seen.
Proof.
  unfold seen_mem. rewrite existsb_exists. split.
  - intros (u & Hu & He). apply tuple_eqb_eq in He. now subst.
  - intros H. exists t. split; [exact H|now apply tuple_eqb_eq].
Qed.

Lemma tuple_in_dec (t : tuple) (l : list tuple) : {In t l} + {~ In t l}.
Proof. apply in_dec. apply list_eq_dec. apply Nat.eq_dec. Qed.

(* ---------- values ---------- *)

Lemma fold_uni_snd (xs : list oc) (a : oc) :
  snd (fold_left uni xs a) = snd a + zsum (map snd xs).
Proof.
  revert a. induction xs as [|x xs IH]; intros a; [cbn; change (zsum []) with 0; lia|].
  cbn [fold_left map]. rewrite IH, snd_uni, zsum_cons. lia.
Qed.

Lemma cand_of_val Ls t : snd (cand_of Ls t) = zsum (map snd (items Ls t)).
Proof. unfold cand_of. rewrite fold_uni_snd. cbn. lia. Qed.

Lemma items_cons L Ls i t : items (L :: Ls) (i :: t) = nth i L oc_empty :: items Ls t.
Proof. reflexivity. Qed.

Lemma desc_nth_mono (L : list oc) d i i' :
  odesc L -> (i <= i')%nat -> (i' < length L)%nat -> snd (nth i' L d) <= snd (nth i L d).
Proof.
  revert i i'. induction L as [|x L IH]; intros i i' HL Hle Hlt; [cbn in Hlt; lia|].
  cbn in HL. destruct HL as [Hx HL]. destruct i as [|i], i' as [|i']; cbn [nth]; try lia.
  - apply Hx. apply nth_In. cbn in Hlt. lia.
  - apply IH; auto; cbn in Hlt; lia.
Qed.

Lemma items_mono Ls : Forall odesc Ls ->
  forall h u, valid Ls h -> valid Ls u -> le_t h u ->
  zsum (map snd (items Ls u)) <= zsum (map snd (items Ls h)).
Proof.
  induction 1 as [|L Ls HL _ IH]; intros h u Hh Hu Hle.
  - inversion Hh; inversion Hu; subst. cbn. lia.
  - inversion Hh as [|i L' h' Ls' Hi Hh']; subst. inversion Hu as [|i' L' u' Ls' Hi' Hu']; subst.
    inversion Hle; subst. rewrite !items_cons. cbn [map]. rewrite !zsum_cons.
    pose proof (desc_nth_mono L oc_empty i i' HL ltac:(assumption) Hi').
    specialize (IH h' u' Hh' Hu' ltac:(assumption)). lia.
Qed.

Lemma cand_mono Ls h u : Forall odesc Ls -> valid Ls h -> valid Ls u -> le_t h u ->
  snd (cand_of Ls u) <= snd (cand_of Ls h).
Proof. intros. rewrite !cand_of_val. now apply items_mono. Qed.

(* ---------- successor / predecessor ---------- *)

Fixpoint dec (t : tuple) (j : nat) : tuple :=
  match t, j with
  | [], _ => []
  | i :: t', O => pred i :: t'
  | i :: t', S j' => i :: dec t' j'
  end.

Lemma valid_nth Ls t j : valid Ls t -> (j < length Ls)%nat -> (nth j t O < length (nth j Ls []))%nat.
Proof.
  intros H. revert j. induction H as [|i L t Ls Hi _ IH]; intros j Hj; [cbn in Hj; lia|].
  destruct j as [|j]; cbn; [exact Hi|]. apply IH. cbn in Hj. lia.
Qed.

Lemma bump_valid Ls t j : valid Ls t -> (S (nth j t O) < length (nth j Ls []))%nat -> valid Ls (bump t j).
Proof.
  intros H. revert j. induction H as [|i L t Ls Hi Ht IH]; intros j Hj; [destruct j; constructor|].
  destruct j as [|j]; cbn [bump nth] in *.
  - constructor; [exact Hj|exact Ht].
  - constructor; [exact Hi|]. now apply IH.
Qed.

Lemma bump_le t j : le_t t (bump t j).
Proof.
  revert j. induction t as [|i t IH]; intros j; [destruct j; constructor|].
  destruct j; cbn [bump].
  - constructor; [lia|apply le_t_refl].
  - constructor; [lia|apply IH].
Qed.

Lemma tsum_cons i t : tsum (i :: t) = (i + tsum t)%nat.
Proof. reflexivity. Qed.

Lemma bump_tsum t j : (j < length t)%nat -> tsum (bump t j) = S (tsum t).
Proof.
  revert j. induction t as [|i t IH]; intros j Hj; [cbn in Hj; lia|].
  destruct j as [|j]; cbn [bump]; rewrite !tsum_cons; [lia|]. cbn in Hj. rewrite IH by lia. lia.
Qed.

Lemma bump_neq t j : (j < length t)%nat -> bump t j <> t.
Proof. intros Hj He. pose proof (bump_tsum t j Hj) as H. rewrite He in H. lia. Qed.

Lemma bump_inj t j j' : (j < length t)%nat -> (j' < length t)%nat -> bump t j = bump t j' -> j = j'.
Proof.
  revert j j'. induction t as [|i t IH]; intros j j' Hj Hj' He; [cbn in Hj; lia|].
  destruct j as [|j], j' as [|j']; cbn in He; try reflexivity.
  - inversion He. lia.
  - inversion He. lia.
  - inversion He. f_equal. apply IH; auto; cbn in *; lia.
Qed.

Lemma bump_dec t j : (j < length t)%nat -> (0 < nth j t O)%nat -> bump (dec t j) j = t.
Proof.
  revert j. induction t as [|i t IH]; intros j Hj Hp; [cbn in Hj; lia|].
  destruct j as [|j]; cbn in *.
  - f_equal. lia.
  - f_equal. apply IH; auto. lia.
Qed.

Lemma dec_valid Ls t j : valid Ls t -> valid Ls (dec t j).
Proof.
  intros H. revert j. induction H as [|i L t Ls Hi Ht IH]; intros j; [destruct j; constructor|].
  destruct j; cbn [dec].
  - constructor; [lia|exact Ht].
  - constructor; [exact Hi|apply IH].
Qed.

Lemma dec_le t j : le_t (dec t j) t.
Proof.
  revert j. induction t as [|i t IH]; intros j; [destruct j; constructor|].
  destruct j; cbn [dec].
  - constructor; [lia|apply le_t_refl].
  - constructor; [lia|apply IH].
Qed.

Lemma dec_tsum t j : (j < length t)%nat -> (0 < nth j t O)%nat -> (tsum (dec t j) < tsum t)%nat.
Proof.
  revert j. induction t as [|i t IH]; intros j Hj Hp; [cbn in Hj; lia|].
  destruct j as [|j]; cbn [dec nth length] in *; rewrite !tsum_cons; [lia|]. specialize (IH j ltac:(lia) Hp). lia.
Qed.

Lemma dec_nth t j : (j < length t)%nat -> (0 < nth j t O)%nat -> S (nth j (dec t j) O) = nth j t O.
Proof.
  revert j. induction t as [|i t IH]; intros j Hj Hp; [cbn in Hj; lia|].
  destruct j as [|j]; cbn in *; [lia|]. apply IH; auto. lia.
Qed.

Lemma zero_or_pos {A} (t : tuple) (Ls : list A) : length t = length Ls ->
  t = map (fun _ => O) Ls \/ exists j, (j < length t)%nat /\ (0 < nth j t O)%nat.
Proof.
  revert Ls. induction t as [|i t IH]; intros [|L Ls] Hl; cbn in Hl; try discriminate; [now left|].
  destruct i as [|i].
  - destruct (IH Ls ltac:(lia)) as [->|(j & Hj & Hp)]; [left; reflexivity|].
    right. exists (S j). cbn. split; [lia|exact Hp].
  - right. exists O. cbn. split; lia.
Qed.

Lemma start_valid (Ls : list (list oc)) :
  Forall (fun L => L <> []) Ls -> valid Ls (map (fun _ => O) Ls).
Proof.
  induction 1 as [|L Ls HL _ IH]; cbn; constructor; [|exact IH].
  destruct L; [congruence|cbn; lia].
Qed.

(* ---------- the listing of all tuples ---------- *)

Fixpoint tuples (ns : list nat) : list tuple :=
  match ns with
  | [] => [[]]
  | n :: ns' => flat_map (fun i => map (cons i) (tuples ns')) (seq 0 n)
  end.

Lemma in_tuples ns u : In u (tuples ns) <-> Forall2 lt u ns.
Proof.
  revert u. induction ns as [|n ns IH]; intros u; cbn [tuples].
  - split; [intros [<-|[]]; constructor|]. intros H. inversion H. now left.
  - rewrite in_flat_map. split.
    + intros (i & Hi & Hu). apply in_map_iff in Hu. destruct Hu as (u' & <- & Hu').
      apply in_seq in Hi. constructor; [lia|now apply IH].
    + intros H. inversion H as [|i n' u' ns' Hi Hu']; subst. exists i. split; [apply in_seq; lia|].
      apply in_map_iff. exists u'. split; [reflexivity|now apply IH].
Qed.

Lemma NoDup_map_inj_on {A B} (f : A -> B) (l : list A) :
  NoDup l -> (forall x y, In x l -> In y l -> f x = f y -> x = y) -> NoDup (map f l).
Proof.
  induction 1 as [|x l Hx Hnd IH]; intros Hinj; [constructor|]. cbn. constructor.
  - intros Hin. apply in_map_iff in Hin. destruct Hin as (y & Hy & Hyl).
    assert (y = x) by (apply Hinj; [now right|now left|exact Hy]). now subst.
  - apply IH. intros a b Ha Hb. apply Hinj; now right.
Qed.

Lemma tuples_NoDup ns : NoDup (tuples ns).
Proof.
  induction ns as [|n ns IH]; cbn [tuples]; [repeat constructor; intros []|].
  generalize (seq_NoDup n 0). generalize (seq 0 n). intros l Hl.
  induction Hl as [|i l Hi Hl IHl]; [constructor|]. cbn. apply NoDup_app_intro.
  - apply NoDup_map_inj_on; [exact IH|]. intros x y _ _ H. now inversion H.
  - exact IHl.
  - intros u Hu Hu'. apply in_map_iff in Hu. destruct Hu as (u0 & <- & _).
    apply in_flat_map in Hu'. destruct Hu' as (i' & Hi' & Hu'). apply in_map_iff in Hu'.
    destruct Hu' as (u1 & He & _). inversion He; subst. contradiction.
Qed.

(* configuration of a tuple for the reversed list of lists *)
Definition candR (Ms : list (list oc)) (u : tuple) : oc :=
  fold_right (fun x r => uni r x) oc_empty (items Ms u).

Lemma seq_nth_map {A} (M : list A) d : M = map (fun i => nth i M d) (seq 0 (length M)).
Proof.
  induction M as [|x M IH]; [reflexivity|]. cbn [length seq map nth]. f_equal.
  rewrite <- seq_shift, map_map. exact IH.
Qed.

Lemma ocprod_tuples (Ms : list (list oc)) :
  ocprod Ms = map (candR Ms) (tuples (map (@length oc) Ms)).
Proof.
  induction Ms as [|M Ms IH]; [reflexivity|].
  change (ocprod (M :: Ms)) with (bprod uni M (ocprod Ms)). cbn [map tuples].
  unfold bprod. rewrite map_flat_map. rewrite (seq_nth_map M oc_empty) at 1. rewrite flat_map_map.
  apply flat_map_ext. intros i. rewrite IH, !map_map. apply map_ext. intros u. reflexivity.
Qed.

Lemma combine_rev {A B} (l : list A) (l' : list B) :
  length l = length l' -> rev (combine l l') = combine (rev l) (rev l').
Proof.
  revert l'. induction l as [|a l IH]; intros [|b l'] H; cbn in H; try discriminate; [reflexivity|].
  cbn [combine rev]. rewrite IH by lia. clear IH.
  assert (Hl : length (rev l) = length (rev l')) by (rewrite !rev_length; lia).
  revert Hl. generalize (rev l) (rev l'). intros r. induction r as [|x r IHr]; intros [|y r'] Hl; cbn in Hl; try discriminate; [reflexivity|].
  cbn. f_equal. apply IHr. lia.
Qed.

Lemma cand_of_candR Ls t : length t = length Ls -> cand_of Ls t = candR (rev Ls) (rev t).
Proof.
  intros Hl. unfold cand_of, candR. rewrite <- fold_left_rev_right. f_equal.
  unfold items. rewrite <- map_rev. f_equal. apply combine_rev. now symmetry.
Qed.

Definition all_tuples (Ls : list (list oc)) : list tuple :=
  map (@rev nat) (tuples (map (@length oc) (rev Ls))).

Lemma Forall2_rev_iff {A B} (P : A -> B -> Prop) l l' : Forall2 P (rev l) (rev l') <-> Forall2 P l l'.
Proof.
  split; intros H; [|now apply Forall2_rev_both].
  rewrite <- (rev_involutive l), <- (rev_involutive l'). now apply Forall2_rev_both.
Qed.

Lemma Forall2_map_r {A B D} (P : A -> D -> Prop) (f : B -> D) l l' :
  Forall2 P l (map f l') <-> Forall2 (fun a b => P a (f b)) l l'.
Proof.
  revert l. induction l' as [|b l' IH]; intros l; cbn; split; intros H; inversion H; subst; constructor; auto;
    now apply IH.
Qed.

Lemma in_all_tuples Ls t : In t (all_tuples Ls) <-> valid Ls t.
Proof.
  unfold all_tuples, valid. rewrite in_map_iff. split.
  - intros (u & <- & Hu). apply in_tuples in Hu. apply (proj1 (Forall2_map_r lt (@length oc) u (rev Ls))) in Hu.
    apply (proj1 (Forall2_rev_iff _ (rev u) Ls)). rewrite rev_involutive. exact Hu.
  - intros H. exists (rev t). split; [apply rev_involutive|]. apply in_tuples. apply (proj2 (Forall2_map_r lt (@length oc) (rev t) (rev Ls))).
    now apply Forall2_rev_both.
Qed.

Lemma all_tuples_NoDup Ls : NoDup (all_tuples Ls).
Proof.
  unfold all_tuples. apply NoDup_map_inj_on; [apply tuples_NoDup|].
  intros x y _ _ H. rewrite <- (rev_involutive x), <- (rev_involutive y). now rewrite H.
Qed.

Lemma all_tuples_cands Ls : map (cand_of Ls) (all_tuples Ls) = ocprod (rev Ls).
Proof.
  unfold all_tuples. rewrite ocprod_tuples, map_map. apply map_ext_in. intros u Hu.
  apply in_tuples in Hu. apply Forall2_len in Hu. rewrite map_length, rev_length in Hu.
  rewrite cand_of_candR by (now rewrite rev_length). now rewrite rev_involutive.
Qed.

(* the number of tuples is the product of the lengths *)
Lemma bprod_length {X} (op : X -> X -> X) (A B : list X) :
  length (bprod op A B) = (length A * length B)%nat.
Proof.
  unfold bprod. rewrite (flat_map_length_const _ _ (length B)); [reflexivity|].
  intros x _. apply map_length.
Qed.

Lemma ocprod_length (Ms : list (list oc)) : Z.of_nat (length (ocprod Ms)) = zprod (map zlen Ms).
Proof.
  induction Ms as [|M Ms IH]; [reflexivity|].
  change (ocprod (M :: Ms)) with (bprod uni M (ocprod Ms)). rewrite bprod_length. cbn [map].
  rewrite zprod_cons, <- IH. unfold zlen. lia.
Qed.

Lemma all_tuples_length Ls : Z.of_nat (length (all_tuples Ls)) = zprod (map zlen Ls).
Proof.
  rewrite <- (map_length (cand_of Ls)), all_tuples_cands, ocprod_length, map_rev. apply zprod_rev.
Qed.

Lemma ocprod_empty_factor (Ms : list (list oc)) : In [] Ms -> ocprod Ms = [].
Proof.
  induction Ms as [|M Ms IH]; intros H; [destruct H|].
  change (ocprod (M :: Ms)) with (bprod uni M (ocprod Ms)).
  destruct H as [->|H]; [reflexivity|]. rewrite (IH H). unfold bprod.
  induction M as [|x M IHM]; [reflexivity|]. cbn. exact IHM.
Qed.
