(* Generic facts about the bottom-up pass. *)
From Coq Require Import List ZArith Bool Lia.
From DD Require Import Model.Circuit.
Import ListNotations.

Section Pass.
Context {A : Type} (f : list A -> ntype -> A).

Lemma pass_gen_acc (C : circuit) (acc0 : list A) :
  fold_left (fun acc nd => acc ++ [f acc nd]) C acc0 =
  acc0 ++ fold_left (fun acc nd => acc ++ [f (acc0 ++ acc) nd]) C [].
Proof.
  revert acc0. induction C as [|nd C IH] using rev_ind; intros acc0.
  - cbn. now rewrite app_nil_r.
  - rewrite !fold_left_app. cbn [fold_left]. rewrite IH.
    now rewrite <- app_assoc.
Qed.

Lemma pass_snoc (C : circuit) (nd : ntype) :
  pass f (C ++ [nd]) = pass f C ++ [f (pass f C) nd].
Proof. unfold pass. now rewrite fold_left_app. Qed.

Lemma pass_nil : pass f [] = [].
Proof. reflexivity. Qed.

Lemma pass_length (C : circuit) : length (pass f C) = length C.
Proof.
  induction C as [|nd C IH] using rev_ind; [reflexivity|].
  rewrite pass_snoc, !app_length, IH. reflexivity.
Qed.

Lemma pass_app_prefix (C D : circuit) :
  exists R, pass f (C ++ D) = pass f C ++ R /\ length R = length D.
Proof.
  induction D as [|nd D IH] using rev_ind.
  - exists []. now rewrite !app_nil_r.
  - destruct IH as [R [HR HL]]. rewrite app_assoc, pass_snoc, HR.
    exists (R ++ [f (pass f C ++ R) nd]). rewrite <- app_assoc. split; [reflexivity|].
    rewrite !app_length, HL. reflexivity.
Qed.

Lemma pass_firstn (C : circuit) (i : nat) :
  pass f (firstn i C) = firstn i (pass f C).
Proof.
  destruct (Nat.le_gt_cases (length C) i) as [Hge|Hlt].
  - rewrite !firstn_all2; auto. now rewrite pass_length.
  - destruct (pass_app_prefix (firstn i C) (skipn i C)) as [R [HR _]].
    rewrite firstn_skipn in HR. rewrite HR. rewrite firstn_app.
    assert (Hl : length (pass f (firstn i C)) = i).
    { rewrite pass_length, firstn_length. lia. }
    rewrite Hl, Nat.sub_diag. cbn. rewrite app_nil_r.
    rewrite (firstn_all2 (n:=i) (pass f (firstn i C))); [reflexivity | lia].
Qed.

(* the value at position i *)
Lemma pass_nth (C : circuit) (i : nat) (d : A) (dn : ntype) :
  (i < length C)%nat ->
  nth i (pass f C) d = f (firstn i (pass f C)) (nth i C dn).
Proof.
  intros Hi.
  rewrite <- (firstn_skipn i C) at 1.
  destruct (skipn i C) as [|nd rest] eqn:Hs.
  - exfalso. apply (f_equal (@length _)) in Hs. rewrite skipn_length in Hs. cbn in Hs. lia.
  - assert (Hnd : nth i C dn = nd).
    { rewrite <- (firstn_skipn i C) at 1. rewrite app_nth2; rewrite firstn_length_le; try lia.
      rewrite Nat.sub_diag, Hs. reflexivity. }
    change (nd :: rest) with ([nd] ++ rest). rewrite app_assoc.
    destruct (pass_app_prefix (firstn i C ++ [nd]) rest) as [R [HR _]].
    rewrite HR, pass_snoc.
    assert (Hl : length (pass f (firstn i C)) = i).
    { rewrite pass_length, firstn_length. lia. }
    rewrite <- app_assoc. rewrite app_nth2; rewrite Hl; [|lia].
    rewrite Nat.sub_diag. cbn. now rewrite Hnd, pass_firstn.
Qed.

Lemma last_nth {B} (l : list B) (d : B) : last l d = nth (length l - 1) l d.
Proof.
  induction l as [|x l IH]; [reflexivity|].
  destruct l as [|y l]; [reflexivity|].
  change (last (x :: y :: l) d) with (last (y :: l) d). rewrite IH.
  cbn [length]. replace (S (S (length l)) - 1)%nat with (S (length l - 0))%nat by lia.
  cbn. now rewrite Nat.sub_0_r.
Qed.

End Pass.

(* nth into a prefix equals nth into the whole list below the cut *)
Lemma nth_firstn {B} (l : list B) (i c : nat) (d : B) :
  (c < i)%nat -> nth c (firstn i l) d = nth c l d.
Proof.
  revert i c. induction l as [|x l IH]; intros i c Hc.
  - now rewrite firstn_nil.
  - destruct i as [|i]; [lia|]. destruct c as [|c]; [reflexivity|].
    cbn. apply IH. lia.
Qed.

(* idx_ok gives: children of node i are < i *)
Lemma idx_ok_from_nth (C : circuit) (k i : nat) (dn : ntype) :
  idx_ok_from k C = true -> (i < length C)%nat ->
  forall c, In c (children (nth i C dn)) -> (c < k + i)%nat.
Proof.
  revert k i. induction C as [|nd C IH]; intros k i H Hi c Hc; [cbn in Hi; lia|].
  cbn in H. apply andb_true_iff in H. destruct H as [H1 H2].
  destruct i as [|i].
  - cbn in Hc. rewrite forallb_forall in H1. apply H1 in Hc.
    apply Nat.ltb_lt in Hc. lia.
  - cbn in Hc, Hi. specialize (IH (S k) i H2 ltac:(lia) c Hc). lia.
Qed.

Lemma idx_ok_nth (C : circuit) (i : nat) (dn : ntype) :
  idx_ok C = true -> (i < length C)%nat ->
  forall c, In c (children (nth i C dn)) -> (c < i)%nat.
Proof. intros H Hi c Hc. apply (idx_ok_from_nth C 0 i dn H Hi c Hc). Qed.

Lemma idx_ok_from_app (C D : circuit) (k : nat) :
  idx_ok_from k (C ++ D) = idx_ok_from k C && idx_ok_from (k + length C) D.
Proof.
  revert k. induction C as [|nd C IH]; intros k.
  - cbn. now rewrite Nat.add_0_r.
  - cbn [app idx_ok_from length]. rewrite IH. rewrite <- andb_assoc.
    replace (S k + length C)%nat with (k + S (length C))%nat by lia. reflexivity.
Qed.

Lemma idx_ok_snoc (C : circuit) (nd : ntype) :
  idx_ok (C ++ [nd]) = true ->
  idx_ok C = true /\ forall c, In c (children nd) -> (c < length C)%nat.
Proof.
  unfold idx_ok. rewrite idx_ok_from_app. cbn. rewrite andb_true_r.
  intros H. apply andb_true_iff in H. destruct H as [H1 H2]. split; [exact H1|].
  intros c Hc. rewrite forallb_forall in H2. apply H2 in Hc. now apply Nat.ltb_lt in Hc.
Qed.

(* Two passes related pointwise by a map. *)
Lemma pass_map {A B} (f : list A -> ntype -> A) (g : list B -> ntype -> B) (h : A -> B)
  (C : circuit) :
  (forall acc nd, h (f acc nd) = g (map h acc) nd) ->
  map h (pass f C) = pass g C.
Proof.
  intros H. induction C as [|nd C IH] using rev_ind; [reflexivity|].
  rewrite !pass_snoc, map_app, IH. cbn. now rewrite H, IH.
Qed.

(* Invariant by induction over a well-indexed vector. *)
Lemma pass_Forall {A} (f : list A -> ntype -> A) (P : A -> Prop) (C : circuit) :
  (forall acc nd, Forall P acc -> P (f acc nd)) ->
  Forall P (pass f C).
Proof.
  intros H. induction C as [|nd C IH] using rev_ind; [constructor|].
  rewrite pass_snoc. apply Forall_app. split; [exact IH|]. constructor; [|constructor].
  now apply H.
Qed.

(* A node function is local when it reads the accumulator only at the node's children.
   Then the value at i satisfies the global recursive equation. *)
Definition local {A} (f : list A -> ntype -> A) (d : A) : Prop :=
  forall acc acc' nd, (forall c, In c (children nd) -> nth c acc d = nth c acc' d) ->
                      f acc nd = f acc' nd.

Lemma pass_unfold {A} (f : list A -> ntype -> A) (d d' : A) (C : circuit) (i : nat) :
  local f d -> idx_ok C = true -> (i < length C)%nat ->
  nth i (pass f C) d' = f (pass f C) (nth i C FalseN).
Proof.
  intros Hloc Hok Hi. rewrite (pass_nth f C i d' FalseN Hi).
  apply Hloc. intros c Hc. apply nth_firstn.
  now apply (idx_ok_nth C i FalseN Hok Hi c Hc).
Qed.

Lemma map_nth_ext {A} (acc acc' : list A) (d : A) (cs : list nat) :
  (forall c, In c cs -> nth c acc d = nth c acc' d) ->
  map (fun c => nth c acc d) cs = map (fun c => nth c acc' d) cs.
Proof. intros H. apply map_ext_in. exact H. Qed.

Lemma count_node_local : local count_node 0.
Proof. intros acc acc' [l|cs|cs| |] H; cbn in *; try reflexivity; now rewrite (map_nth_ext acc acc'). Qed.

Lemma eval_node_local s : local (eval_node s) false.
Proof. intros acc acc' [l|cs|cs| |] H; cbn in *; try reflexivity; now rewrite (map_nth_ext acc acc'). Qed.

Lemma enum_node_local : local enum_node [].
Proof. intros acc acc' [l|cs|cs| |] H; cbn in *; try reflexivity; now rewrite (map_nth_ext acc acc'). Qed.

Lemma vars_node_local : local vars_node [].
Proof. intros acc acc' [l|cs|cs| |] H; cbn in *; try reflexivity; now rewrite (map_nth_ext acc acc'). Qed.

(* global recursive equations *)
Section Unfold.
Variable C : circuit.
Hypothesis Hok : idx_ok C = true.
Variable i : nat.
Hypothesis Hi : (i < length C)%nat.

Lemma counts_unfold d : nth i (counts C) d = count_node (counts C) (nth i C FalseN).
Proof. apply (pass_unfold count_node 0 d C i count_node_local Hok Hi). Qed.
Lemma evals_unfold s d : nth i (evals s C) d = eval_node s (evals s C) (nth i C FalseN).
Proof. apply (pass_unfold (eval_node s) false d C i (eval_node_local s) Hok Hi). Qed.
Lemma enums_unfold d : nth i (enums C) d = enum_node (enums C) (nth i C FalseN).
Proof. apply (pass_unfold enum_node [] d C i enum_node_local Hok Hi). Qed.
Lemma varss_unfold d : nth i (varss C) d = vars_node (varss C) (nth i C FalseN).
Proof. apply (pass_unfold vars_node [] d C i vars_node_local Hok Hi). Qed.
End Unfold.

(* strong induction over node indices *)
Lemma idx_induction (C : circuit) (P : nat -> Prop) :
  idx_ok C = true ->
  (forall i, (i < length C)%nat ->
     (forall c, In c (children (nth i C FalseN)) -> P c) -> P i) ->
  forall i, (i < length C)%nat -> P i.
Proof.
  intros Hok Hstep i. induction i as [i IH] using lt_wf_ind. intros Hi.
  apply Hstep; [exact Hi|]. intros c Hc.
  assert (c < i)%nat by now apply (idx_ok_nth C i FalseN Hok Hi c Hc).
  apply IH; lia.
Qed.
