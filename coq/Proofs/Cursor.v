(* Serialisability of the repaired reserve/compute protocol (C17). *)
From Coq Require Import List ZArith Bool Arith Lia Permutation.
From DD Require Import Model.Cursor.
Import ListNotations.

(* ---------- small list facts ---------- *)
Lemma key_eqb_refl : forall k, key_eqb k k = true.
Proof. intros k. unfold key_eqb. destruct (list_eq_dec Z.eq_dec k k) as [_|N]; [reflexivity|contradiction]. Qed.

Lemma key_eqb_eq : forall a b, key_eqb a b = true <-> a = b.
Proof.
  intros a b. unfold key_eqb. destruct (list_eq_dec Z.eq_dec a b) as [E|N]; split; intro H; try reflexivity; try assumption.
  - discriminate.
  - contradiction.
Qed.

Lemma upd_same : forall cur k v, upd cur k v k = v.
Proof. intros. unfold upd. rewrite key_eqb_refl. reflexivity. Qed.

Lemma upd_other : forall cur k v k', k <> k' -> upd cur k v k' = cur k'.
Proof.
  intros cur k v k' N. unfold upd. destruct (key_eqb k k') eqn:E; [|reflexivity].
  apply key_eqb_eq in E. contradiction.
Qed.

Lemma length_set_nth : forall A i (x : A) l, length (set_nth i x l) = length l.
Proof.
  intros A i x l. revert i. induction l as [|h t IH]; intros i; [destruct i; reflexivity|].
  destruct i as [|j]; cbn [set_nth length]; [reflexivity|]. rewrite IH. reflexivity.
Qed.

Lemma nth_set_nth_eq : forall A i (x : A) l d, i < length l -> nth i (set_nth i x l) d = x.
Proof.
  intros A i x l d. revert i. induction l as [|h t IH]; intros i Hi; cbn [length] in Hi; [lia|].
  destruct i as [|j]; cbn [set_nth nth]; [reflexivity|]. apply IH. lia.
Qed.

Lemma nth_set_nth_neq : forall A i j (x : A) l d, i <> j -> nth j (set_nth i x l) d = nth j l d.
Proof.
  intros A i j x l d. revert i j. induction l as [|h t IH]; intros i j N; [destruct i; reflexivity|].
  destruct i as [|i']; destruct j as [|j']; cbn [set_nth nth]; try reflexivity.
  - contradiction.
  - apply IH. lia.
Qed.

Lemma nth_error_nth' : forall A (l : list A) i x d, nth_error l i = Some x -> nth i l d = x /\ i < length l.
Proof.
  intros A l i x d H. split.
  - apply nth_error_nth. exact H.
  - apply nth_error_Some. rewrite H. discriminate.
Qed.

Lemma NoDup_snoc : forall A (l : list A) x, NoDup l -> ~ In x l -> NoDup (l ++ [x]).
Proof.
  intros A l x ND. induction ND as [|h t Hh ND IH]; intros NI; cbn [app].
  - constructor; [intros []|constructor].
  - constructor.
    + intros Hin. apply in_app_or in Hin. destruct Hin as [Hin|[E|[]]]; [contradiction|].
      apply NI. left. symmetry. exact E.
    + apply IH. intros Hin. apply NI. right. exact Hin.
Qed.

Lemma select_app : forall A (d : A) l a b, select d l (a ++ b) = select d l a ++ select d l b.
Proof. intros. unfold select. apply map_app. Qed.

Lemma select_single : forall A (d : A) l i, select d l [i] = [nth i l d].
Proof. reflexivity. Qed.

Lemma select_seq_all : forall A (d : A) l, select d l (seq 0 (length l)) = l.
Proof.
  intros A d l. unfold select. induction l as [|h t IH]; [reflexivity|].
  cbn [length seq map nth]. f_equal. rewrite <- seq_shift, map_map. exact IH.
Qed.

(* ---------- the executable step function is the step relation ---------- *)
Lemma r_exec_step : forall cnt reqs st e st',
  r_exec cnt reqs st e = Some st' <-> r_step cnt reqs st e st'.
Proof.
  intros cnt reqs st e st'. split.
  - intros H. destruct e as [i|i]; cbn [r_exec] in H.
    + destruct (nth_error reqs i) as [r|] eqn:Er; [|discriminate].
      destruct (nth_error (r_pcs st) i) as [[|s e|s e]|] eqn:Ep; try discriminate.
      injection H as <-. apply RS_reserve; assumption.
    + destruct (nth_error (r_pcs st) i) as [[|s e|s e]|] eqn:Ep; try discriminate.
      injection H as <-. apply RS_compute; assumption.
  - intros H. destruct H as [st i r Er Ep|st i s e Ep]; cbn [r_exec]; rewrite ?Er, Ep; reflexivity.
Qed.

Lemma valid_event_step : forall cnt reqs st e,
  valid_event cnt reqs st e = true <-> exists st', r_step cnt reqs st e st'.
Proof.
  intros cnt reqs st e. unfold valid_event. split.
  - destruct (r_exec cnt reqs st e) as [st'|] eqn:E; [|discriminate].
    intros _. exists st'. apply r_exec_step. exact E.
  - intros [st' H]. apply r_exec_step in H. rewrite H. reflexivity.
Qed.

Lemma r_exec_all_run : forall cnt reqs es st st',
  r_exec_all cnt reqs st es = Some st' <-> r_run cnt reqs st es st'.
Proof.
  intros cnt reqs es. induction es as [|e t IH] using rev_ind; intros st st'.
  - cbn [r_exec_all]. split.
    + intros H. injection H as <-. constructor.
    + intros H. inversion H as [|? es ? e ? ? ? E]; [reflexivity|]. destruct es; discriminate.
  - assert (Happ : forall es1 st0, r_exec_all cnt reqs st0 (es1 ++ [e]) =
                    match r_exec_all cnt reqs st0 es1 with Some s1 => r_exec cnt reqs s1 e | None => None end).
    { clear. induction es1 as [|a es1 IH1]; intros st0; cbn [app r_exec_all].
      - destruct (r_exec cnt reqs st0 e); reflexivity.
      - destruct (r_exec cnt reqs st0 a); [apply IH1|reflexivity]. }
    rewrite Happ. split.
    + destruct (r_exec_all cnt reqs st t) as [s1|] eqn:E1; [|discriminate].
      intros H. apply RR_snoc with (st1 := s1); [apply IH; exact E1|apply r_exec_step; exact H].
    + intros H. inversion H as [|st0 es st1 e' st2 Hr Hs].
      * destruct t; discriminate.
      * match goal with E : _ ++ [_] = _ ++ [_] |- _ => apply app_inj_tail in E; destruct E as [E1 E2] end.
        subst es e'. apply IH in Hr. rewrite Hr. apply r_exec_step. exact Hs.
Qed.

(* ---------- sequential runs, one more request at the end ---------- *)
Lemma seq_exec_snoc : forall cnt rs cur r,
  seq_exec cnt cur (rs ++ [r]) =
  (fst (seq_step cnt (fst (seq_exec cnt cur rs)) r),
   snd (seq_exec cnt cur rs) ++ [snd (seq_step cnt (fst (seq_exec cnt cur rs)) r)]).
Proof.
  intros cnt rs. induction rs as [|a t IH]; intros cur r.
  - cbn [app seq_exec fst snd]. destruct (seq_step cnt cur r) as [c1 p]. reflexivity.
  - cbn [app seq_exec]. destruct (seq_step cnt cur a) as [c1 p]. rewrite IH.
    destruct (seq_exec cnt c1 t) as [c2 l]. cbn [fst snd app]. reflexivity.
Qed.

Lemma reserve_order_app : forall a b, reserve_order (a ++ b) = reserve_order a ++ reserve_order b.
Proof.
  induction a as [|[i|i] t IH]; intros b; cbn [app reserve_order]; [reflexivity| |apply IH].
  rewrite IH. reflexivity.
Qed.

(* ---------- the invariant ---------- *)
Definition rinv (cnt : key -> nat) (reqs : list request) (cur0 : cursor) (st : rstate) (ro : list nat) : Prop :=
  length (r_pcs st) = length reqs /\
  NoDup ro /\
  (forall i, In i ro -> i < length reqs /\ nth i (r_pcs st) RIdle <> RIdle) /\
  (forall i, i < length reqs -> ~ In i ro -> nth i (r_pcs st) RIdle = RIdle) /\
  (forall k, seq_cursor cnt cur0 (select dreq reqs ro) k = r_cur st k) /\
  seq_run cnt cur0 (select dreq reqs ro) = select [] (r_answers st) ro.

Lemma nth_r_answers : forall st i, nth i (r_answers st) [] = rpc_page (nth i (r_pcs st) RIdle).
Proof. intros st i. unfold r_answers. change (@nil nat) with (rpc_page RIdle). apply map_nth. Qed.

Lemma rinv_init : forall cnt reqs cur0, rinv cnt reqs cur0 (r_init cur0 reqs) [].
Proof.
  intros cnt reqs cur0. unfold rinv, r_init. cbn [r_pcs r_cur]. repeat split.
  - apply map_length.
  - constructor.
  - destruct H.
  - destruct H.
  - intros i Hi _. clear Hi. revert i. induction reqs as [|r t IH]; intros i; destruct i; cbn [map nth]; try reflexivity. apply IH.
Qed.

Lemma rinv_step : forall cnt reqs cur0 st ro e st',
  rinv cnt reqs cur0 st ro -> r_step cnt reqs st e st' ->
  rinv cnt reqs cur0 st' (ro ++ reserve_order [e]).
Proof.
  intros cnt reqs cur0 st ro e st' (Hlen & Hnd & Hin & Hout & Hcur & Hans) Hs.
  destruct Hs as [st i r Er Ep|st i s e Ep].
  - (* reserve *)
    cbn [reserve_order].
    destruct (nth_error_nth' _ _ _ _ dreq Er) as [Enr Hi].
    destruct (nth_error_nth' _ _ _ _ RIdle Ep) as [Enp Hip].
    assert (Hni : ~ In i ro). { intros Hi'. apply Hin in Hi'. destruct Hi' as [_ Hne]. apply Hne. exact Enp. }
    unfold rinv. cbn [r_pcs r_cur]. repeat split.
    + rewrite length_set_nth. exact Hlen.
    + apply NoDup_snoc; assumption.
    + apply in_app_or in H. destruct H as [H|[<-|[]]]; [apply Hin; exact H|exact Hi].
    + apply in_app_or in H. destruct H as [H|[<-|[]]].
      * assert (Hne : i <> i0) by (intros ->; contradiction).
        rewrite nth_set_nth_neq by exact Hne. apply Hin. exact H.
      * rewrite nth_set_nth_eq by exact Hip. discriminate.
    + intros j Hj Hnj. assert (Hne : i <> j). { intros ->. apply Hnj. apply in_or_app. right. left. reflexivity. }
      rewrite nth_set_nth_neq by exact Hne. apply Hout; [exact Hj|].
      intros Hjr. apply Hnj. apply in_or_app. left. exact Hjr.
    + intros k. unfold seq_cursor. rewrite select_app, select_single, seq_exec_snoc. cbn [fst].
      rewrite Enr. unfold seq_step. cbn [fst].
      fold (seq_cursor cnt cur0 (select dreq reqs ro)).
      unfold upd. rewrite (Hcur (rkey r)). destruct (key_eqb (rkey r) k); [reflexivity|apply Hcur].
    + unfold seq_run. rewrite !select_app, !select_single, seq_exec_snoc. cbn [snd].
      fold (seq_run cnt cur0 (select dreq reqs ro)). fold (seq_cursor cnt cur0 (select dreq reqs ro)).
      rewrite Hans. f_equal.
      * unfold select. apply map_ext_in. intros j Hj.
        rewrite !nth_r_answers. cbn [r_pcs].
        assert (Hne : i <> j) by (intros ->; contradiction).
        rewrite nth_set_nth_neq by exact Hne. reflexivity.
      * rewrite Enr, nth_r_answers. cbn [r_pcs].
        rewrite nth_set_nth_eq by exact Hip. unfold seq_step. cbn [snd rpc_page].
        rewrite (Hcur (rkey r)). reflexivity.
  - (* compute *)
    cbn [reserve_order]. rewrite app_nil_r.
    destruct (nth_error_nth' _ _ _ _ RIdle Ep) as [Enp Hip].
    assert (Hpage : forall j, rpc_page (nth j (set_nth i (RDone s e) (r_pcs st)) RIdle) = rpc_page (nth j (r_pcs st) RIdle)).
    { intros j. destruct (Nat.eq_dec i j) as [<-|Hne].
      - rewrite nth_set_nth_eq by exact Hip. rewrite Enp. reflexivity.
      - rewrite nth_set_nth_neq by exact Hne. reflexivity. }
    assert (Hidle : forall j, nth j (set_nth i (RDone s e) (r_pcs st)) RIdle = RIdle <-> nth j (r_pcs st) RIdle = RIdle).
    { intros j. destruct (Nat.eq_dec i j) as [<-|Hne].
      - rewrite nth_set_nth_eq by exact Hip. rewrite Enp. split; discriminate.
      - rewrite nth_set_nth_neq by exact Hne. reflexivity. }
    unfold rinv. cbn [r_pcs r_cur]. repeat split.
    + rewrite length_set_nth. exact Hlen.
    + exact Hnd.
    + apply Hin. exact H.
    + intros Hc. apply Hidle in Hc. revert Hc. apply Hin. exact H.
    + intros j Hj Hnj. apply Hidle. apply Hout; assumption.
    + exact Hcur.
    + rewrite Hans. unfold select. apply map_ext. intros j. rewrite !nth_r_answers. cbn [r_pcs].
      symmetry. apply Hpage.
Qed.

Lemma rinv_run : forall cnt reqs cur0 es st,
  r_run cnt reqs (r_init cur0 reqs) es st -> rinv cnt reqs cur0 st (reserve_order es).
Proof.
  intros cnt reqs cur0 es st H. remember (r_init cur0 reqs) as st0 eqn:E0.
  induction H as [st|st es st1 e st2 Hr IH Hs].
  - subst st. apply rinv_init.
  - rewrite reserve_order_app. apply rinv_step with (st := st1); [apply IH; exact E0|exact Hs].
Qed.

(* ---------- serialisability ---------- *)
Theorem serialisable : forall cnt reqs cur0 es st,
  r_run cnt reqs (r_init cur0 reqs) es st -> r_complete st = true ->
  let ord := reserve_order es in
  Permutation ord (seq 0 (length reqs)) /\
  Permutation (select dreq reqs ord) reqs /\
  seq_run cnt cur0 (select dreq reqs ord) = select [] (r_answers st) ord /\
  (forall k, seq_cursor cnt cur0 (select dreq reqs ord) k = r_cur st k).
Proof.
  intros cnt reqs cur0 es st Hrun Hc ord. subst ord.
  destruct (rinv_run _ _ _ _ _ Hrun) as (Hlen & Hnd & Hin & Hout & Hcur & Hans).
  assert (Hperm : Permutation (reserve_order es) (seq 0 (length reqs))).
  { apply NoDup_Permutation; [exact Hnd|apply seq_NoDup|].
    intros i. rewrite in_seq. split.
    - intros Hi. apply Hin in Hi. lia.
    - intros [_ Hi]. cbn [plus] in Hi.
      destruct (in_dec Nat.eq_dec i (reserve_order es)) as [Y|N]; [exact Y|exfalso].
      pose proof (Hout i Hi N) as Hidle.
      unfold r_complete in Hc. rewrite forallb_forall in Hc.
      assert (Hd : rpc_done (nth i (r_pcs st) RIdle) = true).
      { apply Hc. apply nth_In. rewrite Hlen. exact Hi. }
      rewrite Hidle in Hd. discriminate. }
  split; [exact Hperm|]. split; [|split; assumption].
  rewrite <- (select_seq_all _ dreq reqs) at 2. unfold select. apply Permutation_map. exact Hperm.
Qed.

Theorem serialisable_exists : forall cnt reqs cur0 es st,
  r_run cnt reqs (r_init cur0 reqs) es st -> r_complete st = true ->
  exists ord : list nat,
    Permutation ord (seq 0 (length reqs)) /\
    Permutation (select dreq reqs ord) reqs /\
    seq_run cnt cur0 (select dreq reqs ord) = select [] (r_answers st) ord /\
    (forall k, seq_cursor cnt cur0 (select dreq reqs ord) k = r_cur st k).
Proof.
  intros cnt reqs cur0 es st Hrun Hc. exists (reserve_order es). apply serialisable; assumption.
Qed.
