(* The bridge between the algorithms' world (counts) and the truth-table world (Models):
   the unbounded enumeration enum. *)
From Coq Require Import List ZArith Bool Lia Permutation.
From DD Require Import Model.Circuit Proofs.PassLemmas.
Import ListNotations.

Definition sat_cfg (s : asg) (c : cfg) : bool := forallb (lit_true s) c.

Lemma sat_cfg_app s x r : sat_cfg s (x ++ r) = sat_cfg s x && sat_cfg s r.
Proof. unfold sat_cfg. apply forallb_app. Qed.

(* ---------- list facts about prod / concat ---------- *)

Definition nprod (l : list nat) : nat := fold_right Nat.mul 1%nat l.
Definition nsum (l : list nat) : nat := fold_right Nat.add 0%nat l.

Lemma flat_map_length_const {A B} (f : A -> list B) (l : list A) (k : nat) :
  (forall x, In x l -> length (f x) = k) -> length (flat_map f l) = (length l * k)%nat.
Proof.
  induction l as [|x l IH]; intros H; [reflexivity|].
  cbn. rewrite app_length, IH, H; [lia|now left|]. intros y Hy. apply H. now right.
Qed.

Lemma prod_length (Ls : list (list cfg)) :
  length (prod Ls) = nprod (map (@length cfg) Ls).
Proof.
  induction Ls as [|L Ls IH]; [reflexivity|].
  cbn [prod map nprod fold_right]. rewrite (flat_map_length_const _ _ (length (prod Ls))).
  - now rewrite IH.
  - intros x _. now rewrite map_length.
Qed.

Lemma concat_length {A} (Ls : list (list A)) :
  length (concat Ls) = nsum (map (@length A) Ls).
Proof. induction Ls as [|L Ls IH]; [reflexivity|]. cbn. now rewrite app_length, IH. Qed.

Lemma zprod_cons x l : zprod (x :: l) = x * zprod l.
Proof. reflexivity. Qed.
Lemma zsum_cons x l : zsum (x :: l) = x + zsum l.
Proof. reflexivity. Qed.
Lemma zprod_app l1 l2 : zprod (l1 ++ l2) = zprod l1 * zprod l2.
Proof.
  induction l1 as [|x l1 IH]; [change (zprod []) with 1; cbn [app]; lia|].
  cbn [app]. rewrite !zprod_cons, IH. lia.
Qed.
Lemma zprod_rev l : zprod (rev l) = zprod l.
Proof.
  induction l as [|x l IH]; [reflexivity|]. cbn [rev].
  rewrite zprod_app, IH, !zprod_cons. change (zprod []) with 1. lia.
Qed.
Lemma zprod_of_nat (l : list nat) : zprod (map Z.of_nat l) = Z.of_nat (nprod l).
Proof.
  induction l as [|x l IH]; [reflexivity|]. cbn [map]. rewrite zprod_cons, IH.
  change (nprod (x :: l)) with (x * nprod l)%nat. lia.
Qed.
Lemma zsum_of_nat (l : list nat) : zsum (map Z.of_nat l) = Z.of_nat (nsum l).
Proof.
  induction l as [|x l IH]; [reflexivity|]. cbn [map]. rewrite zsum_cons, IH.
  change (nsum (x :: l)) with (x + nsum l)%nat. lia.
Qed.

(* predicates that are multiplicative over concatenation commute with prod *)
Lemma filter_flat_map {A B} (p : B -> bool) (f : A -> list B) (l : list A) :
  filter p (flat_map f l) = flat_map (fun x => filter p (f x)) l.
Proof. induction l as [|x l IH]; [reflexivity|]. cbn. now rewrite filter_app, IH. Qed.

Lemma filter_map_comm {A B} (p : B -> bool) (f : A -> B) (l : list A) :
  filter p (map f l) = map f (filter (fun x => p (f x)) l).
Proof. induction l as [|x l IH]; [reflexivity|]. cbn. destruct (p (f x)); cbn; now rewrite IH. Qed.

Lemma flat_map_filter {A B} (p : A -> bool) (f : A -> list B) (l : list A) :
  flat_map f (filter p l) = flat_map (fun x => if p x then f x else []) l.
Proof. induction l as [|x l IH]; [reflexivity|]. cbn. destruct (p x); cbn; now rewrite IH. Qed.

Lemma filter_prod (p : cfg -> bool) (Ls : list (list cfg)) :
  p [] = true -> (forall x r, p (x ++ r) = p x && p r) ->
  filter p (prod Ls) = prod (map (filter p) Ls).
Proof.
  intros Hnil Happ. induction Ls as [|L Ls IH]; [cbn; now rewrite Hnil|].
  cbn [prod map]. rewrite filter_flat_map, flat_map_filter.
  apply flat_map_ext. intros x.
  rewrite filter_map_comm. destruct (p x) eqn:Hx.
  - rewrite <- IH. f_equal. apply filter_ext. intros r. now rewrite Happ, Hx.
  - replace (filter (fun r => p (x ++ r)) (prod Ls)) with (@nil cfg); [reflexivity|].
    symmetry. clear IH. induction (prod Ls) as [|r R IHR]; [reflexivity|]. cbn. rewrite Happ, Hx. cbn. exact IHR.
Qed.

Lemma filter_concat {A} (p : A -> bool) (Ls : list (list A)) :
  filter p (concat Ls) = concat (map (filter p) Ls).
Proof. induction Ls as [|L Ls IH]; [reflexivity|]. cbn. now rewrite filter_app, IH. Qed.

Lemma filter_rev {A} (p : A -> bool) (l : list A) : filter p (rev l) = rev (filter p l).
Proof.
  induction l as [|x l IH]; [reflexivity|]. cbn. rewrite filter_app, IH. cbn.
  destruct (p x); cbn; [reflexivity|now rewrite app_nil_r].
Qed.

Lemma existsb_map_app (p : cfg -> bool) (x : cfg) (R : list cfg) :
  (forall x r, p (x ++ r) = p x && p r) ->
  existsb p (map (fun r => x ++ r) R) = p x && existsb p R.
Proof.
  intros Happ. induction R as [|r R IHR]; [now rewrite andb_false_r|].
  cbn. rewrite IHR, Happ. destruct (p x), (p r), (existsb p R); reflexivity.
Qed.

Lemma existsb_prod (p : cfg -> bool) (Ls : list (list cfg)) :
  p [] = true -> (forall x r, p (x ++ r) = p x && p r) ->
  existsb p (prod Ls) = forallb (existsb p) Ls.
Proof.
  intros Hnil Happ. induction Ls as [|L Ls IH]; [cbn; now rewrite Hnil|].
  cbn [prod forallb]. rewrite <- IH. clear IH.
  induction L as [|x L IHL]; [reflexivity|].
  cbn [flat_map existsb]. rewrite existsb_app, IHL, existsb_map_app by exact Happ.
  destruct (p x), (existsb p L), (existsb p (prod Ls)); reflexivity.
Qed.

Lemma existsb_concat {A} (p : A -> bool) (Ls : list (list A)) :
  existsb p (concat Ls) = existsb (existsb p) Ls.
Proof. induction Ls as [|L Ls IH]; [reflexivity|]. cbn. now rewrite existsb_app, IH. Qed.

Lemma forallb_rev {A} (p : A -> bool) (l : list A) : forallb p (rev l) = forallb p l.
Proof.
  induction l as [|x l IH]; [reflexivity|]. cbn. rewrite forallb_app, IH. cbn.
  destruct (p x), (forallb p l); reflexivity.
Qed.

Lemma forallb_map {A B} (p : B -> bool) (f : A -> B) l :
  forallb p (map f l) = forallb (fun x => p (f x)) l.
Proof. induction l as [|x l IH]; [reflexivity|]. cbn. now rewrite IH. Qed.
Lemma existsb_map {A B} (p : B -> bool) (f : A -> B) l :
  existsb p (map f l) = existsb (fun x => p (f x)) l.
Proof. induction l as [|x l IH]; [reflexivity|]. cbn. now rewrite IH. Qed.

(* ---------- length enum = count (no hypothesis) ---------- *)

Lemma enum_node_count (acc : list (list cfg)) (nd : ntype) :
  Z.of_nat (length (enum_node acc nd)) =
  count_node (map (fun L => Z.of_nat (length L)) acc) nd.
Proof.
  assert (Hnth : forall cs, map (fun c => nth c (map (fun L : list cfg => Z.of_nat (length L)) acc) 0) cs
                     = map Z.of_nat (map (@length cfg) (map (fun c => nth c acc []) cs))).
  { intros cs. rewrite !map_map. apply map_ext. intros c.
    exact (map_nth (fun L : list cfg => Z.of_nat (length L)) acc [] c). }
  destruct nd as [l|cs|cs| |]; cbn [enum_node count_node]; try reflexivity.
  - rewrite Hnth, zprod_of_nat. f_equal. rewrite prod_length, map_rev.
    apply Nat2Z.inj. rewrite <- !zprod_of_nat, map_rev. apply zprod_rev.
  - rewrite Hnth, zsum_of_nat. f_equal. apply concat_length.
Qed.

Theorem enums_counts (C : circuit) :
  map (fun L => Z.of_nat (length L)) (enums C) = counts C.
Proof. apply pass_map. apply enum_node_count. Qed.

Lemma enum_count_nth (C : circuit) (i : nat) :
  Z.of_nat (length (nth i (enums C) [])) = nth i (counts C) 0.
Proof.
  rewrite <- enums_counts. symmetry.
  exact (map_nth (fun L : list cfg => Z.of_nat (length L)) (enums C) [] i).
Qed.

Lemma last_map {A B} (f : A -> B) (l : list A) (d : A) : last (map f l) (f d) = f (last l d).
Proof.
  induction l as [|x l IH]; [reflexivity|]. destruct l as [|y l]; [reflexivity|].
  change (map f (x :: y :: l)) with (f x :: map f (y :: l)).
  change (last (x :: y :: l) d) with (last (y :: l) d). rewrite <- IH. reflexivity.
Qed.

Theorem enum_root_count (C : circuit) :
  Z.of_nat (length (enum_root C)) = root_count C.
Proof.
  unfold enum_root, root_count. rewrite <- enums_counts.
  symmetry. exact (last_map (fun L : list cfg => Z.of_nat (length L)) (enums C) []).
Qed.

(* ---------- eval = some enumerated configuration is satisfied (no hypothesis) ---------- *)

Lemma enum_node_eval (s : asg) (acc : list (list cfg)) (nd : ntype) :
  existsb (sat_cfg s) (enum_node acc nd) =
  eval_node s (map (existsb (sat_cfg s)) acc) nd.
Proof.
  assert (Hnth : forall cs, map (fun c => nth c (map (existsb (sat_cfg s)) acc) false) cs
                     = map (existsb (sat_cfg s)) (map (fun c => nth c acc []) cs)).
  { intros cs. rewrite !map_map. apply map_ext. intros c.
    exact (map_nth (existsb (sat_cfg s)) acc [] c). }
  destruct nd as [l|cs|cs| |]; cbn [enum_node eval_node]; try reflexivity.
  - cbn. now rewrite andb_true_r, orb_false_r.
  - rewrite Hnth. rewrite existsb_prod; [|reflexivity|apply sat_cfg_app].
    rewrite forallb_rev, !forallb_map. reflexivity.
  - rewrite Hnth. rewrite existsb_concat, !existsb_map. reflexivity.
Qed.

Theorem enums_evals (s : asg) (C : circuit) :
  map (existsb (sat_cfg s)) (enums C) = evals s C.
Proof. apply pass_map. apply enum_node_eval. Qed.

Lemma eval_enum_nth s C i :
  nth i (evals s C) false = existsb (sat_cfg s) (nth i (enums C) []).
Proof.
  rewrite <- enums_evals. exact (map_nth (existsb (sat_cfg s)) (enums C) [] i).
Qed.

Theorem eval_root_enum s C : eval_root s C = existsb (sat_cfg s) (enum_root C).
Proof.
  unfold eval_root, enum_root. rewrite <- enums_evals.
  exact (last_map (existsb (sat_cfg s)) (enums C) []).
Qed.
