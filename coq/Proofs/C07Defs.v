(* C07: the contract of the random primitives, as an executable check of how sample_node
   consumes a choice stream.

   sample_node_c is sample_node (Model/Enumerate.v) with ONE additional boolean, the contract flag:
     - every Split v consumed at an Or node with children cs and requested amount k satisfies
       split_ok: one entry per child, all entries >= 0, the entries sum to k, and the entry of a
       child with temp 0 is 0                       (Binomial / WeightedAliasIndex contract);
     - every Perm p consumed is a permutation of 0..length p-1 (is_perm)  (SliceRandom::shuffle).
   The first three components are exactly sample_node (sample_node_c_proj).
   choices_ok = the model's own ok flag (the stream has the right shape: a Split where an Or asks
   for one, a Perm of the right length after every shuffle, not exhausted) and the contract flag. *)
From Coq Require Import List ZArith Bool Lia.
From DD Require Import Model.Circuit Model.Query Model.Enumerate.
Import ListNotations.
Open Scope Z_scope.

Definition split_ok (ts : list Z) (cs : list nat) (v : list Z) (amount : Z) : bool :=
  Nat.eqb (length v) (length cs)
  && forallb (fun x => 0 <=? x) v
  && (zsum v =? amount)
  && forallb (fun cx => negb (nth (fst cx) ts 0 =? 0) || (snd cx =? 0)) (combine cs v).

Fixpoint sample_node_c (d : ddnnf) (ts : list Z) (fuel : nat) (amount : Z) (i : nat)
         (chs : list choice) : list cfg * list choice * bool * bool :=
  match fuel with
  | O => ([], chs, false, true)
  | S f =>
    if amount =? 0 then ([], chs, true, true)
    else
      match nth i (circ d) FalseN with
      | And cs =>
        fold_left (fun (st : list cfg * list choice * bool * bool) c =>
                     let '(acc, chs1, ok, ct) := st in
                     let '(l, chs2, ok2, ct2) := sample_node_c d ts f amount c chs1 in
                     match take_choice chs2 with
                     | (Some (Perm p), chs3) =>
                       (stitch acc (apply_perm p l []), chs3,
                        ok && ok2 && Nat.eqb (length p) (length l), ct && ct2 && is_perm p)
                     | (_, chs3) => (acc, chs3, false, ct && ct2)
                     end)
                  cs (repeat_n [] (Z.to_nat amount), chs, true, true)
      | Or cs =>
        match take_choice chs with
        | (Some (Split v), chs1) =>
          let '(l, chs2, ok, _, ct) :=
            fold_left (fun (st : list cfg * list choice * bool * nat * bool) c =>
                         let '(l, chs2, ok, k, ct) := st in
                         if nth c ts 0 =? 0 then (l, chs2, ok, S k, ct)
                         else
                           let '(l', chs3, ok3, ct3) := sample_node_c d ts f (nth k v 0) c chs2 in
                           (l ++ l', chs3, ok && ok3, S k, ct && ct3))
                      cs ([], chs1, Nat.eqb (length v) (length cs), O, split_ok ts cs v amount) in
          let padded := l ++ repeat_n [] (Z.to_nat amount - length l) in
          match take_choice chs2 with
          | (Some (Perm p), chs3) =>
            (apply_perm p padded [], chs3, ok && Nat.eqb (length p) (length padded), ct && is_perm p)
          | (_, chs3) => (padded, chs3, false, ct)
          end
        | (_, chs1) => ([], chs1, false, true)
        end
      | Lit l => (repeat_n [l] (Z.to_nat amount), chs, true, true)
      | _ => ([], chs, true, true)
      end
  end.

Definition choices_okb (d : ddnnf) (ts : list Z) (fuel : nat) (amount : Z) (i : nat)
           (chs : list choice) : bool :=
  let '(_, _, ok, ct) := sample_node_c d ts fuel amount i chs in ok && ct.

Definition choices_ok d ts fuel amount i chs : Prop := choices_okb d ts fuel amount i chs = true.

(* the whole stream is consumed (uniform_random_sampling's ok flag asks for that, too) *)
Definition choices_all_used (d : ddnnf) (ts : list Z) (fuel : nat) (amount : Z) (i : nat)
           (chs : list choice) : bool :=
  let '(_, rest, _, _) := sample_node_c d ts fuel amount i chs in
  match rest with [] => true | _ => false end.

(* the contract, for the stream handed to uniform_random_sampling *)
Definition urs_choices_okb (d : ddnnf) (A : cfg) (amount : Z) (chs : list choice) (s : scratch) : bool :=
  match preprocess d A s with
  | None => true
  | Some s1 =>
    let '(s2, r) := execute_query d A s1 in
    if 0 <? r then choices_okb d (temps s2) (length (circ d)) amount (rootn d) chs else true
  end.

(* ---- sample_node_c is sample_node plus one flag ---- *)

Lemma fold_left_rel {A B X} (R : A -> B -> Prop) (f : A -> X -> A) (g : B -> X -> B) (l : list X) :
  (forall a b x, In x l -> R a b -> R (f a x) (g b x)) ->
  forall a b, R a b -> R (fold_left f l a) (fold_left g l b).
Proof.
  induction l as [|x l IH]; intros Hstep a b Hab; [exact Hab|].
  cbn [fold_left]. apply IH.
  - intros a' b' y Hy. apply Hstep. now right.
  - apply Hstep; [now left|exact Hab].
Qed.

Lemma sample_node_c_proj d ts fuel : forall amount i chs,
  fst (sample_node_c d ts fuel amount i chs) = sample_node d ts fuel amount i chs.
Proof.
  induction fuel as [|f IH]; intros amount i chs; [reflexivity|].
  cbn [sample_node_c sample_node].
  destruct (amount =? 0); [reflexivity|].
  destruct (nth i (circ d) FalseN) as [l|cs|cs| |]; try reflexivity.
  - (* And *)
    apply (fold_left_rel (fun a b => fst a = b)); [|reflexivity].
    intros [[[acc chs1] ok] ct] b c _ Hab. cbn [fst] in Hab. subst b.
    rewrite <- (IH amount c chs1).
    destruct (sample_node_c d ts f amount c chs1) as [[[l chs2] ok2] ct2]. cbn [fst].
    destruct (take_choice chs2) as [[[v|p]|] chs3]; reflexivity.
  - (* Or *)
    destruct (take_choice chs) as [[[v|p]|] chs1]; try reflexivity.
    set (X := fold_left _ cs ([], chs1, _, O, _)).
    set (Y := fold_left _ cs ([], chs1, _, O)).
    assert (Hrel : fst X = Y).
    { subst X Y.
      apply (fold_left_rel (fun (a : list cfg * list choice * bool * nat * bool) b => fst a = b)); [|reflexivity].
      intros [[[[l chs2] ok] k] ct] b c _ Hab. cbn [fst] in Hab. subst b.
      destruct (nth c ts 0 =? 0); [reflexivity|].
      rewrite <- (IH (nth k v 0) c chs2).
      destruct (sample_node_c d ts f (nth k v 0) c chs2) as [[[l' chs3] ok3] ct3]. reflexivity. }
    clearbody X Y. destruct X as [[[[l chs2] ok] k] ct]. cbn [fst] in Hrel. subst Y.
    destruct (take_choice chs2) as [[[v'|p]|] chs3]; reflexivity.
Qed.

Lemma sample_node_c_eq d ts fuel amount i chs l rest ok ct :
  sample_node_c d ts fuel amount i chs = (l, rest, ok, ct) ->
  sample_node d ts fuel amount i chs = (l, rest, ok).
Proof. intros H. rewrite <- sample_node_c_proj, H. reflexivity. Qed.

(* ---- a small circuit used in the tests and non-vacuity examples ----
   (1 and 2) or (-1 and (2 or -2)), n = 2:   models {1,2}, {-1,2}, {-1,-2} *)
Definition ex_circ : circuit :=
  [Lit 1; Lit 2; And [0; 1]; Lit (-1); Lit (-2); Or [1; 4]; And [3; 5]; Or [2; 6]]%nat.
Definition ex_d := build ex_circ 2.
