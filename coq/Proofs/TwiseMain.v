(* C09 pipeline: the bottom-up pass with remove_unneeded (no `expect` fails), trim_and_resample,
   complete_partial_configs, and the theorem about Ddnnf::sample_t_wise. *)
From Coq Require Import List ZArith Bool Arith Lia Permutation.
From DD Require Import Model.Circuit Model.Query Model.TwiseCfg Model.TwiseMerge Model.TwisePipeline
  Spec.TwiseOk Proofs.PassLemmas Proofs.Enum Proofs.Semantics Proofs.CountsA Proofs.QueryDefs Proofs.C03Proof
  Proofs.TwiseOkProof Proofs.C09Pipeline
  Proofs.TwiseBase Proofs.TwiseSem Proofs.TwiseCfgProof Proofs.TwiseInv Proofs.TwiseAnd Proofs.TwiseOr
  Proofs.TwiseNode Proofs.TwisePass Proofs.Live Proofs.LiveCounts Proofs.TwiseReach.
Import ListNotations.
Open Scope Z_scope.

Lemma trim_split_spec : forall cs mask k kept gone, trim_split cs mask k = (kept, gone) ->
  forall c, In c cs <-> In c kept \/ In c gone.
Proof.
  induction cs as [|c0 cs IH]; intros mask k kept gone H c; cbn [trim_split] in H.
  - injection H as <- <-. cbn. tauto.
  - destruct (trim_split cs mask (S k)) as [kept' gone'] eqn:E. specialize (IH mask (S k) kept' gone' E c).
    destruct (nth k mask false); injection H as <- <-; cbn [In]; rewrite IH; tauto.
Qed.

(* a fully decided, well-shaped literal vector is a row of the truth table *)
Lemma shape_table : forall l k, shape_from k l -> ~ In 0 l ->
  Forall2 (fun v x => x = v \/ x = - v) (zseq (Z.of_nat k + 1) (length l)) l.
Proof.
  induction l as [|a l IH]; intros k Hs H0; cbn [length zseq]; [constructor|].
  destruct (shape_from_tl k a l Hs) as [Ha Hl]. constructor.
  - destruct Ha as [->|[->| ->]]; [exfalso; apply H0; now left|left; lia|right; lia].
  - replace (Z.of_nat k + 1 + 1) with (Z.of_nat (S k) + 1) by lia. apply IH; [exact Hl|].
    intros H. apply H0. now right.
Qed.

Section Main.
Variables (C : circuit) (n : nat) (t : nat).
Hypothesis HQ : WFQ C n.
Let d := build C n.

Variable ord_int : nat -> nat -> nat -> list cfg -> list cfg.
Variable ord_sort : nat -> list sample -> list sample.
Variable trim_pick : list (list Z) -> list bool.
Variable ord_shuf : list Z -> list Z.
Hypothesis Hord_int : forall a b c l, Permutation (ord_int a b c l) l.
Hypothesis Hord_sort : forall a l, Permutation (ord_sort a l) l.
Hypothesis Hord_shuf : forall l, Permutation (ord_shuf l) l.

Notation valid := (valid C).
Notation V := (V C).
Notation CfgOK := (CfgOK C n).
Notation SampOK := (SampOK C n).
Notation CovAll := (CovAll C).
Notation NodeInv := (NodeInv C n t).
Notation LitsC := (LitsC C).

(* ---------- the pass (Proofs/TwisePass.v, instantiated with the plain mergers) ---------- *)
Lemma true_node i : (i < length C)%nat -> nth i C FalseN = TrueN -> NodeInv i Empty.
Proof.
  intros Hi E. cbn [TwiseNode.NodeInv]. split.
  - rewrite cnt_cA, (cA_true C n HQ [] i Hi E). lia.
  - intros v Hv. rewrite (V_unfold C n HQ i Hi), E in Hv. destruct Hv.
Qed.

Lemma false_node i : (i < length C)%nat -> nth i C FalseN = FalseN -> NodeInv i Void.
Proof. intros Hi E. cbn [TwiseNode.NodeInv]. rewrite cnt_cA. now apply (cA_false C n HQ). Qed.

Definition andres_plain (i : nat) (rs : list sres) : sres :=
  if existsb is_void rs then Void else sres_of (and_merge_all d n t ord_int ord_sort i (samples_of rs)).
Definition orres_plain (i : nat) (rs : list sres) : sres :=
  if forallb is_void rs then Void else sres_of (or_merge_all t (samples_of rs)).

Lemma sres_of_not_void S : is_void (sres_of S) = false.
Proof. unfold sres_of. now destruct (s_is_empty S). Qed.

(* the node invariant is established at the reachable nodes (Proofs/TwiseReach.v): the and-merge
   makes cached SAT calls, which are exact for live literals only *)
Lemma plain_root : exists ps res, partial_samples d t ord_int ord_sort = Some ps /\
  nth (root C) ps None = Some res /\ NodeInv (root C) res.
Proof.
  apply (pass_root_reach C n HQ NodeInv (partial_sample d t ord_int ord_sort) andres_plain orres_plain).
  - intros i ps. unfold partial_sample, partial_sample_g. change (circ d) with C. change (nv d) with n.
    destruct (nth i C FalseN); reflexivity.
  - intros i rs. unfold andres_plain. destruct (existsb is_void rs); [reflexivity|apply sres_of_not_void].
  - intros i rs. unfold orres_plain. destruct (forallb is_void rs); [reflexivity|apply sres_of_not_void].
  - intros i Hz. exact Hz.
  - intros i l Hi _ E. now apply (lit_node C n t HQ).
  - intros i cs rs Hi HRi E HF. exact (and_node C n t HQ ord_int ord_sort Hord_int Hord_sort i cs rs Hi HRi E HF).
  - intros i cs rs Hi _ E HF. exact (or_node C n t HQ i cs rs Hi E HF).
  - intros i Hi _ E. now apply true_node.
Qed.

(* ---------- the root ---------- *)
Hypothesis Hn : (1 <= n)%nat.
Hypothesis Hrc : 0 < root_count C.

Let r := root C.

Lemma Hr : (r < length C)%nat.
Proof. apply (root_lt' C n HQ). Qed.

Lemma Hrpos : 0 < cnt C r.
Proof. unfold cnt, r. now rewrite <- root_count_nth. Qed.

Lemma root_sample : exists ps S, partial_samples d t ord_int ord_sort = Some ps /\
  nth r ps None = Some (WithSample S) /\ NodeInv r (WithSample S).
Proof.
  destruct plain_root as [ps [res [Hps [E Hinv]]]]. fold r in E, Hinv.
  destruct res as [| |S]; cbn [TwiseNode.NodeInv] in Hinv.
  - pose proof Hrpos. lia.
  - exfalso. destruct Hinv as [_ Hnov]. apply (Hnov 1). apply (root_vars C n HQ). lia.
  - exists ps, S. auto.
Qed.

Notation W := (V r).

Lemma W_range v : In v W <-> 1 <= v <= Z.of_nat n.
Proof. apply (root_vars C n HQ). Qed.

Lemma vars_length S : SampOK r W S -> length (s_vars S) = n.
Proof.
  intros HS. rewrite <- (zseq_length 1 n). apply NoDup_same_length; [apply HS|apply zseq_NoDup|].
  intros v. rewrite (so_vars _ _ _ _ _ HS), W_range, zseq_In. lia.
Qed.

(* the fold of cover_with_caching *)
Lemma fold_caching : forall Xs S, SampOK r W S ->
  (forall X, In X Xs -> LitsC X /\ (forall l, In l X -> In (Z.abs l) W)) ->
  let S' := fold_left (cover_caching d r n) Xs S in
  SampOK r W S' /\ s_vars S' = s_vars S /\ (forall J, Covers S J -> Covers S' J) /\
  (forall X, In X Xs -> valid r X -> Covers S' X).
Proof.
  induction Xs as [|X Xs IH]; intros S HS HX; cbn [fold_left]; cbv zeta.
  - split; [exact HS|]. split; [reflexivity|]. split; [auto|intros X []].
  - destruct (HX X (or_introl eq_refl)) as [A1 A2].
    destruct (cover_caching_step C n HQ r W Hr (reach_root C) (incl_refl _) S X HS A1 A2 Hrpos) as [K1 [K2 [K3 K4]]]. cbv zeta in *.
    destruct (IH (cover_caching d r n S X) K1) as [G1 [G2 [G3 G4]]]; [intros Y HY; apply HX; now right|].
    cbv zeta in *. split; [exact G1|]. split; [now rewrite G2|]. split; [auto|].
    intros Y [<-|HY] Hv; [apply G3; now apply K3|now apply G4].
Qed.

Definition RootOK (S : sample) : Prop :=
  SampOK r W S /\ CovAll r W (Nat.min t n) S.

Lemma trim_ok S : RootOK S -> s_iter S <> [] -> RootOK (trim_and_resample d t trim_pick ord_shuf r S).
Proof.
  intros [HS HC] Hne. unfold trim_and_resample.
  assert (Ee : s_is_empty S = false).
  { destruct (s_is_empty S) eqn:E; [|reflexivity]. apply s_is_empty_iter in E. congruence. }
  rewrite Ee. cbv zeta. change (nv d) with n.
  pose proof (vars_length S HS) as Hvl. rewrite Hvl.
  set (mask := trim_pick (map c_lits (s_iter S))).
  destruct (trim_split (s_comp S) mask 0) as [keptc gonec] eqn:Ec.
  destruct (trim_split (s_part S) mask (length (s_comp S))) as [keptp gonep] eqn:Ep.
  pose proof (trim_split_spec _ _ _ _ _ Ec) as Hsc. pose proof (trim_split_spec _ _ _ _ _ Ep) as Hsp.
  assert (Hv0 : s_vars (s_new_from [S]) = s_vars S).
  { unfold s_new_from. cbn [fold_left s_vars]. apply zunion_nil_l. }
  rewrite Hv0.
  set (new := mkS keptc keptp (s_vars S) (s_lits (s_new_from [S]))).
  pose proof (so_cfgs _ _ _ _ _ HS) as Hall. rewrite Forall_forall in Hall.
  assert (Hnew : SampOK r W new).
  { apply SampOK_of; [exact S|apply HS|apply HS| |].
    - apply Forall_forall. intros c Hc. apply Hall. unfold s_iter. apply in_app_iff in Hc. apply in_app_iff.
      destruct Hc as [Hc|Hc]; [left; apply Hsc; now left|right; apply Hsp; now left].
    - intros c Hc. apply (so_comp _ _ _ _ _ HS). apply Hsc. now left. }
  set (gone := gonec ++ gonep).
  assert (Hgone : forall c, In c gone -> In c (s_iter S)).
  { intros c Hc. unfold gone in Hc. unfold s_iter. apply in_app_iff in Hc. apply in_app_iff.
    destruct Hc as [Hc|Hc]; [left; apply Hsc; now right|right; apply Hsp; now right]. }
  set (lits := ord_shuf (sort_Z (nodup Z.eq_dec (flat_map c_decided gone)))).
  assert (Hlits : forall l, In l lits <-> exists c, In c gone /\ In l (c_decided c)).
  { intros l. unfold lits. split.
    - intros H. apply (Permutation_in l (Hord_shuf _)) in H.
      assert (Hs : forall x ll, In x (sort_Z ll) -> In x ll).
      { clear. intros x ll. unfold sort_Z. induction ll as [|a ll IH]; cbn [fold_right]; [auto|].
        assert (Hi : forall y l0, In y (insert_Z a l0) -> y = a \/ In y l0).
        { clear. intros y l0. induction l0 as [|b l0 IH]; cbn [insert_Z]; [intros [<-|[]]; now left|].
          destruct (a <=? b); [intros [<-|H]; [now left|now right]|].
          intros [<-|H]; [right; now left|]. destruct (IH H); [now left|right; now right]. }
        intros H. destruct (Hi _ _ H) as [->|H']; [now left|right; now apply IH]. }
      apply Hs in H. apply nodup_In in H. apply in_flat_map in H. exact H.
    - intros [c [Hc Hl]]. apply (Permutation_in l (Permutation_sym (Hord_shuf _))).
      assert (Hs : forall x ll, In x ll -> In x (sort_Z ll)).
      { clear. intros x ll. unfold sort_Z. induction ll as [|a ll IH]; cbn [fold_right]; [auto|].
        assert (Hi : forall y l0, y = a \/ In y l0 -> In y (insert_Z a l0)).
        { clear. intros y l0. induction l0 as [|b l0 IH]; cbn [insert_Z]; [intros [->|[]]; now left|].
          destruct (a <=? b); [intros [->|H]; [now left|now right]|].
          intros [->|[->|H]]; [right; apply IH; now left|now left|right; apply IH; now right]. }
        intros [->|H]; apply Hi; [now left|right; now apply IH]. }
      apply Hs. apply nodup_In. apply in_flat_map. now exists c. }
  assert (HlitsOK : forall l, In l lits -> LiveLit C l /\ In (Z.abs l) W).
  { intros l Hl. apply Hlits in Hl. destruct Hl as [c [Hc Hl]]. pose proof (Hall c (Hgone c Hc)) as Hok.
    split; [exact (CfgOK_lits C n HQ r W c Hr (reach_root C) (incl_refl _) Hok l Hl)|now apply (ok_vars _ _ _ _ _ Hok)]. }
  set (k := Nat.min (Nat.min n t) (length lits)).
  destruct (fold_caching (tints lits k) new Hnew) as [F1 [F2 [F3 F4]]].
  { intros X HX. apply tints_in in HX. destruct HX as [_ HX].
    split; intros l Hl; apply HlitsOK; now apply HX. }
  cbv zeta in *.
  set (new' := fold_left (cover_caching d r n) (tints lits k) new) in *.
  destruct (s_len new' <? s_len S)%nat; [|split; assumption].
  split; [exact F1|].
  intros I HI HIW Hlen Hv.
  destruct (HC I HI HIW Hlen Hv) as [c [Hc Hinc]].
  assert (Hcase : In c (keptc ++ keptp) \/ In c gone).
  { unfold s_iter in Hc. apply in_app_iff in Hc. unfold gone. rewrite !in_app_iff.
    destruct Hc as [Hc|Hc]; [apply Hsc in Hc|apply Hsp in Hc]; tauto. }
  destruct Hcase as [Hk|Hg].
  - apply F3. exists c. split; [exact Hk|exact Hinc].
  - assert (HndI : NoDup I) by (apply (NoDup_map_inv Z.abs); exact HI).
    assert (HIl : incl I lits) by (intros l Hl; apply Hlits; exists c; split; [exact Hg|now apply Hinc]).
    assert (Hk : k = length I).
    { pose proof (NoDup_incl_length HndI HIl). unfold k. lia. }
    destruct (tints_covers lits k I HndI HIl (eq_sym Hk)) as [o [Ho Hperm]].
    apply (Covers_mono new' I o); [intros l Hl; exact (Permutation_in l (Permutation_sym Hperm) Hl)|].
    apply F4; [exact Ho|].
    apply (valid_mono C n HQ r I o Hr); [|exact Hv]. intros l Hl. exact (Permutation_in l Hperm Hl).
Qed.

Lemma RootOK_nonempty S : RootOK S -> s_iter S <> [].
Proof.
  intros [HS HC] Habs.
  assert (Hcov : Covers S []).
  { apply (cover_down C n HQ r (s_vars S) (Nat.min t n) (Covers S) Hr).
    - apply HS.
    - intros v Hv. now apply (so_vars _ _ _ _ _ HS).
    - rewrite (vars_length S HS). lia.
    - intros I0 J Hinc. now apply Covers_mono.
    - intros I0 H1 H2 H3 H4. apply HC; try assumption. intros l Hl. apply (so_vars _ _ _ _ _ HS). now apply H2.
    - constructor.
    - intros l [].
    - cbn. lia.
    - apply (valid_nil C r); [exact Hr|exact Hrpos]. }
  destruct Hcov as [c [Hc _]]. rewrite Habs in Hc. destruct Hc.
Qed.

(* complete_partial_configs on one configuration *)
Lemma complete_cfg_ok : forall vs c, (forall v, In v vs -> 1 <= v <= Z.of_nat n) -> CfgOK r W c ->
  let c' := complete_cfg d r vs c in
  CfgOK r W c' /\ incl (c_decided c) (c_decided c') /\
  (forall v, In v vs -> In v (c_decided c') \/ In (- v) (c_decided c')).
Proof.
  induction vs as [|v vs IH]; intros c Hvs Hok; cbn [complete_cfg]; cbv zeta.
  - split; [exact Hok|]. split; [apply incl_refl|intros v []].
  - assert (Hv : 1 <= v <= Z.of_nat n) by (apply Hvs; now left).
    assert (Hvs' : forall x, In x vs -> 1 <= x <= Z.of_nat n) by (intros x Hx; apply Hvs; now right).
    pose proof (ok_wf _ _ _ _ _ Hok) as Hwf.
    assert (Hv0 : v <> 0) by lia. assert (Hvr : inr n v) by (unfold inr; lia).
    assert (Hnv0 : - v <> 0) by lia. assert (Hnvr : inr n (- v)) by (unfold inr; lia).
    destruct (c_contains c v) eqn:Ecv; [|destruct (c_contains c (- v)) eqn:Ecn]; cbn [orb].
    + destruct (IH c Hvs' Hok) as [G1 [G2 G3]]. cbv zeta in *. split; [exact G1|]. split; [exact G2|].
      intros x [<-|Hx]; [left; apply G2; now apply (contains_spec n c v Hwf Hv0 Hvr)|now apply G3].
    + destruct (IH c Hvs' Hok) as [G1 [G2 G3]]. cbv zeta in *. split; [exact G1|]. split; [exact G2|].
      intros x [<-|Hx]; [right; apply G2; now apply (contains_spec n c (- v) Hwf Hnv0 Hnvr)|now apply G3].
    + assert (Hnv : ~ In v (c_decided c)).
      { intros H. apply (contains_spec n c v Hwf Hv0 Hvr) in H. congruence. }
      assert (Hnn : ~ In (- v) (c_decided c)).
      { intros H. apply (contains_spec n c (- v) Hwf Hnv0 Hnvr) in H. congruence. }
      pose proof (update_ok C n HQ r W c Hr (reach_root C) (incl_refl _) Hok) as Hok1.
      destruct (update_spec C n HQ r W c Hr (reach_root C) (incl_refl _) Hok) as [Hl1 [Hn1 [m [fl [P [Hst [HInv [HP1 HP2]]]]]]]].
      fold d in Hst, Hl1, Hn1, Hok1.
      assert (Hdec1 : c_decided (c_update d r c) = c_decided c) by (unfold c_decided; now rewrite Hl1).
      (* the literal that is added is consistent with a model of the configuration *)
      change (length (circ d) - 1)%nat with r.
      set (b := snd (sat_propagate d [v] (c_state_of d (c_update d r c)) (Some r))).
      set (x := if b then v else - v).
      assert (Hx : (x = v \/ x = - v) /\ valid r (c_decided c ++ [x])).
      { destruct (valid_incl_witness C n HQ r (c_decided c) Hr (ok_vars _ _ _ _ _ Hok) (ok_valid _ _ _ _ _ Hok))
          as [e [He Hinc]].
        destruct (enum_good C n HQ r e Hr He) as [Hnde Hsete].
        assert (Hve : In v e \/ In (- v) e).
        { assert (Hin : In v (map Z.abs e)) by (apply Hsete; apply W_range; lia).
          apply in_map_iff in Hin. destruct Hin as [y [Hy Hye]].
          assert (y = v \/ y = - v) as [->| ->] by lia; auto. }
        assert (Hwit : forall y, In y e -> valid r (c_decided c ++ [y])).
        { intros y Hy. apply (incl_witness_valid C n HQ r _ e Hr He).
          intros z Hz. apply in_app_iff in Hz. destruct Hz as [Hz|[<-|[]]]; [now apply Hinc|exact Hy]. }
        destruct (makes_unsat d v) eqn:Emu.
        - (* answered by the core test: v is not a live leaf of the circuit, so it is in no
             configuration of the root *)
          assert (Eb : b = false).
          { unfold b, sat_propagate.
            assert (Ex : existsb (makes_unsat d) [v] = true) by (cbn [existsb]; now rewrite Emu).
            now rewrite Ex. }
          unfold x. rewrite Eb. split; [now right|].
          destruct Hve as [Hve|Hve]; [|now apply Hwit].
          exfalso. unfold makes_unsat in Emu. apply andb_true_iff in Emu. destruct Emu as [_ Emu].
          apply memZ_In in Emu. change (core d) with (calculate_core C n) in Emu.
          pose proof (wfq_wf C n HQ) as HWF0.
          apply (live_not_opposed_by_core C n (wf_idx C n HWF0) (wf_nonempty C n HWF0) v); [|exact Emu].
          exact (enum_live C n HQ r e (reach_root C) He v Hve).
        - destruct (query_spec_nc C n HQ r W c [v] Hr (reach_root C) (incl_refl _) Hok) as [Hans _].
          { fold d. cbn [existsb]. now rewrite Emu. }
          cbv zeta in Hans. fold d in Hans. fold b in Hans.
          unfold x. destruct b.
          + split; [now left|]. unfold TwiseSem.valid. apply Z.ltb_lt. now symmetry.
          + split; [now right|]. destruct Hve as [Hve|Hve]; [|now apply Hwit].
            exfalso. pose proof (Hwit v Hve) as Hvv. unfold TwiseSem.valid in Hvv. apply Z.ltb_lt in Hvv. congruence. }
      destruct Hx as [Hxv Hxval].
      assert (Hx0 : x <> 0) by (destruct Hxv; lia).
      assert (Hxr : inr n x) by (unfold inr; destruct Hxv; lia).
      assert (Hxno : ~ In (- x) (c_decided (c_update d r c))).
      { rewrite Hdec1. destruct Hxv as [->| ->]; [exact Hnn|now rewrite Z.opp_involutive]. }
      destruct (add_spec n (c_update d r c) x (ok_wf _ _ _ _ _ Hok1) Hx0 Hxr Hxno) as [Hwf2 [Hdec2 Hst2]].
      assert (Hok2 : CfgOK r W (c_add (c_update d r c) x)).
      { constructor.
        - exact Hwf2.
        - intros l Hl. apply Hdec2 in Hl. destruct Hl as [->|Hl].
          + apply W_range. destruct Hxv as [->| ->]; lia.
          + rewrite Hdec1 in Hl. now apply (ok_vars _ _ _ _ _ Hok).
        - apply (valid_mono C n HQ r (c_decided c ++ [x]) _ Hr); [|exact Hxval].
          intros l Hl. apply Hdec2 in Hl. apply in_app_iff. rewrite Hdec1 in Hl. destruct Hl as [->|Hl]; [right; now left|now left].
        - unfold StOK. rewrite Hst2, Hst. cbn [st_incomplete]. exists P. split; [exact HInv|]. split; [|discriminate].
          intros l Hl. apply Hdec2. right. rewrite Hdec1. now apply HP1. }
      destruct (IH (c_add (c_update d r c) x) Hvs' Hok2) as [G1 [G2 G3]]. cbv zeta in *.
      split; [exact G1|]. split.
      * intros l Hl. apply G2. apply Hdec2. right. now rewrite Hdec1.
      * intros y [<-|Hy]; [|now apply G3].
        assert (Hin : In x (c_decided (c_add (c_update d r c) x))) by (apply Hdec2; now left).
        apply G2 in Hin. destruct Hxv as [E|E]; [left|right]; rewrite <- E; exact Hin.
Qed.

Lemma zseq_range v : In v (zseq 1 n) -> 1 <= v <= Z.of_nat n.
Proof. intros H. apply zseq_In in H. lia. Qed.

(* a configuration that decides every feature is a model *)
Lemma full_is_model c : CfgOK r W c -> (forall v, In v (zseq 1 n) -> In v (c_decided c) \/ In (- v) (c_decided c)) ->
  In (c_lits c) (Models C n) /\ c_decided c = c_lits c.
Proof.
  intros Hok Hfull. pose proof (ok_wf _ _ _ _ _ Hok) as Hwf. destruct Hwf as [Hlen Hslot Hnd].
  assert (H0 : ~ In 0 (c_lits c)).
  { intros Hin. destruct (In_nth _ _ 0 Hin) as [i [Hi Hnth]]. rewrite Hlen in Hi.
    assert (Hv : In (Z.of_nat (S i)) (zseq 1 n)) by (apply zseq_In; lia).
    pose proof (ok_wf _ _ _ _ _ Hok) as Hwf.
    destruct (Hfull _ Hv) as [H|H]; apply (dec_in n c _ Hwf) in H; destruct H as [_ [_ H]];
      unfold lidx in H; [replace (Z.to_nat (Z.abs (Z.of_nat (S i))) - 1)%nat with i in H by lia|
                         replace (Z.to_nat (Z.abs (- Z.of_nat (S i))) - 1)%nat with i in H by lia]; lia. }
  assert (Hdec : c_decided c = c_lits c).
  { unfold c_decided. clear - H0. induction (c_lits c) as [|a l IH]; [reflexivity|]. cbn [filter].
    assert (a <> 0) by (intros ->; apply H0; now left). assert (E : (a =? 0) = false) by now apply Z.eqb_neq.
    rewrite E. cbn [negb]. f_equal. apply IH. intros H1. apply H0. now right. }
  split; [|exact Hdec].
  apply (root_model C n HQ).
  - apply in_all_cfgs_over. unfold all_cfgs.
    pose proof (shape_table (c_lits c) 0) as Hs. rewrite Hlen in Hs. cbn in Hs. apply Hs; [|exact H0].
    intros i Hi. rewrite Hlen in Hi. now apply Hslot.
  - rewrite <- Hdec. now apply dec_nodup_abs with (n := n).
  - exact H0.
  - rewrite <- Hdec. apply Hok.
Qed.

(* ---------- the theorem ---------- *)
Theorem sample_t_wise_covers :
  exists S, sample_t_wise d t ord_int ord_sort trim_pick ord_shuf = Some (WithSample S) /\
            twise_ok C n t (map c_lits (s_iter S)) = true.
Proof.
  destruct root_sample as [ps [S [Hps [Hroot Hinv]]]].
  cbn [TwiseNode.NodeInv] in Hinv. destruct Hinv as [_ [_ [Hne [HS HC]]]].
  assert (HR0 : RootOK S).
  { split; [exact HS|]. now rewrite (vars_length S HS) in HC. }
  pose proof (trim_ok S HR0 Hne) as HR1.
  set (S1 := trim_and_resample d t trim_pick ord_shuf r S) in *.
  pose proof (RootOK_nonempty S1 HR1) as Hne1. destruct HR1 as [HS1 HC1].
  set (S2 := complete_partial d r S1).
  pose proof (so_cfgs _ _ _ _ _ HS1) as Hall. rewrite Forall_forall in Hall.
  (* every configuration of S1 has a completed counterpart in S2 *)
  assert (Hcomp : forall c, In c (s_comp S1) -> In (c_lits c) (Models C n) /\ c_decided c = c_lits c).
  { intros c Hc. assert (Hok : CfgOK r W c) by (apply Hall; unfold s_iter; apply in_app_iff; now left).
    apply (full_is_model c Hok). intros v Hv.
    pose proof (comp_full C n r W S1 c HS1 Hc v ltac:(apply W_range; now apply zseq_range)) as Hin.
    apply in_map_iff in Hin. destruct Hin as [l [Habs Hl]].
    assert (Hvp : 0 < v) by (apply zseq_range in Hv; lia).
    assert (l = v \/ l = - v) as [->| ->] by lia; auto. }
  assert (Hpart : forall c, In c (s_part S1) ->
            In (c_lits (complete_cfg d r (zseq 1 n) c)) (Models C n) /\
            incl (c_decided c) (c_lits (complete_cfg d r (zseq 1 n) c))).
  { intros c Hc. assert (Hok : CfgOK r W c) by (apply Hall; unfold s_iter; apply in_app_iff; now right).
    destruct (complete_cfg_ok (zseq 1 n) c zseq_range Hok) as [G1 [G2 G3]]. cbv zeta in *.
    destruct (full_is_model _ G1 G3) as [F1 F2]. split; [exact F1|]. now rewrite <- F2. }
  assert (Hiter2 : s_iter S2 = s_comp S1 ++ map (complete_cfg d r (zseq 1 n)) (s_part S1)).
  { unfold S2, complete_partial, s_iter. cbn [s_comp s_part]. change (nv d) with n. reflexivity. }
  exists S2. split.
  - unfold sample_t_wise, sample_t_wise_g. fold (partial_samples d t ord_int ord_sort). rewrite Hps. change (length (circ d) - 1)%nat with r. rewrite Hroot.
    fold S1. fold S2. unfold sres_of.
    assert (E : s_is_empty S2 = false).
    { destruct (s_is_empty S2) eqn:E; [|reflexivity]. apply s_is_empty_iter in E. rewrite Hiter2 in E.
      exfalso. apply Hne1. unfold s_iter. apply app_eq_nil in E. destruct E as [E1 E2].
      apply map_eq_nil in E2. now rewrite E1, E2. }
    now rewrite E.
  - apply twise_ok_sound_complete. split.
    + intros c Hc. apply in_map_iff in Hc. destruct Hc as [c0 [<- Hc0]]. rewrite Hiter2 in Hc0.
      apply in_app_iff in Hc0. destruct Hc0 as [Hc0|Hc0]; [now apply Hcomp|].
      apply in_map_iff in Hc0. destruct Hc0 as [c1 [<- Hc1]]. now apply Hpart.
    + intros I [HI1 [HI2 [HI3 [m [Hm Hinc]]]]].
      assert (HIr : in_range n I) by exact HI2.
      assert (Hv : valid r I).
      { unfold TwiseSem.valid, cA. fold (root C) in r. unfold r.
        rewrite (countsA_MCA C n I (wfq_wf C n HQ) HIr). apply MCA_pos_iff. now exists m. }
      destruct (HC1 I HI1) as [c [Hc Hci]]; [intros l Hl; apply W_range; now apply HI2|exact HI3|exact Hv|].
      unfold s_iter in Hc. apply in_app_iff in Hc. destruct Hc as [Hc|Hc].
      * exists (c_lits c). split; [apply in_map; rewrite Hiter2; apply in_app_iff; now left|].
        destruct (Hcomp c Hc) as [_ E]. now rewrite <- E.
      * exists (c_lits (complete_cfg d r (zseq 1 n) c)). split.
        -- apply in_map. rewrite Hiter2. apply in_app_iff. right. now apply in_map.
        -- destruct (Hpart c Hc) as [_ Hsub]. intros l Hl. apply Hsub. now apply Hci.
Qed.

End Main.
