(* C09: the result checker Spec/TwiseOk.v is sound and complete for the semantic statement. *)
From Coq Require Import List ZArith Bool Lia Permutation.
From DD Require Import Model.Circuit Proofs.Semantics Spec.TwiseOk.
Import ListNotations.
Open Scope Z_scope.

Lemma cfg_eqb_eq : forall a b, cfg_eqb a b = true <-> a = b.
Proof.
  induction a as [|x a IH]; destruct b as [|y b]; cbn; try (split; [discriminate|discriminate]).
  - tauto.
  - rewrite andb_true_iff, Z.eqb_eq, IH. split; [intros [-> ->]; reflexivity|intros H; now inversion H].
Qed.

Lemma is_model_In Ms c : is_model Ms c = true <-> In c Ms.
Proof.
  unfold is_model. rewrite existsb_exists. split.
  - intros [m [Hm He]]. apply cfg_eqb_eq in He. now subst.
  - intros H. exists c. split; [exact H|now apply cfg_eqb_eq].
Qed.

Lemma contains_all_incl I c : contains_all I c = true <-> incl I c.
Proof.
  unfold contains_all. rewrite forallb_forall. split.
  - intros H l Hl. apply memZ_In. now apply H.
  - intros H l Hl. apply memZ_In. now apply H.
Qed.

Lemma exists_contains I L : existsb (contains_all I) L = true <-> exists c, In c L /\ incl I c.
Proof.
  rewrite existsb_exists. split; intros [c [H1 H2]]; exists c; (split; [exact H1|]); now apply contains_all_incl.
Qed.

Definition pos_nodup (vs : list Z) : Prop := NoDup vs /\ forall v, In v vs -> 0 < v.

Lemma pos_nodup_tl v vs : pos_nodup (v :: vs) -> pos_nodup vs /\ 0 < v /\ ~ In v vs.
Proof.
  intros [H1 H2]. inversion H1; subst. repeat split; try assumption.
  - intros w Hw. apply H2. now right.
  - apply H2. now left.
Qed.

Lemma ints_over_sound : forall vs t I, pos_nodup vs -> In I (ints_over vs t) ->
  length I = t /\ NoDup (map Z.abs I) /\ (forall l, In l I -> In (Z.abs l) vs).
Proof.
  induction vs as [|v vs IH]; intros t I Hvs HI.
  - destruct t; cbn in HI; [|contradiction]. destruct HI as [<-|[]].
    repeat split; [constructor|intros l []].
  - destruct (pos_nodup_tl v vs Hvs) as [Hvs' [Hv Hnv]].
    destruct t as [|t]; cbn [ints_over] in HI.
    + destruct HI as [<-|[]]. repeat split; [constructor|intros l []].
    + assert (Hcons : forall s I', (s = v \/ s = - v) -> In I' (ints_over vs t) ->
                length (s :: I') = S t /\ NoDup (map Z.abs (s :: I')) /\
                (forall l, In l (s :: I') -> In (Z.abs l) (v :: vs))).
      { intros s I' Hs HI'. destruct (IH t I' Hvs' HI') as [Hl [Hnd Hin]].
        assert (Habs : Z.abs s = v) by (destruct Hs; subst; lia).
        repeat split.
        - cbn. now rewrite Hl.
        - cbn [map]. constructor; [|exact Hnd]. rewrite Habs. intros Hc.
          apply in_map_iff in Hc. destruct Hc as [l [Hl1 Hl2]]. apply Hin in Hl2. rewrite Hl1 in Hl2.
          contradiction.
        - intros l [<-|Hl']; [left; now symmetry|right; now apply Hin]. }
      apply in_app_or in HI. destruct HI as [HI|HI].
      { apply in_map_iff in HI. destruct HI as [I' [<- HI']]. apply Hcons; [now left|exact HI']. }
      apply in_app_or in HI. destruct HI as [HI|HI].
      { apply in_map_iff in HI. destruct HI as [I' [<- HI']]. apply Hcons; [now right|exact HI']. }
      destruct (IH (S t) I Hvs' HI) as [Hl [Hnd Hin]]. repeat split; try assumption.
      intros l Hl'. right. now apply Hin.
Qed.

Lemma in_ints_over_skip v vs t I : In I (ints_over vs t) -> In I (ints_over (v :: vs) t).
Proof.
  destruct t as [|t]; cbn [ints_over].
  - destruct vs; cbn; auto.
  - intros H. apply in_or_app. right. apply in_or_app. now right.
Qed.

(* every duplicate-free-feature literal set over vs has a representative in ints_over with the
   same elements *)
Lemma ints_over_complete : forall vs I, pos_nodup vs ->
  NoDup (map Z.abs I) -> (forall l, In l I -> In (Z.abs l) vs) ->
  exists I', In I' (ints_over vs (length I)) /\ incl I I' /\ incl I' I.
Proof.
  induction vs as [|v vs IH]; intros I Hvs Hnd Hin.
  - destruct I as [|l I]; [|destruct (Hin l (or_introl eq_refl))].
    exists []. cbn. repeat split; auto using incl_refl.
  - destruct (pos_nodup_tl v vs Hvs) as [Hvs' [Hv Hnv]].
    (* remove the literal on feature v, if there is one *)
    assert (Hrem : forall s, (s = v \/ s = - v) -> In s I ->
              exists I', In I' (ints_over (v :: vs) (length I)) /\ incl I I' /\ incl I' I).
    { intros s Hs HsI. apply in_split in HsI. destruct HsI as [I1 [I2 ->]].
      assert (Habs : Z.abs s = v) by (destruct Hs; subst; lia).
      rewrite map_app in Hnd. cbn [map] in Hnd.
      pose proof (NoDup_remove_1 _ _ _ Hnd) as Hnd'. pose proof (NoDup_remove_2 _ _ _ Hnd) as Hns.
      rewrite <- map_app in Hnd', Hns.
      destruct (IH (I1 ++ I2) Hvs' Hnd') as [I0 [H1 [H2 H3]]].
      { intros l Hl. assert (Hl' : In l (I1 ++ s :: I2)).
        { apply in_app_or in Hl. apply in_or_app. destruct Hl; [now left|right; now right]. }
        destruct (Hin l Hl') as [Hlv|Hlv]; [|exact Hlv].
        exfalso. apply Hns. rewrite Habs, Hlv. now apply in_map. }
      exists (s :: I0). split; [|split].
      - rewrite app_length. cbn [length]. rewrite Nat.add_succ_r, <- app_length. cbn [ints_over].
        destruct Hs; subst s.
        + apply in_or_app. left. now apply in_map.
        + apply in_or_app. right. apply in_or_app. left. now apply in_map.
      - intros l Hl. apply in_app_or in Hl. destruct Hl as [Hl|[<-|Hl]].
        + right. apply H2. apply in_or_app. now left.
        + now left.
        + right. apply H2. apply in_or_app. now right.
      - intros l [<-|Hl]; [apply in_or_app; right; now left|].
        apply H3 in Hl. apply in_app_or in Hl. apply in_or_app. destruct Hl; [now left|right; now right]. }
    destruct (in_dec Z.eq_dec v I) as [Hp|Hp]; [exact (Hrem v (or_introl eq_refl) Hp)|].
    destruct (in_dec Z.eq_dec (- v) I) as [Hm|Hm]; [exact (Hrem (- v) (or_intror eq_refl) Hm)|].
    destruct (IH I Hvs' Hnd) as [I' [H1 [H2 H3]]].
    { intros l Hl. destruct (Hin l Hl) as [Hlv|Hlv]; [|exact Hlv].
      exfalso. assert (Hc : l = v \/ l = - v) by lia. clear Hlv. destruct Hc as [-> | ->]; contradiction. }
    exists I'. split; [now apply in_ints_over_skip|split; assumption].
Qed.

Lemma zseq_pos_nodup n : pos_nodup (zseq 1 n).
Proof. split; [apply zseq_NoDup|]. intros v Hv. apply zseq_In in Hv. lia. Qed.

Theorem twise_ok_sound_complete : forall C n t S,
  twise_ok C n t S = true <->
  (forall c, In c S -> In c (Models C n)) /\
  (forall I, valid_interaction C n t I -> exists c, In c S /\ incl I c).
Proof.
  intros C n t S. unfold twise_ok, twise_ok_models. rewrite andb_true_iff, !forallb_forall. split.
  - intros [H1 H2]. split.
    + intros c Hc. apply is_model_In. now apply H1.
    + intros I [Hnd [Hr [Hl [m [Hm HIm]]]]].
      destruct (ints_over_complete (zseq 1 n) I (zseq_pos_nodup n) Hnd) as [I' [HI' [Ha Hb]]].
      { intros l Hl'. apply zseq_In. specialize (Hr l Hl'). lia. }
      rewrite Hl in HI'. specialize (H2 I' HI'). apply orb_true_iff in H2. destruct H2 as [H2|H2].
      * apply negb_true_iff in H2. assert (Ht : existsb (contains_all I') (Models C n) = true).
        { apply exists_contains. exists m. split; [exact Hm|]. intros l Hl'. apply HIm. now apply Hb. }
        congruence.
      * apply exists_contains in H2. destruct H2 as [c [Hc Hic]]. exists c. split; [exact Hc|].
        intros l Hl'. apply Hic. now apply Ha.
  - intros [H1 H2]. split.
    + intros c Hc. apply is_model_In. now apply H1.
    + intros I HI. destruct (existsb (contains_all I) (Models C n)) eqn:E; [|reflexivity]. cbn.
      apply exists_contains in E.
      destruct (ints_over_sound (zseq 1 n) _ I (zseq_pos_nodup n) HI) as [Hl [Hnd Hin]].
      apply exists_contains. apply H2. repeat split; try assumption.
      * specialize (Hin l H). apply zseq_In in Hin. lia.
      * specialize (Hin l H). apply zseq_In in Hin. lia.
Qed.

(* the diagnostic agrees with the verdict's coverage half *)
Lemma twise_first_uncovered_none C n t S :
  twise_first_uncovered C n t S = None <->
  (forall I, valid_interaction C n t I -> exists c, In c S /\ incl I c).
Proof.
  unfold twise_first_uncovered. split.
  - intros Hf I [Hnd [Hr [Hl [m [Hm HIm]]]]].
    destruct (ints_over_complete (zseq 1 n) I (zseq_pos_nodup n) Hnd) as [I' [HI' [Ha Hb]]].
    { intros l Hl'. apply zseq_In. specialize (Hr l Hl'). lia. }
    rewrite Hl in HI'. pose proof (find_none _ _ Hf I' HI') as H2. cbn in H2.
    apply andb_false_iff in H2. destruct H2 as [H2|H2].
    + assert (Ht : existsb (contains_all I') (Models C n) = true).
      { apply exists_contains. exists m. split; [exact Hm|]. intros l Hl'. apply HIm. now apply Hb. }
      congruence.
    + apply negb_false_iff, exists_contains in H2. destruct H2 as [c [Hc Hic]]. exists c.
      split; [exact Hc|]. intros l Hl'. apply Hic. now apply Ha.
  - intros H2. destruct (find _ _) as [I|] eqn:E; [|reflexivity]. exfalso.
    apply find_some in E. destruct E as [HI E]. apply andb_true_iff in E. destruct E as [E1 E2].
    apply exists_contains in E1.
    destruct (ints_over_sound (zseq 1 n) _ I (zseq_pos_nodup n) HI) as [Hl [Hnd Hin]].
    assert (Hv : valid_interaction C n t I).
    { repeat split; try assumption; specialize (Hin l H); apply zseq_In in Hin; lia. }
    apply H2 in Hv. apply exists_contains in Hv. rewrite Hv in E2. discriminate.
Qed.
