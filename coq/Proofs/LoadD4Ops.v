(* The primitive StableGraph operations of Model/LoadD4.v: effect on labels and child lists,
   and the structural invariant Inv (every edge joins two live nodes; the free list consists of
   distinct vacant slots inside the node table), which makes the index returned by add_node
   fresh whether or not it is recycled. *)
From Coq Require Import List ZArith Bool Lia Arith.
From DD Require Import Model.Circuit Model.LoadC2d Model.LoadD4 Proofs.LoadD4Graph.
Import ListNotations.
Local Open Scope nat_scope.

(* ---------- set_nth ---------- *)
Lemma set_nth_length {A} i (x : A) l : length (set_nth i x l) = length l.
Proof. revert i. induction l as [|y l IH]; intros [|i]; cbn [set_nth length]; auto. Qed.

Lemma nth_set_nth_eq {A} i (x d : A) l : i < length l -> nth i (set_nth i x l) d = x.
Proof.
  revert i. induction l as [|y l IH]; intros [|i] H; cbn [set_nth nth length] in *; try lia; auto.
  apply IH. lia.
Qed.

Lemma nth_set_nth_neq {A} i j (x d : A) l : i <> j -> nth j (set_nth i x l) d = nth j l d.
Proof.
  revert i j. induction l as [|y l IH]; intros [|i] [|j] H; cbn [set_nth nth]; auto; try lia.
Qed.

(* ---------- remove1: the child list after remove_edge ---------- *)
Fixpoint remove1 (b : nat) (l : list nat) : list nat :=
  match l with
  | [] => []
  | y :: r => if Nat.eqb y b then r else y :: remove1 b r
  end.

Definition outs (es : list (nat * nat)) (x : nat) : list nat :=
  map snd (filter (fun e => Nat.eqb (fst e) x) es).

Lemma sg_out_outs g x : sg_out g x = outs (sg_edges g) x.
Proof. reflexivity. Qed.

Lemma outs_remove_first_same a b es : outs (remove_first a b es) a = remove1 b (outs es a).
Proof.
  induction es as [|[p q] es IH]; [reflexivity|]. cbn [remove_first fst snd].
  destruct (Nat.eqb_spec p a) as [->|Hne]; cbn [andb].
  - destruct (Nat.eqb_spec q b) as [->|Hq].
    + unfold outs. cbn [filter fst]. rewrite Nat.eqb_refl. cbn [map snd remove1]. now rewrite Nat.eqb_refl.
    + unfold outs in *. cbn [filter fst]. rewrite Nat.eqb_refl. cbn [map snd remove1].
      apply Nat.eqb_neq in Hq. rewrite Hq. now rewrite IH.
  - unfold outs in *. cbn [filter fst]. apply Nat.eqb_neq in Hne. rewrite Hne. exact IH.
Qed.

Lemma outs_remove_first_other a b es x : x <> a -> outs (remove_first a b es) x = outs es x.
Proof.
  intros Hx. induction es as [|[p q] es IH]; [reflexivity|]. cbn [remove_first fst snd].
  destruct (Nat.eqb_spec p a) as [->|Hne]; cbn [andb].
  - destruct (Nat.eqb q b).
    + unfold outs. cbn [filter fst]. assert (E : Nat.eqb a x = false) by (apply Nat.eqb_neq; lia). now rewrite E.
    + unfold outs in *. cbn [filter fst]. assert (E : Nat.eqb a x = false) by (apply Nat.eqb_neq; lia).
      rewrite E. exact IH.
  - unfold outs in *. cbn [filter fst]. destruct (Nat.eqb p x); cbn [map]; now rewrite IH.
Qed.

Lemma remove_first_incl a b es e : In e (remove_first a b es) -> In e es.
Proof.
  induction es as [|e' es IH]; [intros []|]. cbn [remove_first].
  destruct (_ && _); [now right|]. intros [<-|H]; [now left|right; now apply IH].
Qed.

(* ---------- the invariant ---------- *)
Definition edges_alive (g : sgraph) : Prop :=
  forall a b, In (a, b) (sg_edges g) -> sg_alive g a = true /\ sg_alive g b = true.
Definition free_ok (g : sgraph) : Prop :=
  NoDup (sg_free g) /\ forall f, In f (sg_free g) -> f < length (sg_nodes g) /\ sg_label g f = None.
Definition Inv (g : sgraph) : Prop := edges_alive g /\ free_ok g.

Lemma Inv_empty : Inv sg_empty.
Proof. split; [intros a b []|]. split; [constructor|intros f []]. Qed.

Lemma in_outs es x c : In c (outs es x) <-> In (x, c) es.
Proof.
  unfold outs. rewrite in_map_iff. split.
  - intros [[p q] [<- H]]. apply filter_In in H. destruct H as [H E]. cbn [fst snd] in *.
    apply Nat.eqb_eq in E. now subst.
  - intros H. exists (x, c). split; [reflexivity|]. apply filter_In. split; [exact H|].
    cbn [fst]. apply Nat.eqb_refl.
Qed.

Lemma out_alive g x c : edges_alive g -> In c (sg_out g x) -> sg_alive g x = true /\ sg_alive g c = true.
Proof. intros H Hc. apply in_outs in Hc. now apply H. Qed.

Lemma vacant_no_out g x : edges_alive g -> sg_label g x = None -> sg_out g x = [].
Proof.
  intros H Hl. destruct (sg_out g x) as [|c r] eqn:E; [reflexivity|].
  destruct (out_alive g x c H) as [Ha _]; [rewrite E; now left|].
  unfold sg_alive in Ha. now rewrite Hl in Ha.
Qed.

Lemma vacant_not_child g x y : edges_alive g -> sg_label g x = None -> ~ In x (sg_out g y).
Proof.
  intros H Hl Hin. destruct (out_alive g y x H Hin) as [_ Ha]. unfold sg_alive in Ha. now rewrite Hl in Ha.
Qed.

(* ---------- add_node ---------- *)
Section AddNode.
Variables (rc : bool) (t : tid) (g g' : sgraph) (x : nat).
Hypothesis HI : Inv g.
Hypothesis Hadd : add_node rc t g = (x, g').

Lemma add_node_fresh : sg_label g x = None.
Proof.
  unfold add_node in Hadd. destruct HI as [_ [_ Hf]].
  destruct (if rc then sg_free g else []) as [|f r] eqn:E.
  - injection Hadd as <- _. unfold sg_label. apply nth_overflow. lia.
  - injection Hadd as <- _. destruct rc; [|discriminate]. apply Hf. rewrite E. now left.
Qed.

Lemma add_node_edges : sg_edges g' = sg_edges g.
Proof.
  unfold add_node in Hadd. destruct (if rc then sg_free g else []); injection Hadd as _ <-; reflexivity.
Qed.

Lemma add_node_out y : sg_out g' y = sg_out g y.
Proof. unfold sg_out. now rewrite add_node_edges. Qed.

Lemma add_node_label_new : sg_label g' x = Some t.
Proof.
  unfold add_node in Hadd. destruct HI as [_ [_ Hf]].
  destruct (if rc then sg_free g else []) as [|f r] eqn:E.
  - injection Hadd as <- <-. unfold sg_label. cbn [sg_nodes]. rewrite app_nth2 by lia.
    now rewrite Nat.sub_diag.
  - injection Hadd as <- <-. destruct rc; [|discriminate]. unfold sg_label. cbn [sg_nodes].
    apply nth_set_nth_eq. apply Hf. rewrite E. now left.
Qed.

Lemma add_node_label_old y : y <> x -> sg_label g' y = sg_label g y.
Proof.
  intros Hy. unfold add_node in Hadd.
  destruct (if rc then sg_free g else []) as [|f r] eqn:E.
  - injection Hadd as <- <-. unfold sg_label. cbn [sg_nodes].
    destruct (Nat.lt_ge_cases y (length (sg_nodes g))) as [Hlt|Hge].
    + now rewrite app_nth1.
    + assert (Hy' : y <> length (sg_nodes g)) by exact Hy.
      rewrite (nth_overflow (sg_nodes g)) by lia.
      apply nth_overflow. rewrite app_length. cbn [length]. lia.
  - injection Hadd as <- <-. unfold sg_label. cbn [sg_nodes]. apply nth_set_nth_neq.
    intros E2. apply Hy. symmetry. exact E2.
Qed.

Lemma add_node_alive_old y : sg_alive g y = true -> sg_alive g' y = true.
Proof.
  intros H. unfold sg_alive in *. rewrite add_node_label_old; [exact H|].
  intros ->. now rewrite add_node_fresh in H.
Qed.

Lemma add_node_Inv : Inv g'.
Proof.
  destruct HI as [He [Hnd Hf]]. split.
  - intros a b Hab. rewrite add_node_edges in Hab. destruct (He a b Hab) as [Ha Hb].
    split; now apply add_node_alive_old.
  - unfold free_ok. unfold add_node in Hadd.
    destruct (if rc then sg_free g else []) as [|f r] eqn:E.
    + injection Hadd as Hx <-. cbn [sg_free sg_nodes]. split; [exact Hnd|].
      intros f Hin. destruct (Hf f Hin) as [H1 H2]. split; [rewrite app_length; lia|].
      unfold sg_label in *. cbn [sg_nodes]. now rewrite app_nth1.
    + injection Hadd as Hx <-. destruct rc; [|discriminate]. cbn [sg_free sg_nodes].
      rewrite E in Hnd, Hf. inversion Hnd as [|? ? Hnin Hnd']; subst.
      split; [exact Hnd'|]. intros f' Hin. destruct (Hf f' (or_intror Hin)) as [H1 H2].
      split; [now rewrite set_nth_length|]. unfold sg_label in *. cbn [sg_nodes].
      rewrite nth_set_nth_neq; [exact H2|]. intros ->. now apply Hnin.
Qed.

Lemma add_node_no_out : sg_out g' x = [].
Proof. rewrite add_node_out. apply vacant_no_out; [apply HI|apply add_node_fresh]. Qed.

Lemma add_node_not_child y : ~ In x (sg_out g' y).
Proof. rewrite add_node_out. apply vacant_not_child; [apply HI|apply add_node_fresh]. Qed.
End AddNode.

(* ---------- add_edge ---------- *)
Section AddEdge.
Variables (a b : nat) (g g' : sgraph).
Hypothesis Hadd : add_edge a b g = Some g'.

Lemma add_edge_alive : sg_alive g a = true /\ sg_alive g b = true.
Proof. unfold add_edge in Hadd. destruct (sg_alive g a), (sg_alive g b); try discriminate. now split. Qed.

Lemma add_edge_eq : g' = mkSG (sg_nodes g) ((a, b) :: sg_edges g) (sg_free g).
Proof. unfold add_edge in Hadd. destruct (_ && _); [now injection Hadd as <-|discriminate]. Qed.

Lemma add_edge_label y : sg_label g' y = sg_label g y.
Proof. now rewrite add_edge_eq. Qed.

Lemma add_edge_out_same : sg_out g' a = b :: sg_out g a.
Proof. rewrite add_edge_eq. unfold sg_out. cbn [sg_edges filter fst]. now rewrite Nat.eqb_refl. Qed.

Lemma add_edge_out_other y : y <> a -> sg_out g' y = sg_out g y.
Proof.
  intros Hy. rewrite add_edge_eq. unfold sg_out. cbn [sg_edges filter fst].
  assert (E : Nat.eqb a y = false) by (apply Nat.eqb_neq; lia). now rewrite E.
Qed.

Lemma add_edge_Inv : Inv g -> Inv g'.
Proof.
  intros [He Hf]. rewrite add_edge_eq. split.
  - intros p q [E|Hpq].
    + injection E as <- <-. exact add_edge_alive.
    + now apply He.
  - exact Hf.
Qed.
End AddEdge.

Lemma add_edge_some a b g : sg_alive g a = true -> sg_alive g b = true ->
  exists g', add_edge a b g = Some g'.
Proof. intros Ha Hb. unfold add_edge. rewrite Ha, Hb. eexists. reflexivity. Qed.

(* ---------- remove_edge ---------- *)
Lemma remove_edge_label a b g y : sg_label (remove_edge a b g) y = sg_label g y.
Proof. reflexivity. Qed.

Lemma remove_edge_out_same a b g : sg_out (remove_edge a b g) a = remove1 b (sg_out g a).
Proof. unfold sg_out. cbn [remove_edge sg_edges]. apply outs_remove_first_same. Qed.

Lemma remove_edge_out_other a b g y : y <> a -> sg_out (remove_edge a b g) y = sg_out g y.
Proof. intros H. unfold sg_out. cbn [remove_edge sg_edges]. now apply outs_remove_first_other. Qed.

Lemma remove_edge_Inv a b g : Inv g -> Inv (remove_edge a b g).
Proof.
  intros [He Hf]. split; [|exact Hf].
  intros p q H. apply remove_first_incl in H. now apply He.
Qed.

(* ---------- remove_node ---------- *)
Section RemoveNode.
Variables (x : nat) (g : sgraph).
Hypothesis HI : Inv g.
Hypothesis Hx : sg_alive g x = true.

Lemma alive_lt' : x < length (sg_nodes g).
Proof.
  unfold sg_alive, sg_label in Hx. destruct (Nat.lt_ge_cases x (length (sg_nodes g))) as [H|H]; [exact H|].
  rewrite nth_overflow in Hx by exact H. discriminate.
Qed.

Lemma remove_node_label_same : sg_label (remove_node x g) x = None.
Proof. unfold sg_label. cbn [remove_node sg_nodes]. apply nth_set_nth_eq, alive_lt'. Qed.

Lemma remove_node_label_other y : y <> x -> sg_label (remove_node x g) y = sg_label g y.
Proof. intros H. unfold sg_label. cbn [remove_node sg_nodes]. apply nth_set_nth_neq. lia. Qed.

Lemma remove_node_out y : sg_out (remove_node x g) y =
  if Nat.eqb y x then [] else filter (fun c => negb (Nat.eqb c x)) (sg_out g y).
Proof.
  unfold sg_out. cbn [remove_node sg_edges].
  induction (sg_edges g) as [|[p q] es IH]; [now destruct (Nat.eqb y x)|].
  cbn [filter fst snd].
  destruct (Nat.eqb_spec p x) as [->|Hp]; cbn [negb andb].
  - rewrite IH. destruct (Nat.eqb_spec x y) as [->|Hxy].
    + now rewrite Nat.eqb_refl.
    + reflexivity.
  - destruct (Nat.eqb_spec q x) as [->|Hq]; cbn [negb].
    + rewrite IH. destruct (Nat.eqb_spec p y) as [->|Hpy]; [|reflexivity].
      assert (E : Nat.eqb y x = false) by (apply Nat.eqb_neq; lia). rewrite E.
      cbn [map snd filter]. now rewrite Nat.eqb_refl.
    + cbn [filter fst]. destruct (Nat.eqb_spec p y) as [->|Hpy].
      * assert (E : Nat.eqb y x = false) by (apply Nat.eqb_neq; lia). rewrite E in *.
        cbn [map snd filter]. assert (E2 : Nat.eqb q x = false) by (apply Nat.eqb_neq; lia).
        rewrite E2. cbn [negb]. now rewrite IH.
      * exact IH.
Qed.

Lemma remove_node_Inv : Inv (remove_node x g).
Proof.
  destruct HI as [He [Hnd Hf]]. split.
  - intros p q H. cbn [remove_node sg_edges] in H. apply filter_In in H. destruct H as [H E].
    cbn [fst snd] in E. apply andb_true_iff in E. destruct E as [E1 E2].
    apply negb_true_iff, Nat.eqb_neq in E1. apply negb_true_iff, Nat.eqb_neq in E2.
    destruct (He p q H) as [Hp Hq]. unfold sg_alive in *.
    rewrite !remove_node_label_other by lia. now split.
  - unfold free_ok. cbn [remove_node sg_free sg_nodes]. split.
    + constructor; [|exact Hnd]. intros Hin. destruct (Hf x Hin) as [_ Hl].
      unfold sg_alive in Hx. now rewrite Hl in Hx.
    + intros f [<-|Hin].
      * split; [rewrite set_nth_length; apply alive_lt'|apply remove_node_label_same].
      * destruct (Hf f Hin) as [H1 H2]. split; [now rewrite set_nth_length|].
        destruct (Nat.eq_dec f x) as [->|Hne]; [apply remove_node_label_same|].
        now rewrite remove_node_label_other.
Qed.
End RemoveNode.

(* ---------- set_label / remove_out_edges (repair F12) ---------- *)
Lemma set_label_label_same x t g : sg_alive g x = true -> sg_label (set_label x t g) x = Some t.
Proof. intros H. unfold sg_label. cbn [set_label sg_nodes]. apply nth_set_nth_eq. now apply (alive_lt' x g). Qed.

Lemma set_label_label_other x t g y : y <> x -> sg_label (set_label x t g) y = sg_label g y.
Proof. intros H. unfold sg_label. cbn [set_label sg_nodes]. apply nth_set_nth_neq. lia. Qed.

Lemma set_label_out x t g y : sg_out (set_label x t g) y = sg_out g y.
Proof. reflexivity. Qed.

Lemma set_label_Inv x t g : Inv g -> sg_alive g x = true -> Inv (set_label x t g).
Proof.
  intros [He [Hnd Hf]] Hx. split.
  - intros a b Hab. destruct (He a b Hab) as [Ha Hb]. unfold sg_alive in *.
    split.
    + destruct (Nat.eq_dec a x) as [->|Hne]; [now rewrite set_label_label_same|now rewrite set_label_label_other].
    + destruct (Nat.eq_dec b x) as [->|Hne]; [now rewrite set_label_label_same|now rewrite set_label_label_other].
  - unfold free_ok. cbn [set_label sg_free sg_nodes]. split; [exact Hnd|].
    intros f Hin. destruct (Hf f Hin) as [H1 H2]. split; [now rewrite set_nth_length|].
    assert (Hne : f <> x) by (intros ->; unfold sg_alive in Hx; now rewrite H2 in Hx).
    now rewrite set_label_label_other.
Qed.

Lemma remove_out_edges_label x g y : sg_label (remove_out_edges x g) y = sg_label g y.
Proof. reflexivity. Qed.

Lemma remove_out_edges_out x g y :
  sg_out (remove_out_edges x g) y = if Nat.eqb y x then [] else sg_out g y.
Proof.
  unfold sg_out. cbn [remove_out_edges sg_edges].
  induction (sg_edges g) as [|[p q] es IH]; [now destruct (Nat.eqb y x)|].
  cbn [filter fst]. destruct (Nat.eqb_spec p x) as [->|Hp]; cbn [negb].
  - rewrite IH. destruct (Nat.eqb_spec x y) as [->|Hxy]; [now rewrite Nat.eqb_refl|reflexivity].
  - cbn [filter fst]. destruct (Nat.eqb_spec p y) as [->|Hpy].
    + assert (E : Nat.eqb y x = false) by (apply Nat.eqb_neq; lia). rewrite E in *.
      cbn [map snd]. now rewrite IH.
    + exact IH.
Qed.

Lemma remove_out_edges_Inv x g : Inv g -> Inv (remove_out_edges x g).
Proof.
  intros [He Hf]. split; [|exact Hf]. intros a b H. cbn [remove_out_edges sg_edges] in H.
  apply filter_In in H. now apply He.
Qed.

(* ---------- only and / or nodes have outgoing edges ---------- *)
Definition is_gate (t : tid) : bool := match t with GAnd | GOr => true | _ => false end.

Definition gate_at (g : sgraph) (a : nat) : Prop := exists t, sg_label g a = Some t /\ is_gate t = true.

Definition srcs_ok (g : sgraph) : Prop := forall a b, In (a, b) (sg_edges g) -> gate_at g a.

Lemma add_node_srcs rc t g g' x : Inv g -> add_node rc t g = (x, g') -> srcs_ok g -> srcs_ok g'.
Proof.
  intros HI Ha H a b Hab. rewrite (add_node_edges rc t g g' x Ha) in Hab.
  destruct (H a b Hab) as [ta [Hl Hg]]. exists ta. split; [|exact Hg].
  rewrite (add_node_label_old rc t g g' x Ha); [exact Hl|].
  intros ->. rewrite (add_node_fresh rc t g g' x HI Ha) in Hl. discriminate.
Qed.

Lemma add_edge_srcs a b g g' : add_edge a b g = Some g' -> gate_at g a -> srcs_ok g -> srcs_ok g'.
Proof.
  intros E Ha H p q Hpq. rewrite (add_edge_eq a b g g' E) in Hpq. cbn [sg_edges] in Hpq.
  unfold gate_at. rewrite (add_edge_label a b g g' E).
  destruct Hpq as [Epq|Hpq]; [injection Epq as <- <-; exact Ha|now apply (H p q)].
Qed.

Lemma remove_edge_srcs a b g : srcs_ok g -> srcs_ok (remove_edge a b g).
Proof. intros H p q Hpq. cbn [remove_edge sg_edges] in Hpq. apply remove_first_incl in Hpq. now apply (H p q). Qed.

Lemma srcs_out_gate g x c : srcs_ok g -> In c (sg_out g x) -> gate_at g x.
Proof. intros H Hc. apply (H x c). now apply in_outs. Qed.

Lemma add_edge_out_mono a b g g' x z : add_edge a b g = Some g' -> In z (sg_out g x) -> In z (sg_out g' x).
Proof.
  intros E H. rewrite (add_edge_eq a b g g' E). apply in_outs. cbn [sg_edges]. right. now apply in_outs.
Qed.
