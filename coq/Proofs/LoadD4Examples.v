(* Two d4 files as token lists and as text, with the vectors the implementation dumped for them
   (harness kind ld4: cases ld4-corpus-0 and "Props example").  Used by the non-vacuity Examples
   of Props/C01.v and Props/C18.v. *)
From Coq Require Import List ZArith String.
From DD Require Import Model.Circuit Model.LexerD4 Model.LoadD4.
Import ListNotations.
Local Open Scope Z_scope.

(* tests/data/small_ex_d4.nnf *)
Definition small_ex_d4_text : list string :=
  ["o 1 0"; "o 2 0"; "o 3 0"; "f 4 0"; "t 5 0"; "3 4 -3 0"; "3 5 3 0"; "o 6 0"; "6 5 -3 0";
   "6 4 3 0"; "2 3 -2 0"; "2 6 2 0"; "1 2 1 0"]%string.
Definition small_ex_d4 : list d4token :=
  [DOr; DOr; DOr; DFalse; DTrue; DEdge 3 4 [-3]; DEdge 3 5 [3]; DOr; DEdge 6 5 [-3];
   DEdge 6 4 [3]; DEdge 2 3 [-2]; DEdge 2 6 [2]; DEdge 1 2 [1]].
Definition small_ex_d4_vector : circuit :=
  [Lit 1; Lit (-2); Lit 3; And [2]%nat; Or [3]%nat; And [4; 1]%nat; Lit 2; Lit (-3); And [7]%nat;
   Or [8]%nat; And [9; 6]%nat; Or [10; 5]%nat; And [11; 0]%nat; Or [12]%nat; Lit 4; Lit (-4);
   Or [15; 14]%nat; And [16; 13]%nat].

(* a file that needs smoothing at both or nodes, has the free feature 5, an edge into the false
   node (dead branch) and the shared node 2 *)
Definition mixed_d4_text : list string :=
  ["o 1 0"; "o 2 0"; "t 3 0"; "f 4 0"; "2 3 2 0"; "2 3 -2 3 0"; "1 2 1 0"; "1 2 -1 4 0";
   "1 4 -1 -4 0"]%string.
Definition mixed_d4 : list d4token :=
  [DOr; DOr; DTrue; DFalse; DEdge 2 3 [2]; DEdge 2 3 [-2; 3]; DEdge 1 2 [1]; DEdge 1 2 [-1; 4];
   DEdge 1 4 [-1; -4]].
Definition mixed_d4_vector : circuit :=
  [Lit (-1); Lit 4; Lit (-2); Lit 3; And [3; 2]%nat; Lit 2; And [5]%nat; Lit (-3); Or [7; 3]%nat;
   And [8; 6]%nat; Or [9; 4]%nat; And [10; 1; 0]%nat; Lit 1; And [10; 12]%nat; Lit (-4);
   Or [14; 1]%nat; And [15; 13]%nat; Or [16; 11]%nat; Lit 5; Lit (-5); Or [19; 18]%nat;
   And [20; 17]%nat].

Example small_ex_d4_lexes : lex_lines_d4 small_ex_d4_text = Some small_ex_d4.
Proof. vm_compute. reflexivity. Qed.
Example mixed_d4_lexes : lex_lines_d4 mixed_d4_text = Some mixed_d4.
Proof. vm_compute. reflexivity. Qed.

Example small_ex_d4_loads : load_lines small_ex_d4_text 4 = Some (small_ex_d4_vector, 4%nat).
Proof. vm_compute. reflexivity. Qed.
Example mixed_d4_loads : load_lines mixed_d4_text 5 = Some (mixed_d4_vector, 5%nat).
Proof. vm_compute. reflexivity. Qed.
Example mixed_d4_loads_tokens : load_d4 mixed_d4 5 = Some (mixed_d4_vector, 5%nat).
Proof. vm_compute. reflexivity. Qed.

(* panics: the lone false node with a free feature (finding K9), an and root with a false child *)
Example lone_false_panics : load_d4 [DFalse] 2 = None /\ load_d4 [DFalse] 0 = Some ([FalseN], 0%nat).
Proof. split; vm_compute; reflexivity. Qed.
Example dead_root_panics : load_d4 [DAnd; DFalse; DEdge 1 2 []] 0 = None.
Proof. vm_compute. reflexivity. Qed.

(* d4's root idiom for a tautology (repair F12), as dumped by the patched implementation
   (harness kind ld4, hand cases "or root, unlabelled true child" / "d4 root idiom ..") *)
Example tautology_loads :
  load_lines ["o 1 0"; "t 2 0"; "1 2 0"]%string 0 = Some ([TrueN], 0%nat) /\
  load_lines ["o 1 0"; "t 2 0"; "1 2 0"]%string 1 =
    Some ([Lit 1; Lit (-1); Or [1; 0]%nat; And [2]%nat], 1%nat) /\
  load_lines ["o 1 0"; "t 2 0"; "1 2 0"]%string 3 =
    Some ([Lit 1; Lit (-1); Or [1; 0]%nat; Lit 2; Lit (-2); Or [4; 3]%nat; Lit 3; Lit (-3);
           Or [7; 6]%nat; And [8; 5; 2]%nat], 3%nat).
Proof. repeat split; vm_compute; reflexivity. Qed.
(* nested or -> or -> t, and an or -> t below an and node *)
Example nested_or_true_loads :
  load_lines ["o 1 0"; "o 2 0"; "o 3 0"; "t 4 0"; "3 4 0"; "2 3 0"; "1 2 0"]%string 1 =
    Some ([Lit 1; Lit (-1); Or [1; 0]%nat; And [2]%nat], 1%nat) /\
  load_lines ["o 1 0"; "a 2 0"; "o 3 0"; "t 4 0"; "3 4 0"; "2 3 0"; "1 2 1 0"; "1 4 -1 0"]%string 1 =
    Some ([Lit 1; And []; And [1; 0]%nat; Lit (-1); And [3]%nat; Or [4; 2]%nat], 1%nat).
Proof. split; vm_compute; reflexivity. Qed.
