(* C07 (6): algebra of the finite-distribution monad over Q (expectations are linear, dbind is
   iterated expectation), and the uniform law on permutations: the element at any fixed position
   is uniformly distributed. *)
From Coq Require Import List ZArith QArith Bool Lia Permutation.
From DD Require Import Model.Circuit Model.Query Model.Enumerate Proofs.C07Defs Proofs.C07Valid
     Proofs.C07IdealDefs Proofs.C07GeneralDefs.
Import ListNotations.

(* ---------- sums in Q ---------- *)

Definition qsumf {X} (g : X -> Q) (l : list X) : Q := qsum (map g l).

Lemma qsum_cons x l : qsum (x :: l) = (x + qsum l)%Q.
Proof. reflexivity. Qed.

Lemma qsum_app l1 l2 : (qsum (l1 ++ l2) == qsum l1 + qsum l2)%Q.
Proof.
  induction l1 as [|x l1 IH]; cbn [app].
  - change (qsum []) with 0%Q. ring.
  - rewrite !qsum_cons, IH. ring.
Qed.

Lemma qsumf_nil {X} (g : X -> Q) : qsumf g [] = 0%Q.
Proof. reflexivity. Qed.

Lemma qsumf_cons {X} (g : X -> Q) x l : qsumf g (x :: l) = (g x + qsumf g l)%Q.
Proof. reflexivity. Qed.

Lemma qsumf_app {X} (g : X -> Q) l1 l2 : (qsumf g (l1 ++ l2) == qsumf g l1 + qsumf g l2)%Q.
Proof. unfold qsumf. rewrite map_app. apply qsum_app. Qed.

Lemma qsumf_ext {X} (g g' : X -> Q) l :
  (forall x, In x l -> (g x == g' x)%Q) -> (qsumf g l == qsumf g' l)%Q.
Proof.
  induction l as [|x l IH]; intros H; [reflexivity|].
  rewrite !qsumf_cons. rewrite (H x (or_introl eq_refl)), IH; [reflexivity|].
  intros y Hy. apply H. now right.
Qed.

Lemma qsumf_scale {X} (c : Q) (g : X -> Q) l : (qsumf (fun x => c * g x) l == c * qsumf g l)%Q.
Proof.
  induction l as [|x l IH]; [rewrite !qsumf_nil; ring|]. rewrite !qsumf_cons, IH. ring.
Qed.

Lemma qsumf_plus {X} (g h : X -> Q) l :
  (qsumf (fun x => g x + h x) l == qsumf g l + qsumf h l)%Q.
Proof.
  induction l as [|x l IH]; [rewrite !qsumf_nil; ring|]. rewrite !qsumf_cons, IH. ring.
Qed.

Lemma qsumf_zero {X} (l : list X) : (qsumf (fun _ => 0) l == 0)%Q.
Proof. induction l as [|x l IH]; [reflexivity|]. rewrite qsumf_cons, IH. ring. Qed.

Lemma qsumf_const {X} (c : Q) (l : list X) :
  (qsumf (fun _ => c) l == inject_Z (Z.of_nat (length l)) * c)%Q.
Proof.
  induction l as [|x l IH]; [rewrite qsumf_nil; cbn; ring|].
  rewrite qsumf_cons, IH. cbn [length]. rewrite Nat2Z.inj_succ. unfold Z.succ.
  rewrite inject_Z_plus. ring.
Qed.

Lemma qsumf_map {X Y} (f : X -> Y) (g : Y -> Q) l : qsumf g (map f l) = qsumf (fun x => g (f x)) l.
Proof. unfold qsumf. now rewrite map_map. Qed.

Lemma qsumf_flat_map {X Y} (f : X -> list Y) (g : Y -> Q) l :
  (qsumf g (flat_map f l) == qsumf (fun x => qsumf g (f x)) l)%Q.
Proof.
  induction l as [|x l IH]; [reflexivity|]. cbn [flat_map]. rewrite qsumf_app, qsumf_cons, IH. reflexivity.
Qed.

Lemma qsumf_concat {Y} (g : Y -> Q) (Ls : list (list Y)) :
  (qsumf g (concat Ls) == qsumf (qsumf g) Ls)%Q.
Proof.
  induction Ls as [|L Ls IH]; [reflexivity|]. cbn [concat]. rewrite qsumf_app, qsumf_cons, IH. reflexivity.
Qed.

Lemma qsumf_perm {X} (g : X -> Q) l l' : Permutation l l' -> (qsumf g l == qsumf g l')%Q.
Proof.
  induction 1 as [|x l l' H IH|x y l|l l' l'' H1 IH1 H2 IH2].
  - reflexivity.
  - rewrite !qsumf_cons, IH. reflexivity.
  - rewrite !qsumf_cons. ring.
  - now rewrite IH1.
Qed.

Lemma qsumf_swap {X Y} (h : X -> Y -> Q) (l : list X) (m : list Y) :
  (qsumf (fun x => qsumf (h x) m) l == qsumf (fun y => qsumf (fun x => h x y) l) m)%Q.
Proof.
  induction l as [|x l IH].
  - rewrite qsumf_nil. symmetry. apply qsumf_zero.
  - rewrite qsumf_cons, IH. rewrite <- qsumf_plus. apply qsumf_ext. intros y _.
    rewrite qsumf_cons. reflexivity.
Qed.

(* the elements of a list, addressed by position *)
Lemma qsumf_positions (g : cfg -> Q) (l : list cfg) :
  (qsumf g l == qsumf (fun j => g (nth j l [])) (seq 0 (length l)))%Q.
Proof.
  induction l as [|x l IH]; [reflexivity|].
  cbn [length seq]. rewrite !qsumf_cons. cbn [nth]. rewrite IH.
  rewrite <- seq_shift, qsumf_map. reflexivity.
Qed.

(* ---------- expectations ---------- *)

Lemma expect_qsumf {X} (D : dist X) g : expect D g = qsumf (fun xw => (snd xw * g (fst xw))%Q) D.
Proof. reflexivity. Qed.

Lemma expect_nil {X} (g : X -> Q) : expect [] g = 0%Q.
Proof. reflexivity. Qed.

Lemma expect_cons {X} (x : X) w D g : expect ((x, w) :: D) g = (w * g x + expect D g)%Q.
Proof. reflexivity. Qed.

Lemma expect_app {X} (D1 D2 : dist X) g : (expect (D1 ++ D2) g == expect D1 g + expect D2 g)%Q.
Proof. rewrite !expect_qsumf. apply qsumf_app. Qed.

Lemma expect_ret {X} (x : X) g : (expect (dret x) g == g x)%Q.
Proof. unfold dret. rewrite expect_cons, expect_nil. ring. Qed.

Lemma expect_ext {X} (D : dist X) g g' :
  (forall x w, In (x, w) D -> (g x == g' x)%Q) -> (expect D g == expect D g')%Q.
Proof.
  intros H. rewrite !expect_qsumf. apply qsumf_ext. intros [x w] Hx. cbn [fst snd].
  rewrite (H x w Hx). reflexivity.
Qed.

Lemma expect_scale {X} (D : dist X) c g : (expect D (fun x => c * g x) == c * expect D g)%Q.
Proof.
  rewrite !expect_qsumf. rewrite <- qsumf_scale. apply qsumf_ext. intros xw _. ring.
Qed.

Lemma expect_plus {X} (D : dist X) g h :
  (expect D (fun x => g x + h x) == expect D g + expect D h)%Q.
Proof.
  rewrite !expect_qsumf. rewrite <- qsumf_plus. apply qsumf_ext. intros xw _. ring.
Qed.

Lemma expect_const {X} (D : dist X) c : (expect D (fun _ => c) == total D * c)%Q.
Proof.
  rewrite (expect_ext D (fun _ => c) (fun _ => c * 1)%Q) by (intros; ring).
  rewrite (expect_scale D c (fun _ => 1%Q)). unfold total. ring.
Qed.

Lemma expect_zero {X} (D : dist X) : (expect D (fun _ => 0) == 0)%Q.
Proof. rewrite expect_const. ring. Qed.

Lemma expect_map_scale {X Y} (f : X -> Y) (c : Q) (D : dist X) g :
  (expect (map (fun yv => (f (fst yv), c * snd yv)) D) g == c * expect D (fun x => g (f x)))%Q.
Proof.
  rewrite !expect_qsumf, qsumf_map. rewrite <- qsumf_scale. apply qsumf_ext.
  intros xw _. cbn [fst snd]. ring.
Qed.

Lemma expect_bind {X Y} (D : dist X) (f : X -> dist Y) g :
  (expect (dbind D f) g == expect D (fun x => expect (f x) g))%Q.
Proof.
  unfold dbind. induction D as [|[x w] D IH]; [reflexivity|].
  cbn [flat_map fst snd]. rewrite expect_app, expect_cons, IH.
  rewrite (expect_map_scale (fun y => y) w (f x) g). reflexivity.
Qed.

Lemma expect_qsumf_swap {X Y} (D : dist X) (h : Y -> X -> Q) (js : list Y) :
  (expect D (fun x => qsumf (fun j => h j x) js) == qsumf (fun j => expect D (h j)) js)%Q.
Proof.
  induction js as [|j js IH].
  - rewrite qsumf_nil. apply expect_zero.
  - rewrite qsumf_cons, <- IH, <- expect_plus. apply expect_ext. intros x w _.
    rewrite qsumf_cons. reflexivity.
Qed.

Lemma total_ret {X} (x : X) : (total (dret x) == 1)%Q.
Proof. unfold total. apply (expect_ret x (fun _ => 1%Q)). Qed.

Lemma total_bind {X Y} (D : dist X) (f : X -> dist Y) :
  (forall x w, In (x, w) D -> (total (f x) == 1)%Q) -> (total (dbind D f) == total D)%Q.
Proof.
  intros H. unfold total at 1. rewrite expect_bind. apply expect_ext. exact H.
Qed.

(* support *)
Lemma in_dret {X} (x y : X) w : In (y, w) (dret x) -> y = x /\ w = 1%Q.
Proof. intros [H|[]]. injection H as <- <-. auto. Qed.

Lemma in_dbind {X Y} (D : dist X) (f : X -> dist Y) y w :
  In (y, w) (dbind D f) ->
  exists x wx wy, In (x, wx) D /\ In (y, wy) (f x) /\ w = (wx * wy)%Q.
Proof.
  unfold dbind. intros H. apply in_flat_map in H. destruct H as [[x wx] [Hx H]].
  apply in_map_iff in H. destruct H as [[y' wy] [E Hy]]. cbn [fst snd] in E. injection E as <- <-.
  exists x, wx, wy. auto.
Qed.

Lemma dbind_nonneg {X Y} (D : dist X) (f : X -> dist Y) :
  (forall x w, In (x, w) D -> (0 <= w)%Q) ->
  (forall x w y v, In (x, w) D -> In (y, v) (f x) -> (0 <= v)%Q) ->
  forall y v, In (y, v) (dbind D f) -> (0 <= v)%Q.
Proof.
  intros HD Hf y v H. apply in_dbind in H. destruct H as [x [wx [wy [Hx [Hy ->]]]]].
  apply Qmult_le_0_compat; [exact (HD x wx Hx)|exact (Hf x wx y wy Hx Hy)].
Qed.

(* ---------- the uniform law on permutations ---------- *)

Lemma selects_fst {X} (l : list X) : map fst (selects l) = l.
Proof.
  induction l as [|x l IH]; [reflexivity|]. cbn [selects map fst]. f_equal.
  rewrite map_map. cbn [fst]. exact IH.
Qed.

Lemma selects_perm {X} (l : list X) x r : In (x, r) (selects l) -> Permutation l (x :: r).
Proof.
  revert x r. induction l as [|y l IH]; intros x r H; [destruct H|].
  cbn [selects] in H. destruct H as [H|H].
  - injection H as <- <-. reflexivity.
  - apply in_map_iff in H. destruct H as [[x' r'] [E H]]. cbn [fst snd] in E. injection E as <- <-.
    rewrite (IH x' r' H). apply perm_swap.
Qed.

Lemma selects_length {X} (l : list X) : length (selects l) = length l.
Proof. rewrite <- (selects_fst l) at 2. now rewrite map_length. Qed.

Lemma qnat_nonzero m : (0 < m)%nat -> ~ (inject_Z (Z.of_nat m) == 0)%Q.
Proof. intros H. unfold Qeq, inject_Z. cbn. lia. Qed.

(* the expectation under uperm_f (S f) l, unfolded *)
Lemma expect_uperm_S f l (g : list nat -> Q) :
  (expect (uperm_f (S f) l) g ==
   1 / inject_Z (Z.of_nat (length l)) *
   qsumf (fun xr => expect (uperm_f f (snd xr)) (fun p => g (fst xr :: p))) (selects l))%Q.
Proof.
  cbn [uperm_f]. rewrite expect_bind. rewrite expect_qsumf, qsumf_map. cbn [fst snd].
  rewrite <- qsumf_scale. apply qsumf_ext. intros xr _.
  rewrite expect_bind. apply Qmult_comp; [reflexivity|].
  apply expect_ext. intros p w _. apply expect_ret.
Qed.

Lemma uperm_f_support f : forall l p w, length l = f -> In (p, w) (uperm_f f l) ->
  Permutation p l /\ (0 <= w)%Q.
Proof.
  induction f as [|f IH]; intros l p w Hl H.
  - destruct l; [|discriminate]. apply in_dret in H. destruct H as [-> ->]. split; [constructor|discriminate].
  - cbn [uperm_f] in H. apply in_dbind in H. destruct H as [[x r] [w1 [w2 [H1 [H2 ->]]]]].
    apply in_map_iff in H1. destruct H1 as [[x' r'] [E H1]]. injection E as -> -> <-.
    cbn [fst snd] in H2. apply in_dbind in H2. destruct H2 as [p' [w3 [w4 [H3 [H4 ->]]]]].
    apply in_dret in H4. destruct H4 as [-> ->].
    pose proof (selects_perm l x r H1) as HP.
    assert (Hr : length r = f). { apply Permutation_length in HP. cbn [length] in HP. lia. }
    destruct (IH r p' w3 Hr H3) as [HP' Hw]. split.
    + rewrite HP. now constructor.
    + apply Qmult_le_0_compat; [|apply Qmult_le_0_compat; [exact Hw|discriminate]].
      apply Qle_shift_div_l; [|rewrite Qmult_0_l; discriminate].
      unfold Qlt, inject_Z. cbn. lia.
Qed.

Lemma uperm_f_total f : forall l, length l = f -> (total (uperm_f f l) == 1)%Q.
Proof.
  induction f as [|f IH]; intros l Hl.
  - apply total_ret.
  - unfold total. rewrite expect_uperm_S.
    rewrite (qsumf_ext _ (fun _ => 1%Q)).
    + rewrite qsumf_const, selects_length. field. apply qnat_nonzero. lia.
    + intros [x r] Hx. cbn [fst snd]. apply (IH r).
      apply selects_perm, Permutation_length in Hx. cbn [length] in Hx. lia.
Qed.

(* the sum over the rests: every element is left out exactly once *)
Lemma selects_rest_sum (h : nat -> Q) (l : list nat) :
  (qsumf (fun xr => qsumf h (snd xr)) (selects l)
   == (inject_Z (Z.of_nat (length l)) - 1) * qsumf h l)%Q.
Proof.
  rewrite (qsumf_ext _ (fun xr => qsumf h l - h (fst xr))%Q).
  - unfold Qminus at 1. rewrite qsumf_plus, qsumf_const, selects_length.
    rewrite <- (qsumf_map fst (fun x => - h x)%Q), selects_fst.
    rewrite (qsumf_ext (fun x => - h x)%Q (fun x => (-1) * h x)%Q) by (intros; ring).
    rewrite qsumf_scale. ring.
  - intros [x r] Hx. cbn [fst snd]. rewrite (qsumf_perm h _ _ (selects_perm l x r Hx)).
    rewrite qsumf_cons. ring.
Qed.

(* the element at position j of a uniformly drawn permutation of l is uniform on l *)
Lemma uperm_f_position (h : nat -> Q) f : forall l j, length l = f -> (j < f)%nat ->
  (expect (uperm_f f l) (fun p => h (nth j p 0%nat))
   == 1 / inject_Z (Z.of_nat f) * qsumf h l)%Q.
Proof.
  induction f as [|f IH]; intros l j Hl Hj; [lia|].
  rewrite expect_uperm_S, Hl. apply Qmult_comp; [reflexivity|].
  destruct j as [|j].
  - cbn [nth]. rewrite (qsumf_ext _ (fun xr => h (fst xr))).
    + rewrite <- (qsumf_map fst h), selects_fst. reflexivity.
    + intros [x r] Hx. cbn [fst snd]. rewrite expect_const.
      rewrite (uperm_f_total f r); [ring|].
      apply selects_perm, Permutation_length in Hx. cbn [length] in Hx. lia.
  - cbn [nth].
    rewrite (qsumf_ext _ (fun xr => 1 / inject_Z (Z.of_nat f) * qsumf h (snd xr))%Q).
    + rewrite qsumf_scale, selects_rest_sum, Hl. rewrite Nat2Z.inj_succ. unfold Z.succ.
      rewrite inject_Z_plus. field. apply qnat_nonzero. lia.
    + intros [x r] Hx. cbn [fst snd]. apply IH; [|lia].
      apply selects_perm, Permutation_length in Hx. cbn [length] in Hx. lia.
Qed.

(* ---- uperm m ---- *)

Lemma uperm_total m : (total (uperm m) == 1)%Q.
Proof. apply uperm_f_total. apply seq_length. Qed.

Lemma uperm_support m p w : In (p, w) (uperm m) ->
  length p = m /\ is_perm p = true /\ (forall x, In x p -> (x < m)%nat) /\ (0 <= w)%Q.
Proof.
  intros H. destruct (uperm_f_support m (seq 0 m) p w (seq_length m 0) H) as [HP Hw].
  assert (Hlen : length p = m) by (rewrite (Permutation_length HP); apply seq_length).
  split; [exact Hlen|]. split; [|split; [|exact Hw]].
  - unfold is_perm. apply forallb_forall. intros x Hx. apply existsb_exists. exists x.
    split; [|apply Nat.eqb_refl]. rewrite Hlen in Hx. apply (Permutation_in _ (Permutation_sym HP)). exact Hx.
  - intros x Hx. apply (Permutation_in _ HP) in Hx. apply in_seq in Hx. lia.
Qed.

Lemma uperm_position (h : nat -> Q) m j : (j < m)%nat ->
  (expect (uperm m) (fun p => h (nth j p 0%nat))
   == 1 / inject_Z (Z.of_nat m) * qsumf h (seq 0 m))%Q.
Proof. intros Hj. apply uperm_f_position; [apply seq_length|exact Hj]. Qed.

(* element j of a uniformly shuffled list is a uniformly chosen element of the list *)
Lemma nth_apply_perm (l : list cfg) p j : (j < length p)%nat ->
  nth j (apply_perm p l []) [] = nth (nth j p 0%nat) l [].
Proof.
  intros Hj. unfold apply_perm.
  rewrite (nth_indep _ [] (nth 0%nat l [])) by (rewrite map_length; exact Hj).
  change (nth 0%nat l []) with ((fun i => nth i l []) 0%nat). apply map_nth.
Qed.

Lemma shuffle_position (g : cfg -> Q) (l : list cfg) j : (j < length l)%nat ->
  (expect (uperm (length l)) (fun p => g (nth j (apply_perm p l []) []))
   == 1 / inject_Z (Z.of_nat (length l)) * qsumf g l)%Q.
Proof.
  intros Hj.
  rewrite (expect_ext _ _ (fun p => g (nth (nth j p 0%nat) l []))).
  - rewrite (uperm_position (fun i => g (nth i l [])) (length l) j Hj).
    rewrite <- qsumf_positions. reflexivity.
  - intros p w Hp. destruct (uperm_support _ _ _ Hp) as [Hlen _].
    rewrite nth_apply_perm by lia. reflexivity.
Qed.

(* the three facts about the uniform shuffle, together *)
Theorem uperm_ideal m :
  (total (uperm m) == 1)%Q /\
  (forall p w, In (p, w) (uperm m) ->
     length p = m /\ is_perm p = true /\ (forall x, In x p -> (x < m)%nat) /\ (0 <= w)%Q) /\
  forall (h : nat -> Q) j, (j < m)%nat ->
    (expect (uperm m) (fun p => h (nth j p 0%nat))
     == 1 / inject_Z (Z.of_nat m) * qsumf h (seq 0 m))%Q.
Proof.
  split; [exact (uperm_total m)|]. split; [exact (uperm_support m)|].
  intros h j. exact (uperm_position h m j).
Qed.

Lemma total_red_eq {X} (D : dist X) : (total_red D == total D)%Q.
Proof.
  unfold total_red, total.
  assert (H : forall acc, (fold_left (fun a e => Qred (a + snd e)) D acc == acc + expect D (fun _ => 1))%Q).
  { induction D as [|[x w] D IH]; intros acc; cbn [fold_left snd].
    - rewrite expect_nil. ring.
    - rewrite IH, expect_cons, Qred_correct. ring. }
  rewrite H. ring.
Qed.
