(* C08 support, truth-table level: equivalence of two literals under assumptions versus the three
   counts get_atomic_sets compares, and the sign vectors built from valid samples. *)
From Coq Require Import List ZArith Bool Lia.
From DD Require Import Model.Circuit Model.Query Model.Enumerate Model.Atomic
  Proofs.Semantics Proofs.CountsA Proofs.C02Proof Proofs.C05Proof.
Import ListNotations.
Open Scope Z_scope.

(* the specification relation: same value in every model that contains the assumptions *)
Definition Eqv (C : circuit) (n : nat) (A : cfg) (x y : Z) : Prop :=
  forall m, In m (ModelsA C n A) -> memZ x m = memZ y m.

Lemma eqvb_spec C n A x y : eqvb C n A x y = true <-> Eqv C n A x y.
Proof.
  unfold eqvb, Eqv. rewrite forallb_forall. split; intros H m Hm.
  - apply eqb_prop. now apply H.
  - rewrite (H m Hm). apply eqb_reflx.
Qed.

Lemma Eqv_refl C n A x : Eqv C n A x x.
Proof. intros m _. reflexivity. Qed.
Lemma Eqv_sym C n A x y : Eqv C n A x y -> Eqv C n A y x.
Proof. intros H m Hm. symmetry. now apply H. Qed.
Lemma Eqv_trans C n A x y z : Eqv C n A x y -> Eqv C n A y z -> Eqv C n A x z.
Proof. intros H1 H2 m Hm. now rewrite (H1 m Hm), (H2 m Hm). Qed.

Lemma ModelsA_table C n A m : In m (ModelsA C n A) -> In m (all_cfgs n).
Proof. unfold ModelsA. intros H. apply filter_In in H. apply Models_in_table with (C := C). apply H. Qed.

(* negating both literals preserves equivalence *)
Lemma Eqv_opp C n A x y : 1 <= Z.abs x <= Z.of_nat n -> 1 <= Z.abs y <= Z.of_nat n ->
  Eqv C n A x y -> Eqv C n A (- x) (- y).
Proof.
  intros Hx Hy H m Hm. pose proof (ModelsA_table C n A m Hm) as Ht.
  assert (Hneg : forall l, 1 <= Z.abs l <= Z.of_nat n -> memZ (- l) m = negb (memZ l m)).
  { intros l Hl. destruct (Z_lt_le_dec 0 l) as [Hpos|Hnp].
    - apply (table_memZ_opp n); [exact Ht|lia].
    - rewrite <- (Z.opp_involutive l) at 2. rewrite (table_memZ_opp n m (- l)); [|exact Ht|lia].
      now rewrite negb_involutive. }
  rewrite (Hneg x Hx), (Hneg y Hy). f_equal. now apply H.
Qed.

(* a literal and its complement never agree on a model *)
Lemma Eqv_opp_self C n A x : 1 <= Z.abs x <= Z.of_nat n -> 0 < MCA C n A -> ~ Eqv C n A x (- x).
Proof.
  intros Hx Hpos H. unfold MCA in Hpos. destruct (ModelsA C n A) as [|m M] eqn:E; [cbn in Hpos; lia|].
  assert (Hm : In m (ModelsA C n A)) by (rewrite E; now left).
  pose proof (ModelsA_table C n A m Hm) as Ht. specialize (H m Hm).
  destruct (Z_lt_le_dec 0 x) as [Hp|Hnp].
  - rewrite (table_memZ_opp n m x Ht) in H by lia. destruct (memZ x m); discriminate.
  - rewrite <- (Z.opp_involutive x) in H at 1. rewrite (table_memZ_opp n m (- x) Ht) in H by lia.
    destruct (memZ (- x) m); discriminate.
Qed.

(* ---- counts as filters of ModelsA ---- *)
Lemma MCA_cons1 C n A x :
  MCA C n (x :: A) = Z.of_nat (length (filter (fun m => memZ x m) (ModelsA C n A))).
Proof.
  unfold MCA, ModelsA. rewrite filter_filter. do 2 f_equal. apply filter_ext. intros m.
  cbn [contains_all forallb]. apply andb_comm.
Qed.

Lemma MCA_cons2 C n A x y :
  MCA C n (x :: y :: A) =
  Z.of_nat (length (filter (fun m => memZ x m && memZ y m) (ModelsA C n A))).
Proof.
  unfold MCA, ModelsA. rewrite filter_filter. do 2 f_equal. apply filter_ext. intros m.
  cbn [contains_all forallb]. rewrite andb_assoc. apply andb_comm.
Qed.

Lemma filter_and_len {T} (p q : T -> bool) (l : list T) :
  length (filter (fun m => p m && q m) l) = length (filter p l) ->
  forall m, In m l -> p m = true -> q m = true.
Proof.
  induction l as [|a l IH]; intros Hlen m Hm Hp; [destruct Hm|].
  assert (Hle : (length (filter (fun m => p m && q m) l) <= length (filter p l))%nat).
  { clear. induction l as [|b l IH]; [cbn; lia|]. cbn [filter]. destruct (p b), (q b); cbn [andb length]; lia. }
  cbn [filter] in Hlen. destruct (p a) eqn:Ea, (q a) eqn:Eb; cbn [andb length] in Hlen.
  - destruct Hm as [<-|Hm]; [exact Eb|]. apply IH; [lia|exact Hm|exact Hp].
  - lia.
  - destruct Hm as [<-|Hm]; [congruence|]. apply IH; [lia|exact Hm|exact Hp].
  - destruct Hm as [<-|Hm]; [congruence|]. apply IH; [lia|exact Hm|exact Hp].
Qed.

Lemma filter_len_iff {T} (p q : T -> bool) (l : list T) :
  length (filter p l) = length (filter q l) ->
  (length (filter (fun m => p m && q m) l) = length (filter p l) <->
   forall m, In m l -> p m = q m).
Proof.
  intros Hpq. split.
  - intros Hand m Hm.
    pose proof (filter_and_len p q l Hand) as Hsub.
    assert (Hand' : length (filter (fun m => q m && p m) l) = length (filter q l)).
    { rewrite <- Hpq, <- Hand. f_equal. apply filter_ext. intros a. apply andb_comm. }
    pose proof (filter_and_len q p l Hand') as Hsub'.
    destruct (p m) eqn:Ep, (q m) eqn:Eq; try reflexivity.
    + rewrite (Hsub m Hm Ep) in Eq. discriminate.
    + rewrite (Hsub' m Hm Eq) in Ep. discriminate.
  - intros Hext. f_equal. apply filter_ext_in. intros m Hm. rewrite (Hext m Hm). apply andb_diag.
Qed.

(* equal counts are necessary for equivalence *)
Lemma Eqv_counts C n A x y : Eqv C n A x y -> MCA C n (x :: A) = MCA C n (y :: A).
Proof. intros H. rewrite !MCA_cons1. do 2 f_equal. apply filter_ext_in. exact H. Qed.

(* the confirmation query *)
Lemma confirm_iff C n A x y : MCA C n (x :: A) = MCA C n (y :: A) ->
  (MCA C n (x :: y :: A) = MCA C n (x :: A) <-> Eqv C n A x y).
Proof.
  rewrite MCA_cons2, !MCA_cons1. intros Hxy. apply Nat2Z.inj in Hxy.
  rewrite <- (filter_len_iff _ _ _ Hxy). split; [apply Nat2Z.inj|intros ->; reflexivity].
Qed.

(* ---- rows of the truth table, read by position ---- *)
Lemma zseq_nth_error (start : Z) (len k : nat) : (k < len)%nat ->
  nth_error (zseq start len) k = Some (start + Z.of_nat k).
Proof.
  revert start k. induction len as [|len IH]; intros start k Hk; [lia|].
  destruct k as [|k]; cbn [zseq nth_error]; [f_equal; lia|].
  rewrite IH by lia. f_equal. lia.
Qed.

Lemma table_nth (n : nat) (m : cfg) (v : Z) : In m (all_cfgs n) -> 1 <= v <= Z.of_nat n ->
  exists l, nth_error m (Z.to_nat v - 1) = Some l /\ (0 <? l) = memZ v m.
Proof.
  intros Hm Hv. pose proof (canon_asg_of n m Hm) as E. unfold canon in E.
  exists (if asg_of m v then v else - v). split.
  - rewrite <- E at 1. rewrite nth_error_map, (zseq_nth_error 1 n) by lia. cbn [option_map].
    replace (1 + Z.of_nat (Z.to_nat v - 1)) with v by lia. reflexivity.
  - unfold asg_of. destruct (memZ v m); [apply Z.ltb_lt|apply Z.ltb_ge]; lia.
Qed.

Lemma table_length (n : nat) (m : cfg) : In m (all_cfgs n) -> length m = n.
Proof.
  intros Hm. rewrite <- (canon_asg_of n m Hm). unfold canon. rewrite map_length.
  clear. generalize 1. induction n as [|n IH]; intros s; cbn [zseq length]; [reflexivity|]. now rewrite IH.
Qed.
