(* Invariants of the walk of Cnf::from over the node vector (model: ToCnf.run).
   Shape : numbering of the Tseitin variables, cache = biconditionals, ranges of all literals
   Nodes : what each node's literal is; every biconditional has a source node
   Mu    : the literal determines the size of the tree unfolding of a node (leaves and nodes
           with <> 1 children; single-child nodes do not count) - this is what rules out that
           the root is a cache hit, see ToCnfRoot.v.  Since the repair F20 constants and
           childless operations are in the vector: they have size 1 like a leaf, which is why
           the measure counts inner nodes too (with the number of leaves alone, And [x; True]
           would weigh as much as x). *)
From Coq Require Import List ZArith Bool Lia.
From DD Require Import Model.Circuit Model.ToCnf Proofs.PassLemmas Proofs.ToCnfBase.
Import ListNotations.
Open Scope Z_scope.

Definition Lt (st : tstate) (j : nat) : Z := nth j (ts_lits st) 0.
Definition mu_of_children (acc : list nat) (cs : list nat) : nat :=
  match cs with
  | [c] => nth c acc 0%nat
  | _ => S (fold_right (fun c a => (nth c acc 0%nat + a)%nat) 0%nat cs)
  end.
Definition mu_node (acc : list nat) (nd : ntype) : nat :=
  match nd with Lit _ => 1%nat | _ => mu_of_children acc (children nd) end.
Definition mus (C : circuit) : list nat := pass mu_node C.
Definition mu (C : circuit) (j : nat) : nat := nth j (mus C) 0%nat.
Definition musum (C : circuit) (cs : list nat) : nat := fold_right (fun c a => (mu C c + a)%nat) 0%nat cs.
(* the size of an operation node with the children cs *)
Definition mu_cs (C : circuit) (cs : list nat) : nat :=
  match cs with [c] => mu C c | _ => S (musum C cs) end.

Lemma Lt_set_old l st j : (j < length (ts_lits st))%nat -> Lt (set_literal l st) j = Lt st j.
Proof. intros H. unfold Lt, set_literal. cbn [ts_lits]. now rewrite app_nth1. Qed.
Lemma Lt_set_new l st : Lt (set_literal l st) (length (ts_lits st)) = l.
Proof. unfold Lt, set_literal. cbn [ts_lits]. rewrite app_nth2 by lia. now rewrite Nat.sub_diag. Qed.
Lemma Lt_alloc st op lits j : Lt (alloc st op lits) j = Lt st j.
Proof. reflexivity. Qed.

Lemma zseq_snoc a k : zseq a (S k) = zseq a k ++ [a + Z.of_nat k].
Proof.
  revert a. induction k as [|k IH]; intros a.
  - cbn. now rewrite Z.add_0_r.
  - change (zseq a (S (S k))) with (a :: zseq (a + 1) (S k)). rewrite IH.
    change (zseq a (S k)) with (a :: zseq (a + 1) k). cbn [app]. f_equal. f_equal. f_equal.
    rewrite Nat2Z.inj_succ. lia.
Qed.

Lemma lt_snoc {A} (l : list A) (x : A) j :
  (j < length (l ++ [x]))%nat -> (j < length l)%nat \/ j = length l.
Proof. rewrite app_length. cbn. lia. Qed.

Lemma nth_snoc_old {A} (l : list A) x j d : (j < length l)%nat -> nth j (l ++ [x]) d = nth j l d.
Proof. intros. now rewrite app_nth1. Qed.
Lemma nth_snoc_new {A} (l : list A) x d : nth (length l) (l ++ [x]) d = x.
Proof. rewrite app_nth2 by lia. now rewrite Nat.sub_diag. Qed.

Lemma mu_snoc_old C nd j : (j < length C)%nat -> mu (C ++ [nd]) j = mu C j.
Proof.
  intros H. unfold mu, mus. rewrite pass_snoc. rewrite app_nth1; [reflexivity|].
  now rewrite pass_length.
Qed.
Lemma mu_snoc_new C nd : mu (C ++ [nd]) (length C) = mu_node (mus C) nd.
Proof.
  unfold mu, mus. rewrite pass_snoc.
  rewrite <- (pass_length mu_node C) at 1. now rewrite nth_snoc_new.
Qed.

Lemma mu_of_children_cs C cs : mu_of_children (mus C) cs = mu_cs C cs.
Proof. reflexivity. Qed.

Lemma mu_cs_len C cs : length cs <> 1%nat -> mu_cs C cs = S (musum C cs).
Proof. destruct cs as [|c1 [|c2 cs]]; cbn [length]; intros H; [reflexivity|lia|reflexivity]. Qed.

Lemma mu_node_op nd op cs C :
  node_op nd = Some (op, cs) -> mu_node (mus C) nd = mu_cs C cs.
Proof.
  destruct nd as [l|cs'|cs'| |]; cbn [node_op]; intros H; inversion H; subst; reflexivity.
Qed.

Lemma mu_of_children_ext (acc acc' : list nat) cs :
  (forall c, In c cs -> nth c acc 0%nat = nth c acc' 0%nat) ->
  mu_of_children acc cs = mu_of_children acc' cs.
Proof.
  intros H.
  assert (HS : fold_right (fun c a => (nth c acc 0%nat + a)%nat) 0%nat cs =
               fold_right (fun c a => (nth c acc' 0%nat + a)%nat) 0%nat cs).
  { clear -H. induction cs as [|c cs IH]; [reflexivity|]. cbn [fold_right].
    rewrite (H c (or_introl eq_refl)). f_equal. apply IH. intros c' Hc'. apply H. now right. }
  destruct cs as [|c1 [|c2 cs]]; unfold mu_of_children.
  - reflexivity.
  - apply H. now left.
  - now rewrite HS.
Qed.

Lemma mu_node_local : local mu_node 0%nat.
Proof.
  intros acc acc' nd H. destruct nd as [l|cs|cs| |]; cbn [mu_node]; try reflexivity;
    now apply mu_of_children_ext.
Qed.

Lemma node_op_children nd op cs : node_op nd = Some (op, cs) -> children nd = cs.
Proof. destruct nd; cbn; intros H; inversion H; reflexivity. Qed.

Section Inv.
Variable n : nat.
Variable len : nat.
Let N := Z.of_nat n.

Definition lits_ok (C : circuit) : Prop := forall l, In (Lit l) C -> l <> 0 /\ Z.abs l <= N.

Lemma lits_ok_snoc C nd : lits_ok (C ++ [nd]) -> lits_ok C.
Proof. intros H l Hl. apply H. apply in_app_iff. now left. Qed.

(* ---------- Shape ---------- *)

Record Shape (C : circuit) (st : tstate) : Prop := {
  sh_len : length (ts_lits st) = length C;
  sh_idx : ts_idx st = N + 1 + Z.of_nat (length (ts_bics st));
  sh_bidx : map b_index (ts_bics st) = zseq (N + 1) (length (ts_bics st));
  sh_cache : ts_cache st = map entry_of (ts_bics st);
  sh_range : forall j, (j < length C)%nat -> Lt st j <> 0 /\ - N <= Lt st j < ts_idx st;
  sh_bic : forall bc, In bc (ts_bics st) ->
      length (b_lits bc) <> 1%nat /\ N < b_index bc < ts_idx st /\
      forall l, In l (b_lits bc) -> l <> 0 /\ - N <= l < b_index bc;
}.

Lemma shape_push C st nd l :
  Shape C st -> (l <> 0 /\ - N <= l < ts_idx st) -> Shape (C ++ [nd]) (set_literal l st).
Proof.
  intros [H1 H2 H3 H4 H5 H6] Hl. split; cbn [set_literal ts_lits ts_idx ts_bics ts_cache]; auto.
  - rewrite !app_length, H1. reflexivity.
  - intros j Hj. apply lt_snoc in Hj. destruct Hj as [Hj| ->].
    + rewrite Lt_set_old by lia. now apply H5.
    + rewrite <- H1, Lt_set_new. exact Hl.
Qed.

Lemma shape_alloc C st op lits :
  Shape C st -> length lits <> 1%nat ->
  (forall l, In l lits -> l <> 0 /\ - N <= l < ts_idx st) ->
  Shape C (alloc st op lits).
Proof.
  intros [H1 H2 H3 H4 H5 H6] Hlen Hl.
  split; cbn [alloc ts_lits ts_idx ts_bics ts_cache]; auto.
  - rewrite app_length. cbn [length]. lia.
  - rewrite app_length, map_app, H3. cbn [length map b_index].
    rewrite Nat.add_1_r, zseq_snoc. f_equal. f_equal. lia.
  - rewrite map_app, H4. reflexivity.
  - intros j Hj. rewrite Lt_alloc. specialize (H5 j Hj). lia.
  - intros bc Hbc. apply in_app_iff in Hbc. destruct Hbc as [Hbc|[<-|[]]].
    + destruct (H6 bc Hbc) as [A [B D]]. split; [exact A|]. split; [lia|exact D].
    + cbn [b_lits b_index]. split; [exact Hlen|]. split; [lia|exact Hl].
Qed.

Lemma shape_children C st cs :
  Shape C st -> (forall c, In c cs -> (c < length C)%nat) ->
  forall l, In l (lits_of_children st cs) -> l <> 0 /\ - N <= l < ts_idx st.
Proof.
  intros HS Hcs l Hl. unfold lits_of_children in Hl. apply in_map_iff in Hl.
  destruct Hl as [c [<- Hc]]. apply (sh_range C st HS c). now apply Hcs.
Qed.

Lemma shape_init : Shape [] (init_state n).
Proof.
  split; cbn; auto; try lia; try (intros j Hj; lia); try (intros bc []).
Qed.

Lemma shape_step C st nd st' :
  idx_ok (C ++ [nd]) = true -> lits_ok (C ++ [nd]) ->
  Shape C st -> step len st nd = Done st' -> Shape (C ++ [nd]) st'.
Proof.
  intros Hok Hlits HS Hstep.
  destruct (idx_ok_snoc C nd Hok) as [HokC Hch].
  assert (Ht : N < ts_idx st) by (rewrite (sh_idx C st HS); lia).
  destruct (step_inv len st nd st' Hstep) as [l Hnd ->|op c Hnd Hc ->|op cs v Hnd H2 HF Hget ->|op cs Hnd H2 HF Hget ->].
  - apply shape_push; [exact HS|]. subst nd.
    destruct (Hlits l) as [A B]; [apply in_app_iff; right; now left|]. split; [exact A|]. fold N in B. lia.
  - apply shape_push; [exact HS|]. apply (sh_range C st HS c).
    apply Hch. rewrite (node_op_children nd op [c] Hnd). now left.
  - apply shape_push; [exact HS|]. rewrite (sh_cache C st HS) in Hget.
    apply cache_get_some in Hget. destruct (sh_bic C st HS _ Hget) as [_ [B _]]. cbn [b_index] in B. lia.
  - assert (Hcs : forall c, In c cs -> (c < length C)%nat).
    { intros c Hc. apply Hch. now rewrite (node_op_children nd op cs Hnd). }
    apply shape_push.
    + apply shape_alloc; [exact HS| |].
      * unfold lits_of_children. now rewrite map_length.
      * now apply shape_children with (C := C).
    + cbn [alloc ts_idx]. lia.
Qed.

Lemma shape_run C st :
  idx_ok C = true -> lits_ok C -> run len C (init_state n) = Done st -> Shape C st.
Proof.
  intros Hok Hl Hrun. revert Hok Hl.
  apply (run_ind len (init_state n) (fun C st => idx_ok C = true -> lits_ok C -> Shape C st)) with (C := C) (st := st);
    [intros _ _; exact shape_init| |exact Hrun].
  intros C0 st0 nd st' _ IH Hstep Hok Hl.
  apply shape_step with (st := st0); auto. apply IH; [apply (idx_ok_snoc C0 nd Hok)|now apply lits_ok_snoc with nd].
Qed.

(* ---------- Nodes ---------- *)

Definition op_rel (st : tstate) (j : nat) (op : optype) (cs : list nat) : Prop :=
  (forall c, cs = [c] -> Lt st j = Lt st c) /\
  (length cs <> 1%nat -> In (mkBic (Lt st j) op (map (Lt st) cs)) (ts_bics st)).

Definition node_rel (C : circuit) (st : tstate) (j : nat) : Prop :=
  (forall l, nth j C FalseN = Lit l -> Lt st j = l) /\
  (forall op cs, node_op (nth j C FalseN) = Some (op, cs) -> op_rel st j op cs).

Definition src_rel (C : circuit) (st : tstate) (bc : bicond) : Prop :=
  exists e cs, (e < length C)%nat /\ node_op (nth e C FalseN) = Some (b_op bc, cs) /\
    length cs <> 1%nat /\ map (Lt st) cs = b_lits bc /\ Lt st e = b_index bc /\
    forall j, (j < e)%nat -> Lt st j < b_index bc.

Record Nodes (C : circuit) (st : tstate) : Prop := {
  nd_node : forall j, (j < length C)%nat -> node_rel C st j;
  nd_src : forall bc, In bc (ts_bics st) -> src_rel C st bc;
}.

Lemma map_Lt_ext st st' cs (k : nat) :
  (forall c, (c < k)%nat -> Lt st' c = Lt st c) -> (forall c, In c cs -> (c < k)%nat) ->
  map (Lt st') cs = map (Lt st) cs.
Proof. intros H Hcs. apply map_ext_in. intros c Hc. apply H. now apply Hcs. Qed.

(* transport of the relations from (C, st) to (C ++ [nd], st') when st' only appends *)
Lemma node_rel_mono C st nd st' j :
  idx_ok C = true -> (j < length C)%nat ->
  (forall c, (c < length C)%nat -> Lt st' c = Lt st c) ->
  (forall bc, In bc (ts_bics st) -> In bc (ts_bics st')) ->
  node_rel C st j -> node_rel (C ++ [nd]) st' j.
Proof.
  intros Hok Hj HL Hb [H1 H4]. unfold node_rel. rewrite (nth_snoc_old C nd j FalseN Hj).
  rewrite (HL j Hj). repeat split; auto.
  - intros c ->. destruct (H4 op [c] H) as [B _]. rewrite (HL j Hj), (B c eq_refl). symmetry. apply HL.
    assert (c < j)%nat; [|lia]. apply (idx_ok_nth C j FalseN Hok Hj).
    rewrite (node_op_children _ _ _ H). now left.
  - intros Hlen. destruct (H4 op cs H) as [_ D]. apply Hb. rewrite (HL j Hj).
    rewrite (map_Lt_ext st st' cs (length C) HL); [now apply D|].
    intros c Hc. assert (c < j)%nat; [|lia]. apply (idx_ok_nth C j FalseN Hok Hj).
    now rewrite (node_op_children _ _ _ H).
Qed.

Lemma src_rel_mono C st nd st' bc :
  idx_ok C = true ->
  (forall c, (c < length C)%nat -> Lt st' c = Lt st c) ->
  src_rel C st bc -> src_rel (C ++ [nd]) st' bc.
Proof.
  intros Hok HL [e [cs [He [Hop [Hlen [Hm [Hi Hlt]]]]]]]. exists e, cs.
  assert (Hcs : forall c, In c cs -> (c < length C)%nat).
  { intros c Hc. assert (c < e)%nat; [|lia]. apply (idx_ok_nth C e FalseN Hok He).
    now rewrite (node_op_children _ _ _ Hop). }
  repeat split.
  - rewrite app_length. cbn. lia.
  - now rewrite (nth_snoc_old C nd e FalseN He).
  - exact Hlen.
  - now rewrite (map_Lt_ext st st' cs (length C) HL Hcs).
  - now rewrite (HL e He).
  - intros j Hj. rewrite (HL j) by lia. now apply Hlt.
Qed.

Lemma nodes_init : Nodes [] (init_state n).
Proof. split; cbn; [intros j Hj; lia|intros bc []]. Qed.

Lemma nodes_step C st nd st' :
  idx_ok (C ++ [nd]) = true ->
  Shape C st -> Nodes C st -> step len st nd = Done st' -> Nodes (C ++ [nd]) st'.
Proof.
  intros Hok HS HN Hstep.
  destruct (idx_ok_snoc C nd Hok) as [HokC Hch].
  pose proof (sh_len C st HS) as Hlen.
  assert (Hnew : nth (length C) (C ++ [nd]) FalseN = nd) by apply nth_snoc_new.
  (* facts common to all four cases *)
  assert (Hgen : forall l st2, ts_lits st2 = ts_lits st ->
            (forall bc, In bc (ts_bics st) -> In bc (ts_bics st2)) ->
            node_rel (C ++ [nd]) (set_literal l st2) (length C) ->
            (forall bc, In bc (ts_bics st2) -> In bc (ts_bics st) \/ src_rel (C ++ [nd]) (set_literal l st2) bc) ->
            Nodes (C ++ [nd]) (set_literal l st2)).
  { intros l st2 Hl2 Hb2 Hnode Hsrc.
    assert (HL : forall c, (c < length C)%nat -> Lt (set_literal l st2) c = Lt st c).
    { intros c Hc. rewrite Lt_set_old by (rewrite Hl2; lia). unfold Lt. now rewrite Hl2. }
    split.
    - intros j Hj. apply lt_snoc in Hj. destruct Hj as [Hj| ->]; [|exact Hnode].
      apply (node_rel_mono C st nd _ j HokC Hj HL); [|now apply (nd_node C st HN)].
      intros bc Hbc. cbn [set_literal ts_bics]. now apply Hb2.
    - intros bc Hbc. cbn [set_literal ts_bics] in Hbc. destruct (Hsrc bc Hbc) as [Hold|Hs]; [|exact Hs].
      apply (src_rel_mono C st nd _ bc HokC HL). now apply (nd_src C st HN). }
  assert (HLnew : forall l st2, ts_lits st2 = ts_lits st -> Lt (set_literal l st2) (length C) = l).
  { intros l st2 Hl2. rewrite <- Hlen, <- Hl2. apply Lt_set_new. }
  assert (HLold : forall l st2 c, ts_lits st2 = ts_lits st -> (c < length C)%nat ->
                                  Lt (set_literal l st2) c = Lt st c).
  { intros l st2 c Hl2 Hc. rewrite Lt_set_old by (rewrite Hl2; lia). unfold Lt. now rewrite Hl2. }
  destruct (step_inv len st nd st' Hstep) as [l Hnd ->|op c Hnd Hc ->|op cs v Hnd H2 HF Hget ->|op cs Hnd H2 HF Hget ->].
  - (* literal *)
    apply Hgen; auto. unfold node_rel. rewrite Hnew, HLnew by reflexivity. subst nd.
    split; [intros l' H; now inversion H|]. intros op cs H. discriminate.
  - (* single child *)
    assert (Hcc : (c < length C)%nat).
    { apply Hch. rewrite (node_op_children nd op [c] Hnd). now left. }
    apply Hgen; auto. unfold node_rel. rewrite Hnew, HLnew by reflexivity.
    split; [intros l' E; rewrite E in Hnd; discriminate|].
    intros op' cs' E. rewrite Hnd in E. inversion E; subst op' cs'. split.
    + intros c' E'. inversion E'; subst c'. rewrite (HLnew _ st eq_refl). now rewrite (HLold _ st c eq_refl Hcc).
    + cbn. lia.
  - (* cache hit *)
    assert (Hcs : forall c, In c cs -> (c < length C)%nat).
    { intros c Hc. apply Hch. now rewrite (node_op_children nd op cs Hnd). }
    apply Hgen; auto. unfold node_rel. rewrite Hnew, HLnew by reflexivity.
    split; [intros l' E; rewrite E in Hnd; discriminate|].
    intros op' cs' E. rewrite Hnd in E. inversion E; subst op' cs'. split.
    + intros c' ->. cbn in H2. lia.
    + intros _. rewrite (HLnew _ st eq_refl). cbn [set_literal ts_bics].
      rewrite (sh_cache C st HS) in Hget. apply cache_get_some in Hget.
      rewrite (map_Lt_ext st (set_literal v st) cs (length C)); [exact Hget| |exact Hcs].
      intros c Hc. now apply HLold.
  - (* fresh variable *)
    assert (Hcs : forall c, In c cs -> (c < length C)%nat).
    { intros c Hc. apply Hch. now rewrite (node_op_children nd op cs Hnd). }
    set (lits := lits_of_children st cs) in *.
    assert (Hmap : map (Lt (set_literal (ts_idx st) (alloc st op lits))) cs = lits).
    { unfold lits, lits_of_children. apply map_ext_in. intros c Hc. now apply HLold; [reflexivity|apply Hcs]. }
    apply Hgen; [reflexivity|intros bc Hbc; cbn [alloc ts_bics]; apply in_app_iff; now left| |].
    + unfold node_rel. rewrite Hnew, HLnew by reflexivity.
      split; [intros l' E; rewrite E in Hnd; discriminate|].
      intros op' cs' E. rewrite Hnd in E. inversion E; subst op' cs'. split.
      * intros c' ->. cbn in H2. lia.
      * intros _. rewrite (HLnew _ (alloc st op lits) eq_refl), Hmap.
        cbn [set_literal alloc ts_bics]. apply in_app_iff. right. now left.
    + intros bc Hbc. cbn [alloc ts_bics] in Hbc. apply in_app_iff in Hbc.
      destruct Hbc as [Hbc|[<-|[]]]; [now left|right].
      exists (length C), cs. cbn [b_op b_lits b_index]. repeat split.
      * rewrite app_length. cbn. lia.
      * now rewrite Hnew.
      * exact H2.
      * exact Hmap.
      * now apply HLnew.
      * intros j Hj. rewrite HLold by (auto; lia). apply (sh_range C st HS j Hj).
Qed.

Lemma nodes_run C st :
  idx_ok C = true -> lits_ok C -> run len C (init_state n) = Done st -> Nodes C st.
Proof.
  intros Hok Hl Hrun. revert Hok Hl.
  apply (run_ind len (init_state n) (fun C st => idx_ok C = true -> lits_ok C -> Nodes C st)) with (C := C) (st := st);
    [intros _ _; exact nodes_init| |exact Hrun].
  intros C0 st0 nd st' Hrun0 IH Hstep Hok Hl.
  destruct (idx_ok_snoc C0 nd Hok) as [HokC _]. pose proof (lits_ok_snoc C0 nd Hl) as HlC.
  apply nodes_step with (st := st0); auto. now apply shape_run.
Qed.

(* ---------- Mu ---------- *)

Record Mu (C : circuit) (st : tstate) : Prop := {
  mu_pos : forall j, (j < length C)%nat -> (1 <= mu C j)%nat;
  mu_feat : forall j, (j < length C)%nat -> Z.abs (Lt st j) <= N -> mu C j = 1%nat;
  mu_det : forall j j', (j < length C)%nat -> (j' < length C)%nat ->
                        Lt st j = Lt st j' -> mu C j = mu C j';
}.

Lemma musum_snoc_old C nd cs :
  (forall c, In c cs -> (c < length C)%nat) -> musum (C ++ [nd]) cs = musum C cs.
Proof.
  induction cs as [|c cs IH]; intros H; [reflexivity|]. cbn [musum fold_right].
  rewrite mu_snoc_old by (apply H; now left). f_equal. apply IH. intros c' Hc'. apply H. now right.
Qed.

Lemma musum_det C st cs ds :
  (forall j j', In j cs -> In j' ds -> Lt st j = Lt st j' -> mu C j = mu C j') ->
  map (Lt st) cs = map (Lt st) ds -> musum C cs = musum C ds.
Proof.
  revert ds. induction cs as [|c cs IH]; intros [|d ds] H E; try discriminate; [reflexivity|].
  cbn [map] in E. inversion E as [[E1 E2]]. cbn [musum fold_right].
  rewrite (H c d (or_introl eq_refl) (or_introl eq_refl) E1). f_equal.
  apply IH; [|exact E2]. intros j j' Hj Hj'. apply H; now right.
Qed.

Lemma mu_unfold C j :
  idx_ok C = true -> (j < length C)%nat -> mu C j = mu_node (mus C) (nth j C FalseN).
Proof. intros Hok Hj. unfold mu, mus. apply (pass_unfold mu_node 0%nat 0%nat C j mu_node_local Hok Hj). Qed.

(* value of mu at an operation node of a well-indexed vector *)
Lemma mu_op C j op cs :
  idx_ok C = true -> (j < length C)%nat -> node_op (nth j C FalseN) = Some (op, cs) ->
  mu C j = mu_cs C cs.
Proof. intros Hok Hj Hop. rewrite (mu_unfold C j Hok Hj). now apply mu_node_op with (op := op). Qed.

Lemma mu_cs_snoc_old C nd cs :
  (forall c, In c cs -> (c < length C)%nat) -> mu_cs (C ++ [nd]) cs = mu_cs C cs.
Proof.
  intros H. destruct cs as [|c1 [|c2 cs]]; unfold mu_cs.
  - reflexivity.
  - apply mu_snoc_old. apply H. now left.
  - f_equal. now apply musum_snoc_old.
Qed.

Lemma mu_init : Mu [] (init_state n).
Proof. split; cbn; intros; lia. Qed.

Lemma mu_step C st nd st' :
  idx_ok (C ++ [nd]) = true -> lits_ok (C ++ [nd]) ->
  Shape C st -> Nodes C st -> Mu C st ->
  step len st nd = Done st' -> Mu (C ++ [nd]) st'.
Proof.
  intros Hok Hlits HS HN HM Hstep.
  destruct (idx_ok_snoc C nd Hok) as [HokC Hch].
  pose proof (sh_len C st HS) as Hlen.
  assert (Ht : N < ts_idx st) by (rewrite (sh_idx C st HS); lia).
  (* the three fields follow from a description of the new node *)
  assert (Hgen : forall l st2, ts_lits st2 = ts_lits st ->
            (1 <= mu (C ++ [nd]) (length C))%nat ->
            (Z.abs l <= N -> mu (C ++ [nd]) (length C) = 1%nat) ->
            (forall j', (j' < length C)%nat -> Lt st j' = l -> mu C j' = mu (C ++ [nd]) (length C)) ->
            Mu (C ++ [nd]) (set_literal l st2)).
  { intros l st2 Hl2 Hpos Hfeat Hdet.
    assert (HLold : forall c, (c < length C)%nat -> Lt (set_literal l st2) c = Lt st c).
    { intros c Hc. rewrite Lt_set_old by (rewrite Hl2; lia). unfold Lt. now rewrite Hl2. }
    assert (HLnew : Lt (set_literal l st2) (length C) = l).
    { rewrite <- Hlen, <- Hl2. apply Lt_set_new. }
    split.
    - intros j Hj. apply lt_snoc in Hj. destruct Hj as [Hj| ->]; [|exact Hpos].
      rewrite mu_snoc_old by exact Hj. now apply (mu_pos C st HM).
    - intros j Hj. apply lt_snoc in Hj. destruct Hj as [Hj| ->].
      + rewrite mu_snoc_old, HLold by exact Hj. now apply (mu_feat C st HM).
      + now rewrite HLnew.
    - intros j j' Hj Hj'. apply lt_snoc in Hj. apply lt_snoc in Hj'.
      destruct Hj as [Hj| ->], Hj' as [Hj'| ->].
      + rewrite !mu_snoc_old, !HLold by assumption. now apply (mu_det C st HM).
      + rewrite mu_snoc_old, HLold, HLnew by assumption. now apply Hdet.
      + rewrite (mu_snoc_old C nd j') by assumption. rewrite (HLold j'), HLnew by assumption.
        intros E. symmetry. now apply Hdet.
      + reflexivity. }
  (* children of an operation node are old nodes *)
  assert (Hop : forall op cs, node_op nd = Some (op, cs) ->
            (forall c, In c cs -> (c < length C)%nat) /\ mu (C ++ [nd]) (length C) = mu_cs C cs).
  { intros op cs Hnd. split.
    - intros c Hc. apply Hch. now rewrite (node_op_children nd op cs Hnd).
    - rewrite mu_snoc_new. now apply mu_node_op with (op := op). }
  destruct (step_inv len st nd st' Hstep) as [l Hnd ->|op c Hnd Hc ->|op cs v Hnd H2 HF Hget ->|op cs Hnd H2 HF Hget ->].
  - (* literal *)
    assert (Hmu : mu (C ++ [nd]) (length C) = 1%nat) by (rewrite mu_snoc_new; now subst nd).
    apply Hgen; auto; try lia.
    intros j' Hj' E. rewrite Hmu. apply (mu_feat C st HM j' Hj'). rewrite E.
    apply (Hlits l). apply in_app_iff. right. left. now symmetry.
  - (* single child *)
    destruct (Hop op [c] Hnd) as [Hcs Hmu]. cbn [mu_cs] in Hmu.
    assert (Hcc : (c < length C)%nat) by (apply Hcs; now left).
    apply Hgen; auto; rewrite Hmu.
    + now apply (mu_pos C st HM).
    + now apply (mu_feat C st HM).
    + intros j' Hj' E. now apply (mu_det C st HM).
  - (* cache hit *)
    destruct (Hop op cs Hnd) as [Hcs Hmu]. rewrite (mu_cs_len C cs H2) in Hmu.
    rewrite (sh_cache C st HS) in Hget. apply cache_get_some in Hget.
    destruct (sh_bic C st HS _ Hget) as [_ [Hv _]]. cbn [b_index] in Hv.
    destruct (nd_src C st HN _ Hget) as [e [ce [He [Hope [Hle [Hme [Hie _]]]]]]].
    cbn [b_op b_lits b_index] in Hope, Hme, Hie.
    assert (Hce : forall c, In c ce -> (c < length C)%nat).
    { intros c Hc. assert (c < e)%nat; [|lia]. apply (idx_ok_nth C e FalseN HokC He).
      now rewrite (node_op_children _ _ _ Hope). }
    assert (Heq : musum C ce = musum C cs).
    { apply (musum_det C st); [|exact Hme].
      intros j j' Hj Hj' E. apply (mu_det C st HM); auto. }
    apply Hgen; auto; rewrite Hmu.
    + lia.
    + intros Habs. lia.
    + intros j' Hj' E. rewrite <- Heq, <- (mu_cs_len C ce Hle), <- (mu_op C e op ce HokC He Hope).
      apply (mu_det C st HM); auto. now rewrite E, Hie.
  - (* fresh variable *)
    destruct (Hop op cs Hnd) as [Hcs Hmu]. rewrite (mu_cs_len C cs H2) in Hmu.
    apply Hgen; [reflexivity| | |]; rewrite Hmu.
    + lia.
    + intros Habs. lia.
    + intros j' Hj' E. destruct (sh_range C st HS j' Hj') as [_ Hr]. lia.
Qed.

Lemma mu_run C st :
  idx_ok C = true -> lits_ok C -> run len C (init_state n) = Done st -> Mu C st.
Proof.
  intros Hok Hl Hrun. revert Hok Hl.
  apply (run_ind len (init_state n) (fun C st => idx_ok C = true -> lits_ok C -> Mu C st)) with (C := C) (st := st);
    [intros _ _; exact mu_init| |exact Hrun].
  intros C0 st0 nd st' Hrun0 IH Hstep Hok Hl.
  destruct (idx_ok_snoc C0 nd Hok) as [HokC _]. pose proof (lits_ok_snoc C0 nd Hl) as HlC.
  apply mu_step with (st := st0); auto; [now apply shape_run|now apply nodes_run].
Qed.

End Inv.
