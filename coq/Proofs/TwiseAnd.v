(* C09 pipeline: the and-merge (ZippingMerger).  zip_samples keeps every configuration of both
   sides as a sub-configuration; the cross interactions are exactly what is needed to cover every
   valid interaction that has literals on both sides; merge_all in any (oracle) order. *)
From Coq Require Import List ZArith Bool Arith Lia Permutation.
From DD Require Import Model.Circuit Model.Query Model.TwiseCfg Model.TwiseMerge Proofs.PassLemmas
  Proofs.Semantics Proofs.CountsA Proofs.QueryDefs Proofs.C03Proof Proofs.TwiseBase Proofs.TwiseSem
  Proofs.TwiseCfgProof Proofs.TwiseInv.
Import ListNotations.
Open Scope Z_scope.

(* ---------- list helpers ---------- *)
Lemma NoDup_app_inv {A} (a b : list A) : NoDup (a ++ b) ->
  NoDup a /\ NoDup b /\ (forall x, In x a -> ~ In x b).
Proof.
  induction a as [|x a IH]; cbn; intros H.
  - split; [constructor|]. split; [exact H|]. intros x [].
  - inversion H as [|? ? Hx Hnd]; subst. destruct (IH Hnd) as [Ha [Hb Hd]]. split; [|split].
    + constructor; [|exact Ha]. intros Hin. apply Hx. apply in_app_iff. now left.
    + exact Hb.
    + intros y [<-|Hy] Hb'; [apply Hx; apply in_app_iff; now right|exact (Hd y Hy Hb')].
Qed.

Lemma combine_cover_l {A B} (l : list A) (l' : list B) x : In x l ->
  (exists y, In (x, y) (combine l l')) \/ In x (skipn (length l') l).
Proof.
  revert l'. induction l as [|a l IH]; intros l' Hx; [destruct Hx|].
  destruct l' as [|b l']; [right; exact Hx|].
  destruct Hx as [<-|Hx]; [left; exists b; now left|].
  destruct (IH l' Hx) as [[y Hy]|Hs]; [left; exists y; now right|right; exact Hs].
Qed.

Lemma combine_cover_r {A B} (l : list A) (l' : list B) y : In y l' ->
  (exists x, In (x, y) (combine l l')) \/ In y (skipn (length l) l').
Proof.
  revert l. induction l' as [|b l' IH]; intros l Hy; [destruct Hy|].
  destruct l as [|a l]; [right; exact Hy|].
  destruct Hy as [<-|Hy]; [left; exists a; now left|].
  destruct (IH l Hy) as [[x Hx]|Hs]; [left; exists x; now right|right; exact Hs].
Qed.

Lemma skipn_nonempty_length {A} (k : nat) (l : list A) x : In x (skipn k l) -> (k < length l)%nat.
Proof.
  revert l. induction k as [|k IH]; intros l Hx.
  - destruct l; [destruct Hx|cbn; lia].
  - destruct l as [|a l]; [destruct Hx|]. cbn in Hx. specialize (IH l Hx). cbn. lia.
Qed.

Lemma partition_perm {A} (f : A -> bool) (l : list A) :
  Permutation l (filter f l ++ filter (fun x => negb (f x)) l).
Proof.
  induction l as [|a l IH]; [constructor|]. cbn. destruct (f a); cbn.
  - now constructor.
  - now apply Permutation_cons_app.
Qed.

Lemma insert_len_perm x l : Permutation (insert_len x l) (x :: l).
Proof.
  induction l as [|y l IH]; cbn; [reflexivity|].
  destruct (s_len x <=? s_len y)%nat; [reflexivity|].
  etransitivity; [apply perm_skip; exact IH|apply perm_swap].
Qed.

Lemma sort_len_perm l : Permutation (sort_len l) l.
Proof.
  induction l as [|x l IH]; cbn; [constructor|].
  etransitivity; [apply insert_len_perm|now constructor].
Qed.

Lemma match_nonempty_in {A} (l : list A) (dflt : list A) x : In x l ->
  In x (match l with [] => dflt | _ :: _ => l end).
Proof. destruct l; [intros []|auto]. Qed.

Lemma match_nonempty_sub {A} (l : list A) (d0 : A) x :
  In x (match l with [] => [d0] | _ :: _ => l end) -> x = d0 \/ In x l.
Proof. destruct l; [intros [<-|[]]; now left|now right]. Qed.

(* ---------- the cross interactions, as lists ---------- *)
Definition level (S : sample) (k : nat) : list cfg :=
  match nodup cfg_dec (flat_map (fun c => tints c (Nat.min (length c) k)) (map c_decided (s_iter S))) with
  | [] => [[]]
  | x :: s => x :: s
  end.

Lemma self_ints_eq S t : self_ints S t = map (level S) (seq 1 (t - 1)).
Proof. reflexivity. Qed.

Lemma combine_map {A B A' B'} (f : A -> A') (g : B -> B') (l1 : list A) (l2 : list B) :
  combine (map f l1) (map g l2) = map (fun pr => (f (fst pr), g (snd pr))) (combine l1 l2).
Proof.
  revert l2. induction l1 as [|a l1 IH]; intros l2; [reflexivity|]. destruct l2 as [|b l2]; [reflexivity|].
  cbn. now rewrite IH.
Qed.

Lemma seq_rev_pair (m k : nat) : (1 <= k <= m)%nat ->
  In (k, (m + 1 - k)%nat) (combine (seq 1 m) (rev (seq 1 m))).
Proof.
  intros Hk.
  assert (Hlen : length (seq 1 m) = length (rev (seq 1 m))) by now rewrite rev_length.
  assert (Hn : nth (k - 1) (combine (seq 1 m) (rev (seq 1 m))) (0%nat, 0%nat) = (k, (m + 1 - k)%nat)).
  { rewrite (combine_nth _ _ _ _ _ Hlen). rewrite rev_nth by (rewrite seq_length; lia).
    rewrite seq_length, !seq_nth by lia. f_equal; lia. }
  rewrite <- Hn. apply nth_In. rewrite combine_length, rev_length, seq_length. lia.
Qed.

Lemma cross_pairs L R t k : (1 <= k <= t - 1)%nat ->
  In (level L k, level R (t - k)) (combine (self_ints L t) (rev (self_ints R t))).
Proof.
  intros Hk. rewrite !self_ints_eq, <- map_rev, combine_map.
  apply in_map_iff. exists (k, (t - k)%nat). split; [reflexivity|].
  replace (t - k)%nat with (t - 1 + 1 - k)%nat by lia. now apply seq_rev_pair.
Qed.

Lemma cross_in L R t oL oR k : (1 <= k <= t - 1)%nat -> In oL (level L k) -> In oR (level R (t - k)) ->
  In (oL ++ oR)%list (cross_ints L R t).
Proof.
  intros Hk HL HR. unfold cross_ints. apply nodup_In. apply in_flat_map.
  exists (level L k, level R (t - k)). split; [now apply cross_pairs|]. cbn [fst snd].
  apply in_flat_map. exists oL. split; [exact HL|]. apply in_map_iff. now exists oR.
Qed.

Lemma level_in S k c o : In c (s_iter S) ->
  In o (tints (c_decided c) (Nat.min (length (c_decided c)) k)) -> In o (level S k).
Proof.
  intros Hc Ho. unfold level.
  set (l := nodup cfg_dec _).
  assert (Hin : In o l).
  { unfold l. apply nodup_In. apply in_flat_map. exists (c_decided c). split; [now apply in_map|exact Ho]. }
  destruct l; [destruct Hin|exact Hin].
Qed.

Lemma level_sub S k o : In o (level S k) -> o = [] \/ exists c, In c (s_iter S) /\ incl o (c_decided c).
Proof.
  unfold level. set (l := nodup cfg_dec _). intros Ho.
  assert (Hin : o = [] \/ In o l) by (destruct l; [destruct Ho as [<-|[]]; now left|now right]).
  destruct Hin as [->|Hin]; [now left|right]. unfold l in Hin. apply nodup_In in Hin.
  apply in_flat_map in Hin. destruct Hin as [dc [Hdc Ho']]. apply in_map_iff in Hdc.
  destruct Hdc as [c [<- Hc]]. exists c. split; [exact Hc|]. apply tints_in in Ho'. tauto.
Qed.

Lemma cross_sub L R t X : In X (cross_ints L R t) ->
  exists oL oR, X = (oL ++ oR)%list /\
    (oL = [] \/ exists c, In c (s_iter L) /\ incl oL (c_decided c)) /\
    (oR = [] \/ exists c, In c (s_iter R) /\ incl oR (c_decided c)).
Proof.
  unfold cross_ints. intros H. apply nodup_In in H. apply in_flat_map in H.
  destruct H as [[ls rs] [Hpr HX]]. cbn [fst snd] in HX. apply in_flat_map in HX.
  destruct HX as [oL [HoL HX]]. apply in_map_iff in HX. destruct HX as [oR [<- HoR]].
  exists oL, oR. split; [reflexivity|].
  pose proof (in_combine_l _ _ _ _ Hpr) as Hl. pose proof (in_combine_r _ _ _ _ Hpr) as Hr.
  apply in_rev in Hr. rewrite self_ints_eq in Hl, Hr. apply in_map_iff in Hl, Hr.
  destruct Hl as [k [<- _]]. destruct Hr as [k' [<- _]].
  split; eapply level_sub; eassumption.
Qed.

Lemma filter_split_length {A} (f : A -> bool) (l : list A) :
  length l = (length (filter f l) + length (filter (fun x => negb (f x)) l))%nat.
Proof. induction l as [|a l IH]; [reflexivity|]. cbn. destruct (f a); cbn; lia. Qed.

Section And.
Variables (C : circuit) (n : nat) (t : nat).
Hypothesis HQ : WFQ C n.
Let d := build C n.

Notation valid := (valid C).
Notation V := (V C).
Notation CfgOK := (CfgOK C n).
Notation SampOK := (SampOK C n).
Notation CovAll := (CovAll C).
Notation LitsC := (LitsC C).

(* ---------- set-extensionality of the invariants ---------- *)
Lemma CfgOK_ext r W W' c : (forall v, In v W -> In v W') -> CfgOK r W c -> CfgOK r W' c.
Proof. intros H [H1 H2 H3 H4]. constructor; auto. Qed.

Lemma SampOK_ext r W W' S : (forall v, In v W <-> In v W') -> SampOK r W S -> SampOK r W' S.
Proof.
  intros H [H1 H2 H3 H4]. constructor; try assumption.
  - intros v. rewrite H2. apply H.
  - eapply Forall_impl; [|exact H3]. intros c. apply CfgOK_ext. intros v. apply H.
Qed.

Lemma add_complete_ok r W S c : SampOK r W S -> CfgOK r W c -> c_ndec c = length (s_vars S) ->
  SampOK r W (s_add_complete S c).
Proof.
  intros [H1 H2 H3 H4] Hc Hn. constructor; cbn [s_add_complete s_vars s_comp]; try assumption.
  - unfold s_iter in *. cbn [s_add_complete s_comp s_part]. rewrite Forall_forall in *.
    intros x Hx. rewrite !in_app_iff in Hx. destruct Hx as [[Hx|[<-|[]]]|Hx]; [| exact Hc |];
      apply H3; apply in_app_iff; auto.
  - intros c0 Hc0. apply in_app_iff in Hc0. destruct Hc0 as [Hc0|[<-|[]]]; [now apply H4|exact Hn].
Qed.

Lemma add_partial_ok r W S c : SampOK r W S -> CfgOK r W c -> SampOK r W (s_add_partial S c).
Proof.
  intros [H1 H2 H3 H4] Hc. constructor; cbn [s_add_partial s_vars s_comp]; try assumption.
  unfold s_iter in *. cbn [s_add_partial s_comp s_part]. rewrite app_assoc. apply Forall_app.
  split; [exact H3|now constructor].
Qed.

Lemma add_complete_iter S c x : In x (s_iter (s_add_complete S c)) <-> x = c \/ In x (s_iter S).
Proof. unfold s_iter. cbn [s_add_complete s_comp s_part]. rewrite !in_app_iff. cbn [In]. intuition. Qed.

Lemma add_partial_iter S c x : In x (s_iter (s_add_partial S c)) <-> x = c \/ In x (s_iter S).
Proof. unfold s_iter. cbn [s_add_partial s_comp s_part]. rewrite !in_app_iff. cbn [In]. intuition. Qed.

Lemma s_new_from2_vars L R : s_vars (s_new_from [L; R]) = zunion (s_vars L) (s_vars R).
Proof. unfold s_new_from. cbn [fold_left s_vars]. now rewrite zunion_nil_l. Qed.

Lemma iter_compl_fst S : map fst (iter_compl S) = s_iter S.
Proof. unfold iter_compl, s_iter. rewrite map_app, !map_map. cbn [fst]. now rewrite !map_id. Qed.

Lemma iter_compl_in S c b : In (c, b) (iter_compl S) ->
  In c (s_iter S) /\ (b = true -> In c (s_comp S)).
Proof.
  unfold iter_compl, s_iter. rewrite in_app_iff, !in_map_iff. intros [[x [E Hx]]|[x [E Hx]]]; injection E as <- <-.
  - split; [apply in_app_iff; now left|auto].
  - split; [apply in_app_iff; now right|discriminate].
Qed.

Lemma iter_compl_length S : length (iter_compl S) = s_len S.
Proof. unfold iter_compl, s_len. now rewrite app_length, !map_length. Qed.

Lemma s_iter_length S : length (s_iter S) = s_len S.
Proof. unfold s_iter, s_len. now rewrite app_length. Qed.

Lemma s_is_empty_iter S : s_is_empty S = true <-> s_iter S = [].
Proof.
  unfold s_is_empty, s_iter. destruct (s_comp S), (s_part S); cbn; split; intros; try reflexivity; discriminate.
Qed.

(* ---------- the and node ---------- *)
Variables (p : nat) (cs : list nat).
Hypothesis Hp : (p < length C)%nat.
Hypothesis HRp : Live.Reach C p.
Hypothesis Ep : nth p C FalseN = And cs.
Hypothesis Hpos : 0 < cnt C p.

(* two sides over disjoint, child-aligned variable sets below p *)
Section Two.
Variables (WL WR : list Z).
Hypothesis HWL : incl WL (V p).
Hypothesis HWR : incl WR (V p).
Hypothesis Hal : Aligned C cs WL.
Hypothesis Hdis : forall v, In v WL -> ~ In v WR.

Lemma both_valid A B : (forall l, In l A -> In (Z.abs l) WL) -> (forall l, In l B -> In (Z.abs l) WR) ->
  valid p A -> valid p B -> valid p (A ++ B).
Proof. intros HA HB. exact (and_valid_union C n HQ p cs A B WL WR Hp Ep Hal Hdis HA HB). Qed.

Lemma disjoint_cfg_ok l r : CfgOK p WL l -> CfgOK p WR r -> CfgOK p (WL ++ WR) (c_from_disjoint n l r).
Proof.
  intros Hl Hr.
  destruct (from_disjoint_spec n l r (ok_wf _ _ _ _ _ Hl) (ok_wf _ _ _ _ _ Hr)) as [Hwf [Hdec Hst]].
  { intros x Hx Hn. apply (Hdis (Z.abs x)); [now apply (ok_vars _ _ _ _ _ Hl)|].
    rewrite <- Z.abs_opp. now apply (ok_vars _ _ _ _ _ Hr). }
  cbv zeta in *. constructor.
  - exact Hwf.
  - intros x Hx. apply Hdec in Hx. apply in_app_iff.
    destruct Hx; [left; now apply (ok_vars _ _ _ _ _ Hl)|right; now apply (ok_vars _ _ _ _ _ Hr)].
  - apply (valid_mono C n HQ p (c_decided l ++ c_decided r)); [exact Hp| |].
    + intros x Hx. apply Hdec in Hx. apply in_app_iff. exact Hx.
    + apply both_valid; [apply (ok_vars _ _ _ _ _ Hl)|apply (ok_vars _ _ _ _ _ Hr)|apply Hl|apply Hr].
  - unfold StOK. destruct Hst as [->|[m [-> Hm]]]; [exact Logic.I|].
    destruct Hm as [[b Hb]|[b Hb]].
    + pose proof (ok_st _ _ _ _ _ Hl) as Hs. unfold StOK in Hs. rewrite Hb in Hs.
      destruct Hs as [P [HI [H1 _]]]. exists P. split; [exact HI|]. split; [|discriminate].
      intros x Hx. apply Hdec. left. now apply H1.
    + pose proof (ok_st _ _ _ _ _ Hr) as Hs. unfold StOK in Hs. rewrite Hb in Hs.
      destruct Hs as [P [HI [H1 _]]]. exists P. split; [exact HI|]. split; [|discriminate].
      intros x Hx. apply Hdec. right. now apply H1.
Qed.

Lemma disjoint_cfg_dec l r : CfgOK p WL l -> CfgOK p WR r ->
  forall x, In x (c_decided (c_from_disjoint n l r)) <-> In x (c_decided l) \/ In x (c_decided r).
Proof.
  intros Hl Hr.
  destruct (from_disjoint_spec n l r (ok_wf _ _ _ _ _ Hl) (ok_wf _ _ _ _ _ Hr)) as [_ [Hdec _]]; [|exact Hdec].
  intros x Hx Hn. apply (Hdis (Z.abs x)); [now apply (ok_vars _ _ _ _ _ Hl)|].
  rewrite <- Z.abs_opp. now apply (ok_vars _ _ _ _ _ Hr).
Qed.

Lemma disjoint_cfg_ndec l r : CfgOK p WL l -> CfgOK p WR r ->
  c_ndec (c_from_disjoint n l r) = (c_ndec l + c_ndec r)%nat.
Proof.
  intros Hl Hr. pose proof (disjoint_cfg_ok l r Hl Hr) as Hok. pose proof (disjoint_cfg_dec l r Hl Hr) as Hdec.
  rewrite (wfc_ndec _ _ (ok_wf _ _ _ _ _ Hok)), (wfc_ndec _ _ (ok_wf _ _ _ _ _ Hl)), (wfc_ndec _ _ (ok_wf _ _ _ _ _ Hr)).
  rewrite <- app_length. apply NoDup_same_length.
  - apply dec_nodup with (n := n). apply Hok.
  - apply NoDup_app_intro; [apply dec_nodup with (n := n); apply Hl|apply dec_nodup with (n := n); apply Hr|].
    intros x Hx Hx'. apply (Hdis (Z.abs x)); [now apply (ok_vars _ _ _ _ _ Hl)|now apply (ok_vars _ _ _ _ _ Hr)].
  - intros x. rewrite in_app_iff. apply Hdec.
Qed.

Variables (L R : sample).
Hypothesis HL : SampOK p WL L.
Hypothesis HR : SampOK p WR R.

Lemma zvars_nodup : NoDup (zunion (s_vars L) (s_vars R)).
Proof. apply zunion_NoDup; [apply HL|apply HR]. Qed.

Lemma zvars_in v : In v (zunion (s_vars L) (s_vars R)) <-> In v (WL ++ WR).
Proof. rewrite zunion_In, in_app_iff, (so_vars _ _ _ _ _ HL), (so_vars _ _ _ _ _ HR). tauto. Qed.

Lemma zvars_length : length (zunion (s_vars L) (s_vars R)) = (length (s_vars L) + length (s_vars R))%nat.
Proof.
  apply zunion_disjoint_length. intros x Hx Hx'. apply (so_vars _ _ _ _ _ HL) in Hx.
  apply (so_vars _ _ _ _ _ HR) in Hx'. exact (Hdis x Hx Hx').
Qed.

Lemma L_cfg c : In c (s_iter L) -> CfgOK p WL c.
Proof. pose proof (so_cfgs _ _ _ _ _ HL) as H. rewrite Forall_forall in H. apply H. Qed.
Lemma R_cfg c : In c (s_iter R) -> CfgOK p WR c.
Proof. pose proof (so_cfgs _ _ _ _ _ HR) as H. rewrite Forall_forall in H. apply H. Qed.

(* the pairing loop of zip_samples *)
Lemma zip_fold : forall pairs S,
  (forall a b, In (a, b) pairs -> In a (iter_compl L) /\ In b (iter_compl R)) ->
  SampOK p (WL ++ WR) S -> s_vars S = zunion (s_vars L) (s_vars R) ->
  let S' := fold_left (fun S0 (pr : (config * bool) * (config * bool)) =>
                         let c := c_from_disjoint n (fst (fst pr)) (fst (snd pr)) in
                         if snd (fst pr) && snd (snd pr) then s_add_complete S0 c else s_add S0 c)
                      pairs S in
  SampOK p (WL ++ WR) S' /\ s_vars S' = s_vars S /\
  (forall x, In x (s_iter S) -> In x (s_iter S')) /\
  (forall a b, In (a, b) pairs -> exists c', In c' (s_iter S') /\
     incl (c_decided (fst a)) (c_decided c') /\ incl (c_decided (fst b)) (c_decided c')).
Proof.
  induction pairs as [|[[l bl] [r br]] pairs IH]; intros S Hin HS Hvars; cbn [fold_left].
  - cbv zeta. split; [exact HS|]. split; [reflexivity|]. split; [auto|]. intros a b [].
  - destruct (Hin _ _ (or_introl eq_refl)) as [Hl Hr]. apply iter_compl_in in Hl, Hr.
    destruct Hl as [Hl Hlc], Hr as [Hr Hrc].
    pose proof (disjoint_cfg_ok l r (L_cfg l Hl) (R_cfg r Hr)) as Hok.
    cbn [fst snd].
    set (c := c_from_disjoint n l r) in *.
    set (S1 := if bl && br then s_add_complete S c else s_add S c).
    assert (HS1 : SampOK p (WL ++ WR) S1 /\ s_vars S1 = s_vars S /\
                  (forall x, In x (s_iter S1) <-> x = c \/ In x (s_iter S))).
    { unfold S1. destruct (bl && br) eqn:Eb.
      - apply andb_true_iff in Eb. destruct Eb as [-> ->]. split; [|split; [reflexivity|apply add_complete_iter]].
        apply add_complete_ok; [exact HS|exact Hok|].
        unfold c. rewrite (disjoint_cfg_ndec l r (L_cfg l Hl) (R_cfg r Hr)), Hvars, zvars_length.
        now rewrite (so_comp _ _ _ _ _ HL l (Hlc eq_refl)), (so_comp _ _ _ _ _ HR r (Hrc eq_refl)).
      - split; [now apply s_add_ok|]. split; [apply s_add_vars|apply s_add_iter]. }
    destruct HS1 as [K1 [K2 K3]].
    destruct (IH S1) as [G1 [G2 [G3 G4]]].
    + intros a b Hab. apply Hin. now right.
    + exact K1.
    + now rewrite K2.
    + cbv zeta in G1, G2, G3, G4 |- *. refine (conj G1 (conj (eq_trans G2 K2) (conj _ _))).
      * intros x Hx. apply G3. apply K3. now right.
      * intros a b [E|Hab]; [|now apply G4]. injection E as <- <-. exists c. split; [apply G3; apply K3; now left|].
        cbn [fst]. pose proof (disjoint_cfg_dec l r (L_cfg l Hl) (R_cfg r Hr)) as Hdec.
        split; intros x Hx; apply Hdec; auto.
Qed.

Lemma partial_fold : forall rest S, Forall (CfgOK p (WL ++ WR)) rest -> SampOK p (WL ++ WR) S ->
  let S' := fold_left s_add_partial rest S in
  SampOK p (WL ++ WR) S' /\ s_vars S' = s_vars S /\
  (forall x, In x (s_iter S') <-> In x rest \/ In x (s_iter S)).
Proof.
  induction rest as [|c rest IH]; intros S Hrest HS; cbn [fold_left]; cbv zeta.
  - split; [exact HS|]. split; [reflexivity|]. intros x. cbn. tauto.
  - inversion Hrest; subst. destruct (IH (s_add_partial S c)) as [G1 [G2 G3]]; [assumption|now apply add_partial_ok|].
    cbv zeta in *. split; [exact G1|]. split; [exact G2|]. intros x. rewrite G3, add_partial_iter. cbn [In]. intuition.
Qed.

(* zip_samples: every configuration of either side survives inside some configuration *)
Lemma zip_spec :
  let S' := zip_samples n L R in
  SampOK p (WL ++ WR) S' /\ s_vars S' = zunion (s_vars L) (s_vars R) /\
  (forall c, In c (s_iter L) -> exists c', In c' (s_iter S') /\ incl (c_decided c) (c_decided c')) /\
  (forall c, In c (s_iter R) -> exists c', In c' (s_iter S') /\ incl (c_decided c) (c_decided c')).
Proof.
  unfold zip_samples. cbv zeta.
  set (S0 := s_new_from [L; R]).
  assert (HS0 : SampOK p (WL ++ WR) S0).
  { constructor.
    - unfold S0. rewrite s_new_from2_vars. apply zvars_nodup.
    - intros v. unfold S0. rewrite s_new_from2_vars. apply zvars_in.
    - constructor.
    - intros c []. }
  assert (Hv0 : s_vars S0 = zunion (s_vars L) (s_vars R)) by apply s_new_from2_vars.
  destruct (zip_fold (combine (iter_compl L) (iter_compl R)) S0) as [G1 [G2 [G3 G4]]]; [|exact HS0|exact Hv0|].
  { intros a b Hab. split; [eapply in_combine_l; exact Hab|eapply in_combine_r; exact Hab]. }
  cbv zeta in *.
  set (S1 := fold_left _ (combine (iter_compl L) (iter_compl R)) S0) in *.
  set (rest := if (s_len R <=? s_len L)%nat then skipn (s_len R) (s_iter L) else skipn (s_len L) (s_iter R)).
  assert (Hrest : Forall (CfgOK p (WL ++ WR)) rest).
  { apply Forall_forall. intros x Hx. unfold rest in Hx. destruct (s_len R <=? s_len L)%nat.
    - apply (CfgOK_ext p WL); [intros v Hv; apply in_app_iff; now left|]. apply L_cfg.
      rewrite <- (firstn_skipn (s_len R) (s_iter L)). apply in_app_iff. now right.
    - apply (CfgOK_ext p WR); [intros v Hv; apply in_app_iff; now right|]. apply R_cfg.
      rewrite <- (firstn_skipn (s_len L) (s_iter R)). apply in_app_iff. now right. }
  destruct (partial_fold rest S1 Hrest G1) as [K1 [K2 K3]]. cbv zeta in *.
  split; [exact K1|]. split; [now rewrite K2, G2|]. split.
  - intros c Hc.
    assert (Hex : exists b, In (c, b) (iter_compl L)).
    { rewrite <- iter_compl_fst in Hc. apply in_map_iff in Hc. destruct Hc as [[c0 b] [E Hc]]. cbn in E. subst. now exists b. }
    destruct Hex as [b Hb].
    destruct (combine_cover_l (iter_compl L) (iter_compl R) (c, b) Hb) as [[y Hy]|Hs].
    + destruct (G4 _ _ Hy) as [c' [Hc' [Hi1 _]]]. exists c'. split; [apply K3; now right|exact Hi1].
    + exists c. split; [|apply incl_refl]. apply K3. left. unfold rest.
      rewrite iter_compl_length in Hs. pose proof (skipn_nonempty_length _ _ _ Hs) as Hlt.
      rewrite iter_compl_length in Hlt.
      assert (E : (s_len R <=? s_len L)%nat = true) by (apply Nat.leb_le; lia). rewrite E.
      rewrite <- iter_compl_fst, skipn_map. apply in_map_iff. exists (c, b). split; [reflexivity|exact Hs].
  - intros c Hc.
    assert (Hex : exists b, In (c, b) (iter_compl R)).
    { rewrite <- iter_compl_fst in Hc. apply in_map_iff in Hc. destruct Hc as [[c0 b] [E Hc]]. cbn in E. subst. now exists b. }
    destruct Hex as [b Hb].
    destruct (combine_cover_r (iter_compl L) (iter_compl R) (c, b) Hb) as [[x Hx]|Hs].
    + destruct (G4 _ _ Hx) as [c' [Hc' [_ Hi2]]]. exists c'. split; [apply K3; now right|exact Hi2].
    + exists c. split; [|apply incl_refl]. apply K3. left. unfold rest.
      rewrite iter_compl_length in Hs. pose proof (skipn_nonempty_length _ _ _ Hs) as Hlt.
      rewrite iter_compl_length in Hlt.
      assert (E : (s_len R <=? s_len L)%nat = false) by (apply Nat.leb_gt; lia). rewrite E.
      rewrite <- iter_compl_fst, skipn_map. apply in_map_iff. exists (c, b). split; [reflexivity|exact Hs].
Qed.

(* every cross interaction is valid at p, over the joint variables, made of leaves *)
Lemma side_sub_ok Wx (Sx : sample) o : SampOK p Wx Sx -> incl Wx (V p) ->
  (o = [] \/ exists c, In c (s_iter Sx) /\ incl o (c_decided c)) ->
  LitsC o /\ (forall l, In l o -> In (Z.abs l) Wx) /\ valid p o.
Proof.
  intros HS HWx [->|[c [Hc Ho]]].
  - split; [intros l []|]. split; [intros l []|]. now apply valid_nil.
  - pose proof (so_cfgs _ _ _ _ _ HS) as Hall. rewrite Forall_forall in Hall. specialize (Hall c Hc).
    split; [|split].
    + intros l Hl. exact (CfgOK_lits C n HQ p Wx c Hp HRp HWx Hall l (Ho l Hl)).
    + intros l Hl. apply (ok_vars _ _ _ _ _ Hall). now apply Ho.
    + apply (valid_mono C n HQ p (c_decided c)); [exact Hp|exact Ho|apply Hall].
Qed.

Lemma cross_ok X : In X (cross_ints L R t) ->
  LitsC X /\ (forall l, In l X -> In (Z.abs l) (WL ++ WR)) /\ valid p X.
Proof.
  intros HX. destruct (cross_sub L R t X HX) as [oL [oR [-> [HoL HoR]]]].
  destruct (side_sub_ok WL L oL HL HWL HoL) as [A1 [A2 A3]].
  destruct (side_sub_ok WR R oR HR HWR HoR) as [B1 [B2 B3]].
  split; [now apply LitsC_app|]. split; [|now apply both_valid].
  intros l Hl. apply in_app_iff in Hl. apply in_app_iff. destruct Hl; [left; now apply A2|right; now apply B2].
Qed.

Hypothesis HcL : CovAll p WL (Nat.min t (length (s_vars L))) L.
Hypothesis HcR : CovAll p WR (Nat.min t (length (s_vars R))) R.

(* downward closed coverage of one side *)
Lemma side_cover Wx (Sx : sample) I : SampOK p Wx Sx -> incl Wx (V p) ->
  CovAll p Wx (Nat.min t (length (s_vars Sx))) Sx ->
  NoDup (map Z.abs I) -> (forall l, In l I -> In (Z.abs l) Wx) -> (length I <= t)%nat -> valid p I ->
  Covers Sx I.
Proof.
  intros HS HWx Hcov HI HIW Hlen Hv.
  assert (HIv : forall l, In l I -> In (Z.abs l) (s_vars Sx)) by (intros l Hl; apply (so_vars _ _ _ _ _ HS); now apply HIW).
  assert (Hle : (length I <= length (s_vars Sx))%nat).
  { rewrite <- (map_length Z.abs I). apply NoDup_incl_length; [exact HI|].
    intros v Hv'. apply in_map_iff in Hv'. destruct Hv' as [l [<- Hl]]. now apply HIv. }
  apply (cover_down C n HQ p (s_vars Sx) (Nat.min t (length (s_vars Sx))) (Covers Sx) Hp).
  - apply HS.
  - intros v Hv'. apply HWx. now apply (so_vars _ _ _ _ _ HS).
  - lia.
  - intros I0 J Hinc. now apply Covers_mono.
  - intros I0 H1 H2 H3 H4. apply Hcov; try assumption. intros l Hl. apply (so_vars _ _ _ _ _ HS). now apply H2.
  - exact HI.
  - exact HIv.
  - lia.
  - exact Hv.
Qed.

Lemma cover_len Wx (Sx : sample) c J : SampOK p Wx Sx -> In c (s_iter Sx) -> NoDup J -> incl J (c_decided c) ->
  (length J <= length (c_decided c) <= length (s_vars Sx))%nat.
Proof.
  intros HS Hc HJ Hinc. pose proof (so_cfgs _ _ _ _ _ HS) as Hall. rewrite Forall_forall in Hall. specialize (Hall c Hc).
  split; [now apply NoDup_incl_length|].
  rewrite <- (map_length Z.abs). apply NoDup_incl_length; [apply dec_nodup_abs with (n := n); apply Hall|].
  intros v Hv. apply in_map_iff in Hv. destruct Hv as [l [<- Hl]]. apply (so_vars _ _ _ _ _ HS).
  now apply (ok_vars _ _ _ _ _ Hall).
Qed.

(* the fold of cover_with_caching_twise *)
Lemma fold_twise W : incl W (V p) -> forall Xs S, SampOK p W S ->
  (forall X, In X Xs -> LitsC X /\ (forall l, In l X -> In (Z.abs l) W) /\ valid p X) ->
  let S' := fold_left (cover_twise d p n) Xs S in
  SampOK p W S' /\ s_vars S' = s_vars S /\ (forall J, Covers S J -> Covers S' J) /\
  (forall X, In X Xs -> Covers S' X).
Proof.
  intros HW. induction Xs as [|X Xs IH]; intros S HS HX; cbn [fold_left]; cbv zeta.
  - split; [exact HS|]. split; [reflexivity|]. split; [auto|intros X []].
  - destruct (HX X (or_introl eq_refl)) as [A1 [A2 A3]].
    destruct (cover_twise_step C n HQ p W Hp HRp HW S X HS A1 A2 A3) as [K1 [K2 [K3 K4]]]. cbv zeta in *.
    destruct (IH (cover_twise d p n S X) K1) as [G1 [G2 [G3 G4]]]; [intros Y HY; apply HX; now right|].
    cbv zeta in *. split; [exact G1|]. split; [now rewrite G2|]. split; [auto|].
    intros Y [<-|HY]; [now apply G3|now apply G4].
Qed.

(* ZippingMerger::merge on two non-empty samples, the interactions in any order *)
Lemma merge_cov Xs : (forall X, In X Xs <-> In X (cross_ints L R t)) ->
  let S' := fold_left (cover_twise d p n) Xs (zip_samples n L R) in
  SampOK p (WL ++ WR) S' /\ s_vars S' = zunion (s_vars L) (s_vars R) /\
  CovAll p (WL ++ WR) (Nat.min t (length (zunion (s_vars L) (s_vars R)))) S' /\
  (s_iter L <> [] -> s_iter S' <> []).
Proof.
  intros HXs. destruct zip_spec as [Z1 [Z2 [Z3 Z4]]]. cbv zeta in *.
  assert (HWW : incl (WL ++ WR) (V p)) by (intros v Hv; apply in_app_iff in Hv; destruct Hv; auto).
  destruct (fold_twise (WL ++ WR) HWW Xs (zip_samples n L R) Z1) as [F1 [F2 [F3 F4]]].
  { intros X HX. apply cross_ok. now apply HXs. }
  cbv zeta in *. split; [exact F1|]. split; [now rewrite F2|].
  assert (HkeepL : forall J, Covers L J -> Covers (fold_left (cover_twise d p n) Xs (zip_samples n L R)) J).
  { intros J [c [Hc HJ]]. apply F3. destruct (Z3 c Hc) as [c' [Hc' Hi]]. exists c'. split; [exact Hc'|].
    intros l Hl. apply Hi. now apply HJ. }
  assert (HkeepR : forall J, Covers R J -> Covers (fold_left (cover_twise d p n) Xs (zip_samples n L R)) J).
  { intros J [c [Hc HJ]]. apply F3. destruct (Z4 c Hc) as [c' [Hc' Hi]]. exists c'. split; [exact Hc'|].
    intros l Hl. apply Hi. now apply HJ. }
  split.
  - rewrite zvars_length. intros I HI HIW Hlen Hv.
    set (fL := fun l => memZ (Z.abs l) WL).
    set (IL := filter fL I). set (IR := filter (fun l => negb (fL l)) I).
    assert (HILsub : incl IL I) by (intros l Hl; apply filter_In in Hl; tauto).
    assert (HIRsub : incl IR I) by (intros l Hl; apply filter_In in Hl; tauto).
    assert (HILW : forall l, In l IL -> In (Z.abs l) WL).
    { intros l Hl. apply filter_In in Hl. destruct Hl as [_ Hl]. now apply memZ_In. }
    assert (HIRW : forall l, In l IR -> In (Z.abs l) WR).
    { intros l Hl. apply filter_In in Hl. destruct Hl as [Hl Hn]. apply negb_true_iff, memZ_false in Hn.
      specialize (HIW l Hl). apply in_app_iff in HIW. tauto. }
    assert (Hsplit : forall l, In l I -> In l IL \/ In l IR).
    { intros l Hl. destruct (fL l) eqn:E; [left|right]; apply filter_In; split; auto. now rewrite E. }
    assert (Hlens : length I = (length IL + length IR)%nat) by apply filter_split_length.
    assert (HndL : NoDup (map Z.abs IL)) by now apply NoDup_map_filter.
    assert (HndR : NoDup (map Z.abs IR)) by now apply NoDup_map_filter.
    assert (HvL : valid p IL) by (apply (valid_mono C n HQ p I); assumption).
    assert (HvR : valid p IR) by (apply (valid_mono C n HQ p I); assumption).
    assert (HcovL : Covers L IL) by (apply (side_cover WL L IL HL HWL HcL HndL HILW); [lia|exact HvL]).
    assert (HcovR : Covers R IR) by (apply (side_cover WR R IR HR HWR HcR HndR HIRW); [lia|exact HvR]).
    destruct (Nat.eq_dec (length IR) 0) as [Eb|Eb].
    { apply (Covers_mono _ I IL); [|now apply HkeepL].
      intros l Hl. destruct (Hsplit l Hl) as [H|H]; [exact H|]. destruct IR; [destruct H|discriminate]. }
    destruct (Nat.eq_dec (length IL) 0) as [Ea|Ea].
    { apply (Covers_mono _ I IR); [|now apply HkeepR].
      intros l Hl. destruct (Hsplit l Hl) as [H|H]; [|exact H]. destruct IL; [destruct H|discriminate]. }
    destruct HcovL as [cL [HcL' HIL]]. destruct HcovR as [cR [HcR' HIR]].
    assert (HndIL : NoDup IL) by (apply (NoDup_map_inv Z.abs); exact HndL).
    assert (HndIR : NoDup IR) by (apply (NoDup_map_inv Z.abs); exact HndR).
    pose proof (cover_len WL L cL IL HL HcL' HndIL HIL) as HlL.
    pose proof (cover_len WR R cR IR HR HcR' HndIR HIR) as HlR.
    destruct (tints_covers (c_decided cL) (length IL) IL HndIL HIL eq_refl) as [oL [HoL HpL]].
    destruct (tints_covers (c_decided cR) (length IR) IR HndIR HIR eq_refl) as [oR [HoR HpR]].
    assert (HminL : Nat.min (length (c_decided cL)) (length IL) = length IL) by lia.
    assert (HminR : Nat.min (length (c_decided cR)) (t - length IL) = length IR) by lia.
    assert (Hk : (1 <= length IL <= t - 1)%nat) by lia.
    assert (HX : In (oL ++ oR)%list (cross_ints L R t)).
    { apply (cross_in L R t oL oR (length IL) Hk).
      - apply (level_in L _ cL oL HcL'). now rewrite HminL.
      - apply (level_in R _ cR oR HcR'). now rewrite HminR. }
    apply (Covers_mono _ I (oL ++ oR)%list); [|apply F4; now apply HXs].
    intros l Hl. apply in_app_iff. destruct (Hsplit l Hl) as [H|H].
    + left. apply (Permutation_in l (Permutation_sym HpL) H).
    + right. apply (Permutation_in l (Permutation_sym HpR) H).
  - intros Hne. destruct (s_iter L) as [|c0 l0] eqn:E; [congruence|].
    assert (Hc0 : In c0 (s_iter L)) by (rewrite E; now left).
    assert (Hcv : Covers L (c_decided c0)) by (exists c0; split; [exact Hc0|apply incl_refl]).
    destruct (HkeepL _ Hcv) as [c' [Hc' _]]. intros Habs. rewrite Habs in Hc'. destruct Hc'.
Qed.

End Two.
(* ---------- merge / merge_all on the samples of the children ---------- *)
Variable ord_int : nat -> nat -> nat -> list cfg -> list cfg.
Variable ord_sort : nat -> list sample -> list sample.
Hypothesis Hord_int : forall a b c l, Permutation (ord_int a b c l) l.
Hypothesis Hord_sort : forall a l, Permutation (ord_sort a l) l.

(* a sample that may take part in the merges at p: empty, or invariant + covering over its own
   variables, which are aligned with the children of p *)
Definition GoodS (S : sample) : Prop :=
  (s_is_empty S = true /\ s_vars S = []) \/
  (s_is_empty S = false /\ SampOK p (s_vars S) S /\
   CovAll p (s_vars S) (Nat.min t (length (s_vars S))) S /\
   Aligned C cs (s_vars S) /\ incl (s_vars S) (V p)).

Lemma GoodS_nodup S : GoodS S -> NoDup (s_vars S).
Proof. intros [[_ ->]|[_ [H _]]]; [constructor|apply H]. Qed.

Lemma GoodS_default : GoodS s_default.
Proof. left. split; reflexivity. Qed.

Lemma CovAll_ext W W' tt S : (forall v, In v W' -> In v W) -> CovAll p W tt S -> CovAll p W' tt S.
Proof. intros H Hc I H1 H2 H3 H4. apply Hc; auto. Qed.

Lemma Aligned_union W1 W2 W : Aligned C cs W1 -> Aligned C cs W2 ->
  (forall v, In v W <-> In v W1 \/ In v W2) -> Aligned C cs W.
Proof.
  intros H1 H2 HW c Hc. destruct (H1 c Hc) as [A|A], (H2 c Hc) as [B|B].
  - left. intros v Hv. apply HW. left. now apply A.
  - left. intros v Hv. apply HW. left. now apply A.
  - left. intros v Hv. apply HW. right. now apply B.
  - right. intros v Hv Hw. apply HW in Hw. destruct Hw; [exact (A v Hv H)|exact (B v Hv H)].
Qed.

Lemma and_merge_good node ph st L R : GoodS L -> GoodS R ->
  (forall v, In v (s_vars L) -> ~ In v (s_vars R)) ->
  let S' := and_merge d n t ord_int node ph st L R in
  p = node ->
  GoodS S' /\ (forall v, In v (s_vars S') <-> In v (s_vars L) \/ In v (s_vars R)).
Proof.
  intros HL HR Hdis S' <-. unfold S', and_merge.
  destruct HL as [[EL VL]|[EL [SL [CL [AL IL]]]]].
  { rewrite EL. split; [exact HR|]. intros v. rewrite VL. cbn. tauto. }
  rewrite EL.
  destruct HR as [[ER VR]|[ER [SR [CR [AR IR]]]]].
  { rewrite ER. split; [right; auto|]. intros v. rewrite VR. cbn. tauto. }
  rewrite ER.
  destruct (merge_cov (s_vars L) (s_vars R) IL IR AL Hdis L R SL SR CL CR
              (ord_int p ph st (cross_ints L R t))) as [M1 [M2 [M3 M4]]].
  { intros X. split; apply Permutation_in; [apply Hord_int|apply Permutation_sym, Hord_int]. }
  cbv zeta in *.
  assert (Hvars : forall v, In v (s_vars (fold_left (cover_twise d p n) (ord_int p ph st (cross_ints L R t)) (zip_samples n L R)))
                            <-> In v (s_vars L) \/ In v (s_vars R)).
  { intros v. rewrite M2. apply zunion_In. }
  split; [|exact Hvars]. right. split; [|split; [|split; [|split]]].
  - apply Bool.not_true_is_false. intros E. apply s_is_empty_iter in E. apply M4; [|exact E].
    intros Habs. apply s_is_empty_iter in Habs. congruence.
  - apply (SampOK_ext p (s_vars L ++ s_vars R)); [|exact M1]. intros v. rewrite Hvars. apply in_app_iff.
  - rewrite M2 at 2. apply (CovAll_ext (s_vars L ++ s_vars R)); [|exact M3].
    intros v Hv. apply in_app_iff. now apply Hvars.
  - apply (Aligned_union (s_vars L) (s_vars R)); assumption.
  - intros v Hv. apply Hvars in Hv. destruct Hv; auto.
Qed.

Lemma fold_merge_good node ph : p = node -> forall l k acc, GoodS acc -> Forall GoodS l ->
  NoDup (s_vars acc ++ flat_map s_vars l) ->
  let R := fold_left (fun a (pr : nat * sample) => and_merge d n t ord_int node ph (fst pr) a (snd pr))
                     (indexed_from k l) acc in
  GoodS R /\ (forall v, In v (s_vars R) <-> In v (s_vars acc) \/ In v (flat_map s_vars l)).
Proof.
  intros Hnode. induction l as [|x l IH]; intros k acc Hacc Hl Hnd; cbn [indexed_from fold_left]; cbv zeta.
  - split; [exact Hacc|]. intros v. cbn. tauto.
  - inversion Hl as [|? ? Hx Hl']; subst x0 l0. cbn [flat_map] in Hnd.
    destruct (NoDup_app_inv _ _ Hnd) as [N1 [N2 N3]]. destruct (NoDup_app_inv _ _ N2) as [N4 [N5 N6]].
    destruct (and_merge_good node ph k acc x Hacc Hx) as [G1 G2]; [|exact Hnode|].
    { intros v Hv Hv'. apply (N3 v Hv). apply in_app_iff. now left. }
    cbv zeta in *. cbn [fst snd].
    destruct (IH (S k) (and_merge d n t ord_int node ph k acc x) G1 Hl') as [K1 K2].
    + apply NoDup_app_intro; [now apply GoodS_nodup|exact N5|].
      intros v Hv Hv'. apply G2 in Hv. destruct Hv as [Hv|Hv].
      * apply (N3 v Hv). apply in_app_iff. now right.
      * exact (N6 v Hv Hv').
    + cbv zeta in *. split; [exact K1|]. intros v. rewrite K2, G2. cbn [flat_map]. rewrite in_app_iff. tauto.
Qed.

Lemma Forall_perm {A} (P : A -> Prop) l l' : Permutation l l' -> Forall P l -> Forall P l'.
Proof.
  intros Hperm Hl. rewrite Forall_forall in *. intros x Hx. apply Hl. apply (Permutation_in x (Permutation_sym Hperm) Hx).
Qed.

(* ZippingMerger::merge_all *)
Lemma and_merge_all_good node Ss : p = node -> Forall GoodS Ss -> NoDup (flat_map s_vars Ss) ->
  let R := and_merge_all d n t ord_int ord_sort node Ss in
  GoodS R /\ (forall v, In v (s_vars R) <-> In v (flat_map s_vars Ss)).
Proof.
  intros Hnode HSs Hnd. unfold and_merge_all, indexed. cbv zeta.
  set (f := fun S : sample => (s_len S <=? 1)%nat).
  set (singles := filter f Ss). set (others := filter (fun S => negb (f S)) Ss).
  pose proof (partition_perm f Ss) as Hperm. fold singles others in Hperm.
  assert (Hnd2 : NoDup (flat_map s_vars singles ++ flat_map s_vars others)).
  { rewrite <- flat_map_app. eapply Permutation_NoDup; [|exact Hnd]. now apply Permutation_flat_map. }
  destruct (NoDup_app_inv _ _ Hnd2) as [Ns [No Nso]].
  assert (Hgs : Forall GoodS singles) by (apply Forall_forall; intros x Hx; apply filter_In in Hx;
    rewrite Forall_forall in HSs; now apply HSs).
  assert (Hgo : Forall GoodS others) by (apply Forall_forall; intros x Hx; apply filter_In in Hx;
    rewrite Forall_forall in HSs; now apply HSs).
  destruct (fold_merge_good node 0%nat Hnode singles 0%nat s_default GoodS_default Hgs) as [S1 S2]; [exact Ns|].
  cbv zeta in *.
  set (single := fold_left _ (indexed_from 0 singles) s_default) in *.
  set (sorted := sort_len (ord_sort node (others ++ [single]))).
  assert (Hps : Permutation sorted (others ++ [single])).
  { unfold sorted. etransitivity; [apply sort_len_perm|apply Hord_sort]. }
  assert (Hgsorted : Forall GoodS sorted).
  { apply (Forall_perm _ _ _ (Permutation_sym Hps)). apply Forall_app. split; [exact Hgo|now constructor]. }
  assert (Hndsorted : NoDup (flat_map s_vars sorted)).
  { eapply Permutation_NoDup; [apply Permutation_flat_map; apply Permutation_sym; exact Hps|].
    rewrite flat_map_app. cbn [flat_map]. rewrite app_nil_r.
    apply NoDup_app_intro; [exact No|now apply GoodS_nodup|].
    intros v Hv Hv'. apply S2 in Hv'. cbn [s_default s_vars] in Hv'. destruct Hv' as [[]|Hv'].
    exact (Nso v Hv' Hv). }
  destruct (fold_merge_good node 1%nat Hnode sorted 0%nat s_default GoodS_default Hgsorted) as [R1 R2]; [exact Hndsorted|].
  cbv zeta in *. split; [exact R1|]. intros v. etransitivity; [exact (R2 v)|]. cbn [s_default s_vars In].
  assert (E1 : In v (flat_map s_vars sorted) <-> In v (flat_map s_vars (others ++ [single]))).
  { split; apply Permutation_in; apply Permutation_flat_map; [exact Hps|now apply Permutation_sym]. }
  assert (E2 : In v (flat_map s_vars Ss) <-> In v (flat_map s_vars (singles ++ others))).
  { split; apply Permutation_in; apply Permutation_flat_map; [exact Hperm|now apply Permutation_sym]. }
  rewrite E1, E2, !flat_map_app, !in_app_iff. cbn [flat_map]. rewrite app_nil_r, S2. cbn [s_default s_vars In]. tauto.
Qed.

End And.
