(* C18: the only place where the d4 loader iterated a hash container (the features missing below
   an or-child, balance_or_children) now sorts them first.  Whatever order the container yields
   (any permutation), the attached order is the same. *)
From Coq Require Import List Arith Bool Lia Permutation.
From DD Require Import Model.Circuit Model.Query.
Import ListNotations.

Ltac leb_hyps := repeat match goal with
  | H : Nat.leb _ _ = true |- _ => apply Nat.leb_le in H
  | H : Nat.leb _ _ = false |- _ => apply Nat.leb_gt in H
  end.

Lemma insert_nat_comm x y l : insert_nat x (insert_nat y l) = insert_nat y (insert_nat x l).
Proof.
  induction l as [|z l IH]; cbn [insert_nat].
  - destruct (Nat.leb x y) eqn:A, (Nat.leb y x) eqn:B; try reflexivity; leb_hyps;
      [assert (x = y) by lia; subst; reflexivity|lia].
  - destruct (Nat.leb y z) eqn:Hyz, (Nat.leb x z) eqn:Hxz; cbn [insert_nat];
      repeat (match goal with
              | |- context [Nat.leb ?a ?b] => destruct (Nat.leb a b) eqn:?
              end; cbn [insert_nat]);
      try reflexivity; try (rewrite IH; reflexivity); leb_hyps; try lia;
      try (assert (x = y) by lia; subst; reflexivity).
Qed.

Theorem sort_nat_perm (l1 l2 : list nat) : Permutation l1 l2 -> sort_nat l1 = sort_nat l2.
Proof.
  unfold sort_nat. induction 1 as [|x l l' H IH|x y l|l l' l'' H1 IH1 H2 IH2]; cbn [fold_right].
  - reflexivity.
  - now rewrite IH.
  - apply insert_nat_comm.
  - now transitivity (fold_right insert_nat [] l').
Qed.

(* the attach order of the repaired loader is a function of the SET of missing features *)
Corollary attach_order_hash_independent (ord1 ord2 : list nat -> list nat) (missing : list nat) :
  (forall l, Permutation (ord1 l) l) -> (forall l, Permutation (ord2 l) l) ->
  sort_nat (ord1 missing) = sort_nat (ord2 missing).
Proof.
  intros H1 H2. apply sort_nat_perm. transitivity missing; [apply H1|symmetry; apply H2].
Qed.

(* the unrepaired loader used the container's order directly: two iteration orders give two
   different child orders *)
Lemma attach_order_v0_refuted :
  exists (ord1 ord2 : list nat -> list nat) (missing : list nat),
    (forall l, Permutation (ord1 l) l) /\ (forall l, Permutation (ord2 l) l) /\
    ord1 missing <> ord2 missing.
Proof.
  exists (fun l => l), (@rev nat), [2; 3]%nat. repeat split.
  - intros l. reflexivity.
  - intros l. symmetry. apply Permutation_rev.
  - cbn. discriminate.
Qed.
