(* C20: the witness against the unrepaired usize product in merge_top_k_results_and
   (word size 64, evaluated with vm_compute). *)
From Coq Require Import List ZArith Bool Lia Permutation.
From DD Require Import Model.Circuit Model.Optimal Proofs.PassLemmas Proofs.Enum Proofs.Semantics
  Proofs.DetCert Proofs.TopK.
Import ListNotations.
Open Scope Z_scope.

(* w free features: And over w or-triangles *)
Definition wide (w : nat) : circuit :=
  flat_map (fun i => [Lit (Z.of_nat (S i)); Lit (- Z.of_nat (S i)); Or [(3 * i)%nat; (3 * i + 1)%nat]])
           (seq 0 w)
  ++ [And (map (fun i => (3 * i + 2)%nat) (seq 0 w))].

Lemma MCA_nil C n : MCA C n [] = MC C n.
Proof.
  unfold MCA, MC, ModelsA. rewrite filter_all_true; [reflexivity|]. intros m _. reflexivity.
Qed.

Lemma refuted_overflow :
  exists (C : circuit) (n : nat) (vals : list Z) (k : nat),
    WF C n /\ k = 2%nat /\ MCA C n [] = 2 ^ 64
    /\ calc_top_k_configs_v0_release pick_first vals [] k C = Done []
    /\ calc_top_k_configs_v0_debug pick_first vals [] k C = Panic
    /\ exists R, calc_top_k_configs pick_first vals [] k C = Done R /\ length R = 2%nat.
Proof.
  exists (wide 64), 64%nat, (repeat 1 64), 2%nat.
  assert (HWF : WF (wide 64) 64) by (apply check_wf_sound; vm_compute; reflexivity).
  split; [exact HWF|]. split; [reflexivity|]. split.
  - rewrite MCA_nil, <- (count_is_MC _ _ HWF). vm_compute. reflexivity.
  - split; [vm_compute; reflexivity|]. split; [vm_compute; reflexivity|].
    eexists. split; [vm_compute; reflexivity|reflexivity].
Qed.

