(* C09 pipeline: the invariant of configurations and samples at a node, the exactness of every
   cached SAT call under it (C03 call_inv), and the step lemmas of the covering strategies.

   CfgOK r W c : c is a well-shaped configuration whose decided literals are over the variable set W,
                 valid at node r (extendable to a partial configuration enumerated at r), and whose
                 cached mark vector - if any - is the exact propagation state (C03 Inv) of a SUBSET
                 P of its decided literals, of ALL of them when the complete flag is set.
   The cached vector does not depend on the node it was computed for (marks propagate to all
   parents), which is why configurations can be handed from child to parent with their cache. *)
From Coq Require Import List ZArith Bool Arith Lia Permutation.
From DD Require Import Model.Circuit Model.Query Model.TwiseCfg Proofs.PassLemmas Proofs.Semantics
  Proofs.CountsA Proofs.QueryDefs Proofs.Live Proofs.LiveCounts Proofs.C03Proof Proofs.TwiseBase
  Proofs.TwiseSem Proofs.TwiseCfgProof.
Import ListNotations.
Open Scope Z_scope.

Section Inv.
Variables (C : circuit) (n : nat).
Hypothesis HQ : WFQ C n.
Let d := build C n.

Notation valid := (valid C).
Notation V := (V C).

(* the literals of A are LIVE leaves (reachable from the root through nodes with a non-zero count,
   Proofs/Live.v): the complement of a live literal is not a core literal, so the core shortcut of
   sat_propagate - relative to the ROOT, and since F22 blind to dead branches - never answers a
   query about them; inside a dead branch it may, which is why the node lemmas below are about
   reachable nodes *)
Definition LitsC (A : cfg) : Prop := forall l, In l A -> LiveLit C l.

Lemma no_core A : LitsC A -> existsb (makes_unsat d) A = false.
Proof.
  intros HA. destruct (existsb (makes_unsat d) A) eqn:E; [|reflexivity]. exfalso.
  apply existsb_exists in E. destruct E as [f [Hf Hmu]].
  unfold makes_unsat in Hmu. apply andb_true_iff in Hmu. destruct Hmu as [_ Hmu].
  apply memZ_In in Hmu. change (core d) with (calculate_core C n) in Hmu.
  pose proof (wfq_wf C n HQ) as HWF.
  exact (live_not_opposed_by_core C n (wf_idx C n HWF) (wf_nonempty C n HWF) f (HA f Hf) Hmu).
Qed.

Lemma LitsC_lits A : LitsC A -> forall l, In l A -> In l (lits_of C).
Proof. intros HA l Hl. exact (live_lit_of C l (HA l Hl)). Qed.

Lemma LitsC_range A : LitsC A -> forall l, In l A -> l <> 0 /\ inr n l.
Proof.
  intros HA l Hl. pose proof (LitsC_lits A HA l Hl) as H.
  split; [exact (lits_of_nonzero C n HQ l H)|exact (lits_inr C n HQ l H)].
Qed.

Lemma LitsC_app A B : LitsC A -> LitsC B -> LitsC (A ++ B).
Proof. intros HA HB l Hl. apply in_app_iff in Hl. destruct Hl; auto. Qed.

Definition StOK (c : config) : Prop :=
  match c_st c with
  | None => True
  | Some (m, fl) => exists P, Inv C P m /\ incl P (c_decided c) /\ (fl = true -> incl (c_decided c) P)
  end.

Record CfgOK (r : nat) (W : list Z) (c : config) : Prop := {
  ok_wf : WFc n c;
  ok_vars : forall l, In l (c_decided c) -> In (Z.abs l) W;
  ok_valid : valid r (c_decided c);
  ok_st : StOK c;
}.

Lemma CfgOK_lits r W c : (r < length C)%nat -> Reach C r -> incl W (V r) -> CfgOK r W c ->
  LitsC (c_decided c).
Proof.
  intros Hr HR HW [_ Hv Hval _].
  refine (valid_live_lits C n HQ r (c_decided c) Hr HR _ Hval). intros l Hl. apply HW. now apply Hv.
Qed.

(* ---------- one SAT call on a state with invariant ---------- *)
Lemma sat_call_nc r P A m : (r < length C)%nat -> 0 < cnt C r -> Inv C P m ->
  existsb (makes_unsat d) A = false ->
  snd (sat_propagate d A m (Some r)) = (0 <? cA C (P ++ A) r) /\
  (snd (sat_propagate d A m (Some r)) = true -> Inv C (P ++ A) (fst (sat_propagate d A m (Some r)))).
Proof.
  intros Hr Hpos HI HA.
  destruct (call_inv C n HQ P A m (Some r) Hr Hpos HI HA) as [H1 [H2 _]].
  split; assumption.
Qed.

Lemma sat_call r P A m : (r < length C)%nat -> 0 < cnt C r -> Inv C P m -> LitsC A ->
  snd (sat_propagate d A m (Some r)) = (0 <? cA C (P ++ A) r) /\
  (snd (sat_propagate d A m (Some r)) = true -> Inv C (P ++ A) (fst (sat_propagate d A m (Some r)))).
Proof. intros Hr Hpos HI HA. apply sat_call_nc; auto. now apply no_core. Qed.

Lemma new_state_inv : Inv C [] (new_state d).
Proof. exact (inv_init C). Qed.

Lemma valid_true r A : valid r A -> (0 <? cA C A r) = true.
Proof. intros H. now apply Z.ltb_lt. Qed.

(* update_sat_state *)
Lemma update_spec r W c : (r < length C)%nat -> Reach C r -> incl W (V r) -> CfgOK r W c ->
  let c' := c_update d r c in
  c_lits c' = c_lits c /\ c_ndec c' = c_ndec c /\
  exists m fl P, c_st c' = Some (m, fl) /\ Inv C P m /\ incl P (c_decided c) /\ incl (c_decided c) P.
Proof.
  intros Hr HRr HW Hok. pose proof (CfgOK_lits r W c Hr HRr HW Hok) as HL.
  destruct Hok as [Hwf Hv Hval Hst].
  pose proof (valid_live C n HQ r _ Hr Hval) as Hpos.
  unfold c_update. unfold StOK in Hst.
  destruct (c_st c) as [[m [|]]|] eqn:Est.
  - cbv zeta. split; [reflexivity|]. split; [reflexivity|].
    destruct Hst as [P [HI [H1 H2]]]. exists m, true, P. rewrite Est. auto.
  - cbv zeta. cbn [c_lits c_ndec c_st]. split; [reflexivity|]. split; [reflexivity|].
    destruct Hst as [P [HI [H1 _]]].
    destruct (sat_call r P (c_decided c) m Hr Hpos HI HL) as [Hans Hinv].
    assert (Hv' : valid r (P ++ c_decided c)).
    { apply (valid_mono C n HQ r (c_decided c)); [exact Hr| |exact Hval].
      intros l Hl. apply in_app_iff in Hl. destruct Hl; auto. }
    rewrite (valid_true r _ Hv') in Hans.
    eexists _, false, (P ++ c_decided c). split; [reflexivity|]. split; [now apply Hinv|]. split.
    + intros l Hl. apply in_app_iff in Hl. destruct Hl; auto.
    + intros l Hl. apply in_app_iff. now right.
  - cbv zeta. cbn [c_lits c_ndec c_st]. split; [reflexivity|]. split; [reflexivity|].
    destruct (sat_call r [] (c_decided c) (new_state d) Hr Hpos new_state_inv HL) as [Hans Hinv].
    cbn [app] in *. rewrite (valid_true r _ Hval) in Hans.
    eexists _, true, (c_decided c). split; [reflexivity|]. split; [now apply Hinv|].
    split; apply incl_refl.
Qed.

Lemma update_ok r W c : (r < length C)%nat -> Reach C r -> incl W (V r) -> CfgOK r W c -> CfgOK r W (c_update d r c).
Proof.
  intros Hr HRr HW Hok. destruct (update_spec r W c Hr HRr HW Hok) as [Hl [Hn [m [fl [P [Hst [HI [H1 H2]]]]]]]].
  assert (Hdec : c_decided (c_update d r c) = c_decided c) by (unfold c_decided; now rewrite Hl).
  destruct Hok as [Hwf Hv Hval _]. constructor.
  - destruct Hwf as [Ha Hb Hc]. constructor; rewrite ?Hl, ?Hn, ?Hdec; assumption.
  - now rewrite Hdec.
  - now rewrite Hdec.
  - unfold StOK. rewrite Hst, Hdec. exists P. auto.
Qed.

(* the query made on the updated state *)
Lemma query_spec_nc r W c I : (r < length C)%nat -> Reach C r -> incl W (V r) -> CfgOK r W c ->
  existsb (makes_unsat d) I = false ->
  let c1 := c_update d r c in
  let res := sat_propagate d I (c_state_of d c1) (Some r) in
  snd res = (0 <? cA C (c_decided c ++ I) r) /\
  (snd res = true -> exists P, Inv C P (fst res) /\ incl P (c_decided c ++ I) /\ incl (c_decided c ++ I) P).
Proof.
  intros Hr HRr HW Hok HI. cbv zeta.
  destruct (update_spec r W c Hr HRr HW Hok) as [_ [_ [m [fl [P [Hst [HInv [H1 H2]]]]]]]].
  unfold c_state_of. rewrite Hst.
  pose proof (valid_live C n HQ r _ Hr (ok_valid _ _ _ Hok)) as Hpos.
  destruct (sat_call_nc r P I m Hr Hpos HInv HI) as [Hans Hinv].
  assert (Heq : (0 <? cA C (P ++ I) r) = (0 <? cA C (c_decided c ++ I) r)).
  { assert (Hiff : valid r (P ++ I) <-> valid r (c_decided c ++ I)).
    { apply (valid_equiv C n HQ r _ _ Hr); intros l Hl; apply in_app_iff in Hl; apply in_app_iff;
        destruct Hl; auto. }
    unfold TwiseSem.valid in Hiff.
    destruct (Z.ltb_spec 0 (cA C (P ++ I) r)), (Z.ltb_spec 0 (cA C (c_decided c ++ I) r)); try reflexivity; lia. }
  split; [now rewrite Hans|]. intros Ht. exists (P ++ I). split; [now apply Hinv|].
  split; intros l Hl; apply in_app_iff in Hl; apply in_app_iff; destruct Hl; auto.
Qed.

Lemma query_spec r W c I : (r < length C)%nat -> Reach C r -> incl W (V r) -> CfgOK r W c -> LitsC I ->
  let c1 := c_update d r c in
  let res := sat_propagate d I (c_state_of d c1) (Some r) in
  snd res = (0 <? cA C (c_decided c ++ I) r) /\
  (snd res = true -> exists P, Inv C P (fst res) /\ incl P (c_decided c ++ I) /\ incl (c_decided c ++ I) P).
Proof. intros Hr HRr HW Hok HI. apply (query_spec_nc r W c I Hr HRr HW Hok). now apply no_core. Qed.

(* ---------- cover() ---------- *)
Definition CovL (P : list config) (J : cfg) : Prop := exists c, In c P /\ incl J (c_decided c).

Lemma cover_spec r W I : (r < length C)%nat -> Reach C r -> incl W (V r) -> LitsC I ->
  (forall l, In l I -> In (Z.abs l) W) ->
  forall P k P' res, Forall (CfgOK r W) P -> cover d r P I k = (P', res) ->
  Forall (CfgOK r W) P' /\ length P' = length P /\
  (forall J, CovL P J -> CovL P' J) /\
  (forall c', In c' P' -> exists c, In c P /\ (c_ndec c <= c_ndec c')%nat) /\
  match res with
  | Some idx => (k <= idx)%nat /\ exists c', nth_error P' (idx - k) = Some c' /\ incl I (c_decided c')
  | None => True
  end.
Proof.
  intros Hr HRr HW HI HIW. pose proof (LitsC_range I HI) as HIr.
  induction P as [|c P IH]; intros k P' res HP Hc.
  - cbn in Hc. injection Hc as <- <-. repeat split; auto. intros c' [].
  - inversion HP as [|? ? Hok HP']; subst. cbn [cover] in Hc.
    assert (Hrec : forall c0, CfgOK r W c0 -> c_decided c0 = c_decided c -> c_ndec c0 = c_ndec c ->
              (let (P'', res0) := cover d r P I (S k) in (c0 :: P'', res0)) = (P', res) ->
              Forall (CfgOK r W) P' /\ length P' = length (c :: P) /\
              (forall J, CovL (c :: P) J -> CovL P' J) /\
              (forall c', In c' P' -> exists c1, In c1 (c :: P) /\ (c_ndec c1 <= c_ndec c')%nat) /\
              match res with
              | Some idx => (k <= idx)%nat /\ exists c', nth_error P' (idx - k) = Some c' /\ incl I (c_decided c')
              | None => True
              end).
    { intros c0 Hok0 Hdec0 Hnd0 Heq. destruct (cover d r P I (S k)) as [P'' res0] eqn:Ec.
      injection Heq as <- <-. destruct (IH (S k) P'' res0 HP' Ec) as [G1 [G2 [G3 [G4 G5]]]].
      split; [now constructor|]. split; [cbn; now rewrite G2|]. split; [|split].
      - intros J [c1 [[<-|Hin] HJ]].
        + exists c0. split; [now left|now rewrite Hdec0].
        + destruct (G3 J (ex_intro _ c1 (conj Hin HJ))) as [c2 [H2 H3]]. exists c2. split; [now right|exact H3].
      - intros c' [<-|Hin].
        + exists c. split; [now left|lia].
        + destruct (G4 c' Hin) as [c1 [H1 H2]]. exists c1. split; [now right|exact H2].
      - destruct res0 as [idx|]; [|exact Logic.I]. destruct G5 as [Hle [c' [Hn Hc']]]. split; [lia|].
        exists c'. split; [|exact Hc']. replace (idx - k)%nat with (S (idx - S k)) by lia. exact Hn. }
    destruct (c_conflicts c I) eqn:Ecf; [now apply (Hrec c)|].
    pose proof (update_ok r W c Hr HRr HW Hok) as Hok1.
    destruct (update_spec r W c Hr HRr HW Hok) as [Hl1 [Hn1 _]].
    assert (Hdec1 : c_decided (c_update d r c) = c_decided c) by (unfold c_decided; now rewrite Hl1).
    destruct (query_spec r W c I Hr HRr HW Hok HI) as [Hans Hinv]. cbv zeta in Hans, Hinv.
    destruct (sat_propagate d I (c_state_of d (c_update d r c)) (Some r)) as [m' b] eqn:Eq.
    cbn [fst snd] in Hans, Hinv. destruct b; [|now apply (Hrec (c_update d r c))].
    injection Hc as <- <-.
    assert (Hval : valid r (c_decided c ++ I)) by (unfold TwiseSem.valid; apply Z.ltb_lt; now symmetry).
    assert (HvI : valid r I).
    { apply (valid_mono C n HQ r _ I Hr) in Hval; [exact Hval|]. intros l Hl. apply in_app_iff. now right. }
    assert (HIVr : forall l, In l I -> In (Z.abs l) (V r)) by (intros l Hl; apply HW; now apply HIW).
    destruct (valid_lits C n HQ r I Hr HIVr HvI) as [_ Hcons].
    pose proof (ok_wf _ _ _ Hok) as Hwf. pose proof (ok_wf _ _ _ Hok1) as Hwf1.
    destruct (extend_spec n (c_update d r c) I Hwf1 HIr Hcons) as [HW2 [Hd2 [Hs2 _]]].
    { rewrite Hdec1. exact (conflicts_false n c I Hwf HIr Ecf). }
    set (c2 := c_set_state (c_extend (c_update d r c) I) m').
    assert (Hdec2 : forall x, In x (c_decided c2) <-> In x I \/ In x (c_decided c)).
    { intros x. unfold c2. rewrite set_state_dec, Hd2, Hdec1. tauto. }
    assert (Hok2 : CfgOK r W c2).
    { constructor.
      - now apply set_state_wf.
      - intros l Hl. apply Hdec2 in Hl. destruct Hl as [Hl|Hl]; [now apply HIW|now apply (ok_vars _ _ _ Hok)].
      - apply (valid_mono C n HQ r (c_decided c ++ I)); [exact Hr| |exact Hval].
        intros l Hl. apply Hdec2 in Hl. apply in_app_iff. tauto.
      - unfold StOK, c2. cbn [c_st c_set_state]. destruct (Hinv eq_refl) as [P0 [HI0 [H01 H02]]].
        exists P0. split; [exact HI0|]. split.
        + intros l Hl. apply H01 in Hl. apply in_app_iff in Hl. apply Hdec2. tauto.
        + intros _ l Hl. apply H02. apply Hdec2 in Hl. apply in_app_iff. tauto. }
    split; [now constructor|]. split; [reflexivity|]. split; [|split].
    + intros J [c1 [[<-|Hin] HJ]].
      * exists c2. split; [now left|]. intros l Hl. apply Hdec2. right. now apply HJ.
      * exists c1. split; [now right|exact HJ].
    + intros c' [<-|Hin].
      * exists c. split; [now left|]. rewrite (wfc_ndec _ _ Hwf), (wfc_ndec _ _ (ok_wf _ _ _ Hok2)).
        apply NoDup_incl_length; [now apply dec_nodup with (n := n)|]. intros l Hl. apply Hdec2. now right.
      * exists c'. split; [now right|lia].
    + split; [lia|]. exists c2. rewrite Nat.sub_diag. split; [reflexivity|]. intros l Hl. apply Hdec2. now left.
Qed.

(* ---------- samples ---------- *)
Record SampOK (r : nat) (W : list Z) (S : sample) : Prop := {
  so_nodup : NoDup (s_vars S);
  so_vars : forall v, In v (s_vars S) <-> In v W;
  so_cfgs : Forall (CfgOK r W) (s_iter S);
  so_comp : forall c, In c (s_comp S) -> c_ndec c = length (s_vars S);
}.

Definition Covers (S : sample) (I : cfg) : Prop := CovL (s_iter S) I.

Definition CovAll (r : nat) (W : list Z) (tt : nat) (S : sample) : Prop :=
  forall I, NoDup (map Z.abs I) -> (forall l, In l I -> In (Z.abs l) W) -> length I = tt ->
            valid r I -> Covers S I.

Lemma s_covers_spec r W S I : SampOK r W S -> (forall l, In l I -> l <> 0 /\ inr n l) ->
  (s_covers S I = true <-> Covers S I).
Proof.
  intros HS HI. unfold s_covers, Covers, CovL. rewrite existsb_exists.
  pose proof (so_cfgs _ _ _ HS) as Hall. rewrite Forall_forall in Hall.
  split; intros [c [Hc H]]; exists c; (split; [exact Hc|]);
    apply (covers_spec n c I (ok_wf _ _ _ (Hall c Hc)) HI); exact H.
Qed.

Lemma Covers_mono S I J : incl I J -> Covers S J -> Covers S I.
Proof. intros Hinc [c [Hc HJ]]. exists c. split; [exact Hc|]. intros l Hl. apply HJ. now apply Hinc. Qed.

(* a complete configuration decides every variable of the sample *)
Lemma comp_full r W S c : SampOK r W S -> In c (s_comp S) ->
  forall v, In v W -> In v (map Z.abs (c_decided c)).
Proof.
  intros HS Hc v Hv. pose proof (so_cfgs _ _ _ HS) as Hall. rewrite Forall_forall in Hall.
  assert (Hok : CfgOK r W c) by (apply Hall; unfold s_iter; apply in_app_iff; now left).
  pose proof (so_comp _ _ _ HS c Hc) as Hnd. rewrite (wfc_ndec _ _ (ok_wf _ _ _ Hok)) in Hnd.
  apply (so_vars _ _ _ HS) in Hv.
  apply (NoDup_length_incl (l := map Z.abs (c_decided c)) (l' := s_vars S)).
  - apply dec_nodup_abs with (n := n). apply Hok.
  - rewrite map_length. lia.
  - intros x Hx. apply in_map_iff in Hx. destruct Hx as [l [<- Hl]]. apply (so_vars _ _ _ HS).
    now apply (ok_vars _ _ _ Hok).
  - exact Hv.
Qed.

(* moving the configurations around *)
Lemma SampOK_of r W (S : sample) vars comp part lits :
  NoDup vars -> (forall v, In v vars <-> In v W) ->
  Forall (CfgOK r W) (comp ++ part) -> (forall c, In c comp -> c_ndec c = length vars) ->
  SampOK r W (mkS comp part vars lits).
Proof. intros H1 H2 H3 H4. constructor; assumption. Qed.

Lemma s_add_iter S c x : In x (s_iter (s_add S c)) <-> x = c \/ In x (s_iter S).
Proof.
  unfold s_add, s_iter. destruct (s_is_complete S c); cbn [s_add_complete s_add_partial s_comp s_part];
    rewrite !in_app_iff; cbn [In]; intuition.
Qed.

Lemma s_add_vars S c : s_vars (s_add S c) = s_vars S.
Proof. unfold s_add. destruct (s_is_complete S c); reflexivity. Qed.

Lemma s_add_ok r W S c : SampOK r W S -> CfgOK r W c -> SampOK r W (s_add S c).
Proof.
  intros [H1 H2 H3 H4] Hc. constructor.
  - now rewrite s_add_vars.
  - now rewrite s_add_vars.
  - apply Forall_forall. intros x Hx. apply s_add_iter in Hx. destruct Hx as [->|Hx]; [exact Hc|].
    rewrite Forall_forall in H3. now apply H3.
  - rewrite s_add_vars. intros c0 Hc0. unfold s_add, s_is_complete in Hc0.
    destruct (Nat.eqb_spec (c_ndec c) (length (s_vars S))) as [E|E];
      cbn [s_add_complete s_add_partial s_comp] in Hc0; [|now apply H4].
    apply in_app_iff in Hc0. destruct Hc0 as [Hc0|[<-|[]]]; [now apply H4|exact E].
Qed.

(* after_cover keeps every configuration of comp ++ P' *)
Lemma after_cover_spec r W S P' idx c' : NoDup (s_vars S) -> (forall v, In v (s_vars S) <-> In v W) ->
  Forall (CfgOK r W) (s_comp S ++ P') -> (forall c, In c (s_comp S) -> c_ndec c = length (s_vars S)) ->
  nth_error P' idx = Some c' ->
  let S' := after_cover S P' idx in
  SampOK r W S' /\ s_vars S' = s_vars S /\ (forall x, In x (s_comp S ++ P') -> In x (s_iter S')).
Proof.
  intros H1 H2 H3 H4 Hn. unfold after_cover. rewrite Hn.
  unfold s_is_complete. destruct (Nat.eqb_spec (c_ndec c') (length (s_vars S))) as [E|E]; cbv zeta.
  - split; [|split; [reflexivity|]].
    + apply SampOK_of; try assumption.
      * apply Forall_app in H3. destruct H3 as [Ha Hb]. rewrite Forall_forall in Ha, Hb.
        apply Forall_forall. intros x Hx. rewrite !in_app_iff in Hx. destruct Hx as [[Hx|[<-|[]]]|Hx].
        -- now apply Ha.
        -- apply Hb. now apply nth_error_In with (n := idx).
        -- apply Hb. now apply swap_remove_In in Hx.
      * intros c Hc. apply in_app_iff in Hc. destruct Hc as [Hc|[<-|[]]]; [now apply H4|exact E].
    + intros x Hx. unfold s_iter. cbn [s_comp s_part]. rewrite !in_app_iff. apply in_app_iff in Hx.
      destruct Hx as [Hx|Hx]; [left; now left|].
      destruct (swap_remove_keeps idx P' c' x Hn Hx) as [->|Hk]; [left; right; now left|now right].
  - split; [|split; [reflexivity|]].
    + apply SampOK_of; assumption.
    + intros x Hx. exact Hx.
Qed.

Section Steps.
Variables (r : nat) (W : list Z).
Hypothesis Hr : (r < length C)%nat.
Hypothesis HRr : Reach C r.
Hypothesis HW : incl W (V r).

Lemma new_config_ok I m : LitsC I -> (forall l, In l I -> In (Z.abs l) W) -> valid r I ->
  Inv C I m -> CfgOK r W (c_set_state (c_from n I) m) /\
  (forall x, In x (c_decided (c_set_state (c_from n I) m)) <-> In x I).
Proof.
  intros HI HIW Hv HInv.
  assert (HIVr : forall l, In l I -> In (Z.abs l) (V r)) by (intros l Hl; apply HW; now apply HIW).
  destruct (valid_lits C n HQ r I Hr HIVr Hv) as [_ Hcons].
  destruct (from_spec n I (LitsC_range I HI) Hcons) as [Hwf [Hdec _]].
  split; [|intros x; now rewrite set_state_dec].
  constructor.
  - now apply set_state_wf.
  - intros l Hl. rewrite set_state_dec in Hl. apply Hdec in Hl. now apply HIW.
  - rewrite set_state_dec. apply (valid_mono C n HQ r I); [exact Hr| |exact Hv]. intros l Hl. now apply Hdec.
  - unfold StOK. cbn [c_st c_set_state]. exists I. split; [exact HInv|]. rewrite set_state_dec.
    split; [intros l Hl; now apply Hdec|intros _ l Hl; now apply Hdec].
Qed.

(* cover_with_caching_twise: the interaction is valid by construction (and-merge) *)
Lemma cover_twise_step S I : SampOK r W S -> LitsC I -> (forall l, In l I -> In (Z.abs l) W) ->
  valid r I ->
  let S' := cover_twise d r n S I in
  SampOK r W S' /\ s_vars S' = s_vars S /\ Covers S' I /\ (forall J, Covers S J -> Covers S' J).
Proof.
  intros HS HI HIW Hv. unfold cover_twise.
  destruct (s_covers S I) eqn:Ecov.
  - cbv zeta. split; [exact HS|]. split; [reflexivity|]. split; [|auto].
    apply (s_covers_spec r W S I HS (LitsC_range I HI)). exact Ecov.
  - destruct HS as [H1 H2 H3 H4]. pose proof H3 as H3'. unfold s_iter in H3'. apply Forall_app in H3'.
    destruct H3' as [Hcomp Hpart].
    destruct (cover d r (s_part S) I 0) as [P' res] eqn:Ec.
    destruct (cover_spec r W I Hr HRr HW HI HIW (s_part S) 0%nat P' res Hpart Ec) as [G1 [G2 [G3 [_ G5]]]].
    assert (Hall : Forall (CfgOK r W) (s_comp S ++ P')) by (apply Forall_app; now split).
    assert (Hmono : forall (S' : sample), (forall x, In x (s_comp S ++ P') -> In x (s_iter S')) ->
                    forall J, Covers S J -> Covers S' J).
    { intros S' Hsub J [c [Hc HJ]]. unfold s_iter in Hc. apply in_app_iff in Hc. destruct Hc as [Hc|Hc].
      - exists c. split; [|exact HJ]. apply Hsub. apply in_app_iff. now left.
      - destruct (G3 J (ex_intro _ c (conj Hc HJ))) as [c2 [Hc2 HJ2]]. exists c2. split; [|exact HJ2].
        apply Hsub. apply in_app_iff. now right. }
    destruct res as [idx|]; cbv zeta.
    + destruct G5 as [_ [c' [Hn Hc']]]. rewrite Nat.sub_0_r in Hn.
      destruct (after_cover_spec r W S P' idx c' H1 H2 Hall H4 Hn) as [K1 [K2 K3]].
      split; [exact K1|]. split; [exact K2|]. split; [|now apply Hmono].
      exists c'. split; [|exact Hc']. apply K3. apply in_app_iff. right. now apply nth_error_In with (n := idx).
    + pose proof (valid_live C n HQ r I Hr Hv) as Hpos.
      destruct (sat_call r [] I (new_state d) Hr Hpos new_state_inv HI) as [Hans Hinv]. cbn [app] in *.
      rewrite (valid_true r I Hv) in Hans.
      destruct (new_config_ok I (fst (sat_propagate d I (new_state d) (Some r))) HI HIW Hv (Hinv Hans)) as [Hok Hdec].
      set (cn := c_set_state (c_from n I) (fst (sat_propagate d I (new_state d) (Some r)))) in *.
      set (S0 := mkS (s_comp S) P' (s_vars S) (s_lits S)).
      assert (HS0 : SampOK r W S0) by (apply SampOK_of; assumption).
      split; [now apply s_add_ok|]. split; [now rewrite s_add_vars|]. split.
      * exists cn. split; [apply s_add_iter; now left|]. intros l Hl. now apply Hdec.
      * apply Hmono. intros x Hx. apply s_add_iter. now right.
Qed.

(* cover_with_caching: the interaction is tested first *)
Lemma cover_caching_step S I : SampOK r W S -> LitsC I -> (forall l, In l I -> In (Z.abs l) W) ->
  0 < cnt C r ->
  let S' := cover_caching d r n S I in
  SampOK r W S' /\ s_vars S' = s_vars S /\ (valid r I -> Covers S' I) /\ (forall J, Covers S J -> Covers S' J).
Proof.
  intros HS HI HIW Hpos. unfold cover_caching.
  destruct (s_covers S I) eqn:Ecov.
  - cbv zeta. split; [exact HS|]. split; [reflexivity|]. split; [|auto].
    intros _. apply (s_covers_spec r W S I HS (LitsC_range I HI)). exact Ecov.
  - destruct (sat_call r [] I (new_state d) Hr Hpos new_state_inv HI) as [Hans Hinv]. cbn [app] in *.
    destruct (sat_propagate d I (new_state d) (Some r)) as [m b] eqn:Eq. cbn [fst snd] in *.
    destruct b; cbn [negb].
    + assert (Hv : valid r I) by (unfold TwiseSem.valid; apply Z.ltb_lt; now symmetry).
      destruct HS as [H1 H2 H3 H4]. pose proof H3 as H3'. unfold s_iter in H3'. apply Forall_app in H3'.
      destruct H3' as [Hcomp Hpart].
      destruct (cover d r (s_part S) I 0) as [P' res] eqn:Ec.
      destruct (cover_spec r W I Hr HRr HW HI HIW (s_part S) 0%nat P' res Hpart Ec) as [G1 [G2 [G3 [_ G5]]]].
      assert (Hall : Forall (CfgOK r W) (s_comp S ++ P')) by (apply Forall_app; now split).
      assert (Hmono : forall (S' : sample), (forall x, In x (s_comp S ++ P') -> In x (s_iter S')) ->
                      forall J, Covers S J -> Covers S' J).
      { intros S' Hsub J [c [Hc HJ]]. unfold s_iter in Hc. apply in_app_iff in Hc. destruct Hc as [Hc|Hc].
        - exists c. split; [|exact HJ]. apply Hsub. apply in_app_iff. now left.
        - destruct (G3 J (ex_intro _ c (conj Hc HJ))) as [c2 [Hc2 HJ2]]. exists c2. split; [|exact HJ2].
          apply Hsub. apply in_app_iff. now right. }
      destruct res as [idx|]; cbv zeta.
      * destruct G5 as [_ [c' [Hn Hc']]]. rewrite Nat.sub_0_r in Hn.
        destruct (after_cover_spec r W S P' idx c' H1 H2 Hall H4 Hn) as [K1 [K2 K3]].
        split; [exact K1|]. split; [exact K2|]. split; [|now apply Hmono].
        intros _. exists c'. split; [|exact Hc']. apply K3. apply in_app_iff. right. now apply nth_error_In with (n := idx).
      * destruct (new_config_ok I m HI HIW Hv (Hinv eq_refl)) as [Hok Hdec].
        set (cn := c_set_state (c_from n I) m) in *.
        set (S0 := mkS (s_comp S) P' (s_vars S) (s_lits S)).
        assert (HS0 : SampOK r W S0) by (apply SampOK_of; assumption).
        split; [now apply s_add_ok|]. split; [now rewrite s_add_vars|]. split.
        -- intros _. exists cn. split; [apply s_add_iter; now left|]. intros l Hl. now apply Hdec.
        -- apply Hmono. intros x Hx. apply s_add_iter. now right.
    + cbv zeta. split; [exact HS|]. split; [reflexivity|]. split; [|auto].
      intros Hv. unfold TwiseSem.valid in Hv. apply Z.ltb_lt in Hv. congruence.
Qed.

End Steps.
End Inv.
