(* C09 pipeline: why the shuffle in Candidate::is_t_wise_covered_by is not an oracle of the model.
   The Rust shuffles the candidate's literals with the thread RNG and then tests
     TInteractionIter::new(&literals, min(t, len)).all(|interaction| sample.covers(interaction)).
   The outputs for a permuted duplicate-free list are permutations of the outputs for the original
   list, and Sample::covers does not depend on the order of an interaction's literals, so the
   conjunction is the same for every shuffle. *)
From Coq Require Import List ZArith Bool Arith Lia Permutation Sorted.
From DD Require Import Model.Circuit Model.Query Model.TIter Model.TwiseCfg Model.TwiseMerge
  Proofs.Semantics Proofs.TIterProof Proofs.TwiseBase.
Import ListNotations.

Lemma incr_from_lower : forall l lo x, incr_from lo l -> In x l -> lo <= x.
Proof.
  induction l as [|a l IH]; intros lo x H Hx; [destruct Hx|]. cbn in H. destruct H as [H1 H2].
  destruct Hx as [<-|Hx]; [exact H1|]. specialize (IH (S a) x H2 Hx). lia.
Qed.

Lemma incr_from_nodup : forall l lo, incr_from lo l -> NoDup l.
Proof.
  induction l as [|a l IH]; intros lo H; [constructor|]. cbn in H. destruct H as [H1 H2].
  constructor; [|now apply (IH (S a))]. intros Hin. pose proof (incr_from_lower l (S a) a H2 Hin). lia.
Qed.

Lemma tints_nodup lits t o : NoDup lits -> In o (tints lits t) -> NoDup o.
Proof.
  intros Hnd H. unfold tints in H. apply in_map_iff in H. destruct H as [x [<- Hx]].
  apply dec_tuples_in in Hx. destruct Hx as [_ [Hinc Hlt]].
  assert (Hx : NoDup x).
  { apply incr_from_nodup in Hinc. eapply Permutation_NoDup; [apply Permutation_sym, Permutation_rev|exact Hinc]. }
  apply NoDup_map_on; [exact Hx|]. intros i j Hi Hj E. rewrite Forall_forall in Hlt.
  apply (proj1 (NoDup_nth lits 0%Z) Hnd i j (Hlt i Hi) (Hlt j Hj) E).
Qed.

Lemma forallb_perm {A} (g : A -> bool) l l' : Permutation l l' -> forallb g l = forallb g l'.
Proof.
  induction 1 as [|x l l' H IH|x y l|l l' l'' H1 IH1 H2 IH2]; cbn; try congruence.
  destruct (g x), (g y); reflexivity.
Qed.

Lemma c_covers_perm c o o' : Permutation o o' -> c_covers c o = c_covers c o'.
Proof. apply forallb_perm. Qed.

Lemma s_covers_perm S o o' : Permutation o o' -> s_covers S o = s_covers S o'.
Proof.
  intros H. unfold s_covers. induction (s_iter S) as [|c l IH]; [reflexivity|]. cbn [existsb].
  now rewrite IH, (c_covers_perm c o o' H).
Qed.

Lemma forallb_tints_perm (f : cfg -> bool) lits lits' k :
  (forall o o', Permutation o o' -> f o = f o') -> NoDup lits -> Permutation lits lits' ->
  forallb f (tints lits k) = true -> forallb f (tints lits' k) = true.
Proof.
  intros Hf Hnd Hperm H. rewrite forallb_forall in *. intros o' Ho'.
  assert (Hnd' : NoDup lits') by (eapply Permutation_NoDup; eassumption).
  pose proof (tints_nodup lits' k o' Hnd' Ho') as Hndo. destruct (tints_in lits' k o' Ho') as [Hlen Hinc].
  destruct (tints_covers lits k o' Hndo) as [o [Ho Hp]].
  - intros x Hx. apply (Permutation_in x (Permutation_sym Hperm)). now apply Hinc.
  - exact Hlen.
  - rewrite <- (Hf o o' Hp). now apply H.
Qed.

(* the test made on a shuffled literal list equals the test the model makes *)
Theorem sim_covered_perm (S : sample) (lits lits' : list Z) (k : nat) :
  NoDup lits -> Permutation lits lits' ->
  forallb (s_covers S) (tints lits' k) = forallb (s_covers S) (tints lits k).
Proof.
  intros Hnd Hperm.
  assert (Hnd' : NoDup lits') by (eapply Permutation_NoDup; eassumption).
  destruct (forallb (s_covers S) (tints lits k)) eqn:E1, (forallb (s_covers S) (tints lits' k)) eqn:E2; try reflexivity.
  - rewrite (forallb_tints_perm (s_covers S) lits lits' k (s_covers_perm S) Hnd Hperm E1) in E2. discriminate.
  - rewrite (forallb_tints_perm (s_covers S) lits' lits k (s_covers_perm S) Hnd' (Permutation_sym Hperm) E2) in E1. discriminate.
Qed.
