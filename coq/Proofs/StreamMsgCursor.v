(* C13 / C16 after the repair F21 (finding K2): the enumeration cursor belongs to the loaded model
   and is emptied whenever clause-update / undo-update replace the model.

   [cursor_ok C n c]: every position the cursor map [c] holds lies inside the cycle of its key
   (0 <= position < count(A)) and fits a usize.  It is an INVARIANT of the stream state machine:
   it holds for the empty cursor of a freshly loaded model, every line preserves it -- an `enum`
   line writes `stop mod count(A)`, an accepted clause-update / undo-update empties the map and
   every other line leaves it alone -- and it implies [enum_safe], the hypothesis of
   C13_no_panic.  Hence no line of a session panics, `enum` lines included.

   What remains of [enum_safe] is its second half, "the root's count is not hidden": the root is
   not a true node.  For a well-formed circuit that is 0 < n (C06Page.root_not_true); a model
   without features (the lone true node) still divides by zero in `stop % rt` -- outside the input
   space of the properties, and the reason for the conjunct (0 < n) in [stream_inv].

   The plugged operations: [ext_total] (no panic), [ext_keeps] (a refused update changes nothing)
   as before, and [ext_wf]: an ACCEPTED update / undo hands back a well-formed model with a Clean
   scratch state (C12's business: the recompiled d-DNNF is a d-DNNF). *)
From Coq Require Import List ZArith Bool String Ascii Lia.
From DD Require Import Proofs.Live.
From DD Require Import Model.Circuit Model.Query Model.Enumerate Model.StreamMsg
  Proofs.Semantics Proofs.CountsA Proofs.QueryDefs Proofs.C06Node Proofs.C06Sort Proofs.C06Page
  Proofs.C06Final Proofs.StreamMsgDefs Proofs.StreamMsgParse Proofs.StreamMsgExec Proofs.StreamMsgMain.
Import ListNotations.
Open Scope Z_scope.

(* ---------------- the invariant on the cursor map ---------------- *)
Definition cursor_ok (C : circuit) (n : nat) (c : cursor) : Prop :=
  forall A, in_range n A -> 0 < MCA C n A ->
    0 <= cur_get c (enum_key A) < MCA C n A /\ cur_get c (enum_key A) <= u64_max.

Lemma cursor_ok_nil C n : cursor_ok C n [].
Proof. intros A _ Hc. cbn [cur_get]. unfold u64_max. lia. Qed.

Lemma same_key_same_count C n A A' : enum_key A' = enum_key A -> MCA C n A' = MCA C n A.
Proof.
  intros E. apply MCA_same_set. intros l.
  rewrite <- (enum_key_In A' l), <- (enum_key_In A l), E. reflexivity.
Qed.

(* the root's temp after preprocess + execute_query is the count under A *)
Lemma rt_is_count C n A s s1 s2 r :
  WFQ C n -> (0 < n)%nat -> in_range n A -> Clean C s ->
  preprocess (build C n) A s = Some s1 -> execute_query (build C n) (enum_key A) s1 = (s2, r) ->
  r = MCA C n A /\ (0 < r -> rt (build C n) s2 = MCA C n A).
Proof.
  intros HQ Hn HA Hcl Hp Hq.
  destruct (exec_spec_holds C n A HQ HA s s1 s2 r Hcl Hp Hq) as (Hr & Hts & _).
  split; [exact Hr|]. intros Hpos. specialize (Hts Hpos).
  pose proof (wfq_wf C n HQ) as HWF.
  unfold rt, rootn. cbn [circ build]. fold (root C).
  rewrite Hts; [|apply root_lt; apply HWF|now apply (root_not_true C n)|apply reach_root].
  rewrite (countsA_MCA C n);
    [|exact HWF|eapply in_range_same_set; [apply same_set_sym, enum_key_In|exact HA]].
  apply MCA_same_set. apply enum_key_In.
Qed.

(* the invariant gives the hypothesis of C13_no_panic *)
Lemma cursor_ok_enum_safe C n c s A :
  WFQ C n -> (0 < n)%nat -> Clean C s -> cursor_ok C n c -> in_range n A ->
  enum_safe (build C n) c s A.
Proof.
  intros HQ Hn Hcl Hok HA s1 s2 r Hp Hq Hr.
  destruct (rt_is_count C n A s s1 s2 r HQ Hn HA Hcl Hp Hq) as [Hrc Hrt].
  specialize (Hrt Hr). rewrite Hrt. subst r.
  destruct (Hok A HA Hr) as [H1 H2]. lia.
Qed.

(* one enumerate call keeps the invariant, whatever it answers *)
Lemma enumerate_cursor_ok C n A am c s :
  WFQ C n -> (0 < n)%nat -> Clean C s -> cursor_ok C n c -> in_range n A ->
  0 <= am -> cur_get c (enum_key A) + am <= u64_max ->
  cursor_ok C n (snd (fst (enumerate (build C n) A am c s))).
Proof.
  intros HQ Hn Hcl Hok HA Ham Hfit.
  destruct (Z.eq_dec am 0) as [->|Hnz]; [rewrite enumerate_zero; exact Hok|].
  destruct (enumerate_unfold C n (wfq_wf C n HQ) Hn A am c s HA (exec_spec_holds C n A HQ HA) Hcl Hnz)
    as (s2 & _ & He & _).
  rewrite He. clear He.
  destruct (0 <? MCA C n A) eqn:Ec; cbn [fst snd]; [|exact Hok].
  apply Z.ltb_lt in Ec.
  destruct (Hok A HA Ec) as [Hp Hpu].
  set (cA := MCA C n A) in *. set (p := cur_get c (enum_key A)) in *.
  set (stop := Z.min cA (p + am)).
  assert (Hmod : 0 <= stop mod cA < cA) by (apply Z.mod_pos_bound; lia).
  assert (Hle : stop mod cA <= stop) by (apply Z.mod_le; unfold stop; lia).
  intros A' HA' Hc'.
  destruct (cfg_eqb (enum_key A') (enum_key A)) eqn:Ek.
  - apply cfg_eqb_eq in Ek. rewrite Ek, cur_get_set_same.
    rewrite (same_key_same_count C n A A' Ek). fold cA. unfold stop in *. lia.
  - assert (Hne : enum_key A' <> enum_key A).
    { intros E. rewrite E, cfg_eqb_refl in Ek. discriminate. }
    rewrite (cur_get_set_other _ _ _ _ Hne). exact (Hok A' HA' Hc').
Qed.

(* enumerate_chk (the usize arithmetic around enumerate) under the invariant: no partial operation
   fails, and the cursor it leaves satisfies the invariant again *)
Lemma enumerate_chk_v1_cursor (dbg : bool) C n (A : cfg) (amount : Z) (c : cursor) (s : scratch) :
  WFQ C n -> (0 < n)%nat -> Clean C s -> cursor_ok C n c -> in_range n A ->
  0 <= amount <= u64_max ->
  exists am, enumerate_chk V1 dbg (build C n) A amount c s = EOk (enumerate (build C n) A am c s) /\
             cursor_ok C n (snd (fst (enumerate (build C n) A am c s))).
Proof.
  intros HQ Hn Hcl Hok HA Ham. unfold enumerate_chk.
  destruct (amount =? 0) eqn:E0.
  { exists amount. split; [reflexivity|]. apply Z.eqb_eq in E0. subst amount.
    rewrite enumerate_zero. exact Hok. }
  apply Z.eqb_neq in E0.
  destruct (preprocess_Some C n A s HA) as [s1 Hp]. rewrite Hp.
  destruct (execute_query (build C n) (enum_key A) s1) as [s2 r] eqn:Hq.
  destruct (rt_is_count C n A s s1 s2 r HQ Hn HA Hcl Hp Hq) as [Hr Hrt].
  destruct (0 <? r) eqn:Er.
  - apply Z.ltb_lt in Er. specialize (Hrt Er). rewrite Hrt.
    assert (Hc : 0 < MCA C n A) by (rewrite <- Hr; exact Er).
    destruct (Hok A HA Hc) as [Hp1 Hp2].
    cbn [add_usize].
    set (last := cur_get c (enum_key A)) in *. set (rtv := MCA C n A) in *.
    set (sum := Z.min (last + amount) u64_max). set (stop := Z.min rtv sum).
    assert (Hu : 0 < u64_max) by (unfold u64_max; lia).
    assert (Hsum : last <= sum <= u64_max) by (unfold sum; lia).
    assert (Hstop : last <= stop <= u64_max) by (unfold stop; lia).
    assert (Hmod : 0 <= stop mod rtv < rtv) by (apply Z.mod_pos_bound; lia).
    assert (Hmod2 : stop mod rtv <= stop) by (apply Z.mod_le; lia).
    replace (rtv =? 0) with false by (symmetry; apply Z.eqb_neq; lia).
    replace ((stop mod rtv <? 0) || (u64_max <? stop mod rtv)) with false
      by (symmetry; apply orb_false_iff; split; apply Z.ltb_ge; lia).
    replace ((last <? 0) || (u64_max <? last) || (stop <? 0) || (u64_max <? stop)) with false
      by (symmetry; repeat (apply orb_false_iff; split); apply Z.ltb_ge; lia).
    replace (stop <? last) with false by (symmetry; apply Z.ltb_ge; lia).
    cbn [andb]. exists (sum - last). split; [reflexivity|].
    apply enumerate_cursor_ok; auto; fold last; lia.
  - apply Z.ltb_ge in Er. exists amount. split; [reflexivity|].
    destruct (enumerate_unfold C n (wfq_wf C n HQ) Hn A amount c s HA (exec_spec_holds C n A HQ HA) Hcl E0)
      as (s2' & _ & He & _).
    rewrite He. replace (0 <? MCA C n A) with false by (symmetry; apply Z.ltb_ge; lia).
    exact Hok.
Qed.

(* ---------------- the invariant of the stream state machine ---------------- *)
(* an accepted update / undo hands back a well-formed model (the compiler contract, C12) *)
Record ext_wf {CC : Type} (X : extops CC) : Prop := {
  xw_update : forall d cc ad rm t s d' s' cc',
      x_update X d cc ad rm t s = AOk (d', s', cc', true) ->
      exists C' n', d' = build C' n' /\ WFQ C' n' /\ Clean C' s' /\ Z.of_nat n' <= i32_max /\ (0 < n')%nat;
  xw_undo : forall d cc s d' s' cc',
      x_undo X d cc s = AOk (d', s', cc', true) ->
      exists C' n', d' = build C' n' /\ WFQ C' n' /\ Clean C' s' /\ Z.of_nat n' <= i32_max /\ (0 < n')%nat;
}.

Definition stream_inv {CC : Type} (st : sstate CC) : Prop :=
  exists C n, wf_sstate C n st /\ (0 < n)%nat /\ cursor_ok C n (cur st).

Section Inv.
Context {CC : Type} (X : extops CC).
Local Open Scope string_scope.
Local Open Scope Z_scope.

(* a freshly loaded model *)
Theorem stream_inv_init C n (st : sstate CC) :
  wf_sstate C n st -> (0 < n)%nat -> cur st = [] -> stream_inv st.
Proof. intros Hwf Hn Hc. exists C, n. rewrite Hc. auto using cursor_ok_nil. Qed.

(* the invariant implies the hypothesis of C13_no_panic for every request the line can parse to *)
Theorem stream_inv_enum_safe dbg (st : sstate CC) line :
  stream_inv st -> ext_total X ->
  forall rq, parse_request X V1 dbg st line = ROk rq -> r_cmd rq = "enum" ->
    enum_safe (dd st) (cur st) (sc st) (p_params (r_args rq)).
Proof.
  intros (C & n & Hwf & Hn & Hok) HX rq E Hc.
  destruct (parsed_in_range X C n dbg st line rq Hwf HX E) as [Ha _]; [rewrite Hc; discriminate|].
  destruct Hwf as [Hdd HQ Hcl Hni]. rewrite Hdd.
  now apply (cursor_ok_enum_safe C n).
Qed.

Ltac run_cmd := cbv beta iota zeta delta [exec String.eqb Ascii.eqb Bool.eqb r_cmd r_total r_args mkrq orb].

Lemma mutating_cases cmd : mutating cmd = true ->
  cmd = "enum" \/ cmd = "clause-update" \/ cmd = "undo-update".
Proof.
  unfold mutating. intros H. apply orb_true_iff in H. destruct H as [H|H].
  - apply orb_true_iff in H. destruct H as [H|H]; apply String.eqb_eq in H; auto.
  - apply String.eqb_eq in H. auto.
Qed.

Lemma inv_same C n (st st' : sstate CC) :
  wf_sstate C n st -> (0 < n)%nat -> cursor_ok C n (cur st) -> same_model C st st' -> stream_inv st'.
Proof.
  intros [Hdd HQ Hcl Hni] Hn Hok (H1 & H2 & _ & H4). exists C, n.
  split; [constructor; auto; congruence|]. split; [exact Hn|]. now rewrite H2.
Qed.

(* every line preserves the invariant *)
Theorem stream_inv_step dbg (st : sstate CC) line chs :
  stream_inv st -> ext_total X -> (forall C, ext_keeps X C) -> ext_wf X ->
  stream_inv (fst (handle_stream_msg X V1 dbg st line chs)).
Proof.
  intros Hinv HX HK HW. pose proof Hinv as (C & n & Hwf & Hn & Hok).
  rewrite handle_factor.
  pose proof (parse_request_spec X C n dbg st line Hwf HX) as H.
  destruct (parse_request X V1 dbg st line) as [rq|c t|p] eqn:E; [|exact Hinv|destruct H].
  destruct H as [Hp [_ Ht]].
  destruct (mutating (r_cmd rq)) eqn:Em.
  2:{ pose proof (exec_state X C n dbg rq chs st Hwf (HK C) Hp Ht) as Hs.
      destruct (exec X V1 dbg rq chs st) as [[st' o] fits]. cbn [fst].
      destruct Hs as [H1 _]. exact (inv_same C n st st' Hwf Hn Hok (H1 Em)). }
  destruct rq as [cmd tf p]. cbn [r_cmd r_total r_args] in *.
  pose proof Hwf as [Hdd HQ Hcl Hni].
  destruct (mutating_cases cmd Em) as [->|[->| ->]].
  - (* enum *)
    assert (Ha : in_range n (p_params p)).
    { destruct Hp as [Hpa _ _ _ _ _]. rewrite Ht in Hpa by discriminate. now apply nums_ok_in_range. }
    fold (mkrq "enum" tf p). rewrite exec_enum. cbv zeta.
    assert (Hrc : 0 <= rc (dd st)) by (rewrite Hdd; apply rc_nonneg, HQ).
    destruct (match p_limit p with
              | Some l => Some l
              | None => if 1000 <? rc (dd st) then Some 1000
                        else if (rc (dd st) <? 0) || (u64_max <? rc (dd st)) then None else Some (rc (dd st))
              end) as [l|] eqn:El; [|exact Hinv].
    assert (Hl : 0 <= l <= u64_max).
    { destruct (p_limit p) as [l0|] eqn:El0.
      - injection El as <-. destruct Hp as [_ _ _ Hpl _ _]. now apply Hpl.
      - destruct (1000 <? rc (dd st)) eqn:E1; [injection El as <-; unfold u64_max; lia|].
        apply Z.ltb_ge in E1.
        destruct ((rc (dd st) <? 0) || (u64_max <? rc (dd st))); [discriminate|].
        injection El as <-. unfold u64_max. lia. }
    rewrite Hdd.
    destruct (enumerate_chk_v1_cursor dbg C n (p_params p) l (cur st) (sc st) HQ Hn Hcl Hok Ha Hl)
      as [am [-> Hok']].
    pose proof (enumerate_state C n HQ (p_params p) am (cur st) (sc st) Ha Hcl) as Hst.
    destruct (enumerate (build C n) (p_params p) am (cur st) (sc st)) as [[s' c'] r].
    destruct Hst as [Hs' _]. cbn [fst snd] in Hok'.
    destruct r as [cfgs|]; cbn [fst];
      (exists C, n; split; [constructor; auto|]; split; [exact Hn|exact Hok']).
  - (* clause-update *)
    run_cmd. destruct (cache st) as [cc|] eqn:Ec; [|exact Hinv].
    destruct (x_update X _ _ _ _ _ _) as [[[[d' s'] cc'] [|]]|site] eqn:Eu; cbn [fst]; [| |exact Hinv].
    + destruct (xw_update X HW _ _ _ _ _ _ _ _ _ Eu) as (C' & n' & -> & HQ' & Hcl' & Hni' & Hn').
      exists C', n'. split; [constructor; auto|]. split; [exact Hn'|]. cbn [cur]. apply cursor_ok_nil.
    + destruct (xk_update X C (HK C) _ _ _ _ _ _ _ _ _ Hcl Eu) as [-> [-> Hs']].
      exists C, n. split; [constructor; auto|]. split; [exact Hn|exact Hok].
  - (* undo-update *)
    run_cmd. destruct (cache st) as [cc|] eqn:Ec; [|exact Hinv].
    destruct (x_undo X _ _ _) as [[[[d' s'] cc'] [|]]|site] eqn:Eu; cbn [fst]; [| |exact Hinv].
    + destruct (xw_undo X HW _ _ _ _ _ _ Eu) as (C' & n' & -> & HQ' & Hcl' & Hni' & Hn').
      exists C', n'. split; [constructor; auto|]. split; [exact Hn'|]. cbn [cur]. apply cursor_ok_nil.
    + destruct (xk_undo X C (HK C) _ _ _ _ _ _ Hcl Eu) as [-> [-> Hs']].
      exists C, n. split; [constructor; auto|]. split; [exact Hn|exact Hok].
Qed.

(* C13_no_panic without the hypothesis about the cursor *)
Theorem handle_no_panic_inv dbg (st : sstate CC) line chs :
  stream_inv st -> ext_total X ->
  forall site, snd (handle_stream_msg X V1 dbg st line chs) <> SPanic site.
Proof.
  intros Hinv HX. pose proof Hinv as (C & n & Hwf & _ & _).
  apply (handle_no_panic X C n dbg st line chs Hwf HX).
  intros rq E Hc. exact (stream_inv_enum_safe dbg st line Hinv HX rq E Hc).
Qed.

(* a whole session: the lines are answered one after another by one instance *)
Fixpoint session (dbg : bool) (st : sstate CC) (ls : list (string * list choice)) : list soutcome :=
  match ls with
  | [] => []
  | (line, chs) :: r =>
    let '(st', o) := handle_stream_msg X V1 dbg st line chs in o :: session dbg st' r
  end.

Theorem session_no_panic dbg ls : forall (st : sstate CC),
  stream_inv st -> ext_total X -> (forall C, ext_keeps X C) -> ext_wf X ->
  forall o, In o (session dbg st ls) -> forall site, o <> SPanic site.
Proof.
  induction ls as [|[line chs] r IH]; intros st Hinv HX HK HW o Hin site; [destruct Hin|].
  cbn [session] in Hin.
  pose proof (handle_no_panic_inv dbg st line chs Hinv HX site) as Hnp.
  pose proof (stream_inv_step dbg st line chs Hinv HX HK HW) as Hstep.
  destruct (handle_stream_msg X V1 dbg st line chs) as [st' o']. cbn [fst snd] in *.
  destruct Hin as [<-|Hin]; [exact Hnp|]. exact (IH st' Hstep HX HK HW o Hin site).
Qed.

End Inv.

(* the instance of the correspondence (nnf-loaded models): never accepts an update *)
Lemma ext_nnf_wf a t sv : ext_wf (ext_nnf a t sv).
Proof. constructor; cbn; intros; discriminate. Qed.

(* ---------------- witnesses ---------------- *)
(* A session in which an update is ACCEPTED and shrinks the model below the cursor: x1, x2 free
   (ex13, 4 configurations) -- `enum l 3` -- clause-update to x1 & x2 (1 configuration) -- `enum`
   -- undo -- `enum l 2`.  [X13u] plays the clause cache: every update answers with the
   one-configuration model, every undo with the old one. *)
Definition ex13s : circuit := [Lit 1; Lit 2; And [0;1]%nat].
Definition X13u : extops unit :=
  {| x_conflicting := fun _ _ => AOk false;
     x_atomic := fun _ _ _ _ s => AOk (s, EmptyString);
     x_twise := fun _ _ _ s => AOk (s, EmptyString);
     x_update := fun _ cc _ _ _ _ => AOk (build ex13s 2, fresh_scratch ex13s, cc, true);
     x_undo := fun _ cc _ => AOk (build ex13 2, fresh_scratch ex13, cc, true);
     x_save_ddnnf := fun _ _ => AOk None;
     x_save_cnf := fun _ _ _ => AOk None |}.
Definition st13c : sstate unit :=
  {| dd := build ex13 2; sc := fresh_scratch ex13; cur := []; cache := Some tt |}.

Lemma ex13_wfq : WFQ ex13 2. Proof. apply check_wf_WFQ; vm_compute; reflexivity. Qed.
Lemma ex13s_wfq : WFQ ex13s 2. Proof. apply check_wf_WFQ; vm_compute; reflexivity. Qed.

Lemma X13u_total : ext_total X13u.
Proof. constructor; intros; cbn; eauto. Qed.
Lemma X13u_keeps C : ext_keeps X13u C.
Proof.
  constructor; cbn.
  - intros d cr ca a0 s s' out Hs E. now injection E as <- _.
  - intros d t0 fs s s' out Hs E. now injection E as <- _.
  - intros; discriminate.
  - intros; discriminate.
Qed.
Lemma X13u_wf : ext_wf X13u.
Proof.
  constructor; cbn.
  - intros d cc ad rm t s d' s' cc' E. injection E as <- <- _. exists ex13s, 2%nat.
    split; [reflexivity|]. split; [exact ex13s_wfq|]. split; [apply fresh_clean|].
    split; [vm_compute; discriminate|lia].
  - intros d cc s d' s' cc' E. injection E as <- <- _. exists ex13, 2%nat.
    split; [reflexivity|]. split; [exact ex13_wfq|]. split; [apply fresh_clean|].
    split; [vm_compute; discriminate|lia].
Qed.
Lemma st13c_inv : stream_inv st13c.
Proof.
  apply (stream_inv_init ex13 2); [|lia|reflexivity].
  constructor; [reflexivity|exact ex13_wfq|apply fresh_clean|vm_compute; discriminate].
Qed.

Local Open Scope string_scope.
Definition shrink_session : list (string * list choice) :=
  [("enum l 3", []); ("clause-update add 1 0 2", []); ("enum", []); ("enum", []);
   ("undo-update", []); ("enum l 2", []); ("enum l 3", [])].

(* evaluated: after the update the cursor (3) is gone, `enum` answers the one configuration (twice:
   the cycle of one restarts every time); after the undo paging starts with the first
   configuration of the old model again *)
Example shrink_session_evaluated :
  session X13u true st13c shrink_session =
  [SOk "1 2;-1 2;1 -2"; SOk ""; SOk "1 2"; SOk "1 2"; SOk ""; SOk "1 2;-1 2"; SOk "1 -2;-1 -2"] /\
  session X13u false st13c shrink_session = session X13u true st13c shrink_session.
Proof. split; vm_compute; reflexivity. Qed.

(* the code before F21 kept the cursor across the update: the new model with the old cursor is
   the state it reached after the first two lines, and `enum` underflows there *)
Definition st13_stale : sstate unit :=
  {| dd := build ex13s 2; sc := fresh_scratch ex13s;
     cur := cur (fst (handle_stream_msg X13u V1 true st13c "enum l 3" [])); cache := Some tt |}.

Theorem stale_cursor_panics :
  wf_sstate ex13s 2 st13_stale /\ cur st13_stale = [([], 3)] /\
  snd (handle_stream_msg X13u V1 true st13_stale "enum" []) =
    SPanic "enumerate_node: range.1 - range.0 underflows usize" /\
  ~ stream_inv st13_stale.
Proof.
  split; [constructor; [reflexivity|exact ex13s_wfq|apply fresh_clean|vm_compute; discriminate]|].
  split; [vm_compute; reflexivity|]. split; [vm_compute; reflexivity|].
  intros Hinv.
  apply (handle_no_panic_inv X13u true st13_stale "enum" [] Hinv X13u_total
           "enumerate_node: range.1 - range.0 underflows usize").
  vm_compute. reflexivity.
Qed.
