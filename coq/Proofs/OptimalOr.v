(* C20: merge_top_k_results_or (k-way merge of sorted lists) returns the k best elements of the
   concatenation. *)
From Coq Require Import List ZArith Bool Lia Permutation.
From DD Require Import Model.Circuit Model.Optimal Proofs.Enum Proofs.TopK Proofs.OptimalBridge.
Import ListNotations.
Open Scope Z_scope.

Notation odesc := (desc (@snd cfg Z)).
Notation oTopK := (TopK (@snd cfg Z)).

(* ---------- best_head ---------- *)

Lemma best_head_spec (Ls : list (list oc)) (i : nat) (b : option (nat * oc)) :
  match best_head i Ls b with
  | None => b = None /\ Forall (fun L => L = []) Ls
  | Some (j, x) =>
    (b = Some (j, x) \/ (i <= j)%nat /\ exists t, nth (j - i) Ls [] = x :: t)
    /\ (forall j' y, b = Some (j', y) -> snd y <= snd x)
    /\ (forall L y t, In L Ls -> L = y :: t -> snd y <= snd x)
  end.
Proof.
  revert i b. induction Ls as [|L Ls IH]; intros i b.
  - cbn. destruct b as [[j x]|]; [|now split]. split; [now left|]. split; [|intros L y t []].
    intros j' y Hy. inversion Hy. lia.
  - cbn [best_head].
    set (b' := match L with [] => b | x :: _ => match b with None => Some (i, x)
                 | Some (j, y) => if snd x <? snd y then b else Some (i, x) end end).
    specialize (IH (S i) b').
    destruct (best_head (S i) Ls b') as [[j x]|].
    + destruct IH as (Hin & Hb & Hl). split; [|split].
      * destruct Hin as [Hin|(Hle & t & Ht)].
        -- subst b'. destruct L as [|h tl]; [now left|].
           destruct b as [[jb yb]|].
           ++ destruct (snd h <? snd yb); [now left|]. inversion Hin; subst. right.
              split; [lia|]. rewrite Nat.sub_diag. now exists tl.
           ++ inversion Hin; subst. right. split; [lia|]. rewrite Nat.sub_diag. now exists tl.
        -- right. split; [lia|]. exists t. replace (j - i)%nat with (S (j - S i)) by lia. exact Ht.
      * intros j' y ->. subst b'. destruct L as [|h tl]; [now apply (Hb j')|].
        destruct (snd h <? snd y) eqn:E; [now apply (Hb j')|].
        apply Z.ltb_ge in E. specialize (Hb i h eq_refl). lia.
      * intros L' y t [<-|HL'] ->; [|now apply (Hl _ y t HL')].
        subst b'. cbn in Hb. destruct b as [[jb yb]|].
        -- destruct (snd y <? snd yb) eqn:E; [|now apply (Hb i)].
           apply Z.ltb_lt in E. specialize (Hb jb yb eq_refl). lia.
        -- now apply (Hb i).
    + destruct IH as [IH HF]. subst b'. destruct L as [|h tl].
      * split; [exact IH|]. constructor; [reflexivity|exact HF].
      * destruct b as [[jb yb]|]; [destruct (snd h <? snd yb)|]; discriminate.
Qed.

(* ---------- advance ---------- *)

Lemma advance_concat (Ls : list (list oc)) j x t :
  nth j Ls [] = x :: t -> Permutation (x :: concat (advance j Ls)) (concat Ls).
Proof.
  revert j. induction Ls as [|L Ls IH]; intros j Hn; [destruct j; discriminate|].
  destruct j as [|j]; cbn in Hn |- *.
  - subst L. reflexivity.
  - rewrite <- (IH j Hn). apply Permutation_middle.
Qed.

Lemma desc_tl (L : list oc) : odesc L -> odesc (tl L).
Proof. destruct L; cbn; [auto|]. now intros [_ H]. Qed.

Lemma advance_desc (Ls : list (list oc)) j : Forall odesc Ls -> Forall odesc (advance j Ls).
Proof.
  revert j. induction Ls as [|L Ls IH]; intros j H; [destruct j; constructor|].
  inversion H; subst. destruct j; cbn; constructor; auto. now apply desc_tl.
Qed.

(* ---------- the loop ---------- *)

Lemma desc_head_max (L : list oc) h t y : odesc L -> L = h :: t -> In y L -> snd y <= snd h.
Proof. intros HL -> [<-|Hy]; [lia|]. cbn in HL. now apply HL. Qed.

Lemma or_loop_spec (f : nat) : forall (Ls : list (list oc)) (out : list oc),
  Forall odesc Ls -> (f <= length (concat Ls))%nat ->
  exists R' rest, or_loop f Ls out = Done (rev out ++ R') /\ length R' = f /\ odesc R'
    /\ Permutation (R' ++ rest) (concat Ls)
    /\ forall x r, In x rest -> In r R' -> snd x <= snd r.
Proof.
  induction f as [|f IH]; intros Ls out Hd Hf.
  - exists [], (concat Ls). cbn. rewrite app_nil_r. repeat split; auto. intros x r _ [].
  - cbn [or_loop]. pose proof (best_head_spec Ls 0 None) as Hb.
    destruct (best_head 0 Ls None) as [[j x]|].
    + destruct Hb as (Hin & _ & Hmax). destruct Hin as [Hin|(_ & t & Ht)]; [discriminate|].
      rewrite Nat.sub_0_r in Ht.
      pose proof (advance_concat Ls j x t Ht) as Hperm.
      assert (Hxmax : forall y, In y (concat Ls) -> snd y <= snd x).
      { intros y Hy. apply in_concat in Hy. destruct Hy as (L & HL & Hy).
        destruct L as [|h tl]; [destruct Hy|].
        rewrite Forall_forall in Hd.
        pose proof (desc_head_max (h :: tl) h tl y (Hd _ HL) eq_refl Hy).
        specialize (Hmax (h :: tl) h tl HL eq_refl). lia. }
      assert (Hlen : (f <= length (concat (advance j Ls)))%nat).
      { pose proof (Permutation_length Hperm) as Hl. cbn in Hl. lia. }
      destruct (IH (advance j Ls) (x :: out) (advance_desc Ls j Hd) Hlen) as (R'' & rest & Heq & HlenR & HdR & HpR & Hrest).
      exists (x :: R''), rest. split; [|split; [|split; [|split]]].
      * rewrite Heq. cbn [rev]. now rewrite <- app_assoc.
      * cbn. now rewrite HlenR.
      * cbn. split; [|exact HdR]. intros y Hy. apply Hxmax.
        apply (Permutation_in _ Hperm). right. apply (Permutation_in _ HpR). apply in_app_iff. now left.
      * cbn. rewrite <- Hperm. now constructor.
      * intros y r Hy [<-|Hr]; [|now apply Hrest].
        apply Hxmax. apply (Permutation_in _ Hperm). right. apply (Permutation_in _ HpR).
        apply in_app_iff. now right.
    + exfalso. destruct Hb as [_ HF].
      assert (concat Ls = []).
      { clear - HF. induction HF as [|L Ls HL _ IH]; [reflexivity|]. subst L. exact IH. }
      rewrite H in Hf. cbn in Hf. lia.
Qed.

Lemma zsum_zlen_concat {A} (Ls : list (list A)) :
  zsum (map zlen Ls) = Z.of_nat (length (concat Ls)).
Proof.
  induction Ls as [|L Ls IH]; [reflexivity|]. cbn [map concat]. rewrite zsum_cons, IH, app_length.
  unfold zlen. lia.
Qed.

Theorem merge_or_correct (k : nat) (Ls : list (list oc)) :
  Forall odesc Ls -> exists R, merge_or k Ls = Done R /\ oTopK k (concat Ls) R.
Proof.
  intros Hd. unfold merge_or. rewrite zsum_zlen_concat.
  replace (Z.to_nat (Z.min (Z.of_nat k) (Z.of_nat (length (concat Ls)))))
    with (Nat.min k (length (concat Ls))) by lia.
  destruct (or_loop_spec (Nat.min k (length (concat Ls))) Ls [] Hd ltac:(lia))
    as (R & rest & Heq & Hlen & HdR & Hp & Hrest).
  exists R. split; [exact Heq|]. split; [exact Hlen|]. split; [exact HdR|]. now exists rest.
Qed.
