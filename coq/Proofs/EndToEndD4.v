(* End-to-end corollaries: a conforming d4 FILE, loaded by the model of the loader, answers
   queries about the function the FILE denotes.  Pure composition of C01_d4_loader_wf /
   C01_d4_loader_sem with the query theorems (which take WFQ of the vector as hypothesis). *)
From Coq Require Import List ZArith Bool Lia.
From DD Require Import Model.Circuit Model.Query Model.LexerD4 Model.LoadD4 Spec.D4Sem Spec.D4Conform
  Proofs.Semantics Proofs.CountsA Proofs.QueryDefs Proofs.C02Proof Proofs.C03Proof
  Proofs.LoadD4Sem Proofs.LoadD4Conf Proofs.LoadD4WFTop.
Import ListNotations.

(* the models of the file that contain the assumptions *)
Definition d4_modelsA (toks : list d4token) (n : nat) (A : cfg) : list cfg :=
  filter (contains_all A) (d4_models toks n).

Lemma load_d4_wfq toks n C n' :
  d4_conform toks n = true -> load_d4 toks n = Some (C, n') -> WFQ C n'.
Proof. intros Hc Hl. apply check_wf_WFQ. exact (load_d4_wf toks n C n' Hc Hl). Qed.

Lemma load_d4_models toks n C n' :
  d4_conform toks n = true -> load_d4 toks n = Some (C, n') -> Models C n' = d4_models toks n'.
Proof.
  intros Hc Hl. unfold Models, d4_models.
  destruct (load_d4_sem toks n C n' (cf_d4_ok toks n Hc) Hl) as [_ Hs].
  apply filter_ext. intros m. apply Hs.
Qed.

(* count under assumptions = number of models of THE FILE containing them, every strategy *)
Theorem d4_file_count toks n C n' A s :
  d4_conform toks n = true -> load_d4 toks n = Some (C, n') ->
  in_range n' A -> Clean C s ->
  snd (execute_query (build C n') A s) = Z.of_nat (length (d4_modelsA toks n' A)).
Proof.
  intros Hc Hl HA Hs.
  pose proof (execute_query_correct C n' A s (load_d4_wfq toks n C n' Hc Hl) HA Hs) as H.
  destruct (execute_query (build C n') A s) as [s' r]. destruct H as [H _]. cbn [snd]. rewrite H.
  unfold MCA, ModelsA, d4_modelsA. now rewrite (load_d4_models toks n C n' Hc Hl).
Qed.

Lemma d4_MCA toks n C n' A :
  d4_conform toks n = true -> load_d4 toks n = Some (C, n') ->
  MCA C n' A = Z.of_nat (length (d4_modelsA toks n' A)).
Proof.
  intros Hc Hl. unfold MCA, ModelsA, d4_modelsA. now rewrite (load_d4_models toks n C n' Hc Hl).
Qed.

(* SAT = some model of THE FILE contains the assumptions (a satisfiable file) *)
Theorem d4_file_sat toks n C n' A :
  d4_conform toks n = true -> load_d4 toks n = Some (C, n') ->
  d4_models toks n' <> [] -> in_range n' A ->
  sat (build C n') A = negb (match d4_modelsA toks n' A with [] => true | _ => false end).
Proof.
  intros Hc Hl Hsat HA.
  destruct (load_d4_wf_count toks n C n' Hc Hl) as [_ Hcount].
  assert (Hpos : 0 < root_count C).
  { rewrite Hcount. destruct (d4_models toks n') as [|m ms]; [congruence|]. cbn [length]. lia. }
  rewrite (sat_correct C n' A (load_d4_wfq toks n C n' Hc Hl) Hpos HA).
  rewrite (d4_MCA toks n C n' A Hc Hl).
  destruct (d4_modelsA toks n' A) as [|m ms]; cbn [length negb]; [reflexivity|].
  apply Z.ltb_lt. lia.
Qed.
