(* C20, bridge: the configurations a node stands for under the assumptions A
   (EA = enumeration with the leaves contradicting A emptied), values of configurations, and the
   link to the truth table: at the root of a WF circuit EA is, up to canon, ModelsA. *)
From Coq Require Import List ZArith Bool Lia Permutation.
From DD Require Import Model.Circuit Model.Optimal Proofs.PassLemmas Proofs.Enum Proofs.Semantics Proofs.TopK.
Import ListNotations.
Open Scope Z_scope.

(* ---------- values ---------- *)

Lemma zsum_app l1 l2 : zsum (l1 ++ l2) = zsum l1 + zsum l2.
Proof. induction l1 as [|x l1 IH]; [reflexivity|]. cbn [app]. rewrite !zsum_cons, IH. lia. Qed.

Lemma cval_nil vals : cval vals [] = 0.
Proof. reflexivity. Qed.
Lemma cval_app vals x r : cval vals (x ++ r) = cval vals x + cval vals r.
Proof. unfold cval. now rewrite map_app, zsum_app. Qed.
Lemma cval_single vals l : cval vals [l] = valof vals l.
Proof. unfold cval. cbn [map]. rewrite zsum_cons. change (zsum []) with 0. lia. Qed.

Lemma zsum_perm l l' : Permutation l l' -> zsum l = zsum l'.
Proof.
  induction 1 as [| x l l' _ IH | x y l | l l' l'' _ IH1 _ IH2];
    rewrite ?zsum_cons in *; try lia; reflexivity.
Qed.
Lemma cval_perm vals c c' : Permutation c c' -> cval vals c = cval vals c'.
Proof. intros H. unfold cval. apply zsum_perm. now apply Permutation_map. Qed.

Lemma snd_uni a b : snd (uni a b) = snd a + snd b.
Proof. reflexivity. Qed.

Lemma tag_nil vals : tag vals [] = oc_empty.
Proof. reflexivity. Qed.
Lemma tag_app vals x r : tag vals (x ++ r) = uni (tag vals r) (tag vals x).
Proof. unfold tag, uni. cbn [fst snd]. rewrite cval_app. f_equal. lia. Qed.

(* the product of lists of (configuration, value) pairs, in the order of Circuit.prod *)
Definition ocprod : list (list oc) -> list oc := nprod uni oc_empty.

Lemma map_flat_map {A B D} (f : B -> D) (g : A -> list B) (l : list A) :
  map f (flat_map g l) = flat_map (fun x => map f (g x)) l.
Proof. induction l as [|x l IH]; [reflexivity|]. cbn. now rewrite map_app, IH. Qed.

Lemma flat_map_map {A B D} (f : A -> B) (g : B -> list D) (l : list A) :
  flat_map g (map f l) = flat_map (fun x => g (f x)) l.
Proof. induction l as [|x l IH]; [reflexivity|]. cbn. now rewrite IH. Qed.

Lemma map_tag_prod vals (Ms : list (list cfg)) :
  map (tag vals) (prod Ms) = ocprod (map (map (tag vals)) Ms).
Proof.
  induction Ms as [|M Ms IH]; [reflexivity|].
  cbn [prod map]. unfold ocprod, nprod. cbn [fold_right]. fold (nprod uni oc_empty (map (map (tag vals)) Ms)).
  fold (ocprod (map (map (tag vals)) Ms)). rewrite <- IH.
  unfold bprod. rewrite map_flat_map, flat_map_map. apply flat_map_ext. intros x.
  rewrite !map_map. apply map_ext. intros r. apply tag_app.
Qed.

(* ---------- compatibility with the assumptions ---------- *)

Definition compat (A : cfg) (c : cfg) : bool := forallb (fun l => negb (memZ (- l) A)) c.

Lemma compat_nil A : compat A [] = true.
Proof. reflexivity. Qed.
Lemma compat_app A x r : compat A (x ++ r) = compat A x && compat A r.
Proof. unfold compat. apply forallb_app. Qed.

Definition EA (A : cfg) (C : circuit) (i : nat) : list cfg :=
  filter (compat A) (nth i (enums C) []).

Lemma EA_unfold A C i :
  idx_ok C = true -> (i < length C)%nat ->
  EA A C i =
  match nth i C FalseN with
  | Lit l => if memZ (- l) A then [] else [[l]]
  | And cs => prod (rev (map (EA A C) cs))
  | Or cs => concat (map (EA A C) cs)
  | TrueN => [[]]
  | FalseN => []
  end.
Proof.
  intros Hok Hi. unfold EA at 1. rewrite (enums_unfold C Hok i Hi).
  destruct (nth i C FalseN) as [l|cs|cs| |]; cbn [enum_node].
  - cbn. destruct (memZ (- l) A); reflexivity.
  - rewrite filter_prod; [|apply compat_nil|apply compat_app].
    f_equal. rewrite <- map_rev, <- map_rev, map_map. reflexivity.
  - rewrite filter_concat, map_map. reflexivity.
  - reflexivity.
  - reflexivity.
Qed.

(* ---------- complete configurations and their canonical form ---------- *)

Lemma NoDup_map_inv' {A B} (f : A -> B) (l : list A) : NoDup (map f l) -> NoDup l.
Proof.
  induction l as [|x l IH]; intros H; [constructor|]. cbn in H. inversion H; subst.
  constructor; [|now apply IH]. intros Hin. apply H2. now apply in_map.
Qed.

Lemma canon_cfg_abs n c : map Z.abs (canon_cfg n c) = zseq 1 n.
Proof.
  unfold canon_cfg, canon. rewrite map_map.
  rewrite <- (map_id (zseq 1 n)) at 2. apply map_ext_in. intros v Hv. apply zseq_In in Hv.
  destruct (asg_of c v); lia.
Qed.

Lemma good_canon_perm n c V : Good c V -> range_set n V -> Permutation c (canon_cfg n c).
Proof.
  intros HG HV. pose proof HG as [Hnd Hmem].
  destruct (good_range_lits n c V HG HV) as [Hr H0].
  apply NoDup_Permutation.
  - now apply (NoDup_map_inv' Z.abs).
  - apply (NoDup_map_inv' Z.abs). rewrite canon_cfg_abs. apply zseq_NoDup.
  - intros x. unfold canon_cfg, canon, asg_of. rewrite in_map_iff. split.
    + intros Hx. specialize (Hr x Hx).
      assert (x <> 0) by (intros ->; contradiction).
      exists (Z.abs x). split; [|apply zseq_In; lia].
      destruct (memZ (Z.abs x) c) eqn:E.
      * apply memZ_In in E.
        apply (NoDup_map_inj_in Z.abs c (Z.abs x) x Hnd E Hx). apply Z.abs_involutive.
      * apply memZ_false in E. destruct (Z.abs_spec x) as [[? Hx']|[? Hx']]; [|lia].
        exfalso. apply E. now rewrite Hx'.
    + intros (v & Hv & Hin). apply zseq_In in Hin.
      destruct (memZ v c) eqn:E.
      * apply memZ_In in E. now subst.
      * apply memZ_false in E. subst x.
        assert (Hvm : In v (map Z.abs c)) by (apply Hmem; apply HV; lia).
        apply in_map_iff in Hvm. destruct Hvm as (l & Hl & Hlc).
        destruct (Z.abs_spec l) as [[? Hl']|[? Hl']]; [exfalso; apply E; congruence|].
        replace (- v) with l by lia. exact Hlc.
Qed.

Lemma good_cval_canon vals n c V :
  Good c V -> range_set n V -> cval vals (canon_cfg n c) = cval vals c.
Proof. intros HG HV. symmetry. apply cval_perm. eapply good_canon_perm; eauto. Qed.

Definition in_range (n : nat) (A : cfg) : Prop := Forall (fun a => 1 <= Z.abs a <= Z.of_nat n) A.

Lemma compat_contains n c V A :
  Good c V -> range_set n V -> in_range n A ->
  contains_all A (canon_cfg n c) = compat A c.
Proof.
  intros HG HV HA. pose proof (good_canon_perm n c V HG HV) as HP.
  pose proof HG as [Hnd Hmem]. destruct (good_range_lits n c V HG HV) as [Hr H0].
  apply eq_iff_eq_true. unfold contains_all, compat. rewrite !forallb_forall. split.
  - intros H l Hl. apply negb_true_iff. apply memZ_false. intros HlA.
    specialize (H _ HlA). apply memZ_In in H. apply (Permutation_in _ (Permutation_sym HP)) in H.
    assert (l <> 0) by (intros ->; contradiction).
    assert (- l = l); [|lia].
    apply (NoDup_map_inj_in Z.abs c (- l) l Hnd H Hl). apply Z.abs_opp.
  - intros H a Ha. apply memZ_In. apply (Permutation_in _ HP).
    unfold in_range in HA. rewrite Forall_forall in HA. specialize (HA a Ha).
    assert (Hvm : In (Z.abs a) (map Z.abs c)) by (apply Hmem; apply HV; lia).
    apply in_map_iff in Hvm. destruct Hvm as (l & Hl & Hlc).
    assert (Hcase : l = a \/ l = - a) by lia. destruct Hcase as [->| ->]; [exact Hlc|].
    exfalso. specialize (H _ Hlc). apply negb_true_iff in H. apply memZ_false in H. apply H.
    now rewrite Z.opp_involutive.
Qed.

(* ---------- the root: EA = ModelsA up to canon ---------- *)

Section Root.
Variables (C : circuit) (n : nat) (A : cfg).
Hypothesis HWF : WF C n.
Hypothesis HA : in_range n A.

Lemma EA_root_good c : In c (EA A C (root C)) -> Good c (last (varss C) []).
Proof.
  intros Hc. unfold EA in Hc. apply filter_In in Hc. destruct Hc as [Hc _].
  apply (root_good C n HWF). now rewrite enum_root_nth.
Qed.

Theorem EA_root_models : Permutation (map (canon_cfg n) (EA A C (root C))) (ModelsA C n A).
Proof.
  pose proof (complete_range C n (wf_complete C n HWF)) as HV.
  unfold ModelsA. rewrite <- (filter_perm _ _ _ (models_enum_perm C n HWF)).
  rewrite filter_map_comm. unfold EA. rewrite <- enum_root_nth.
  apply Permutation_refl'. f_equal. apply filter_ext_in. intros c Hc. symmetry.
  eapply compat_contains; [apply (root_good C n HWF); exact Hc|exact HV|exact HA].
Qed.

Lemma EA_root_cval vals c :
  In c (EA A C (root C)) -> cval vals (canon_cfg n c) = cval vals c.
Proof.
  intros Hc. eapply good_cval_canon; [apply EA_root_good; exact Hc|].
  apply (complete_range C n (wf_complete C n HWF)).
Qed.

Lemma ModelsA_from_EA m :
  In m (ModelsA C n A) -> exists c, In c (EA A C (root C)) /\ m = canon_cfg n c.
Proof.
  intros Hm. apply (Permutation_in _ (Permutation_sym EA_root_models)) in Hm.
  apply in_map_iff in Hm. destruct Hm as (c & <- & Hc). now exists c.
Qed.

Lemma ModelsA_NoDup : NoDup (ModelsA C n A).
Proof. unfold ModelsA, Models. apply NoDup_filter, NoDup_filter, all_cfgs_NoDup. Qed.

Lemma MCA_length : MCA C n A = Z.of_nat (length (EA A C (root C))).
Proof. unfold MCA. rewrite <- (Permutation_length EA_root_models), map_length. reflexivity. Qed.

End Root.
