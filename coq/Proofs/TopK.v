(* Generic theory of "the k best elements of a list" (used by C20).
   TopK k Q R : R is a correct top-k answer for the list Q (as a multiset);
   Dom k Q R  : R is a sub-multiset of Q such that everything left out is dominated by at least k
                elements of R.  Dom is closed under concatenation and products, which is why a
                node may keep only the k best configurations of its children. *)
From Coq Require Import List ZArith Bool Lia Permutation.
Import ListNotations.
Open Scope Z_scope.

Section TopK.
Context {X : Type} (val : X -> Z).

Definition cnt (v : Z) (L : list X) : nat := length (filter (fun x => v <=? val x) L).

Fixpoint desc (R : list X) : Prop :=
  match R with
  | [] => True
  | x :: R' => (forall y, In y R' -> val y <= val x) /\ desc R'
  end.

Definition TopK (k : nat) (Q R : list X) : Prop :=
  length R = Nat.min k (length Q) /\ desc R /\
  exists rest, Permutation (R ++ rest) Q /\ forall x r, In x rest -> In r R -> val x <= val r.

Definition Dom (k : nat) (Q R : list X) : Prop :=
  exists rest, Permutation (R ++ rest) Q /\ forall x, In x rest -> (k <= cnt (val x) R)%nat.

(* ---- cnt ---- *)

Lemma cnt_app v L1 L2 : cnt v (L1 ++ L2) = (cnt v L1 + cnt v L2)%nat.
Proof. unfold cnt. now rewrite filter_app, app_length. Qed.

Lemma filter_perm {A} (p : A -> bool) (l l' : list A) :
  Permutation l l' -> Permutation (filter p l) (filter p l').
Proof.
  induction 1 as [|x l l' _ IH|x y l|l l' l'' _ IH1 _ IH2]; cbn.
  - constructor.
  - destruct (p x); [now constructor|exact IH].
  - destruct (p x), (p y); try apply Permutation_refl. apply perm_swap.
  - now transitivity (filter p l').
Qed.

Lemma cnt_perm v L L' : Permutation L L' -> cnt v L = cnt v L'.
Proof. intros H. unfold cnt. apply Permutation_length. now apply filter_perm. Qed.

Lemma filter_len_le {A} (p : A -> bool) (l : list A) : (length (filter p l) <= length l)%nat.
Proof. induction l as [|x l IH]; cbn; [lia|]. destruct (p x); cbn; lia. Qed.

Lemma filter_len_lt {A} (p : A -> bool) (l : list A) x :
  In x l -> p x = false -> (length (filter p l) < length l)%nat.
Proof.
  induction l as [|y l IH]; intros Hin Hp; [destruct Hin|].
  cbn. destruct Hin as [->|Hin].
  - rewrite Hp. pose proof (filter_len_le p l). lia.
  - specialize (IH Hin Hp). destruct (p y); cbn; lia.
Qed.

Lemma filter_all_true {A} (p : A -> bool) (l : list A) :
  (forall x, In x l -> p x = true) -> filter p l = l.
Proof.
  induction l as [|y l IH]; intros H; [reflexivity|]. cbn.
  rewrite (H y (or_introl eq_refl)). f_equal. apply IH. intros x Hx. apply H. now right.
Qed.

Lemma filter_all_false {A} (p : A -> bool) (l : list A) :
  (forall x, In x l -> p x = false) -> filter p l = [].
Proof.
  induction l as [|y l IH]; intros H; [reflexivity|]. cbn.
  rewrite (H y (or_introl eq_refl)). apply IH. intros x Hx. apply H. now right.
Qed.

Lemma cnt_le_length v L : (cnt v L <= length L)%nat.
Proof. apply filter_len_le. Qed.

Lemma cnt_all v L : (forall x, In x L -> v <= val x) -> cnt v L = length L.
Proof.
  intros H. unfold cnt. rewrite filter_all_true; [reflexivity|].
  intros x Hx. apply Z.leb_le. now apply H.
Qed.

Lemma cnt_none v L : (forall x, In x L -> val x < v) -> cnt v L = 0%nat.
Proof.
  intros H. unfold cnt. rewrite filter_all_false; [reflexivity|].
  intros x Hx. apply Z.leb_gt. now apply H.
Qed.

Lemma cnt_pos_ex v L : (1 <= cnt v L)%nat -> exists y, In y L /\ v <= val y.
Proof.
  unfold cnt. intros H. destruct (filter (fun x => v <=? val x) L) as [|y F] eqn:E; [cbn in H; lia|].
  assert (Hy : In y (filter (fun x => v <=? val x) L)) by (rewrite E; now left).
  apply filter_In in Hy. destruct Hy as [Hy1 Hy2]. exists y. split; [exact Hy1|now apply Z.leb_le].
Qed.

Lemma cnt_ex_pos v L y : In y L -> v <= val y -> (1 <= cnt v L)%nat.
Proof.
  intros Hin Hv. unfold cnt.
  assert (Hy : In y (filter (fun x => v <=? val x) L)).
  { apply filter_In. split; [exact Hin|now apply Z.leb_le]. }
  destruct (filter (fun x => v <=? val x) L); [destruct Hy|cbn; lia].
Qed.

Lemma cnt_mono v v' L : v' <= v -> (cnt v L <= cnt v' L)%nat.
Proof.
  intros Hv. unfold cnt. induction L as [|x L IH]; cbn; [lia|].
  destruct (v <=? val x) eqn:E1, (v' <=? val x) eqn:E2; cbn; try lia.
  all: apply Z.leb_le in E1; apply Z.leb_gt in E2; lia.
Qed.

(* ---- desc ---- *)

Lemma desc_app R1 R2 :
  desc R1 -> desc R2 -> (forall x y, In x R1 -> In y R2 -> val y <= val x) -> desc (R1 ++ R2).
Proof.
  induction R1 as [|x R1 IH]; intros H1 H2 H12; [exact H2|].
  cbn in *. destruct H1 as [Hx H1]. split.
  - intros y Hy. apply in_app_iff in Hy. destruct Hy as [Hy|Hy]; [now apply Hx|].
    apply H12; [now left|exact Hy].
  - apply IH; auto.
Qed.

Lemma desc_snoc R x : desc R -> (forall y, In y R -> val x <= val y) -> desc (R ++ [x]).
Proof.
  intros HR Hx. apply desc_app; [exact HR|cbn; split; [intros y []|exact I]|].
  intros a b Ha [<-|[]]. now apply Hx.
Qed.

(* ---- TopK / Dom ---- *)

Lemma TopK_nil k : TopK k [] [].
Proof. split; [now rewrite Nat.min_0_r|]. split; [exact I|]. exists []. split; [constructor|intros x r []]. Qed.

Lemma TopK_single k x : (1 <= k)%nat -> TopK k [x] [x].
Proof.
  intros Hk. split; [cbn; lia|]. split; [cbn; split; [intros y []|exact I]|].
  exists []. split; [apply Permutation_refl|intros y r []].
Qed.

(* if at least k elements of Q reach the value v, every returned element does *)
Lemma TopK_cnt k Q R v :
  TopK k Q R -> (k <= cnt v Q)%nat -> forall r, In r R -> v <= val r.
Proof.
  intros (Hlen & _ & rest & Hperm & Hrest) Hk r Hr.
  destruct (Z_le_gt_dec v (val r)) as [Hle|Hgt]; [exact Hle|exfalso].
  rewrite <- (cnt_perm v _ _ Hperm), cnt_app in Hk.
  assert (H0 : cnt v rest = 0%nat).
  { apply cnt_none. intros x Hx. specialize (Hrest x r Hx Hr). lia. }
  assert (Hlt : (cnt v R < length R)%nat).
  { apply (filter_len_lt _ R r Hr). apply Z.leb_gt. lia. }
  lia.
Qed.

Lemma TopK_Dom k Q R : TopK k Q R -> Dom k Q R.
Proof.
  intros (Hlen & _ & rest & Hperm & Hrest). exists rest. split; [exact Hperm|].
  intros x Hx.
  assert (HlenQ : length Q = (length R + length rest)%nat).
  { rewrite <- (Permutation_length Hperm). apply app_length. }
  assert (length rest >= 1)%nat by (destruct rest; [destruct Hx|cbn; lia]).
  rewrite cnt_all; [lia|]. intros r Hr. now apply Hrest.
Qed.

Lemma Dom_TopK k Q R' R : TopK k R' R -> Dom k Q R' -> TopK k Q R.
Proof.
  intros HT (restD & HpermD & HD).
  pose proof HT as (Hlen & Hdesc & restR & HpermR & HR).
  split; [|split; [exact Hdesc|]].
  - assert (HlenQ : length Q = (length R' + length restD)%nat).
    { rewrite <- (Permutation_length HpermD). apply app_length. }
    destruct restD as [|x restD]; [cbn in HlenQ; lia|].
    pose proof (HD x (or_introl eq_refl)) as Hx. pose proof (cnt_le_length (val x) R'). cbn in HlenQ. lia.
  - exists (restR ++ restD). split.
    + rewrite app_assoc. rewrite <- HpermD. apply Permutation_app; [exact HpermR|apply Permutation_refl].
    + intros x r Hx Hr. apply in_app_iff in Hx. destruct Hx as [Hx|Hx]; [now apply HR|].
      apply (TopK_cnt k R' R (val x) HT (HD x Hx) r Hr).
Qed.

Lemma Dom_refl k Q : Dom k Q Q.
Proof. exists []. split; [now rewrite app_nil_r|intros x []]. Qed.

Lemma Dom_perm k Q Q' R : Permutation Q Q' -> Dom k Q R -> Dom k Q' R.
Proof. intros Hp (rest & Hperm & H). exists rest. split; [now rewrite Hperm|exact H]. Qed.

Lemma perm_app_swap4 {A} (a b c d : list A) :
  Permutation ((a ++ b) ++ (c ++ d)) ((a ++ c) ++ (b ++ d)).
Proof.
  rewrite <- !app_assoc. apply Permutation_app_head.
  rewrite !app_assoc. apply Permutation_app_tail. apply Permutation_app_comm.
Qed.

Lemma Dom_app k Q1 R1 Q2 R2 : Dom k Q1 R1 -> Dom k Q2 R2 -> Dom k (Q1 ++ Q2) (R1 ++ R2).
Proof.
  intros (r1 & Hp1 & H1) (r2 & Hp2 & H2). exists (r1 ++ r2). split.
  - rewrite perm_app_swap4. now apply Permutation_app.
  - intros x Hx. rewrite cnt_app. apply in_app_iff in Hx. destruct Hx as [Hx|Hx].
    + specialize (H1 x Hx). lia.
    + specialize (H2 x Hx). lia.
Qed.

Lemma Dom_concat k Qs Rs : Forall2 (Dom k) Qs Rs -> Dom k (concat Qs) (concat Rs).
Proof. induction 1 as [|Q R Qs Rs H _ IH]; cbn; [apply Dom_refl|now apply Dom_app]. Qed.

(* ---- products ---- *)

Context (op : X -> X -> X).
Hypothesis op_val : forall a b, val (op a b) = val a + val b.

(* x ranges over A (outer, slow), r over B *)
Definition bprod (A B : list X) : list X := flat_map (fun x => map (fun r => op r x) B) A.

Lemma in_bprod A B y : In y (bprod A B) <-> exists a b, In a A /\ In b B /\ y = op b a.
Proof.
  unfold bprod. rewrite in_flat_map. split.
  - intros (a & Ha & Hy). apply in_map_iff in Hy. destruct Hy as (b & <- & Hb). now exists a, b.
  - intros (a & b & Ha & Hb & ->). exists a. split; [exact Ha|]. apply in_map_iff. now exists b.
Qed.

Lemma flat_map_perm_ext {A B} (f g : A -> list B) (l : list A) :
  (forall x, In x l -> Permutation (f x) (g x)) -> Permutation (flat_map f l) (flat_map g l).
Proof.
  induction l as [|x l IH]; intros H; [constructor|]. cbn. apply Permutation_app.
  - apply H. now left.
  - apply IH. intros y Hy. apply H. now right.
Qed.

Lemma bprod_perm A A' B B' :
  Permutation A A' -> Permutation B B' -> Permutation (bprod A B) (bprod A' B').
Proof.
  intros HA HB. unfold bprod.
  transitivity (flat_map (fun x => map (fun r => op r x) B) A').
  - now apply Permutation_flat_map.
  - apply flat_map_perm_ext. intros x _. now apply Permutation_map.
Qed.

Lemma bprod_app_l A1 A2 B : bprod (A1 ++ A2) B = bprod A1 B ++ bprod A2 B.
Proof. unfold bprod. apply flat_map_app. Qed.

Lemma bprod_app_r A B1 B2 : Permutation (bprod A (B1 ++ B2)) (bprod A B1 ++ bprod A B2).
Proof.
  induction A as [|a A IH]; [constructor|].
  cbn. rewrite map_app. rewrite perm_app_swap4. apply Permutation_app; [apply Permutation_refl|exact IH].
Qed.

Lemma cnt_map_op v a B : cnt (v + val a) (map (fun r => op r a) B) = cnt v B.
Proof.
  unfold cnt. induction B as [|b B IH]; [reflexivity|]. cbn. rewrite op_val.
  replace (v + val a <=? val b + val a) with (v <=? val b).
  - destruct (v <=? val b); cbn; now rewrite IH.
  - destruct (v <=? val b) eqn:E; symmetry.
    + apply Z.leb_le in E. apply Z.leb_le. lia.
    + apply Z.leb_gt in E. apply Z.leb_gt. lia.
Qed.

Lemma cnt_bprod_l vb a A B : In a A -> (cnt vb B <= cnt (vb + val a) (bprod A B))%nat.
Proof.
  induction A as [|a' A IH]; intros Hin; [destruct Hin|].
  change (bprod (a' :: A) B) with (map (fun r => op r a') B ++ bprod A B).
  rewrite cnt_app. destruct Hin as [->|Hin].
  - rewrite cnt_map_op. lia.
  - specialize (IH Hin). lia.
Qed.

Lemma cnt_bprod_r va vb b' A B :
  In b' B -> vb <= val b' -> (cnt va A <= cnt (vb + va) (bprod A B))%nat.
Proof.
  intros Hb Hvb. induction A as [|a A IH]; [cbn; lia|].
  change (bprod (a :: A) B) with (map (fun r => op r a) B ++ bprod A B).
  rewrite cnt_app.
  change (cnt va (a :: A)) with (length (filter (fun x => va <=? val x) (a :: A))).
  cbn [filter]. destruct (va <=? val a) eqn:E.
  - apply Z.leb_le in E. cbn [length].
    assert (1 <= cnt (vb + va) (map (fun r => op r a) B))%nat.
    { apply (cnt_ex_pos _ _ (op b' a)); [apply in_map_iff; now exists b'|]. rewrite op_val. lia. }
    unfold cnt in IH at 1. lia.
  - unfold cnt in IH at 1. lia.
Qed.

Lemma Dom_bprod k QA RA QB RB :
  (1 <= k)%nat -> Dom k QA RA -> Dom k QB RB -> Dom k (bprod QA QB) (bprod RA RB).
Proof.
  intros Hk (rA & HpA & HA) (rB & HpB & HB).
  exists (bprod RA rB ++ bprod rA (RB ++ rB)). split.
  - rewrite <- (bprod_perm _ _ _ _ HpA HpB). rewrite bprod_app_l.
    rewrite app_assoc. apply Permutation_app_tail. symmetry. apply bprod_app_r.
  - intros x Hx. apply in_app_iff in Hx. destruct Hx as [Hx|Hx]; apply in_bprod in Hx;
      destruct Hx as (a & b & Ha & Hb & ->); rewrite op_val.
    + specialize (HB b Hb). pose proof (cnt_bprod_l (val b) a RA RB Ha). lia.
    + specialize (HA a Ha).
      assert (Hex : exists b', In b' RB /\ val b <= val b').
      { apply in_app_iff in Hb. destruct Hb as [Hb|Hb]; [exists b; split; [exact Hb|lia]|].
        specialize (HB b Hb). apply cnt_pos_ex. lia. }
      destruct Hex as (b' & Hb' & Hle).
      pose proof (cnt_bprod_r (val a) (val b) b' RA RB Hb' Hle). lia.
Qed.

Context (e : X).
Definition nprod (Ls : list (list X)) : list X := fold_right bprod [e] Ls.

Lemma Dom_nprod k Qs Rs : (1 <= k)%nat -> Forall2 (Dom k) Qs Rs -> Dom k (nprod Qs) (nprod Rs).
Proof.
  intros Hk. induction 1 as [|Q R Qs Rs H _ IH]; cbn; [apply Dom_refl|now apply Dom_bprod].
Qed.

End TopK.

(* ---- list auxiliaries ---- *)

Lemma Forall2_in_l_ex {A B} (P : A -> B -> Prop) l l' :
  Forall2 P l l' -> forall x, In x l -> exists y, In y l' /\ P x y.
Proof.
  induction 1 as [|a b l l' Hab _ IH]; intros x Hx; [destruct Hx|].
  destruct Hx as [->|Hx]; [exists b; split; [now left|exact Hab]|].
  destruct (IH x Hx) as (y & Hy & HP). exists y. split; [now right|exact HP].
Qed.

Lemma Forall2_in_r_ex {A B} (P : A -> B -> Prop) l l' :
  Forall2 P l l' -> forall y, In y l' -> exists x, In x l /\ P x y.
Proof.
  induction 1 as [|a b l l' Hab _ IH]; intros y Hy; [destruct Hy|].
  destruct Hy as [->|Hy]; [exists a; split; [now left|exact Hab]|].
  destruct (IH y Hy) as (x & Hx & HP). exists x. split; [now right|exact HP].
Qed.

Lemma Forall2_rev_both {A B} (P : A -> B -> Prop) l l' :
  Forall2 P l l' -> Forall2 P (rev l) (rev l').
Proof.
  induction 1 as [|a b l l' Hab _ IH]; [constructor|]. cbn. apply Forall2_app; [exact IH|].
  constructor; [exact Hab|constructor].
Qed.

Lemma Forall2_map_both {A B D} (P : B -> D -> Prop) (f : A -> B) (g : A -> D) (l : list A) :
  (forall x, In x l -> P (f x) (g x)) -> Forall2 P (map f l) (map g l).
Proof.
  induction l as [|x l IH]; intros H; [constructor|].
  cbn. constructor; [apply H; now left|]. apply IH. intros y Hy. apply H. now right.
Qed.
