(* C13: the dispatch half of the stream handler (Model/StreamMsg.v exec): no partial operation
   fails, errors carry their code, which commands leave what unchanged, and the answers of
   count / sat / core are the renderings of the truth-table answers (via the C02 / C03 / C05 theorems). *)
From Coq Require Import List ZArith Bool String Ascii Lia.
From DD Require Import Model.Circuit Model.Query Model.Enumerate Model.StreamMsg
  Proofs.PassLemmas Proofs.Semantics Proofs.CountsA Proofs.QueryDefs Proofs.C02Basics
  Proofs.C02Proof Proofs.C03Proof Proofs.C05Proof Proofs.C05Final Proofs.StreamMsgDefs.
Import ListNotations.
Open Scope Z_scope.

(* ---------- small facts ---------- *)
Lemma nums_ok_in_range (n : nat) (l : cfg) : nums_ok (Z.of_nat n) l -> in_range n l.
Proof. intros H x Hx. unfold nums_ok in H. rewrite Forall_forall in H. exact (H x Hx). Qed.

Lemma in_range_app1 (n : nat) (a : cfg) (x : Z) :
  in_range n a -> 1 <= Z.abs x <= Z.of_nat n -> in_range n (a ++ [x]).
Proof.
  intros Ha Hx l Hl. apply in_app_iff in Hl. destruct Hl as [Hl|[<-|[]]]; [exact (Ha l Hl)|exact Hx].
Qed.

Lemma in_insert_abs (x : Z) (l : cfg) (y : Z) : In y (insert_abs x l) -> y = x \/ In y l.
Proof.
  induction l as [|z l IH]; cbn [insert_abs]; intros H.
  - destruct H as [<-|[]]. now left.
  - destruct (Z.abs x <=? Z.abs z).
    + destruct H as [<-|H]; [now left|now right].
    + destruct H as [<-|H]; [right; now left|]. destruct (IH H) as [->|H']; [now left|right; now right].
Qed.
Lemma in_sort_abs (l : cfg) (y : Z) : In y (sort_abs l) -> In y l.
Proof.
  induction l as [|x l IH]; cbn [sort_abs fold_right]; intros H; [exact H|].
  apply in_insert_abs in H. destruct H as [->|H]; [now left|right; exact (IH H)].
Qed.
Lemma in_range_sort_abs (n : nat) (A : cfg) : in_range n A -> in_range n (sort_abs A).
Proof. intros H l Hl. apply H, in_sort_abs, Hl. Qed.
(* Vec::dedup only removes *)
Lemma in_dedup (l : cfg) : forall y, In y (dedup l) -> In y l.
Proof.
  induction l as [|a l IH]; intros y H; [exact H|].
  destruct l as [|b l']; [exact H|].
  change (dedup (a :: b :: l')) with (if a =? b then dedup (b :: l') else a :: dedup (b :: l')) in H.
  destruct (a =? b); [right; exact (IH y H)|].
  destruct H as [->|H]; [now left|right; exact (IH y H)].
Qed.
Lemma in_range_enum_key (n : nat) (A : cfg) : in_range n A -> in_range n (enum_key A).
Proof. intros H l Hl. apply H, in_sort_abs, in_dedup, Hl. Qed.

Lemma counts_length (C : circuit) : length (counts C) = length C.
Proof. unfold counts. apply pass_length. Qed.

(* ================================================================ per-model facts *)
Section Model.
Variables (C : circuit) (n : nat).
Hypothesis HQ : WFQ C n.
Notation d := (build C n).

Lemma exq (A : cfg) (s : scratch) : in_range n A -> Clean C s ->
  exists s', execute_query d A s = (s', MCA C n A) /\ Clean C s'.
Proof. apply (exec_hyp C n HQ). Qed.

Lemma rc_nonneg : 0 <= rc d.
Proof.
  destruct (exq [] (fresh_scratch C)) as [s' [H _]]; [intros l []|apply fresh_clean|].
  cbn [execute_query] in H. injection H as _ H. rewrite H. unfold MCA. lia.
Qed.

(* ---- the generic shape of an operation behind op_with ---- *)
Definition lop_ok (op : lop) : Prop :=
  forall A b s, in_range n A -> Clean C s -> (b = true -> A <> []) ->
    exists s' r, op A b s = AOk (s', r) /\ Clean C s'.

Lemma op_count_ok : lop_ok (op_count d).
Proof.
  intros A b s HA Hs _. unfold op_count. destruct (exq A s HA Hs) as [s' [-> Hs']].
  eexists _, _. split; [reflexivity|exact Hs'].
Qed.
Lemma op_sat_ok : lop_ok (op_sat d).
Proof. intros A b s HA Hs _. unfold op_sat. eexists _, _. split; [reflexivity|exact Hs]. Qed.

Lemma core_dead_clean (A : cfg) (s : scratch) : in_range n A -> Clean C s ->
  exists s' c, core_dead_with_assumptions d A s = (s', c) /\ Clean C s' /\
               c = match A with [] => core d | _ => core_dead_sem C n A end.
Proof.
  intros HA Hs. destruct A as [|a A].
  - exists s, (core d). cbn [core_dead_with_assumptions]. auto.
  - destruct (core_dead_with_assumptions_final C n (a :: A) s HQ) as [s' [H Hs']];
      [discriminate|exact HA|exact Hs|].
    exists s', (core_dead_sem C n (a :: A)). auto.
Qed.

Lemma op_core_ok : lop_ok (op_core d).
Proof.
  intros A b s HA Hs Hb. unfold op_core. destruct b.
  - destruct (rev A) as [|could rest] eqn:Hrev.
    + exfalso. apply (Hb eq_refl). apply (f_equal (@rev Z)) in Hrev. rewrite rev_involutive in Hrev. exact Hrev.
    + assert (HA' : in_range n (rev rest)).
      { intros l Hl. apply HA. apply in_rev in Hl. apply in_rev. rewrite Hrev. now right. }
      destruct (exq (rev rest) s HA' Hs) as [s1 [-> Hs1]].
      destruct (exq A s1 HA Hs1) as [s2 [-> Hs2]].
      eexists _, _. split; [reflexivity|exact Hs2].
  - destruct (core_dead_clean A s HA Hs) as [s' [c [-> [Hs' _]]]].
    eexists _, _. split; [reflexivity|exact Hs'].
Qed.

Lemma vars_loop_ok (op : lop) (a : cfg) : lop_ok op -> in_range n a ->
  forall vs s outs, in_range n vs -> Clean C s ->
  exists s' outs', vars_loop op a vs s outs = AOk (s', outs') /\ Clean C s'.
Proof.
  intros Hop Ha. induction vs as [|x vs IH]; intros s outs Hvs Hs; cbn [vars_loop].
  - eexists _, _. split; [reflexivity|exact Hs].
  - assert (Hx : 1 <= Z.abs x <= Z.of_nat n) by (apply Hvs; now left).
    destruct (Hop (a ++ [x]) true s (in_range_app1 n a x Ha Hx) Hs) as [s' [r [-> Hs']]].
    { intros _ E. destruct a; discriminate. }
    apply IH; [intros l Hl; apply Hvs; now right|exact Hs'].
Qed.

Lemma op_with_ok (op : lop) (a v : cfg) (s : scratch) :
  lop_ok op -> in_range n a -> in_range n v -> Clean C s ->
  exists s' out, op_with op a v s = AOk (s', out) /\ Clean C s'.
Proof.
  intros Hop Ha Hv Hs. unfold op_with. destruct v as [|x v].
  - destruct (Hop a false s Ha Hs) as [s' [r [-> Hs']]]; [discriminate|].
    destruct r; eexists _, _; (split; [reflexivity|exact Hs']).
  - destruct (vars_loop_ok op a Hop Ha (x :: v) s [] Hv Hs) as [s' [outs [-> Hs']]].
    eexists _, _. split; [reflexivity|exact Hs'].
Qed.

(* ---- the rendered answers ---- *)
Definition per_var (f : cfg -> option string) (a v : cfg) : list string :=
  flat_map (fun x => match f (a ++ [x]) with Some t => [t] | None => [] end) v.

Lemma vars_loop_render (op : lop) (f : cfg -> option string) (a : cfg) :
  (forall x s, 1 <= Z.abs x <= Z.of_nat n -> Clean C s ->
     exists s', op (a ++ [x]) true s = AOk (s', f (a ++ [x])) /\ Clean C s') ->
  forall vs s outs, in_range n vs -> Clean C s ->
  exists s', vars_loop op a vs s outs = AOk (s', outs ++ per_var f a vs) /\ Clean C s'.
Proof.
  intros Hop. induction vs as [|x vs IH]; intros s outs Hvs Hs; cbn [vars_loop per_var flat_map].
  - exists s. rewrite app_nil_r. auto.
  - assert (Hx : 1 <= Z.abs x <= Z.of_nat n) by (apply Hvs; now left).
    destruct (Hop x s Hx Hs) as [s' [-> Hs']].
    destruct (IH s' (match f (a ++ [x]) with Some t => outs ++ [t] | None => outs end))
      as [s'' [-> Hs'']]; [intros l Hl; apply Hvs; now right|exact Hs'|].
    exists s''. split; [|exact Hs'']. f_equal. f_equal. unfold per_var.
    destruct (f (a ++ [x])); [rewrite <- app_assoc; reflexivity|reflexivity].
Qed.

(* count: every field is the truth-table count *)
Definition count_answer (a v : cfg) : string :=
  match v with
  | [] => zstr (MCA C n a)
  | _ => join ";" (map (fun x => zstr (MCA C n (a ++ [x]))) v)
  end.

Lemma per_var_total (g : cfg -> string) (a v : cfg) :
  per_var (fun A => Some (g A)) a v = map (fun x => g (a ++ [x])) v.
Proof. unfold per_var. induction v as [|x v IH]; cbn; [reflexivity|now rewrite IH]. Qed.

Lemma op_with_count (a v : cfg) (s : scratch) : in_range n a -> in_range n v -> Clean C s ->
  exists s', op_with (op_count d) a v s = AOk (s', count_answer a v) /\ Clean C s'.
Proof.
  intros Ha Hv Hs. unfold op_with, count_answer. destruct v as [|x v].
  - unfold op_count. destruct (exq a s Ha Hs) as [s' [-> Hs']]. exists s'. auto.
  - destruct (vars_loop_render (op_count d) (fun A => Some (zstr (MCA C n A))) a) with
      (vs := x :: v) (s := s) (outs := @nil string) as [s' [-> Hs']]; [|exact Hv|exact Hs|].
    + intros y s0 Hy Hs0. unfold op_count.
      destruct (exq (a ++ [y]) s0 (in_range_app1 n a y Ha Hy) Hs0) as [s1 [-> Hs1]]. exists s1. auto.
    + exists s'. split; [|exact Hs']. cbn [app]. now rewrite per_var_total.
Qed.

(* sat *)
Definition sat_answer (a v : cfg) : string :=
  match v with
  | [] => bstr (0 <? MCA C n a)
  | _ => join ";" (map (fun x => bstr (0 <? MCA C n (a ++ [x]))) v)
  end.

Lemma op_with_sat (a v : cfg) (s : scratch) : 0 < root_count C ->
  in_range n a -> in_range n v -> Clean C s ->
  op_with (op_sat d) a v s = AOk (s, sat_answer a v).
Proof.
  intros Hrc Ha Hv Hs. unfold op_with, sat_answer. destruct v as [|x v].
  - unfold op_sat. now rewrite (sat_correct C n a HQ Hrc Ha).
  - destruct (vars_loop_render (op_sat d) (fun A => Some (bstr (0 <? MCA C n A))) a) with
      (vs := x :: v) (s := s) (outs := @nil string) as [s' [H Hs']]; [|exact Hv|exact Hs|].
    + intros y s0 Hy Hs0. unfold op_sat. exists s0.
      rewrite (sat_correct C n (a ++ [y]) HQ Hrc (in_range_app1 n a y Ha Hy)). auto.
    + (* the state is unchanged: op_sat never touches it *)
      assert (Hst : forall vs s0 outs s1 o, vars_loop (op_sat d) a vs s0 outs = AOk (s1, o) -> s1 = s0).
      { induction vs as [|y vs IH]; intros s0 outs s1 o E; cbn [vars_loop] in E.
        - now injection E as <- _.
        - unfold op_sat at 1 in E. exact (IH _ _ _ _ E). }
      rewrite H. rewrite (Hst _ _ _ _ _ H). cbn [app]. now rewrite per_var_total.
Qed.

(* core *)
Definition core_answer (a v : cfg) : string :=
  match v with
  | [] => format_vec (sort_z (match a with [] => core d | _ => core_dead_sem C n a end))
  | _ => join ";" (per_var (fun A => match rev A with
                                     | x :: _ => if MCA C n A =? MCA C n (removelast A)
                                                 then Some (zstr x) else None
                                     | [] => None
                                     end) a v)
  end.

Lemma op_with_core (a v : cfg) (s : scratch) : in_range n a -> in_range n v -> Clean C s ->
  exists s', op_with (op_core d) a v s = AOk (s', core_answer a v) /\ Clean C s'.
Proof.
  intros Ha Hv Hs. unfold op_with, core_answer. destruct v as [|x v].
  - unfold op_core. destruct (core_dead_clean a s Ha Hs) as [s' [c [-> [Hs' ->]]]].
    exists s'. auto.
  - match goal with |- context [per_var ?f a (x :: v)] => set (F := f) end.
    destruct (vars_loop_render (op_core d) F a) with
      (vs := x :: v) (s := s) (outs := @nil string) as [s' [-> Hs']]; [|exact Hv|exact Hs|].
    + intros y s0 Hy Hs0. unfold op_core, F. rewrite rev_unit.
      rewrite rev_involutive. rewrite removelast_last.
      destruct (exq a s0 Ha Hs0) as [s1 [-> Hs1]].
      destruct (exq (a ++ [y]) s1 (in_range_app1 n a y Ha Hy) Hs1) as [s2 [-> Hs2]].
      exists s2. auto.
    + exists s'. auto.
Qed.

(* ---- preprocess keeps Clean ---- *)
Lemma fold_upd_len {A} (f : list A -> Z -> list A) :
  (forall t l, length (f t l) = length t) ->
  forall (ls : cfg) t, length (fold_left f ls t) = length t.
Proof. intros Hf. induction ls as [|l ls IH]; intros t; cbn [fold_left]; [reflexivity|]. now rewrite IH, Hf. Qed.

Lemma preprocess_clean (A : cfg) (s s1 : scratch) :
  preprocess d A s = Some s1 -> Clean C s -> Clean C s1.
Proof.
  unfold preprocess. destruct (existsb _ A); [discriminate|]. intros E Hs. injection E as <-.
  destruct Hs as [H1 H2 H3 H4 H5]. constructor; cbn [temps marks pds mdl]; try assumption.
  rewrite fold_upd_length. rewrite fold_upd_len.
  - cbn [cnts build]. apply counts_length.
  - intros t l. destruct (lit_idx _ _); [apply upd_length|reflexivity].
Qed.

Lemma preprocess_in_range (A : cfg) (s s1 : scratch) :
  preprocess d A s = Some s1 -> forall f, In f A -> Z.abs f <= Z.of_nat n.
Proof.
  unfold preprocess. destruct (existsb _ A) eqn:E; [discriminate|]. intros _ f Hf.
  destruct (Z.ltb_spec (Z.of_nat (nv d)) (Z.abs f)) as [Hlt|Hge]; [|exact Hge].
  exfalso. assert (existsb (fun f0 => Z.of_nat (nv d) <? Z.abs f0) A = true).
  { apply existsb_exists. exists f. split; [exact Hf|]. now apply Z.ltb_lt. }
  congruence.
Qed.

(* Ddnnf::enumerate: the model and the cache stay; the scratch state stays Clean; the cursor
   only moves when configurations are returned *)
Lemma enumerate_state (A : cfg) (amount : Z) (c : cursor) (s : scratch) :
  in_range n A -> Clean C s ->
  let '(s', c', r) := enumerate d A amount c s in
  Clean C s' /\ (r = None -> c' = c).
Proof.
  intros HA Hs. unfold enumerate. destruct (amount =? 0); [auto|].
  destruct (preprocess d A s) as [s1|] eqn:Hp; [|auto].
  pose proof (preprocess_clean A s s1 Hp Hs) as Hs1.
  destruct (exq (enum_key A) s1 (in_range_enum_key n A HA) Hs1) as [s2 [-> Hs2]].
  destruct (0 <? MCA C n (enum_key A)); [split; [exact Hs2|discriminate]|auto].
Qed.

Lemma sampling_state (A : cfg) (amount : Z) (chs : list choice) (s : scratch) :
  in_range n A -> Clean C s ->
  let '(s', _, _) := uniform_random_sampling d A amount chs s in Clean C s'.
Proof.
  intros HA Hs. unfold uniform_random_sampling.
  destruct (preprocess d A s) as [s1|] eqn:Hp; [|exact Hs].
  pose proof (preprocess_clean A s s1 Hp Hs) as Hs1.
  destruct (exq A s1 HA Hs1) as [s2 [-> Hs2]].
  destruct (0 <? MCA C n A); [|exact Hs2].
  destruct (sample_node _ _ _ _ _ _) as [[l rest] ok]. exact Hs2.
Qed.

End Model.

(* ================================================================ the dispatch *)
Record wf_sstate {CC : Type} (C : circuit) (n : nat) (st : sstate CC) : Prop := {
  wf_dd : dd st = build C n;
  wf_wfq : WFQ C n;
  wf_clean : Clean C (sc st);
  wf_n : Z.of_nat n <= i32_max;
}.

(* the plugged operations do not panic (their own properties: C08, C09, C10, C12) *)
Record ext_total {CC : Type} (X : extops CC) : Prop := {
  xt_conf : forall cc x, exists b, x_conflicting X cc x = AOk b;
  xt_atomic : forall d cr ca a s, exists r, x_atomic X d cr ca a s = AOk r;
  xt_twise : forall d t fs s, exists r, x_twise X d t fs s = AOk r;
  xt_update : forall d cc ad rm t s, exists r, x_update X d cc ad rm t s = AOk r;
  xt_undo : forall d cc s, exists r, x_undo X d cc s = AOk r;
  xt_save_ddnnf : forall d p, exists r, x_save_ddnnf X d p = AOk r;
  xt_save_cnf : forall cc t p, exists r, x_save_cnf X cc t p = AOk r;
}.

(* the plugged queries keep the scratch state Clean; a refused update / undo changes nothing *)
Record ext_keeps {CC : Type} (X : extops CC) (C : circuit) : Prop := {
  xk_atomic : forall d cr ca a s s' out, Clean C s -> x_atomic X d cr ca a s = AOk (s', out) -> Clean C s';
  xk_twise : forall d t fs s s' out, Clean C s -> x_twise X d t fs s = AOk (s', out) -> Clean C s';
  xk_update : forall d cc ad rm t s d' s' cc', Clean C s ->
      x_update X d cc ad rm t s = AOk (d', s', cc', false) -> d' = d /\ cc' = cc /\ Clean C s';
  xk_undo : forall d cc s d' s' cc', Clean C s ->
      x_undo X d cc s = AOk (d', s', cc', false) -> d' = d /\ cc' = cc /\ Clean C s';
}.

(* the two partial operations of Ddnnf::enumerate that F2 does not touch: `stop % rt` and
   `range.1 - range.0`.  They are safe when the cursor of the request's assumption set does not
   exceed the count under these assumptions -- true for a cursor left by enum requests on this
   model (C06), false for one left behind by another model (finding K2) -- and the root's temp
   is not hidden (the root is not a true node). *)
Definition enum_safe (d : ddnnf) (c : cursor) (s : scratch) (A : cfg) : Prop :=
  forall s1 s2 r, preprocess d A s = Some s1 -> execute_query d (enum_key A) s1 = (s2, r) -> 0 < r ->
    0 < rt d s2 /\ 0 <= cur_get c (enum_key A) <= Z.min (rt d s2) u64_max.

Definition enum_limit (d : ddnnf) (p : parsed) : Z :=
  match p_limit p with Some l => l | None => if 1000 <? rc d then 1000 else rc d end.

Lemma enumerate_chk_v1 (dbg : bool) (d : ddnnf) (A : cfg) (amount : Z) (c : cursor) (s : scratch) :
  0 <= amount <= u64_max -> enum_safe d c s A ->
  exists am, enumerate_chk V1 dbg d A amount c s = EOk (enumerate d A am c s) /\
             (cur_get c (enum_key A) + amount <= u64_max -> am = amount).
Proof.
  intros Ham Hsafe. unfold enumerate_chk.
  destruct (amount =? 0) eqn:E0; [exists amount; auto|].
  destruct (preprocess d A s) as [s1|] eqn:Hp; [|exists amount; auto].
  destruct (execute_query d (enum_key A) s1) as [s2 r] eqn:Hq.
  destruct (0 <? r) eqn:Hr; [|exists amount; auto].
  apply Z.ltb_lt in Hr. destruct (Hsafe s1 s2 r Hp Hq Hr) as [Hrt Hcur].
  cbn [add_usize].
  set (last := cur_get c (enum_key A)) in *. set (rtv := rt d s2) in *.
  set (sum := Z.min (last + amount) u64_max). set (stop := Z.min rtv sum).
  assert (Hu : 0 < u64_max) by (unfold u64_max; lia).
  assert (Hsum : last <= sum <= u64_max) by (unfold sum; lia).
  assert (Hstop : last <= stop <= u64_max) by (unfold stop; lia).
  assert (Hmod : 0 <= stop mod rtv < rtv) by (apply Z.mod_pos_bound; lia).
  assert (Hmod2 : stop mod rtv <= stop) by (apply Z.mod_le; lia).
  replace (rtv =? 0) with false by (symmetry; apply Z.eqb_neq; lia).
  replace ((stop mod rtv <? 0) || (u64_max <? stop mod rtv)) with false
    by (symmetry; apply orb_false_iff; split; apply Z.ltb_ge; lia).
  replace ((last <? 0) || (u64_max <? last) || (stop <? 0) || (u64_max <? stop)) with false
    by (symmetry; repeat (apply orb_false_iff; split); apply Z.ltb_ge; lia).
  replace (stop <? last) with false by (symmetry; apply Z.ltb_ge; lia).
  cbn [andb]. exists (sum - last). split; [reflexivity|]. intros Hfit. unfold sum. lia.
Qed.

Section Dispatch.
Context {CC : Type} (X : extops CC) (C : circuit) (n : nat).
Local Open Scope string_scope.
Local Open Scope Z_scope.

Definition mutating (cmd : string) : bool :=
  String.eqb cmd "enum" || String.eqb cmd "clause-update" || String.eqb cmd "undo-update".

Definition same_model (st st' : sstate CC) : Prop :=
  dd st' = dd st /\ cur st' = cur st /\ cache st' = cache st /\ Clean C (sc st').

(* the fourteen cases of `match args[0]` *)
Lemma cmd_cases (cmd : string) :
  cmd = "core" \/ cmd = "count" \/ cmd = "sat" \/ cmd = "enum" \/ cmd = "random" \/
  cmd = "atomic" \/ cmd = "atomic-cross" \/ cmd = "t-wise" \/ cmd = "clause-update" \/
  cmd = "undo-update" \/ cmd = "exit" \/ cmd = "save-cnf" \/ cmd = "save-ddnnf" \/
  (String.eqb cmd "core" = false /\ String.eqb cmd "count" = false /\ String.eqb cmd "sat" = false /\
   String.eqb cmd "enum" = false /\ String.eqb cmd "random" = false /\ String.eqb cmd "atomic" = false /\
   String.eqb cmd "atomic-cross" = false /\ String.eqb cmd "t-wise" = false /\
   String.eqb cmd "clause-update" = false /\ String.eqb cmd "undo-update" = false /\
   String.eqb cmd "exit" = false /\ String.eqb cmd "save-cnf" = false /\ String.eqb cmd "save-ddnnf" = false).
Proof.
  repeat match goal with
  | |- cmd = ?s \/ _ => destruct (String.eqb cmd s) eqn:?E;
                        [left; now apply String.eqb_eq|right]
  end.
  repeat split; assumption.
Qed.


(* ---- what exec does for each command (by computation on the command word) ---- *)
Definition mkrq (cmd : string) (tf : Z) (p : parsed) : request := {| r_cmd := cmd; r_total := tf; r_args := p |}.

Lemma exec_core ver dbg tf p chs (st : sstate CC) :
  exec X ver dbg (mkrq "core" tf p) chs st =
  (lib_answer st (op_with (op_core (dd st)) (p_params p) (p_values p) (sc st)), true).
Proof. reflexivity. Qed.
Lemma exec_count ver dbg tf p chs (st : sstate CC) :
  exec X ver dbg (mkrq "count" tf p) chs st =
  (lib_answer st (op_with (op_count (dd st)) (p_params p) (p_values p) (sc st)), true).
Proof. reflexivity. Qed.
Lemma exec_sat ver dbg tf p chs (st : sstate CC) :
  exec X ver dbg (mkrq "sat" tf p) chs st =
  (lib_answer st (op_with (op_sat (dd st)) (p_params p) (p_values p) (sc st)), true).
Proof. reflexivity. Qed.
Lemma exec_random ver dbg tf p chs (st : sstate CC) :
  exec X ver dbg (mkrq "random" tf p) chs st =
  (let l := match p_limit p with Some l => l | None => 1%Z end in
   let '(s', r, fits) := uniform_random_sampling (dd st) (p_params p) l chs (sc st) in
   match r with
   | Some cfgs => (keep st s', SOk (format_vec_vec cfgs), fits)
   | None => (keep st s', SErr E5 unsat_text, fits)
   end).
Proof. reflexivity. Qed.
Lemma exec_enum ver dbg tf p chs (st : sstate CC) :
  exec X ver dbg (mkrq "enum" tf p) chs st =
  (let d := dd st in
   let lim := match p_limit p with
              | Some l => Some l
              | None => (if 1000 <? rc d then Some 1000
                        else if (rc d <? 0) || (u64_max <? rc d) then None else Some (rc d))%Z
              end in
   match lim with
   | None => (st, SPanic "rc().to_usize().expect", true)
   | Some l =>
     match enumerate_chk ver dbg d (p_params p) l (cur st) (sc st) with
     | EPanic site => (st, SPanic site, true)
     | EOk (s', c', Some cfgs) =>
       ({| dd := d; sc := s'; cur := c'; cache := cache st |}, SOk (format_vec_vec cfgs), true)
     | EOk (s', c', None) =>
       ({| dd := d; sc := s'; cur := c'; cache := cache st |}, SErr E5 unsat_text, true)
     end
   end).
Proof. reflexivity. Qed.
Lemma exec_exit ver dbg tf p chs (st : sstate CC) :
  exec X ver dbg (mkrq "exit" tf p) chs st = (st, SOk "exit", true).
Proof. reflexivity. Qed.
Lemma exec_other ver dbg cmd tf p chs (st : sstate CC) :
  String.eqb cmd "core" = false -> String.eqb cmd "count" = false -> String.eqb cmd "sat" = false ->
  String.eqb cmd "enum" = false -> String.eqb cmd "random" = false -> String.eqb cmd "atomic" = false ->
  String.eqb cmd "atomic-cross" = false -> String.eqb cmd "t-wise" = false ->
  String.eqb cmd "clause-update" = false -> String.eqb cmd "undo-update" = false ->
  String.eqb cmd "exit" = false -> String.eqb cmd "save-cnf" = false -> String.eqb cmd "save-ddnnf" = false ->
  exec X ver dbg (mkrq cmd tf p) chs st =
  (st, SErr E2 ("E2 error: the operation " ++ quote cmd ++ " is not supported"), true).
Proof.
  intros H1 H2 H3 H4 H5 H6 H7 H8 H9 H10 H11 H12 H13. unfold exec. cbn [r_cmd mkrq].
  rewrite H1, H2, H3, H4, H5, H6, H7, H8, H9, H10, H11, H12, H13. reflexivity.
Qed.


Ltac run_cmd := cbv beta iota zeta delta [exec String.eqb Ascii.eqb Bool.eqb r_cmd r_total r_args mkrq orb].

(* ---- no partial operation fails ---- *)
Theorem exec_no_panic dbg rq chs (st : sstate CC) :
  wf_sstate C n st -> ext_total X -> parsed_ok (r_total rq) (r_args rq) ->
  (r_cmd rq <> "clause-update" -> r_total rq = Z.of_nat n) ->
  (r_cmd rq = "enum" -> enum_safe (dd st) (cur st) (sc st) (p_params (r_args rq))) ->
  forall site, snd (fst (exec X V1 dbg rq chs st)) <> SPanic site.
Proof.
  intros [Hdd HQ Hcl Hn] HX Hp Htf Hsafe site. destruct rq as [cmd tf p]. cbn [r_cmd r_total r_args] in *.
  destruct Hp as [Hpa Hpv Hps Hpl _ _].
  assert (Hlib : cmd <> "clause-update" -> in_range n (p_params p) /\ in_range n (p_values p)).
  { intros Hc. rewrite (Htf Hc) in Hpa, Hpv. split; now apply nums_ok_in_range. }
  destruct (cmd_cases cmd) as [->|[->|[->|[->|[->|[->|[->|[->|[->|[->|[->|[->|[->|Hno]]]]]]]]]]]]].
  - destruct Hlib as [Ha Hv]; [discriminate|]. fold (mkrq "core" tf p). rewrite exec_core, Hdd.
    destruct (op_with_ok C n _ _ _ _ (op_core_ok C n HQ) Ha Hv Hcl) as [s' [out [-> _]]]. discriminate.
  - destruct Hlib as [Ha Hv]; [discriminate|]. fold (mkrq "count" tf p). rewrite exec_count, Hdd.
    destruct (op_with_ok C n _ _ _ _ (op_count_ok C n HQ) Ha Hv Hcl) as [s' [out [-> _]]]. discriminate.
  - destruct Hlib as [Ha Hv]; [discriminate|]. fold (mkrq "sat" tf p). rewrite exec_sat, Hdd.
    destruct (op_with_ok C n _ _ _ _ (op_sat_ok C n) Ha Hv Hcl) as [s' [out [-> _]]]. discriminate.
  - fold (mkrq "enum" tf p). rewrite exec_enum. cbv zeta.
    assert (Hrc : 0 <= rc (dd st)) by (rewrite Hdd; apply rc_nonneg, HQ).
    assert (Hlim : exists l, 0 <= l <= u64_max /\
              match p_limit p with
              | Some l => Some l
              | None => if 1000 <? rc (dd st) then Some 1000
                        else if (rc (dd st) <? 0) || (u64_max <? rc (dd st)) then None else Some (rc (dd st))
              end = Some l).
    { destruct (p_limit p) as [l|] eqn:El.
      - exists l. split; [apply Hpl; reflexivity|reflexivity].
      - destruct (1000 <? rc (dd st)) eqn:E1.
        + exists 1000. split; [unfold u64_max; lia|reflexivity].
        + apply Z.ltb_ge in E1. exists (rc (dd st)).
          replace (rc (dd st) <? 0) with false by (symmetry; apply Z.ltb_ge; lia).
          replace (u64_max <? rc (dd st)) with false by (symmetry; apply Z.ltb_ge; unfold u64_max; lia).
          split; [unfold u64_max; lia|reflexivity]. }
    destruct Hlim as [l [Hl ->]].
    destruct (enumerate_chk_v1 dbg (dd st) (p_params p) l (cur st) (sc st) Hl (Hsafe eq_refl)) as [am [-> _]].
    destruct (enumerate _ _ _ _ _) as [[s' c'] [cfgs|]]; discriminate.
  - fold (mkrq "random" tf p). rewrite exec_random. cbv zeta.
    destruct (uniform_random_sampling _ _ _ _ _) as [[s' [cfgs|]] fits]; discriminate.
  - run_cmd. destruct (existsb _ (p_values p)); [discriminate|].
    match goal with |- context [x_atomic X ?a ?b ?c ?e ?f] => destruct (xt_atomic X HX a b c e f) as [[s' o] ->] end.
    discriminate.
  - run_cmd. destruct (existsb _ (p_values p)); [discriminate|].
    match goal with |- context [x_atomic X ?a ?b ?c ?e ?f] => destruct (xt_atomic X HX a b c e f) as [[s' o] ->] end.
    discriminate.
  - run_cmd. destruct (p_fitness p) as [|f0 fs].
    + match goal with |- context [x_twise X ?a ?b ?c ?e] => destruct (xt_twise X HX a b c e) as [[s' o] ->] end.
      discriminate.
    + destruct (Nat.eqb _ _); [|discriminate].
      match goal with |- context [x_twise X ?a ?b ?c ?e] => destruct (xt_twise X HX a b c e) as [[s' o] ->] end.
      discriminate.
  - run_cmd. destruct (cache st) as [cc|]; [|discriminate].
    match goal with |- context [x_update X ?a ?b ?c ?e ?f ?g] => destruct (xt_update X HX a b c e f g) as [[[[d' s'] cc'] [|]] ->] end;
    discriminate.
  - run_cmd. destruct (cache st) as [cc|]; [|discriminate].
    match goal with |- context [x_undo X ?a ?b ?c] => destruct (xt_undo X HX a b c) as [[[[d' s'] cc'] [|]] ->] end;
    discriminate.
  - fold (mkrq "exit" tf p). rewrite exec_exit. discriminate.
  - run_cmd. destruct (sempty (p_path p)); [discriminate|]. destruct (negb _); [discriminate|].
    destruct (cache st) as [cc|]; [|discriminate].
    match goal with |- context [x_save_cnf X ?a ?b ?c] => destruct (xt_save_cnf X HX a b c) as [[e|] ->] end; discriminate.
  - run_cmd. destruct (sempty (p_path p)); [discriminate|]. destruct (negb _); [discriminate|].
    match goal with |- context [x_save_ddnnf X ?a ?b] => destruct (xt_save_ddnnf X HX a b) as [[e|] ->] end; discriminate.
  - destruct Hno as [H1 [H2 [H3 [H4 [H5 [H6 [H7 [H8 [H9 [H10 [H11 [H12 H13]]]]]]]]]]]].
    fold (mkrq cmd tf p). rewrite exec_other by assumption. discriminate.
Qed.


(* ---- every error text starts with its code (all versions, both profiles) ---- *)
Theorem exec_err_ok ver dbg rq chs (st : sstate CC) c t :
  snd (fst (exec X ver dbg rq chs st)) = SErr c t -> err_ok c t.
Proof.
  destruct rq as [cmd tf p].
  assert (Hlib : forall r, snd (lib_answer st r) = SErr c t -> err_ok c t).
  { intros [[s' o]|site]; cbn; discriminate. }
  destruct (cmd_cases cmd) as [->|[->|[->|[->|[->|[->|[->|[->|[->|[->|[->|[->|[->|Hno]]]]]]]]]]]]].
  - fold (mkrq "core" tf p). rewrite exec_core. apply Hlib.
  - fold (mkrq "count" tf p). rewrite exec_count. apply Hlib.
  - fold (mkrq "sat" tf p). rewrite exec_sat. apply Hlib.
  - fold (mkrq "enum" tf p). rewrite exec_enum. cbv zeta.
    destruct (match p_limit p with Some l => Some l | None => _ end) as [l|]; [|discriminate].
    destruct (enumerate_chk _ _ _ _ _ _ _) as [[[s' c'] [cfgs|]]|site]; cbn; try discriminate.
    intros E. injection E as <- <-. reflexivity.
  - fold (mkrq "random" tf p). rewrite exec_random. cbv zeta.
    destruct (uniform_random_sampling _ _ _ _ _) as [[s' [cfgs|]] fits]; cbn; try discriminate.
    intros E. injection E as <- <-. reflexivity.
  - run_cmd. destruct (existsb _ (p_values p)).
    + cbn. intros E. injection E as <- <-. reflexivity.
    + apply Hlib.
  - run_cmd. destruct (existsb _ (p_values p)).
    + cbn. intros E. injection E as <- <-. reflexivity.
    + apply Hlib.
  - run_cmd. destruct (p_fitness p) as [|f0 fs]; [apply Hlib|].
    destruct (Nat.eqb _ _); [apply Hlib|]. cbn. intros E. injection E as <- <-. reflexivity.
  - run_cmd. destruct (cache st) as [cc|].
    + destruct (x_update _ _ _ _ _ _ _) as [[[[d' s'] cc'] [|]]|site]; cbn; try discriminate.
      intros E. injection E as <- <-. reflexivity.
    + cbn. intros E. injection E as <- <-. reflexivity.
  - run_cmd. destruct (cache st) as [cc|].
    + destruct (x_undo _ _ _ _) as [[[[d' s'] cc'] [|]]|site]; cbn; try discriminate.
      intros E. injection E as <- <-. reflexivity.
    + cbn. intros E. injection E as <- <-. reflexivity.
  - fold (mkrq "exit" tf p). rewrite exec_exit. discriminate.
  - run_cmd. destruct (sempty (p_path p)); [cbn; intros E; injection E as <- <-; reflexivity|].
    destruct (negb _); [cbn; intros E; injection E as <- <-; reflexivity|].
    destruct (cache st) as [cc|]; [|cbn; intros E; injection E as <- <-; reflexivity].
    destruct (x_save_cnf _ _ _ _) as [[e|]|site]; cbn; try discriminate.
    intros E. injection E as <- <-. reflexivity.
  - run_cmd. destruct (sempty (p_path p)); [cbn; intros E; injection E as <- <-; reflexivity|].
    destruct (negb _); [cbn; intros E; injection E as <- <-; reflexivity|].
    destruct (x_save_ddnnf _ _ _) as [[e|]|site]; cbn; try discriminate.
    intros E. injection E as <- <-. reflexivity.
  - destruct Hno as [H1 [H2 [H3 [H4 [H5 [H6 [H7 [H8 [H9 [H10 [H11 [H12 H13]]]]]]]]]]]].
    fold (mkrq cmd tf p). rewrite exec_other by assumption. cbn. intros E. injection E as <- <-. reflexivity.
Qed.

Lemma enumerate_chk_shape ver dbg d A amount c s r :
  enumerate_chk ver dbg d A amount c s = EOk r -> exists am, r = enumerate d A am c s.
Proof.
  unfold enumerate_chk. destruct (amount =? 0); [intros E; injection E as <-; eauto|].
  destruct (preprocess d A s); [|intros E; injection E as <-; eauto].
  destruct (execute_query d (enum_key A) s0) as [s2 r0].
  destruct (0 <? r0); [|intros E; injection E as <-; eauto].
  destruct (add_usize _ _ _ _); [|discriminate].
  repeat match goal with |- (if ?b then _ else _) = _ -> _ => destruct b; [discriminate|] end.
  intros E; injection E as <-; eauto.
Qed.

(* ---- what a line may change ---- *)
Definition state_post (st st' : sstate CC) (o : soutcome) (cmd : string) : Prop :=
  (mutating cmd = false -> same_model st st') /\
  (forall c t, o = SErr c t -> same_model st st') /\
  (forall site, o = SPanic site -> st' = st) /\
  (cmd = "enum" -> dd st' = dd st /\ cache st' = cache st /\ Clean C (sc st')).

Lemma post_same st st' o cmd :
  same_model st st' -> (forall site, o = SPanic site -> st' = st) -> state_post st st' o cmd.
Proof.
  intros H Hp. split; [intros _; exact H|]. split; [intros _ _ _; exact H|]. split; [exact Hp|].
  intros _. destruct H as [H1 [_ [H3 H4]]]. auto.
Qed.
Lemma post_ok_mut st st' out cmd :
  mutating cmd = true ->
  (cmd = "enum" -> dd st' = dd st /\ cache st' = cache st /\ Clean C (sc st')) ->
  state_post st st' (SOk out) cmd.
Proof.
  intros Hm He. split; [congruence|]. split; [discriminate|]. split; [discriminate|exact He].
Qed.
Lemma same_refl st : Clean C (sc st) -> same_model st st.
Proof. intros H. unfold same_model. auto. Qed.
Lemma same_keep st s' : Clean C s' -> same_model st (keep st s').
Proof. intros H. unfold same_model, keep. cbn. auto. Qed.

Theorem exec_state dbg rq chs (st : sstate CC) :
  wf_sstate C n st -> ext_keeps X C -> parsed_ok (r_total rq) (r_args rq) ->
  (r_cmd rq <> "clause-update" -> r_total rq = Z.of_nat n) ->
  let '(st', o, _) := exec X V1 dbg rq chs st in state_post st st' o (r_cmd rq).
Proof.
  intros [Hdd HQ Hcl Hn] HK Hp Htf. destruct rq as [cmd tf p]. cbn [r_cmd r_total r_args] in *.
  destruct Hp as [Hpa Hpv _ _ _ _].
  assert (Hlib : cmd <> "clause-update" -> in_range n (p_params p) /\ in_range n (p_values p)).
  { intros Hc. rewrite (Htf Hc) in Hpa, Hpv. split; now apply nums_ok_in_range. }
  pose proof (same_refl st Hcl) as Hsame.
  assert (Hans : forall cmd0 op, lop_ok C n op -> in_range n (p_params p) -> in_range n (p_values p) ->
            let '(st', o) := lib_answer st (op_with op (p_params p) (p_values p) (sc st)) in
            state_post st st' o cmd0).
  { intros cmd0 op Hop Ha Hv. destruct (op_with_ok C n op _ _ _ Hop Ha Hv Hcl) as [s' [out [-> Hs']]].
    cbn [lib_answer]. apply post_same; [apply same_keep, Hs'|discriminate]. }
  assert (Hstay : forall o cmd0, (forall site, o <> SPanic site) \/ True -> state_post st st o cmd0).
  { intros o cmd0 _. apply post_same; [exact Hsame|reflexivity]. }
  destruct (cmd_cases cmd) as [->|[->|[->|[->|[->|[->|[->|[->|[->|[->|[->|[->|[->|Hno]]]]]]]]]]]]].
  - destruct Hlib as [Ha Hv]; [discriminate|]. fold (mkrq "core" tf p). rewrite exec_core, Hdd.
    exact (Hans "core" _ (op_core_ok C n HQ) Ha Hv).
  - destruct Hlib as [Ha Hv]; [discriminate|]. fold (mkrq "count" tf p). rewrite exec_count, Hdd.
    exact (Hans "count" _ (op_count_ok C n HQ) Ha Hv).
  - destruct Hlib as [Ha Hv]; [discriminate|]. fold (mkrq "sat" tf p). rewrite exec_sat, Hdd.
    exact (Hans "sat" _ (op_sat_ok C n) Ha Hv).
  - destruct Hlib as [Ha _]; [discriminate|]. fold (mkrq "enum" tf p). rewrite exec_enum. cbv zeta.
    destruct (match p_limit p with Some l => Some l | None => _ end) as [l|]; [|apply Hstay; auto].
    destruct (enumerate_chk V1 dbg (dd st) (p_params p) l (cur st) (sc st)) as [r|site] eqn:E;
      [|apply Hstay; auto].
    destruct (enumerate_chk_shape _ _ _ _ _ _ _ _ E) as [am ->].
    pose proof (enumerate_state C n HQ (p_params p) am (cur st) (sc st) Ha Hcl) as H. rewrite <- Hdd in H.
    destruct (enumerate (dd st) (p_params p) am (cur st) (sc st)) as [[s' c'] [cfgs|]]; destruct H as [Hs' Hc'].
    + apply post_ok_mut; [reflexivity|]. intros _. cbn [dd cache sc]. auto.
    + rewrite (Hc' eq_refl). apply post_same; [|discriminate]. unfold same_model. cbn [dd cache sc cur]. auto.
  - destruct Hlib as [Ha _]; [discriminate|]. fold (mkrq "random" tf p). rewrite exec_random. cbv zeta.
    pose proof (sampling_state C n HQ (p_params p) (match p_limit p with Some l => l | None => 1 end) chs (sc st) Ha Hcl) as H.
    rewrite <- Hdd in H.
    destruct (uniform_random_sampling _ _ _ _ _) as [[s' [cfgs|]] fits];
      (apply post_same; [apply same_keep, H|discriminate]).
  - run_cmd. destruct (existsb _ (p_values p)); [apply Hstay; auto|].
    destruct (x_atomic X _ _ _ _ _) as [[s' o]|site] eqn:E; cbn [lib_answer]; [|apply Hstay; auto].
    apply post_same; [apply same_keep, (xk_atomic X C HK _ _ _ _ _ _ _ Hcl E)|discriminate].
  - run_cmd. destruct (existsb _ (p_values p)); [apply Hstay; auto|].
    destruct (x_atomic X _ _ _ _ _) as [[s' o]|site] eqn:E; cbn [lib_answer]; [|apply Hstay; auto].
    apply post_same; [apply same_keep, (xk_atomic X C HK _ _ _ _ _ _ _ Hcl E)|discriminate].
  - run_cmd.
    assert (Htw : forall fs, let '(st', o) := lib_answer st (x_twise X (dd st) (match p_limit p with Some l => l | None => 1 end) fs (sc st)) in
              state_post st st' o "t-wise").
    { intros fs. destruct (x_twise X _ _ _ _) as [[s' o]|site] eqn:E; cbn [lib_answer]; [|apply Hstay; auto].
      apply post_same; [apply same_keep, (xk_twise X C HK _ _ _ _ _ _ Hcl E)|discriminate]. }
    destruct (p_fitness p) as [|f0 fs]; [exact (Htw [])|].
    destruct (Nat.eqb _ _); [exact (Htw (f0 :: fs))|apply Hstay; auto].
  - run_cmd. destruct (cache st) as [cc|] eqn:Ec; [|apply Hstay; auto].
    destruct (x_update X _ _ _ _ _ _) as [[[[d' s'] cc'] [|]]|site] eqn:E; [| |apply Hstay; auto].
    + apply post_ok_mut; [reflexivity|discriminate].
    + destruct (xk_update X C HK _ _ _ _ _ _ _ _ _ Hcl E) as [-> [-> Hs']].
      apply post_same; [|discriminate]. unfold same_model. cbn [dd cur cache sc]. rewrite Ec. auto.
  - run_cmd. destruct (cache st) as [cc|] eqn:Ec; [|apply Hstay; auto].
    destruct (x_undo X _ _ _) as [[[[d' s'] cc'] [|]]|site] eqn:E; [| |apply Hstay; auto].
    + apply post_ok_mut; [reflexivity|discriminate].
    + destruct (xk_undo X C HK _ _ _ _ _ _ Hcl E) as [-> [-> Hs']].
      apply post_same; [|discriminate]. unfold same_model. cbn [dd cur cache sc]. rewrite Ec. auto.
  - fold (mkrq "exit" tf p). rewrite exec_exit. apply Hstay; auto.
  - run_cmd. destruct (sempty (p_path p)); [apply Hstay; auto|].
    destruct (negb _); [apply Hstay; auto|].
    destruct (cache st) as [cc|]; [|apply Hstay; auto].
    destruct (x_save_cnf _ _ _ _) as [[e|]|site]; apply Hstay; auto.
  - run_cmd. destruct (sempty (p_path p)); [apply Hstay; auto|].
    destruct (negb _); [apply Hstay; auto|].
    destruct (x_save_ddnnf _ _ _) as [[e|]|site]; apply Hstay; auto.
  - destruct Hno as [H1 [H2 [H3 [H4 [H5 [H6 [H7 [H8 [H9 [H10 [H11 [H12 H13]]]]]]]]]]]].
    fold (mkrq cmd tf p). rewrite exec_other by assumption. apply Hstay; auto.
Qed.


(* ---- the answers ---- *)
Theorem exec_count_result ver dbg tf p chs (st : sstate CC) :
  wf_sstate C n st -> in_range n (p_params p) -> in_range n (p_values p) ->
  exists s', exec X ver dbg (mkrq "count" tf p) chs st
             = (keep st s', SOk (count_answer C n (p_params p) (p_values p)), true) /\ Clean C s'.
Proof.
  intros [Hdd HQ Hcl Hn] Ha Hv. rewrite exec_count, Hdd.
  destruct (op_with_count C n HQ _ _ _ Ha Hv Hcl) as [s' [-> Hs']]. exists s'. auto.
Qed.

Theorem exec_sat_result ver dbg tf p chs (st : sstate CC) :
  wf_sstate C n st -> 0 < root_count C -> in_range n (p_params p) -> in_range n (p_values p) ->
  exec X ver dbg (mkrq "sat" tf p) chs st
  = (keep st (sc st), SOk (sat_answer C n (p_params p) (p_values p)), true).
Proof.
  intros [Hdd HQ Hcl Hn] Hrc Ha Hv. rewrite exec_sat, Hdd.
  now rewrite (op_with_sat C n HQ _ _ _ Hrc Ha Hv Hcl).
Qed.

Theorem exec_core_result ver dbg tf p chs (st : sstate CC) :
  wf_sstate C n st -> in_range n (p_params p) -> in_range n (p_values p) ->
  exists s', exec X ver dbg (mkrq "core" tf p) chs st
             = (keep st s', SOk (core_answer C n (p_params p) (p_values p)), true) /\ Clean C s'.
Proof.
  intros [Hdd HQ Hcl Hn] Ha Hv. rewrite exec_core, Hdd.
  destruct (op_with_core C n HQ _ _ _ Ha Hv Hcl) as [s' [-> Hs']]. exists s'. auto.
Qed.

(* enum: the rendering of Ddnnf::enumerate (Model/Enumerate.v) with the requested amount, the
   default amount min(#models, 1000), saturated at usize::MAX - cursor *)
Theorem exec_enum_result dbg tf p chs (st : sstate CC) :
  wf_sstate C n st -> (forall l, p_limit p = Some l -> 0 <= l <= u64_max) ->
  enum_safe (dd st) (cur st) (sc st) (p_params p) ->
  exists am,
    (cur_get (cur st) (enum_key (p_params p)) + enum_limit (dd st) p <= u64_max -> am = enum_limit (dd st) p) /\
    exec X V1 dbg (mkrq "enum" tf p) chs st =
    (let '(s', c', r) := enumerate (dd st) (p_params p) am (cur st) (sc st) in
     ({| dd := dd st; sc := s'; cur := c'; cache := cache st |},
      match r with Some cfgs => SOk (format_vec_vec cfgs) | None => SErr E5 unsat_text end, true)).
Proof.
  intros [Hdd HQ Hcl Hn] Hpl Hsafe. rewrite exec_enum. cbv zeta.
  assert (Hrc : 0 <= rc (dd st)) by (rewrite Hdd; apply rc_nonneg, HQ).
  assert (Hlim : 0 <= enum_limit (dd st) p <= u64_max /\
            match p_limit p with
            | Some l => Some l
            | None => if 1000 <? rc (dd st) then Some 1000
                      else if (rc (dd st) <? 0) || (u64_max <? rc (dd st)) then None else Some (rc (dd st))
            end = Some (enum_limit (dd st) p)).
  { unfold enum_limit. destruct (p_limit p) as [l|] eqn:El.
    - split; [apply Hpl; reflexivity|reflexivity].
    - destruct (1000 <? rc (dd st)) eqn:E1.
      + split; [unfold u64_max; lia|reflexivity].
      + apply Z.ltb_ge in E1.
        replace (rc (dd st) <? 0) with false by (symmetry; apply Z.ltb_ge; lia).
        replace (u64_max <? rc (dd st)) with false by (symmetry; apply Z.ltb_ge; unfold u64_max; lia).
        split; [unfold u64_max; lia|reflexivity]. }
  destruct Hlim as [Hl ->].
  destruct (enumerate_chk_v1 dbg (dd st) (p_params p) _ (cur st) (sc st) Hl Hsafe) as [am [-> Ham]].
  exists am. split; [exact Ham|].
  destruct (enumerate _ _ _ _ _) as [[s' c'] [cfgs|]]; reflexivity.
Qed.

(*DISPATCH-MORE*)
End Dispatch.
