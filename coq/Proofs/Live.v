(* Live nodes and live literals (anomalies/core.rs live_literals, repair F22).
   Reach i : node i is the root or a child of a reachable node with a non-zero count;
   LiveN i : Reach i and the count of i is non-zero (what the downward sweep marks);
   LiveLit x : some live node is the literal x.
   Main facts (idx_ok only, no other well-formedness):
     live_lit_enum      : LiveLit x <-> x occurs in some configuration of enum_root C
     live_literals_spec : the sweep of Model/Query.v collects exactly the live literals
     core_In / core_enum_spec / core_live : what membership in calculate_core means. *)
From Coq Require Import List ZArith Bool Lia.
From DD Require Import Model.Circuit Model.Query Proofs.PassLemmas Proofs.Enum Proofs.Semantics.
Import ListNotations.
Open Scope Z_scope.

(* ================= lists ================= *)

Lemma live_upd_length {A} (i : nat) (x : A) (l : list A) : length (upd i x l) = length l.
Proof.
  revert i. induction l as [|h t IH]; intros i; [destruct i; reflexivity|].
  destruct i as [|i]; cbn [upd length]; [reflexivity|]. now rewrite IH.
Qed.

Lemma live_upd_nth_eq {A} (i : nat) (x d : A) (l : list A) :
  (i < length l)%nat -> nth i (upd i x l) d = x.
Proof.
  revert i. induction l as [|h t IH]; intros i Hi; [cbn in Hi; lia|].
  destruct i as [|i]; cbn [upd nth]; [reflexivity|]. apply IH. cbn in Hi. lia.
Qed.

Lemma live_upd_nth_neq {A} (i j : nat) (x d : A) (l : list A) :
  i <> j -> nth j (upd i x l) d = nth j l d.
Proof.
  revert i j. induction l as [|h t IH]; intros i j Hij; [destruct i; reflexivity|].
  destruct i as [|i], j as [|j]; cbn [upd nth]; try reflexivity; try lia.
  apply IH. lia.
Qed.

Lemma nth_map_false {A} (l : list A) (c : nat) : nth c (map (fun _ => false) l) false = false.
Proof. revert c. induction l as [|h t IH]; intros [|c]; cbn; auto. Qed.

Lemma live_prod_nonempty (Ls : list (list cfg)) :
  (forall L, In L Ls -> L <> []) -> exists r, In r (prod Ls).
Proof.
  induction Ls as [|L0 Ls IH]; intros Hne.
  - exists []. now left.
  - destruct IH as [r Hr]; [intros L HL; apply Hne; now right|].
    destruct L0 as [|y L1]; [exfalso; apply (Hne []); [now left|reflexivity]|].
    exists (y ++ r). apply in_prod_cons. exists y, r. split; [now left|now split].
Qed.

Lemma live_prod_factors (Ls : list (list cfg)) :
  prod Ls <> [] -> forall L, In L Ls -> L <> [].
Proof.
  induction Ls as [|L0 Ls IH]; intros Hne L HL; [destruct HL|].
  destruct (prod (L0 :: Ls)) as [|c R] eqn:E; [congruence|].
  assert (Hc : In c (prod (L0 :: Ls))) by (rewrite E; now left).
  apply in_prod_cons in Hc. destruct Hc as [x [r [Hx [Hr _]]]].
  destruct HL as [<-|HL].
  - intros ->. destruct Hx.
  - apply IH; [|exact HL]. intros Hnil. rewrite Hnil in Hr. destruct Hr.
Qed.

Lemma live_prod_extend (Ls : list (list cfg)) (L : list cfg) (x : cfg) :
  (forall L', In L' Ls -> L' <> []) -> In L Ls -> In x L ->
  exists c, In c (prod Ls) /\ incl x c.
Proof.
  induction Ls as [|L0 Ls IH]; intros Hne HL Hx; [destruct HL|].
  assert (Hne' : forall L', In L' Ls -> L' <> []) by (intros L' HL'; apply Hne; now right).
  destruct HL as [->|HL].
  - destruct (live_prod_nonempty Ls Hne') as [r Hr].
    exists (x ++ r). split; [|apply incl_appl, incl_refl].
    apply in_prod_cons. exists x, r. now repeat split.
  - destruct (IH Hne' HL Hx) as [r [Hr Hinc]].
    destruct L0 as [|y L1]; [exfalso; apply (Hne []); [now left|reflexivity]|].
    exists (y ++ r). split; [|apply incl_appr, Hinc].
    apply in_prod_cons. exists y, r. split; [now left|now split].
Qed.

Lemma live_in_prod (Ls : list (list cfg)) (c : cfg) (x : Z) :
  In c (prod Ls) -> In x c -> exists L y, In L Ls /\ In y L /\ In x y.
Proof.
  revert c. induction Ls as [|L0 Ls IH]; intros c Hc Hx.
  - cbn in Hc. destruct Hc as [<-|[]]. destruct Hx.
  - apply in_prod_cons in Hc. destruct Hc as [y [r [Hy [Hr ->]]]].
    apply in_app_iff in Hx. destruct Hx as [Hx|Hx].
    + exists L0, y. split; [now left|now split].
    + destruct (IH r Hr Hx) as [L [z [HL [Hz Hxz]]]].
      exists L, z. split; [now right|now split].
Qed.

Lemma in_lits_of_iff (C : circuit) (x : Z) : In x (lits_of C) <-> In (Lit x) C.
Proof.
  unfold lits_of. rewrite in_flat_map. split.
  - intros [nd [Hnd Hx]]. destruct nd as [l|cs|cs| |]; try (now destruct Hx).
    destruct Hx as [<-|[]]. exact Hnd.
  - intros H. exists (Lit x). split; [exact H|now left].
Qed.

(* ================= reachability ================= *)

Section Live.
Variable C : circuit.
Hypothesis Hok : idx_ok C = true.

Notation cnt i := (nth i (counts C) 0).
Notation len := (length C).

Inductive Reach : nat -> Prop :=
| reach_root : Reach (root C)
| reach_child (p c : nat) :
    Reach p -> (p < len)%nat -> cnt p <> 0 -> In c (children (nth p C FalseN)) -> Reach c.

Definition LiveN (i : nat) : Prop := Reach i /\ cnt i <> 0.
Definition LiveLit (x : Z) : Prop :=
  exists i, (i < len)%nat /\ LiveN i /\ nth i C FalseN = Lit x.

Lemma cnt_enum_nonempty (i : nat) : cnt i <> 0 <-> nth i (enums C) [] <> [].
Proof.
  rewrite <- enum_count_nth. destruct (nth i (enums C) []); cbn [length]; split; intros H; try congruence; lia.
Qed.

Lemma reach_lt (i : nat) : C <> [] -> Reach i -> (i < len)%nat.
Proof.
  intros Hne H. induction H as [|p c Hp IH Hlt Hcnt Hc]; [now apply root_lt|].
  pose proof (idx_ok_nth C p FalseN Hok Hlt c Hc). lia.
Qed.

Lemma live_lit_leaf (x : Z) : LiveLit x -> In (Lit x) C.
Proof. intros [i [Hi [_ E]]]. rewrite <- E. now apply nth_In. Qed.

(* a configuration of a child extends to a configuration of a parent that has one at all *)
Lemma live_step_up (i p : nat) :
  (p < len)%nat -> cnt p <> 0 -> In i (children (nth p C FalseN)) ->
  forall x, In x (nth i (enums C) []) ->
  exists y, In y (nth p (enums C) []) /\ incl x y.
Proof.
  intros Hp Hcnt Hch x Hx. apply cnt_enum_nonempty in Hcnt.
  rewrite (enums_unfold C Hok p Hp) in *.
  destruct (nth p C FalseN) as [l|cs|cs| |] eqn:E; cbn [enum_node children] in *;
    try (now destruct Hch).
  - apply (live_prod_extend _ (nth i (enums C) []) x).
    + apply live_prod_factors. exact Hcnt.
    + apply in_rev. rewrite rev_involutive. apply in_map_iff. now exists i.
    + exact Hx.
  - exists x. split; [|apply incl_refl].
    apply in_concat. exists (nth i (enums C) []). split; [|exact Hx].
    apply in_map_iff. now exists i.
Qed.

Lemma live_up (i : nat) : Reach i ->
  forall y, In y (nth i (enums C) []) -> exists c, In c (enum_root C) /\ incl y c.
Proof.
  intros H. induction H as [|p c Hp IH Hlt Hcnt Hc]; intros y Hy.
  - exists y. split; [now rewrite enum_root_nth|apply incl_refl].
  - destruct (live_step_up c p Hlt Hcnt Hc y Hy) as [y' [Hy' Hinc]].
    destruct (IH y' Hy') as [r [Hr Hinc']]. exists r. split; [exact Hr|].
    exact (incl_tran Hinc Hinc').
Qed.

Lemma live_down : forall i, (i < len)%nat -> Reach i ->
  forall y, In y (nth i (enums C) []) -> forall x, In x y -> LiveLit x.
Proof.
  apply (idx_induction C (fun i => Reach i -> forall y, In y (nth i (enums C) []) ->
                                   forall x, In x y -> LiveLit x) Hok).
  intros i Hi IH HR y Hy x Hx.
  assert (Hcnt : cnt i <> 0).
  { apply cnt_enum_nonempty. intros Hnil. rewrite Hnil in Hy. destruct Hy. }
  rewrite (enums_unfold C Hok i Hi) in Hy.
  destruct (nth i C FalseN) as [l|cs|cs| |] eqn:E; cbn [enum_node children] in *.
  - destruct Hy as [<-|[]]. destruct Hx as [<-|[]]. exists i. split; [exact Hi|]. split; [now split|exact E].
  - destruct (live_in_prod _ y x Hy Hx) as [L [z [HL [Hz Hxz]]]].
    apply in_rev in HL. apply in_map_iff in HL. destruct HL as [ch [<- Hch]].
    refine (IH ch Hch _ z Hz x Hxz).
    apply (reach_child i ch HR Hi Hcnt). now rewrite E.
  - apply in_concat in Hy. destruct Hy as [L [HL HyL]].
    apply in_map_iff in HL. destruct HL as [ch [<- Hch]].
    refine (IH ch Hch _ y HyL x Hx).
    apply (reach_child i ch HR Hi Hcnt). now rewrite E.
  - destruct Hy as [<-|[]]. destruct Hx.
  - destruct Hy.
Qed.

(* the live literals are the literals of the root's configurations *)
Theorem live_lit_enum (x : Z) : C <> [] ->
  (LiveLit x <-> exists c, In c (enum_root C) /\ In x c).
Proof.
  intros Hne. split.
  - intros [i [Hi [[HR _] E]]].
    assert (Hx : In [x] (nth i (enums C) [])) by (rewrite (enums_unfold C Hok i Hi), E; now left).
    destruct (live_up i HR [x] Hx) as [c [Hc Hinc]]. exists c. split; [exact Hc|].
    apply Hinc. now left.
  - intros [c [Hc Hx]]. rewrite enum_root_nth in Hc.
    exact (live_down (root C) (root_lt C Hne) reach_root c Hc x Hx).
Qed.

(* ================= the sweep ================= *)

Definition mark_children (cs : list nat) (live : list bool) : list bool :=
  fold_left (fun lv c => if nth c (counts C) 0 =? 0 then lv else upd c true lv) cs live.

Lemma mark_children_length cs : forall live, length (mark_children cs live) = length live.
Proof.
  induction cs as [|c cs IH]; intros live; [reflexivity|].
  unfold mark_children in *. cbn [fold_left]. rewrite IH.
  destruct (cnt c =? 0); [reflexivity|apply live_upd_length].
Qed.

Lemma mark_children_nth cs : forall live j, (j < length live)%nat ->
  nth j (mark_children cs live) false = true <->
  nth j live false = true \/ (In j cs /\ cnt j <> 0).
Proof.
  induction cs as [|c cs IH]; intros live j Hj.
  - cbn. tauto.
  - unfold mark_children in *. cbn [fold_left].
    destruct (cnt c =? 0) eqn:Ec.
    + rewrite (IH live j Hj). apply Z.eqb_eq in Ec. cbn [In]. split.
      * intros [H|[H1 H2]]; [now left|right; split; [now right|exact H2]].
      * intros [H|[[->|H1] H2]]; [now left|congruence|right; now split].
    + apply Z.eqb_neq in Ec. rewrite (IH (upd c true live) j) by (now rewrite live_upd_length).
      destruct (Nat.eq_dec c j) as [->|Hcj].
      * rewrite live_upd_nth_eq by exact Hj. cbn [In]. split; [intros _|now left].
        right. split; [now left|exact Ec].
      * rewrite (live_upd_nth_neq c j true false live Hcj). cbn [In]. split.
        -- intros [H|[H1 H2]]; [now left|right; split; [now right|exact H2]].
        -- intros [H|[[->|H1] H2]]; [now left|congruence|right; now split].
Qed.

Hypothesis Hrc : cnt (root C) <> 0.

(* state of the sweep once the nodes k .. len-1 are processed *)
Definition SweepInv (k : nat) (st : list bool * list Z) : Prop :=
  length (fst st) = len /\
  (forall c, (c < len)%nat ->
     (nth c (fst st) false = true <->
      c = root C \/ exists p, (k <= p < len)%nat /\ LiveN p /\
                              In c (children (nth p C FalseN)) /\ cnt c <> 0)) /\
  (forall x, In x (snd st) <->
     exists i, (k <= i < len)%nat /\ LiveN i /\ nth i C FalseN = Lit x).

Lemma sweep_mark_final (k : nat) (st : list bool * list Z) (i : nat) :
  SweepInv k st -> (k <= S i)%nat -> (i < len)%nat ->
  (nth i (fst st) false = true <-> LiveN i).
Proof.
  intros [_ [Hb _]] Hk Hi. rewrite (Hb i Hi). split.
  - intros [->|[p [Hp [[HRp Hcp] [Hch Hci]]]]].
    + split; [apply reach_root|exact Hrc].
    + split; [|exact Hci]. apply (reach_child p i HRp); [lia|exact Hcp|exact Hch].
  - intros [HR Hci]. inversion HR as [Hroot|p c HRp Hp Hcp Hch Heq]; [now left|]. subst c.
    right. exists p. pose proof (idx_ok_nth C p FalseN Hok Hp i Hch) as Hlt.
    split; [lia|]. split; [now split|]. now split.
Qed.

Lemma sweep_step (i : nat) (st : list bool * list Z) :
  (i < len)%nat -> SweepInv (S i) st -> SweepInv i (live_step C (counts C) st i).
Proof.
  intros Hi HI. pose proof (sweep_mark_final (S i) st i HI (Nat.le_refl _) Hi) as Hfin.
  destruct HI as [Ha [Hb Hc]]. unfold live_step.
  destruct (nth i (fst st) false) eqn:Em.
  - assert (HL : LiveN i) by (apply Hfin; reflexivity).
    assert (Hcase :
      SweepInv i (mark_children (children (nth i C FalseN)) (fst st),
                  match nth i C FalseN with Lit l => l :: snd st | _ => snd st end)).
    { split; [|split]; cbn [fst snd].
      - now rewrite mark_children_length.
      - intros c Hc'. rewrite mark_children_nth by (rewrite Ha; exact Hc'). rewrite (Hb c Hc'). split.
        + intros [[H|[p [Hp H]]]|[H1 H2]].
          * now left.
          * right. exists p. split; [lia|exact H].
          * right. exists i. split; [lia|]. split; [exact HL|]. now split.
        + intros [H|[p [Hp [HLp [Hch Hcc]]]]]; [left; now left|].
          destruct (Nat.eq_dec p i) as [->|Hpi].
          * right. now split.
          * left. right. exists p. split; [lia|]. split; [exact HLp|]. now split.
      - intros x. destruct (nth i C FalseN) as [l|cs|cs| |] eqn:E.
        + cbn [In]. rewrite (Hc x). split.
          * intros [<-|[j [Hj H]]]; [exists i; split; [lia|]; now split|].
            exists j. split; [lia|exact H].
          * intros [j [Hj [HLj Ej]]]. destruct (Nat.eq_dec j i) as [->|Hji].
            -- left. congruence.
            -- right. exists j. split; [lia|now split].
        + rewrite (Hc x). split; intros [j [Hj [HLj Ej]]]; exists j; (split; [|now split]).
          * lia.
          * destruct (Nat.eq_dec j i) as [->|Hji]; [congruence|lia].
        + rewrite (Hc x). split; intros [j [Hj [HLj Ej]]]; exists j; (split; [|now split]).
          * lia.
          * destruct (Nat.eq_dec j i) as [->|Hji]; [congruence|lia].
        + rewrite (Hc x). split; intros [j [Hj [HLj Ej]]]; exists j; (split; [|now split]).
          * lia.
          * destruct (Nat.eq_dec j i) as [->|Hji]; [congruence|lia].
        + rewrite (Hc x). split; intros [j [Hj [HLj Ej]]]; exists j; (split; [|now split]).
          * lia.
          * destruct (Nat.eq_dec j i) as [->|Hji]; [congruence|lia]. }
    destruct (nth i C FalseN) as [l|cs|cs| |] eqn:E; cbn [children] in Hcase.
    + cbn [mark_children fold_left] in Hcase. exact Hcase.
    + exact Hcase.
    + exact Hcase.
    + cbn [mark_children fold_left] in Hcase. destruct st; exact Hcase.
    + cbn [mark_children fold_left] in Hcase. destruct st; exact Hcase.
  - assert (HnL : ~ LiveN i) by (intros H; apply Hfin in H; congruence).
    split; [exact Ha|]. split.
    + intros c Hc'. rewrite (Hb c Hc'). split.
      * intros [H|[p [Hp H]]]; [now left|right; exists p; split; [lia|exact H]].
      * intros [H|[p [Hp [HLp H]]]]; [now left|]. right. exists p. split; [|now split].
        destruct (Nat.eq_dec p i) as [->|Hpi]; [contradiction|lia].
    + intros x. rewrite (Hc x). split; intros [j [Hj [HLj Ej]]]; exists j; (split; [|now split]).
      * lia.
      * destruct (Nat.eq_dec j i) as [->|Hji]; [contradiction|lia].
Qed.

Lemma sweep_init :
  SweepInv len (upd (len - 1) true (map (fun _ => false) C), []).
Proof.
  split; [|split]; cbn [fst snd].
  - now rewrite live_upd_length, map_length.
  - intros c Hc. fold (root C). split.
    + intros H. left. destruct (Nat.eq_dec (root C) c) as [->|Hn]; [reflexivity|].
      rewrite (live_upd_nth_neq (root C) c true false _ Hn) in H.
      rewrite nth_map_false in H. discriminate.
    + intros [->|[p [Hp _]]]; [|lia]. apply live_upd_nth_eq. now rewrite map_length.
  - intros x. split; [intros []|intros [i [Hi _]]; lia].
Qed.

Lemma sweep_all : forall m k, (k + m = len)%nat ->
  SweepInv k (fold_left (live_step C (counts C)) (rev (seq k m))
                        (upd (len - 1) true (map (fun _ => false) C), [])).
Proof.
  induction m as [|m IH]; intros k Hk.
  - cbn [seq rev fold_left]. replace k with len by lia. apply sweep_init.
  - cbn [seq rev]. rewrite fold_left_app. cbn [fold_left].
    apply sweep_step; [lia|]. apply IH. lia.
Qed.

Lemma live_sweep_spec (x : Z) :
  In x (snd (fold_left (live_step C (counts C)) (rev (seq 0 len))
                       (upd (len - 1) true (map (fun _ => false) C), []))) <-> LiveLit x.
Proof.
  destruct (sweep_all len 0 eq_refl) as [_ [_ Hc]]. rewrite (Hc x). unfold LiveLit.
  split; intros [i [Hi H]]; exists i; (split; [lia|exact H]).
Qed.

End Live.

(* ================= live_literals / calculate_core ================= *)

Lemma live_literals_zero (C : circuit) :
  root_count C = 0 -> live_literals C (counts C) = lits_of C.
Proof.
  intros H. unfold live_literals. rewrite root_count_nth in H. unfold root in H. rewrite H.
  reflexivity.
Qed.

Lemma live_literals_spec (C : circuit) (x : Z) :
  idx_ok C = true -> C <> [] -> root_count C <> 0 ->
  (In x (live_literals C (counts C)) <-> LiveLit C x).
Proof.
  intros Hok Hne Hrc. rewrite root_count_nth in Hrc. unfold live_literals.
  fold (root C). destruct (nth (root C) (counts C) 0 =? 0) eqn:E; [apply Z.eqb_eq in E; congruence|].
  apply (live_sweep_spec C Hok Hrc).
Qed.

Lemma core_In_raw (C : circuit) (n : nat) (f : Z) :
  In f (calculate_core C n) <->
  - Z.of_nat n <= f <= Z.of_nat n /\ In f (live_literals C (counts C)) /\
  ~ In (- f) (live_literals C (counts C)).
Proof.
  unfold calculate_core. cbv zeta. rewrite filter_In, zseq_In, andb_true_iff, negb_true_iff.
  rewrite memZ_In, memZ_false. split; intros [Hr H]; (split; [lia|exact H]).
Qed.

(* with a model: membership = live and complement not live *)
Theorem core_live (C : circuit) (n : nat) (f : Z) :
  idx_ok C = true -> C <> [] -> root_count C <> 0 ->
  (In f (calculate_core C n) <->
   - Z.of_nat n <= f <= Z.of_nat n /\ LiveLit C f /\ ~ LiveLit C (- f)).
Proof.
  intros Hok Hne Hrc. rewrite core_In_raw.
  rewrite !(live_literals_spec C _ Hok Hne Hrc). reflexivity.
Qed.

(* without a model the answer is the syntactic one *)
Lemma core_zero (C : circuit) (n : nat) (f : Z) :
  root_count C = 0 ->
  (In f (calculate_core C n) <->
   - Z.of_nat n <= f <= Z.of_nat n /\ In (Lit f) C /\ ~ In (Lit (- f)) C).
Proof. intros H. rewrite core_In_raw, (live_literals_zero C H), !in_lits_of_iff. reflexivity. Qed.

(* what the consumers of the cached core use: a core literal is a leaf, and its complement occurs
   in no configuration of the root *)
Theorem core_leaf (C : circuit) (n : nat) (f : Z) :
  idx_ok C = true -> C <> [] -> In f (calculate_core C n) -> In (Lit f) C.
Proof.
  intros Hok Hne H. destruct (Z.eq_dec (root_count C) 0) as [Hz|Hnz].
  - apply (core_zero C n f Hz) in H. apply H.
  - apply (core_live C n f Hok Hne Hnz) in H. destruct H as [_ [H _]]. now apply live_lit_leaf in H.
Qed.

Theorem core_enum_spec (C : circuit) (n : nat) (f : Z) :
  idx_ok C = true -> C <> [] -> In f (calculate_core C n) ->
  forall c, In c (enum_root C) -> ~ In (- f) c.
Proof.
  intros Hok Hne H c Hc Hin. destruct (Z.eq_dec (root_count C) 0) as [Hz|Hnz].
  - rewrite <- enum_root_count in Hz. destruct (enum_root C); [destruct Hc|cbn [length] in Hz; lia].
  - apply (core_live C n f Hok Hne Hnz) in H. destruct H as [_ [_ H]]. apply H.
    apply (live_lit_enum C Hok (- f) Hne). now exists c.
Qed.

Theorem core_enum_has (C : circuit) (n : nat) (f : Z) :
  idx_ok C = true -> C <> [] -> root_count C <> 0 -> In f (calculate_core C n) ->
  exists c, In c (enum_root C) /\ In f c.
Proof.
  intros Hok Hne Hnz H. apply (core_live C n f Hok Hne Hnz) in H. destruct H as [_ [H _]].
  now apply (live_lit_enum C Hok f Hne).
Qed.
