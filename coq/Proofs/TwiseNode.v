(* C09 pipeline: the per-node invariant of TWiseSampler::partial_sample and the bottom-up pass
   (sample_node + remove_unneeded), for every order oracle. *)
From Coq Require Import List ZArith Bool Arith Lia Permutation.
From DD Require Import Model.Circuit Model.Query Model.TwiseCfg Model.TwiseMerge Model.TwisePipeline
  Proofs.PassLemmas Proofs.Semantics Proofs.CountsA Proofs.QueryDefs Proofs.C03Proof Proofs.TwiseBase
  Proofs.TwiseSem Proofs.TwiseCfgProof Proofs.TwiseInv Proofs.TwiseAnd Proofs.TwiseOr.
Import ListNotations.
Open Scope Z_scope.

Lemma nodup_nat_spec l : nodup_nat l = true -> NoDup l.
Proof.
  induction l as [|x l IH]; intros H; [constructor|]. cbn in H. apply andb_true_iff in H. destruct H as [H1 H2].
  constructor; [|now apply IH]. intros Hin. apply negb_true_iff in H1.
  assert (existsb (Nat.eqb x) l = true); [|congruence]. apply existsb_exists. exists x. split; [exact Hin|apply Nat.eqb_refl].
Qed.

Lemma zsum_pos_iff (l : list Z) : (forall x, In x l -> 0 <= x) -> (0 < zsum l <-> exists x, In x l /\ 0 < x).
Proof.
  intros Hnn. split.
  - intros H. destruct (zsum_pos_exists l H) as [x [Hx Hne]]. exists x. split; [exact Hx|]. specialize (Hnn x Hx). lia.
  - intros [x [Hx Hp]]. pose proof (zsum_nonneg l Hnn). destruct (Z.eq_dec (zsum l) 0) as [E|E]; [|lia].
    pose proof (proj1 (zsum_zero l Hnn) E x Hx). lia.
Qed.

Section Node.
Variables (C : circuit) (n : nat) (t : nat).
Hypothesis HQ : WFQ C n.
Let d := build C n.

Variable ord_int : nat -> nat -> nat -> list cfg -> list cfg.
Variable ord_sort : nat -> list sample -> list sample.
Hypothesis Hord_int : forall a b c l, Permutation (ord_int a b c l) l.
Hypothesis Hord_sort : forall a l, Permutation (ord_sort a l) l.

Notation valid := (valid C).
Notation V := (V C).
Notation CfgOK := (CfgOK C n).
Notation SampOK := (SampOK C n).
Notation CovAll := (CovAll C).

Definition NodeInv (i : nat) (res : sres) : Prop :=
  match res with
  | Void => cnt C i = 0
  | Empty => 0 < cnt C i /\ (forall v, ~ In v (V i))
  | WithSample sm =>
    0 < cnt C i /\ (exists v, In v (V i)) /\ s_iter sm <> [] /\ SampOK i (V i) sm /\
    CovAll i (V i) (Nat.min t (length (s_vars sm))) sm
  end.

Lemma cnt_nonneg i : (i < length C)%nat -> 0 <= cnt C i.
Proof. intros Hi. rewrite cnt_cA. apply (cA_bounds C n HQ [] i Hi). Qed.

(* ---------- Literal ---------- *)
Lemma lit_node i l : (i < length C)%nat -> nth i C FalseN = Lit l -> NodeInv i (WithSample (s_from_literal n l)).
Proof.
  intros Hi E. pose proof (V_unfold C n HQ i Hi) as HV. rewrite E in HV. cbn [vars_node] in HV.
  assert (Hl : In l (lits_of C)) by (apply in_lits_of; rewrite <- E; now apply nth_In).
  pose proof (lits_of_nonzero C n HQ l Hl) as Hl0. pose proof (lits_inr C n HQ l Hl) as Hlr.
  assert (Hcnt : cnt C i = 1) by (rewrite cnt_cA, (cA_lit C n HQ [] i l Hi E); reflexivity).
  assert (Hval : valid i [l]).
  { unfold TwiseSem.valid. rewrite (cA_lit C n HQ [l] i l Hi E).
    assert (Em : memZ (- l) [l] = false) by (apply memZ_false; intros [H|[]]; lia). rewrite Em. lia. }
  destruct (from_spec n [l]) as [Hwf [Hdec Hst]].
  { intros x [<-|[]]. split; [exact Hl0|exact Hlr]. }
  { intros x [<-|[]] [H|[]]. lia. }
  assert (Hok : CfgOK i (V i) (c_from n [l])).
  { constructor.
    - exact Hwf.
    - intros x Hx. apply Hdec in Hx. destruct Hx as [<-|[]]. rewrite HV. now left.
    - apply (valid_mono C n HQ i [l]); [exact Hi| |exact Hval]. intros x Hx. now apply Hdec.
    - unfold StOK. now rewrite Hst. }
  cbn [NodeInv]. split; [lia|]. split; [exists (Z.abs l); rewrite HV; now left|].
  split; [discriminate|]. split.
  - constructor; cbn [s_from_literal s_vars s_iter s_comp s_part].
    + repeat constructor. intros [].
    + intros v. rewrite HV. reflexivity.
    + unfold s_iter. cbn [s_from_literal s_comp s_part app]. now constructor.
    + intros c [<-|[]]. rewrite (wfc_ndec _ _ Hwf).
      assert (Hnd : NoDup (c_decided (c_from n [l]))) by now apply dec_nodup with (n := n).
      apply (NoDup_same_length (c_decided (c_from n [l])) [l]); [exact Hnd|repeat constructor; intros []|exact Hdec].
  - intros I HI HIv Hlen Hv. cbn [s_from_literal s_vars length] in Hlen.
    exists (c_from n [l]). split; [now left|]. intros x Hx. apply Hdec.
    specialize (HIv x Hx). rewrite HV in HIv. destruct HIv as [HIv|[]].
    assert (x = l \/ x = - l) as [->| ->] by lia; [now left|]. exfalso.
    apply (valid_mono C n HQ i I [- l] Hi) in Hv; [|intros y [<-|[]]; exact Hx].
    unfold TwiseSem.valid in Hv. rewrite (cA_lit C n HQ [- l] i l Hi E) in Hv.
    assert (Em : memZ (- l) [- l] = true) by (apply memZ_In; now left). rewrite Em in Hv. lia.
Qed.

(* ---------- lifting a child's sample to the parent ---------- *)
Lemma lift_cfg c i W cfg0 : (forall A, (forall l, In l A -> In (Z.abs l) W) -> valid c A -> valid i A) ->
  CfgOK c W cfg0 -> CfgOK i W cfg0.
Proof. intros Hlift [H1 H2 H3 H4]. constructor; auto. Qed.

Lemma lift_samp c i W S : (forall A, (forall l, In l A -> In (Z.abs l) W) -> valid c A -> valid i A) ->
  SampOK c W S -> SampOK i W S.
Proof.
  intros Hlift [H1 H2 H3 H4]. constructor; try assumption.
  eapply Forall_impl; [|exact H3]. intros a. now apply lift_cfg.
Qed.

Lemma and_merge_all_nil i : and_merge_all d n t ord_int ord_sort i [] = s_default.
Proof.
  unfold and_merge_all. cbn [filter indexed indexed_from fold_left app].
  assert (E : ord_sort i [s_default] = [s_default]).
  { apply Permutation_length_1_inv. apply Permutation_sym. apply Hord_sort. }
  rewrite E. reflexivity.
Qed.

(* ---------- And ---------- *)
Lemma results_split (cs : list nat) (rs : list sres) :
  Forall2 NodeInv cs rs -> existsb is_void rs = false ->
  Forall2 (fun c r => 0 < cnt C c /\ match r with
                                       | WithSample sm => NodeInv c (WithSample sm)
                                       | _ => forall v, ~ In v (V c)
                                       end) cs rs.
Proof.
  induction 1 as [|c r cs rs Hcr HF IH]; intros Hv; [constructor|].
  cbn [existsb] in Hv. apply orb_false_iff in Hv. destruct Hv as [Hv1 Hv2]. constructor; [|now apply IH].
  destruct r as [| |S]; cbn [is_void NodeInv] in *; [discriminate|tauto|tauto].
Qed.

Lemma and_node i cs rs : (i < length C)%nat -> Live.Reach C i -> nth i C FalseN = And cs ->
  Forall2 NodeInv cs rs ->
  NodeInv i (if existsb is_void rs then Void
             else sres_of (and_merge_all d n t ord_int ord_sort i (samples_of rs))).
Proof.
  intros Hi HRi E HF.
  assert (Hch : forall c, In c cs -> (c < length C)%nat).
  { intros c Hc. assert (c < i)%nat by (apply (child_lt C n HQ i c Hi); now rewrite E). lia. }
  destruct (existsb is_void rs) eqn:Ev.
  - cbn [NodeInv]. apply existsb_exists in Ev. destruct Ev as [r [Hr Hv]]. destruct r; try discriminate.
    rewrite (cnt_and C n HQ i cs Hi E). apply zprod_zero.
    clear - HF Hr. induction HF as [|c r cs rs Hcr HF IH]; [destruct Hr|].
    destruct Hr as [->|Hr]; [left; cbn in Hcr; now symmetry|right; now apply IH].
  - pose proof (results_split cs rs HF Ev) as HF'.
    assert (Hpos : 0 < cnt C i).
    { rewrite (cnt_and C n HQ i cs Hi E). apply zprod_pos_iff.
      - intros x Hx. apply in_map_iff in Hx. destruct Hx as [c [<- Hc]]. apply cnt_nonneg. now apply Hch.
      - intros x Hx. apply in_map_iff in Hx. destruct Hx as [c [<- Hc]].
        clear - HF' Hc. induction HF' as [|c0 r cs rs [Hp _] HF IH]; [destruct Hc|].
        destruct Hc as [<-|Hc]; [exact Hp|now apply IH]. }
    assert (Hcsnd : pairwise disjointb (map (fun c0 => nth c0 (varss C) []) cs) = true).
    { pose proof (wf_dec C n (wfq_wf C n HQ)) as Hdec. unfold decomposable in Hdec. rewrite forallb_forall in Hdec.
      specialize (Hdec _ (node_in C i Hi)). now rewrite E in Hdec. }
    (* the samples of the children are good for merging at i *)
    assert (Hgood : Forall (GoodS C n t i cs) (samples_of rs) /\ NoDup (flat_map s_vars (samples_of rs)) /\
                    (forall v, In v (flat_map s_vars (samples_of rs)) <-> In v (V i)) /\
                    (samples_of rs <> [] -> exists v, In v (V i))).
    { assert (HVi : forall v, In v (V i) <-> exists c, In c cs /\ In v (V c)).
      { intros v. rewrite (V_unfold C n HQ i Hi), E. cbn [vars_node]. rewrite in_concat. split.
        - intros [L [HL Hv]]. apply in_map_iff in HL. destruct HL as [c [<- Hc]]. now exists c.
        - intros [c [Hc Hv]]. exists (nth c (varss C) []). split; [apply in_map_iff; now exists c|exact Hv]. }
      assert (Hgen : forall cs0 rs0, Forall2 (fun c r => 0 < cnt C c /\ match r with
                                       | WithSample sm => NodeInv c (WithSample sm)
                                       | _ => forall v, ~ In v (V c)
                                       end) cs0 rs0 -> incl cs0 cs -> pairwise disjointb (map (fun c0 => nth c0 (varss C) []) cs0) = true ->
                Forall (GoodS C n t i cs) (samples_of rs0) /\ NoDup (flat_map s_vars (samples_of rs0)) /\
                (forall v, In v (flat_map s_vars (samples_of rs0)) <-> exists c, In c cs0 /\ In v (V c)) /\
                (samples_of rs0 <> [] -> exists c v, In c cs0 /\ In v (V c))).
      { induction 1 as [|c r cs0 rs0 [Hcp Hcr] HF0 IH]; intros Hinc Hnd0.
        - cbn. split; [constructor|]. split; [constructor|]. split; [|congruence].
          intros v. split; [intros []|intros [c [[] _]]].
        - cbn [map pairwise] in Hnd0. apply andb_true_iff in Hnd0. destruct Hnd0 as [Hnotin Hnd1].
          rewrite forallb_forall in Hnotin.
          destruct (IH (fun x Hx => Hinc x (or_intror Hx)) Hnd1) as [G1 [G2 [G3 G4]]].
          assert (Hc : In c cs) by (apply Hinc; now left).
          destruct r as [| |S]; cbn [samples_of flat_map app] in *.
          + split; [exact G1|]. split; [exact G2|]. split.
            * intros v. rewrite G3. split; [intros [c0 [H1 H2]]; exists c0; split; [now right|exact H2]|].
              intros [c0 [[<-|H1] H2]]; [exfalso; exact (Hcr v H2)|now exists c0].
            * intros Hne. destruct (G4 Hne) as [c0 [v [H1 H2]]]. exists c0, v. split; [now right|exact H2].
          + split; [exact G1|]. split; [exact G2|]. split.
            * intros v. rewrite G3. split; [intros [c0 [H1 H2]]; exists c0; split; [now right|exact H2]|].
              intros [c0 [[<-|H1] H2]]; [exfalso; exact (Hcr v H2)|now exists c0].
            * intros Hne. destruct (G4 Hne) as [c0 [v [H1 H2]]]. exists c0, v. split; [now right|exact H2].
          + cbn [NodeInv] in Hcr. destruct Hcr as [_ [[v0 Hv0] [Hne [HS HC]]]].
            assert (Hvs : forall v, In v (s_vars S) <-> In v (V c)) by apply HS.
            assert (Hlift : forall A, (forall l, In l A -> In (Z.abs l) (V c)) -> valid c A -> valid i A).
            { intros A HA. now apply (and_child_lift C n HQ i cs c A Hi E Hpos Hc HA). }
            split; [|split; [|split]].
            * constructor; [|exact G1]. right. split; [|split; [|split; [|split]]].
              -- destruct (s_is_empty S) eqn:Ee; [|reflexivity]. apply s_is_empty_iter in Ee. congruence.
              -- apply (SampOK_ext C n i (V c)); [intros v; symmetry; apply Hvs|]. now apply (lift_samp c i).
              -- intros I H1 H2 H3 H4. apply HC; try assumption.
                 ++ intros l Hl. apply Hvs. now apply H2.
                 ++ apply (proj1 (and_valid_iff C n HQ I i cs Hi E) H4 c Hc).
              -- intros c' Hc'. destruct (and_child_aligned C n HQ i cs c Hi E Hc c' Hc') as [A|A].
                 ++ left. intros v Hv. apply Hvs. now apply A.
                 ++ right. intros v Hv Hv'. apply Hvs in Hv'. exact (A v Hv Hv').
              -- intros v Hv. apply Hvs in Hv. exact (and_vars C n HQ i cs c Hi E Hc v Hv).
            * apply NoDup_app_intro; [apply HS|exact G2|].
              intros v Hv Hv'. apply Hvs in Hv. apply G3 in Hv'. destruct Hv' as [c0 [Hc0 Hv0']].
              assert (Hd0 : disjointb (nth c (varss C) []) (nth c0 (varss C) []) = true) by (apply Hnotin; exact (in_map (fun c1 => nth c1 (varss C) []) cs0 c0 Hc0)).
              exact (proj1 (disjointb_spec _ _) Hd0 v Hv Hv0').
            * intros v. rewrite in_app_iff, G3, Hvs. split.
              -- intros [H|[c0 [H1 H2]]]; [exists c; split; [now left|exact H]|exists c0; split; [now right|exact H2]].
              -- intros [c0 [[<-|H1] H2]]; [now left|right; now exists c0].
            * intros _. exists c, v0. split; [now left|exact Hv0]. }
      destruct (Hgen cs rs HF' (incl_refl cs) Hcsnd) as [G1 [G2 [G3 G4]]].
      split; [exact G1|]. split; [exact G2|]. split.
      - intros v. rewrite G3, HVi. reflexivity.
      - intros Hne. destruct (G4 Hne) as [c [v [H1 H2]]]. exists v. apply HVi. now exists c. }
    destruct Hgood as [Hg1 [Hg2 [Hg3 Hg4]]].
    destruct (and_merge_all_good C n t HQ i cs Hi HRi E Hpos ord_int ord_sort Hord_int Hord_sort i
                (samples_of rs) eq_refl Hg1 Hg2) as [HR Hvars]. cbv zeta in *. fold d in HR, Hvars.
    set (R := and_merge_all d n t ord_int ord_sort i (samples_of rs)) in *.
    unfold sres_of. destruct HR as [[Ee Ev']|[Ee [HS [HC [_ _]]]]]; rewrite Ee; cbn [NodeInv].
    + split; [exact Hpos|]. intros v Hv. apply Hg3 in Hv. apply Hvars in Hv. rewrite Ev' in Hv. destruct Hv.
    + assert (Hvs : forall v, In v (s_vars R) <-> In v (V i)) by (intros v; rewrite Hvars; apply Hg3).
      assert (Hne : s_iter R <> []) by (intros Habs; apply s_is_empty_iter in Habs; congruence).
      split; [exact Hpos|]. split; [|split; [exact Hne|split]].
      * apply Hg4. intros Habs. unfold R in Ee. rewrite Habs, and_merge_all_nil in Ee. discriminate.
      * now apply (SampOK_ext C n i (s_vars R)).
      * apply (CovAll_ext C i (s_vars R)); [intros v Hv; now apply Hvs|exact HC].
Qed.

(* ---------- Or ---------- *)
Lemma or_node i cs rs : (i < length C)%nat -> nth i C FalseN = Or cs -> Forall2 NodeInv cs rs ->
  NodeInv i (if forallb is_void rs then Void else sres_of (or_merge_all t (samples_of rs))).
Proof.
  intros Hi E HF.
  assert (Hch : forall c, In c cs -> (c < length C)%nat).
  { intros c Hc. assert (c < i)%nat by (apply (child_lt C n HQ i c Hi); now rewrite E). lia. }
  assert (Hnn : forall x, In x (map (cnt C) cs) -> 0 <= x).
  { intros x Hx. apply in_map_iff in Hx. destruct Hx as [c [<- Hc]]. apply cnt_nonneg. now apply Hch. }
  destruct (forallb is_void rs) eqn:Ev.
  - cbn [NodeInv]. rewrite (cnt_or C n HQ i cs Hi E). apply (zsum_zero _ Hnn).
    intros x Hx. apply in_map_iff in Hx. destruct Hx as [c [<- Hc]].
    rewrite forallb_forall in Ev. clear - HF Hc Ev. induction HF as [|c0 r cs rs Hcr HF IH]; [destruct Hc|].
    destruct Hc as [<-|Hc].
    + specialize (Ev r (or_introl eq_refl)). destruct r; try discriminate. exact Hcr.
    + apply IH; [|exact Hc]. intros x Hx. apply Ev. now right.
  - assert (Hpos : 0 < cnt C i).
    { rewrite (cnt_or C n HQ i cs Hi E). apply (zsum_pos_iff _ Hnn).
      apply forallb_false_exists in Ev. destruct Ev as [r [Hr Hnv]].
      clear - HF Hr Hnv. induction HF as [|c0 r0 cs rs Hcr HF IH]; [destruct Hr|].
      destruct Hr as [->|Hr].
      + exists (cnt C c0). split; [now left|]. destruct r; cbn in *; [discriminate|tauto|tauto].
      + destruct IH as [x [Hx Hp]]; [exact Hr|]. exists x. split; [now right|exact Hp]. }
    assert (Hlift : forall c, In c cs -> forall A, valid c A -> valid i A).
    { intros c Hc A HA. apply (or_valid_iff C n HQ A i cs Hi E). now exists c. }
    (* every sample of a child is a sample over V i at i *)
    assert (Hsamp : forall S, In S (samples_of rs) -> exists c, In c cs /\ NodeInv c (WithSample S)).
    { clear - HF. induction HF as [|c r cs rs Hcr HF IH]; intros S HS; [destruct HS|].
      destruct r as [| |S0]; cbn [samples_of flat_map app] in HS.
      - destruct (IH S HS) as [c0 [H1 H2]]. exists c0. split; [now right|exact H2].
      - destruct (IH S HS) as [c0 [H1 H2]]. exists c0. split; [now right|exact H2].
      - destruct HS as [<-|HS]; [exists c; split; [now left|exact Hcr]|].
        destruct (IH S HS) as [c0 [H1 H2]]. exists c0. split; [now right|exact H2]. }
    assert (Hall : Forall (fun S => SampOK i (V i) S /\ s_iter S <> []) (samples_of rs)).
    { apply Forall_forall. intros S HS. destruct (Hsamp S HS) as [c [Hc Hinv]]. cbn [NodeInv] in Hinv.
      destruct Hinv as [_ [_ [Hne [HSc _]]]]. split; [|exact Hne].
      apply (SampOK_ext C n i (V c)); [intros v; apply (or_vars_eq C n HQ i cs c Hi E Hc)|].
      apply (lift_samp c i); [|exact HSc]. intros A _. now apply Hlift. }
    pose proof (or_merge_all_spec C n t i (V i) Hi (samples_of rs) [] s_default Hall) as Hacc.
    cbn [app] in Hacc. specialize (Hacc (or_introl (conj eq_refl eq_refl))).
    fold (or_merge_all t (samples_of rs)) in Hacc.
    set (R := or_merge_all t (samples_of rs)) in *.
    unfold sres_of. destruct Hacc as [[Ee Es]|[HS [Hne Hcov]]].
    + assert (Eemp : s_is_empty R = true) by now apply s_is_empty_iter. rewrite Eemp. cbn [NodeInv].
      split; [exact Hpos|]. intros v Hv.
      (* a child with positive count has the variables of i, hence a sample *)
      apply forallb_false_exists in Ev. destruct Ev as [r [Hr Hnv]].
      assert (Hex : exists c, In c cs /\ NodeInv c r).
      { clear - HF Hr. induction HF as [|c0 r0 cs rs Hcr HF IH]; [destruct Hr|].
        destruct Hr as [->|Hr]; [exists c0; split; [now left|exact Hcr]|].
        destruct (IH Hr) as [c [H1 H2]]. exists c. split; [now right|exact H2]. }
      destruct Hex as [c [Hc Hinv]]. destruct r as [| |S]; [discriminate| |].
      * cbn [NodeInv] in Hinv. destruct Hinv as [_ Hnov]. apply (Hnov v). now apply (or_vars_eq C n HQ i cs c Hi E Hc).
      * assert (HinS : In S (samples_of rs)).
        { clear - Hr. induction rs as [|r0 rs IH]; [destruct Hr|]. cbn [samples_of flat_map].
          destruct Hr as [->|Hr]; [now left|]. apply in_app_iff. right. now apply IH. }
        rewrite Es in HinS. destruct HinS.
    + assert (Eemp : s_is_empty R = false).
      { destruct (s_is_empty R) eqn:Ee; [|reflexivity]. apply s_is_empty_iter in Ee. congruence. }
      rewrite Eemp. cbn [NodeInv].
      assert (HexS : exists S, In S (samples_of rs)).
      { destruct (samples_of rs) as [|S l] eqn:Es; [|exists S; now left].
        exfalso. unfold R, or_merge_all in Hne. rewrite ?Es in Hne. cbn in Hne. congruence. }
      destruct HexS as [S0 HS0]. destruct (Hsamp S0 HS0) as [c0 [Hc0 Hinv0]]. cbn [NodeInv] in Hinv0.
      destruct Hinv0 as [_ [[v0 Hv0] _]].
      split; [exact Hpos|]. split; [exists v0; now apply (or_vars_eq C n HQ i cs c0 Hi E Hc0)|].
      split; [exact Hne|]. split; [exact HS|].
      intros I HI HIv Hlen Hv.
      apply (or_valid_iff C n HQ I i cs Hi E) in Hv. destruct Hv as [c [Hc Hvc]].
      pose proof (valid_live C n HQ c I (Hch c Hc) Hvc) as Hcpos.
      (* the child's result is a sample *)
      assert (Hres : exists r, In r rs /\ NodeInv c r).
      { clear - HF Hc. induction HF as [|c0 r0 cs rs Hcr HF IH]; [destruct Hc|].
        destruct Hc as [<-|Hc]; [exists r0; split; [now left|exact Hcr]|].
        destruct (IH Hc) as [r [H1 H2]]. exists r. split; [now right|exact H2]. }
      destruct Hres as [r [Hr Hinv]].
      assert (Hvne : exists v, In v (V c)).
      { exists v0. apply (or_vars_eq C n HQ i cs c Hi E Hc). now apply (or_vars_eq C n HQ i cs c0 Hi E Hc0). }
      destruct r as [| |S]; cbn [NodeInv] in Hinv.
      * lia.
      * destruct Hvne as [v Hv]. exfalso. exact (proj2 Hinv v Hv).
      * destruct Hinv as [_ [_ [_ [HSc HCc]]]].
        assert (HinS : In S (samples_of rs)).
        { clear - Hr. induction rs as [|r0 rs IH]; [destruct Hr|]. cbn [samples_of flat_map].
          destruct Hr as [->|Hr]; [now left|]. apply in_app_iff. right. now apply IH. }
        assert (Hsame : length (s_vars S) = length (s_vars R)).
        { apply NoDup_same_length; [apply HSc|apply HS|]. intros v.
          rewrite (so_vars _ _ _ _ _ HSc), (so_vars _ _ _ _ _ HS). apply (or_vars_eq C n HQ i cs c Hi E Hc). }
        apply (Hcov S I HinS); [apply (NoDup_map_inv Z.abs); exact HI|lia|].
        apply HCc; try assumption; [|lia].
        intros l Hl. apply (or_vars_eq C n HQ i cs c Hi E Hc). now apply HIv.
Qed.

End Node.
