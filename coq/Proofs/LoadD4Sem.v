(* The d4 loader preserves the file's function: assembly of the pass lemmas.
   load_d4_gen rc ord toks n0 = Some (C, n')  and  d4_ok toks  imply
   n' = max n0 (largest mentioned feature)  and  eval_root s C = eval_d4 toks s  for every s. *)
From Coq Require Import List ZArith Bool Lia Arith.
From DD Require Import Model.Circuit Model.LexerD4 Model.LoadC2d Model.LoadD4 Spec.D4Sem
  Proofs.LoadD4Graph Proofs.LoadD4Ops Proofs.LoadD4Flat Proofs.LoadD4Pass2 Proofs.LoadD4Struct
  Proofs.LoadD4Pass3 Proofs.LoadD4Free Proofs.LoadD4Parse.
Import ListNotations.
Local Open Scope nat_scope.

(* ---------- lists ---------- *)
Lemma opt_all_Forall2 {A B} (f : A -> option B) l l' :
  opt_all f l = Some l' -> Forall2 (fun x y => f x = Some y) l l'.
Proof.
  revert l'. induction l as [|x l IH]; intros l' H; cbn [opt_all] in H.
  - injection H as <-. constructor.
  - destruct (f x) as [y|] eqn:E; [|discriminate]. destruct (opt_all f l) as [ys|]; [|discriminate].
    injection H as <-. constructor; [exact E|now apply IH].
Qed.

Lemma Forall2_rev {A B} (R : A -> B -> Prop) l l' : Forall2 R l l' -> Forall2 R (rev l) (rev l').
Proof.
  induction 1 as [|x y l l' Hxy _ IH]; [constructor|]. cbn [rev]. apply Forall2_app; [exact IH|repeat constructor; exact Hxy].
Qed.

Lemma Forall2_join {A B D} (P : A -> B -> Prop) (Q : A -> D -> Prop) (R : D -> B -> Prop) l1 l2 l3 :
  (forall x y z, In x l1 -> P x y -> Q x z -> R z y) ->
  Forall2 P l1 l2 -> Forall2 Q l1 l3 -> Forall2 R l3 l2.
Proof.
  intros H HP. revert l3. induction HP as [|x y l1 l2 Hxy _ IH]; intros l3 HQ; inversion HQ; subst; constructor.
  - apply (H x y); [now left|assumption|assumption].
  - apply IH; [|assumption]. intros x' y' z' Hin. apply H. now right.
Qed.

Lemma forallb_id_rev l : forallb id (rev l) = forallb id l.
Proof.
  induction l as [|x l IH]; [reflexivity|]. cbn [rev forallb]. rewrite forallb_app, IH. cbn [forallb].
  destruct (id x), (forallb id l); reflexivity.
Qed.
Lemma existsb_id_rev l : existsb id (rev l) = existsb id l.
Proof.
  induction l as [|x l IH]; [reflexivity|]. cbn [rev existsb]. rewrite existsb_app, IH. cbn [existsb].
  destruct (id x), (existsb id l); reflexivity.
Qed.
Lemma forallb_id_map {A} (f : A -> bool) l : forallb id (map f l) = forallb f l.
Proof. induction l as [|x l IH]; [reflexivity|]. cbn [map forallb id]. now rewrite IH. Qed.

(* ---------- the graph after the line loop denotes the file ---------- *)
Lemma exp_node_val g y lits tx a bt : exp_node g y lits tx -> GV g a tx bt ->
  GV g a y (forallb (lit_true a) lits && bt).
Proof.
  intros [Hl [lns [Ho Hn]]] Ht.
  replace (forallb (lit_true a) lits && bt) with (forallb id (bt :: rev (map (lit_true a) lits))).
  - apply GV_and; [exact Hl|]. rewrite Ho. constructor; [exact Ht|]. apply Forall2_rev.
    clear Ho. induction Hn as [|l z lits lns Hz _ IH]; cbn [map]; constructor; [now apply GV_lit|exact IH].
  - cbn [forallb]. rewrite forallb_id_rev, forallb_id_map. apply andb_comm.
Qed.

Lemma rep_sem P st n0 toks b a : rep P st n0 toks b -> forall fuel i bv,
  eval_d4_opt fuel toks a i = Some bv ->
  exists x, 1 <= i /\ nth_error (bs_idx b) (i - 1) = Some x /\ GV (ls_g (bs_ls b)) a x bv.
Proof.
  intros HR. induction fuel as [|f IH]; intros i bv H; [discriminate|].
  cbn [eval_d4_opt] in H. destruct i as [|i']; [discriminate|].
  destruct (nth_error (d4_decls toks) i') as [k|] eqn:Ek; [|discriminate].
  destruct (Forall2_nth_error_l _ _ _ _ _ (rp_decl _ _ _ _ _ HR) Ek) as [x [Hx Hlx]].
  exists x. split; [lia|]. replace (S i' - 1) with i' by lia. split; [exact Hx|].
  set (g := ls_g (bs_ls b)) in *.
  set (edge := fun e : list Z * nat =>
         option_map (fun b0 => forallb (lit_true a) (fst e) && b0) (eval_d4_opt f toks a (snd e))) in H.
  assert (Hkids : forall vs, opt_all edge (d4_edges_from toks (S i')) = Some vs ->
            Forall2 (GV g a) (sg_out g x) (rev vs)).
  { intros vs Hvs. apply opt_all_Forall2, Forall2_rev in Hvs.
    refine (Forall2_join _ _ (fun y v => GV g a y v) _ _ _ _ Hvs (rp_edges _ _ _ _ _ HR i' x Hx)).
    intros e v y _ He Hy. cbv beta in He. unfold edge in He.
    destruct (eval_d4_opt f toks a (snd e)) as [bt|] eqn:Et; [|discriminate]. cbn [option_map] in He.
    injection He as <-.
    destruct (IH _ _ Et) as [tx' [_ [Htx' Hv]]].
    destruct Hy as [tx [_ [Htx Hcase]]]. assert (tx' = tx) as -> by congruence.
    destruct Hcase as [[-> ->]|[_ [_ Hexp]]]; [exact Hv|]. exact (exp_node_val _ _ _ tx a bt Hexp Hv). }
  destruct k; cbn [tid_of_kind] in Hlx.
  - destruct (opt_all edge _) as [vs|] eqn:E; [|discriminate]. injection H as <-.
    rewrite <- existsb_id_rev. apply GV_or; [exact Hlx|now apply Hkids].
  - destruct (opt_all edge _) as [vs|] eqn:E; [|discriminate]. injection H as <-.
    rewrite <- forallb_id_rev. apply GV_and; [exact Hlx|now apply Hkids].
  - injection H as <-. now apply GV_true.
  - injection H as <-. now apply GV_false.
Qed.

(* running out of fuel does not depend on the assignment *)
Lemma eval_d4_opt_indep toks a a' : forall fuel i b, eval_d4_opt fuel toks a i = Some b ->
  exists b', eval_d4_opt fuel toks a' i = Some b'.
Proof.
  induction fuel as [|f IH]; intros i b H; [discriminate|]. cbn [eval_d4_opt] in *.
  destruct i as [|i']; [discriminate|]. destruct (nth_error (d4_decls toks) i') as [k|]; [|discriminate].
  assert (Hall : forall es vs,
    opt_all (fun e => option_map (fun b0 => forallb (lit_true a) (fst e) && b0) (eval_d4_opt f toks a (snd e))) es = Some vs ->
    exists vs', opt_all (fun e => option_map (fun b0 => forallb (lit_true a') (fst e) && b0) (eval_d4_opt f toks a' (snd e))) es = Some vs').
  { induction es as [|e es IHes]; intros vs Hvs; cbn [opt_all] in *; [now exists []|].
    destruct (eval_d4_opt f toks a (snd e)) as [bt|] eqn:Et; [|discriminate]. cbn [option_map] in Hvs.
    destruct (opt_all _ es) as [vs0|] eqn:E0; [|discriminate].
    destruct (IH _ _ Et) as [bt' ->]. destruct (IHes vs0 eq_refl) as [vs' ->]. cbn [option_map]. eexists. reflexivity. }
  destruct k.
  - destruct (opt_all _ _) as [vs|] eqn:E; [|discriminate]. destruct (Hall _ _ E) as [vs' ->]. eexists. reflexivity.
  - destruct (opt_all _ _) as [vs|] eqn:E; [|discriminate]. destruct (Hall _ _ E) as [vs' ->]. eexists. reflexivity.
  - eexists. reflexivity.
  - eexists. reflexivity.
Qed.

(* ---------- between the passes ---------- *)
Lemma tables_ok_shrink P st s g2 : tables_ok P st s -> Inv g2 -> (st = true -> srcs_ok g2) ->
  shrink (ls_g s) g2 -> tables_ok P st (with_g s g2).
Proof.
  intros [[HI Hl Hp Hj Hsr] Ht] HI2 Hsr2 Hs. split.
  - constructor; cbn [with_g ls_g ls_lits].
    + exact HI2.
    + intros l z Hz. apply (sh_keep _ _ Hs z _ (Hl l z Hz)); discriminate.
    + intros z l Hz. apply (Hp z l).
      destruct (sh_label _ _ Hs z) as [E|[_ E]]; [unfold sg_alive; now rewrite Hz|congruence|congruence].
    + intros z l Hz. apply (Hj z l).
      destruct (sh_label _ _ Hs z) as [E|[_ E]]; [unfold sg_alive; now rewrite Hz|congruence|congruence].
    + exact Hsr2.
  - intros f o Hfo. cbn [with_g ls_g ls_tri] in *. destruct (Ht f o Hfo) as [Hf [Hlo [n [p [Ho [Hn Hp']]]]]].
    assert (Hao : sg_alive g2 o = true).
    { unfold sg_alive. destruct (sh_or _ _ Hs o Hlo) as [E|E]; now rewrite E. }
    destruct (sh_out _ _ Hs o Hao) as [Hlo2 Ho2].
    { intros c Hc. rewrite Ho in Hc. destruct Hc as [<-|[<-|[]]]; eexists; eassumption. }
    split; [exact Hf|]. split; [congruence|]. exists n, p.
    split; [congruence|split; [apply (sh_keep _ _ Hs n _ Hn); discriminate|apply (sh_keep _ _ Hs p _ Hp'); discriminate]].
Qed.

(* a removed root makes get_literal_diffs panic *)
Lemma get_literal_diffs_root g root m : Inv g -> get_literal_diffs g root = Some m -> sg_alive g root = true.
Proof.
  intros HI H. unfold sg_alive. destruct (sg_label g root) as [t|] eqn:Hl; [reflexivity|]. exfalso.
  unfold get_literal_diffs, sg_fuel in H.
  replace (length (sg_nodes g) + length (sg_edges g) + 2) with (S (S (length (sg_nodes g) + length (sg_edges g)))) in H by lia.
  cbn [dfs_fold mem existsb negb] in H.
  rewrite (vacant_no_out g root (proj1 HI) Hl) in H. cbn [push_undiscovered fold_left] in H.
  cbn [mem existsb] in H. rewrite Nat.eqb_refl in H. cbn [orb negb] in H.
  unfold lit_diffs_body in H. rewrite Hl in H. discriminate.
Qed.

Definition nonzero (l : Z) : Prop := l <> 0%Z.

Lemma seq_ge1 n : Forall (fun f => 1 <= f /\ @PF nonzero f) (seq 1 n).
Proof. apply Forall_forall. intros f Hf. apply in_seq in Hf. unfold PF, nonzero. lia. Qed.

Lemma nonzero_opp l : nonzero l -> nonzero (- l)%Z.
Proof. unfold nonzero. lia. Qed.

(* the stages of load_d4_gen *)
Lemma load_stages rc ord toks n0 C n' : load_d4_gen rc ord toks n0 = Some (C, n') ->
  exists b root1 s1 g2 s3 order,
    d4_lines rc (mkBS (mkLS sg_empty [] []) [] [] n0) toks = Some b /\
    sg_alive (ls_g (bs_ls b)) 0 = true /\
    add_free rc (bs_occ b) (seq 1 (bs_total b)) 0 (bs_ls b) = Some (root1, s1) /\
    pass2 (ls_g s1) root1 = Some g2 /\
    pass3 rc ord (with_g s1 g2) root1 = Some s3 /\
    sg_alive (ls_g s3) root1 = true /\
    dfs_post_order (to_graph (ls_g s3)) root1 = Some order /\
    flatten (to_graph (ls_g s3)) order [] [] = Some C /\ n' = bs_total b.
Proof.
  intros H. unfold load_d4_gen, load_d4_gen_with in H. fold (build_d4_graph rc ord) in H.
  destruct (build_d4_graph rc ord toks n0) as [[[g root] total]|] eqn:Eb; [|discriminate].
  destruct (negb (sg_alive g root)) eqn:Hroot; [discriminate|]. apply negb_false_iff in Hroot.
  destruct (dfs_post_order (to_graph g) root) as [order|] eqn:Ed; [|discriminate].
  destruct (flatten (to_graph g) order [] []) as [C0|] eqn:Ef; [|discriminate].
  cbn [option_map] in H. injection H as <- <-.
  unfold build_d4_graph, build_d4_graph_with in Eb.
  destruct (d4_lines rc _ toks) as [b|] eqn:El; [|discriminate].
  destruct (negb (sg_alive (ls_g (bs_ls b)) 0)) eqn:H0; [discriminate|]. apply negb_false_iff in H0.
  destruct (add_free rc (bs_occ b) (seq 1 (bs_total b)) 0 (bs_ls b)) as [[root1 s1]|] eqn:Efree; [|discriminate].
  destruct (pass2 (ls_g s1) root1) as [g2|] eqn:E2; [|discriminate].
  destruct (pass3 rc ord (with_g s1 g2) root1) as [s3|] eqn:E3; [|discriminate].
  injection Eb as <- <- <-.
  exists b, root1, s1, g2, s3, order. repeat split; assumption.
Qed.

(* ---------- the theorem ---------- *)
Section Main.
Variables (rc : bool) (ord : list nat -> list nat).
Hypothesis Hord : forall l f, In f (ord l) -> In f l.

Theorem load_d4_gen_sem toks n0 C n' : d4_ok toks ->
  load_d4_gen rc ord toks n0 = Some (C, n') ->
  n' = Nat.max n0 (d4_maxvar toks) /\ forall a, eval_root a C = eval_d4 toks a.
Proof.
  intros [Hnz [b0 Hterm]] H.
  destruct (load_stages rc ord toks n0 C n' H) as [b [root1 [s1 [g2 [s3 [order [El [H0 [Efree [E2 [E3 [Hroot [Ed [Ef ->]]]]]]]]]]]]]].
  (* the line loop *)
  assert (HR : rep nonzero false n0 toks b).
  { apply (rep_lines (P := nonzero) (st := false) rc toks n0 toks [] _ b (rep_init n0) eq_refl); [|exact El].
    intros from to fs Hin. split; [exact (Hnz from to fs Hin)|discriminate]. }
  split; [exact (rp_total _ _ _ _ _ HR)|]. intros a.
  destruct (eval_d4_opt_indep toks _ a _ _ _ Hterm) as [bv Hbv].
  unfold eval_d4. rewrite Hbv.
  destruct (rep_sem _ _ n0 toks b a HR _ _ _ Hbv) as [x [_ [Hx Hv0]]]. cbn [Nat.sub] in Hx.
  rewrite (rp_first _ _ _ _ _ HR x Hx) in Hv0.
  (* free features *)
  assert (Hok0 : tables_ok nonzero false (bs_ls b)).
  { split; [exact (rp_core _ _ _ _ _ HR)|]. intros f o Hfo. rewrite (rp_tri _ _ _ _ _ HR) in Hfo. discriminate. }
  destruct (add_free_spec rc _ _ _ _ _ Hok0 H0 (seq_ge1 _) Efree) as [Hok1 [Hfree _]].
  pose proof (free_result_val _ _ _ a bv Hfree Hv0) as Hv1.
  (* true / false elimination *)
  destruct (pass2_shrink _ _ _ (co_inv _ _ _ (proj1 Hok1)) E2) as [HI2 Hs2].
  pose proof (tables_ok_shrink _ _ s1 g2 Hok1 HI2 (fun E => False_ind _ (Bool.diff_false_true E)) Hs2) as Hok2.
  assert (Hr2 : sg_alive g2 root1 = true).
  { unfold pass3 in E3. cbn [with_g ls_g] in E3.
    destruct (get_literal_diffs g2 root1) as [m|] eqn:Em; [|discriminate].
    exact (get_literal_diffs_root g2 root1 m HI2 Em). }
  pose proof (sh_val _ _ Hs2 a root1 bv Hr2 Hv1) as Hv2.
  (* smoothing *)
  destruct (pass3_grow rc ord Hord (P := nonzero) (st := false) (fun l H => H) nonzero_opp _ _ _ Hok2 E3) as [_ Hg3]. cbn [with_g ls_g] in Hg3.
  pose proof (gr_val _ _ Hg3 a root1 bv Hv2) as Hv3.
  (* rebuild *)
  exact (rebuild_sem (ls_g s3) a root1 order C bv Ed Ef Hv3).
Qed.
End Main.

Theorem load_d4_sem toks n C n' : d4_ok toks -> load_d4 toks n = Some (C, n') ->
  n' = Nat.max n (d4_maxvar toks) /\ forall a, eval_root a C = eval_d4 toks a.
Proof. intros Hok H. apply (load_d4_gen_sem true (fun l => l)); auto. Qed.
