(* C09 pipeline: the semantic side.  "The literal list A is valid at node r" = the count of r with
   the complementary leaves of A zeroed is positive (cA, Proofs/C03Proof.v) = some partial
   configuration enumerated at r does not contradict A.  This is exactly what the cached SAT calls
   of the sampler decide (C03 call_inv).  Facts: monotonicity, locality (only literals over the
   variables below r matter), And / Or nodes, witnesses, downward closure of coverage, the root. *)
From Coq Require Import List ZArith Bool Arith Lia Permutation.
From DD Require Import Model.Circuit Model.Query Proofs.PassLemmas Proofs.Enum Proofs.Semantics
  Proofs.CountsA Proofs.QueryDefs Proofs.Live Proofs.C03Proof Proofs.TwiseBase.
Import ListNotations.
Open Scope Z_scope.

Lemma zprod_pos_iff (l : list Z) : (forall x, In x l -> 0 <= x) ->
  (0 < zprod l <-> forall x, In x l -> 0 < x).
Proof.
  intros Hnn. pose proof (zprod_nonneg l Hnn) as H0. split.
  - intros Hp x Hx. specialize (Hnn x Hx).
    destruct (Z.eq_dec x 0) as [->|Hne]; [|lia].
    apply zprod_zero in Hx. lia.
  - intros Hall. destruct (Z.eq_dec (zprod l) 0) as [Hz|Hz]; [|lia].
    apply zprod_zero in Hz. specialize (Hall 0 Hz). lia.
Qed.

Lemma pairwise_map_in {A B} (p : B -> B -> bool) (f : A -> B) (l : list A) x y :
  pairwise p (map f l) = true -> In x l -> In y l -> x <> y ->
  p (f x) (f y) = true \/ p (f y) (f x) = true.
Proof.
  induction l as [|a l IH]; intros Hp Hx Hy Hne; [destruct Hx|].
  cbn [map pairwise] in Hp. apply andb_true_iff in Hp. destruct Hp as [Hp1 Hp2].
  rewrite forallb_forall in Hp1.
  destruct Hx as [->|Hx], Hy as [->|Hy].
  - congruence.
  - left. apply Hp1. now apply in_map.
  - right. apply Hp1. now apply in_map.
  - now apply IH.
Qed.

Lemma Forall2_len {A B} (R : A -> B -> Prop) l1 l2 : Forall2 R l1 l2 -> length l1 = length l2.
Proof. induction 1; cbn; congruence. Qed.

Lemma zseq_length s k : length (zseq s k) = k.
Proof. revert s. induction k as [|k IH]; intros s; cbn; [reflexivity|now rewrite IH]. Qed.

Section Sem.
Variables (C : circuit) (n : nat).
Hypothesis HQ : WFQ C n.

Let HWF : WF C n := wfq_wf C n HQ.
Let Hok : idx_ok C = true := wf_idx C n HWF.

Definition V (i : nat) : list Z := nth i (varss C) [].
Definition valid (r : nat) (A : cfg) : Prop := 0 < cA C A r.

Lemma valid_mono r A A' : (r < length C)%nat -> incl A' A -> valid r A -> valid r A'.
Proof.
  intros Hr Hinc Hv. unfold valid in *.
  pose proof (cA_bounds C n HQ A' r Hr) as Hb.
  destruct (Z.eq_dec (cA C A' r) 0) as [Hz|Hz]; [|lia].
  rewrite (cA_zero_mono C n HQ A' A Hinc r Hr Hz) in Hv. lia.
Qed.

Lemma valid_equiv r A A' : (r < length C)%nat -> incl A' A -> incl A A' -> (valid r A <-> valid r A').
Proof. intros Hr H1 H2. split; apply valid_mono; assumption. Qed.

Lemma valid_live r A : (r < length C)%nat -> valid r A -> 0 < cnt C r.
Proof. intros Hr Hv. unfold valid in Hv. pose proof (cA_bounds C n HQ A r Hr). lia. Qed.

Lemma valid_nil r : (r < length C)%nat -> 0 < cnt C r -> valid r [].
Proof. intros Hr H. unfold valid. now rewrite <- cnt_cA. Qed.

Lemma cA_false A i : (i < length C)%nat -> nth i C FalseN = FalseN -> cA C A i = 0.
Proof. intros Hi E. unfold cA. rewrite (countsA_unfold A C i 0 Hok Hi), E. reflexivity. Qed.

Lemma V_unfold i : (i < length C)%nat -> V i = vars_node (varss C) (nth i C FalseN).
Proof. intros Hi. unfold V. apply (varss_unfold C Hok i Hi). Qed.

Lemma vars_child p j : (p < length C)%nat -> In j (children (nth p C FalseN)) -> incl (V j) (V p).
Proof.
  intros Hp Hj v Hv. rewrite (V_unfold p Hp).
  destruct (nth p C FalseN) as [l|cs|cs| |]; cbn [children vars_node] in *; try contradiction;
    apply in_concat; exists (nth j (varss C) []); (split; [|exact Hv]); apply in_map_iff; now exists j.
Qed.

(* only the literals over the variables below a node matter *)
Lemma cA_restrict A B : forall i, (i < length C)%nat ->
  (forall l, In (Z.abs l) (V i) -> (In l A <-> In l B)) -> cA C A i = cA C B i.
Proof.
  apply (idx_induction C (fun i => (forall l, In (Z.abs l) (V i) -> (In l A <-> In l B)) ->
                                   cA C A i = cA C B i) Hok).
  intros i Hi IH Hagree.
  assert (Hch : forall c, In c (children (nth i C FalseN)) -> cA C A c = cA C B c).
  { intros c Hc. apply IH; [exact Hc|]. intros l Hl. apply Hagree. now apply (vars_child i c Hi Hc). }
  pose proof (V_unfold i Hi) as HV.
  destruct (nth i C FalseN) as [l|cs|cs| |] eqn:E; cbn [children vars_node] in *.
  - rewrite (cA_lit C n HQ A i l Hi E), (cA_lit C n HQ B i l Hi E).
    assert (Hl : In (- l) A <-> In (- l) B).
    { apply Hagree. rewrite HV. left. now rewrite Z.abs_opp. }
    destruct (memZ (- l) A) eqn:EA, (memZ (- l) B) eqn:EB; try reflexivity.
    + apply memZ_In in EA. apply Hl in EA. apply memZ_In in EA. congruence.
    + apply memZ_In in EB. apply Hl in EB. apply memZ_In in EB. congruence.
  - rewrite (cA_and C n HQ A i cs Hi E), (cA_and C n HQ B i cs Hi E). f_equal. now apply map_ext_in.
  - rewrite (cA_or C n HQ A i cs Hi E), (cA_or C n HQ B i cs Hi E). f_equal. now apply map_ext_in.
  - now rewrite !(cA_true C n HQ _ i Hi E).
  - now rewrite !(cA_false _ i Hi E).
Qed.

Lemma cA_novars A i : (i < length C)%nat -> (forall l, In l A -> ~ In (Z.abs l) (V i)) ->
  cA C A i = cnt C i.
Proof.
  intros Hi H. rewrite cnt_cA. apply cA_restrict; [exact Hi|].
  intros l Hl. split; [intros HA; exfalso; exact (H l HA Hl)|intros []].
Qed.

(* ---------- And ---------- *)
Lemma and_valid_iff A i cs : (i < length C)%nat -> nth i C FalseN = And cs ->
  (valid i A <-> forall c, In c cs -> valid c A).
Proof.
  intros Hi E. unfold valid. rewrite (cA_and C n HQ A i cs Hi E).
  assert (Hnn : forall x, In x (map (cA C A) cs) -> 0 <= x).
  { intros x Hx. apply in_map_iff in Hx. destruct Hx as [c [<- Hc]].
    assert (c < i)%nat by (apply (child_lt C n HQ i c Hi); now rewrite E).
    apply (cA_bounds C n HQ A c). lia. }
  rewrite (zprod_pos_iff _ Hnn). split.
  - intros H c Hc. apply H. now apply in_map.
  - intros H x Hx. apply in_map_iff in Hx. destruct Hx as [c [<- Hc]]. now apply H.
Qed.

Lemma decomp_disjoint i cs c c' : (i < length C)%nat -> nth i C FalseN = And cs ->
  In c cs -> In c' cs -> c <> c' -> forall v, In v (V c) -> ~ In v (V c').
Proof.
  intros Hi E Hc Hc' Hne v Hv Hv'.
  pose proof (wf_dec C n HWF) as Hdec. unfold decomposable in Hdec. rewrite forallb_forall in Hdec.
  specialize (Hdec _ (node_in C i Hi)). rewrite E in Hdec. cbn [decomposable_node] in Hdec.
  destruct (pairwise_map_in disjointb (fun c0 => nth c0 (varss C) []) cs c c' Hdec Hc Hc' Hne) as [H|H].
  - exact (proj1 (disjointb_spec _ _) H v Hv Hv').
  - exact (proj1 (disjointb_spec _ _) H v Hv' Hv).
Qed.

Definition Aligned (cs : list nat) (W : list Z) : Prop :=
  forall c, In c cs -> incl (V c) W \/ (forall v, In v (V c) -> ~ In v W).

Lemma and_valid_union i cs A B WA WB : (i < length C)%nat -> nth i C FalseN = And cs ->
  Aligned cs WA -> (forall v, In v WA -> ~ In v WB) ->
  (forall l, In l A -> In (Z.abs l) WA) -> (forall l, In l B -> In (Z.abs l) WB) ->
  valid i A -> valid i B -> valid i (A ++ B).
Proof.
  intros Hi E Hal Hdis HA HB HvA HvB.
  apply (and_valid_iff (A ++ B) i cs Hi E). intros c Hc.
  pose proof (proj1 (and_valid_iff A i cs Hi E) HvA c Hc) as HcA.
  pose proof (proj1 (and_valid_iff B i cs Hi E) HvB c Hc) as HcB.
  assert (Hci : (c < length C)%nat).
  { assert (c < i)%nat by (apply (child_lt C n HQ i c Hi); now rewrite E). lia. }
  unfold valid in *. destruct (Hal c Hc) as [Hin|Hout].
  - rewrite (cA_restrict (A ++ B) A c Hci); [exact HcA|].
    intros l Hl. rewrite in_app_iff. split; [|now left]. intros [H|H]; [exact H|].
    exfalso. exact (Hdis _ (Hin _ Hl) (HB l H)).
  - rewrite (cA_restrict (A ++ B) B c Hci); [exact HcB|].
    intros l Hl. rewrite in_app_iff. split; [|now right]. intros [H|H]; [|exact H].
    exfalso. exact (Hout _ Hl (HA l H)).
Qed.

Lemma and_child_lift i cs c A : (i < length C)%nat -> nth i C FalseN = And cs -> 0 < cnt C i ->
  In c cs -> (forall l, In l A -> In (Z.abs l) (V c)) -> valid c A -> valid i A.
Proof.
  intros Hi E Hpos Hc HA Hv. apply (and_valid_iff A i cs Hi E). intros c' Hc'.
  destruct (Nat.eq_dec c' c) as [->|Hne]; [exact Hv|].
  assert (Hci : (c' < length C)%nat).
  { assert (c' < i)%nat by (apply (child_lt C n HQ i c' Hi); now rewrite E). lia. }
  unfold valid. rewrite (cA_novars A c' Hci).
  - assert (Hn : valid i []) by now apply valid_nil.
    pose proof (proj1 (and_valid_iff [] i cs Hi E) Hn c' Hc') as Hn'. unfold valid in Hn'. now rewrite cnt_cA.
  - intros l Hl Hv'. exact (decomp_disjoint i cs c c' Hi E Hc Hc' (fun H => Hne (eq_sym H)) _ (HA l Hl) Hv').
Qed.

Lemma and_child_aligned i cs c : (i < length C)%nat -> nth i C FalseN = And cs -> In c cs ->
  Aligned cs (V c).
Proof.
  intros Hi E Hc c' Hc'. destruct (Nat.eq_dec c' c) as [->|Hne]; [left; apply incl_refl|].
  right. intros v Hv. exact (decomp_disjoint i cs c' c Hi E Hc' Hc Hne v Hv).
Qed.

Lemma and_vars i cs c : (i < length C)%nat -> nth i C FalseN = And cs -> In c cs -> incl (V c) (V i).
Proof. intros Hi E Hc. apply vars_child; [exact Hi|]. now rewrite E. Qed.

(* ---------- Or ---------- *)
Lemma or_valid_iff A i cs : (i < length C)%nat -> nth i C FalseN = Or cs ->
  (valid i A <-> exists c, In c cs /\ valid c A).
Proof.
  intros Hi E. unfold valid. pose proof (or_children_zero C n HQ A i cs Hi E) as Hz.
  pose proof (cA_bounds C n HQ A i Hi) as Hb. split.
  - intros Hp. destruct (existsb (fun c => 0 <? cA C A c) cs) eqn:Eex.
    + apply existsb_exists in Eex. destruct Eex as [c [Hc Hlt]]. exists c. split; [exact Hc|now apply Z.ltb_lt].
    + exfalso. assert (cA C A i = 0); [|lia]. apply Hz. intros c Hc.
      assert (Hci : (c < length C)%nat).
      { assert (c < i)%nat by (apply (child_lt C n HQ i c Hi); now rewrite E). lia. }
      pose proof (cA_bounds C n HQ A c Hci).
      destruct (Z.ltb_spec 0 (cA C A c)) as [Hlt|Hge]; [|lia].
      assert (existsb (fun c0 => 0 <? cA C A c0) cs = true); [|congruence].
      apply existsb_exists. exists c. split; [exact Hc|now apply Z.ltb_lt].
  - intros [c [Hc Hv]]. destruct (Z.eq_dec (cA C A i) 0) as [H0|H0]; [|lia].
    rewrite Hz in H0. specialize (H0 c Hc). lia.
Qed.

Lemma or_vars_eq i cs c : (i < length C)%nat -> nth i C FalseN = Or cs -> In c cs ->
  forall v, In v (V c) <-> In v (V i).
Proof.
  intros Hi E Hc v. split.
  - apply vars_child; [exact Hi|]. now rewrite E.
  - intros Hv. pose proof (wf_smooth C n HWF) as Hsm. unfold smooth in Hsm. rewrite forallb_forall in Hsm.
    specialize (Hsm _ (node_in C i Hi)). rewrite E in Hsm. cbn [smooth_node] in Hsm.
    rewrite forallb_forall in Hsm. specialize (Hsm c Hc). rewrite inclb_incl in Hsm.
    apply Hsm. rewrite (V_unfold i Hi), E in Hv. exact Hv.
Qed.

(* ---------- witnesses ---------- *)
Lemma enum_good r e : (r < length C)%nat -> In e (nth r (enums C) []) -> Good e (V r).
Proof. intros Hr He. exact (cfg_struct C Hok (wf_dec C n HWF) (wf_smooth C n HWF) r Hr e He). Qed.

Lemma lits_of_nonzero l : In l (lits_of C) -> l <> 0.
Proof.
  intros Hl. pose proof (wfq_nonzero C n HQ) as H. unfold lits_nonzero in H.
  rewrite forallb_forall in H. specialize (H l Hl). apply negb_true_iff, Z.eqb_neq in H. exact H.
Qed.

Lemma enum_nonzero r e : (r < length C)%nat -> In e (nth r (enums C) []) -> ~ In 0 e.
Proof. intros Hr He H0. exact (lits_of_nonzero 0 (enum_lits C n HQ r Hr e 0 He H0) eq_refl). Qed.

Lemma valid_witness r A : (r < length C)%nat -> valid r A ->
  exists e, In e (nth r (enums C) []) /\ okA A e = true.
Proof.
  intros Hr Hv. unfold valid, cA in Hv. rewrite (countsA_filter A C Hok r Hr) in Hv.
  destruct (filter (okA A) (nth r (enums C) [])) as [|e l] eqn:E; [cbn in Hv; lia|].
  assert (Hin : In e (filter (okA A) (nth r (enums C) []))) by (rewrite E; now left).
  apply filter_In in Hin. now exists e.
Qed.

Lemma witness_valid r A e : (r < length C)%nat -> In e (nth r (enums C) []) -> okA A e = true ->
  valid r A.
Proof.
  intros Hr He Hok'. unfold valid, cA. rewrite (countsA_filter A C Hok r Hr).
  assert (Hin : In e (filter (okA A) (nth r (enums C) []))) by (apply filter_In; now split).
  destruct (filter (okA A) (nth r (enums C) [])); [destruct Hin|cbn; lia].
Qed.

Lemma okA_incl A e W : Good e W -> (forall l, In l A -> In (Z.abs l) W) -> okA A e = true -> incl A e.
Proof.
  intros [_ HG] HA Hok' l Hl. specialize (HA l Hl). apply HG in HA.
  apply in_map_iff in HA. destruct HA as [x [Habs Hx]].
  assert (x = l \/ x = - l) as [->| ->] by lia; [exact Hx|].
  unfold okA in Hok'. rewrite forallb_forall in Hok'. specialize (Hok' _ Hx).
  rewrite Z.opp_involutive in Hok'. apply negb_true_iff, memZ_false in Hok'. contradiction.
Qed.

Lemma incl_okA A e : NoDup (map Z.abs e) -> ~ In 0 e -> incl A e -> okA A e = true.
Proof.
  intros Hnd H0 Hinc. unfold okA. apply forallb_forall. intros x Hx.
  apply negb_true_iff, memZ_false. intros Hin. apply Hinc in Hin.
  assert (- x = x) by (apply (NoDup_map_inj_in Z.abs e (- x) x Hnd Hin Hx); now rewrite Z.abs_opp).
  assert (x = 0) by lia. subst. contradiction.
Qed.

Lemma valid_incl_witness r A : (r < length C)%nat -> (forall l, In l A -> In (Z.abs l) (V r)) ->
  valid r A -> exists e, In e (nth r (enums C) []) /\ incl A e.
Proof.
  intros Hr HA Hv. destruct (valid_witness r A Hr Hv) as [e [He Hoke]].
  exists e. split; [exact He|]. exact (okA_incl A e (V r) (enum_good r e Hr He) HA Hoke).
Qed.

Lemma incl_witness_valid r A e : (r < length C)%nat -> In e (nth r (enums C) []) -> incl A e -> valid r A.
Proof.
  intros Hr He Hinc. apply (witness_valid r A e Hr He).
  apply incl_okA; [apply (enum_good r e Hr He)|exact (enum_nonzero r e Hr He)|exact Hinc].
Qed.

(* a valid literal list over the variables of r is consistent and made of leaves of the circuit *)
Lemma valid_lits r A : (r < length C)%nat -> (forall l, In l A -> In (Z.abs l) (V r)) -> valid r A ->
  (forall l, In l A -> In l (lits_of C)) /\ (forall l, In l A -> ~ In (- l) A).
Proof.
  intros Hr HA Hv. destruct (valid_incl_witness r A Hr HA Hv) as [e [He Hinc]]. split.
  - intros l Hl. exact (enum_lits C n HQ r Hr e l He (Hinc l Hl)).
  - intros l Hl Hnl. apply Hinc in Hl. apply Hinc in Hnl.
    destruct (enum_good r e Hr He) as [Hnd _].
    assert (- l = l) by (apply (NoDup_map_inj_in Z.abs e (- l) l Hnd Hnl Hl); now rewrite Z.abs_opp).
    assert (l = 0) by lia. subst. exact (enum_nonzero r e Hr He Hl).
Qed.

(* ... and, at a REACHABLE node (Proofs/Live.v), of LIVE leaves: the witness configuration of r
   extends to a configuration of the root.  This is what keeps the core shortcut of sat_propagate
   (the core is relative to the root, and since F22 it ignores dead branches) out of the way. *)
Lemma enum_live r e : Reach C r -> In e (nth r (enums C) []) -> forall l, In l e -> LiveLit C l.
Proof.
  intros HR He l Hl. destruct (live_up C Hok r HR e He) as [c [Hc Hinc]].
  apply (live_lit_enum C Hok l (wf_nonempty C n HWF)). exists c. split; [exact Hc|now apply Hinc].
Qed.

Lemma valid_live_lits r A : (r < length C)%nat -> Reach C r ->
  (forall l, In l A -> In (Z.abs l) (V r)) -> valid r A -> forall l, In l A -> LiveLit C l.
Proof.
  intros Hr HR HA Hv l Hl. destruct (valid_incl_witness r A Hr HA Hv) as [e [He Hinc]].
  exact (enum_live r e HR He l (Hinc l Hl)).
Qed.

Lemma live_lit_of l : LiveLit C l -> In l (lits_of C).
Proof. intros H. apply in_lits_of_iff. now apply live_lit_leaf. Qed.

(* the children of a reachable node with a positive count are reachable *)
Lemma reach_kid p j : (p < length C)%nat -> Reach C p -> 0 < cnt C p ->
  In j (children (nth p C FalseN)) -> Reach C j.
Proof. intros Hp HR Hpos Hj. apply (reach_child C p j HR Hp); [|exact Hj]. unfold cnt in Hpos. lia. Qed.

(* ---------- downward closure of coverage ---------- *)
Lemma cover_down r (Vs : list Z) (tt : nat) (Cov : cfg -> Prop) :
  (r < length C)%nat -> NoDup Vs -> incl Vs (V r) -> (tt <= length Vs)%nat ->
  (forall I J, incl I J -> Cov J -> Cov I) ->
  (forall I, NoDup (map Z.abs I) -> (forall l, In l I -> In (Z.abs l) Vs) -> length I = tt ->
             valid r I -> Cov I) ->
  forall I, NoDup (map Z.abs I) -> (forall l, In l I -> In (Z.abs l) Vs) -> (length I <= tt)%nat ->
            valid r I -> Cov I.
Proof.
  intros Hr HVs HVr Htt Hmono Hcov I HI HIv HIl Hv.
  assert (HIr : forall l, In l I -> In (Z.abs l) (V r)) by (intros l Hl; apply HVr; now apply HIv).
  destruct (valid_incl_witness r I Hr HIr Hv) as [e [He Hinc]].
  destruct (enum_good r e Hr He) as [Hnde Hsete].
  pose (E' := filter (fun l => memZ (Z.abs l) Vs) e).
  assert (HndI : NoDup I) by (apply (NoDup_map_inv Z.abs); exact HI).
  assert (HndE : NoDup E') by (apply NoDup_filter; apply (NoDup_map_inv Z.abs); exact Hnde).
  assert (HIE : incl I E').
  { intros l Hl. apply filter_In. split; [now apply Hinc|]. apply memZ_In. now apply HIv. }
  assert (HlenE : length E' = length Vs).
  { rewrite <- (map_length Z.abs E'). apply NoDup_same_length; [now apply NoDup_map_filter|exact HVs|].
    intros v. split.
    - intros Hin. apply in_map_iff in Hin. destruct Hin as [l [<- Hl]]. apply filter_In in Hl.
      destruct Hl as [_ Hl]. now apply memZ_In.
    - intros Hin. assert (Hin' : In v (map Z.abs e)) by (apply Hsete; now apply HVr).
      apply in_map_iff in Hin'. destruct Hin' as [l [<- Hl]]. apply in_map. apply filter_In.
      split; [exact Hl|now apply memZ_In]. }
  destruct (extend_sub I E' tt HndI HndE HIE ltac:(lia)) as [J [HJ1 [HJ2 [HJ3 HJ4]]]].
  assert (HJe : incl J e) by (intros l Hl; apply HJ3 in Hl; apply filter_In in Hl; tauto).
  apply (Hmono I J HJ2). apply Hcov.
  - exact (NoDup_map_sub Z.abs e J Hnde HJ1 HJe).
  - intros l Hl. apply HJ3 in Hl. apply filter_In in Hl. destruct Hl as [_ Hl]. now apply memZ_In.
  - exact HJ4.
  - exact (incl_witness_valid r J e Hr He HJe).
Qed.

(* ---------- the root ---------- *)
Lemma root_vars : range_set n (V (root C)).
Proof.
  unfold V. pose proof (complete_range C n (wf_complete C n HWF)) as H.
  assert (E : last (varss C) [] = nth (root C) (varss C) []).
  { unfold root. rewrite last_nth. unfold varss. now rewrite pass_length. }
  now rewrite <- E.
Qed.

Lemma root_lt' : (root C < length C)%nat.
Proof. apply root_lt. apply HWF. Qed.

(* every variable below a node is below the root (all_reachable) *)
Lemma parent_exists j : (j < root C)%nat ->
  exists p, (j < p <= root C)%nat /\ In j (children (nth p C FalseN)).
Proof.
  intros Hj. pose proof (wfq_reach C n HQ) as Hr. unfold all_reachable in Hr. rewrite forallb_forall in Hr.
  assert (Hin : In j (seq 0 (length C - 1))) by (apply in_seq; unfold root in Hj; lia).
  specialize (Hr j Hin). unfold has_parent in Hr. apply existsb_exists in Hr. destruct Hr as [nd [Hnd Hj']].
  apply existsb_exists in Hj'. destruct Hj' as [j' [Hj' E]]. apply Nat.eqb_eq in E. subst j'.
  destruct (In_nth C nd FalseN Hnd) as [p [Hp Hnth]]. exists p. subst nd. split; [|exact Hj'].
  pose proof (idx_ok_nth C p FalseN Hok Hp j Hj'). unfold root. lia.
Qed.

Lemma V_below_root : forall k j, (root C - j <= k)%nat -> (j <= root C)%nat -> incl (V j) (V (root C)).
Proof.
  induction k as [|k IH]; intros j Hd Hj.
  - replace j with (root C) by lia. apply incl_refl.
  - destruct (Nat.eq_dec j (root C)) as [->|Hne]; [apply incl_refl|].
    destruct (parent_exists j ltac:(lia)) as [p [Hp Hc]].
    eapply incl_tran; [apply (vars_child p j); [pose proof root_lt'; lia|exact Hc]|].
    apply IH; lia.
Qed.

Lemma V_inr r v : (r < length C)%nat -> In v (V r) -> 1 <= v <= Z.of_nat n.
Proof.
  intros Hr Hv. apply root_vars. apply (V_below_root (root C) r); [lia|unfold root; lia|exact Hv].
Qed.

Lemma lits_inr l : In l (lits_of C) -> 1 <= Z.abs l <= Z.of_nat n.
Proof.
  intros Hl. apply in_lits_of in Hl. destruct (In_nth C (Lit l) FalseN Hl) as [j [Hj Hnth]].
  apply (V_inr j); [exact Hj|]. rewrite (V_unfold j Hj), Hnth. now left.
Qed.

Lemma root_model (lits : cfg) :
  In lits (all_cfgs n) -> NoDup (map Z.abs lits) -> ~ In 0 lits ->
  valid (root C) lits -> In lits (Models C n).
Proof.
  intros Hall Hnd H0 Hv. pose proof root_lt' as Hr. pose proof root_vars as HV.
  assert (Hshape : Forall2 (fun v l => l = v \/ l = - v) (zseq 1 n) lits) by (now apply in_all_cfgs_over).
  assert (Hlen : length lits = n).
  { apply Forall2_len in Hshape. rewrite zseq_length in Hshape. now symmetry. }
  assert (Hrange : forall l, In l lits -> In (Z.abs l) (V (root C))).
  { intros l Hl. apply HV. clear - Hshape Hl. revert Hl.
    assert (Hz : forall v, In v (zseq 1 n) -> 1 <= v <= Z.of_nat n) by (intros v Hv; apply zseq_In in Hv; lia).
    revert Hz. induction Hshape as [|v x vs ls Hx HF IH]; intros Hz Hl; [destruct Hl|].
    destruct Hl as [<-|Hl].
    - specialize (Hz v (or_introl eq_refl)). destruct Hx; subst; lia.
    - apply IH; [|exact Hl]. intros w Hw. apply Hz. now right. }
  destruct (valid_incl_witness (root C) lits Hr Hrange Hv) as [e [He Hinc]].
  destruct (enum_good (root C) e Hr He) as [Hnde Hsete].
  assert (Hlene : length e = n).
  { rewrite <- (map_length Z.abs e). rewrite <- (map_length Z.abs lits) in Hlen.
    transitivity (length (zseq 1 n)).
    - apply NoDup_same_length; [exact Hnde|apply zseq_NoDup|]. intros v.
      rewrite Hsete. rewrite (HV v). rewrite zseq_In. lia.
    - apply zseq_length. }
  assert (Hback : incl e lits).
  { apply NoDup_length_incl; [apply (NoDup_map_inv Z.abs); exact Hnd|lia|exact Hinc]. }
  unfold Models. apply filter_In. split; [exact Hall|].
  rewrite eval_root_enum. apply existsb_exists. exists e. split; [now rewrite enum_root_nth|].
  pose proof (sat_self lits Hnd H0) as Hself. unfold sat_cfg in *. rewrite forallb_forall in *.
  intros x Hx. apply Hself. now apply Hback.
Qed.

End Sem.
