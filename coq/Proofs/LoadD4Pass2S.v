(* Structural facts about the second traversal (true / false elimination), next to the semantic
   ones of LoadD4Pass2.v: child lists only lose elements (sublist), a surviving and node keeps
   every child that is not a true node, a surviving or node every child that is neither a false
   node nor removed, only dead nodes are removed, an or node becomes a true node only below a
   true child; only and / or nodes have outgoing edges (srcs_ok). *)
From Coq Require Import List ZArith Bool Lia Arith.
From DD Require Import Model.Circuit Model.LoadC2d Model.LoadD4 Proofs.LoadD4Graph Proofs.LoadD4Ops
  Proofs.LoadD4Fold Proofs.LoadD4Flat Proofs.LoadD4Iso Proofs.LoadD4Pass2.
Import ListNotations.
Local Open Scope nat_scope.

Inductive sublist {A} : list A -> list A -> Prop :=
| sl_nil : sublist [] []
| sl_skip x l1 l2 : sublist l1 l2 -> sublist l1 (x :: l2)
| sl_keep x l1 l2 : sublist l1 l2 -> sublist (x :: l1) (x :: l2).

Lemma sublist_refl {A} (l : list A) : sublist l l.
Proof. induction l as [|x l IH]; [constructor|now apply sl_keep]. Qed.
Lemma sublist_nil {A} (l : list A) : sublist [] l.
Proof. induction l as [|x l IH]; [constructor|now apply sl_skip]. Qed.
Lemma sublist_trans {A} (l1 l2 l3 : list A) : sublist l1 l2 -> sublist l2 l3 -> sublist l1 l3.
Proof.
  intros H12 H23. revert l1 H12. induction H23 as [|x l2 l3 _ IH|x l2 l3 _ IH]; intros l1 H12.
  - exact H12.
  - constructor. now apply IH.
  - inversion H12; subst; constructor; now apply IH.
Qed.
Lemma sublist_In {A} (l1 l2 : list A) x : sublist l1 l2 -> In x l1 -> In x l2.
Proof. induction 1; intros Hin; [destruct Hin|right; auto|destruct Hin as [<-|Hin]; [now left|right; auto]]. Qed.
Lemma sublist_NoDup {A} (l1 l2 : list A) : sublist l1 l2 -> NoDup l2 -> NoDup l1.
Proof.
  induction 1 as [|x l1 l2 H IH|x l1 l2 H IH]; intros Hnd; [constructor| |]; inversion Hnd; subst; auto.
  constructor; auto. intros Hin. apply (sublist_In _ _ _ H) in Hin. contradiction.
Qed.
Lemma sublist_filter {A} (p : A -> bool) l : sublist (filter p l) l.
Proof. induction l as [|x l IH]; cbn [filter]; [constructor|]. destruct (p x); [now apply sl_keep|now apply sl_skip]. Qed.
Lemma sublist_remove1 c l : sublist (remove1 c l) l.
Proof.
  induction l as [|y l IH]; cbn [remove1]; [constructor|].
  destruct (Nat.eqb y c); [apply sl_skip, sublist_refl|now apply sl_keep].
Qed.
Lemma in_remove1_or c a l : In a l -> In a (remove1 c l) \/ a = c.
Proof.
  induction l as [|y l IH]; [intros []|]. cbn [remove1]. destruct (Nat.eqb_spec y c) as [->|Hy].
  - intros [<-|H]; [now right|now left].
  - intros [<-|H]; [left; now left|]. destruct (IH H) as [H'|H']; [left; now right|now right].
Qed.

Record shrink2 (g g' : sgraph) : Prop := {
  s2_sub : forall x, sublist (sg_out g' x) (sg_out g x);
  s2_and : forall x c, sg_label g' x = Some GAnd -> In c (sg_out g x) ->
           In c (sg_out g' x) \/ sg_label g' c = Some GTrue;
  s2_or : forall x c, sg_label g' x = Some GOr -> In c (sg_out g x) ->
          In c (sg_out g' x) \/ sg_label g c = Some GFalse \/ sg_alive g' c = false;
  s2_dead : forall x, sg_alive g x = true -> sg_alive g' x = false -> gdead g x;
  s2_true : forall x, sg_label g x = Some GOr -> sg_label g' x = Some GTrue ->
            exists c, In c (sg_out g x) /\ sg_label g' c = Some GTrue
}.

Lemma shrink2_refl g : shrink2 g g.
Proof.
  constructor; auto.
  - intros x. apply sublist_refl.
  - intros x Ha Hd. congruence.
  - intros x H1 H2. congruence.
Qed.

(* labels backwards along shrink *)
Lemma shrink_label_back g g' x t : shrink g g' -> sg_label g' x = Some t -> t <> GTrue -> sg_label g x = Some t.
Proof.
  intros Hs Hl Ht. destruct (sh_label _ _ Hs x) as [E|[_ E]]; [unfold sg_alive; now rewrite Hl|congruence|congruence].
Qed.

Lemma gdead_back g g' x : shrink g g' -> shrink2 g g' -> gdead g' x -> gdead g x.
Proof.
  intros Hs H2. induction 1 as [x c Hl Hc Hf|x c Hl Hc _ IH].
  - apply (gd_false g x c); [apply (shrink_label_back g g'); auto; discriminate|exact (sublist_In _ _ _ (s2_sub _ _ H2 x) Hc)|].
    apply (shrink_label_back g g'); auto; discriminate.
  - apply (gd_dead g x c); [apply (shrink_label_back g g'); auto; discriminate|exact (sublist_In _ _ _ (s2_sub _ _ H2 x) Hc)|exact IH].
Qed.

Lemma shrink2_trans g1 g2 g3 : shrink g1 g2 -> shrink g2 g3 -> shrink2 g1 g2 -> shrink2 g2 g3 -> shrink2 g1 g3.
Proof.
  intros S12 S23 H12 H23. constructor.
  - intros x. exact (sublist_trans _ _ _ (s2_sub _ _ H23 x) (s2_sub _ _ H12 x)).
  - intros x c Hl Hc. assert (Hl2 : sg_label g2 x = Some GAnd) by (apply (shrink_label_back g2 g3); auto; discriminate).
    destruct (s2_and _ _ H12 x c Hl2 Hc) as [H|H].
    + exact (s2_and _ _ H23 x c Hl H).
    + right. apply (sh_keep _ _ S23 c _ H); discriminate.
  - intros x c Hl Hc. assert (Hl2 : sg_label g2 x = Some GOr) by (apply (shrink_label_back g2 g3); auto; discriminate).
    destruct (s2_or _ _ H12 x c Hl2 Hc) as [H|[H|H]].
    + destruct (s2_or _ _ H23 x c Hl H) as [H'|[H'|H']]; [now left| |right; now right].
      right. left. apply (shrink_label_back g1 g2); auto; discriminate.
    + right. now left.
    + right. right. destruct (sg_alive g3 c) eqn:E; [|reflexivity]. now rewrite (shrink_alive g2 g3 c S23 E) in H.
  - intros x Ha Hd. destruct (sg_alive g2 x) eqn:E2.
    + apply (gdead_back g1 g2 x S12 H12). now apply (s2_dead _ _ H23).
    + now apply (s2_dead _ _ H12).
  - intros x Hl1 Hl3. destruct (sh_or _ _ S12 x Hl1) as [Hl2|Hl2].
    + destruct (s2_true _ _ H23 x Hl2 Hl3) as [c [Hc Hlc]]. exists c. split; [|exact Hlc].
      exact (sublist_In _ _ _ (s2_sub _ _ H12 x) Hc).
    + destruct (s2_true _ _ H12 x Hl1 Hl2) as [c [Hc Hlc]]. exists c. split; [exact Hc|].
      apply (sh_keep _ _ S23 c _ Hlc); discriminate.
Qed.

(* ---------- srcs_ok under the primitives ---------- *)
Lemma srcs_ok_sub g g' : srcs_ok g -> (forall e, In e (sg_edges g') -> In e (sg_edges g)) ->
  (forall a b, In (a, b) (sg_edges g') -> sg_label g' a = sg_label g a) -> srcs_ok g'.
Proof.
  intros H Hsub Hlab a b Hab. unfold gate_at. rewrite (Hlab a b Hab). apply (H a b). now apply Hsub.
Qed.

(* ---------- the steps ---------- *)
Record step_ok (g g' : sgraph) : Prop := {
  so_inv : Inv g';
  so_src : srcs_ok g';
  so_sh : shrink g g';
  so_s2 : shrink2 g g'
}.

Lemma step_ok_refl g : Inv g -> srcs_ok g -> step_ok g g.
Proof. intros. constructor; auto; [apply shrink_refl|apply shrink2_refl]. Qed.

Lemma step_ok_trans g1 g2 g3 : step_ok g1 g2 -> step_ok g2 g3 -> step_ok g1 g3.
Proof.
  intros [I2 R2 S12 H12] [I3 R3 S23 H23]. constructor; auto.
  - exact (shrink_trans _ _ _ S12 S23).
  - exact (shrink2_trans _ _ _ S12 S23 H12 H23).
Qed.

Lemma remove_neutral_step g nx c : Inv g -> srcs_ok g ->
  (sg_label g nx = Some GAnd /\ sg_label g c = Some GTrue) \/
  (sg_label g nx = Some GOr /\ sg_label g c = Some GFalse) ->
  step_ok g (remove_edge nx c g).
Proof.
  intros HI Hsrc Hcase. constructor.
  - now apply remove_edge_Inv.
  - apply (srcs_ok_sub g); [exact Hsrc|intros e He; now apply remove_first_incl in He|reflexivity].
  - now apply remove_neutral_shrink.
  - constructor.
    + intros x. destruct (Nat.eq_dec x nx) as [->|Hne].
      * rewrite remove_edge_out_same. apply sublist_remove1.
      * rewrite remove_edge_out_other by exact Hne. apply sublist_refl.
    + intros x c' Hl Hc'. rewrite remove_edge_label in *. destruct (Nat.eq_dec x nx) as [->|Hne].
      * rewrite remove_edge_out_same. destruct (in_remove1_or c c' _ Hc') as [H| ->]; [now left|].
        right. destruct Hcase as [[_ E]|[E _]]; congruence.
      * rewrite remove_edge_out_other by exact Hne. now left.
    + intros x c' Hl Hc'. rewrite remove_edge_label in *. destruct (Nat.eq_dec x nx) as [->|Hne].
      * rewrite remove_edge_out_same. destruct (in_remove1_or c c' _ Hc') as [H| ->]; [now left|].
        right. left. destruct Hcase as [[E _]|[_ E]]; congruence.
      * rewrite remove_edge_out_other by exact Hne. now left.
    + intros x Ha Hd. unfold sg_alive in *. rewrite remove_edge_label in Hd. congruence.
    + intros x H1 H2. rewrite remove_edge_label in H2. congruence.
Qed.

Lemma or_true_step g nx c : Inv g -> srcs_ok g -> sg_label g nx = Some GOr ->
  In c (sg_out g nx) -> sg_label g c = Some GTrue ->
  step_ok g (remove_out_edges nx (set_label nx GTrue g)).
Proof.
  intros HI Hsrc Hnx Hc Hlc.
  assert (Hcn : c <> nx) by (intros ->; congruence).
  constructor.
  - now apply (or_true_Inv g nx).
  - intros a b Hab. cbn [remove_out_edges set_label sg_edges] in Hab. apply filter_In in Hab.
    destruct Hab as [Hab Hne]. cbn [fst] in Hne. apply negb_true_iff, Nat.eqb_neq in Hne.
    unfold gate_at. rewrite (or_true_label_other g nx a Hne). now apply (Hsrc a b).
  - now apply (or_true_shrink g nx c).
  - constructor.
    + intros x. rewrite remove_out_edges_out, set_label_out. destruct (Nat.eqb x nx); [apply sublist_nil|apply sublist_refl].
    + intros x c' Hl Hc'. assert (Hne : x <> nx) by (intros ->; rewrite (or_true_label_same g nx Hnx) in Hl; discriminate).
      left. now rewrite (or_true_out_other g nx x Hne).
    + intros x c' Hl Hc'. assert (Hne : x <> nx) by (intros ->; rewrite (or_true_label_same g nx Hnx) in Hl; discriminate).
      left. now rewrite (or_true_out_other g nx x Hne).
    + intros x Ha Hd. exfalso. unfold sg_alive in *. destruct (Nat.eq_dec x nx) as [->|Hne].
      * now rewrite (or_true_label_same g nx Hnx) in Hd.
      * rewrite (or_true_label_other g nx x Hne) in Hd. congruence.
    + intros x H1 H2. destruct (Nat.eq_dec x nx) as [->|Hne].
      * exists c. split; [exact Hc|]. now rewrite (or_true_label_other g nx c Hcn).
      * rewrite (or_true_label_other g nx x Hne) in H2. congruence.
Qed.

Lemma chain_step g g' R : Inv g -> srcs_ok g -> chain_inv g g' R [] -> step_ok g g'.
Proof.
  intros HI Hsrc HC. pose proof HC as [Hm Hj _ Hu Hd].
  assert (Hout : forall x, ~ In x R -> sg_out g' x = filter (fun c => negb (mem c R)) (sg_out g x)).
  { intros x Hx. unfold sg_out at 1. rewrite (mi_edges _ _ _ Hm).
    fold (outs (filter (notin R) (sg_edges g)) x). now rewrite (outs_notin R _ x Hx). }
  assert (Hvac : forall x, In x R -> sg_out g' x = []).
  { intros x Hx. apply vacant_no_out; [apply (mi_inv _ _ _ Hm)|apply (mi_dead _ _ _ Hm x Hx)]. }
  assert (Hnr : forall x t, sg_label g' x = Some t -> ~ In x R).
  { intros x t Hl Hin. destruct (mi_dead _ _ _ Hm x Hin) as [_ E]. congruence. }
  constructor.
  - apply (mi_inv _ _ _ Hm).
  - intros a b Hab. rewrite (mi_edges _ _ _ Hm) in Hab. apply filter_In in Hab. destruct Hab as [Hab Hn].
    unfold notin in Hn. cbn [fst snd] in Hn. apply andb_true_iff in Hn. destruct Hn as [Hn _].
    apply negb_true_iff, mem_notIn in Hn. unfold gate_at. rewrite (mi_live _ _ _ Hm a Hn). now apply (Hsrc a b).
  - now apply (chain_shrink g g' R).
  - constructor.
    + intros x. destruct (in_dec Nat.eq_dec x R) as [Hin|Hnin].
      * rewrite (Hvac x Hin). apply sublist_nil.
      * rewrite (Hout x Hnin). apply sublist_filter.
    + intros x c Hl Hc. pose proof (Hnr x _ Hl) as Hx. left. rewrite (Hout x Hx). apply filter_In. split; [exact Hc|].
      apply negb_true_iff, mem_notIn. intros Hin. apply in_outs in Hc.
      rewrite (mi_live _ _ _ Hm x Hx) in Hl. destruct (Hu c x Hin Hc Hl) as [Hr|[]]. now apply Hx.
    + intros x c Hl Hc. pose proof (Hnr x _ Hl) as Hx. destruct (in_dec Nat.eq_dec c R) as [Hin|Hnin].
      * right. right. unfold sg_alive. now rewrite (proj2 (mi_dead _ _ _ Hm c Hin)).
      * left. rewrite (Hout x Hx). apply filter_In. split; [exact Hc|]. now apply negb_true_iff, mem_notIn.
    + intros x Ha Hdx. apply Hd. destruct (in_dec Nat.eq_dec x R) as [Hin|Hnin]; [exact Hin|].
      unfold sg_alive in *. rewrite (mi_live _ _ _ Hm x Hnin) in Hdx. congruence.
    + intros x H1 H2. rewrite (mi_live _ _ _ Hm x (Hnr x _ H2)) in H2. congruence.
Qed.

Lemma walk2_step nx t : forall cs g g', Inv g -> srcs_ok g -> sg_label g nx = Some t ->
  (forall c, In c cs ->
     (t = GAnd /\ sg_label g c = Some GFalse) \/ (t = GOr /\ sg_label g c = Some GTrue) ->
     In c (sg_out g nx)) ->
  walk2 g nx t cs = Some g' -> step_ok g g'.
Proof.
  induction cs as [|c r IH]; intros g g' HI Hsrc Hn Hcs H; cbn [walk2] in H.
  - injection H as <-. now apply step_ok_refl.
  - assert (Hr : forall c', In c' r ->
       (t = GAnd /\ sg_label g c' = Some GFalse) \/ (t = GOr /\ sg_label g c' = Some GTrue) ->
       In c' (sg_out g nx)) by (intros c' Hc'; apply Hcs; now right).
    assert (Hstep : forall g1, step_ok g g1 -> sg_label g1 nx = Some t ->
       (forall c', In c' r -> (t = GAnd /\ sg_label g1 c' = Some GFalse) \/ (t = GOr /\ sg_label g1 c' = Some GTrue) ->
                   In c' (sg_out g1 nx)) ->
       walk2 g1 nx t r = Some g' -> step_ok g g').
    { intros g1 H1 Hn1 Hr1 Hw. apply (step_ok_trans g g1 g'); [exact H1|].
      exact (IH g1 g' (so_inv _ _ H1) (so_src _ _ H1) Hn1 Hr1 Hw). }
    destruct (sg_label g c) as [[l| | | |]|] eqn:Hc; try exact (IH g g' HI Hsrc Hn Hr H).
    + destruct t; try discriminate.
      * apply (Hstep (remove_edge nx c g)); [apply remove_neutral_step; auto|exact Hn| |exact H].
        intros c' Hc' Hl'. rewrite remove_edge_label in Hl'. rewrite remove_edge_out_same.
        destruct Hl' as [[_ Hl']|[E _]]; [|discriminate].
        apply in_remove1_neq; [intros ->; congruence|apply Hr; [exact Hc'|left; now split]].
      * injection H as <-. apply (or_true_step g nx c); auto. apply Hcs; [now left|right; now split].
    + destruct t; try discriminate.
      * destruct (del_chain_inv g (sg_fuel g) g nx [] [] g') as [R' HC]; [|exact H|now apply (chain_step g g' R')].
        assert (Hin : In c (sg_out g nx)) by (apply Hcs; [now left|left; now split]).
        constructor.
        -- constructor; [exact HI|intros x []|reflexivity|now rewrite notin_nil].
        -- intros x [].
        -- intros q [<-|[]] _ _. exists c. split; [exact Hin|now left].
        -- intros x p [].
        -- intros x [].
      * apply (Hstep (remove_edge nx c g)); [apply remove_neutral_step; auto|exact Hn| |exact H].
        intros c' Hc' Hl'. rewrite remove_edge_label in Hl'. rewrite remove_edge_out_same.
        destruct Hl' as [[E _]|[_ Hl']]; [discriminate|].
        apply in_remove1_neq; [intros ->; congruence|apply Hr; [exact Hc'|right; now split]].
Qed.

Theorem pass2_struct g root g' : Inv g -> srcs_ok g -> pass2 g root = Some g' -> step_ok g g'.
Proof.
  intros HI Hsrc H. unfold pass2 in H.
  apply (dfs_fold_invariant sg_out pass2_body (fun g1 => step_ok g g1)) in H; [exact H| |now apply step_ok_refl].
  intros g1 x g2 H1 Hb. apply (step_ok_trans g g1 g2); [exact H1|].
  unfold pass2_body in Hb. destruct (sg_label g1 x) as [t|] eqn:Hn.
  - apply (walk2_step x t (sg_out g1 x) g1 g2 (so_inv _ _ H1) (so_src _ _ H1) Hn); [|exact Hb]. intros c Hc _. exact Hc.
  - injection Hb as <-. apply step_ok_refl; [exact (so_inv _ _ H1)|exact (so_src _ _ H1)].
Qed.
