(* C08, cross mode: from the final partition of the signed literals to the reported list.
   sort_and_clean_atomicsets (sort every class by feature, sort the classes by (|first|, first), drop
   a class whose first feature equals that of the previously kept class) keeps of every mirrored pair
   of classes the one whose smallest feature occurs negatively: exactly cross_spec. *)
From Coq Require Import List ZArith Bool Lia Permutation.
From DD Require Import Model.Circuit Model.Query Model.Enumerate Model.Atomic
  Proofs.Semantics Proofs.CountsA Proofs.QueryDefs Proofs.AtomicSort Proofs.AtomicUF Proofs.AtomicSem
  Proofs.AtomicMain Proofs.AtomicFinal.
Import ListNotations.
Open Scope Z_scope.

(* ---- dedup_by on a sorted list keeps the first element of every run of equal keys ---- *)
Section Dedup.
Context {T : Type} (K : T -> Z) (lt2 : T -> T -> Prop).
Hypothesis lt2_key : forall a b, lt2 a b -> K a <= K b.
Hypothesis lt2_asym : forall a b, lt2 a b -> lt2 b a -> False.
Let same (a b : T) : bool := K a =? K b.

Lemma dedup_aux_in (l : list T) : forall prev x, ssorted lt2 (prev :: l) ->
  (In x (dedup_aux same prev l) <->
   In x l /\ K x <> K prev /\ forall y, In y l -> K y = K x -> x = y \/ lt2 x y).
Proof.
  induction l as [|z r IH]; intros prev x Hs; cbn [dedup_aux].
  - cbn. tauto.
  - destruct Hs as [Hprev [Hz Hr]].
    assert (Es : same z prev = (K z =? K prev)) by reflexivity. rewrite Es. clear Es.
    destruct (K z =? K prev) eqn:E.
    + apply Z.eqb_eq in E. rewrite IH.
      2:{ split; [intros y Hy; apply Hprev; now right|exact Hr]. }
      split.
      * intros [Hx [Hk Hfirst]]. split; [now right|]. split; [exact Hk|].
        intros y [<-|Hy] Hky; [congruence|now apply Hfirst].
      * intros [[->|Hx] [Hk Hfirst]]; [congruence|]. split; [exact Hx|]. split; [exact Hk|].
        intros y Hy. apply Hfirst. now right.
    + apply Z.eqb_neq in E. cbn [In]. rewrite IH by (split; [exact Hz|exact Hr]).
      assert (Hlt : K prev < K z).
      { specialize (Hprev z (or_introl eq_refl)). apply lt2_key in Hprev. lia. }
      split.
      * intros [<-|[Hx [Hk Hfirst]]].
        -- split; [now left|]. split; [exact E|]. intros y [<-|Hy] _; [now left|right; now apply Hz].
        -- split; [now right|]. split.
           ++ specialize (Hz x Hx). apply lt2_key in Hz. lia.
           ++ intros y [<-|Hy] Hky; [congruence|now apply Hfirst].
      * intros [[<-|Hx] [Hk Hfirst]]; [now left|].
        destruct (Z.eq_dec (K x) (K z)) as [Ekz|Ekz].
        -- destruct (Hfirst z (or_introl eq_refl) (eq_sym Ekz)) as [->|Hlt2]; [now left|].
           exfalso. exact (lt2_asym x z Hlt2 (Hz x Hx)).
        -- right. split; [exact Hx|]. split; [exact Ekz|]. intros y Hy. apply Hfirst. now right.
Qed.

Lemma dedup_in (l : list T) (x : T) : ssorted lt2 l ->
  (In x (dedup_by same l) <-> In x l /\ forall y, In y l -> K y = K x -> x = y \/ lt2 x y).
Proof.
  destruct l as [|x0 r]; intros Hs; cbn [dedup_by]; [cbn; tauto|].
  cbn [In]. rewrite (dedup_aux_in r x0 x Hs). destruct Hs as [Hx0 Hr]. split.
  - intros [<-|[Hx [Hk Hfirst]]].
    + split; [now left|]. intros y [<-|Hy] _; [now left|right; now apply Hx0].
    + split; [now right|]. intros y [<-|Hy] Hky; [congruence|now apply Hfirst].
  - intros [[<-|Hx] Hfirst]; [now left|].
    destruct (Z.eq_dec (K x) (K x0)) as [Ek|Ek].
    + destruct (Hfirst x0 (or_introl eq_refl) (eq_sym Ek)) as [->|Hlt2]; [now left|].
      exfalso. exact (lt2_asym x x0 Hlt2 (Hx0 x Hx)).
    + right. split; [exact Hx|]. split; [exact Ek|]. intros y Hy. apply Hfirst. now right.
Qed.

Lemma dedup_aux_sorted (l : list T) : forall prev, ssorted lt2 (prev :: l) ->
  ssorted (fun a b => K a < K b) (dedup_aux same prev l) /\
  forall x, In x (dedup_aux same prev l) -> K prev < K x.
Proof.
  induction l as [|z r IH]; intros prev Hs; cbn [dedup_aux].
  - split; [exact I|intros x []].
  - destruct Hs as [Hprev [Hz Hr]].
    assert (Es : same z prev = (K z =? K prev)) by reflexivity. rewrite Es. clear Es.
    destruct (K z =? K prev) eqn:E.
    + apply IH. split; [intros y Hy; apply Hprev; now right|exact Hr].
    + apply Z.eqb_neq in E.
      assert (Hlt : K prev < K z).
      { specialize (Hprev z (or_introl eq_refl)). apply lt2_key in Hprev. lia. }
      destruct (IH z (conj Hz Hr)) as [IH1 IH2]. split.
      * split; [exact IH2|exact IH1].
      * intros x [<-|Hx]; [exact Hlt|]. specialize (IH2 x Hx). lia.
Qed.

Lemma dedup_sorted (l : list T) : ssorted lt2 l -> ssorted (fun a b => K a < K b) (dedup_by same l).
Proof.
  destruct l as [|x0 r]; intros Hs; cbn [dedup_by]; [exact I|].
  destruct (dedup_aux_sorted r x0 Hs) as [H1 H2]. split; [exact H2|exact H1].
Qed.
End Dedup.

(* ---- lists ascending in absolute value ---- *)
Notation absasc := (ssorted (fun a b : Z => Z.abs a < Z.abs b)).

Lemma absasc_unique (l1 l2 : list Z) :
  absasc l1 -> absasc l2 -> (forall x, In x l1 <-> In x l2) -> l1 = l2.
Proof. apply ssorted_unique; intros; lia. Qed.

Lemma absasc_inj (l : list Z) (a b : Z) : absasc l -> In a l -> In b l -> Z.abs a = Z.abs b -> a = b.
Proof.
  induction l as [|x l IH]; intros Hs Ha Hb Hab; [destruct Ha|]. destruct Hs as [Hx Hs].
  destruct Ha as [->|Ha], Hb as [->|Hb]; [reflexivity| | |now apply IH].
  - specialize (Hx b Hb). lia.
  - specialize (Hx a Ha). lia.
Qed.

Lemma absasc_hd_min (l : list Z) (x : Z) : absasc l -> In x l -> Z.abs (hd 0 l) <= Z.abs x.
Proof.
  destruct l as [|a l]; intros Hs Hx; [destruct Hx|]. cbn [hd].
  destruct Hx as [->|Hx]; [lia|]. destruct Hs as [Ha _]. specialize (Ha x Hx). lia.
Qed.

Lemma absasc_hd_is (l : list Z) (h : Z) :
  absasc l -> In h l -> (forall x, In x l -> Z.abs h <= Z.abs x) -> hd 0 l = h.
Proof.
  intros Hs Hh Hmin. assert (Hne : l <> []) by (intros ->; destruct Hh).
  pose proof (hd_In l 0 Hne) as Hhd. apply (absasc_inj l); [exact Hs|exact Hhd|exact Hh|].
  pose proof (absasc_hd_min l h Hs Hh). specialize (Hmin _ Hhd). lia.
Qed.

Lemma absle_total (x y : Z) : abs_le x y = false -> abs_le y x = true.
Proof. unfold abs_le. intros H. apply Z.leb_gt in H. apply Z.leb_le. lia. Qed.
Lemma absle_trans (x y z : Z) : abs_le x y = true -> abs_le y z = true -> abs_le x z = true.
Proof. unfold abs_le. rewrite !Z.leb_le. lia. Qed.

(* sorting a list without two members of equal absolute value by abs *)
Lemma sort_abs_absasc (l : list Z) :
  NoDup l -> (forall a b, In a l -> In b l -> Z.abs a = Z.abs b -> a = b) ->
  absasc (sort_by abs_le l).
Proof.
  intros Hnd Hinj.
  apply (ssorted_impl_nodup (fun a b => abs_le a b = true)).
  - apply (Permutation_NoDup (Permutation_sym (sort_by_perm abs_le l)) Hnd).
  - intros x y Hx Hy Hne Hle. apply sort_by_In in Hx, Hy. unfold abs_le in Hle. apply Z.leb_le in Hle.
    assert (Z.abs x <> Z.abs y) by (intros E; apply Hne; now apply Hinj). lia.
  - apply sort_by_sorted; [exact absle_total|exact absle_trans].
Qed.

Lemma head_key_le_total (a b : list Z) : head_key_le a b = false -> head_key_le b a = true.
Proof.
  unfold head_key_le. intros H. apply orb_false_iff in H. destruct H as [H1 H2]. apply Z.ltb_ge in H1.
  apply orb_true_iff. destruct (Z.eq_dec (Z.abs (hd 0 a)) (Z.abs (hd 0 b))) as [E|E].
  - right. rewrite E in *. rewrite Z.eqb_refl in *. cbn [andb] in *. apply Z.leb_gt in H2. apply Z.leb_le. lia.
  - left. apply Z.ltb_lt. lia.
Qed.

Lemma head_key_le_spec (a b : list Z) :
  head_key_le a b = true <->
  Z.abs (hd 0 a) < Z.abs (hd 0 b) \/ (Z.abs (hd 0 a) = Z.abs (hd 0 b) /\ hd 0 a <= hd 0 b).
Proof.
  unfold head_key_le. rewrite orb_true_iff, andb_true_iff, Z.ltb_lt, Z.eqb_eq, Z.leb_le. tauto.
Qed.

Lemma head_key_le_trans (a b c : list Z) :
  head_key_le a b = true -> head_key_le b c = true -> head_key_le a c = true.
Proof. rewrite !head_key_le_spec. lia. Qed.

Lemma Disj_map_NoDup (F : list Z -> list Z) (u : uf) :
  (forall c z, In z (F c) <-> In z c) ->
  Disj u -> (forall c, In c u -> c <> []) -> NoDup (map F u).
Proof.
  intros HF. induction 1 as [|c u Hd HD IH]; intros Hne; cbn [map]; constructor.
  - intros Hin. apply in_map_iff in Hin. destruct Hin as [c' [E Hc']].
    assert (Hc : c <> []) by (apply Hne; now left).
    destruct c as [|z c]; [congruence|].
    apply (Hd z c' (or_introl eq_refl) Hc'). apply HF. rewrite E. apply HF. now left.
  - apply IH. intros c' Hc'. apply Hne. now right.
Qed.

Section CrossFinal.
Variables (r : Z -> Z -> bool) (Rp : Z -> Z -> Prop).
Hypothesis Hr : forall a b, r a b = true <-> Rp a b.
Hypothesis R_refl : forall a, Rp a a.
Hypothesis R_sym : forall a b, Rp a b -> Rp b a.
Hypothesis R_trans : forall a b c, Rp a b -> Rp b c -> Rp a c.

Variable cs : list Z.
Hypothesis cs_nodup : NoDup cs.
Hypothesis cs_pos : forall f, In f cs -> 0 < f.
Notation s := (sortZ cs).
Notation Ls := (flat_map (fun f => [f; - f]) cs).

Hypothesis R_opp : forall a b, In a Ls -> In b Ls -> Rp a b -> Rp (- a) (- b).
Hypothesis R_nself : forall a, In a Ls -> ~ Rp a (- a).

Variable u : uf.
Hypothesis HI : UFInv Rp (fun l => In l Ls) u.
Hypothesis Hcomplete : forall a b, In a Ls -> In b Ls -> Rp a b -> same_class u a b.

Lemma in_Ls (z : Z) : In z Ls <-> In z cs \/ In (- z) cs.
Proof.
  rewrite in_flat_map. split.
  - intros [f [Hf [<-|[<-|[]]]]]; [now left|right; now rewrite Z.opp_involutive].
  - intros [H|H]; [exists z; split; [exact H|now left]|].
    exists (- z). split; [exact H|]. right. left. apply Z.opp_involutive.
Qed.

Lemma Ls_opp (z : Z) : In z Ls -> In (- z) Ls.
Proof. rewrite !in_Ls, Z.opp_involutive. tauto. Qed.

Lemma Ls_nonzero (z : Z) : In z Ls -> z <> 0.
Proof. rewrite in_Ls. intros [H|H]; apply cs_pos in H; lia. Qed.

Lemma in_s' (x : Z) : In x s <-> In x cs.
Proof. apply sort_by_In. Qed.

Lemma s_asc' : ssorted Z.lt s.
Proof. now apply sortZ_lt. Qed.

(* members of a class *)
Lemma class_members (c : list Z) (x : Z) : In c u -> In x c ->
  forall z, In z c <-> In z Ls /\ Rp x z.
Proof.
  intros Hc Hx z. split.
  - intros Hz. split; [exact (uf_dom _ _ _ HI c z Hc Hz)|exact (uf_sound _ _ _ HI c x z Hc Hx Hz)].
  - intros [Hz HR]. destruct (Hcomplete x z (uf_dom _ _ _ HI c x Hc Hx) Hz HR) as [<-|[c' [Hc' [Hxc Hzc]]]]; [exact Hx|].
    assert (c' = c) by exact (Disj_unique u c' c x (uf_disj _ _ _ HI) Hc' Hc Hxc Hx). now subst c'.
Qed.

Lemma class_abs_inj (c : list Z) (a b : Z) : In c u -> In a c -> In b c -> Z.abs a = Z.abs b -> a = b.
Proof.
  intros Hc Ha Hb Hab. destruct (Z.eq_dec a b) as [E|E]; [exact E|]. exfalso.
  assert (b = - a) by lia. subst b.
  apply (R_nself a (uf_dom _ _ _ HI c a Hc Ha)). exact (uf_sound _ _ _ HI c a (- a) Hc Ha Hb).
Qed.

(* the normal form of a class: members by ascending feature *)
Definition nf (c : list Z) : list Z := sort_by abs_le (sortZ c).

Lemma nf_In (c : list Z) (z : Z) : In z (nf c) <-> In z c.
Proof. unfold nf. now rewrite !sort_by_In. Qed.

Lemma nf_length (c : list Z) : length (nf c) = length c.
Proof. unfold nf. now rewrite !sort_by_length. Qed.

Lemma nf_absasc (c : list Z) : In c u -> absasc (nf c).
Proof.
  intros Hc. unfold nf. apply sort_abs_absasc.
  - apply (Permutation_NoDup (Permutation_sym (sort_by_perm Z.leb c))). exact (uf_nodup _ _ _ HI c Hc).
  - intros a b Ha Hb. apply sort_by_In in Ha, Hb. now apply (class_abs_inj c).
Qed.

Lemma nf_nonempty (c : list Z) : In c u -> nf c <> [].
Proof.
  intros Hc E. apply (f_equal (@length Z)) in E. rewrite nf_length in E.
  pose proof (uf_len _ _ _ HI c Hc). cbn in E. lia.
Qed.

Lemma nf_hd_in (c : list Z) : In c u -> In (hd 0 (nf c)) c.
Proof. intros Hc. apply nf_In. apply hd_In. now apply nf_nonempty. Qed.

(* every class has its mirror image in the partition *)
Lemma mirror (c0 : list Z) : In c0 u -> exists c1, In c1 u /\ forall z, In z c1 <-> In (- z) c0.
Proof.
  intros Hc0. pose proof (nf_hd_in c0 Hc0) as Ha. set (a := hd 0 (nf c0)) in *.
  destruct (two_members c0 a (uf_nodup _ _ _ HI c0 Hc0) (uf_len _ _ _ HI c0 Hc0)) as [b [Hb Hba]].
  pose proof (uf_dom _ _ _ HI c0 a Hc0 Ha) as La. pose proof (uf_dom _ _ _ HI c0 b Hc0 Hb) as Lb.
  pose proof (uf_sound _ _ _ HI c0 a b Hc0 Ha Hb) as Rab.
  destruct (Hcomplete (- a) (- b) (Ls_opp a La) (Ls_opp b Lb) (R_opp a b La Lb Rab)) as [E|[c1 [Hc1 [Ha1 Hb1]]]]; [lia|].
  exists c1. split; [exact Hc1|]. intros z.
  rewrite (class_members c1 (- a) Hc1 Ha1 z), (class_members c0 a Hc0 Ha (- z)). split.
  - intros [Lz Rz]. split; [now apply Ls_opp|].
    pose proof (R_opp (- a) z (Ls_opp a La) Lz Rz) as H. now rewrite Z.opp_involutive in H.
  - intros [Lz Rz]. split; [rewrite <- (Z.opp_involutive z); now apply Ls_opp|].
    pose proof (R_opp a (- z) La Lz Rz) as H. now rewrite Z.opp_involutive in H.
Qed.

Lemma mirror_hd (c0 c1 : list Z) : In c0 u -> In c1 u -> (forall z, In z c1 <-> In (- z) c0) ->
  hd 0 (nf c1) = - hd 0 (nf c0).
Proof.
  intros Hc0 Hc1 Hm. apply absasc_hd_is; [now apply nf_absasc| |].
  - apply nf_In, Hm. rewrite Z.opp_involutive. now apply nf_hd_in.
  - intros x Hx. apply nf_In, Hm in Hx. apply nf_In in Hx.
    pose proof (absasc_hd_min (nf c0) (- x) (nf_absasc c0 Hc0) Hx). lia.
Qed.

(* ---- the specification side ---- *)
Definition xmin (f : Z) : bool :=
  forallb (fun g => negb (r (- f) g || r (- f) (- g)) || (f <=? g)) s.

Lemma cross_spec_unfold :
  cross_spec r cs = filter (fun c => Nat.leb 2 (length c)) (map (cross_class r s) (filter xmin s)).
Proof. reflexivity. Qed.

Lemma in_cross_class (l : list Z) (f z : Z) :
  In z (cross_class r l f) <->
  exists g, In g l /\ ((r (- f) g = true /\ z = g) \/
                       (r (- f) g = false /\ r (- f) (- g) = true /\ z = - g)).
Proof.
  unfold cross_class. rewrite in_flat_map. split.
  - intros [g [Hg Hz]]. exists g. split; [exact Hg|].
    destruct (r (- f) g) eqn:E1; [destruct Hz as [<-|[]]; left; auto|].
    destruct (r (- f) (- g)) eqn:E2; [destruct Hz as [<-|[]]; right; auto|destruct Hz].
  - intros [g [Hg [[E1 ->]|[E1 [E2 ->]]]]]; exists g; (split; [exact Hg|]); rewrite E1; [now left|].
    rewrite E2. now left.
Qed.

Lemma cross_class_members (f z : Z) : In f cs ->
  In z (cross_class r s f) <-> In z Ls /\ Rp (- f) z.
Proof.
  intros Hf. rewrite in_cross_class. split.
  - intros [g [Hg [[E1 ->]|[E1 [E2 ->]]]]]; apply in_s' in Hg.
    + split; [apply in_Ls; now left|now apply Hr].
    + split; [apply in_Ls; right; now rewrite Z.opp_involutive|now apply Hr].
  - intros [Lz Rz]. apply in_Ls in Lz. destruct Lz as [Hz|Hz].
    + exists z. split; [now apply in_s'|]. left. split; [now apply Hr|reflexivity].
    + exists (- z). split; [now apply in_s'|]. right. rewrite Z.opp_involutive.
      split; [|split; [now apply Hr|reflexivity]].
      apply not_true_is_false. intros E. apply Hr in E.
      apply (R_nself z); [apply in_Ls; now right|].
      apply (R_trans z (- f) (- z)); [now apply R_sym|exact E].
Qed.

Lemma cross_class_absasc (f : Z) (l : list Z) :
  ssorted Z.lt l -> (forall g, In g l -> 0 < g) -> absasc (cross_class r l f).
Proof.
  induction l as [|x l IH]; intros Hs Hpos; [exact I|]. destruct Hs as [Hx Hs].
  assert (Hposx : 0 < x) by (apply Hpos; now left).
  assert (IH' : absasc (cross_class r l f)) by (apply IH; [exact Hs|intros g Hg; apply Hpos; now right]).
  assert (Hrest : forall y, In y (cross_class r l f) -> x < Z.abs y).
  { intros y Hy. apply in_cross_class in Hy. destruct Hy as [g [Hg Hy]].
    specialize (Hx g Hg). assert (0 < g) by (apply Hpos; now right).
    destruct Hy as [[_ ->]|[_ [_ ->]]]; lia. }
  unfold cross_class in *. cbn [flat_map].
  destruct (r (- f) x); [|destruct (r (- f) (- x))]; cbn [app]; [| |exact IH'].
  - split; [|exact IH']. intros y Hy. specialize (Hrest y Hy). lia.
  - split; [|exact IH']. intros y Hy. specialize (Hrest y Hy). lia.
Qed.

Lemma in_cross_spec (c : list Z) :
  In c (cross_spec r cs) <->
  exists f, In f cs /\ xmin f = true /\ c = cross_class r s f /\ (2 <= length c)%nat.
Proof.
  rewrite cross_spec_unfold, filter_In, in_map_iff. split.
  - intros [[f [<- Hf]] Hlen]. apply filter_In in Hf. destruct Hf as [Hf Hmin].
    exists f. rewrite <- in_s'. apply Nat.leb_le in Hlen. auto.
  - intros [f [Hf [Hmin [-> Hlen]]]]. split; [|now apply Nat.leb_le].
    exists f. split; [reflexivity|]. apply filter_In. rewrite in_s'. auto.
Qed.

Lemma xmin_spec (f : Z) : In f cs ->
  (xmin f = true <-> forall z, In z Ls -> Rp (- f) z -> f <= Z.abs z).
Proof.
  intros Hf. unfold xmin. rewrite forallb_forall. split.
  - intros H z Lz Rz. apply in_Ls in Lz. destruct Lz as [Hz|Hz].
    + specialize (H z (proj2 (in_s' z) Hz)). apply orb_true_iff in H.
      replace (r (- f) z) with true in H by (symmetry; now apply Hr). cbn in H.
      destruct H as [H|H]; [discriminate|]. apply Z.leb_le in H. lia.
    + specialize (H (- z) (proj2 (in_s' (- z)) Hz)). apply orb_true_iff in H.
      rewrite Z.opp_involutive in H.
      replace (r (- f) z) with true in H by (symmetry; now apply Hr). rewrite orb_true_r in H. cbn in H.
      destruct H as [H|H]; [discriminate|]. apply Z.leb_le in H. lia.
  - intros H g Hg. apply in_s' in Hg. pose proof (cs_pos g Hg) as Hpos.
    destruct (r (- f) g) eqn:E1.
    + cbn. apply Z.leb_le. apply Hr in E1. specialize (H g (proj2 (in_Ls g) (or_introl Hg)) E1). lia.
    + destruct (r (- f) (- g)) eqn:E2; [|reflexivity]. cbn. apply Z.leb_le. apply Hr in E2.
      assert (Lg : In (- g) Ls) by (apply in_Ls; right; now rewrite Z.opp_involutive).
      specialize (H (- g) Lg E2). lia.
Qed.

(* the class of the literal -f, for a minimal f, starts with -f *)
Lemma hd_cross_class (f : Z) : In f cs -> xmin f = true -> hd 0 (cross_class r s f) = - f.
Proof.
  intros Hf Hmin. pose proof (cs_pos f Hf) as Hpos.
  assert (Lf : In (- f) Ls) by (apply in_Ls; right; now rewrite Z.opp_involutive).
  apply absasc_hd_is.
  - apply cross_class_absasc; [exact s_asc'|]. intros g Hg. apply in_s' in Hg. now apply cs_pos.
  - apply cross_class_members; [exact Hf|]. split; [exact Lf|apply R_refl].
  - intros x Hx. apply cross_class_members in Hx; [|exact Hf]. destruct Hx as [Lx Rx].
    pose proof (proj1 (xmin_spec f Hf) Hmin x Lx Rx). lia.
Qed.

(* a class whose smallest feature occurs negatively is the cross_class of that feature *)
Lemma class_nf (c0 : list Z) : In c0 u -> hd 0 (nf c0) < 0 ->
  let f := - hd 0 (nf c0) in
  In f cs /\ xmin f = true /\ nf c0 = cross_class r s f.
Proof.
  intros Hc0 Hneg f. pose proof (nf_hd_in c0 Hc0) as Hh.
  pose proof (uf_dom _ _ _ HI c0 _ Hc0 Hh) as Lh.
  assert (Hf : In f cs).
  { apply in_Ls in Lh. destruct Lh as [H|H]; [apply cs_pos in H; lia|exact H]. }
  assert (Ef : - f = hd 0 (nf c0)) by (unfold f; lia).
  split; [exact Hf|]. split.
  - apply xmin_spec; [exact Hf|]. intros z Lz Rz. rewrite Ef in Rz.
    assert (Hz : In z c0) by (apply (class_members c0 _ Hc0 Hh); auto).
    pose proof (absasc_hd_min (nf c0) z (nf_absasc c0 Hc0) (proj2 (nf_In c0 z) Hz)). lia.
  - apply absasc_unique; [now apply nf_absasc| |].
    + apply cross_class_absasc; [exact s_asc'|]. intros g Hg. apply in_s' in Hg. now apply cs_pos.
    + intros z. rewrite nf_In, (cross_class_members f z Hf), Ef. apply (class_members c0 _ Hc0 Hh).
Qed.

(* ---- the reported list ---- *)
Definition K (c : list Z) : Z := Z.abs (hd 0 c).
Definition lt2 (a b : list Z) : Prop := K a < K b \/ (K a = K b /\ hd 0 a < hd 0 b).

Lemma finish_cross_unfold :
  finish true u = dedup_by (fun a b => K a =? K b) (sort_by head_key_le (map nf u)).
Proof. unfold finish, sort_and_clean, subsets, nf. now rewrite map_map. Qed.

Lemma sorted_nf : ssorted lt2 (sort_by head_key_le (map nf u)).
Proof.
  pose proof (uf_disj _ _ _ HI) as HD.
  assert (Hne : forall c, In c u -> c <> []).
  { intros c Hc E. pose proof (uf_len _ _ _ HI c Hc) as H. rewrite E in H. cbn in H. lia. }
  apply (ssorted_impl_nodup (fun a b => head_key_le a b = true)).
  - apply (Permutation_NoDup (Permutation_sym (sort_by_perm head_key_le _))).
    apply Disj_map_NoDup; [exact nf_In|exact HD|exact Hne].
  - intros c1 c2 H1 H2 Hne12 Hle. apply sort_by_In in H1, H2. apply in_map_iff in H1, H2.
    destruct H1 as [c1' [<- H1]]. destruct H2 as [c2' [<- H2]].
    apply head_key_le_spec in Hle. unfold lt2, K.
    destruct Hle as [Hle|[Hk Hle]]; [now left|]. right. split; [exact Hk|].
    assert (hd 0 (nf c1') <> hd 0 (nf c2')); [|lia].
    intros Eh. apply Hne12. pose proof (nf_hd_in c1' H1) as F1. pose proof (nf_hd_in c2' H2) as F2.
    rewrite Eh in F1. now rewrite (Disj_unique u c1' c2' _ HD H1 H2 F1 F2).
  - apply sort_by_sorted; [exact head_key_le_total|exact head_key_le_trans].
Qed.

Lemma lt2_K (a b : list Z) : lt2 a b -> K a <= K b.
Proof. unfold lt2. intros [H|[H _]]; lia. Qed.
Lemma lt2_asym' (a b : list Z) : lt2 a b -> lt2 b a -> False.
Proof. unfold lt2. intros [H1|[H1 H2]] [H3|[H3 H4]]; lia. Qed.

Lemma in_finish_cross (c : list Z) :
  In c (finish true u) <-> exists c0, In c0 u /\ c = nf c0 /\ hd 0 c < 0.
Proof.
  rewrite finish_cross_unfold.
  rewrite (dedup_in K lt2 lt2_K lt2_asym' _ c sorted_nf).
  split.
  - intros [Hc Hfirst]. apply sort_by_In, in_map_iff in Hc. destruct Hc as [c0 [<- Hc0]].
    exists c0. split; [exact Hc0|]. split; [reflexivity|].
    destruct (mirror c0 Hc0) as [c1 [Hc1 Hm]]. pose proof (mirror_hd c0 c1 Hc0 Hc1 Hm) as Eh.
    assert (Hin1 : In (nf c1) (sort_by head_key_le (map nf u))) by (apply sort_by_In, in_map; exact Hc1).
    assert (Hk : K (nf c1) = K (nf c0)) by (unfold K; rewrite Eh; apply Z.abs_opp).
    pose proof (Ls_nonzero _ (uf_dom _ _ _ HI c0 _ Hc0 (nf_hd_in c0 Hc0))) as Hnz.
    destruct (Hfirst (nf c1) Hin1 Hk) as [E|[Hlt|[_ Hlt]]].
    + rewrite <- E in Eh. lia.
    + lia.
    + lia.
  - intros [c0 [Hc0 [-> Hneg]]]. split; [apply sort_by_In, in_map; exact Hc0|].
    intros y Hy Hk. apply sort_by_In, in_map_iff in Hy. destruct Hy as [c1 [<- Hc1]].
    unfold K in Hk. unfold lt2, K.
    destruct (Z.eq_dec (hd 0 (nf c1)) (hd 0 (nf c0))) as [Eh|Eh].
    + left. pose proof (nf_hd_in c0 Hc0) as F0. pose proof (nf_hd_in c1 Hc1) as F1. rewrite Eh in F1.
      now rewrite (Disj_unique u c0 c1 _ (uf_disj _ _ _ HI) Hc0 Hc1 F0 F1).
    + right. right. split; [lia|lia].
Qed.

Theorem finish_cross_spec : finish true u = cross_spec r cs.
Proof.
  apply (ssorted_unique (fun a b : list Z => K a < K b)).
  - intros x. lia.
  - intros x y z. lia.
  - rewrite finish_cross_unfold. exact (dedup_sorted K lt2 lt2_K _ sorted_nf).
  - rewrite cross_spec_unfold. apply ssorted_filter.
    apply (proj1 (ssorted_map (fun a b : list Z => K a < K b) (cross_class r s) (filter xmin s))).
    apply (ssorted_impl_nodup Z.lt).
    + apply NoDup_filter. apply (ssorted_NoDup Z.lt); [intros x; lia|exact s_asc'].
    + intros a b Ha Hb _ Hlt. apply filter_In in Ha, Hb. destruct Ha as [Ha Hma]. destruct Hb as [Hb Hmb].
      apply in_s' in Ha, Hb. unfold K. rewrite !hd_cross_class by assumption.
      pose proof (cs_pos a Ha). pose proof (cs_pos b Hb). lia.
    + apply ssorted_filter, s_asc'.
  - intros c. rewrite in_finish_cross, in_cross_spec. split.
    + intros [c0 [Hc0 [-> Hneg]]]. destruct (class_nf c0 Hc0 Hneg) as [F1 [F2 F3]].
      exists (- hd 0 (nf c0)). split; [exact F1|]. split; [exact F2|]. split; [exact F3|].
      rewrite nf_length. exact (uf_len _ _ _ HI c0 Hc0).
    + intros [f [Hf [Hmin [-> Hlen]]]]. pose proof (cs_pos f Hf) as Hpos.
      assert (Hasc : absasc (cross_class r s f)).
      { apply cross_class_absasc; [exact s_asc'|]. intros g Hg. apply in_s' in Hg. now apply cs_pos. }
      destruct (two_members (cross_class r s f) (- f)) as [z [Hz Hzf]];
        [apply (ssorted_NoDup (fun a b => Z.abs a < Z.abs b)); [intros x; lia|exact Hasc]|exact Hlen|].
      apply (cross_class_members f z Hf) in Hz. destruct Hz as [Lz Rz].
      assert (Lf : In (- f) Ls) by (apply in_Ls; right; now rewrite Z.opp_involutive).
      destruct (Hcomplete (- f) z Lf Lz Rz) as [E|[c0 [Hc0 [Hfc Hzc]]]]; [congruence|].
      assert (Hh : hd 0 (nf c0) = - f).
      { apply absasc_hd_is; [now apply nf_absasc|now apply nf_In|].
        intros x Hx. apply (proj1 (nf_In c0 x)) in Hx. apply (proj1 (class_members c0 (- f) Hc0 Hfc x)) in Hx.
        destruct Hx as [Lx Rx]. pose proof (proj1 (xmin_spec f Hf) Hmin x Lx Rx). lia. }
      exists c0. split; [exact Hc0|]. destruct (class_nf c0 Hc0) as [_ [_ F3]]; [lia|].
      rewrite Hh, Z.opp_involutive in F3. split; [now symmetry|]. rewrite hd_cross_class by assumption. lia.
Qed.
End CrossFinal.

(* ---- what cross_spec lists, in words: the classes of signed literals (f and -g in one class when
   they always differ) with at least two members, one of every mirrored pair (the one in which the
   smallest feature occurs negatively), members by ascending feature, classes by ascending smallest
   feature ---- *)
Lemma find_first (p : Z -> bool) (l : list Z) (x : Z) :
  ssorted Z.lt l -> find p l = Some x ->
  In x l /\ p x = true /\ forall y, In y l -> p y = true -> x <= y.
Proof.
  induction l as [|a l IH]; intros Hs Hf; [discriminate|]. cbn [find] in Hf. destruct Hs as [Ha Hs].
  destruct (p a) eqn:E.
  - inversion Hf; subst. split; [now left|]. split; [exact E|].
    intros y [<-|Hy] _; [lia|]. specialize (Ha y Hy). lia.
  - destruct (IH Hs Hf) as [H1 [H2 H3]]. split; [now right|]. split; [exact H2|].
    intros y [<-|Hy] Hp; [congruence|now apply H3].
Qed.

Section CrossMeaning.
Variables (r : Z -> Z -> bool) (Rp : Z -> Z -> Prop).
Hypothesis Hr : forall a b, r a b = true <-> Rp a b.
Hypothesis R_refl : forall a, Rp a a.
Hypothesis R_sym : forall a b, Rp a b -> Rp b a.
Hypothesis R_trans : forall a b c, Rp a b -> Rp b c -> Rp a c.
Variable cs : list Z.
Hypothesis cs_nodup : NoDup cs.
Hypothesis cs_pos : forall f, In f cs -> 0 < f.
Notation s := (sortZ cs).
Notation Ls := (flat_map (fun f => [f; - f]) cs).
Hypothesis R_opp : forall a b, In a Ls -> In b Ls -> Rp a b -> Rp (- a) (- b).
Hypothesis R_nself : forall a, In a Ls -> ~ Rp a (- a).

Let members := cross_class_members r Rp Hr R_sym R_trans cs R_nself.
Let hdclass := hd_cross_class r Rp Hr R_refl R_sym R_trans cs cs_nodup cs_pos R_nself.
Let minspec := xmin_spec r Rp Hr cs cs_pos.

Lemma abs_in_cs (z : Z) : In z Ls -> In (Z.abs z) cs /\ (z = Z.abs z \/ z = - Z.abs z).
Proof.
  intros Lz. apply in_Ls in Lz. destruct Lz as [H|H]; pose proof (cs_pos _ H).
  - rewrite Z.abs_eq by lia. auto.
  - replace (Z.abs z) with (- z) by lia. split; [exact H|right; lia].
Qed.

(* a class, given by a member t1, whose smallest feature g0 occurs negatively, is listed *)
Lemma listed (t1 t2 g0 : Z) :
  In t1 Ls -> In t2 Ls -> t1 <> t2 -> Rp t1 t2 -> In g0 cs -> Rp t1 (- g0) ->
  (forall z, In z Ls -> Rp t1 z -> g0 <= Z.abs z) ->
  exists c, In c (cross_spec r cs) /\ In t1 c /\ In t2 c.
Proof.
  intros L1 L2 Hne R12 Hg0 Rg Hmin.
  exists (cross_class r s g0).
  assert (M1 : In t1 (cross_class r s g0)) by (apply members; [exact Hg0|split; [exact L1|now apply R_sym]]).
  assert (M2 : In t2 (cross_class r s g0)).
  { apply members; [exact Hg0|]. split; [exact L2|]. apply (R_trans (- g0) t1 t2); [now apply R_sym|exact R12]. }
  split; [|split; [exact M1|exact M2]].
  apply (in_cross_spec r cs). exists g0. split; [exact Hg0|]. split; [|split; [reflexivity|]].
  - apply minspec; [exact Hg0|]. intros z Lz Rz. apply Hmin; [exact Lz|]. now apply (R_trans t1 (- g0) z).
  - destruct (cross_class r s g0) as [|x [|y c']]; cbn [length]; [destruct M1| |lia].
    destruct M1 as [<-|[]]. destruct M2 as [<-|[]]. congruence.
Qed.

Theorem cross_spec_meaning :
  (forall c, In c (cross_spec r cs) ->
     (2 <= length c)%nat /\ absasc c /\ hd 0 c < 0 /\ In (hd 0 c) c /\
     forall z, In z c <-> In z Ls /\ Rp (hd 0 c) z) /\
  (forall l1 l2, In l1 Ls -> In l2 Ls -> l1 <> l2 -> Rp l1 l2 ->
     exists c, In c (cross_spec r cs) /\
               ((In l1 c /\ In l2 c) \/ (In (- l1) c /\ In (- l2) c))) /\
  ssorted (fun c1 c2 => Z.abs (hd 0 c1) < Z.abs (hd 0 c2)) (cross_spec r cs).
Proof.
  split; [|split].
  - intros c Hc. apply (in_cross_spec r cs) in Hc. destruct Hc as [f [Hf [Hmin [-> Hlen]]]].
    pose proof (hdclass f Hf Hmin) as Hhd. pose proof (cs_pos f Hf) as Hpos.
    split; [exact Hlen|]. split.
    { apply cross_class_absasc; [now apply sortZ_lt|]. intros g Hg. apply sort_by_In in Hg. now apply cs_pos. }
    rewrite Hhd. split; [lia|]. split.
    + apply members; [exact Hf|]. split; [apply in_Ls; right; now rewrite Z.opp_involutive|apply R_refl].
    + intros z. now apply members.
  - intros l1 l2 L1 L2 Hne R12.
    set (p := fun g => r l1 g || r l1 (- g)).
    destruct (abs_in_cs l1 L1) as [Habs Hsign].
    assert (Hp : p (Z.abs l1) = true).
    { unfold p. apply orb_true_iff. destruct Hsign as [E|E]; [left|right]; rewrite <- E; apply Hr, R_refl. }
    destruct (find p s) as [g0|] eqn:Ef.
    2:{ pose proof (find_none _ _ Ef (Z.abs l1) (proj2 (sort_by_In Z.leb _ cs) Habs)) as H. congruence. }
    destruct (find_first p s g0 (sortZ_lt cs cs_nodup) Ef) as [Hg0 [Hpg Hfirst]].
    apply sort_by_In in Hg0.
    assert (Hlow : forall z, In z Ls -> Rp l1 z \/ Rp l1 (- z) -> g0 <= Z.abs z).
    { intros z Lz HRz. destruct (abs_in_cs z Lz) as [Hzabs Hzs].
      apply Hfirst; [now apply sort_by_In|]. unfold p. apply orb_true_iff.
      destruct HRz as [HRz|HRz], Hzs as [E|E].
      - left. rewrite <- E. now apply Hr.
      - right. rewrite <- E. now apply Hr.
      - right. replace (- Z.abs z) with (- z) by lia. now apply Hr.
      - left. replace (Z.abs z) with (- z) by lia. now apply Hr. }
    unfold p in Hpg. destruct (r l1 (- g0)) eqn:E2.
    + apply Hr in E2.
      destruct (listed l1 l2 g0 L1 L2 Hne R12 Hg0 E2) as [c [Hc [M1 M2]]].
      { intros z Lz Rz. apply Hlow; [exact Lz|now left]. }
      exists c. split; [exact Hc|now left].
    + rewrite orb_false_r in Hpg. apply Hr in Hpg.
      assert (Lg : In g0 Ls) by (apply in_Ls; now left).
      destruct (listed (- l1) (- l2) g0) as [c [Hc [M1 M2]]].
      * now apply Ls_opp.
      * now apply Ls_opp.
      * lia.
      * now apply R_opp.
      * exact Hg0.
      * now apply R_opp.
      * intros z Lz Rz. apply Hlow; [exact Lz|]. right.
        pose proof (R_opp (- l1) z (Ls_opp cs l1 L1) Lz Rz) as H. now rewrite Z.opp_involutive in H.
      * exists c. split; [exact Hc|now right].
  - rewrite (cross_spec_unfold r cs). apply ssorted_filter.
    apply (proj1 (ssorted_map (fun a b : list Z => Z.abs (hd 0 a) < Z.abs (hd 0 b)) (cross_class r s)
                               (filter (xmin r cs) s))).
    apply (ssorted_impl_nodup Z.lt).
    + apply NoDup_filter. apply (ssorted_NoDup Z.lt); [intros x; lia|now apply sortZ_lt].
    + intros a b Ha Hb _ Hlt. apply filter_In in Ha, Hb. destruct Ha as [Ha Hma]. destruct Hb as [Hb Hmb].
      apply sort_by_In in Ha, Hb. rewrite (hdclass a Ha Hma), (hdclass b Hb Hmb).
      pose proof (cs_pos a Ha). pose proof (cs_pos b Hb). lia.
    + apply ssorted_filter. now apply sortZ_lt.
Qed.
End CrossMeaning.

(* ---- the property theorem, cross mode ---- *)
Theorem atomic_cross_correct (C : circuit) (n : nat) (A : cfg) (cands : option (list Z))
        (chs : list choice) (s : scratch) :
  WFQ C n -> in_range n A -> 0 < MCA C n A -> Z.of_nat n <= 32767 -> cands_ok n cands ->
  samples_valid C n A chs -> Clean C s ->
  exists s' ok,
    get_atomic_sets (build C n) cands A true chs s =
      (s', Some (cross_spec (eqvb C n A) (cand_list n cands)), ok) /\ Clean C s'.
Proof.
  intros HQ HA Hpos Hn Hc Hsv Hcl. destruct (cand_list_ok n cands Hc) as [Hnd Hrange].
  rewrite get_atomic_sets_unfold. cbn [nv build]. fold (cand_list n cands).
  destruct (cand_list n cands) as [|f0 fs0] eqn:Efs.
  { exists s, true. split; [reflexivity|exact Hcl]. }
  rewrite <- Efs in *.
  destruct (run_body_spec C n A true (cand_list n cands) chs s HQ HA Hpos Hn Hrange Hsv Hcl)
    as [s' [ok [u [E [Hc' [HI Hcomp]]]]]].
  exists s', ok. split; [|exact Hc']. rewrite E. do 3 f_equal. cbn [lits_of] in HI, Hcomp.
  assert (HLs : forall l, In l (flat_map (fun f => [f; - f]) (cand_list n cands)) ->
                          1 <= Z.abs l <= Z.of_nat n).
  { intros l Hl. apply in_flat_map in Hl. destruct Hl as [f [Hf [<-|[<-|[]]]]]; specialize (Hrange f Hf); lia. }
  apply (finish_cross_spec (eqvb C n A) (Eqv C n A) (eqvb_spec C n A) (Eqv_refl C n A)
           (Eqv_sym C n A) (Eqv_trans C n A) (cand_list n cands) Hnd).
  - intros f Hf. specialize (Hrange f Hf). lia.
  - intros a b La Lb. apply Eqv_opp; [now apply HLs|now apply HLs].
  - intros a La. apply Eqv_opp_self; [now apply HLs|exact Hpos].
  - exact HI.
  - exact Hcomp.
Qed.

(* ---- the two specification functions instantiated with "same value in every model containing
   the assumptions" ---- *)
Theorem atomic_plain_meaning (C : circuit) (n : nat) (A : cfg) (cs : list Z) : NoDup cs ->
  (forall c, In c (classes_spec (eqvb C n A) cs) ->
     (2 <= length c)%nat /\ ssorted Z.lt c /\
     In (hd 0 c) c /\ forall z, In z c <-> In z cs /\ Eqv C n A (hd 0 c) z) /\
  (forall f g, In f cs -> In g cs -> f <> g -> Eqv C n A f g ->
     exists c, In c (classes_spec (eqvb C n A) cs) /\ In f c /\ In g c) /\
  ssorted (fun c1 c2 => hd 0 c1 < hd 0 c2) (classes_spec (eqvb C n A) cs).
Proof.
  apply (classes_spec_meaning (eqvb C n A) (Eqv C n A) (eqvb_spec C n A) (Eqv_refl C n A)
           (Eqv_sym C n A) (Eqv_trans C n A)).
Qed.

Theorem atomic_cross_meaning (C : circuit) (n : nat) (A : cfg) (cs : list Z) :
  NoDup cs -> (forall f, In f cs -> 1 <= f <= Z.of_nat n) -> 0 < MCA C n A ->
  let Ls := flat_map (fun f => [f; - f]) cs in
  (forall c, In c (cross_spec (eqvb C n A) cs) ->
     (2 <= length c)%nat /\ absasc c /\ hd 0 c < 0 /\ In (hd 0 c) c /\
     forall z, In z c <-> In z Ls /\ Eqv C n A (hd 0 c) z) /\
  (forall l1 l2, In l1 Ls -> In l2 Ls -> l1 <> l2 -> Eqv C n A l1 l2 ->
     exists c, In c (cross_spec (eqvb C n A) cs) /\
               ((In l1 c /\ In l2 c) \/ (In (- l1) c /\ In (- l2) c))) /\
  ssorted (fun c1 c2 => Z.abs (hd 0 c1) < Z.abs (hd 0 c2)) (cross_spec (eqvb C n A) cs).
Proof.
  intros Hnd Hrange Hpos Ls.
  assert (HLs : forall l, In l Ls -> 1 <= Z.abs l <= Z.of_nat n).
  { intros l Hl. apply in_flat_map in Hl. destruct Hl as [f [Hf [<-|[<-|[]]]]]; specialize (Hrange f Hf); lia. }
  apply (cross_spec_meaning (eqvb C n A) (Eqv C n A) (eqvb_spec C n A) (Eqv_refl C n A)
           (Eqv_sym C n A) (Eqv_trans C n A) cs Hnd).
  - intros f Hf. specialize (Hrange f Hf). lia.
  - intros a b La Lb. apply Eqv_opp; [now apply HLs|now apply HLs].
  - intros a La. apply Eqv_opp_self; [now apply HLs|exact Hpos].
Qed.
